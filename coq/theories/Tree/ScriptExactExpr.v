(** Column lineage chains across statements, end to end (C04 on the tree model), for scripts whose statements may
    have EXPRESSION select items.

    [script_exact_on_core_x]: for every list of statements INSERT [cols] / CREATE TABLE AS / CREATE VIEW AS over one
    SELECT from distinct base tables whose items are stars, column references or ALIASED expressions of any depth
    (guards [stmt_ok_x], [colshape] of Lemma Bx, Tree/LemmaBExpr*.v), all references resolved at statement level
    ([resolved_x]: every reference is qualified, or the SELECT has one table), rendered by [r_stmt_x] with arbitrary
    trivia, analysed without metadata, the whole pipeline ([analyze], [run_statements], [build], [column_lineage]:
    [script_pairs]) reports exactly [spec_script_pairs] - statements in any order, cycles allowed.

    The proof re-uses the assembly of Tree/ScriptExact.v ([lineage_match], [c04_main]); what is new is the statement
    theorem [core_statement_x]: the holder the extractor returns for a statement with expression items satisfies the
    conjuncts of [c04_hyps] (plain, resolved, closed) and its column edges are exactly the specified flows.  An
    expression item contributes one flow per (distinct) column it mentions; the model side is [select_core_x] /
    [select_core_cols_x] (LemmaBExpr2/3.v) + [holder_facts] (ScriptExact.v), the specification side goes through the
    items [expand i] (one aliased column reference per reference of the expression). *)
From Coq Require Import Lia Permutation.
From SV Require Import Tree.Render Tree.RenderExpr Tree.ExprItem Tree.LemmaA Tree.LemmaAProofs Tree.LemmaB Tree.LemmaBProofs
     Tree.LemmaBExpr Tree.LemmaBExpr2 Tree.LemmaBExpr3 Ident.Escape Ident.EscapeProofs Holder.PathProofs Holder.SortProofs
     Tree.ProviderProofs Tree.ScriptExact Tree.ScriptExactExt Tree.ScriptWellFormed Tree.ScriptWellFormedExt.
From SV Require Holder.RefineDefs Holder.RefineGraph Holder.CompDefs Holder.Composition.

(* ================================================================== *)
(** * Part 1: the fragment, the checker, tests *)

Definition is_some {A} (o : option A) : bool := match o with Some _ => true | None => false end.

(** every column reference is resolved at statement level: the SELECT has one table, or every reference of every
    item (at any depth of an expression) is qualified, and every star is qualified *)
Definition item_resolved (i : item) : bool :=
  match i with
  | IExpr ex _ => forallb (fun r : option string * string => is_some (fst r)) (col_refs ex)
  | IStar q => is_some q
  end.
Definition resolved_x (s : Spec.stmt) : bool :=
  match stmt_query s with
  | Some (QSelect items from _ _) => match from with [_] => true | _ => forallb item_resolved items end
  | _ => true
  end.

Definition core_ok_x (s : Spec.stmt) : bool := stmt_ok_x s && colshape s && resolved_x s.

Definition script_check_x (noise : list seg) (e : env) (ss : list Spec.stmt) : string :=
  if negb (noise_ok noise && env_ok e && forallb core_ok_x ss) then "outside"
  else if list_eqb (script_pairs e false [] (map (r_stmt_x noise) ss)) (spec_script_pairs (e_cfg e) ss) then "holds" else "FAILS".

Module TestsX.
  Import Tests.
  Definition cr_ (n : string) : expr := EColRef None n.
  Definition qr (q n : string) : expr := EColRef (Some q) n.
  Definition xa (ex : expr) (a : string) : item := IExpr ex (Some a).

  Definition tests_x : list (list Spec.stmt) :=
    [ (* 1 the chain through an expression: s.a -> f.d and s.b -> f.d *)
      [ins "m" (sel [xa (EBin (cr_ "a") (cr_ "b")) "c"] [T "s"]); ins "f" (sel [xa (EFun (cr_ "c") ELit) "d"] [T "m"])];
      (* 2 one column used twice in an expression, a literal-only item *)
      [ins "m" (sel [xa (EBin (cr_ "a") (cr_ "a")) "c"; xa ELit "one"] [T "s"]); ins "f" (sel [c_ "c"; c_ "one"] [T "m"])];
      (* 3 CASE / CAST / window function over two qualified tables, then a view *)
      [ctas "m" (sel [xa (ECase (qr "s" "a") (qr "u" "b") (ECast (qr "s" "c"))) "k";
                      xa (EWin (qr "u" "x") (qr "s" "p") (qr "u" "o")) "w"] [T "s"; T "u"]);
       view "v" (sel [xa (EBin (cr_ "k") (cr_ "w")) "z"] [T "m"])];
      (* 4 INSERT with a column list over expression items *)
      [insc "m" ["p"; "q"] (sel [xa (EBin (cr_ "a") (cr_ "b")) "c"; xa (EFun (cr_ "b") ELit) "d"] [T "s"]);
       insc "f" ["r"] (sel [xa (EBin (cr_ "p") (cr_ "q")) "x"] [T "m"])];
      (* 5 a cycle through expressions, with an entry and an exit *)
      [ins "a" (sel [xa (EBin (cr_ "x") ELit) "x"] [T "r"]); ins "b" (sel [xa (ECast (cr_ "x")) "x"] [T "a"]);
       ins "a" (sel [xa (EFun (cr_ "x") (cr_ "x")) "x"] [T "b"]); ins "t" (sel [c_ "x"] [T "b"])];
      (* 6 the table is read before it is written; star next to an expression *)
      [ins "f" (sel [IStar None; xa (EBin (cr_ "c") ELit) "d"] [T "m"]); ins "m" (sel [xa (EBin (cr_ "a") (cr_ "b")) "c"] [T "s"])];
      (* 7 diamond closing in one expression *)
      [ins "b" (sel [c_ "x"] [T "a"]); ins "c" (sel [ca "x" "y"] [T "a"]);
       ins "d" (sel [xa (EBin (qr "b" "x") (qr "c" "y")) "z"] [T "b"; T "c"])];
      (* 8 aliases of tables inside expressions *)
      [ins "m" (sel [xa (EFun (qr "p" "a") (qr "q" "a")) "c"] [TA "s" "p"; TA "u" "q"]); ins "f" (sel [ca "c" "d"] [T "m"])];
      (* 9 only old-style items: the statement is also in the fragment *)
      [ins "b" (sel [c_ "x"; c_ "y"] [T "a"]); ins "c" (sel [c_ "x"] [T "b"])];
      (* 10 the empty script *)
      [] ].

  Example tests_x_hold :
    map (script_check_x [] e0) tests_x = map (fun _ => "holds") tests_x /\
    map (script_check_x [ws; cm] e1) tests_x = map (fun _ => "holds") tests_x.
  Proof. vm_compute. split; reflexivity. Qed.

  Example tests_x_reported :
    map (spec_script_pairs "") (firstn 5 tests_x) =
    [["<default>.s.a><default>.f.d"; "<default>.s.b><default>.f.d"];
     ["<default>.m.one><default>.f.one"; "<default>.s.a><default>.f.c"];
     ["<default>.s.a><default>.v.z"; "<default>.s.c><default>.v.z"; "<default>.s.p><default>.v.z";
      "<default>.u.b><default>.v.z"; "<default>.u.o><default>.v.z"; "<default>.u.x><default>.v.z"];
     ["<default>.s.a><default>.f.r"; "<default>.s.b><default>.f.r"];
     ["<default>.r.x><default>.t.x"]].
  Proof. vm_compute. reflexivity. Qed.
End TestsX.

(* ================================================================== *)
(** * Part 2: the guard in the form of ScriptExact.v, on the expanded items *)
Definition old_res (i : item) : bool := match snd (item_ref i) with Some _ => true | None => false end.

Lemma resolved_expand i i' : item_ok_x i = true -> item_resolved i = true -> In i' (expand i) -> old_res i' = true.
Proof.
  intros Hok Hr Hi'. destruct i as [ex [a|]|qq].
  - cbn [expand] in Hi'. apply in_map_iff in Hi'. destruct Hi' as (r & <- & Hin). cbn [item_resolved] in Hr.
    rewrite forallb_forall in Hr. specialize (Hr r Hin). unfold old_res. cbn [item_ref snd]. destruct (fst r); [reflexivity|discriminate Hr].
  - destruct ex as [q c| | | | | |]; try discriminate Hok. destruct Hi' as [<-|[]]. cbn [item_resolved col_refs forallb fst] in Hr.
    unfold old_res. cbn [item_ref snd]. destruct q; [reflexivity|discriminate Hr].
  - destruct Hi' as [<-|[]]. unfold old_res. cbn [item_ref snd]. destruct qq; [reflexivity|discriminate Hr].
Qed.

Lemma resolved_items2 (items : list item) (from : list rel) :
  forallb item_ok_x items = true ->
  match from with [_] => true | _ => forallb item_resolved items end = true ->
  match from with
  | [_] => true
  | _ => forallb (fun i => match snd (item_ref i) with Some _ => true | None => false end) (items2 items)
  end = true.
Proof.
  intros Hit H.
  assert (K : forallb item_resolved items = true ->
              forallb (fun i => match snd (item_ref i) with Some _ => true | None => false end) (items2 items) = true).
  { intros Hr. apply forallb_forall. intros i' Hi'. unfold items2 in Hi'. apply in_flat_map in Hi'. destruct Hi' as (i & Hi & Hi').
    rewrite forallb_forall in Hit, Hr. exact (resolved_expand i i' (Hit i Hi) (Hr i Hi) Hi'). }
  destruct from as [|r [|r' l]]; [apply K; exact H|reflexivity|apply K; exact H].
Qed.

Lemma old_restrict (items : list item) (from : list rel) i' :
  match from with
  | [_] => true
  | _ => forallb (fun i => match snd (item_ref i) with Some _ => true | None => false end) items
  end = true -> In i' items ->
  match from with
  | [_] => true
  | _ => forallb (fun i => match snd (item_ref i) with Some _ => true | None => false end) [i']
  end = true.
Proof.
  intros H Hi'.
  assert (K : forallb (fun i => match snd (item_ref i) with Some _ => true | None => false end) items = true ->
              forallb (fun i => match snd (item_ref i) with Some _ => true | None => false end) [i'] = true).
  { intros Hf. rewrite forallb_forall in Hf. cbn [forallb]. rewrite (Hf i' Hi'). reflexivity. }
  destruct from as [|r [|r' l]]; [apply K; exact H|reflexivity|apply K; exact H].
Qed.

(* ================================================================== *)
(** * Part 3: the specification side: an expression item has one flow per column reference *)
Lemma dedup_resolve_In ds from refs s0 :
  In s0 (dedup_src (flat_map (resolve (map (sbind ds) from)) refs) []) <-> In s0 (flat_map (resolve (map (sbind ds) from)) refs).
Proof.
  split; [apply dedup_src_sub'|]. intros H. apply dedup_src_complete'; [|exact H|intros []].
  assert (Hsh : forall x, In x (flat_map (resolve (map (sbind ds) from)) refs) -> src_shape (cands_K (map (sbind ds) from)) x).
  { intros x Hx. apply in_flat_map in Hx. destruct Hx as (r & _ & Hx). exact (resolve_shape ds from r x Hx). }
  intros x y Hx Hy. rewrite app_nil_r in Hy. apply (shape_eqb_eq (cands_K (map (sbind ds) from))); [apply Hsh; exact Hx|apply Hsh; exact Hy].
Qed.

Lemma src_edges_In T nm srcs p :
  In p (src_edges T nm srcs) <-> exists sr, In sr srcs /\ In p (map (fun v : vtx => (v, (T, nm))) (src_vtx sr)).
Proof. unfold src_edges. apply in_flat_map. Qed.

Lemma src_edges_expr ds from T nm ex p :
  In p (src_edges T nm (dedup_src (flat_map (resolve (map (sbind ds) from)) (col_refs ex)) [])) <->
  exists r, In r (col_refs ex) /\
            In p (src_edges T nm (dedup_src (flat_map (resolve (map (sbind ds) from)) [(fst r, snd r)]) [])).
Proof.
  rewrite src_edges_In. split.
  - intros (sr & Hsr & Hp). apply dedup_resolve_In in Hsr. apply in_flat_map in Hsr. destruct Hsr as (r & Hr & Hsr).
    exists r. split; [exact Hr|]. apply src_edges_In. exists sr. split; [|exact Hp]. apply dedup_resolve_In.
    cbn [flat_map]. rewrite app_nil_r. destruct r; exact Hsr.
  - intros (r & Hr & Hp). apply src_edges_In in Hp. destruct Hp as (sr & Hsr & Hp). exists sr. split; [|exact Hp].
    apply dedup_resolve_In. apply dedup_resolve_In in Hsr. cbn [flat_map] in Hsr. rewrite app_nil_r in Hsr.
    apply in_flat_map. exists r. split; [exact Hr|]. destruct r; exact Hsr.
Qed.

(** [stmt_edges] of an INSERT with a column list, when every item is one output column (whatever its name) *)
Lemma stmt_edges_insert_cols_x ds t cs items from cj :
  forallb is_rtable from = true -> List.length cs = List.length items ->
  (forall i, In i items -> exists nm srcs, item_cols (map (sbind ds) from) i = [(nm, srcs)]) ->
  stmt_edges ds (SInsert t (Some cs) (QSelect items from cj None)) =
  flat_map (fun ic : item * string => src_edges (tref_str ds t) (snd ic) (flat_map snd (item_cols (map (sbind ds) from) (fst ic))))
           (combine items cs).
Proof.
  intros Hrt Hlen Hs. unfold stmt_edges. rewrite (q_cols_select _ ds items from cj None Hrt).
  set (IC := item_cols (map (sbind ds) from)) in *.
  assert (Hl : List.length (flat_map IC items) = List.length items).
  { apply length_flat_single. intros i Hi. destruct (Hs i Hi) as (nm & srcs & E). eexists. exact E. }
  rewrite Hl, Hlen, Nat.eqb_refl. clear Hl.
  revert cs Hlen. induction items as [|i r IH]; intros [|c cr] Hlen; cbn [List.length] in Hlen; try discriminate; [reflexivity|].
  destruct (Hs i (or_introl eq_refl)) as (nm & srcs & E). cbn [flat_map combine fst snd]. rewrite E. cbn [app combine flat_map fst snd].
  rewrite app_nil_r. f_equal. apply IH; [intros i' Hi'; apply Hs; right; exact Hi'|lia].
Qed.

Lemma edges_match_ext G Es Es' : (forall p, In p Es <-> In p Es') -> edges_match G Es -> edges_match G Es'.
Proof.
  intros H HM x y. rewrite (HM x y). split; intros (u & v & Huv & K); exists u, v; (split; [apply H; exact Huv|exact K]).
Qed.

(* ================================================================== *)
(** * Part 4: one statement with expression items *)
Section StmtX.
Variables (noise : list seg) (e : env) (t : tref) (items : list item) (from : list rel) (cj : bool).
Hypothesis Hn : noise_ok noise = true.
Hypothesis He : env_ok e = true.
Hypothesis Ht : tref_ok t = true.
Hypothesis Hit : forallb item_ok_x items = true.
Hypothesis Hne : from <> [].
Hypothesis Hrel : forallb rel_ok from = true.
Hypothesis Htc : tables_cond (e_cfg e) t from.
Hypothesis Hic : items_cond from (items2 items).
Hypothesis Huq : match from with
                 | [_] => true
                 | _ => forallb (fun i => match snd (item_ref i) with Some _ => true | None => false end) (items2 items)
                 end = true.

Let d := tbl e t None.
Let ts := map (tbl_of e) from.
Let xs := map xcol_x items.
Let xs' := flat_map split_x xs.
Let T := tref_str (e_cfg e) t.
Let scope := map (sbind (e_cfg e)) from.

Lemma X_it2 : forallb item_ok (items2 items) = true. Proof. exact (items2_ok items Hit). Qed.
Lemma X_go : group_ok d ts. Proof. exact (group_ok_of e t from Hrel Htc). Qed.
Lemma X_inj : ts_inj ts. Proof. exact (ts_inj_of e t from Hrel Htc). Qed.
Lemma X_nd : names_nodot ts. Proof. exact (names_nodot_of e from Hrel). Qed.
Lemma X_rt : forallb is_rtable from = true.
Proof. rewrite forallb_forall in *. intros r Hr. apply rel_ok_table. apply Hrel. exact Hr. Qed.
Lemma X_item i : In i items -> item_ok_x i = true.
Proof. intros Hi. rewrite forallb_forall in Hit. apply Hit. exact Hi. Qed.
Lemma X_in2 i i' : In i items -> In i' (expand i) -> In i' (items2 items).
Proof. intros Hi Hi'. unfold items2. apply in_flat_map. exists i. auto. Qed.
Lemma X_ok2 i' : In i' (items2 items) -> item_ok i' = true.
Proof. intros H. pose proof X_it2 as K. rewrite forallb_forall in K. apply K. exact H. Qed.
Lemma X_res i' : In i' (items2 items) -> item_res from i'.
Proof. intros H. exact (unq_single_res (items2 items) from Huq Hic i' H). Qed.

(** an expanded item: its reference is in scope and resolved to one table of the scope *)
Lemma X_split i' : In i' (items2 items) ->
  xref_ok ts (xcol_of i') /\
  (forall s, In s (S_of ts (xcol_of i')) -> PC4 ts [] s /\ forall p, In p (cparents s) -> In p ts) /\
  (forall s, In s (S_of ts (xcol_of i')) -> exists v, In v ts /\ cparents s = [v]).
Proof.
  intros Hi'.
  assert (Hok : xref_ok ts (xcol_of i')).
  { apply (xref_ok_of e t from (items2 items) Hrel X_it2 Htc Hic). apply in_map. exact Hi'. }
  assert (Hun : unres_names ts [xcol_of i'] = []).
  { apply (unq_single_unres e [i'] from (old_restrict (items2 items) from i' Huq Hi')). cbn [forallb]. rewrite (X_ok2 i' Hi'). reflexivity. }
  destruct (S_of_props d ts [xcol_of i'] (xcol_of i') X_go X_inj eq_refl (or_introl eq_refl) Hok) as (_ & _ & _ & A4 & A5).
  rewrite Hun in A4, A5. split; [exact Hok|]. split; [exact A4|].
  intros s Hs. destruct (A5 s Hs) as [K|(nm & [] & _)]. exact K.
Qed.

Lemma X_sp x : In x xs -> forall x', In x' (split_x x) -> In x' xs' /\ xref_ok ts x'.
Proof.
  intros Hx x' Hx'. split; [unfold xs'; apply in_flat_map; exists x; auto|].
  unfold xs in Hx. apply in_map_iff in Hx. destruct Hx as (i & <- & Hi).
  apply (split_expand i x' (X_item i Hi)) in Hx'. apply in_map_iff in Hx'. destruct Hx' as (i' & <- & Hi').
  exact (proj1 (X_split i' (X_in2 i i' Hi Hi'))).
Qed.

Lemma X_Sm x : In x xs -> forall s0, In s0 (S_x ts x) <-> exists x', In x' (split_x x) /\ In s0 (S_of ts x').
Proof. intros Hx. apply (S_x_members d ts xs' x X_go X_inj eq_refl (X_sp x Hx)). Qed.

Lemma X_src x : In x xs -> forall s0, In s0 (S_x ts x) ->
  (PC4 ts [] s0 /\ forall p, In p (cparents s0) -> In p ts) /\ exists v, In v ts /\ cparents s0 = [v].
Proof.
  intros Hx s0 Hs0. apply (X_Sm x Hx) in Hs0. destruct Hs0 as (x' & Hx' & Hs0).
  unfold xs in Hx. apply in_map_iff in Hx. destruct Hx as (i & <- & Hi).
  apply (split_expand i x' (X_item i Hi)) in Hx'. apply in_map_iff in Hx'. destruct Hx' as (i' & <- & Hi').
  destruct (X_split i' (X_in2 i i' Hi Hi')) as (_ & A4 & A5). split; [exact (A4 s0 Hs0)|exact (A5 s0 Hs0)].
Qed.

Lemma X_c0 x : In x xs -> cparents (xc x) = [].
Proof. intros Hx. unfold xs in Hx. apply in_map_iff in Hx. destruct Hx as (i & <- & _). apply xcol_x_noparents. Qed.

Lemma X_do : Forall data_ok ts.
Proof.
  apply Forall_forall. intros v Hv. unfold data_ok. rewrite (go_tables _ _ X_go v Hv).
  apply in_map_iff in Hv. destruct Hv as (r & <- & _). destruct r; reflexivity.
Qed.

Lemma X_HS g2 x : sel_inv (PC4 ts []) d ts g2 -> In x xs -> to_source_columns e x (get_alias_mapping g2 ts) = Ok (S_x ts x).
Proof.
  intros Hinv Hx. apply (HS_of_x (PC4 ts []) e d ts g2 x X_go X_inj X_nd Hinv). intros x' Hx'. exact (proj2 (X_sp x Hx x' Hx')).
Qed.

(** ** the holder: INSERT without column list / CTAS / VIEW *)
Lemma holder_select_x (s : Spec.stmt) :
  (s = SInsert t None (QSelect items from cj None) \/ s = SCtas t (QSelect items from cj None) \/ s = SView t (QSelect items from cj None)) ->
  exists G, analyze e false (r_stmt_x noise s) = Ok G /\ core_facts G (flows_of (S_x ts) (own_pairs d xs)) /\
            forall f, In f (flows_of (S_x ts) (own_pairs d xs)) -> tcol (fst f) /\ tcol (snd f).
Proof.
  intros Hs.
  assert (Hp : p_truthy (e_provider e) = false) by exact (proj1 (env_facts e He)).
  assert (Ea : analyze e false (r_stmt_x noise s) = sel_holder_x e (add_write empty_graph d) items from).
  { destruct Hs as [->|[->| ->]].
    - apply (analyze_insert_x noise Hn e He t None items from cj Ht I Hit Hne Hrel).
    - apply (analyze_create_x noise Hn e He false t items from cj Ht Hit Hne Hrel).
    - apply (analyze_create_x noise Hn e He true t items from cj Ht Hit Hne Hrel). }
  unfold sel_holder_x in Ea. change (map (tbl_of e) from) with ts in Ea. change (map xcol_x items) with xs in Ea.
  destruct (select_core_x (PC4 ts []) e d ts xs (S_x ts) Hp X_go X_do eq_refl (fun c Hc => PC4_qk d ts [] c X_go X_inj Hc)) as (sub & Esub & Xsub & Isub).
  - intros g2 Hinv x Hx. exact (X_HS g2 x Hinv Hx).
  - intros x Hx. split; [exact (X_c0 x Hx)|]. split; [rewrite (own_col_eq d x (X_c0 x Hx)); left; exists d; auto|].
    intros s0 Hs0. exact (proj1 (X_src x Hx s0 Hs0)).
  - rewrite Esub in Ea. exists (compose (add_write empty_graph d) sub). split; [exact Ea|].
    assert (Hop : forall p0, In p0 (own_pairs d xs) -> In (fst p0) xs /\ snd p0 = own_col d (fst p0)).
    { intros p0 Hp0. unfold own_pairs in Hp0. apply in_map_iff in Hp0. destruct Hp0 as (x & <- & Hx). auto. }
    split.
    + apply (holder_facts d ts (own_pairs d xs) (S_x ts) (add_write empty_graph d) sub X_go X_inj eq_refl).
      * intros p0 Hp0. destruct (Hop p0 Hp0) as [Hx Ep]. split.
        -- rewrite Ep, (own_col_eq d _ (X_c0 _ Hx)). eexists. reflexivity.
        -- intros s0 Hs0. exact (proj2 (X_src _ Hx s0 Hs0)).
      * split; [intros n [<-|[]]; left; reflexivity|intros e0 []].
      * intros n a [H|[]]; inversion H; intros [K|[]]; discriminate K.
      * intros e0 [].
      * reflexivity.
      * reflexivity.
      * intros x y Hxy. discriminate Hxy.
      * exact Xsub.
      * exact Isub.
    + intros f Hf. unfold flows_of in Hf. apply in_flat_map in Hf. destruct Hf as (p0 & Hp0 & Hf). apply in_map_iff in Hf.
      destruct Hf as (s0 & <- & Hs0). destruct (Hop p0 Hp0) as [Hx Ep]. cbn [fst snd]. split.
      * destruct (proj2 (X_src _ Hx s0 Hs0)) as (v & Hv & Ev). exists v. split; [exact Ev|]. exact (ts_tcol e from v Hrel Hv).
      * rewrite Ep, (own_col_eq d _ (X_c0 _ Hx)). exists d. split; [reflexivity|]. apply tbl_tcol_parent.
Qed.

(** ** the holder: INSERT with a column list *)
Lemma holder_insert_cols_x cs :
  forallb id_ok cs = true -> NoDup cs -> List.length cs = List.length items ->
  exists G, analyze e false (r_stmt_x noise (SInsert t (Some cs) (QSelect items from cj None))) = Ok G /\
            core_facts G (flows_of (S_x ts) (combine xs (map (Wcol d) cs))) /\
            forall f, In f (flows_of (S_x ts) (combine xs (map (Wcol d) cs))) -> tcol (fst f) /\ tcol (snd f).
Proof.
  intros Hcs Hndc Hlen.
  assert (Hp : p_truthy (e_provider e) = false) by exact (proj1 (env_facts e He)).
  pose proof (analyze_insert_x noise Hn e He t (Some cs) items from cj Ht (conj Hcs Hndc) Hit Hne Hrel) as Ea.
  unfold sel_holder_x in Ea. change (tbl e t None) with d in Ea. change (map (tbl_of e) from) with ts in Ea. change (map xcol_x items) with xs in Ea.
  assert (Hlx : List.length xs = List.length cs) by (unfold xs; rewrite map_length; lia).
  assert (HW : forall c, In c cs -> PC4 ts [] (Wcol d c)) by (intros c _; left; exists d; auto).
  destruct (select_core_cols_x (PC4 ts []) e d ts cs xs (S_x ts) Hp X_go X_do eq_refl Hndc Hlx (fun c Hc => PC4_qk d ts [] c X_go X_inj Hc)) as (sub & Esub & Xsub & Isub).
  - intros g2 Hinv x Hx. exact (X_HS g2 x Hinv Hx).
  - intros x Hx s0 Hs0. exact (proj1 (X_src x Hx s0 Hs0)).
  - exact HW.
  - rewrite Esub in Ea. exists (compose (gb_of d cs) sub). split; [exact Ea|].
    destruct (gb_facts d cs eq_refl Hndc) as (GA & GB & GC & GD & GO).
    assert (Hop : forall p0, In p0 (combine xs (map (Wcol d) cs)) -> In (fst p0) xs /\ exists c, In c cs /\ snd p0 = Wcol d c).
    { intros [x w] Hp0. split; [exact (in_combine_l _ _ _ _ Hp0)|]. apply in_combine_r in Hp0. apply in_map_iff in Hp0.
      destruct Hp0 as (c & <- & Hc). exists c. auto. }
    split.
    + apply (holder_facts d ts (combine xs (map (Wcol d) cs)) (S_x ts) (gb_of d cs) sub X_go X_inj eq_refl).
      * intros p0 Hp0. destruct (Hop p0 Hp0) as [Hx (c & _ & Ep)]. split; [rewrite Ep; eexists; reflexivity|].
        intros s0 Hs0. exact (proj2 (X_src _ Hx s0 Hs0)).
      * split.
        -- intros n Hn0. rewrite GB in Hn0. destruct Hn0 as [<-|Hn0]; [left; reflexivity|]. apply in_map_iff in Hn0. destruct Hn0 as (c & <- & Hc). apply HW. exact Hc.
        -- intros e0 He0. rewrite GA in He0. destruct (OE_edge d cs e0 He0) as (j & c & Hc & ->). cbn [fst snd QK]. split; [left; reflexivity|apply HW; exact Hc].
      * exact GD.
      * intros e0 He0. rewrite GA in He0. destruct (OE_edge d cs e0 He0) as (j & c & _ & ->). reflexivity.
      * intros x y Hx. destruct (has_edge (gb_of d cs) x y) eqn:E; [|reflexivity]. apply has_edge_In in E. destruct E as (e0 & He0 & E1 & _).
        rewrite GA in He0. destruct (OE_edge d cs e0 He0) as (j & c & _ & ->). cbn [fst] in E1. destruct x; try discriminate.
      * intros p c Hp0. destruct (has_edge (gb_of d cs) (NData p) (NCol c)) eqn:E; [|reflexivity]. apply has_edge_In in E. destruct E as (e0 & He0 & E1 & _).
        rewrite GA in He0. destruct (OE_edge d cs e0 He0) as (j & c0 & _ & ->). cbn [fst node_eqb] in E1.
        rewrite (go_target _ _ X_go p Hp0) in E1. discriminate.
      * intros x y Hxy. apply has_edge_In in Hxy. destruct Hxy as (e0 & He0 & E1 & E2). rewrite GA in He0.
        destruct (OE_edge d cs e0 He0) as (j & c & Hc & ->). cbn [fst snd] in E1, E2.
        assert (N1 : has_node (gb_of d cs) (NData d) = true).
        { apply has_node_In. exists (NData d). split; [rewrite GB; left; reflexivity|apply node_eqb_refl]. }
        assert (N2 : has_node (gb_of d cs) (NCol (Wcol d c)) = true).
        { apply has_node_In. exists (NCol (Wcol d c)). split; [rewrite GB; right; apply in_map_iff; exists c; auto|apply node_eqb_refl]. }
        rewrite (RefineGraph.has_node_cong _ x _ E1), (RefineGraph.has_node_cong _ y _ E2). auto.
      * exact Xsub.
      * exact Isub.
    + intros f Hf. unfold flows_of in Hf. apply in_flat_map in Hf. destruct Hf as (p0 & Hp0 & Hf). apply in_map_iff in Hf.
      destruct Hf as (s0 & <- & Hs0). destruct (Hop p0 Hp0) as [Hx (c & _ & Ep)]. cbn [fst snd]. split.
      * destruct (proj2 (X_src _ Hx s0 Hs0)) as (v & Hv & Ev). exists v. split; [exact Ev|]. exact (ts_tcol e from v Hrel Hv).
      * rewrite Ep. exists d. split; [reflexivity|]. apply tbl_tcol_parent.
Qed.

(** ** the specified flows, item by item *)
Lemma X_members_expand i (W : column) p : In i items ->
  (In p (map phi (map (fun s0 => (s0, W)) (S_x ts (xcol_x i)))) <->
   exists i', In i' (expand i) /\ In p (map phi (map (fun s0 => (s0, W)) (S_of ts (xcol_of i'))))).
Proof.
  intros Hi. pose proof (X_item i Hi) as Hok.
  assert (Hx : In (xcol_x i) xs) by (unfold xs; apply in_map; exact Hi).
  rewrite map_map, in_map_iff. split.
  - intros (s0 & <- & Hs0). apply (X_Sm _ Hx) in Hs0. destruct Hs0 as (x' & Hx' & Hs0). apply (split_expand i x' Hok) in Hx'.
    apply in_map_iff in Hx'. destruct Hx' as (i' & <- & Hi'). exists i'. split; [exact Hi'|]. rewrite map_map.
    apply in_map_iff. exists s0. auto.
  - intros (i' & Hi' & H). rewrite map_map in H. apply in_map_iff in H. destruct H as (s0 & <- & Hs0).
    exists s0. split; [reflexivity|]. apply (X_Sm _ Hx). exists (xcol_of i'). split; [|exact Hs0].
    apply (split_expand i _ Hok). apply in_map. exact Hi'.
Qed.

(** without a column list: the item's own name *)
Lemma X_item_edges i p : In i items ->
  (In p (item_edges T scope i) <-> In p (map phi (map (fun s0 => (s0, own_col d (xcol_x i))) (S_x ts (xcol_x i))))).
Proof.
  intros Hi. pose proof (X_item i Hi) as Hok. rewrite (X_members_expand i _ p Hi).
  assert (Hcorr : forall i', In i' (expand i) ->
            item_edges T scope i' = map phi (map (fun s0 => (s0, own_col d (xcol_x i))) (S_of ts (xcol_of i')))).
  { intros i' Hi'. pose proof (X_in2 i i' Hi Hi') as Hin2.
    unfold T, scope. rewrite (item_corr_v e t from i' Hrel (X_ok2 i' Hin2) (X_res i' Hin2)).
    unfold own_col. rewrite (xc_expand i i' Hi'). reflexivity. }
  destruct i as [ex [a|]|qq].
  - split.
    + intros H. unfold item_edges in H. cbn [item_cols flat_map fst snd] in H. rewrite app_nil_r in H.
      unfold scope in H. apply src_edges_expr in H. destruct H as (r & Hr & H).
      exists (IExpr (EColRef (fst r) (snd r)) (Some a)). split; [cbn [expand]; apply in_map_iff; exists r; auto|].
      rewrite <- Hcorr by (cbn [expand]; apply in_map_iff; exists r; auto).
      unfold item_edges. cbn [item_cols flat_map fst snd col_refs]. rewrite app_nil_r. exact H.
    + intros (i' & Hi' & H). rewrite <- (Hcorr i' Hi') in H. cbn [expand] in Hi'. apply in_map_iff in Hi'. destruct Hi' as (r & <- & Hr).
      unfold item_edges. cbn [item_cols flat_map fst snd]. rewrite app_nil_r. unfold scope. apply src_edges_expr. exists r. split; [exact Hr|].
      unfold item_edges in H. cbn [item_cols flat_map fst snd col_refs] in H. rewrite app_nil_r in H. exact H.
  - destruct ex; try discriminate. cbn [expand]. split.
    + intros H. eexists. split; [left; reflexivity|]. rewrite <- Hcorr by (left; reflexivity). exact H.
    + intros (i' & [<-|[]] & H). rewrite <- Hcorr in H by (left; reflexivity). exact H.
  - cbn [expand]. split.
    + intros H. eexists. split; [left; reflexivity|]. rewrite <- Hcorr by (left; reflexivity). exact H.
    + intros (i' & [<-|[]] & H). rewrite <- Hcorr in H by (left; reflexivity). exact H.
Qed.

(** with a column list: the listed name *)
Lemma X_item_edges_n i c p : In i items ->
  (In p (src_edges T c (flat_map snd (item_cols scope i))) <-> In p (map phi (map (fun s0 => (s0, Wcol d c)) (S_x ts (xcol_x i))))).
Proof.
  intros Hi. pose proof (X_item i Hi) as Hok. rewrite (X_members_expand i _ p Hi).
  assert (Hcorr : forall i', In i' (expand i) ->
            src_edges T c (flat_map snd (item_cols scope i')) = map phi (map (fun s0 => (s0, Wcol d c)) (S_of ts (xcol_of i')))).
  { intros i' Hi'. pose proof (X_in2 i i' Hi Hi') as Hin2.
    destruct (item_corr_vn e t from i' c Hrel (X_ok2 i' Hin2) (X_res i' Hin2)) as (srcs & E1 & E2).
    unfold scope. rewrite E1. cbn [flat_map snd app]. rewrite app_nil_r. exact E2. }
  destruct i as [ex [a|]|qq].
  - split.
    + intros H. cbn [item_cols flat_map fst snd] in H. rewrite app_nil_r in H.
      unfold scope in H. apply src_edges_expr in H. destruct H as (r & Hr & H).
      exists (IExpr (EColRef (fst r) (snd r)) (Some a)). split; [cbn [expand]; apply in_map_iff; exists r; auto|].
      rewrite <- Hcorr by (cbn [expand]; apply in_map_iff; exists r; auto).
      cbn [item_cols flat_map fst snd col_refs]. rewrite app_nil_r. exact H.
    + intros (i' & Hi' & H). rewrite <- (Hcorr i' Hi') in H. cbn [expand] in Hi'. apply in_map_iff in Hi'. destruct Hi' as (r & <- & Hr).
      cbn [item_cols flat_map fst snd]. rewrite app_nil_r. unfold scope. apply src_edges_expr. exists r. split; [exact Hr|].
      cbn [item_cols flat_map fst snd col_refs] in H. rewrite app_nil_r in H. exact H.
  - destruct ex; try discriminate. cbn [expand]. split.
    + intros H. eexists. split; [left; reflexivity|]. rewrite <- Hcorr by (left; reflexivity). exact H.
    + intros (i' & [<-|[]] & H). rewrite <- Hcorr in H by (left; reflexivity). exact H.
  - cbn [expand]. split.
    + intros H. eexists. split; [left; reflexivity|]. rewrite <- Hcorr by (left; reflexivity). exact H.
    + intros (i' & [<-|[]] & H). rewrite <- Hcorr in H by (left; reflexivity). exact H.
Qed.

Lemma edges_select_x (s : Spec.stmt) :
  (s = SInsert t None (QSelect items from cj None) \/ s = SCtas t (QSelect items from cj None) \/ s = SView t (QSelect items from cj None)) ->
  forall p, In p (stmt_edges (e_cfg e) s) <-> In p (map phi (flows_of (S_x ts) (own_pairs d xs))).
Proof.
  intros Hs p. rewrite (stmt_edges_select (e_cfg e) s t items from cj Hs X_rt).
  unfold flows_of, own_pairs, xs. rewrite !flat_map_map', map_flat_map'. cbn [fst snd]. rewrite !in_flat_map.
  split; intros (i & Hi & H); exists i; (split; [exact Hi|]); apply (X_item_edges i p Hi); exact H.
Qed.

Lemma X_single i : In i items -> exists nm srcs, item_cols scope i = [(nm, srcs)].
Proof.
  intros Hi. destruct i as [ex al|qq]; [cbn [item_cols]; eexists; eexists; reflexivity|].
  assert (Hst : In (IStar qq) (items2 items)) by (apply (X_in2 (IStar qq)); [exact Hi|left; reflexivity]).
  destruct (item_cols_single e t from (items2 items) Hrel X_it2 Htc Hic (IStar qq) Hst) as (srcs & E). eexists. eexists. exact E.
Qed.

Lemma edges_insert_cols_x cs : List.length cs = List.length items ->
  forall p, In p (stmt_edges (e_cfg e) (SInsert t (Some cs) (QSelect items from cj None))) <->
            In p (map phi (flows_of (S_x ts) (combine xs (map (Wcol d) cs)))).
Proof.
  intros Hlen p. rewrite (stmt_edges_insert_cols_x (e_cfg e) t cs items from cj X_rt Hlen X_single).
  unfold flows_of, xs. rewrite combine_map, flat_map_map', map_flat_map'. cbn [fst snd]. rewrite !in_flat_map.
  split; intros ([i c] & Hic' & H); exists (i, c); (split; [exact Hic'|]); cbn [fst snd] in *;
    apply (X_item_edges_n i c p (in_combine_l _ _ _ _ Hic')); exact H.
Qed.
(** ** the two further conjuncts of [c06_hyps]: tags, and owners of the column edges *)
Lemma X_flow_parents (l : list (xcol * column)) :
  (forall p0, In p0 l -> In (fst p0) xs /\ cparents (snd p0) = [d]) ->
  forall f, In f (flows_of (S_x ts) l) -> (exists v, In v ts /\ cparents (fst f) = [v]) /\ cparents (snd f) = [d].
Proof.
  intros Hl f Hf. unfold flows_of in Hf. apply in_flat_map in Hf. destruct Hf as (p0 & Hp0 & Hf). apply in_map_iff in Hf.
  destruct Hf as (s0 & <- & Hs0). destruct (Hl p0 Hp0) as [Hx Ep]. cbn [fst snd]. split; [exact (proj2 (X_src _ Hx s0 Hs0))|exact Ep].
Qed.

Lemma holder_select_x_c06 (s : Spec.stmt) :
  (s = SInsert t None (QSelect items from cj None) \/ s = SCtas t (QSelect items from cj None) \/ s = SView t (QSelect items from cj None)) ->
  exists G, analyze e false (r_stmt_x noise s) = Ok G /\ RefineDefs.tag_free G = true /\ CompDefs.owners_dir (holder_of G) = true.
Proof.
  intros Hs. destruct (holder_select_x s Hs) as (G & Ea & CF & _). exists G. split; [exact Ea|].
  assert (Ef : analyze e false (r_stmt_x noise s) = sel_holder_x e (add_write empty_graph d) items from).
  { destruct Hs as [->|[->| ->]].
    - apply (analyze_insert_x noise Hn e He t None items from cj Ht I Hit Hne Hrel).
    - apply (analyze_create_x noise Hn e He false t items from cj Ht Hit Hne Hrel).
    - apply (analyze_create_x noise Hn e He true t items from cj Ht Hit Hne Hrel). }
  rewrite Ea in Ef. symmetry in Ef. unfold sel_holder_x in Ef.
  destruct (RW_add_write d) as [B1 B2].
  destruct (holder_tags e (add_write empty_graph d) d (map (tbl_of e) from) (map xcol_x items) G B1 B2 Ef) as (T1 & T2 & T3).
  split; [exact (RW_tag_free G T1)|].
  apply (owners_dir_of G _ d ts (cf_real _ _ CF) T1 eq_refl (go_tables _ _ X_go) T2 T3).
  apply X_flow_parents. intros p0 Hp0. unfold own_pairs in Hp0. apply in_map_iff in Hp0. destruct Hp0 as (x & <- & Hx). cbn [fst snd].
  split; [exact Hx|]. rewrite (own_col_eq d x (X_c0 x Hx)). reflexivity.
Qed.

Lemma holder_insert_cols_x_c06 cs :
  forallb id_ok cs = true -> NoDup cs -> List.length cs = List.length items ->
  exists G, analyze e false (r_stmt_x noise (SInsert t (Some cs) (QSelect items from cj None))) = Ok G /\
            RefineDefs.tag_free G = true /\ CompDefs.owners_dir (holder_of G) = true.
Proof.
  intros Hcs Hndc Hlen. destruct (holder_insert_cols_x cs Hcs Hndc Hlen) as (G & Ea & CF & _). exists G. split; [exact Ea|].
  pose proof (analyze_insert_x noise Hn e He t (Some cs) items from cj Ht (conj Hcs Hndc) Hit Hne Hrel) as Ef.
  rewrite Ea in Ef. symmetry in Ef. unfold sel_holder_x in Ef.
  destruct (RW_gb_of d cs) as [B1 B2].
  destruct (holder_tags e (gb_of d cs) d (map (tbl_of e) from) (map xcol_x items) G B1 B2 Ef) as (T1 & T2 & T3).
  split; [exact (RW_tag_free G T1)|].
  apply (owners_dir_of G _ d ts (cf_real _ _ CF) T1 eq_refl (go_tables _ _ X_go) T2 T3).
  apply X_flow_parents. intros [x w] Hp0. cbn [fst snd].
  split; [exact (in_combine_l _ _ _ _ Hp0)|]. apply in_combine_r in Hp0. apply in_map_iff in Hp0.
  destruct Hp0 as (c & <- & _). reflexivity.
Qed.
End StmtX.

(** ** the statement theorem: the holder of a statement with expression items satisfies the conjuncts of [c04_hyps],
       and its column edges are exactly the specified flows *)
Theorem core_statement_x : forall noise e s,
  noise_ok noise = true -> env_ok e = true ->
  stmt_ok_x s = true -> colshape s = true -> resolved_x s = true ->
  exists G, analyze e false (r_stmt_x noise s) = Ok G /\
            CompDefs.plain_holder (holder_of G) = true /\ CompDefs.resolved_holder (holder_of G) = true /\
            CompDefs.cwf_holder (holder_of G) = true /\
            edges_match G (stmt_edges (e_cfg e) s).
Proof.
  intros noise e s Hn He Hok Hc Hres.
  assert (K : exists t cols items from cj,
            ((s = SInsert t cols (QSelect items from cj None) /\ match cols with Some cs => forallb id_ok cs = true | None => True end)
             \/ (cols = None /\ (s = SCtas t (QSelect items from cj None) \/ s = SView t (QSelect items from cj None)))) /\
            tref_ok t && forallb item_ok_x items && negb (is_nil from) && forallb rel_ok from && trefs_distinct (map rtref from) = true /\
            match from with [_] => true | _ => forallb item_resolved items end = true).
  { destruct s as [t cols q|t q|t q|q|kind]; cbn [stmt_ok_x] in Hok; try discriminate;
      destruct q as [items from cj [wh|]| |]; try discriminate.
    - exists t, cols, items, from, cj. apply andb_true_iff in Hok. destruct Hok as [Hok Hcols].
      split; [left; split; [reflexivity|destruct cols; [exact Hcols|exact I]]|]. split; [exact Hok|exact Hres].
    - exists t, None, items, from, cj. split; [right; split; [reflexivity|left; reflexivity]|]. split; [exact Hok|exact Hres].
    - exists t, None, items, from, cj. split; [right; split; [reflexivity|right; reflexivity]|]. split; [exact Hok|exact Hres]. }
  destruct K as (t & cols & items & from & cj & Hs & H & Hres').
  apply andb_true_iff in H. destruct H as [H Hd]. apply andb_true_iff in H. destruct H as [H Hrel].
  apply andb_true_iff in H. destruct H as [H Hne0]. apply andb_true_iff in H. destruct H as [Ht Hit].
  assert (Hne : from <> []) by (destruct from; [discriminate Hne0|discriminate]).
  assert (Hs' : (exists cols0, s = SInsert t cols0 (QSelect items from cj None)) \/ s = SCtas t (QSelect items from cj None) \/ s = SView t (QSelect items from cj None)).
  { destruct Hs as [[E _]|[_ [E|E]]]; [left; exists cols; exact E|right; left; exact E|right; right; exact E]. }
  pose proof (colshape_expand s t items from cj Hs' Hit Hc) as Hc2.
  pose proof (items2_ok items Hit) as Hit2.
  destruct (colshape_tables (e_cfg e) _ t (items2 items) from cj (or_intror (or_introl eq_refl)) Hc2 Ht Hne Hrel Hit2 Hd) as (Htc & Hic & _).
  pose proof (resolved_items2 items from Hit Hres') as Huq.
  assert (Hrt : forallb is_rtable from = true).
  { rewrite forallb_forall in *. intros r Hr. apply rel_ok_table. apply Hrel. exact Hr. }
  assert (Hfin : forall G FL, core_facts G FL -> (forall f, In f FL -> tcol (fst f) /\ tcol (snd f)) ->
                   (forall p, In p (stmt_edges (e_cfg e) s) <-> In p (map phi FL)) ->
                   CompDefs.plain_holder (holder_of G) = true /\ CompDefs.resolved_holder (holder_of G) = true /\
                   CompDefs.cwf_holder (holder_of G) = true /\ edges_match G (stmt_edges (e_cfg e) s)).
  { intros G FL CF HT HE. split; [exact (core_plain G (cf_clean _ _ CF))|]. split; [exact (core_resolved G (cf_res _ _ CF))|].
    split; [exact (core_cwf G _ CF)|]. apply (edges_match_ext G (map phi FL)); [intros p; symmetry; apply HE|].
    exact (realises_match G _ (cf_real _ _ CF) HT). }
  assert (Hsel : (s = SInsert t None (QSelect items from cj None) \/ s = SCtas t (QSelect items from cj None) \/ s = SView t (QSelect items from cj None)) ->
                 exists G, analyze e false (r_stmt_x noise s) = Ok G /\
                           CompDefs.plain_holder (holder_of G) = true /\ CompDefs.resolved_holder (holder_of G) = true /\
                           CompDefs.cwf_holder (holder_of G) = true /\ edges_match G (stmt_edges (e_cfg e) s)).
  { intros Hs3. destruct (holder_select_x noise e t items from cj Hn He Ht Hit Hne Hrel Htc Hic Huq s Hs3) as (G & Ea & CF & HT).
    exists G. split; [exact Ea|]. apply (Hfin G _ CF HT). exact (edges_select_x e t items from cj Hit Hrel Htc Hic Huq s Hs3). }
  destruct Hs as [[E Hcols]|[_ Hs]].
  - destruct cols as [cs|]; [|apply Hsel; left; exact E].
    (* the column list: no duplicates, as long as the item list *)
    destruct (colshape_tables "" _ t (items2 items) from cj (or_intror (or_introl eq_refl)) Hc2 Ht Hne Hrel Hit2 Hd) as (Htc0 & Hic0 & _).
    assert (Hcc : NoDup cs /\ List.length cs = List.length items).
    { unfold colshape in Hc. apply andb_true_iff in Hc. destruct Hc as [Hc _]. apply andb_true_iff in Hc. destruct Hc as [Hc _].
      apply andb_true_iff in Hc. destruct Hc as [_ Hcc]. rewrite E in Hcc. cbn [cs_cols] in Hcc. apply andb_true_iff in Hcc. destruct Hcc as [H1 H2].
      split; [apply nodup_s_NoDup; exact H1|]. apply Nat.eqb_eq in H2. rewrite H2. rewrite (q_cols_select _ "" items from cj None Hrt).
      apply length_flat_single. intros i Hi.
      destruct (X_single e_plain t items from Hit Hrel Htc0 Hic0 i Hi) as (nm & srcs & E0). eexists. exact E0. }
    destruct Hcc as [Hndc Hlen].
    destruct (holder_insert_cols_x noise e t items from cj Hn He Ht Hit Hne Hrel Htc Hic Huq cs Hcols Hndc Hlen) as (G & Ea & CF & HT).
    rewrite E. exists G. split; [exact Ea|]. rewrite <- E. apply (Hfin G _ CF HT). rewrite E.
    exact (edges_insert_cols_x e t items from cj Hit Hrel Htc Hic Huq cs Hlen).
  - apply Hsel. right. exact Hs.
Qed.
Print Assumptions core_statement_x.

(* ================================================================== *)
(** * Part 5: scripts *)

(** what the assembly needs of one statement segment [sg] with specified flows [Es] *)
Definition stmt_facts (e : env) (sg : seg) (Es : list (vtx * vtx)) : Prop :=
  exists G, analyze e false sg = Ok G /\
            CompDefs.plain_holder (holder_of G) = true /\ CompDefs.resolved_holder (holder_of G) = true /\
            CompDefs.cwf_holder (holder_of G) = true /\ edges_match G Es.

Lemma facts_script e segs Ess :
  Forall2 (stmt_facts e) segs Ess ->
  exists Gs, map_res (analyze e false) segs = Ok Gs /\ Composition.c04_hyps (map holder_of Gs) = true /\ Forall2 edges_match Gs Ess.
Proof.
  intros H.
  assert (K : exists Gs, map_res (analyze e false) segs = Ok Gs /\
              (forallb CompDefs.plain_holder (map holder_of Gs) = true /\
               forallb CompDefs.resolved_holder (map holder_of Gs) = true /\
               forallb CompDefs.cwf_holder (map holder_of Gs) = true) /\
              Forall2 edges_match Gs Ess).
  { induction H as [|sg Es segs Ess (G & Ea & Q1 & Q2 & Q3 & Q4) _ IH].
    - exists []. split; [reflexivity|]. split; [auto|constructor].
    - destruct IH as (Gs & Em & (P1 & P2 & P3) & HM).
      exists (G :: Gs). split; [cbn [map_res]; rewrite Ea, Em; reflexivity|]. split.
      + cbn [map forallb]. rewrite Q1, Q2, Q3, P1, P2, P3. auto.
      + constructor; assumption. }
  destruct K as (Gs & Em & (P1 & P2 & P3) & HM). exists Gs. split; [exact Em|]. split; [|exact HM].
  unfold Composition.c04_hyps. rewrite P1, P2, P3. reflexivity.
Qed.

(** the assembly, for ANY statement segments with these facts (whatever renders them) *)
Theorem script_exact_general : forall e segs Ess,
  env_ok e = true -> Forall2 (stmt_facts e) segs Ess ->
  script_pairs e false [] segs = uniq_sorted (sort_strings (pairs_of (List.concat Ess))).
Proof.
  intros e segs Ess He H.
  destruct (facts_script e segs Ess H) as (Gs & Em & Hh & HM).
  destruct (run_statements_core e _ Gs (proj1 (env_facts e He)) Em) as (sess & Er).
  unfold script_pairs, script_graph. rewrite Er. cbn [fst snd].
  set (p := {| p_truthy := p_truthy (e_provider e); p_cols := view_cols sess [] |}).
  destruct (Composition.c04_main p (map holder_of Gs) Hh) as (g & Hb & _). rewrite Hb.
  apply us_ext. intros x. exact (lineage_match Gs Ess HM p g Hh Hb x).
Qed.
Print Assumptions script_exact_general.

Theorem script_graph_general : forall e segs Ess,
  env_ok e = true -> Forall2 (stmt_facts e) segs Ess ->
  exists g, script_graph e false [] segs = Ok g /\
    forall x y, CompDefs.col_edge g x y = true <->
                exists u v, In (u, v) (List.concat Ess) /\ node_eqb x (nu u) = true /\ node_eqb y (nu v) = true.
Proof.
  intros e segs Ess He H.
  destruct (facts_script e segs Ess H) as (Gs & Em & Hh & HM).
  destruct (run_statements_core e _ Gs (proj1 (env_facts e He)) Em) as (sess & Er).
  unfold script_graph. rewrite Er. cbn [fst snd].
  set (p := {| p_truthy := p_truthy (e_provider e); p_cols := view_cols sess [] |}).
  destruct (Composition.c04_main p (map holder_of Gs) Hh) as (g & Hb & Hu & _). rewrite Hb. exists g. split; [reflexivity|].
  intros x y. rewrite (Hu x y). apply (union_match Gs _ HM).
Qed.

(** the statements of a script: INSERT / CTAS / VIEW with expression items, or no-data statements (DELETE ...) *)
Definition core_stmt_x (s : Spec.stmt) : Prop :=
  (stmt_ok_x s = true /\ colshape s = true /\ resolved_x s = true) \/ is_nodata s = true.
Definition core_ok_x2 (s : Spec.stmt) : bool := core_ok_x s || is_nodata s.

Lemma core_ok_x2_stmt s : core_ok_x2 s = true -> core_stmt_x s.
Proof.
  unfold core_ok_x2, core_ok_x, core_stmt_x. intros H. apply orb_true_iff in H. destruct H as [H|H]; [left|right; exact H].
  apply andb_true_iff in H. destruct H as [H H3]. apply andb_true_iff in H. destruct H as [H1 H2]. auto.
Qed.

Lemma stmt_facts_x noise e s :
  noise_ok noise = true -> env_ok e = true -> core_stmt_x s -> stmt_facts e (r_stmt_x noise s) (stmt_edges (e_cfg e) s).
Proof.
  intros Hn He [(H1 & H2 & H3)|H].
  - exact (core_statement_x noise e s Hn He H1 H2 H3).
  - destruct s; try discriminate. exact (nodata_statement noise e kind).
Qed.

Lemma core_script_x noise e ss :
  noise_ok noise = true -> env_ok e = true -> Forall core_stmt_x ss ->
  Forall2 (stmt_facts e) (map (r_stmt_x noise) ss) (map (stmt_edges (e_cfg e)) ss).
Proof.
  intros Hn He H. induction H as [|s ss Hs _ IH]; cbn [map]; constructor; [exact (stmt_facts_x noise e s Hn He Hs)|exact IH].
Qed.

(** THE SCRIPT THEOREM with expression items: any number of statements, any order, cycles allowed, any trivia *)
Theorem script_exact_on_core_x : forall noise e ss,
  noise_ok noise = true -> env_ok e = true ->
  Forall (fun s => (stmt_ok_x s = true /\ colshape s = true /\ resolved_x s = true) \/ is_nodata s = true) ss ->
  script_pairs e false [] (map (r_stmt_x noise) ss) = spec_script_pairs (e_cfg e) ss.
Proof.
  intros noise e ss Hn He H.
  rewrite (script_exact_general e _ _ He (core_script_x noise e ss Hn He H)).
  unfold spec_script_pairs, script_edges. rewrite flat_map_concat_map. reflexivity.
Qed.
Print Assumptions script_exact_on_core_x.

(** the column edges of the script graph are exactly the specified flows of the statements *)
Corollary script_graph_col_edges_x noise e ss :
  noise_ok noise = true -> env_ok e = true -> Forall core_stmt_x ss ->
  exists g, script_graph e false [] (map (r_stmt_x noise) ss) = Ok g /\
    forall x y, CompDefs.col_edge g x y = true <->
                exists u v, In (u, v) (script_edges (e_cfg e) ss) /\ node_eqb x (nu u) = true /\ node_eqb y (nu v) = true.
Proof.
  intros Hn He H. destruct (script_graph_general e _ _ He (core_script_x noise e ss Hn He H)) as (g & Eg & Hg).
  exists g. split; [exact Eg|]. intros x y. rewrite (Hg x y). unfold script_edges. rewrite flat_map_concat_map. reflexivity.
Qed.
Print Assumptions script_graph_col_edges_x.

(** (i) the statement holder satisfies [c04_hyps]; (ii) its column edges *)
Corollary holder_of_core_statement_x_in_c04_hyps noise e s :
  noise_ok noise = true -> env_ok e = true -> stmt_ok_x s = true -> colshape s = true -> resolved_x s = true ->
  exists G, analyze e false (r_stmt_x noise s) = Ok G /\ Composition.c04_hyps [holder_of G] = true.
Proof.
  intros Hn He H1 H2 H3. destruct (core_statement_x noise e s Hn He H1 H2 H3) as (G & Ea & Q1 & Q2 & Q3 & _).
  exists G. split; [exact Ea|]. unfold Composition.c04_hyps. cbn [forallb]. rewrite Q1, Q2, Q3. reflexivity.
Qed.

(** ** the checker never fails *)
Definition script_check_x2 (noise : list seg) (e : env) (ss : list Spec.stmt) : string :=
  if negb (noise_ok noise && env_ok e && forallb core_ok_x2 ss) then "outside"
  else if list_eqb (script_pairs e false [] (map (r_stmt_x noise) ss)) (spec_script_pairs (e_cfg e) ss) then "holds" else "FAILS".

Corollary script_check_x_never_fails noise e ss : script_check_x2 noise e ss <> "FAILS".
Proof.
  unfold script_check_x2. destruct (noise_ok noise && env_ok e && forallb core_ok_x2 ss) eqn:G; cbn [negb]; [|discriminate].
  apply andb_true_iff in G. destruct G as [G Hss]. apply andb_true_iff in G. destruct G as [Hn He].
  rewrite (script_exact_on_core_x noise e ss Hn He), list_eqb_refl; [discriminate|].
  apply Forall_forall. intros s Hs. rewrite forallb_forall in Hss. apply core_ok_x2_stmt. apply Hss. exact Hs.
Qed.
Print Assumptions script_check_x_never_fails.

(** ** the reported pairs, as a proposition; the order of the statements is irrelevant *)
Corollary script_pair_iff_x noise e ss x :
  noise_ok noise = true -> env_ok e = true -> Forall core_stmt_x ss ->
  let E := script_edges (e_cfg e) ss in
  In x (script_pairs e false [] (map (r_stmt_x noise) ss)) <->
  exists a b, ~ In a (map snd E) /\ ~ In b (map fst E) /\ tcv E a b /\ x = (show_vtx a ++ ">" ++ show_vtx b)%string.
Proof.
  intros Hn He H E. rewrite (script_exact_on_core_x noise e ss Hn He H). unfold spec_script_pairs. rewrite In_uniq_sort. apply In_pairs_of.
Qed.
Print Assumptions script_pair_iff_x.

Corollary script_order_irrelevant_x noise e ss ss' :
  noise_ok noise = true -> env_ok e = true -> Forall core_stmt_x ss -> Permutation ss ss' ->
  script_pairs e false [] (map (r_stmt_x noise) ss) = script_pairs e false [] (map (r_stmt_x noise) ss').
Proof.
  intros Hn He H Hp. rewrite (script_exact_on_core_x noise e ss Hn He H).
  rewrite (script_exact_on_core_x noise e ss' Hn He); [apply spec_order_irrelevant; exact Hp|].
  apply Forall_forall. intros s Hs. rewrite Forall_forall in H. apply H. apply (Permutation_in s (Permutation_sym Hp) Hs).
Qed.
Print Assumptions script_order_irrelevant_x.

(** one statement: the script specification is Lemma Bx's statement specification *)
Corollary spec_script_single_x noise e s :
  noise_ok noise = true -> env_ok e = true -> stmt_ok_x s = true -> colshape s = true -> resolved_x s = true ->
  spec_script_pairs (e_cfg e) [s] = spec_pairs (e_cfg e) s.
Proof.
  intros Hn He H1 H2 H3.
  rewrite <- (script_exact_on_core_x noise e [s] Hn He (Forall_cons _ (or_introl (conj H1 (conj H2 H3))) (Forall_nil _))).
  exact (lemma_Bx noise e s Hn He H1 H2).
Qed.

(** a chain through an expression: [b] is written by the first statement from [a] and read by the second into [c] *)
Corollary chain_two_x noise e s1 s2 a b c :
  noise_ok noise = true -> env_ok e = true -> core_stmt_x s1 -> core_stmt_x s2 ->
  let E := script_edges (e_cfg e) [s1; s2] in
  In (a, b) (stmt_edges (e_cfg e) s1) -> In (b, c) (stmt_edges (e_cfg e) s2) ->
  ~ In a (map snd E) -> ~ In c (map fst E) ->
  In (show_vtx a ++ ">" ++ show_vtx c)%string (script_pairs e false [] [r_stmt_x noise s1; r_stmt_x noise s2]).
Proof.
  intros Hn He H1 H2 E Hab Hbc Hra Hlc.
  assert (HF : Forall core_stmt_x [s1; s2]) by (constructor; [exact H1|constructor; [exact H2|constructor]]).
  assert (Eab : In (a, b) E) by (unfold E, script_edges; cbn [flat_map]; apply in_app_iff; left; exact Hab).
  assert (Ebc : In (b, c) E) by (unfold E, script_edges; cbn [flat_map]; apply in_app_iff; right; rewrite app_nil_r; exact Hbc).
  apply (script_pair_iff_x noise e [s1; s2] _ Hn He HF). exists a, c. split; [exact Hra|]. split; [exact Hlc|]. split; [|reflexivity].
  apply (tcv_step _ a b c); [exact Eab|apply tcv_one; exact Ebc].
Qed.
Print Assumptions chain_two_x.

(* ================================================================== *)
(** * Non-vacuity *)
Module ExamplesX.
  Import Tests TestsX.
  (** insert into m select a + b as c from s; insert into f select coalesce(c, 1) as d from m *)
  Definition chain : list Spec.stmt :=
    [ins "m" (sel [xa (EBin (cr_ "a") (cr_ "b")) "c"] [T "s"]); ins "f" (sel [xa (EFun (cr_ "c") ELit) "d"] [T "m"])].
  Lemma chain_core : Forall core_stmt_x chain.
  Proof. repeat (constructor; [apply core_ok_x2_stmt; reflexivity|]). constructor. Qed.

  (** for EVERY admissible trivia: s.a -> f.d and s.b -> f.d, and nothing else *)
  Example chain_through_expression noise : noise_ok noise = true ->
    script_pairs e1 false [] (map (r_stmt_x noise) chain) = ["main.s.a>main.f.d"; "main.s.b>main.f.d"].
  Proof. intros Hn. rewrite (script_exact_on_core_x noise e1 chain Hn eq_refl chain_core). vm_compute. reflexivity. Qed.

  Example core_statement_x_nonvacuous :
    exists G, analyze e1 false (r_stmt_x [ws; cm] (ins "m" (sel [xa (EBin (cr_ "a") (cr_ "b")) "c"] [T "s"]))) = Ok G /\
              CompDefs.plain_holder (holder_of G) = true /\ CompDefs.resolved_holder (holder_of G) = true /\
              CompDefs.cwf_holder (holder_of G) = true /\
              edges_match G [(("main.s", "a"), ("main.m", "c")); (("main.s", "b"), ("main.m", "c"))].
  Proof. apply (core_statement_x [ws; cm] e1 (ins "m" (sel [xa (EBin (cr_ "a") (cr_ "b")) "c"] [T "s"]))); reflexivity. Qed.

  (** column list + CASE / window / CAST over two qualified tables + a no-data statement, with trivia *)
  Definition ss3 : list Spec.stmt :=
    [ctas "m" (sel [xa (ECase (qr "s" "a") (qr "u" "b") (ECast (qr "s" "c"))) "k"; xa (EWin (qr "u" "x") (qr "s" "p") (qr "u" "o")) "w"] [T "s"; T "u"]);
     SNoData 0;
     insc "f" ["r"] (sel [xa (EBin (cr_ "k") (cr_ "w")) "x"] [T "m"])].
  Lemma ss3_core : Forall core_stmt_x ss3.
  Proof. repeat (constructor; [apply core_ok_x2_stmt; reflexivity|]). constructor. Qed.
  Example script_exact_x_nonvacuous :
    script_pairs e1 false [] (map (r_stmt_x [ws; cm]) ss3) =
    ["main.s.a>main.f.r"; "main.s.c>main.f.r"; "main.s.p>main.f.r"; "main.u.b>main.f.r"; "main.u.o>main.f.r"; "main.u.x>main.f.r"].
  Proof. rewrite (script_exact_on_core_x [ws; cm] e1 ss3 eq_refl eq_refl ss3_core). vm_compute. reflexivity. Qed.

  Example chain_two_x_nonvacuous :
    In "main.s.a>main.f.d" (script_pairs e1 false [] (map (r_stmt_x [ws; cm]) chain)).
  Proof.
    apply (chain_two_x [ws; cm] e1 _ _ ("main.s", "a") ("main.m", "c") ("main.f", "d") eq_refl eq_refl).
    - apply core_ok_x2_stmt. reflexivity.
    - apply core_ok_x2_stmt. reflexivity.
    - vm_compute. left. reflexivity.
    - vm_compute. left. reflexivity.
    - vm_compute. intros [K|[K|[K|[]]]]; discriminate K.
    - vm_compute. intros [K|[K|[K|[]]]]; discriminate K.
  Qed.

  (** a cycle through expressions with an entry and an exit (test 5), any trivia *)
  Example cycle_x noise : noise_ok noise = true ->
    script_pairs e0 false [] (map (r_stmt_x noise) (nth 4 tests_x [])) = ["<default>.r.x><default>.t.x"].
  Proof.
    intros Hn. rewrite (script_exact_on_core_x noise e0 _ Hn eq_refl); [vm_compute; reflexivity|].
    repeat (constructor; [apply core_ok_x2_stmt; reflexivity|]). constructor.
  Qed.

  Example order_x_nonvacuous :
    script_pairs e0 false [] (map (r_stmt_x [ws]) chain) = script_pairs e0 false [] (map (r_stmt_x [ws]) (rev chain)).
  Proof. apply (script_order_irrelevant_x [ws] e0); [reflexivity|reflexivity|exact chain_core|apply perm_swap]. Qed.

  (** [resolved_x] is needed: an unqualified reference inside an expression over two tables is reported as the
      unresolved source b{s,u}; it is not a flow between table columns *)
  Definition cx_unres_x : list Spec.stmt := [ins "m" (selc [xa (EBin (qr "s" "a") (cr_ "b")) "c"] [T "s"; T "u"])].
  Example resolved_x_needed :
    forallb (fun s => stmt_ok_x s && colshape s) cx_unres_x = true /\ forallb resolved_x cx_unres_x = false /\
    script_pairs e0 false [] (map (r_stmt_x []) cx_unres_x) = ["<default>.s.a><default>.m.c"; "b{<default>.s,<default>.u}><default>.m.c"] /\
    spec_script_pairs "" cx_unres_x = ["<default>.s.a><default>.m.c"].
  Proof. vm_compute. repeat split; reflexivity. Qed.
End ExamplesX.

(* ================================================================== *)
(** * Part 6: C06 for scripts with expression items: every reported path is well formed and projects onto the script's
      own source / intermediate / target tables *)
Theorem core_statement_x_c06 : forall noise e s,
  noise_ok noise = true -> env_ok e = true ->
  stmt_ok_x s = true -> colshape s = true -> resolved_x s = true ->
  exists G, analyze e false (r_stmt_x noise s) = Ok G /\
            RefineDefs.tag_free G = true /\ CompDefs.owners_dir (holder_of G) = true.
Proof.
  intros noise e s Hn He Hok Hc Hres.
  assert (K : exists t cols items from cj,
            ((s = SInsert t cols (QSelect items from cj None) /\ match cols with Some cs => forallb id_ok cs = true | None => True end)
             \/ (cols = None /\ (s = SCtas t (QSelect items from cj None) \/ s = SView t (QSelect items from cj None)))) /\
            tref_ok t && forallb item_ok_x items && negb (is_nil from) && forallb rel_ok from && trefs_distinct (map rtref from) = true /\
            match from with [_] => true | _ => forallb item_resolved items end = true).
  { destruct s as [t cols q|t q|t q|q|kind]; cbn [stmt_ok_x] in Hok; try discriminate;
      destruct q as [items from cj [wh|]| |]; try discriminate.
    - exists t, cols, items, from, cj. apply andb_true_iff in Hok. destruct Hok as [Hok Hcols].
      split; [left; split; [reflexivity|destruct cols; [exact Hcols|exact I]]|]. split; [exact Hok|exact Hres].
    - exists t, None, items, from, cj. split; [right; split; [reflexivity|left; reflexivity]|]. split; [exact Hok|exact Hres].
    - exists t, None, items, from, cj. split; [right; split; [reflexivity|right; reflexivity]|]. split; [exact Hok|exact Hres]. }
  destruct K as (t & cols & items & from & cj & Hs & H & Hres').
  apply andb_true_iff in H. destruct H as [H Hd]. apply andb_true_iff in H. destruct H as [H Hrel].
  apply andb_true_iff in H. destruct H as [H Hne0]. apply andb_true_iff in H. destruct H as [Ht Hit].
  assert (Hne : from <> []) by (destruct from; [discriminate Hne0|discriminate]).
  assert (Hs' : (exists cols0, s = SInsert t cols0 (QSelect items from cj None)) \/ s = SCtas t (QSelect items from cj None) \/ s = SView t (QSelect items from cj None)).
  { destruct Hs as [[E _]|[_ [E|E]]]; [left; exists cols; exact E|right; left; exact E|right; right; exact E]. }
  pose proof (colshape_expand s t items from cj Hs' Hit Hc) as Hc2.
  pose proof (items2_ok items Hit) as Hit2.
  destruct (colshape_tables (e_cfg e) _ t (items2 items) from cj (or_intror (or_introl eq_refl)) Hc2 Ht Hne Hrel Hit2 Hd) as (Htc & Hic & _).
  pose proof (resolved_items2 items from Hit Hres') as Huq.
  assert (Hrt : forallb is_rtable from = true).
  { rewrite forallb_forall in *. intros r Hr. apply rel_ok_table. apply Hrel. exact Hr. }
  destruct Hs as [[E Hcols]|[_ Hs]].
  - destruct cols as [cs|].
    + destruct (colshape_tables "" _ t (items2 items) from cj (or_intror (or_introl eq_refl)) Hc2 Ht Hne Hrel Hit2 Hd) as (Htc0 & Hic0 & _).
      assert (Hcc : NoDup cs /\ List.length cs = List.length items).
      { unfold colshape in Hc. apply andb_true_iff in Hc. destruct Hc as [Hc _]. apply andb_true_iff in Hc. destruct Hc as [Hc _].
        apply andb_true_iff in Hc. destruct Hc as [_ Hcc]. rewrite E in Hcc. cbn [cs_cols] in Hcc. apply andb_true_iff in Hcc. destruct Hcc as [H1 H2].
        split; [apply nodup_s_NoDup; exact H1|]. apply Nat.eqb_eq in H2. rewrite H2. rewrite (q_cols_select _ "" items from cj None Hrt).
        apply length_flat_single. intros i Hi.
        destruct (X_single e_plain t items from Hit Hrel Htc0 Hic0 i Hi) as (nm & srcs & E0). eexists. exact E0. }
      destruct Hcc as [Hndc Hlen]. rewrite E.
      exact (holder_insert_cols_x_c06 noise e t items from cj Hn He Ht Hit Hne Hrel Htc Hic Huq cs Hcols Hndc Hlen).
    + apply (holder_select_x_c06 noise e t items from cj Hn He Ht Hit Hne Hrel Htc Hic Huq s). left. exact E.
  - apply (holder_select_x_c06 noise e t items from cj Hn He Ht Hit Hne Hrel Htc Hic Huq s). right. exact Hs.
Qed.
Print Assumptions core_statement_x_c06.

(** what [c06_hyps] needs of one statement segment *)
Definition stmt_facts6 (e : env) (sg : seg) : Prop :=
  exists G, analyze e false sg = Ok G /\
            CompDefs.plain_holder (holder_of G) = true /\ CompDefs.resolved_holder (holder_of G) = true /\
            CompDefs.cwf_holder (holder_of G) = true /\ RefineDefs.tag_free G = true /\ CompDefs.owners_dir (holder_of G) = true.

Lemma facts6_script e segs :
  Forall (stmt_facts6 e) segs ->
  exists Gs, map_res (analyze e false) segs = Ok Gs /\ Composition.c06_hyps (map holder_of Gs) = true.
Proof.
  intros H.
  assert (K : exists Gs, map_res (analyze e false) segs = Ok Gs /\
              forallb CompDefs.plain_holder (map holder_of Gs) = true /\
              forallb CompDefs.resolved_holder (map holder_of Gs) = true /\
              forallb (fun h => CompDefs.col_out_closed (hg h)) (map holder_of Gs) = true /\
              forallb (fun h => RefineDefs.tag_free (hg h)) (map holder_of Gs) = true /\
              forallb CompDefs.owners_dir (map holder_of Gs) = true).
  { induction H as [|sg segs (G & Ea & Q1 & Q2 & Q3 & Q5 & Q6) _ IH].
    - exists []. repeat split.
    - destruct IH as (Gs & Em & P1 & P2 & P4 & P5 & P6).
      assert (Q4 : CompDefs.col_out_closed G = true).
      { unfold CompDefs.cwf_holder, CompDefs.cwf_graph in Q3. cbn [hg holder_of] in Q3. apply andb_true_iff in Q3. exact (proj2 Q3). }
      exists (G :: Gs). split; [cbn [map_res]; rewrite Ea, Em; reflexivity|].
      cbn [map forallb hg holder_of]. rewrite Q1, Q2, Q4, Q5, Q6, P1, P2, P4, P5, P6. repeat split. }
  destruct K as (Gs & Em & P1 & P2 & P4 & P5 & P6). exists Gs. split; [exact Em|].
  unfold Composition.c06_hyps. rewrite P1, P2, P4, P5, P6. reflexivity.
Qed.

Theorem script_paths_well_formed_general : forall e segs,
  env_ok e = true -> Forall (stmt_facts6 e) segs ->
  exists g, script_graph e false [] segs = Ok g /\
    forall b path, In path (column_lineage g b false) ->
      2 <= List.length path /\
      (forall n, In n (tl path) -> CompDefs.owner_in n (target_tables g ++ intermediate_tables g) = true) /\
      (forall n, In n (removelast path) -> CompDefs.owner_in n (source_tables g ++ intermediate_tables g) = true).
Proof.
  intros e segs He H.
  destruct (facts6_script e segs H) as (Gs & Em & Hh).
  destruct (run_statements_core e _ Gs (proj1 (env_facts e He)) Em) as (sess & Er).
  unfold script_graph. rewrite Er. cbn [fst snd].
  set (p := {| p_truthy := p_truthy (e_provider e); p_cols := view_cols sess [] |}).
  destruct (M2.c06_sources p (map holder_of Gs) Hh) as (g & Hb & Hp). rewrite Hb. exists g. split; [reflexivity|exact Hp].
Qed.
Print Assumptions script_paths_well_formed_general.

Lemma stmt_facts6_x noise e s :
  noise_ok noise = true -> env_ok e = true -> core_stmt_x s -> stmt_facts6 e (r_stmt_x noise s).
Proof.
  intros Hn He [(H1 & H2 & H3)|H].
  - destruct (core_statement_x noise e s Hn He H1 H2 H3) as (G & Ea & Q1 & Q2 & Q3 & _).
    destruct (core_statement_x_c06 noise e s Hn He H1 H2 H3) as (G' & Ea' & Q5 & Q6).
    rewrite Ea in Ea'. inversion Ea'. subst G'. exists G. repeat split; assumption.
  - destruct s; try discriminate.
    destruct (nodata_statement noise e kind) as (G & Ea & Q1 & Q2 & Q3 & _).
    destruct (notarget_statement_c06 noise e (SNoData kind) Hn He (or_intror eq_refl)) as (G' & Ea' & Q5 & Q6).
    change (r_stmt_x noise (SNoData kind)) with (r_stmt noise (SNoData kind)).
    rewrite Ea in Ea'. inversion Ea'. subst G'. exists G. repeat split; assumption.
Qed.

(** C06 on scripts with expression items *)
Theorem script_paths_well_formed_on_core_x : forall noise e ss,
  noise_ok noise = true -> env_ok e = true -> Forall core_stmt_x ss ->
  exists g, script_graph e false [] (map (r_stmt_x noise) ss) = Ok g /\
    forall b path, In path (column_lineage g b false) ->
      2 <= List.length path /\
      (forall n, In n (tl path) -> CompDefs.owner_in n (target_tables g ++ intermediate_tables g) = true) /\
      (forall n, In n (removelast path) -> CompDefs.owner_in n (source_tables g ++ intermediate_tables g) = true).
Proof.
  intros noise e ss Hn He H. apply (script_paths_well_formed_general e _ He).
  induction H as [|s ss Hs _ IH]; cbn [map]; constructor; [exact (stmt_facts6_x noise e s Hn He Hs)|exact IH].
Qed.
Print Assumptions script_paths_well_formed_on_core_x.

Definition wf_check_x (noise : list seg) (e : env) (ss : list Spec.stmt) : string :=
  if negb (noise_ok noise && env_ok e && forallb core_ok_x2 ss) then "outside"
  else match script_graph e false [] (map (r_stmt_x noise) ss) with
       | Ok g => if forallb (fun b => forallb (path_wf g) (column_lineage g b false)) [true; false] then "holds" else "FAILS"
       | Err _ => "FAILS"
       end.

Example wf_tests_x_hold :
  map (wf_check_x [Tests.ws; Tests.cm] Tests.e1) TestsX.tests_x = map (fun _ => "holds") TestsX.tests_x.
Proof. vm_compute. reflexivity. Qed.

Corollary wf_check_x_never_fails noise e ss : wf_check_x noise e ss <> "FAILS".
Proof.
  unfold wf_check_x. destruct (noise_ok noise && env_ok e && forallb core_ok_x2 ss) eqn:G; cbn [negb]; [|discriminate].
  apply andb_true_iff in G. destruct G as [G Hss]. apply andb_true_iff in G. destruct G as [Hn He].
  assert (HF : Forall core_stmt_x ss).
  { apply Forall_forall. intros s Hs. rewrite forallb_forall in Hss. apply core_ok_x2_stmt. apply Hss. exact Hs. }
  destruct (script_paths_well_formed_on_core_x noise e ss Hn He HF) as (g & Eg & Hg). rewrite Eg.
  replace (forallb (fun b => forallb (path_wf g) (column_lineage g b false)) [true; false]) with true; [discriminate|].
  symmetry. apply forallb_forall. intros b _. apply forallb_forall. intros path Hin. destruct (Hg b path Hin) as (L & P1 & P2).
  unfold path_wf. rewrite !andb_true_iff. split; [split|].
  - apply Nat.leb_le. exact L.
  - apply forallb_forall. exact P1.
  - apply forallb_forall. exact P2.
Qed.
Print Assumptions wf_check_x_never_fails.

(** non-vacuity: the chain through an expression, with trivia and a default schema: the graph exists, the two reported
    paths run s.a / s.b -> m.c -> f.d, m is the intermediate table *)
Example script_paths_well_formed_x_nonvacuous :
  exists g, script_graph Tests.e1 false [] (map (r_stmt_x [Tests.ws; Tests.cm]) ExamplesX.chain) = Ok g /\
    map (map node_str) (column_lineage g true false) = [["main.s.a"; "main.m.c"; "main.f.d"]; ["main.s.b"; "main.m.c"; "main.f.d"]] /\
    map node_str (source_tables g) = ["main.s"] /\ map node_str (intermediate_tables g) = ["main.m"] /\
    map node_str (target_tables g) = ["main.f"] /\
    forall b path, In path (column_lineage g b false) ->
      2 <= List.length path /\
      (forall n, In n (tl path) -> CompDefs.owner_in n (target_tables g ++ intermediate_tables g) = true) /\
      (forall n, In n (removelast path) -> CompDefs.owner_in n (source_tables g ++ intermediate_tables g) = true).
Proof.
  destruct (script_paths_well_formed_on_core_x [Tests.ws; Tests.cm] Tests.e1 ExamplesX.chain eq_refl eq_refl ExamplesX.chain_core) as (g & Eg & Hg).
  exists g. split; [exact Eg|].
  assert (E : script_graph Tests.e1 false [] (map (r_stmt_x [Tests.ws; Tests.cm]) ExamplesX.chain) = Ok g) by exact Eg.
  vm_compute in E. inversion E. subst g. clear E Eg.
  split; [vm_compute; reflexivity|]. split; [vm_compute; reflexivity|]. split; [vm_compute; reflexivity|]. split; [vm_compute; reflexivity|]. exact Hg.
Qed.
