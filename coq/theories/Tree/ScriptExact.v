(** Column lineage chains across statements, end to end (C04 on the tree model).

    For SCRIPTS of statements of the Lemma-B fragment (INSERT [cols] / CREATE TABLE AS / CREATE VIEW AS over one SELECT
    from distinct base tables; guards [stmt_ok], [sshape], [colshape], [sel_tables_syntactic]) whose column references
    are all resolved at statement level ([unq_single]: every reference is qualified, or the SELECT has one table),
    analysed without metadata ([env_ok]: falsy provider), the tree model (extractor [analyze], statement loop
    [run_statements], assembly [build], path enumeration [column_lineage]: [script_pairs]) reports exactly
    [spec_script_pairs]: with E the union of the statements' specified flows ([spec_flows], structured: [stmt_edges]),
    the pairs (a, b) such that a is the target of no flow, b is the source of no flow and b is reachable from a by at
    least one flow - statements in any order, cycles allowed (columns on a cycle are never roots or leaves: K-C04-2).

    [script_exact_on_core] composes Lemma B's statement-level analysis (Tree/LemmaBProofs.v, Parts A-E, K: the holder
    graph of a statement has exactly the column edges of its specified flows - here [core_statement]) with the
    composition theorem [c04_main] (Holder/Composition.v) through [run_statements_falsy_provider]
    (Tree/ProviderProofs.v).  No script-level side condition is needed; stars need no restriction across statements
    (a star is the column named "*" of its table on both sides).

    Part 1  the executable specification, the checker, the test scripts
    Part 2  bounded reachability [reachv] is the transitive closure [tcv]
    Part 3  spec vertices as graph nodes ([nu])
    Part 4  one statement: the holder satisfies the conjuncts of [c04_hyps], its column edges are its spec flows
    Part 5  the script theorem, corollaries *)
From Coq Require Import Permutation.
From SV Require Import Tree.Render Tree.LemmaA Tree.LemmaAProofs Tree.LemmaB Tree.LemmaBProofs Ident.Escape Ident.EscapeProofs
     Holder.PathProofs Holder.SortProofs Tree.ProviderProofs.
From SV Require Holder.RefineDefs Holder.RefineGraph Holder.CompDefs Holder.Composition.

(* ================================================================== *)
(** * Part 1: the executable specification *)

(** a column of a base table: (printed table name, column name); a star is the column "*" *)
Definition vtx := (string * string)%type.
Definition vtx_eqb (a b : vtx) : bool := String.eqb (fst a) (fst b) && String.eqb (snd a) (snd b).
Definition show_vtx (v : vtx) : string := fst v ++ "." ++ snd v.

(** resolved sources only *)
Definition src_vtx (s : src) : list vtx :=
  match s with SCol t c => [(t, c)] | SStar t => [(t, "*")] | SUnres _ _ => [] end.

(** [Spec.spec_flows] with the target column kept structured *)
Definition stmt_edges (ds : string) (s : Spec.stmt) : list (vtx * vtx) :=
  match s with
  | SInsert t cols q =>
      let qc := q_cols (S (q_size q)) ds [] q in
      let names := match cols with
                   | Some cs => if Nat.eqb (List.length cs) (List.length qc) then cs else map fst qc
                   | None => map fst qc
                   end in
      flat_map (fun p => flat_map (fun sr => map (fun v => (v, (tref_str ds t, fst p))) (src_vtx sr)) (snd (snd p))) (combine names qc)
  | SCtas t q | SView t q =>
      let qc := q_cols (S (q_size q)) ds [] q in
      flat_map (fun c => flat_map (fun sr => map (fun v => (v, (tref_str ds t, fst c))) (src_vtx sr)) (snd c)) qc
  | SQuery _ | SNoData _ => []
  end.

Definition memv (v : vtx) (l : list vtx) : bool := existsb (vtx_eqb v) l.
(** breadth-first frontiers *)
Definition succs (E : list (vtx * vtx)) (F : list vtx) : list vtx := map snd (filter (fun e => memv (fst e) F) E).
Fixpoint reach_from (E : list (vtx * vtx)) (fuel : nat) (F : list vtx) : list vtx :=
  match fuel with O => [] | S k => let F' := succs E F in F' ++ reach_from E k F' end.
Definition reachv (E : list (vtx * vtx)) (a b : vtx) : bool := memv b (reach_from E (List.length E) [a]).
Definition rootv (E : list (vtx * vtx)) (a : vtx) : bool := negb (memv a (map snd E)).
Definition leafv (E : list (vtx * vtx)) (b : vtx) : bool := negb (memv b (map fst E)).

Definition pairs_of (E : list (vtx * vtx)) : list string :=
  flat_map (fun a => if rootv E a
                     then flat_map (fun b => if leafv E b && reachv E a b then [(show_vtx a ++ ">" ++ show_vtx b)%string] else [])
                                   (map snd E)
                     else []) (map fst E).

Definition script_edges (ds : string) (ss : list Spec.stmt) : list (vtx * vtx) := flat_map (stmt_edges ds) ss.

Definition spec_script_pairs (ds : string) (ss : list Spec.stmt) : list string :=
  uniq_sorted (sort_strings (pairs_of (script_edges ds ss))).

(** [stmt_edges] is [spec_flows] (resolved sources), printed *)
Definition src_resolved (s : src) : bool := match s with SUnres _ _ => false | _ => true end.
Lemma stmt_edges_spec_flows ds s :
  map (fun p => (show_vtx (fst p) ++ ">" ++ show_vtx (snd p))%string) (stmt_edges ds s) =
  map (fun p => (show_src (fst p) ++ ">" ++ snd p)%string) (filter (fun p => src_resolved (fst p)) (spec_flows ds s)).
Proof.
  assert (K : forall (T nm : string) (srcs : list src),
            map (fun p : vtx * vtx => (show_vtx (fst p) ++ ">" ++ show_vtx (snd p))%string)
                (flat_map (fun sr => map (fun v => (v, (T, nm))) (src_vtx sr)) srcs) =
            map (fun p : src * string => (show_src (fst p) ++ ">" ++ snd p)%string)
                (filter (fun p => src_resolved (fst p)) (map (fun sr => (sr, (T ++ "." ++ nm)%string)) srcs))).
  { intros T nm srcs. induction srcs as [|sr r IH]; [reflexivity|].
    destruct sr as [t0 c0|c0 cands|t0]; cbn [flat_map src_vtx map app filter fst src_resolved]; [f_equal; exact IH|exact IH|f_equal; exact IH]. }
  assert (FF : forall (A B : Type) (P : B -> bool) (G : A -> list B) l, filter P (flat_map G l) = flat_map (fun x => filter P (G x)) l).
  { intros A B P G l. induction l as [|x r IH]; [reflexivity|]. cbn [flat_map]. rewrite filter_app. f_equal. exact IH. }
  destruct s as [t cols q|t q|t q|q|k]; cbn [stmt_edges spec_flows]; try reflexivity;
    rewrite FF, !map_flat_map'; apply flat_map_ext; intros p; apply K.
Qed.

(** ** the fragment, and the checker *)
Definition core_ok (s : Spec.stmt) : bool :=
  stmt_ok s && sshape s && colshape s && sel_tables_syntactic s && unq_single s.

Definition script_check (noise : list seg) (e : env) (ss : list Spec.stmt) : string :=
  if negb (noise_ok noise && env_ok e && forallb core_ok ss) then "outside"
  else if list_eqb (script_pairs e false [] (map (r_stmt noise) ss)) (spec_script_pairs (e_cfg e) ss) then "holds" else "FAILS".

Module Tests.
  Definition e0 : env := mk_env "ansi" "" "" {| p_truthy := false; p_cols := [] |} [].
  Definition e1 : env := mk_env "ansi" "main" "main" {| p_truthy := false; p_cols := [] |} [].
  Definition ws : seg := Seg "whitespace" "whitespace" ["whitespace"] " " true false false [].
  Definition cm : seg := Seg "inline_comment" "comment" ["comment"] "-- c" false true false [].

  Definition T (n : string) := RTable (None, n) None.
  Definition TA (n a : string) := RTable (None, n) (Some a).
  Definition TS (s n : string) := RTable (Some s, n) None.
  Definition c_ (n : string) : item := IExpr (EColRef None n) None.
  Definition ca (n a : string) : item := IExpr (EColRef None n) (Some a).
  Definition qc (q n : string) : item := IExpr (EColRef (Some q) n) None.
  Definition qca (q n a : string) : item := IExpr (EColRef (Some q) n) (Some a).
  Definition sel (items : list item) (from : list rel) : query := QSelect items from false None.
  Definition selc (items : list item) (from : list rel) : query := QSelect items from true None.
  Definition ins (t : string) (q : query) := SInsert (None, t) None q.
  Definition insc (t : string) (cs : list string) (q : query) := SInsert (None, t) (Some cs) q.
  Definition inss (s t : string) (q : query) := SInsert (Some s, t) None q.
  Definition ctas (t : string) (q : query) := SCtas (None, t) q.
  Definition view (t : string) (q : query) := SView (None, t) q.

  Definition tests : list (list Spec.stmt) :=
    [ (* 1 chain a -> b -> c *)
      [ins "b" (sel [c_ "x"] [T "a"]); ins "c" (sel [c_ "x"] [T "b"])];
      (* 2 a column dropped midway: the pair ends at the intermediate table *)
      [ins "b" (sel [c_ "x"; c_ "y"] [T "a"]); ins "c" (sel [c_ "x"] [T "b"])];
      (* 3 the table is read before it is written *)
      [ins "c" (sel [c_ "x"] [T "b"]); ins "b" (sel [c_ "x"] [T "a"])];
      (* 4 diamond *)
      [ins "b" (sel [c_ "x"] [T "a"]); ins "c" (sel [c_ "x"] [T "a"]); ins "d" (sel [qc "b" "x"; qca "c" "x" "y"] [T "b"; T "c"])];
      (* 5 diamond closing in one column: two statements write d *)
      [ins "b" (sel [c_ "x"] [T "a"]); ins "c" (sel [c_ "x"] [T "a"]); ins "d" (sel [c_ "x"] [T "b"]); ins "d" (sel [c_ "x"] [T "c"])];
      (* 6 a table written twice, then read *)
      [ins "c" (sel [c_ "x"] [T "a"]); ins "c" (sel [c_ "x"; c_ "y"] [T "b"]); ctas "d" (sel [ca "x" "y"; ca "y" "z"] [T "c"])];
      (* 7 a cycle of two statements: nothing reported (K-C04-2) *)
      [ins "b" (sel [c_ "x"] [T "a"]); ins "a" (sel [c_ "x"] [T "b"])];
      (* 8 a cycle with an entry and an exit *)
      [ins "a" (sel [c_ "x"] [T "r"]); ins "b" (sel [c_ "x"] [T "a"]); ins "a" (sel [c_ "x"] [T "b"]); ins "t" (sel [c_ "x"] [T "b"])];
      (* 9 the same column name everywhere, four statements *)
      [ins "b" (sel [c_ "x"] [T "a"]); ins "c" (sel [c_ "x"] [T "b"]); ins "d" (sel [c_ "x"] [T "c"]); ins "e" (sel [c_ "x"] [T "d"])];
      (* 10 INSERT column lists rename the columns *)
      [insc "b" ["p"; "q"] (sel [c_ "x"; c_ "y"] [T "a"]); insc "c" ["u"] (sel [c_ "q"] [T "b"])];
      (* 11 different schemas; <default>.b is not s1.b *)
      [inss "s1" "b" (sel [c_ "x"] [TS "s0" "a"]); inss "s2" "c" (sel [c_ "x"] [TS "s1" "b"]); ins "b" (sel [c_ "x"] [TS "s2" "c"])];
      (* 12 table aliases, item aliases, a view over a join *)
      [ins "b" (sel [qca "t" "x" "k"] [TA "a" "t"]); view "v" (sel [qc "u" "k"; qc "w" "z"] [TA "b" "u"; TA "c" "w"])];
      (* 13 stars chain *)
      [ins "b" (sel [IStar None] [T "a"]); ins "c" (sel [IStar None] [T "b"])];
      (* 14 a star, then a named column: no chaining through the star *)
      [ins "b" (sel [IStar None] [T "a"]); ins "c" (sel [c_ "x"] [T "b"])];
      (* 15 a named column, then a star *)
      [ins "b" (sel [c_ "x"] [T "a"]); ins "c" (sel [IStar None] [T "b"])];
      (* 16 q.* over two tables *)
      [ins "b" (sel [IStar (Some "a"); qc "z" "k"] [T "a"; T "z"]); ins "c" (sel [IStar None; c_ "k"] [T "b"])];
      (* 17 comma join, qualified references *)
      [ins "c" (selc [qc "a" "x"; qc "b" "y"] [T "a"; T "b"]); ins "d" (sel [c_ "y"; ca "x" "z"] [T "c"])];
      (* 18 a cycle through renamed columns, and a column off the cycle *)
      [insc "b" ["y"] (sel [c_ "x"] [T "a"]); insc "a" ["x"] (sel [c_ "y"] [T "b"]); ins "c" (sel [c_ "x"; c_ "w"] [T "a"])];
      (* 19 one statement *)
      [ins "b" (sel [c_ "x"; ca "y" "z"] [T "a"])];
      (* 20 the empty script *)
      [];
      (* 21 one column feeds two *)
      [ins "b" (sel [ca "x" "p"; ca "x" "q"] [T "a"]); ins "c" (sel [c_ "p"; c_ "q"] [T "b"])];
      (* 22 main.b and b: the same table iff the default schema is main *)
      [inss "main" "b" (sel [c_ "x"] [T "a"]); ins "c" (sel [c_ "x"] [T "b"])];
      (* 23 fan out and in again *)
      [ins "b" (sel [ca "x" "p"; ca "x" "q"] [T "a"]); ins "c" (sel [ca "p" "x"] [T "b"]); ins "c" (sel [ca "q" "x"] [T "b"])]
    ].

  Example tests_hold :
    map (script_check [] e0) tests = map (fun _ => "holds") tests /\
    map (script_check [] e1) tests = map (fun _ => "holds") tests /\
    map (script_check [ws; cm] e1) tests = map (fun _ => "holds") tests.
  Proof. vm_compute. repeat split; reflexivity. Qed.

  (** what is reported (default schema unset) *)
  Example tests_reported :
    map (spec_script_pairs "") (firstn 10 tests) =
    [["<default>.a.x><default>.c.x"];
     ["<default>.a.x><default>.c.x"; "<default>.a.y><default>.b.y"];
     ["<default>.a.x><default>.c.x"];
     ["<default>.a.x><default>.d.x"; "<default>.a.x><default>.d.y"];
     ["<default>.a.x><default>.d.x"];
     ["<default>.a.x><default>.d.y"; "<default>.b.x><default>.d.y"; "<default>.b.y><default>.d.z"];
     [];
     ["<default>.r.x><default>.t.x"];
     ["<default>.a.x><default>.e.x"];
     ["<default>.a.x><default>.b.p"; "<default>.a.y><default>.c.u"]].
  Proof. vm_compute. reflexivity. Qed.
  Example tests_reported_stars :
    map (spec_script_pairs "") (firstn 4 (skipn 12 tests)) =
    [["<default>.a.*><default>.c.*"];
     ["<default>.a.*><default>.b.*"; "<default>.b.x><default>.c.x"];
     ["<default>.a.x><default>.b.x"; "<default>.b.*><default>.c.*"];
     ["<default>.a.*><default>.c.*"; "<default>.z.k><default>.c.k"]].
  Proof. vm_compute. reflexivity. Qed.
  (** test 22: the default schema decides whether the statements chain *)
  Example tests_default_schema :
    spec_script_pairs "" (nth 21 tests []) = ["<default>.a.x>main.b.x"; "<default>.b.x><default>.c.x"] /\
    spec_script_pairs "main" (nth 21 tests []) = ["main.a.x>main.c.x"].
  Proof. vm_compute. split; reflexivity. Qed.
End Tests.

(* ================================================================== *)
(** * Part 2: [reachv] computes the transitive closure *)
Lemma vtx_eqb_eq a b : vtx_eqb a b = true <-> a = b.
Proof.
  destruct a as [a1 a2], b as [b1 b2]. unfold vtx_eqb. cbn [fst snd]. rewrite andb_true_iff, !String.eqb_eq.
  split; [intros [-> ->]; reflexivity|intros H; inversion H; auto].
Qed.

Lemma vtx_dec (a b : vtx) : {a = b} + {a <> b}.
Proof. destruct (vtx_eqb a b) eqn:E; [left; apply vtx_eqb_eq; exact E|right; intros H; apply vtx_eqb_eq in H; congruence]. Qed.

Lemma memv_In v l : memv v l = true <-> In v l.
Proof.
  unfold memv. rewrite existsb_exists. split.
  - intros (x & Hx & E). apply vtx_eqb_eq in E. subst. exact Hx.
  - intros H. exists v. split; [exact H|apply vtx_eqb_eq; reflexivity].
Qed.

Inductive tcv (E : list (vtx * vtx)) : vtx -> vtx -> Prop :=
| tcv_one a b : In (a, b) E -> tcv E a b
| tcv_step a b c : In (a, b) E -> tcv E b c -> tcv E a c.

Fixpoint chainv (E : list (vtx * vtx)) (p : list vtx) : Prop :=
  match p with
  | a :: ((b :: _) as r) => In (a, b) E /\ chainv E r
  | _ => True
  end.

Lemma tcv_src E a b : tcv E a b -> In a (map fst E).
Proof. intros H. destruct H as [a b H|a b c H _]; apply (in_map fst) in H; exact H. Qed.
Lemma tcv_tgt E a b : tcv E a b -> In b (map snd E).
Proof. induction 1 as [a b H|a b c _ _ IH]; [apply (in_map snd) in H; exact H|exact IH]. Qed.

Lemma In_succs E F y : In y (succs E F) <-> exists x, In x F /\ In (x, y) E.
Proof.
  unfold succs. rewrite in_map_iff. split.
  - intros ([x y'] & <- & H). apply filter_In in H. destruct H as [H1 H2]. cbn [fst snd] in *. apply memv_In in H2. exists x. auto.
  - intros (x & Hx & H). exists (x, y). split; [reflexivity|]. apply filter_In. split; [exact H|]. apply memv_In. exact Hx.
Qed.

Lemma reach_from_sound E : forall fuel F y, In y (reach_from E fuel F) -> exists a, In a F /\ tcv E a y.
Proof.
  induction fuel as [|k IH]; intros F y H; [destruct H|]. cbn [reach_from] in H. apply in_app_iff in H. destruct H as [H|H].
  - apply In_succs in H. destruct H as (x & Hx & H). exists x. split; [exact Hx|apply tcv_one; exact H].
  - destruct (IH _ _ H) as (x & Hx & Ht). apply In_succs in Hx. destruct Hx as (a & Ha & Hax).
    exists a. split; [exact Ha|apply (tcv_step E a x y); assumption].
Qed.

Lemma chainv_app_r E q1 : forall l, chainv E (q1 ++ l) -> chainv E l.
Proof.
  induction q1 as [|a q1 IH]; intros l H; [exact H|]. apply IH. cbn [app] in H.
  destruct (q1 ++ l) as [|b r]; [exact I|]. exact (proj2 H).
Qed.

Lemma last_indep_v (l : list vtx) : l <> [] -> forall d d', last l d = last l d'.
Proof.
  induction l as [|a l IH]; intros Hne d d'; [contradiction Hne; reflexivity|]. destruct l as [|b l']; [reflexivity|].
  change (last (b :: l') d = last (b :: l') d'). apply IH. discriminate.
Qed.
Lemma last_cons_v (l : list vtx) a d : l <> [] -> last (a :: l) d = last l d.
Proof. destruct l; [intros H; contradiction H; reflexivity|reflexivity]. Qed.
Lemma last_app_cons_v (q1 : list vtx) x q2 : forall d d', last (q1 ++ x :: q2) d = last (x :: q2) d'.
Proof.
  induction q1 as [|a q1 IH]; intros d d'; cbn [app]; [apply last_indep_v; discriminate|].
  rewrite last_cons_v by (destruct q1; discriminate). apply IH.
Qed.

Lemma NoDup_app_r_v (q1 : list vtx) : forall l, NoDup (q1 ++ l) -> NoDup l.
Proof. induction q1 as [|a q1 IH]; intros l H; [exact H|]. apply IH. cbn [app] in H. inversion H. assumption. Qed.

(** every walk contains a walk with the same end points whose targets are pairwise distinct *)
Lemma tcv_walk E a b : tcv E a b -> exists q, q <> [] /\ chainv E (a :: q) /\ NoDup q /\ last q a = b.
Proof.
  induction 1 as [a b H|a b c H _ IH].
  - exists [b]. split; [discriminate|]. split; [split; [exact H|exact I]|]. split; [constructor; [intros []|constructor]|reflexivity].
  - destruct IH as (q & Hne & Hch & Hnd & Hl).
    destruct (in_dec vtx_dec b q) as [Hin|Hin].
    + apply in_split in Hin. destruct Hin as (q1 & q2 & ->). exists (b :: q2).
      split; [discriminate|]. split; [|split].
      * split; [exact H|]. apply (chainv_app_r E (b :: q1)). exact Hch.
      * apply (NoDup_app_r_v q1). exact Hnd.
      * rewrite <- Hl. symmetry. apply last_app_cons_v.
    + exists (b :: q). split; [discriminate|]. split; [split; [exact H|exact Hch]|]. split; [constructor; assumption|].
      rewrite <- Hl. rewrite (last_cons_v q b a Hne). apply last_indep_v. exact Hne.
Qed.

Lemma chainv_targets E : forall q a, chainv E (a :: q) -> incl q (map snd E).
Proof.
  induction q as [|b q IH]; intros a H x Hx; [destruct Hx|]. destruct H as [H1 H2]. destruct Hx as [<-|Hx].
  - apply (in_map snd) in H1. exact H1.
  - apply (IH b H2 x Hx).
Qed.

Lemma reach_from_walk E : forall q a F fuel, In a F -> chainv E (a :: q) -> q <> [] -> List.length q <= fuel ->
  In (last q a) (reach_from E fuel F).
Proof.
  induction q as [|x q IH]; intros a F fuel Ha Hch Hne Hl; [contradiction Hne; reflexivity|].
  destruct fuel as [|k]; [cbn [List.length] in Hl; lia|]. destruct Hch as [Hax Hch]. cbn [reach_from]. apply in_app_iff.
  assert (Hx : In x (succs E F)) by (apply In_succs; exists a; auto).
  destruct q as [|y q'].
  - left. exact Hx.
  - right. rewrite (last_cons_v (y :: q') x a) by discriminate.
    rewrite (last_indep_v (y :: q') ltac:(discriminate) a x).
    apply IH; [exact Hx|exact Hch|discriminate|cbn [List.length] in *; lia].
Qed.

Theorem reachv_spec E a b : reachv E a b = true <-> tcv E a b.
Proof.
  unfold reachv. rewrite memv_In. split.
  - intros H. destruct (reach_from_sound E _ _ _ H) as (x & [<-|[]] & Ht). exact Ht.
  - intros H. destruct (tcv_walk E a b H) as (q & Hne & Hch & Hnd & <-).
    apply reach_from_walk; [left; reflexivity|exact Hch|exact Hne|].
    rewrite <- (map_length snd E). apply NoDup_incl_length; [exact Hnd|apply (chainv_targets E q a Hch)].
Qed.

Lemma In_pairs_of E x :
  In x (pairs_of E) <->
  exists a b, ~ In a (map snd E) /\ ~ In b (map fst E) /\ tcv E a b /\ x = (show_vtx a ++ ">" ++ show_vtx b)%string.
Proof.
  unfold pairs_of. rewrite in_flat_map. split.
  - intros (a & Ha & H). destruct (rootv E a) eqn:Er; [|destruct H]. apply in_flat_map in H. destruct H as (b & Hb & H).
    destruct (leafv E b && reachv E a b) eqn:El; [|destruct H]. destruct H as [<-|[]]. apply andb_true_iff in El. destruct El as [El Ere].
    exists a, b. unfold rootv, leafv in *. apply negb_true_iff in Er, El. split; [|split; [|split]].
    + intros K. apply memv_In in K. congruence.
    + intros K. apply memv_In in K. congruence.
    + apply reachv_spec. exact Ere.
    + reflexivity.
  - intros (a & b & Hr & Hl & Ht & ->). exists a. split; [exact (tcv_src E a b Ht)|].
    assert (Er : rootv E a = true).
    { unfold rootv. apply negb_true_iff. destruct (memv a (map snd E)) eqn:K; [|reflexivity]. apply memv_In in K. contradiction. }
    assert (El : leafv E b = true).
    { unfold leafv. apply negb_true_iff. destruct (memv b (map fst E)) eqn:K; [|reflexivity]. apply memv_In in K. contradiction. }
    rewrite Er. apply in_flat_map. exists b. split; [exact (tcv_tgt E a b Ht)|].
    rewrite El, (proj2 (reachv_spec E a b) Ht). left. reflexivity.
Qed.

(* ================================================================== *)
(** * Part 3: spec vertices as graph nodes *)
Definition mkT (T : string) : dataset :=
  {| dk := KTable; deq := T; dstr := T; dschema := ""; draw := ""; dalias := ""; dquery := None |}.
Definition nu (v : vtx) : Graph.node := NCol {| craw := snd v; cparents := [mkT (fst v)] |}.

Lemma nu_inj u v : node_eqb (nu u) (nu v) = true -> u = v.
Proof.
  destruct u as [T c], v as [T' c']. unfold nu. cbn [node_eqb fst snd]. unfold col_eqb, col_str, col_parent. cbn [cparents craw mkT dk dstr opt_dataset_eqb].
  unfold dataset_eqb. cbn [dk deq dkind_beq andb]. intros H. apply andb_true_iff in H. destruct H as [H1 H2].
  cbn [mkT dk deq dkind_beq andb] in H2. apply String.eqb_eq in H1, H2. subst T'. apply append_cancel in H1. apply (append_cancel ".") in H1. subst c'. reflexivity.
Qed.

Lemma eqb_nu_src n u : node_eqb n (nu u) = true -> src_str n = show_vtx u.
Proof. intros H. unfold nu in H. rewrite (src_str_eqb_single n {| craw := snd u; cparents := [mkT (fst u)] |} (mkT (fst u)) eq_refl H). reflexivity. Qed.
Lemma eqb_nu_str n u : node_eqb n (nu u) = true -> node_str n = show_vtx u.
Proof. intros H. unfold nu in H. rewrite (node_str_eqb_col n _ H). reflexivity. Qed.

Lemma eqb_nu_unique n u v : node_eqb n (nu u) = true -> node_eqb n (nu v) = true -> u = v.
Proof. intros H1 H2. apply nu_inj. apply (node_eqb_trans _ n _); [apply node_eqb_true_sym; exact H1|exact H2]. Qed.

(** the column edges of a statement graph are (up to Python equality of the nodes) the edges [Es] *)
Definition edges_match (G : graph) (Es : list (vtx * vtx)) : Prop :=
  forall x y, CompDefs.col_edge G x y = true <->
              exists u v, In (u, v) Es /\ node_eqb x (nu u) = true /\ node_eqb y (nu v) = true.

Lemma union_match Gs Ess : Forall2 edges_match Gs Ess -> forall x y,
  (exists h, In h (map holder_of Gs) /\ CompDefs.col_edge (hg h) x y = true) <->
  exists u v, In (u, v) (List.concat Ess) /\ node_eqb x (nu u) = true /\ node_eqb y (nu v) = true.
Proof.
  induction 1 as [|G Es Gs Ess HM _ IH]; intros x y.
  - split; [intros (h & [] & _)|intros (u & v & [] & _)].
  - cbn [map List.concat]. split.
    + intros (h & [<-|Hin] & Hc).
      * apply HM in Hc. destruct Hc as (u & v & Huv & K). exists u, v. split; [apply in_app_iff; left; exact Huv|exact K].
      * destruct (proj1 (IH x y) (ex_intro _ h (conj Hin Hc))) as (u & v & Huv & K). exists u, v. split; [apply in_app_iff; right; exact Huv|exact K].
    + intros (u & v & Huv & K). apply in_app_iff in Huv. destruct Huv as [Huv|Huv].
      * exists (holder_of G). split; [left; reflexivity|]. apply HM. exists u, v. auto.
      * destruct (proj2 (IH x y) (ex_intro _ u (ex_intro _ v (conj Huv K)))) as (h & Hin & Hc). exists h. split; [right; exact Hin|exact Hc].
Qed.

Section Assembly.
  Variables (Gs : list graph) (Ess : list (list (vtx * vtx))).
  Hypothesis HM : Forall2 edges_match Gs Ess.
  Let hs := map holder_of Gs.
  Let E := List.concat Ess.

  Lemma composed_match x y :
    Composition.composed hs x y <-> exists u v, tcv E u v /\ node_eqb x (nu u) = true /\ node_eqb y (nu v) = true.
  Proof.
    split.
    - induction 1 as [h a b Hin Hf|h a b c Hin Hf _ IH].
      + destruct (proj1 (union_match Gs Ess HM a b) (ex_intro _ h (conj Hin Hf))) as (u & v & Huv & K1 & K2).
        exists u, v. split; [apply tcv_one; exact Huv|auto].
      + destruct (proj1 (union_match Gs Ess HM a b) (ex_intro _ h (conj Hin Hf))) as (u & v & Huv & K1 & K2).
        destruct IH as (v' & w & Ht & K3 & K4). rewrite <- (eqb_nu_unique b v v' K2 K3) in Ht.
        exists u, w. split; [apply (tcv_step E u v w); assumption|auto].
    - intros (u & v & Ht & K1 & K2). revert x y K1 K2. induction Ht as [u v Huv|u v w Huv _ IH]; intros x y K1 K2.
      + destruct (proj2 (union_match Gs Ess HM x y) (ex_intro _ u (ex_intro _ v (conj Huv (conj K1 K2))))) as (h & Hin & Hc).
        apply (Composition.co_one hs h); assumption.
      + destruct (proj2 (union_match Gs Ess HM x (nu v)) (ex_intro _ u (ex_intro _ v (conj Huv (conj K1 (node_eqb_refl _))))))
          as (h & Hin & Hc).
        apply (Composition.co_step hs h x (nu v) y); [exact Hin|exact Hc|]. apply IH; [apply node_eqb_refl|exact K2].
  Qed.

  Lemma fed_match s : Composition.fed hs s <-> exists u v, In (u, v) E /\ node_eqb s (nu v) = true.
  Proof.
    unfold Composition.fed, Composition.flow. split.
    - intros (h & x & Hin & Hf). destruct (proj1 (union_match Gs Ess HM x s) (ex_intro _ h (conj Hin Hf))) as (u & v & Huv & _ & K).
      exists u, v. auto.
    - intros (u & v & Huv & K).
      destruct (proj2 (union_match Gs Ess HM (nu u) s) (ex_intro _ u (ex_intro _ v (conj Huv (conj (node_eqb_refl _) K))))) as (h & Hin & Hc).
      exists h, (nu u). auto.
  Qed.

  Lemma consumed_match t : Composition.consumed hs t <-> exists u v, In (u, v) E /\ node_eqb t (nu u) = true.
  Proof.
    unfold Composition.consumed, Composition.flow. split.
    - intros (h & y & Hin & Hf). destruct (proj1 (union_match Gs Ess HM t y) (ex_intro _ h (conj Hin Hf))) as (u & v & Huv & K & _).
      exists u, v. auto.
    - intros (u & v & Huv & K).
      destruct (proj2 (union_match Gs Ess HM t (nu v)) (ex_intro _ u (ex_intro _ v (conj Huv (conj K (node_eqb_refl _)))))) as (h & Hin & Hc).
      exists h, (nu v). auto.
  Qed.

  (** what [c04_main] says about the script graph, in terms of the edges [E] *)
  Theorem lineage_match p g :
    Composition.c04_hyps hs = true -> build p hs = BOk g ->
    forall x, In x (map pair_str (column_lineage g true false)) <-> In x (pairs_of E).
  Proof.
    intros Hh Hb x. destruct (Composition.c04_main p hs Hh) as (g' & Hb' & _ & Hrep).
    rewrite Hb in Hb'. inversion Hb'. subst g'. clear Hb'. rewrite In_pairs_of. split.
    - intros Hx. apply in_map_iff in Hx. destruct Hx as (path & <- & Hp).
      assert (Hr : Composition.reports g true (hd Composition.dflt path) (last path Composition.dflt)).
      { exists path. split; [exact Hp|]. split; apply node_eqb_refl. }
      apply Hrep in Hr. destruct Hr as (Hnf & Hnc & _ & Hco). apply composed_match in Hco. destruct Hco as (u & v & Ht & K1 & K2).
      exists u, v. split; [|split; [|split; [exact Ht|]]].
      + intros Hin. apply Hnf. apply fed_match. apply in_map_iff in Hin. destruct Hin as ([u0 u'] & Eu & Hin). cbn [snd] in Eu. subst u'.
        exists u0, u. auto.
      + intros Hin. apply Hnc. apply consumed_match. apply in_map_iff in Hin. destruct Hin as ([v' v0] & Ev & Hin). cbn [fst] in Ev. subst v'.
        exists v, v0. auto.
      + destruct path as [|s r]; [cbn [hd] in K1; discriminate K1|]. rewrite pair_str_cons. cbn [hd] in K1.
        rewrite (last_cons_indep r s Composition.dflt s) in K2. rewrite (eqb_nu_src _ _ K1), (eqb_nu_str _ _ K2). reflexivity.
    - intros (u & v & Hr & Hl & Ht & ->).
      assert (Hrp : Composition.reports g true (nu u) (nu v)).
      { apply Hrep. split; [|split; [|split]].
        - intros Hf. apply fed_match in Hf. destruct Hf as (u0 & v0 & Huv & K). apply nu_inj in K. subst v0. apply Hr.
          apply (in_map snd) in Huv. exact Huv.
        - intros Hc. apply consumed_match in Hc. destruct Hc as (u0 & v0 & Huv & K). apply nu_inj in K. subst u0. apply Hl.
          apply (in_map fst) in Huv. exact Huv.
        - intros _. reflexivity.
        - apply composed_match. exists u, v. split; [exact Ht|split; apply node_eqb_refl]. }
      destruct Hrp as (path & Hp & K1 & K2). apply in_map_iff. exists path. split; [|exact Hp].
      destruct path as [|s r]; [cbn [hd] in K1; discriminate K1|]. rewrite pair_str_cons. cbn [hd] in K1.
      rewrite (last_cons_indep r s Composition.dflt s) in K2.
      rewrite (eqb_nu_src _ _ (node_eqb_true_sym _ _ K1)), (eqb_nu_str _ _ (node_eqb_true_sym _ _ K2)). reflexivity.
  Qed.
End Assembly.

(* ================================================================== *)
(** * Part 4: one statement of the fragment *)

(** ** what Lemma B's analysis of the statement holder gives, beyond the reported pairs *)
Record core_facts (G : graph) (FL : list flow) : Prop := {
  cf_clean : clean_holder G;
  cf_real : realises G FL;
  cf_res : lits_in (fun n => CompDefs.resolvedn n = true) G;
  cf_closed : forall x y, has_edge G x y = true -> has_node G x = true /\ has_node G y = true
}.

Lemma PC4_nil_resolved ts c : PC4 ts [] c -> CompDefs.resolvedn (NCol c) = true.
Proof.
  intros [(p & Ep & _)|(nm & [] & _)]. unfold CompDefs.resolvedn. cbn [unresolved]. rewrite Ep. reflexivity.
Qed.

Lemma holder_facts d ts xs (S : xcol -> list column) gb sub :
  group_ok d ts -> ts_inj ts -> dk d = KTable ->
  (forall x, In x xs -> (exists nm0, snd x = {| craw := nm0; cparents := [d] |}) /\
     forall s, In s (S (fst x)) -> exists v, In v ts /\ cparents s = [v]) ->
  lits_in (QK (d :: ts) (PC4 ts [])) gb -> drop_free gb ->
  (forall e0, In e0 (gedges gb) -> String.eqb (etype (snd e0)) "rename" = false) ->
  (forall x y, is_column x = true -> has_edge gb x y = false) ->
  (forall p c, In p ts -> has_edge gb (NData p) (NCol c) = false) ->
  (forall x y, has_edge gb x y = true -> has_node gb x = true /\ has_node gb y = true) ->
  ext gb sub (map (fun v => (NData v, NStr (dalias v))) ts ++ sel_edges d S xs) ->
  sel_inv (PC4 ts []) d ts sub ->
  core_facts (compose gb sub) (flows_of S xs).
Proof.
  intros Hgo Hinj Hd HX Lb Db Hbe Hbc Hbd Hcl X Hinv.
  destruct (holder_realises d ts [] xs S gb sub Hgo Hinj Hd) as (C1 & _ & C3 & _); try assumption.
  - intros x Hx. destruct (HX x Hx) as [H1 H2]. split; [exact H1|]. intros s Hs. left. exact (H2 s Hs).
  - intros nm [].
  - intros x' s' nm v [].
  - constructor; [exact C1|exact C3| |].
    + apply (lits_weaken (QK (d :: ts) (PC4 ts []))); [|apply lits_compose; [exact Lb|exact (si_lits _ _ _ _ Hinv)]].
      intros n Hn. destruct n as [v|c|s]; [reflexivity|exact (PC4_nil_resolved ts c Hn)|reflexivity].
    + intros x y Hxy. rewrite has_edge_compose, (ext_edges _ _ _ X) in Hxy. rewrite !has_node_compose.
      destruct (has_edge gb x y) eqn:Eg.
      * destruct (Hcl x y Eg) as [N1 N2]. rewrite N1, N2. auto.
      * cbn [orb] in Hxy. unfold ematch in Hxy. apply existsb_exists in Hxy. destruct Hxy as (p & Hp & E).
        apply andb_true_iff in E. destruct E as [E1 E2]. destruct (ext_new _ _ _ X p Hp) as [N1 N2].
        rewrite (RefineGraph.has_node_cong sub x (fst p) E1), (RefineGraph.has_node_cong sub y (snd p) E2), N1, N2, !orb_true_r. auto.
Qed.

(** ** the conjuncts of [c04_hyps] *)
Lemma core_plain G : clean_holder G -> CompDefs.plain_holder (holder_of G) = true.
Proof.
  intros [Hd Hr]. unfold CompDefs.plain_holder.
  assert (Ed : h_drop (holder_of G) = []).
  { unfold h_drop, tagged, holder_of. cbn [hg]. rewrite (filter_none _ (gnodes G)); [reflexivity|].
    intros [n a] Hin. cbn [fst snd]. rewrite (Hd n a Hin). reflexivity. }
  assert (Er : h_renames (holder_of G) = []).
  { unfold holder_of. cbn [h_renames]. apply flat_map_none. intros e He. apply edges_nx_In in He. rewrite (Hr e He). reflexivity. }
  rewrite Ed, Er. reflexivity.
Qed.

Lemma core_resolved G : lits_in (fun n => CompDefs.resolvedn n = true) G -> CompDefs.resolved_holder (holder_of G) = true.
Proof.
  intros [H1 H2]. unfold CompDefs.resolved_holder, CompDefs.resolved_graph. cbn [hg holder_of]. apply andb_true_iff. split; apply forallb_forall.
  - intros [n a] Hin. cbn [fst]. apply H1. apply in_map_iff. exists (n, a). auto.
  - intros e He. exact (proj1 (H2 e He)).
Qed.

Lemma edge_has_edge G e : In e (gedges G) -> has_edge G (fst (fst e)) (snd (fst e)) = true.
Proof. intros He. apply has_edge_In. exists e. split; [exact He|]. split; apply node_eqb_refl. Qed.

Lemma core_cwf G FL : core_facts G FL -> CompDefs.cwf_holder (holder_of G) = true.
Proof.
  intros [_ R _ Hcl]. unfold CompDefs.cwf_holder, CompDefs.cwf_graph. cbn [hg holder_of].
  unfold CompDefs.closed_src, RefineDefs.closed_tgt, CompDefs.col_out_closed. rewrite !andb_true_iff. split; [split|]; apply forallb_forall; intros e He.
  - exact (proj1 (Hcl _ _ (edge_has_edge G e He))).
  - exact (proj2 (Hcl _ _ (edge_has_edge G e He))).
  - unfold RefineDefs.esrc, RefineDefs.etgt. destruct (is_column (fst (fst e))) eqn:Ec; [|reflexivity]. cbn [negb orb].
    destruct (r_sound _ _ R _ _ Ec (edge_has_edge G e He)) as (f & _ & _ & E2). rewrite (is_column_eqb _ _ E2). reflexivity.
Qed.

(** ** from the flows of the holder to edges between spec vertices *)
Definition vk (c : column) : vtx := (match cparents c with [p] => dstr p | _ => "" end, craw c).
Definition phi (f : flow) : vtx * vtx := (vk (fst f), vk (snd f)).
Definition tcol (c : column) : Prop := exists p, cparents c = [p] /\ dk p = KTable /\ deq p = dstr p.

Lemma tcol_nu c : tcol c -> node_eqb (NCol c) (nu (vk c)) = true.
Proof.
  intros (p & Ep & Hk & Hq). unfold nu, vk. rewrite Ep. cbn [fst snd node_eqb]. unfold col_eqb, col_str, col_parent. rewrite Ep.
  cbn [cparents craw mkT dk dstr opt_dataset_eqb]. rewrite Hk, String.eqb_refl. unfold dataset_eqb. cbn [dk deq]. rewrite Hk, Hq, String.eqb_refl. reflexivity.
Qed.

Lemma realises_match G FL :
  realises G FL -> (forall f, In f FL -> tcol (fst f) /\ tcol (snd f)) -> edges_match G (map phi FL).
Proof.
  intros R HT x y. split.
  - intros Hc. unfold CompDefs.col_edge in Hc. apply andb_true_iff in Hc. destruct Hc as [Hc He]. apply andb_true_iff in Hc. destruct Hc as [Hx _].
    destruct (r_sound _ _ R x y Hx He) as (f & Hf & E1 & E2). destruct (HT f Hf) as [T1 T2].
    exists (vk (fst f)), (vk (snd f)). split; [apply (in_map phi) in Hf; exact Hf|].
    split; [apply (node_eqb_trans _ _ _ E1 (tcol_nu _ T1))|apply (node_eqb_trans _ _ _ E2 (tcol_nu _ T2))].
  - intros (u & v & Huv & K1 & K2). apply in_map_iff in Huv. destruct Huv as (f & Ef & Hf). inversion Ef. subst u v.
    destruct (HT f Hf) as [T1 T2].
    rewrite (Composition.col_edge_cong G x (NCol (fst f)) y (NCol (snd f))).
    + unfold CompDefs.col_edge. cbn [is_column andb]. exact (r_complete _ _ R f Hf).
    + apply (node_eqb_trans _ _ _ K1). apply node_eqb_true_sym. exact (tcol_nu _ T1).
    + apply (node_eqb_trans _ _ _ K2). apply node_eqb_true_sym. exact (tcol_nu _ T2).
Qed.

Lemma tbl_tcol_parent e t al : dk (tbl e t al) = KTable /\ deq (tbl e t al) = dstr (tbl e t al).
Proof. split; reflexivity. Qed.

Lemma ts_tcol e from v : forallb rel_ok from = true -> In v (map (tbl_of e) from) -> dk v = KTable /\ deq v = dstr v.
Proof.
  intros Hrel Hv. apply in_map_iff in Hv. destruct Hv as (r & <- & Hr). rewrite forallb_forall in Hrel.
  rewrite (tbl_of_table e r (rel_ok_table r (Hrel r Hr))). apply tbl_tcol_parent.
Qed.

(** ** the holder of INSERT / CTAS / VIEW over one SELECT from distinct tables, all references resolved *)
Lemma holder_select noise e (s : Spec.stmt) t items from cj :
  noise_ok noise = true -> env_ok e = true ->
  (s = SInsert t None (QSelect items from cj None) \/ s = SCtas t (QSelect items from cj None) \/ s = SView t (QSelect items from cj None)) ->
  tref_ok t = true -> forallb item_ok items = true -> from <> [] -> forallb rel_ok from = true ->
  let d := tbl e t None in let ts := map (tbl_of e) from in let xs := map xcol_of items in
  group_ok d ts -> ts_inj ts -> names_nodot ts -> (forall x, In x xs -> xref_ok ts x) -> unres_names ts xs = [] ->
  exists G, analyze e false (r_stmt noise s) = Ok G /\ core_facts G (flows_of (S_of ts) (own_pairs d xs)) /\
            forall f, In f (flows_of (S_of ts) (own_pairs d xs)) -> tcol (fst f) /\ tcol (snd f).
Proof.
  intros Hn He Hs Ht Hit Hne Hrel d ts xs Hgo Hinj Hnd Hxs Hun.
  assert (Hp : p_truthy (e_provider e) = false) by exact (proj1 (env_facts e He)).
  assert (Hdo : Forall data_ok ts).
  { apply Forall_forall. intros v Hv. unfold data_ok. rewrite (go_tables _ _ Hgo v Hv).
    apply in_map_iff in Hv. destruct Hv as (r & <- & _). destruct r; reflexivity. }
  assert (Ea : analyze e false (r_stmt noise s) = sel_holder e t items from).
  { destruct Hs as [->|[->| ->]].
    - apply analyze_insert_select; assumption.
    - apply (analyze_create_select noise Hn e He false); assumption.
    - apply (analyze_create_select noise Hn e He true); assumption. }
  unfold sel_holder in Ea. change (tbl e t None) with d in Ea. change (map (tbl_of e) from) with ts in Ea. fold xs in Ea.
  assert (HA : forall x, In x xs -> cparents (xc x) = [] /\ PC4 ts [] (own_col d x) /\ List.length (S_of ts x) <= 1 /\
                 (forall s0, In s0 (S_of ts x) -> PC4 ts [] s0 /\ forall p, In p (cparents s0) -> In p ts) /\
                 (forall s0, In s0 (S_of ts x) -> exists v, In v ts /\ cparents s0 = [v])).
  { intros x Hx. destruct (S_of_props d ts xs x Hgo Hinj eq_refl Hx (Hxs x Hx)) as (A1 & A2 & A3 & A4 & A5). rewrite Hun in A2, A4, A5.
    split; [exact A1|]. split; [exact A2|]. split; [exact A3|]. split; [exact A4|].
    intros s0 Hs0. destruct (A5 s0 Hs0) as [K|(nm & [] & _)]. exact K. }
  destruct (select_core (PC4 ts []) e d ts xs (S_of ts) Hp Hgo Hdo eq_refl (fun c Hc => PC4_qk d ts [] c Hgo Hinj Hc)) as (sub & Esub & Xsub & Isub).
  - intros g2 Hinv x Hx. apply (HS_of (PC4 ts []) e d ts g2 x Hgo Hinj Hnd Hinv (Hxs x Hx)).
  - intros x Hx. destruct (HA x Hx) as (A1 & A2 & A3 & A4 & _). auto.
  - rewrite Esub in Ea. exists (compose (add_write empty_graph d) sub). split; [exact Ea|].
    assert (Hop : forall p0, In p0 (own_pairs d xs) -> In (fst p0) xs /\ snd p0 = own_col d (fst p0)).
    { intros p0 Hp0. unfold own_pairs in Hp0. apply in_map_iff in Hp0. destruct Hp0 as (x & <- & Hx). auto. }
    split.
    + apply (holder_facts d ts (own_pairs d xs) (S_of ts) (add_write empty_graph d) sub Hgo Hinj eq_refl).
      * intros p0 Hp0. destruct (Hop p0 Hp0) as [Hx Ep]. destruct (HA _ Hx) as (A1 & _ & _ & _ & A5). split; [|exact A5].
        rewrite Ep, (own_col_eq d _ A1). eexists. reflexivity.
      * split; [intros n [<-|[]]; left; reflexivity|intros e0 []].
      * intros n a [H|[]]; inversion H; intros [K|[]]; discriminate K.
      * intros e0 [].
      * reflexivity.
      * reflexivity.
      * intros x y Hxy. discriminate Hxy.
      * exact Xsub.
      * exact Isub.
    + intros f Hf. unfold flows_of in Hf. apply in_flat_map in Hf. destruct Hf as (p0 & Hp0 & Hf). apply in_map_iff in Hf.
      destruct Hf as (s0 & <- & Hs0). destruct (Hop p0 Hp0) as [Hx Ep]. destruct (HA _ Hx) as (A1 & _ & _ & _ & A5). cbn [fst snd]. split.
      * destruct (A5 s0 Hs0) as (v & Hv & Ev). exists v. split; [exact Ev|]. exact (ts_tcol e from v Hrel Hv).
      * rewrite Ep, (own_col_eq d _ A1). exists d. split; [reflexivity|]. apply tbl_tcol_parent.
Qed.

(** ** the same with an INSERT column list *)
Lemma holder_insert_cols noise e t cs items from cj :
  noise_ok noise = true -> env_ok e = true ->
  tref_ok t = true -> forallb id_ok cs = true -> NoDup cs -> List.length cs = List.length items ->
  forallb item_ok items = true -> from <> [] -> forallb rel_ok from = true ->
  let d := tbl e t None in let ts := map (tbl_of e) from in let xs := map xcol_of items in
  group_ok d ts -> ts_inj ts -> names_nodot ts -> (forall x, In x xs -> xref_ok ts x) -> unres_names ts xs = [] ->
  let FL := flows_of (S_of ts) (combine xs (map (Wcol d) cs)) in
  exists G, analyze e false (r_stmt noise (SInsert t (Some cs) (QSelect items from cj None))) = Ok G /\ core_facts G FL /\
            forall f, In f FL -> tcol (fst f) /\ tcol (snd f).
Proof.
  intros Hn He Ht Hcs Hnd Hlen Hit Hne Hrel d ts xs Hgo Hinj Hndot Hxs Hun FL.
  assert (Hp : p_truthy (e_provider e) = false) by exact (proj1 (env_facts e He)).
  assert (Hdo : Forall data_ok ts).
  { apply Forall_forall. intros v Hv. unfold data_ok. rewrite (go_tables _ _ Hgo v Hv).
    apply in_map_iff in Hv. destruct Hv as (r & <- & _). destruct r; reflexivity. }
  pose proof (analyze_insert_cols noise Hn e He t cs items from cj Ht Hcs Hnd Hit Hne Hrel) as Ea.
  unfold sel_holder_cols in Ea. change (tbl e t None) with d in Ea. change (map (tbl_of e) from) with ts in Ea. fold xs in Ea.
  assert (Hlx : List.length xs = List.length cs) by (unfold xs; rewrite map_length; lia).
  assert (HW : forall c, In c cs -> PC4 ts [] (Wcol d c)) by (intros c _; left; exists d; auto).
  assert (HA : forall x, In x xs ->
                 (forall s0, In s0 (S_of ts x) -> PC4 ts [] s0 /\ forall p, In p (cparents s0) -> In p ts) /\
                 (forall s0, In s0 (S_of ts x) -> exists v, In v ts /\ cparents s0 = [v])).
  { intros x Hx. destruct (S_of_props d ts xs x Hgo Hinj eq_refl Hx (Hxs x Hx)) as (_ & _ & _ & A4 & A5). rewrite Hun in A4, A5.
    split; [exact A4|]. intros s0 Hs0. destruct (A5 s0 Hs0) as [K|(nm & [] & _)]. exact K. }
  destruct (select_core_cols (PC4 ts []) e d ts cs xs (S_of ts) Hp Hgo Hdo eq_refl Hnd Hlx (fun c Hc => PC4_qk d ts [] c Hgo Hinj Hc)) as (sub & Esub & Xsub & Isub).
  - intros g2 Hinv x Hx. apply (HS_of (PC4 ts []) e d ts g2 x Hgo Hinj Hndot Hinv (Hxs x Hx)).
  - intros x Hx. split; [exact (S_of_single ts x (Hxs x Hx))|exact (proj1 (HA x Hx))].
  - exact HW.
  - rewrite Esub in Ea. exists (compose (gb_of d cs) sub). split; [exact Ea|].
    destruct (gb_facts d cs eq_refl Hnd) as (GA & GB & GC & GD & GO).
    assert (Hop : forall p0, In p0 (combine xs (map (Wcol d) cs)) -> In (fst p0) xs /\ exists c, In c cs /\ snd p0 = Wcol d c).
    { intros [x w] Hp0. split; [exact (in_combine_l _ _ _ _ Hp0)|]. apply in_combine_r in Hp0. apply in_map_iff in Hp0.
      destruct Hp0 as (c & <- & Hc). exists c. auto. }
    split.
    + apply (holder_facts d ts (combine xs (map (Wcol d) cs)) (S_of ts) (gb_of d cs) sub Hgo Hinj eq_refl).
      * intros p0 Hp0. destruct (Hop p0 Hp0) as [Hx (c & _ & Ep)]. split; [|exact (proj2 (HA _ Hx))]. rewrite Ep. eexists. reflexivity.
      * split.
        -- intros n Hn0. rewrite GB in Hn0. destruct Hn0 as [<-|Hn0]; [left; reflexivity|]. apply in_map_iff in Hn0. destruct Hn0 as (c & <- & Hc). apply HW. exact Hc.
        -- intros e0 He0. rewrite GA in He0. destruct (OE_edge d cs e0 He0) as (j & c & Hc & ->). cbn [fst snd QK]. split; [left; reflexivity|apply HW; exact Hc].
      * exact GD.
      * intros e0 He0. rewrite GA in He0. destruct (OE_edge d cs e0 He0) as (j & c & _ & ->). reflexivity.
      * intros x y Hx. destruct (has_edge (gb_of d cs) x y) eqn:E; [|reflexivity]. apply has_edge_In in E. destruct E as (e0 & He0 & E1 & _).
        rewrite GA in He0. destruct (OE_edge d cs e0 He0) as (j & c & _ & ->). cbn [fst] in E1. destruct x; try discriminate.
      * intros p c Hp0. destruct (has_edge (gb_of d cs) (NData p) (NCol c)) eqn:E; [|reflexivity]. apply has_edge_In in E. destruct E as (e0 & He0 & E1 & _).
        rewrite GA in He0. destruct (OE_edge d cs e0 He0) as (j & c0 & _ & ->). cbn [fst node_eqb] in E1.
        rewrite (go_target _ _ Hgo p Hp0) in E1. discriminate.
      * intros x y Hxy. apply has_edge_In in Hxy. destruct Hxy as (e0 & He0 & E1 & E2). rewrite GA in He0.
        destruct (OE_edge d cs e0 He0) as (j & c & Hc & ->). cbn [fst snd] in E1, E2.
        assert (N1 : has_node (gb_of d cs) (NData d) = true).
        { apply has_node_In. exists (NData d). split; [rewrite GB; left; reflexivity|apply node_eqb_refl]. }
        assert (N2 : has_node (gb_of d cs) (NCol (Wcol d c)) = true).
        { apply has_node_In. exists (NCol (Wcol d c)). split; [rewrite GB; right; apply in_map_iff; exists c; auto|apply node_eqb_refl]. }
        rewrite (RefineGraph.has_node_cong _ x _ E1), (RefineGraph.has_node_cong _ y _ E2). auto.
      * exact Xsub.
      * exact Isub.
    + intros f Hf. unfold FL, flows_of in Hf. apply in_flat_map in Hf. destruct Hf as (p0 & Hp0 & Hf). apply in_map_iff in Hf.
      destruct Hf as (s0 & <- & Hs0). destruct (Hop p0 Hp0) as [Hx (c & _ & Ep)]. cbn [fst snd]. split.
      * destruct (proj2 (HA _ Hx) s0 Hs0) as (v & Hv & Ev). exists v. split; [exact Ev|]. exact (ts_tcol e from v Hrel Hv).
      * rewrite Ep. exists d. split; [reflexivity|]. apply tbl_tcol_parent.
Qed.

(** ** the specification side: the edges of a SELECT over tables, item by item *)
Definition src_edges (T nm : string) (srcs : list src) : list (vtx * vtx) :=
  flat_map (fun sr => map (fun v => (v, (T, nm))) (src_vtx sr)) srcs.
Definition item_edges (T : string) (scope : list binding) (i : item) : list (vtx * vtx) :=
  flat_map (fun c : colspec => src_edges T (fst c) (snd c)) (item_cols scope i).

(** every reference is qualified, or the scope has one table *)
Definition item_res (from : list rel) (i : item) : Prop :=
  match snd (item_ref i) with Some q => qual1 from q | None => exists r, from = [r] end.

Lemma item_corr_v e t from i :
  forallb rel_ok from = true -> item_ok i = true -> item_res from i ->
  item_edges (tref_str (e_cfg e) t) (map (sbind (e_cfg e)) from) i =
  map phi (map (fun s => (s, own_col (tbl e t None) (xcol_of i))) (S_of (map (tbl_of e) from) (xcol_of i))).
Proof.
  intros Hrel Hi Hc. destruct (xcol_of_facts i Hi) as (F1 & F2 & F3 & F4).
  assert (Hrt : forallb is_rtable from = true).
  { rewrite forallb_forall in *. intros r Hr. apply rel_ok_table. apply Hrel. exact Hr. }
  assert (Eo : own_col (tbl e t None) (xcol_of i) = {| craw := item_name i; cparents := [tbl e t None] |}).
  { rewrite own_col_eq; rewrite F1; reflexivity. }
  rewrite Eo. unfold S_of. rewrite F2. rewrite forallb_forall in Hrel. unfold item_res in Hc.
  destruct i as [[qq c| | | | | |] al|qq]; cbn [item_ok] in Hi; try discriminate; cbn [item_ref item_name fst snd] in *.
  - destruct qq as [q|].
    + destruct Hc as (r0 & Hr0 & En & Hu).
      rewrite (find_dalias (map (tbl_of e) from) q (tbl_of e r0)).
      * rewrite (tbl_of_table e r0 (rel_ok_table _ (Hrel r0 Hr0))).
        unfold item_edges. cbn [item_cols col_refs flat_map app resolve fst snd].
        rewrite (find_binding_q (e_cfg e) from q r0 Hrt F4 Hr0 En Hu). destruct al; reflexivity.
      * apply in_map. exact Hr0.
      * rewrite (tbl_of_table e r0 (rel_ok_table _ (Hrel r0 Hr0))). exact En.
      * intros w Hw Ew. apply in_map_iff in Hw. destruct Hw as (r & <- & Hr).
        rewrite (Hu r Hr); [reflexivity|]. left. rewrite (tbl_of_table e r (rel_ok_table _ (Hrel r Hr))) in Ew. exact Ew.
    + destruct Hc as (r & ->).
      cbn [map]. rewrite (tbl_of_table e r (rel_ok_table _ (Hrel r (or_introl eq_refl)))).
      unfold item_edges. cbn [item_cols col_refs flat_map app resolve fst snd map]. destruct al; reflexivity.
  - destruct qq as [q|].
    + destruct Hc as (r0 & Hr0 & En & Hu).
      rewrite (find_dalias (map (tbl_of e) from) q (tbl_of e r0)).
      * rewrite (tbl_of_table e r0 (rel_ok_table _ (Hrel r0 Hr0))).
        unfold item_edges. cbn [item_cols].
        rewrite (find_binding_q (e_cfg e) from q r0 Hrt F4 Hr0 En Hu). reflexivity.
      * apply in_map. exact Hr0.
      * rewrite (tbl_of_table e r0 (rel_ok_table _ (Hrel r0 Hr0))). exact En.
      * intros w Hw Ew. apply in_map_iff in Hw. destruct Hw as (r & <- & Hr).
        rewrite (Hu r Hr); [reflexivity|]. left. rewrite (tbl_of_table e r (rel_ok_table _ (Hrel r Hr))) in Ew. exact Ew.
    + destruct Hc as (r & ->).
      cbn [map]. rewrite (tbl_of_table e r (rel_ok_table _ (Hrel r (or_introl eq_refl)))).
      unfold item_edges. cbn [item_cols map]. reflexivity.
Qed.

Lemma combine_names_edges (T : string) (qc : list colspec) :
  flat_map (fun p : string * colspec => src_edges T (fst p) (snd (snd p))) (combine (map fst qc) qc) =
  flat_map (fun c : colspec => src_edges T (fst c) (snd c)) qc.
Proof. induction qc as [|c r IH]; [reflexivity|]. cbn [map combine flat_map fst snd]. f_equal. exact IH. Qed.

Lemma stmt_edges_select ds (s : Spec.stmt) t items from cj :
  (s = SInsert t None (QSelect items from cj None) \/ s = SCtas t (QSelect items from cj None) \/ s = SView t (QSelect items from cj None)) ->
  forallb is_rtable from = true ->
  stmt_edges ds s = flat_map (item_edges (tref_str ds t) (map (sbind ds) from)) items.
Proof.
  intros Hs Hrt.
  assert (E : stmt_edges ds s =
              flat_map (fun c : colspec => src_edges (tref_str ds t) (fst c) (snd c)) (flat_map (item_cols (map (sbind ds) from)) items)).
  { destruct Hs as [->|[->| ->]]; unfold stmt_edges; rewrite (q_cols_select _ ds items from cj None Hrt);
      [apply combine_names_edges|reflexivity|reflexivity]. }
  rewrite E, flat_map_flat_map. reflexivity.
Qed.

(** with an explicit column list *)
Lemma item_corr_vn e t from i nm :
  forallb rel_ok from = true -> item_ok i = true -> item_res from i ->
  exists srcs, item_cols (map (sbind (e_cfg e)) from) i = [(item_name i, srcs)] /\
    src_edges (tref_str (e_cfg e) t) nm srcs =
    map phi (map (fun s => (s, Wcol (tbl e t None) nm)) (S_of (map (tbl_of e) from) (xcol_of i))).
Proof.
  intros Hrel Hi Hc. destruct (xcol_of_facts i Hi) as (F1 & F2 & F3 & F4).
  assert (Hrt : forallb is_rtable from = true).
  { rewrite forallb_forall in *. intros r Hr. apply rel_ok_table. apply Hrel. exact Hr. }
  unfold S_of. rewrite F2. rewrite forallb_forall in Hrel. unfold item_res in Hc.
  destruct i as [[qq c| | | | | |] al|qq]; cbn [item_ok] in Hi; try discriminate; cbn [item_ref item_name fst snd] in *.
  - destruct qq as [q|].
    + destruct Hc as (r0 & Hr0 & En & Hu).
      rewrite (find_dalias (map (tbl_of e) from) q (tbl_of e r0)).
      * rewrite (tbl_of_table e r0 (rel_ok_table _ (Hrel r0 Hr0))).
        cbn [item_cols col_refs flat_map app resolve fst snd].
        rewrite (find_binding_q (e_cfg e) from q r0 Hrt F4 Hr0 En Hu). eexists. split; [reflexivity|reflexivity].
      * apply in_map. exact Hr0.
      * rewrite (tbl_of_table e r0 (rel_ok_table _ (Hrel r0 Hr0))). exact En.
      * intros w Hw Ew. apply in_map_iff in Hw. destruct Hw as (r & <- & Hr).
        rewrite (Hu r Hr); [reflexivity|]. left. rewrite (tbl_of_table e r (rel_ok_table _ (Hrel r Hr))) in Ew. exact Ew.
    + destruct Hc as (r & ->).
      cbn [map]. rewrite (tbl_of_table e r (rel_ok_table _ (Hrel r (or_introl eq_refl)))).
      cbn [item_cols col_refs flat_map app resolve fst snd map]. eexists. split; [reflexivity|reflexivity].
  - destruct qq as [q|].
    + destruct Hc as (r0 & Hr0 & En & Hu).
      rewrite (find_dalias (map (tbl_of e) from) q (tbl_of e r0)).
      * rewrite (tbl_of_table e r0 (rel_ok_table _ (Hrel r0 Hr0))).
        cbn [item_cols]. rewrite (find_binding_q (e_cfg e) from q r0 Hrt F4 Hr0 En Hu). eexists. split; [reflexivity|reflexivity].
      * apply in_map. exact Hr0.
      * rewrite (tbl_of_table e r0 (rel_ok_table _ (Hrel r0 Hr0))). exact En.
      * intros w Hw Ew. apply in_map_iff in Hw. destruct Hw as (r & <- & Hr).
        rewrite (Hu r Hr); [reflexivity|]. left. rewrite (tbl_of_table e r (rel_ok_table _ (Hrel r Hr))) in Ew. exact Ew.
    + destruct Hc as (r & ->).
      cbn [map]. rewrite (tbl_of_table e r (rel_ok_table _ (Hrel r (or_introl eq_refl)))).
      cbn [item_cols map flat_map sbind b_rel app]. eexists. split; [reflexivity|reflexivity].
Qed.

Lemma stmt_edges_insert_cols ds t cs items from cj :
  forallb is_rtable from = true -> List.length cs = List.length items ->
  (forall i, In i items -> exists srcs, item_cols (map (sbind ds) from) i = [(item_name i, srcs)]) ->
  stmt_edges ds (SInsert t (Some cs) (QSelect items from cj None)) =
  flat_map (fun ic : item * string => src_edges (tref_str ds t) (snd ic) (flat_map snd (item_cols (map (sbind ds) from) (fst ic))))
           (combine items cs).
Proof.
  intros Hrt Hlen Hs. unfold stmt_edges. rewrite (q_cols_select _ ds items from cj None Hrt).
  set (IC := item_cols (map (sbind ds) from)) in *.
  assert (Hl : List.length (flat_map IC items) = List.length items).
  { apply length_flat_single. intros i Hi. destruct (Hs i Hi) as (srcs & E). eexists. exact E. }
  rewrite Hl, Hlen, Nat.eqb_refl. clear Hl.
  revert cs Hlen. induction items as [|i r IH]; intros [|c cr] Hlen; cbn [List.length] in Hlen; try discriminate; [reflexivity|].
  destruct (Hs i (or_introl eq_refl)) as (srcs & E). cbn [flat_map combine fst snd]. rewrite E. cbn [app combine flat_map fst snd].
  rewrite app_nil_r. f_equal. apply IH; [intros i' Hi'; apply Hs; right; exact Hi'|lia].
Qed.

(** ** the statement theorem: the holder of a statement of the fragment satisfies the conjuncts of [c04_hyps], and its
       column edges are exactly the specified flows *)
Lemma unq_single_res items from :
  match from with
  | [_] => true
  | _ => forallb (fun i => match snd (item_ref i) with Some _ => true | None => false end) items
  end = true ->
  items_cond from items -> forall i, In i items -> item_res from i.
Proof.
  intros Hu Hic i Hi. specialize (Hic i Hi). unfold item_res. destruct (snd (item_ref i)) as [q|] eqn:Eq; [exact Hic|].
  destruct Hic as [K|[Hl _]]; [exact K|]. exfalso.
  destruct from as [|r [|r' l]]; cbn [List.length] in Hl; try lia.
  rewrite forallb_forall in Hu. specialize (Hu i Hi). rewrite Eq in Hu. discriminate.
Qed.

Lemma unq_single_unres e items from :
  match from with
  | [_] => true
  | _ => forallb (fun i => match snd (item_ref i) with Some _ => true | None => false end) items
  end = true ->
  forallb item_ok items = true ->
  unres_names (map (tbl_of e) from) (map xcol_of items) = [].
Proof.
  intros Hu Hit. unfold unres_names.
  assert (K : from = [] \/ (exists r, from = [r]) \/ exists r r' l, from = r :: r' :: l).
  { destruct from as [|r [|r' l]]; [left; reflexivity|right; left; eexists; reflexivity|right; right; do 3 eexists; reflexivity]. }
  assert (F : (forall i, In i items -> exists q, snd (item_ref i) = Some q) ->
              flat_map (fun x => match xsrc x with [(c, None)] => [c] | _ => [] end) (map xcol_of items) = []).
  { intros H. apply flat_map_none. intros x Hx. apply in_map_iff in Hx. destruct Hx as (i & <- & Hi).
    rewrite forallb_forall in Hit. destruct (xcol_of_facts i (Hit i Hi)) as (_ & F2 & _). rewrite F2.
    destruct (H i Hi) as (q & Eq). destruct (item_ref i) as [c qq]. cbn [snd] in Eq. subst qq. reflexivity. }
  assert (G : from <> [] -> (forall r, from <> [r]) -> forall i, In i items -> exists q, snd (item_ref i) = Some q).
  { intros N0 N1 i Hi. destruct from as [|r [|r' l]]; [contradiction N0; reflexivity|contradiction (N1 r); reflexivity|].
    rewrite forallb_forall in Hu. specialize (Hu i Hi). destruct (snd (item_ref i)) as [q|]; [exists q; reflexivity|discriminate]. }
  destruct K as [->|[(r & ->)|(r & r' & l & ->)]]; cbn [map].
  - destruct items as [|i0 items']; [reflexivity|]. apply F. intros i Hi.
    rewrite forallb_forall in Hu. specialize (Hu i Hi). destruct (snd (item_ref i)) as [q|]; [exists q; reflexivity|discriminate].
  - reflexivity.
  - apply F. apply G; [discriminate|intros r0; discriminate].
Qed.

Theorem core_statement : forall noise e s,
  noise_ok noise = true -> env_ok e = true ->
  stmt_ok s = true -> colshape s = true -> sel_tables_syntactic s = true -> unq_single s = true ->
  exists G, analyze e false (r_stmt noise s) = Ok G /\
            CompDefs.plain_holder (holder_of G) = true /\ CompDefs.resolved_holder (holder_of G) = true /\
            CompDefs.cwf_holder (holder_of G) = true /\
            edges_match G (stmt_edges (e_cfg e) s).
Proof.
  intros noise e s Hn He Hok Hc Hsh Huq.
  assert (K : exists t items from cj,
            ((exists cols, s = SInsert t cols (QSelect items from cj None) /\ match cols with Some cs => forallb id_ok cs = true | None => True end)
             \/ s = SCtas t (QSelect items from cj None) \/ s = SView t (QSelect items from cj None)) /\
            forallb is_rtable from && trefs_distinct (map rtref from) = true /\
            tref_ok t && frag_query (S (q_size (QSelect items from cj None))) (QSelect items from cj None)
            && names_ok_q (S (q_size (QSelect items from cj None))) [] (QSelect items from cj None) = true /\
            match from with
            | [_] => true
            | _ => forallb (fun i => match snd (item_ref i) with Some _ => true | None => false end) items
            end = true).
  { destruct s as [t cols q|t q|t q|q|kind]; cbn [sel_tables_syntactic] in Hsh; try discriminate;
      destruct q as [items from cj [wh|]| |]; try discriminate; exists t, items, from, cj.
    - cbn [stmt_ok] in Hok. apply andb_true_iff in Hok. destruct Hok as [Hok Hcols]. split; [|split; [exact Hsh|split; [exact Hok|exact Huq]]].
      left. exists cols. split; [reflexivity|]. destruct cols; [exact Hcols|exact I].
    - cbn [stmt_ok] in Hok. split; [right; left; reflexivity|]. split; [exact Hsh|split; [exact Hok|exact Huq]].
    - cbn [stmt_ok] in Hok. split; [right; right; reflexivity|]. split; [exact Hsh|split; [exact Hok|exact Huq]]. }
  destruct K as (t & items & from & cj & Hs & Hsh' & Hok' & Huq').
  apply andb_true_iff in Hsh'. destruct Hsh' as [Hrt Hd].
  destruct (stmt_ok_select t items from cj Hok' Hrt) as (Ht & Hit & Hne & Hrel).
  assert (Hs' : (exists cols, s = SInsert t cols (QSelect items from cj None)) \/ s = SCtas t (QSelect items from cj None) \/ s = SView t (QSelect items from cj None)).
  { destruct Hs as [(cols & E & _)|[E|E]]; [left; exists cols; exact E|right; left; exact E|right; right; exact E]. }
  destruct (colshape_tables (e_cfg e) s t items from cj Hs' Hc Ht Hne Hrel Hit Hd) as (Htc & Hic & _).
  pose proof (unq_single_res items from Huq' Hic) as Hres.
  pose proof (unq_single_unres e items from Huq' Hit) as Hun.
  pose proof (group_ok_of e t from Hrel Htc) as Hgo. pose proof (ts_inj_of e t from Hrel Htc) as Hinj.
  pose proof (names_nodot_of e from Hrel) as Hnd. pose proof (xref_ok_of e t from items Hrel Hit Htc Hic) as Hxs.
  assert (Hsel : (s = SInsert t None (QSelect items from cj None) \/ s = SCtas t (QSelect items from cj None) \/ s = SView t (QSelect items from cj None)) ->
                 exists G, analyze e false (r_stmt noise s) = Ok G /\
                           CompDefs.plain_holder (holder_of G) = true /\ CompDefs.resolved_holder (holder_of G) = true /\
                           CompDefs.cwf_holder (holder_of G) = true /\ edges_match G (stmt_edges (e_cfg e) s)).
  { intros Hs3. destruct (holder_select noise e s t items from cj Hn He Hs3 Ht Hit Hne Hrel Hgo Hinj Hnd Hxs Hun) as (G & Ea & CF & HT).
    exists G. split; [exact Ea|]. split; [exact (core_plain G (cf_clean _ _ CF))|]. split; [exact (core_resolved G (cf_res _ _ CF))|].
    split; [exact (core_cwf G _ CF)|].
    replace (stmt_edges (e_cfg e) s) with (map phi (flows_of (S_of (map (tbl_of e) from)) (own_pairs (tbl e t None) (map xcol_of items)))).
    - exact (realises_match G _ (cf_real _ _ CF) HT).
    - rewrite (stmt_edges_select (e_cfg e) s t items from cj Hs3 Hrt).
      unfold flows_of, own_pairs. rewrite !flat_map_map', map_flat_map'. cbn [fst snd]. apply flat_map_ext_in'. intros i Hi.
      symmetry. apply item_corr_v; [exact Hrel| |exact (Hres i Hi)]. rewrite forallb_forall in Hit. apply Hit. exact Hi. }
  destruct Hs as [(cols & E & Hcols)|Hs].
  - destruct cols as [cs|].
    + destruct (colshape_tables "" s t items from cj Hs' Hc Ht Hne Hrel Hit Hd) as (Htc0 & _ & _).
      destruct (colshape_cols s t cs items from cj E Hc Hrel Hit Htc0 Hic) as [Hndc Hlen]. rewrite E.
      destruct (holder_insert_cols noise e t cs items from cj Hn He Ht Hcols Hndc Hlen Hit Hne Hrel Hgo Hinj Hnd Hxs Hun) as (G & Ea & CF & HT).
      exists G. split; [exact Ea|]. split; [exact (core_plain G (cf_clean _ _ CF))|]. split; [exact (core_resolved G (cf_res _ _ CF))|].
      split; [exact (core_cwf G _ CF)|].
      replace (stmt_edges (e_cfg e) (SInsert t (Some cs) (QSelect items from cj None)))
        with (map phi (flows_of (S_of (map (tbl_of e) from)) (combine (map xcol_of items) (map (Wcol (tbl e t None)) cs)))).
      * exact (realises_match G _ (cf_real _ _ CF) HT).
      * rewrite (stmt_edges_insert_cols (e_cfg e) t cs items from cj Hrt Hlen (item_cols_single e t from items Hrel Hit Htc Hic)).
        unfold flows_of. rewrite combine_map, flat_map_map', map_flat_map'. cbn [fst snd].
        apply flat_map_ext_in'. intros [i c] Hic'. cbn [fst snd]. pose proof (in_combine_l _ _ _ _ Hic') as Hi.
        rewrite forallb_forall in Hit.
        destruct (item_corr_vn e t from i c Hrel (Hit i Hi) (Hres i Hi)) as (srcs & E1 & E2).
        rewrite E1. cbn [flat_map snd app]. rewrite app_nil_r. symmetry. exact E2.
    + apply Hsel. left. exact E.
  - apply Hsel. right. exact Hs.
Qed.
Print Assumptions core_statement.

(** (i) each statement holder satisfies the conjuncts of [c04_hyps]; (ii) its column edges are its specified flows *)
Corollary holder_of_core_statement_in_c04_hyps noise e s :
  noise_ok noise = true -> env_ok e = true ->
  stmt_ok s = true -> colshape s = true -> sel_tables_syntactic s = true -> unq_single s = true ->
  exists G, analyze e false (r_stmt noise s) = Ok G /\ Composition.c04_hyps [holder_of G] = true.
Proof.
  intros Hn He H1 H2 H3 H4. destruct (core_statement noise e s Hn He H1 H2 H3 H4) as (G & Ea & Q1 & Q2 & Q3 & _).
  exists G. split; [exact Ea|]. unfold Composition.c04_hyps. cbn [forallb]. rewrite Q1, Q2, Q3. reflexivity.
Qed.
Corollary core_statement_col_edges noise e s :
  noise_ok noise = true -> env_ok e = true ->
  stmt_ok s = true -> colshape s = true -> sel_tables_syntactic s = true -> unq_single s = true ->
  exists G, analyze e false (r_stmt noise s) = Ok G /\
    forall x y, CompDefs.col_edge G x y = true <->
                exists u v, In (u, v) (stmt_edges (e_cfg e) s) /\ node_eqb x (nu u) = true /\ node_eqb y (nu v) = true.
Proof.
  intros Hn He H1 H2 H3 H4. destruct (core_statement noise e s Hn He H1 H2 H3 H4) as (G & Ea & _ & _ & _ & Q4).
  exists G. split; [exact Ea|exact Q4].
Qed.
Print Assumptions holder_of_core_statement_in_c04_hyps.
Print Assumptions core_statement_col_edges.

(* ================================================================== *)
(** * Part 5: scripts *)
(** every column reference is resolved at statement level: it is qualified, or the SELECT has exactly one table
    ([unq_single] of Tree/LemmaBProofs.v; unresolved sources c{t1,t2} are resolved / merged at script level: K-C04-1) *)
Definition resolved_only (s : Spec.stmt) : bool := unq_single s.

Definition core_stmt (s : Spec.stmt) : Prop :=
  stmt_ok s = true /\ sshape s = true /\ colshape s = true /\ sel_tables_syntactic s = true /\ resolved_only s = true.

(** (i) + (ii) for a whole script: the statement holders satisfy [c04_hyps], statement by statement their column edges
    are the specified flows *)
Lemma core_script noise e ss :
  noise_ok noise = true -> env_ok e = true -> Forall core_stmt ss ->
  exists Gs, map_res (analyze e false) (map (r_stmt noise) ss) = Ok Gs /\
             Composition.c04_hyps (map holder_of Gs) = true /\
             Forall2 edges_match Gs (map (stmt_edges (e_cfg e)) ss).
Proof.
  intros Hn He H.
  assert (K : exists Gs, map_res (analyze e false) (map (r_stmt noise) ss) = Ok Gs /\
              (forallb CompDefs.plain_holder (map holder_of Gs) = true /\
               forallb CompDefs.resolved_holder (map holder_of Gs) = true /\
               forallb CompDefs.cwf_holder (map holder_of Gs) = true) /\
              Forall2 edges_match Gs (map (stmt_edges (e_cfg e)) ss)).
  { induction H as [|s ss (H1 & _ & H3 & H4 & H5) _ IH].
    - exists []. split; [reflexivity|]. split; [auto|constructor].
    - destruct IH as (Gs & Em & (P1 & P2 & P3) & HM).
      destruct (core_statement noise e s Hn He H1 H3 H4 H5) as (G & Ea & Q1 & Q2 & Q3 & Q4).
      exists (G :: Gs). split; [cbn [map map_res]; rewrite Ea, Em; reflexivity|]. split.
      + cbn [map forallb]. rewrite Q1, Q2, Q3, P1, P2, P3. auto.
      + cbn [map]. constructor; assumption. }
  destruct K as (Gs & Em & (P1 & P2 & P3) & HM). exists Gs. split; [exact Em|]. split; [|exact HM].
  unfold Composition.c04_hyps. rewrite P1, P2, P3. reflexivity.
Qed.

(** the statement loop without metadata: the holders are those of the statements analysed on their own *)
Lemma run_statements_core e stmts Gs :
  p_truthy (e_provider e) = false -> map_res (analyze e false) stmts = Ok Gs ->
  exists sess, run_statements e false [] stmts [] [] = Ok (Gs, sess).
Proof.
  intros Hp Em. pose proof (run_statements_falsy_provider e false [] stmts [] [] Hp) as H. rewrite Em in H.
  destruct (run_statements e false [] stmts [] []) as [[gs sess]|x]; [|destruct H]. cbn [rev app] in H. subst gs. exists sess. reflexivity.
Qed.

Theorem script_exact_on_core : forall noise e ss,
  noise_ok noise = true -> env_ok e = true ->
  Forall (fun s => stmt_ok s = true /\ sshape s = true /\ colshape s = true /\ sel_tables_syntactic s = true /\ resolved_only s = true) ss ->
  script_pairs e false [] (map (r_stmt noise) ss) = spec_script_pairs (e_cfg e) ss.
Proof.
  intros noise e ss Hn He H.
  destruct (core_script noise e ss Hn He H) as (Gs & Em & Hh & HM).
  destruct (run_statements_core e _ Gs (proj1 (env_facts e He)) Em) as (sess & Er).
  unfold script_pairs, script_graph. rewrite Er. cbn [fst snd].
  set (p := {| p_truthy := p_truthy (e_provider e); p_cols := view_cols sess [] |}).
  destruct (Composition.c04_main p (map holder_of Gs) Hh) as (g & Hb & _). rewrite Hb.
  unfold spec_script_pairs, script_edges. apply us_ext. intros x.
  rewrite (lineage_match Gs (map (stmt_edges (e_cfg e)) ss) HM p g Hh Hb x). rewrite flat_map_concat_map. reflexivity.
Qed.
Print Assumptions script_exact_on_core.

(** the column edges of the script graph are exactly the specified flows of the statements *)
Corollary script_graph_col_edges noise e ss :
  noise_ok noise = true -> env_ok e = true -> Forall core_stmt ss ->
  exists g, script_graph e false [] (map (r_stmt noise) ss) = Ok g /\
    forall x y, CompDefs.col_edge g x y = true <->
                exists u v, In (u, v) (script_edges (e_cfg e) ss) /\ node_eqb x (nu u) = true /\ node_eqb y (nu v) = true.
Proof.
  intros Hn He H.
  destruct (core_script noise e ss Hn He H) as (Gs & Em & Hh & HM).
  destruct (run_statements_core e _ Gs (proj1 (env_facts e He)) Em) as (sess & Er).
  unfold script_graph. rewrite Er. cbn [fst snd].
  set (p := {| p_truthy := p_truthy (e_provider e); p_cols := view_cols sess [] |}).
  destruct (Composition.c04_main p (map holder_of Gs) Hh) as (g & Hb & Hu & _). rewrite Hb. exists g. split; [reflexivity|].
  intros x y. rewrite (Hu x y). unfold script_edges. rewrite flat_map_concat_map. apply (union_match Gs _ HM).
Qed.
Print Assumptions script_graph_col_edges.

(** ** the checker never fails *)
Lemma list_eqb_refl l : list_eqb l l = true.
Proof. induction l as [|x r IH]; [reflexivity|]. cbn [list_eqb]. rewrite String.eqb_refl. exact IH. Qed.

Corollary script_check_never_fails noise e ss : script_check noise e ss <> "FAILS".
Proof.
  unfold script_check. destruct (noise_ok noise && env_ok e && forallb core_ok ss) eqn:G; cbn [negb]; [|discriminate].
  apply andb_true_iff in G. destruct G as [G Hss]. apply andb_true_iff in G. destruct G as [Hn He].
  rewrite (script_exact_on_core noise e ss Hn He), list_eqb_refl; [discriminate|].
  apply Forall_forall. intros s Hs. rewrite forallb_forall in Hss. specialize (Hss s Hs). unfold core_ok in Hss.
  repeat (apply andb_true_iff in Hss; destruct Hss as [Hss ?]). auto.
Qed.

(** ** the reported pairs, as a proposition *)
Lemma In_uniq_sort l x : In x (uniq_sorted (sort_strings l)) <-> In x l.
Proof. rewrite (proj2 (uniq_sorted_props _ (sort_sorted l)) x). apply In_sort. Qed.

Corollary script_pair_iff noise e ss x :
  noise_ok noise = true -> env_ok e = true -> Forall core_stmt ss ->
  let E := script_edges (e_cfg e) ss in
  In x (script_pairs e false [] (map (r_stmt noise) ss)) <->
  exists a b, ~ In a (map snd E) /\ ~ In b (map fst E) /\ tcv E a b /\ x = (show_vtx a ++ ">" ++ show_vtx b)%string.
Proof.
  intros Hn He H E. rewrite (script_exact_on_core noise e ss Hn He H). unfold spec_script_pairs. rewrite In_uniq_sort. apply In_pairs_of.
Qed.

(** the order of the statements is irrelevant *)
Lemma tcv_incl E E' a b : incl E E' -> tcv E a b -> tcv E' a b.
Proof. intros Hi. induction 1 as [a b H|a b c H _ IH]; [apply tcv_one; apply Hi; exact H|apply (tcv_step E' a b c); [apply Hi; exact H|exact IH]]. Qed.

Lemma pairs_of_ext E E' : (forall p, In p E <-> In p E') -> forall x, In x (pairs_of E) <-> In x (pairs_of E').
Proof.
  assert (K : forall E E', (forall p, In p E <-> In p E') -> forall x, In x (pairs_of E) -> In x (pairs_of E')).
  { intros E0 E1 Hp x Hx. apply In_pairs_of in Hx. destruct Hx as (a & b & Hr & Hl & Ht & ->). apply In_pairs_of. exists a, b.
    split; [|split; [|split; [|reflexivity]]].
    - intros Hin. apply Hr. apply in_map_iff in Hin. destruct Hin as (p & <- & Hin). apply in_map. apply Hp. exact Hin.
    - intros Hin. apply Hl. apply in_map_iff in Hin. destruct Hin as (p & <- & Hin). apply in_map. apply Hp. exact Hin.
    - apply (tcv_incl E0 E1); [intros p Hin; apply Hp; exact Hin|exact Ht]. }
  intros Hp x. split; apply K; [exact Hp|intros p; symmetry; apply Hp].
Qed.

Corollary spec_order_irrelevant ds ss ss' : Permutation ss ss' -> spec_script_pairs ds ss = spec_script_pairs ds ss'.
Proof.
  intros Hp. unfold spec_script_pairs. apply us_ext. apply pairs_of_ext. intros p. unfold script_edges. rewrite !in_flat_map.
  split; intros (s & Hs & Hin); exists s; (split; [|exact Hin]); [apply (Permutation_in s Hp Hs)|apply (Permutation_in s (Permutation_sym Hp) Hs)].
Qed.

Corollary script_order_irrelevant noise e ss ss' :
  noise_ok noise = true -> env_ok e = true -> Forall core_stmt ss -> Permutation ss ss' ->
  script_pairs e false [] (map (r_stmt noise) ss) = script_pairs e false [] (map (r_stmt noise) ss').
Proof.
  intros Hn He H Hp. rewrite (script_exact_on_core noise e ss Hn He H).
  rewrite (script_exact_on_core noise e ss' Hn He); [apply spec_order_irrelevant; exact Hp|].
  apply Forall_forall. intros s Hs. rewrite Forall_forall in H. apply H. apply (Permutation_in s (Permutation_sym Hp) Hs).
Qed.

(** one statement: the script specification is Lemma B's statement specification *)
Corollary spec_script_single noise e s :
  noise_ok noise = true -> env_ok e = true -> core_stmt s -> spec_script_pairs (e_cfg e) [s] = spec_pairs (e_cfg e) s.
Proof.
  intros Hn He H. rewrite <- (script_exact_on_core noise e [s] Hn He (Forall_cons _ H (Forall_nil _))).
  destruct H as (H1 & H2 & H3 & H4 & _). apply (lemma_B_tables_colshape noise e s Hn He H1 H2 H3 H4).
Qed.

(** ** the two-statement chain.  A column [b] written by the first statement and read by the second is intermediate: the
       pair runs from the source [a] of the first statement to the target [c] of the second.  A column [b] of the
       intermediate table that no statement reads ends its pair: (a, b) is reported.  (By [script_pair_iff] no reported
       pair ends in a column that some statement reads, or starts in a column that some statement writes.) *)
Corollary chain_two noise e s1 s2 a b c :
  noise_ok noise = true -> env_ok e = true -> core_stmt s1 -> core_stmt s2 ->
  let E := script_edges (e_cfg e) [s1; s2] in
  In (a, b) (stmt_edges (e_cfg e) s1) -> In (b, c) (stmt_edges (e_cfg e) s2) ->
  ~ In a (map snd E) -> ~ In c (map fst E) ->
  In (show_vtx a ++ ">" ++ show_vtx c)%string (script_pairs e false [] [r_stmt noise s1; r_stmt noise s2]).
Proof.
  intros Hn He H1 H2 E Hab Hbc Hra Hlc.
  assert (HF : Forall core_stmt [s1; s2]) by (constructor; [exact H1|constructor; [exact H2|constructor]]).
  assert (Eab : In (a, b) E) by (unfold E, script_edges; cbn [flat_map]; apply in_app_iff; left; exact Hab).
  assert (Ebc : In (b, c) E) by (unfold E, script_edges; cbn [flat_map]; apply in_app_iff; right; rewrite app_nil_r; exact Hbc).
  apply (script_pair_iff noise e [s1; s2] _ Hn He HF). exists a, c. split; [exact Hra|]. split; [exact Hlc|]. split; [|reflexivity].
  apply (tcv_step _ a b c); [exact Eab|apply tcv_one; exact Ebc].
Qed.

Corollary dead_end_two noise e s1 s2 a b :
  noise_ok noise = true -> env_ok e = true -> core_stmt s1 -> core_stmt s2 ->
  let E := script_edges (e_cfg e) [s1; s2] in
  In (a, b) (stmt_edges (e_cfg e) s1) -> ~ In a (map snd E) -> ~ In b (map fst E) ->
  In (show_vtx a ++ ">" ++ show_vtx b)%string (script_pairs e false [] [r_stmt noise s1; r_stmt noise s2]).
Proof.
  intros Hn He H1 H2 E Hab Hra Hlb.
  assert (HF : Forall core_stmt [s1; s2]) by (constructor; [exact H1|constructor; [exact H2|constructor]]).
  apply (script_pair_iff noise e [s1; s2] _ Hn He HF). exists a, b. split; [exact Hra|]. split; [exact Hlb|]. split; [|reflexivity].
  apply tcv_one. unfold script_edges. cbn [flat_map]. apply in_app_iff. left. exact Hab.
Qed.

(** a script all of whose flows lie on cycles reports nothing (K-C04-2) *)
Corollary cycles_report_nothing noise e ss :
  noise_ok noise = true -> env_ok e = true -> Forall core_stmt ss ->
  (forall a, In a (map fst (script_edges (e_cfg e) ss)) -> In a (map snd (script_edges (e_cfg e) ss))) ->
  script_pairs e false [] (map (r_stmt noise) ss) = [].
Proof.
  intros Hn He H Hc. destruct (script_pairs e false [] (map (r_stmt noise) ss)) as [|x r] eqn:Ep; [reflexivity|]. exfalso.
  assert (Hx : In x (script_pairs e false [] (map (r_stmt noise) ss))) by (rewrite Ep; left; reflexivity).
  apply (script_pair_iff noise e ss x Hn He H) in Hx. destruct Hx as (a & b & Hr & _ & Ht & _). apply Hr. apply Hc. exact (tcv_src _ a b Ht).
Qed.

(* ================================================================== *)
(** * Non-vacuity, and what lies outside *)
Module Examples.
  Import Tests.
  (** test 2 (a.x > b.x > c.x, a.y > b.y), default schema "main", whitespace and comments as noise *)
  Definition ss2 : list Spec.stmt := [ins "b" (sel [c_ "x"; c_ "y"] [T "a"]); ins "c" (sel [c_ "x"] [T "b"])].
  Lemma ss2_core : Forall core_stmt ss2.
  Proof. repeat constructor. Qed.

  Example core_statement_nonvacuous :
    exists G, analyze e1 false (r_stmt [ws; cm] (ins "b" (sel [c_ "x"; c_ "y"] [T "a"]))) = Ok G /\
              CompDefs.plain_holder (holder_of G) = true /\ CompDefs.resolved_holder (holder_of G) = true /\
              CompDefs.cwf_holder (holder_of G) = true /\
              edges_match G [(("main.a", "x"), ("main.b", "x")); (("main.a", "y"), ("main.b", "y"))].
  Proof. apply (core_statement [ws; cm] e1 (ins "b" (sel [c_ "x"; c_ "y"] [T "a"]))); reflexivity. Qed.

  Example script_exact_nonvacuous :
    script_pairs e1 false [] (map (r_stmt [ws; cm]) ss2) = ["main.a.x>main.c.x"; "main.a.y>main.b.y"].
  Proof. rewrite (script_exact_on_core [ws; cm] e1 ss2 eq_refl eq_refl ss2_core). vm_compute. reflexivity. Qed.

  Example chain_two_nonvacuous :
    In "main.a.x>main.c.x" (script_pairs e1 false [] (map (r_stmt [ws; cm]) ss2)) /\
    In "main.a.y>main.b.y" (script_pairs e1 false [] (map (r_stmt [ws; cm]) ss2)).
  Proof.
    assert (C1 : core_stmt (ins "b" (sel [c_ "x"; c_ "y"] [T "a"]))) by (repeat split).
    assert (C2 : core_stmt (ins "c" (sel [c_ "x"] [T "b"]))) by (repeat split).
    split.
    - apply (chain_two [ws; cm] e1 _ _ ("main.a", "x") ("main.b", "x") ("main.c", "x") eq_refl eq_refl C1 C2).
      + vm_compute. left. reflexivity.
      + vm_compute. left. reflexivity.
      + vm_compute. intros [K|[K|[K|[]]]]; discriminate K.
      + vm_compute. intros [K|[K|[K|[]]]]; discriminate K.
    - apply (dead_end_two [ws; cm] e1 _ _ ("main.a", "y") ("main.b", "y") eq_refl eq_refl C1 C2).
      + vm_compute. right. left. reflexivity.
      + vm_compute. intros [K|[K|[K|[]]]]; discriminate K.
      + vm_compute. intros [K|[K|[K|[]]]]; discriminate K.
  Qed.

  Example script_graph_nonvacuous :
    exists g, script_graph e1 false [] (map (r_stmt [ws; cm]) ss2) = Ok g /\
              CompDefs.col_edge g (nu ("main.a", "x")) (nu ("main.b", "x")) = true /\
              CompDefs.col_edge g (nu ("main.a", "x")) (nu ("main.c", "x")) = false.
  Proof.
    destruct (script_graph_col_edges [ws; cm] e1 ss2 eq_refl eq_refl ss2_core) as (g & Eg & H). exists g. split; [exact Eg|]. split.
    - apply H. exists ("main.a", "x"), ("main.b", "x"). split; [vm_compute; left; reflexivity|split; apply node_eqb_refl].
    - destruct (CompDefs.col_edge g (nu ("main.a", "x")) (nu ("main.c", "x"))) eqn:E; [|reflexivity]. exfalso.
      apply H in E. destruct E as (u & v & Huv & K1 & K2). apply nu_inj in K1, K2. subst u v.
      vm_compute in Huv. destruct Huv as [K|[K|[K|[]]]]; discriminate K.
  Qed.

  Example c04_hyps_nonvacuous :
    exists G, analyze e1 false (r_stmt [ws; cm] (insc "c" ["u"] (sel [c_ "q"] [T "b"]))) = Ok G /\ Composition.c04_hyps [holder_of G] = true.
  Proof. apply holder_of_core_statement_in_c04_hyps; reflexivity. Qed.
  Example col_edges_nonvacuous :
    exists G, analyze e1 false (r_stmt [ws; cm] (insc "c" ["u"] (sel [c_ "q"] [T "b"]))) = Ok G /\
              CompDefs.col_edge G (nu ("main.b", "q")) (nu ("main.c", "u")) = true.
  Proof.
    destruct (core_statement_col_edges [ws; cm] e1 (insc "c" ["u"] (sel [c_ "q"] [T "b"])) eq_refl eq_refl eq_refl eq_refl eq_refl eq_refl) as (G & Ea & H).
    exists G. split; [exact Ea|]. apply H. exists ("main.b", "q"), ("main.c", "u"). split; [vm_compute; left; reflexivity|split; apply node_eqb_refl].
  Qed.

  (** a cycle of two statements (test 7) reports nothing, for every admissible noise *)
  Example cycle_nonvacuous noise : noise_ok noise = true ->
    script_pairs e0 false [] (map (r_stmt noise) [ins "b" (sel [c_ "x"] [T "a"]); ins "a" (sel [c_ "x"] [T "b"])]) = [].
  Proof.
    intros Hn. apply (cycles_report_nothing noise e0 _ Hn eq_refl); [repeat constructor|].
    vm_compute. intros a [<-|[<-|[]]]; auto.
  Qed.

  (** stars chain like a column named "*" (tests 13 - 16): no restriction on stars across statements is needed *)
  Example star_chain noise : noise_ok noise = true ->
    script_pairs e0 false [] (map (r_stmt noise) [ins "b" (sel [IStar None] [T "a"]); ins "c" (sel [IStar None] [T "b"])]) =
    ["<default>.a.*><default>.c.*"].
  Proof. intros Hn. rewrite (script_exact_on_core noise e0 _ Hn eq_refl); [vm_compute; reflexivity|repeat constructor]. Qed.
  Example star_then_name noise : noise_ok noise = true ->
    script_pairs e0 false [] (map (r_stmt noise) [ins "b" (sel [IStar None] [T "a"]); ins "c" (sel [c_ "x"] [T "b"])]) =
    ["<default>.a.*><default>.b.*"; "<default>.b.x><default>.c.x"].
  Proof. intros Hn. rewrite (script_exact_on_core noise e0 _ Hn eq_refl); [vm_compute; reflexivity|repeat constructor]. Qed.

  (** the order of the statements does not matter (tests 1 and 3) *)
  Example order_nonvacuous :
    script_pairs e0 false [] (map (r_stmt []) [ins "b" (sel [c_ "x"] [T "a"]); ins "c" (sel [c_ "x"] [T "b"])]) =
    script_pairs e0 false [] (map (r_stmt []) [ins "c" (sel [c_ "x"] [T "b"]); ins "b" (sel [c_ "x"] [T "a"])]).
  Proof. apply (script_order_irrelevant [] e0); [reflexivity|reflexivity|repeat constructor|apply perm_swap]. Qed.

  Example single_nonvacuous :
    spec_script_pairs "main" [ins "b" (sel [c_ "x"; ca "y" "z"] [T "a"])] = spec_pairs "main" (ins "b" (sel [c_ "x"; ca "y" "z"] [T "a"])).
  Proof. apply (spec_script_single [] e1); [reflexivity|reflexivity|repeat constructor]. Qed.

  (** [unq_single] (every reference resolved at statement level) is needed.
      (1) One statement with an unqualified reference over two tables: the library reports the unresolved source
          y{a,b}; it is not a flow between table columns.
      (2) K-C04-1: preceded by a statement that writes a.y, the unresolved column is attributed to a.y when the script
          graph is assembled, and the pair is chained through it: z.y > ... > c.y is reported although no statement
          says that c.y comes from a.y. *)
  Definition cx_unres1 : list Spec.stmt := [ins "c" (selc [c_ "y"] [T "a"; T "b"])].
  Definition cx_unres2 : list Spec.stmt := [ins "a" (sel [c_ "y"] [T "z"]); ins "c" (selc [c_ "y"] [T "a"; T "b"])].
  Example unq_single_needed :
    forallb (fun s => stmt_ok s && sshape s && colshape s && sel_tables_syntactic s) (cx_unres1 ++ cx_unres2) = true /\
    forallb unq_single cx_unres1 = false /\ forallb unq_single cx_unres2 = false /\
    script_pairs e0 false [] (map (r_stmt []) cx_unres1) = ["y{<default>.a,<default>.b}><default>.c.y"] /\
    spec_script_pairs "" cx_unres1 = [] /\
    script_pairs e0 false [] (map (r_stmt []) cx_unres2) = ["<default>.z.y><default>.c.y"] /\
    spec_script_pairs "" cx_unres2 = ["<default>.z.y><default>.a.y"].
  Proof. vm_compute. repeat split; reflexivity. Qed.
End Examples.

Print Assumptions script_check_never_fails.
Print Assumptions script_pair_iff.
Print Assumptions script_order_irrelevant.
Print Assumptions spec_script_single.
Print Assumptions chain_two.
Print Assumptions dead_end_two.
Print Assumptions cycles_report_nothing.
Print Assumptions reachv_spec.
Print Assumptions stmt_edges_spec_flows.
