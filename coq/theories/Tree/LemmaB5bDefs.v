(** Lemma B, step 5b (UNION of two plain SELECTs over base tables): shared definitions. *)
From SV Require Import Tree.Render Tree.LemmaA Tree.LemmaAProofs Tree.LemmaB Tree.LemmaBProofs Ident.Escape.

(** the query of the fragment: two plain SELECTs without WHERE, combined by a set operation *)
Definition uq (i1 : list item) (f1 : list rel) (c1 : bool) (i2 : list item) (f2 : list rel) (c2 : bool) : query :=
  QUnion (QSelect i1 f1 c1 None) (QSelect i2 f2 c2 None).

(** the statement kinds of the fragment *)
Definition union_stmt_of (s : stmt) (t : tref) (q : query) : Prop :=
  (exists cols, s = SInsert t cols q) \/ s = SCtas t q \/ s = SView t q.

(** what the extractor does with such a statement once the target is known: one cleanup over the tables and columns of
    both branches, separated by one barrier, on the holder [g] prepared by the INSERT / CREATE part *)
Definition union_holder (e : env) (g : graph) (i1 : list item) (f1 : list rel) (i2 : list item) (f2 : list rel) : res graph :=
  do sub <- (do g2 <- end_of_query_cleanup e g (map (tbl_of e) f1 ++ map (tbl_of e) f2) (map xcol_of i1 ++ map xcol_of i2)
                        [(List.length (map xcol_of i1), List.length (map (tbl_of e) f1))];
             expand_wildcard e g2);
  Ok (compose g sub).

(** the printed pairs of one branch on the specification side: item [i] feeds the target column named [nm] *)
Definition spec_branch_strs (ds : string) (t : tref) (from : list rel) (l : list (item * string)) : list string :=
  flat_map (fun ic : item * string =>
              map (fun sr => (show_src sr ++ ">" ++ tref_str ds t ++ "." ++ snd ic)%string)
                  (flat_map snd (item_cols (map (sbind ds) from) (fst ic)))) l.

(** all specification sources of a branch *)
Definition branch_srcs (ds : string) (from : list rel) (items : list item) : list src :=
  flat_map (fun i => flat_map snd (item_cols (map (sbind ds) from) i)) items.
