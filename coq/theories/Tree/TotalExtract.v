(** C10 on ALL segment trees, part 4: the extractors (Tree/Extract.v) below the statement dispatch. *)
From SV Require Import Tree.Observe Tree.TriviaProofs Tree.LemmaAProofs Tree.HolderInv Tree.ExtractInv
     Tree.TotalDefs Tree.TotalLeaves Tree.TotalHolder.
Require Import Lia.
Open Scope string_scope.
Open Scope list_scope.

Definition subD (s : seg) (d : dataset) : Prop := dk d = KSubq /\ exists q, dquery d = Some q /\ D s q.
Definition subDs (s : seg) (d : dataset) : Prop := dk d = KSubq /\ exists q, dquery d = Some q /\ Ds s q.

Lemma subDs_ds_ok s d : subDs s d -> ds_ok d.
Proof. intros [_ (q & E & _)] _. rewrite E. discriminate. Qed.
Lemma subD_ds_ok s d : subD s d -> ds_ok d.
Proof. intros [_ (q & E & _)] _. rewrite E. discriminate. Qed.
Lemma subD_Ds s y d : Ds s y -> subD y d -> subDs s d.
Proof. intros H [K (q & E & Dq)]. split; [exact K|]. exists q. split; [exact E|exact (Ds_D_trans _ y _ H Dq)]. Qed.
Lemma subDs_D s y d : D s y -> subDs y d -> subDs s d.
Proof. intros H [K (q & E & Dq)]. split; [exact K|]. exists q. split; [exact E|exact (D_Ds_trans _ y _ H Dq)]. Qed.
Lemma subDs_subD s d : subDs s d -> subD s d.
Proof. intros [K (q & E & Dq)]. split; [exact K|]. exists q. split; [exact E|exact (Ds_D _ _ Dq)]. Qed.
Lemma mk_subquery_subDs s q a : Ds s q -> subDs s (mk_subquery q a).
Proof. intros H. split; [reflexivity|]. exists q. split; [reflexivity|exact H]. Qed.
Lemma mk_subquery_ds_ok q a : ds_ok (mk_subquery q a).
Proof. intros _. discriminate. Qed.

Lemma parse_subquery_Ds s l : Forall (fun p : sqtuple => Ds s (fst p)) l -> Forall (subDs s) (parse_subquery l).
Proof. intros H. unfold parse_subquery. apply Forall_map_intro. intros p Hp. rewrite Forall_forall in H. exact (mk_subquery_subDs s _ _ (H p Hp)). Qed.

Lemma Forall_flat_map_intro {A B} (Q : B -> Prop) (f : A -> list B) l : (forall x, In x l -> Forall Q (f x)) -> Forall Q (flat_map f l).
Proof. intros H. apply Forall_forall. intros y Hy. apply in_flat_map in Hy. destruct Hy as (x & Hx & Hy). specialize (H x Hx). rewrite Forall_forall in H. exact (H y Hy). Qed.

(** BaseExtractor.list_subquery: the sub-queries lie strictly below [s], except [s] itself when it is a bracket / from element *)
Lemma list_subquery_gen s : escape_free s = true ->
  okr (Forall (fun d => subDs s d \/ ((tyis s "from_expression_element" || tyis s "bracketed") = true /\ subD s d))) (list_subquery s).
Proof.
  intros H. unfold list_subquery.
  assert (Kw : forall l : list dataset, Forall (subDs s) l -> Forall (fun d => subDs s d \/ ((tyis s "from_expression_element" || tyis s "bracketed") = true /\ subD s d)) l).
  { intros l Hl. apply (Forall_impl _ (fun d Hd => or_introl Hd) Hl). }
  assert (Kdef : okr (Forall (fun d => subDs s d \/ ((tyis s "from_expression_element" || tyis s "bracketed") = true /\ subD s d)))
    (if ty_in s ["select_clause"; "from_clause"; "where_clause"]
      then do l <- list_subqueries s; Ok (parse_subquery l)
      else do sq <- is_subquery s; Ok (if sq then [mk_subquery s None] else []))).
  { destruct (ty_in s _).
    - apply (okr_bind _ _ _ _ (list_subqueries_ok s H)). intros l Hl. cbn [okg]. apply Kw. exact (parse_subquery_Ds s l Hl).
    - pose proof (is_subquery_ok s H) as K. unfold is_subquery in *.
      destruct (tyis s "from_expression_element" || tyis s "bracketed") eqn:E; [|cbn [okg]; constructor].
      apply (okr_bind _ _ _ _ K). intros sq _. cbn [okg]. destruct sq; [|constructor]. constructor; [|constructor].
      right. split; [reflexivity|]. split; [reflexivity|]. exists s. split; [reflexivity|exact (D_refl s H)]. }
  destruct (get_children s ["from_expression"]) as [|fe1 [|fe2 rest]] eqn:Ec; [exact Kdef|exact Kdef|].
  apply (okr_bind (Forall (Forall (fun p : sqtuple => Ds s (fst p))))).
  - apply okr_map_res. intros fe Hfe. rewrite <- Ec in Hfe. pose proof (Ds_get_children s _ fe H Hfe) as Dfe.
    apply (okr_weaken _ _ _ (fun l (Hl : Forall (fun p : sqtuple => Ds fe (fst p)) l) =>
       Forall_impl _ (fun p (Hp : Ds fe (fst p)) => D_Ds_trans s fe (fst p) (Ds_D _ _ Dfe) Hp) Hl)).
    exact (list_subqueries_ok fe (Ds_ef _ _ Dfe)).
  - intros ls Hls. cbn [okg]. apply Kw. apply Forall_flat_map_intro. intros l Hl. rewrite Forall_forall in Hls. exact (parse_subquery_Ds s l (Hls l Hl)).
Qed.

Lemma list_subquery_D s : escape_free s = true -> okr (Forall (subD s)) (list_subquery s).
Proof.
  intros H. refine (okr_weaken _ _ _ _ (list_subquery_gen s H)).
  intros l Hl. rewrite Forall_forall in *. intros d Hd. destruct (Hl d Hd) as [K|[_ K]]; [exact (subDs_subD s d K)|exact K].
Qed.

Lemma list_subquery_set s : escape_free s = true -> tyis s "set_expression" = true -> okr (Forall (subDs s)) (list_subquery s).
Proof.
  intros H T. apply tyis_eq in T.
  assert (E : (tyis s "from_expression_element" || tyis s "bracketed") = false) by (unfold tyis; rewrite T; reflexivity).
  refine (okr_weaken _ _ _ _ (list_subquery_gen s H)).
  intros l Hl. rewrite Forall_forall in *. intros d Hd. destruct (Hl d Hd) as [K|[K0 _]]; [exact K|]. rewrite E in K0. discriminate K0.
Qed.

(* ================================================================== *)
(** * tables *)
Lemma ty_in_2_3 s : ty_in s ["table_reference"; "object_reference"] = true -> ty_in s ["table_reference"; "object_reference"; "file_reference"] = true.
Proof. unfold ty_in. cbn [mem_string]. intros H. apply orb_true_iff in H. destruct H as [->|H]; [reflexivity|]. apply orb_true_iff in H. destruct H as [->|H]; [apply orb_true_r|discriminate]. Qed.
Lemma ty_in_perm s : ty_in s ["table_reference"; "file_reference"; "object_reference"] = true -> ty_in s ["table_reference"; "object_reference"; "file_reference"] = true.
Proof. unfold ty_in. cbn [mem_string]. destruct (String.eqb (ty s) "table_reference"), (String.eqb (ty s) "file_reference"), (String.eqb (ty s) "object_reference"); auto. Qed.

Lemma find_table_ok e s : escape_free s = true -> okr (fun o : option dataset => forall d, o = Some d -> dk d = KTable) (find_table e s).
Proof.
  intros H. unfold find_table. destruct (ty_in s _) eqn:E; [|intros d K; discriminate K].
  apply (okr_bind _ _ _ _ (table_of_seg_ok e s None H (ty_in_2_3 s E))). intros t Ht d K. inversion K; subst. exact Ht.
Qed.

Lemma ktable_ok d : dk d = KTable -> ds_ok d.
Proof. intros H. apply ds_ok_notsubq. rewrite H. discriminate. Qed.

Lemma GI_opt_write g (o : option dataset) : GI g -> (forall d, o = Some d -> dk d = KTable) -> GI (match o with Some d => add_write g d | None => g end).
Proof. intros G K. destruct o as [d|]; [|exact G]. apply GI_add_write; [exact G|exact (ktable_ok d (K d eq_refl))]. Qed.

Lemma fold_last_in {A} (p : A -> bool) l : forall acc x, fold_left (fun acc c => if p c then Some c else acc) l acc = Some x -> acc = Some x \/ In x l.
Proof.
  induction l as [|c r IH]; intros acc x H; cbn [fold_left] in H; [left; exact H|].
  destruct (IH _ _ H) as [K|K]; [|right; right; exact K]. destruct (p c); [inversion K; right; left; reflexivity|left; exact K].
Qed.

Lemma add_dataset_from_fee_ok e s g : escape_free s = true -> is_type s ["from_expression_element"] = true -> GI g ->
  okr (Forall ds_ok) (add_dataset_from_fee e s g).
Proof.
  intros H T G. unfold add_dataset_from_fee. pose proof (L4 s H T) as K4. unfold fee_is_function_source in K4.
  set (all_segments := filter (fun x => negb (tyis x "keyword")) (list_child_segments s true)) in *.
  destruct (match get_child s ["table_expression"] with Some te => _ | None => false end); [constructor|]. cbn [orb] in K4.
  destruct all_segments as [|first rest] eqn:Eall; [discriminate K4|]. change (nth_res (first :: rest) 0) with (Ok first). cbv beta iota.
  destruct (tyis first "bracketed" && _); [constructor|].
  apply (okr_bind _ _ _ _ (list_subqueries_ok s H)). intros subqueries Hsq.
  destruct subqueries as [|sq0 sqr].
  2:{ cbn [okg]. apply (Forall_impl _ (subDs_ds_ok s)). apply parse_subquery_Ds. exact Hsq. }
  destruct (find_table_identifier s) as [ti|] eqn:Eti; [|constructor].
  destruct (D_find_ti s H ti Eti) as [Dti Tti].
  assert (Ka : okr TT (match rest with
                       | a :: _ => if tyis a "alias_expression" then
                                     match list_child_segments a true with
                                     | f0 :: x :: _ => if tyis f0 "alias_operator" || (tyis f0 "keyword" && String.eqb (raw_upper f0) "AS")
                                                     then Ok (Some (raw x)) else Ok (Some (raw f0))
                                   | [x] => Ok (Some (raw x)) | [] => Err EIndex end
                                   else Ok None
                       | _ => Ok None end)).
  { destruct rest as [|a rest']; [exact I|]. destruct (tyis a "alias_expression") eqn:Ea; [|exact I].
    assert (Da : Ds s a).
    { apply (Ds_lcs s true a H). assert (Hin : In a all_segments) by (rewrite Eall; right; left; reflexivity).
      unfold all_segments in Hin. apply filter_In in Hin. exact (proj1 Hin). }
    assert (La : list_child_segments a true <> []) by (apply (L2 a (Ds_ef _ _ Da)); rewrite Ea; reflexivity).
    destruct (list_child_segments a true) as [|x [|y r]]; [destruct (La eq_refl)|exact I|destruct (_ || _); exact I]. }
  apply (okr_bind TT _ _ _ Ka). intros alias _.
  destruct (if sexists is_dot (raw ti) then None else _) as [c|] eqn:Ecte.
  - destruct (sexists is_dot (raw ti)); [discriminate|].
    apply fold_last_in in Ecte. destruct Ecte as [Ecte|Hc]; [discriminate|].
    destruct (sq_cte_ok g c G Hc) as [_ Hq]. destruct (dquery c) as [q|]; [|destruct (Hq eq_refl)].
    cbn [okg]. constructor; [apply mk_subquery_ds_ok|constructor].
  - destruct (tyis ti "file_reference").
    + destruct (last_res_ok _ (L6 ti (D_ef _ _ Dti) (ty_in_perm ti Tti))) as (l & -> & _). cbn [okg]. constructor; [|constructor].
      apply ds_ok_notsubq. discriminate.
    + apply (okr_bind _ _ _ _ (table_of_seg_ok e ti alias (D_ef _ _ Dti) (ty_in_perm ti Tti))). intros t Ht. cbn [okg].
      constructor; [exact (ktable_ok t Ht)|constructor].
Qed.

Lemma list_tables_one_ok e s g : escape_free s = true -> GI g -> okr (Forall ds_ok) (list_tables_one e s g).
Proof.
  intros H G. unfold list_tables_one. destruct (find_from_expression_element s) as [fee|] eqn:E; [|constructor].
  destruct (D_find_fee s fee H E) as [Df Tf]. exact (add_dataset_from_fee_ok e fee g (D_ef _ _ Df) Tf G).
Qed.

Lemma list_tables_ok e s g : escape_free s = true -> GI g -> okr (Forall ds_ok) (list_tables e s g).
Proof.
  intros H G. unfold list_tables. destruct (ty_in s _); [|constructor].
  assert (Kmany : forall x l, escape_free x = true -> (forall fe, In fe l -> In fe (get_children x ["from_expression"])) ->
            okr (Forall ds_ok) (concat_res (map (fun fe => list_tables_one e fe g) l))).
  { intros x l Hx Hl. apply okr_concat_map. intros fe Hfe. apply list_tables_one_ok; [|exact G].
    exact (Ds_ef _ _ (Ds_get_children x _ fe Hx (Hl fe Hfe))). }
  destruct (get_children s ["from_expression"]) as [|fe1 [|fe2 rest]] eqn:Ec.
  3:{ apply (Kmany s _ H). rewrite Ec. intros fe Hfe; exact Hfe. }
  all: apply (okr_bind _ _ _ _ (list_tables_one_ok e s g H G)); intros first Hfirst;
    apply (okr_bind (Forall ds_ok));
    [apply okr_concat_map; intros jc Hjc; pose proof (D_ljc s jc H Hjc) as Djc;
     destruct (ty_in jc _); [|constructor];
     destruct (get_children jc ["from_expression"]) as [|f1 [|f2 rs]] eqn:Ej;
     [apply list_tables_one_ok; [exact (D_ef _ _ Djc)|exact G]
     |apply list_tables_one_ok; [exact (D_ef _ _ Djc)|exact G]
     |apply (Kmany jc _ (D_ef _ _ Djc)); rewrite Ej; intros fe Hfe; exact Hfe]
    |intros joins Hjoins; cbn [okg]; apply Forall_app; split; assumption].
Qed.

Lemma handle_swap_partition_ok e s g : GI g -> okr GI (handle_swap_partition e s g).
Proof.
  intros G. unfold handle_swap_partition.
  repeat match goal with
         | |- okg _ _ (if ?x then _ else _) => destruct x
         | |- okg _ _ (match ?x with Some _ => _ | None => _ end) => destruct x
         end; try exact G.
  apply (okr_bind _ _ _ _ (mk_table_ok e _ None None)). intros t0 H0.
  apply (okr_bind _ _ _ _ (mk_table_ok e _ None None)). intros t3 H3. cbn [okg].
  apply GI_add_write; [apply GI_add_read; [exact G|exact (ktable_ok _ H0)]|exact (ktable_ok _ H3)].
Qed.

Lemma handle_select_into_ok e s g : escape_free s = true -> GI g -> okr GI (handle_select_into e s g).
Proof.
  intros H G. unfold handle_select_into. destruct (ty_in s _); [|exact G].
  destruct (find_table_identifier s) as [i|] eqn:E; [|exact G]. destruct (D_find_ti s H i E) as [Di _].
  apply (okr_bind _ _ _ _ (find_table_ok e i (D_ef _ _ Di))). intros t Ht. cbn [okg]. exact (GI_opt_write g t G Ht).
Qed.

(** SqlFluffColumn.of builds a column without parents *)
Lemma column_of_seg_shape f e c x : column_of_seg f e c = Ok x -> cparents (xc x) = [].
Proof.
  unfold column_of_seg. intros H.
  repeat match type of H with
         | (if ?b then _ else _) = _ => destruct b
         | (match ?m with _ => _ end) = _ => destruct m; try discriminate H
         end; inversion H; reflexivity.
Qed.

Definition sel_ok (st : sel) : Prop := GI (s_g st) /\ Forall ds_ok (s_tables st) /\ xcols_ok (s_columns st).

Lemma column_of_seg_ok2 f e c : escape_free c = true -> depth c <= f -> okr (fun x => col_ok (xc x)) (column_of_seg f e c).
Proof.
  intros H Hd. pose proof (column_of_seg_ok f e c H Hd) as K. destruct (column_of_seg f e c) as [x|k] eqn:E; [|exact K].
  cbn [okg]. intros d Hin. rewrite (column_of_seg_shape f e c x E) in Hin. destruct Hin.
Qed.

Lemma handle_child_ok f e st s : escape_free s = true -> depth s <= S f -> sel_ok st -> okr sel_ok (handle_child f e st s).
Proof.
  intros H Hd (G & Ht & Hc). unfold handle_child.
  apply (okr_bind _ _ _ _ (handle_swap_partition_ok e s _ G)). intros g1 G1.
  apply (okr_bind _ _ _ _ (handle_select_into_ok e s g1 H G1)). intros g2 G2.
  apply (okr_bind _ _ _ _ (list_tables_ok e s g2 H G2)). intros ts Hts.
  apply (okr_bind (Forall (fun x => col_ok (xc x)))).
  - destruct (tyis s "select_clause"); [|constructor]. apply okr_map_res. intros c Hin.
    destruct (Ds_get_children s _ c H Hin) as [Ec Dc]. apply column_of_seg_ok2; [exact Ec|lia].
  - intros cols Hcols. cbn [okg]. split; [exact G2|]. cbn [s_tables s_columns]. split; [apply Forall_app; split; assumption|].
    intros x Hx. apply in_app_or in Hx. rewrite Forall_forall in Hcols. destruct Hx as [Hx|Hx]; [exact (Hc x Hx)|exact (Hcols x Hx)].
Qed.
