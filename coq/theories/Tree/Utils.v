(** L4: sqllineage/core/parser/sqlfluff/utils.py on the segment tree. *)
From SV Require Export Tree.Seg.

(** Python exceptions are values: [Err kind]. *)
Inductive res (A : Type) := Ok (a : A) | Err (e : string).
Arguments Ok {A} a.
Arguments Err {A} e.
Notation "'do' x <- m ; f" := (match m with Ok x => f | Err e => Err e end)
  (at level 200, x name, m at level 100, f at level 200).
Definition EIndex := "IndexError".
Definition EFuel := "OutOfFuel".

Definition nth_res {A} (l : list A) (i : nat) : res A :=
  match nth_error l i with Some x => Ok x | None => Err EIndex end.
Definition last_res {A} (l : list A) : res A :=
  match rev l with x :: _ => Ok x | [] => Err EIndex end.

Definition is_negligible (s : seg) : bool :=
  is_ws s || is_cm s || is_mt s || (tyis s "symbol" && negb (String.eqb (raw s) "*")).

Definition is_set_expression (s : seg) : bool :=
  tyis s "set_expression" || existsb (fun c => tyis c "set_expression") (children s).

(** extract_innermost_bracketed: descend while a bracketed child (or grandchild) exists *)
Fixpoint innermost_fuel (fuel : nat) (s : seg) : seg :=
  match fuel with
  | O => s
  | S k =>
      let sub_bracketed := flat_map (fun bs => match get_child bs ["bracketed"] with Some x => [x] | None => [] end)
                                    (children s) in
      match get_child s ["bracketed"] with
      | Some p => innermost_fuel k p
      | None => match sub_bracketed with p :: _ => innermost_fuel k p | [] => s end
      end
  end.
Definition extract_innermost_bracketed (s : seg) : seg := innermost_fuel (depth s) s.

Definition is_subquery (s : seg) : res bool :=
  if tyis s "from_expression_element" || tyis s "bracketed" then
    do start <- (if tyis s "bracketed" then Ok s else nth_res (children s) 0);
    let token := extract_innermost_bracketed start in
    match get_child token ["select_statement"; "set_expression"; "with_compound_statement"] with
    | Some _ => Ok true
    | None =>
        match get_child token ["expression"] with
        | Some e => match get_child e ["select_statement"] with Some _ => Ok true | None => Ok false end
        | None => Ok false
        end
    end
  else Ok false.

Definition is_wildcard (s : seg) : bool :=
  tyis s "wildcard_expression" || (tyis s "symbol" && String.eqb (raw s) "*" && String.eqb (gty s) "star").

Definition find_from_expression_element (s : seg) : option seg :=
  match crawl ["from_expression_element"] true s with x :: _ => Some x | [] => None end.

Fixpoint find_table_identifier (s : seg) : option seg :=
  match s with
  | Seg _ _ _ _ _ _ _ ch =>
      if ty_in s ["table_reference"; "file_reference"; "object_reference"] then Some s
      else fold_left (fun acc c => match acc with Some _ => acc | None => find_table_identifier c end) ch None
  end.

Definition list_join_clause (s : seg) : list seg :=
  if ty_in s ["from_clause"; "update_statement"] then
    let early :=
      match get_child s ["from_expression"] with
      | Some fe =>
          match get_child fe ["join_clause"] with
          | Some _ => false
          | None => match crawl ["select_clause"] true fe with _ :: _ => true | [] => false end
          end
      | None => false
      end in
    if early then [] else crawl ["join_clause"] true s
  else [].

(** list_expression_from_when_clause(when_clause, sub_type): sub_type is "WHEN" or "THEN" *)
Fixpoint when_scan (from_kw : string) (end_kw : option string) (cs : list seg) (started : bool) (acc : list seg) : list seg :=
  match cs with
  | [] => acc
  | c :: r =>
      if tyis c "keyword" && String.eqb (raw_upper c) from_kw then when_scan from_kw end_kw r true acc
      else if (match end_kw with Some e => tyis c "keyword" && String.eqb (raw_upper c) e | None => false end) then acc
      else if started && tyis c "expression" then when_scan from_kw end_kw r started (get_children c ["bracketed"])
      else when_scan from_kw end_kw r started acc
  end.
Definition list_expression_from_when_clause (w : seg) (sub_type : string) : list seg :=
  when_scan sub_type (if String.eqb sub_type "WHEN" then Some "THEN" else None) (children w) false [].

(** list_child_segments(segment, check_bracketed) *)
Definition list_child_segments (s : seg) (check_bracketed : bool) : list seg :=
  if tyis s "bracketed" && check_bracketed then
    if is_set_expression s then filter (fun c => tyis c "set_expression") (children s)
    else flat_map (fun x => if ty_in x ["column_reference"; "column_definition"] then [x]
                            else filter (fun c => negb (is_negligible c)) (children x))
                  (iter_expanding ["expression"] s)
  else filter (fun c => negb (is_negligible c)) (children s).

Definition extract_identifier (s : seg) : res string :=
  do x <- last_res (list_child_segments s true); Ok (raw x).

Definition extract_as_and_target_segment (s : seg) : res (option seg * seg) :=
  let as_segment := get_child s ["alias_expression"] in
  let sublist := list_child_segments s false in
  do t0 <- nth_res sublist 0;
  (* a leading keyword (LATERAL sub-query; exasol's FROM TABLE t) is skipped when something follows it *)
  do target <- (if tyis t0 "keyword" && Nat.ltb 1 (List.length sublist) then nth_res sublist 1 else Ok t0);
  do sq <- is_subquery target;
  do table_expr <- (if sq then Ok target else nth_res (children target) 0);
  Ok (as_segment, table_expr).

(** str.split(".") *)
Fixpoint split_dot_aux (s : string) : list string :=
  match s with
  | EmptyString => [EmptyString]
  | String a r =>
      if Ascii.eqb a "."%char then EmptyString :: split_dot_aux r
      else match split_dot_aux r with
           | [] => [String a EmptyString]
           | x :: xs => String a x :: xs
           end
  end.

Definition extract_column_qualifier (s : seg) : res (option (string * option string)) :=
  if is_wildcard s then
    let ids := split_dot_aux (raw s) in
    do col <- last_res ids;
    Ok (Some (col, match rev ids with _ :: p :: _ => Some p | _ => None end))
  else if tyis s "column_reference" then
    let subs := list_child_segments s true in
    do c <- last_res subs;
    Ok (Some (raw c, match rev subs with _ :: p :: _ => Some (raw p) | _ => None end))
  else if tyis s "identifier" then Ok (Some (raw s, None))
  else Ok None.

(** SubQueryTuple(parenthesis, alias) *)
Definition sqtuple := (seg * option string)%type.

Fixpoint map_res {A B} (f : A -> res B) (l : list A) : res (list B) :=
  match l with
  | [] => Ok []
  | x :: r => do y <- f x; do ys <- map_res f r; Ok (y :: ys)
  end.
Fixpoint filter_res {A} (f : A -> res bool) (l : list A) : res (list A) :=
  match l with
  | [] => Ok []
  | x :: r => do b <- f x; do ys <- filter_res f r; Ok (if b then x :: ys else ys)
  end.
Fixpoint concat_res {A} (l : list (res (list A))) : res (list A) :=
  match l with
  | [] => Ok []
  | x :: r => do a <- x; do b <- concat_res r; Ok (a ++ b)
  end.

(** list_subqueries for a from_expression_element *)
Definition list_subqueries_fee (s : seg) : res (list sqtuple) :=
  do at_ <- extract_as_and_target_segment s;
  let '(as_segment, target) := at_ in
  do sq <- is_subquery target;
  if sq then
    do alias <- (match as_segment with Some a => do i <- extract_identifier a; Ok (Some i) | None => Ok None end);
    Ok [((if negb (is_set_expression target) then extract_innermost_bracketed target else target), alias)]
  else Ok [].

Definition list_subqueries (s : seg) : res (list sqtuple) :=
  if tyis s "select_clause" then
    concat_res (map (fun sce =>
      match get_child sce ["expression"] with
      | Some e =>
          match get_child e ["case_expression"] with
          | Some ce =>
              concat_res (map (fun wc =>
                let whens := map (fun b => (b, @None string)) (list_expression_from_when_clause wc "WHEN") in
                match list_expression_from_when_clause wc "THEN" with
                | [] => Ok whens
                | thens =>
                    do alias <- (match get_child sce ["alias_expression"] with
                                 | Some a => do i <- extract_identifier a; Ok (Some i)
                                 | None => Ok None end);
                    Ok (whens ++ map (fun b => (b, alias)) thens)
                end) (get_children ce ["when_clause"]))
          | None => Ok []
          end
      | None =>
          match get_child sce ["function"] with
          | Some f =>
              do bs <- filter_res is_subquery (crawl ["bracketed"] true f);
              Ok (map (fun b => (b, @None string)) bs)
          | None => Ok []
          end
      end) (get_children s ["select_clause_element"]))
  else if tyis s "from_expression_element" then list_subqueries_fee s
  else if tyis s "where_clause" then
    let bracketeds :=
      match get_child s ["expression"] with
      | Some e => get_children e ["bracketed"]
      | None =>
          match get_child s ["bracketed"] with
          | Some bw => match get_child bw ["expression"] with Some e => get_children e ["bracketed"] | None => [] end
          | None => []
          end
      end in
    do bs <- filter_res is_subquery bracketeds;
    Ok (map (fun b => (extract_innermost_bracketed b, @None string)) bs)
  else if ty_in s ["from_clause"; "from_expression"] then
    do first <- (match find_from_expression_element s with Some fee => list_subqueries_fee fee | None => Ok [] end);
    do rest <- concat_res (map (fun jc => match find_from_expression_element jc with
                                          | Some fee => list_subqueries_fee fee | None => Ok [] end) (list_join_clause s));
    Ok (first ++ rest)
  else if is_set_expression s then
    Ok (map (fun x => (x, @None string))
            (filter (fun x => ty_in x ["bracketed"; "select_statement"]) (list_child_segments s true)))
  else Ok [].
