(** CTE chains at COLUMN level (C02), simplest useful case: every definition and the body is one SELECT over ONE relation
    (a base table or an earlier CTE) with column / aliased-expression items, no stars; rendered by [r_stmt_c].
    STATUS: statement and executable guard, TESTED by vm_compute (11 instances: chains of length 1 - 3, INSERT with / without
    column list, CTAS, VIEW, aliases, renaming x <-> y along the chain, an unused CTE, two CTEs with the same text when the
    FIRST is the one referred to): all agree, no disagreement found.  NOT PROVED (the route of Tree/LemmaB5d*.v for one CTE
    composes the holder of the body with the holder of the definition; for a chain the composition has to be iterated along
    the registration order of [xcte_chain_ok] of Tree/LemmaAChain.v). *)
From SV Require Import Tree.Render Tree.RenderExpr Tree.RenderChain Tree.ExprItem Tree.LemmaA Tree.LemmaAProofs Tree.LemmaB Tree.LemmaBProofs
     Tree.LemmaBExpr Tree.LemmaAExpr Tree.LemmaAChain.
Open Scope string_scope.

Definition one_rel_select (ctes : list string) (q : query) : bool :=
  match q with
  | QSelect items [RTable t al] _ None =>
      forallb (fun i => match i with IStar _ => false | _ => item_ok_x i end) items && tref_ok t
      && match al with Some a => id_ok a | None => true end
  | _ => false
  end.
Definition chain_cols_ok (noise : list seg) (s : stmt) : bool :=
  stmt_ok_c noise s && colshape s &&
  match stmt_query s with
  | Some q => let '(ch, b) := chain_of q in forallb (fun nc => one_rel_select [] (snd nc)) ch && one_rel_select [] b
  | None => false
  end.
Definition lemma_B_chain_statement : Prop :=
  forall noise e s, noise_ok noise = true -> env_ok e = true -> chain_cols_ok noise s = true ->
    script_pairs e false [] [r_stmt_c noise s] = spec_pairs (e_cfg e) s.

Definition c (n : string) := IExpr (EColRef None n) None.
Definition ca (n a : string) := IExpr (EColRef None n) (Some a).
Definition qc (q n : string) := IExpr (EColRef (Some q) n) None.
Definition ex (a : string) := IExpr (EBin (EColRef None "x") (EFun (EColRef None "y") ELit)) (Some a).
Definition S1 (items : list item) (t : string) := QSelect items [RTable (None, t) None] false None.
Definition S1a (items : list item) (t al : string) := QSelect items [RTable (None, t) (Some al)] false None.
Definition tests : list stmt := [
 SInsert (None,"o") None (QWith "a" (S1 [c "x"; ex "k"] "t") (QWith "b" (S1 [c "x"; c "k"] "a") (S1 [c "x"; ca "k" "z"] "b")));
 SInsert (None,"o") None (QWith "a" (S1 [c "x"; c "y"] "t") (S1 [ex "k"] "a"));
 SCtas (None,"o") (QWith "a" (S1 [c "x"] "t") (QWith "b" (S1 [c "y"] "u") (S1 [c "y"] "b")));
 SCtas (None,"o") (QWith "a" (S1 [c "x"; c "y"] "t") (QWith "b" (S1 [ca "x" "p"; ex "q"] "a") (QWith "d" (S1 [c "p"; c "q"] "b") (S1 [c "p"; ca "q" "r"] "d"))));
 SInsert (None,"o") (Some ["m"; "n"]) (QWith "a" (S1 [c "x"; c "y"] "t") (QWith "b" (S1 [c "x"; c "y"] "a") (S1 [c "x"; c "y"] "b")));
 SView (None,"o") (QWith "a" (S1 [c "x"] "t") (QWith "b" (S1a [qc "w" "x"] "a" "w") (S1a [qc "v" "x"] "b" "v")));
 SInsert (None,"o") None (QWith "a" (S1 [c "x"] "t") (QWith "b" (S1 [c "x"] "t") (S1 [c "x"] "a")));
 SInsert (None,"o") None (QWith "a" (S1 [c "x"] "t") (QWith "b" (S1 [c "x"] "a") (S1 [c "x"] "a")));
 SInsert (None,"o") None (QWith "a" (S1 [ca "x" "y"] "t") (QWith "b" (S1 [ca "y" "x"] "a") (S1 [c "x"] "b")));
 SInsert (None,"o") None (QWith "a" (S1 [c "x"] "t") (QWith "b" (S1 [c "x"] "u") (S1 [c "x"] "b")));
 SQuery (QWith "a" (S1 [c "x"] "t") (QWith "b" (S1 [c "x"] "a") (S1 [c "x"] "b")))
].

Example chain_cols_tests :
  forallb (fun s => list_eqb (script_pairs e0 false [] [r_stmt_c [ws; cmt] s]) (spec_pairs "" s)) tests = true /\
  map (chain_cols_ok [ws; cmt]) tests = [true; true; true; true; true; true; false; true; true; true; true].
Proof. vm_compute. split; reflexivity. Qed.
