(** L3 -> L4 for CTE CHAINS and PARENTHESISED JOIN GROUPS (property C01).

    CTE chains.  In Ast/Spec.v a chain  WITH n1 AS (c1), n2 AS (c2) <body>  is [QWith n1 c1 (QWith n2 c2 body)].  The parser
    produces ONE with_compound_statement whose children are the keyword, the common_table_expressions separated by commas, and
    the body; Render.v / RenderExpr.v nest one with_compound_statement per CTE (which the parser only does for a WITH inside
    the body).  [r_stmt_c] renders the outermost chain of the statement's query the way the parser does
    ([INSERT INTO t WITH .. SELECT ..]: the chain is the source of the INSERT, as in Render.v); everything below is rendered by
    [r_query_x] (expression items at every level).

    Join groups.  [RGroup a b] = ( a JOIN b ON 1 = 1 ) used as a join operand or FROM element: the parser gives a
    from_expression_element > table_expression > bracketed > ( from_expression-less ) join layout: see [r_rel_g].
    Both layouts are validated against the real parser by /tmp/pf_expr/check_render_chain.py. *)
From SV Require Export Tree.Render Tree.RenderExpr.
From SV Require Import Tree.LemmaA.

Section RenderC.
  Variable noise : list seg.

  Fixpoint chain_of (q : query) : list (string * query) * query :=
    match q with
    | QWith n c b => let '(l, body) := chain_of b in ((n, c) :: l, body)
    | _ => ([], q)
    end.
  Definition unchain (ch : list (string * query)) (b : query) : query :=
    fold_right (fun nc acc => QWith (fst nc) (snd nc) acc) b ch.

  Definition kq (c : query) : nat := S (q_size c).
  Definition r_brq_c (c : query) : seg := node "bracketed" ["bracketed"] (sep noise [lpar; r_query_x noise (kq c) c; rpar]).
  Definition r_cte_c (nc : string * query) : seg :=
    node "common_table_expression" ["common_table_expression"] (sep noise [ident (fst nc); kw "as"; r_brq_c (snd nc)]).
  Definition r_with_c (ch : list (string * query)) (b : query) : seg :=
    node "with_compound_statement" ["with_compound_statement"]
         (sep noise (kw "with" :: intersperse comma (map r_cte_c ch) ++ [r_query_x noise (kq b) b])).

  (** the query of a statement: its outermost chain as one with_compound_statement *)
  Definition r_topq_c (q : query) : seg :=
    match chain_of q with
    | ([], _) => r_query_x noise (S (q_size q)) q
    | (ch, b) => r_with_c ch b
    end.

  Definition r_stmt_c (s : stmt) : seg :=
    match s with
    | SInsert t cols q =>
        node "insert_statement" ["insert_statement"]
             (sep noise ([kw "insert"; kw "into"; r_tref t]
                   ++ match cols with
                      | Some cs => [node "bracketed" ["bracketed"] (sep noise (lpar :: intersperse comma (map (r_colref None) cs) ++ [rpar]))]
                      | None => []
                      end
                   ++ [r_topq_c q]))
    | SCtas t q =>
        node "create_table_statement" ["create_table_statement"] (sep noise [kw "create"; kw "table"; r_tref t; kw "as"; r_topq_c q])
    | SView t q =>
        node "create_view_statement" ["create_view_statement"] (sep noise [kw "create"; kw "view"; r_tref t; kw "as"; r_topq_c q])
    | SQuery q => r_topq_c q
    | SNoData _ => r_stmt noise s
    end.
End RenderC.

Definition show_render_c (s : stmt) : string := show_seg 400 (r_stmt_c [] s).
