(** The T-SQL batch splitter on trees: proofs (property C05, clause "the same holds for T-SQL scripts written
    without semicolons").

    SUMMARY
    - [list_statements_layout]: on ANY file tree described by a layout (statements, batches, anything else; batch
      children statements or non-statements) the splitter returns exactly the statement segments, in order.
      Instances for the parser's layouts with arbitrary trivia: [list_statements_tsql] (no semicolons),
      [list_statements_tsql_semi], [list_statements_tsql_go] (several GO batches), [list_statements_ansi].
    - cache: [cache_lookup] characterises the dict completely (the LAST segment with that raw text);
      [cache_sound], [split_tsql_all_cached] (the re-parse branch of [analyze] is dead).
    - [run_tsql_canonical] (no hypothesis): analysing through the cache = [run_statements] on the canonical
      (last raw-equal) segments; [run_tsql_eq_run_statements]: = [run_statements] on the segments themselves when
      [raw_determines]; [run_tsql_needs_raw_determines]: the hypothesis cannot be dropped;
      [raw_determines_rendered_refuted]: it does NOT hold of all rendered statements with [noise = []]
      (without blanks "select x from bfromc" and "select xfromb from c" have the same raw text);
      [nodup_raw_determines]: pairwise different raw texts suffice.
    - [c05_tsql_no_semicolon] (+ [_semi], [_go]): the C05 clause. *)
From SV Require Import Tree.TsqlSplit Tree.LemmaA Tree.LemmaAProofs Tree.ProviderProofs.

(* ================================================================== *)
(** * Part 1: the statement list *)

Lemma tops_app a b :
  list_statements_tops (a ++ b) =
  (do x <- list_statements_tops a; do y <- list_statements_tops b; Ok (x ++ y)).
Proof.
  induction a as [|t r IH].
  - cbn [app list_statements_tops]. destruct (list_statements_tops b) as [y|err]; reflexivity.
  - cbn [app list_statements_tops]. rewrite IH.
    destruct (top_statements t) as [h|err]; [|reflexivity].
    destruct (list_statements_tops r) as [x|err]; [|reflexivity].
    destruct (list_statements_tops b) as [y|err]; [|reflexivity].
    rewrite app_assoc. reflexivity.
Qed.

Lemma tops_others l :
  (forall o, In o l -> tyis o "statement" = false /\ tyis o "batch" = false) -> list_statements_tops l = Ok [].
Proof.
  induction l as [|o r IH]; intros H; [reflexivity|].
  cbn [list_statements_tops]. unfold top_statements.
  destruct (H o (or_introl eq_refl)) as [H1 H2]. rewrite H1, H2.
  rewrite IH; [reflexivity|]. intros x Hx. apply H. right. exact Hx.
Qed.

Lemma first_child_wrap x : first_child (stmt_wrap x) = Ok x.
Proof. reflexivity. Qed.

Lemma map_res_first_child_wrap xs : map_res first_child (map stmt_wrap xs) = Ok xs.
Proof.
  induction xs as [|x r IH]; [reflexivity|].
  cbn [map map_res]. rewrite first_child_wrap, IH. reflexivity.
Qed.

Lemma top_statements_wrap x : top_statements (stmt_wrap x) = Ok [x].
Proof. reflexivity. Qed.

Lemma top_statements_batch c ch :
  top_statements (node "batch" c ch) = map_res first_child (filter (fun x => is_type x ["statement"]) ch).
Proof. reflexivity. Qed.

Lemma is_type_wrap x : is_type (stmt_wrap x) ["statement"] = true.
Proof. reflexivity. Qed.

Lemma filter_wraps xs : filter (fun x => is_type x ["statement"]) (map stmt_wrap xs) = map stmt_wrap xs.
Proof.
  induction xs as [|x r IH]; [reflexivity|]. cbn [map filter]. rewrite is_type_wrap, IH. reflexivity.
Qed.

(** ** the general layout *)
Lemma batch_items_filter items :
  forallb bitem_ok items = true ->
  map_res first_child (filter (fun x => is_type x ["statement"]) (map r_bitem items)) = Ok (flat_map bitem_stmts items).
Proof.
  induction items as [|b r IH]; intros H; [reflexivity|].
  cbn [forallb] in H. apply andb_true_iff in H. destruct H as [Hb Hr].
  cbn [map filter flat_map]. destruct b as [x|o].
  - cbn [r_bitem bitem_stmts]. rewrite is_type_wrap. cbn [map_res]. rewrite first_child_wrap, (IH Hr). reflexivity.
  - cbn [r_bitem bitem_stmts bitem_ok] in *. apply negb_true_iff in Hb. rewrite Hb. cbn [app]. apply IH. exact Hr.
Qed.

Lemma top_statements_titem t : titem_ok t = true -> top_statements (r_titem t) = Ok (titem_stmts t).
Proof.
  destruct t as [x|items|o]; intros H.
  - reflexivity.
  - cbn [r_titem titem_stmts]. rewrite top_statements_batch. apply batch_items_filter. exact H.
  - cbn [r_titem titem_stmts titem_ok] in *. apply andb_true_iff in H. destruct H as [H1 H2].
    apply negb_true_iff in H1. apply negb_true_iff in H2. unfold top_statements. rewrite H1, H2. reflexivity.
Qed.

(** exactly the statements of the layout, in order: none lost, none invented *)
Theorem list_statements_layout : forall l,
  layout_ok l = true -> list_statements (r_layout l) = Ok (layout_stmts l).
Proof.
  intros l. unfold list_statements, r_layout, layout_ok, layout_stmts. cbn [children node].
  induction l as [|t r IH]; intros H; [reflexivity|].
  cbn [forallb] in H. apply andb_true_iff in H. destruct H as [Ht Hr].
  cbn [map list_statements_tops flat_map]. rewrite (top_statements_titem t Ht), (IH Hr). reflexivity.
Qed.
Print Assumptions list_statements_layout.

(** a statement node without children makes the whole call fail ([segments[0]] raises IndexError) *)
Example list_statements_childless :
  list_statements (node "file" ["file"] [node "batch" ["batch"] [stmt_wrap (kw "x"); node "statement" ["statement"] []]])
  = Err EIndex.
Proof. reflexivity. Qed.

(** ** the parser's layouts, arbitrary trivia *)
Section Layouts.
Variable noise : list seg.
Hypothesis Hnoise : noise_ok noise = true.

Lemma noise_other o : In o noise -> tyis o "statement" = false /\ tyis o "batch" = false.
Proof.
  intros H. pose proof (noise_in noise Hnoise o H) as Ho.
  split; apply noise_tyis; try exact Ho; reflexivity.
Qed.

Lemma noise_not_statement o : In o noise -> is_type o ["statement"] = false.
Proof. intros H. apply noise_is_type; [exact (noise_in noise Hnoise o H)|reflexivity]. Qed.

Lemma tops_noise : list_statements_tops noise = Ok [].
Proof. apply tops_others. exact noise_other. Qed.

Lemma tops_noise_eof : list_statements_tops (noise ++ [eof]) = Ok [].
Proof.
  apply tops_others. intros o Ho. apply in_app_or in Ho. destruct Ho as [Ho|[Ho|[]]].
  - apply noise_other. exact Ho.
  - subst o. split; reflexivity.
Qed.

Lemma filter_statement_noise : filter (fun x => is_type x ["statement"]) noise = [].
Proof. apply filter_none. exact noise_not_statement. Qed.

Lemma top_statements_r_batch xs : top_statements (r_batch noise xs) = Ok xs.
Proof.
  unfold r_batch. rewrite top_statements_batch.
  rewrite (filter_sep noise Hnoise (fun x => is_type x ["statement"])).
  - rewrite filter_wraps. apply map_res_first_child_wrap.
  - intros x Hx. apply noise_is_type; [exact Hx|reflexivity].
Qed.

Lemma filter_with_semis xs :
  filter (fun x => is_type x ["statement"]) (with_semis noise xs) = map stmt_wrap xs.
Proof.
  unfold with_semis. induction xs as [|x r IH]; [reflexivity|].
  cbn [flat_map map]. cbn [app filter]. rewrite is_type_wrap. f_equal.
  rewrite !filter_app. cbn [filter]. rewrite filter_statement_noise.
  change (is_type terminator ["statement"]) with false. cbn [app]. exact IH.
Qed.

Lemma top_statements_r_batch_semi xs : top_statements (r_batch_semi noise xs) = Ok xs.
Proof.
  unfold r_batch_semi. rewrite top_statements_batch, filter_with_semis. apply map_res_first_child_wrap.
Qed.

Lemma top_statements_r_batch_go xs : top_statements (r_batch_go noise xs) = Ok xs.
Proof.
  unfold r_batch_go. rewrite top_statements_batch.
  rewrite (filter_sep noise Hnoise (fun x => is_type x ["statement"])).
  - rewrite filter_app, filter_wraps. cbn [filter]. change (is_type go_stmt ["statement"]) with false.
    rewrite app_nil_r. apply map_res_first_child_wrap.
  - intros x Hx. apply noise_is_type; [exact Hx|reflexivity].
Qed.

(** T-SQL without semicolons: one batch *)
Theorem list_statements_tsql_segs : forall xs, list_statements (r_file_tsql_segs noise xs) = Ok xs.
Proof.
  intros xs. unfold list_statements, r_file_tsql_segs. cbn [children node].
  rewrite tops_app, tops_noise. cbn [list_statements_tops]. rewrite top_statements_r_batch, tops_noise_eof.
  cbn [app]. rewrite app_nil_r. reflexivity.
Qed.

(** T-SQL with semicolons: the terminators are batch children *)
Theorem list_statements_tsql_semi_segs : forall xs, list_statements (r_file_tsql_semi_segs noise xs) = Ok xs.
Proof.
  intros xs. unfold list_statements, r_file_tsql_semi_segs. cbn [children node].
  rewrite tops_app, tops_noise. cbn [list_statements_tops]. rewrite top_statements_r_batch_semi, tops_noise_eof.
  cbn [app]. rewrite app_nil_r. reflexivity.
Qed.

Lemma tops_batches_go bs :
  list_statements_tops (flat_map (fun xs => r_batch_go noise xs :: noise) bs) = Ok (List.concat bs).
Proof.
  induction bs as [|xs r IH]; [reflexivity|].
  cbn [flat_map List.concat]. change ((r_batch_go noise xs :: noise) ++ ?t) with (r_batch_go noise xs :: (noise ++ t)).
  cbn [list_statements_tops]. rewrite top_statements_r_batch_go, tops_app, tops_noise, IH. reflexivity.
Qed.

(** several batches closed by GO *)
Theorem list_statements_tsql_go_segs : forall bs, list_statements (r_file_tsql_go_segs noise bs) = Ok (List.concat bs).
Proof.
  intros bs. unfold list_statements, r_file_tsql_go_segs. cbn [children node].
  rewrite tops_app, tops_noise, tops_app, tops_batches_go.
  change (list_statements_tops [eof]) with (@Ok (list seg) []).
  cbn [app]. rewrite app_nil_r. reflexivity.
Qed.

Lemma tops_with_semis xs : list_statements_tops (with_semis noise xs) = Ok xs.
Proof.
  unfold with_semis. induction xs as [|x r IH]; [reflexivity|].
  cbn [flat_map]. change ((stmt_wrap x :: ?a) ++ ?t) with (stmt_wrap x :: (a ++ t)).
  cbn [list_statements_tops]. rewrite top_statements_wrap, tops_app.
  rewrite (tops_others (noise ++ terminator :: noise)).
  - rewrite IH. reflexivity.
  - intros o Ho. apply in_app_or in Ho. destruct Ho as [Ho|[Ho|Ho]].
    + apply noise_other. exact Ho.
    + subst o. split; reflexivity.
    + apply noise_other. exact Ho.
Qed.

(** the ordinary layout (ansi ...): statements and terminators are children of [file] *)
Theorem list_statements_ansi_segs : forall xs, list_statements (r_file_ansi_segs noise xs) = Ok xs.
Proof.
  intros xs. unfold list_statements, r_file_ansi_segs. cbn [children node].
  rewrite tops_app, tops_noise, tops_app, tops_with_semis.
  change (list_statements_tops [eof]) with (@Ok (list seg) []).
  cbn [app]. rewrite app_nil_r. reflexivity.
Qed.

(** on the abstract syntax *)
Theorem list_statements_tsql : forall ss, list_statements (r_file_tsql noise ss) = Ok (map (r_stmt noise) ss).
Proof. intros ss. apply list_statements_tsql_segs. Qed.
Theorem list_statements_tsql_semi : forall ss, list_statements (r_file_tsql_semi noise ss) = Ok (map (r_stmt noise) ss).
Proof. intros ss. apply list_statements_tsql_semi_segs. Qed.
Theorem list_statements_tsql_go : forall bs,
  list_statements (r_file_tsql_go noise bs) = Ok (map (r_stmt noise) (List.concat bs)).
Proof. intros bs. unfold r_file_tsql_go. rewrite list_statements_tsql_go_segs, List.concat_map. reflexivity. Qed.
Theorem list_statements_ansi : forall ss, list_statements (r_file_ansi noise ss) = Ok (map (r_stmt noise) ss).
Proof. intros ss. apply list_statements_ansi_segs. Qed.
End Layouts.
Print Assumptions list_statements_tsql.
Print Assumptions list_statements_tsql_semi.
Print Assumptions list_statements_tsql_go.
Print Assumptions list_statements_ansi.

(* ================================================================== *)
(** * Part 2: the cache *)

Lemma dict_get_set q k v d :
  dict_get q (dict_set k v d) = if String.eqb k q then Some v else dict_get q d.
Proof.
  induction d as [|[k' v'] r IH].
  - reflexivity.
  - cbn [dict_set dict_get]. destruct (String.eqb k' k) eqn:Ek.
    + apply String.eqb_eq in Ek. subst k'. cbn [dict_get]. destruct (String.eqb k q); reflexivity.
    + cbn [dict_get]. rewrite IH. destruct (String.eqb k' q) eqn:Eq'; [|reflexivity].
      apply String.eqb_eq in Eq'. subst q. rewrite String.eqb_sym, Ek. reflexivity.
Qed.

(** the last segment of the list with raw text [q] ([dflt] if there is none) *)
Fixpoint last_with_raw (q : string) (segs : list seg) (dflt : option seg) : option seg :=
  match segs with
  | [] => dflt
  | s :: r => last_with_raw q r (if String.eqb (raw s) q then Some s else dflt)
  end.

(** complete characterisation of the dict built by [split_tsql] *)
Theorem cache_lookup : forall q segs d0,
  dict_get q (build_cache segs d0) = last_with_raw q segs (dict_get q d0).
Proof.
  intros q segs. unfold build_cache. induction segs as [|s r IH]; intros d0; [reflexivity|].
  cbn [fold_left last_with_raw]. rewrite IH, dict_get_set. reflexivity.
Qed.
Print Assumptions cache_lookup.

Lemma last_with_raw_spec q segs dflt y :
  last_with_raw q segs dflt = Some y -> (In y segs /\ raw y = q) \/ dflt = Some y.
Proof.
  revert dflt. induction segs as [|s r IH]; intros dflt H.
  - right. exact H.
  - cbn [last_with_raw] in H. destruct (IH _ H) as [[Hin Hr]|Hd].
    + left. split; [right; exact Hin|exact Hr].
    + destruct (String.eqb (raw s) q) eqn:E.
      * injection Hd as Hd. subst y. apply String.eqb_eq in E. left. split; [left; reflexivity|exact E].
      * right. exact Hd.
Qed.

Lemma last_with_raw_some q segs dflt : (exists d, dflt = Some d) -> exists y, last_with_raw q segs dflt = Some y.
Proof.
  revert dflt. induction segs as [|s r IH]; intros dflt [d Hd].
  - exists d. exact Hd.
  - cbn [last_with_raw]. apply IH. destruct (String.eqb (raw s) q); [exists s; reflexivity|exists d; exact Hd].
Qed.

Lemma last_with_raw_In x segs dflt : In x segs -> exists y, last_with_raw (raw x) segs dflt = Some y.
Proof.
  revert dflt. induction segs as [|s r IH]; intros dflt H; [destruct H|].
  cbn [last_with_raw]. destruct H as [H|H].
  - subst s. rewrite String.eqb_refl. apply last_with_raw_some. exists x. reflexivity.
  - apply IH. exact H.
Qed.

(** cache soundness: every segment is found under its raw text, and what is found is a segment of the same
    file with the same raw text *)
Theorem cache_sound : forall segs x,
  In x segs -> exists y, dict_get (raw x) (build_cache segs []) = Some y /\ In y segs /\ raw y = raw x.
Proof.
  intros segs x Hx. rewrite cache_lookup. cbn [dict_get].
  destruct (last_with_raw_In x segs None Hx) as [y Hy]. exists y. split; [exact Hy|].
  destruct (last_with_raw_spec _ _ _ _ Hy) as [H|H]; [exact H|discriminate].
Qed.
Print Assumptions cache_sound.

(** ... and nothing else is in the cache *)
Theorem cache_complete : forall segs q y,
  dict_get q (build_cache segs []) = Some y -> In y segs /\ raw y = q.
Proof.
  intros segs q y H. rewrite cache_lookup in H. cbn [dict_get] in H.
  destruct (last_with_raw_spec _ _ _ _ H) as [H'|H']; [exact H'|discriminate].
Qed.

(** the re-parse branch of [analyze] ("sql not in tsql_split_cache") is never taken for a text returned by [split_tsql] *)
Theorem split_tsql_all_cached : forall file sqls cache q,
  split_tsql file = Ok (sqls, cache) -> In q sqls -> exists y, dict_get q cache = Some y /\ raw y = q.
Proof.
  intros file sqls cache q H Hq. unfold split_tsql in H.
  destruct (list_statements file) as [segs|err]; [|discriminate].
  injection H as Hs Hc. subst sqls cache. apply in_map_iff in Hq. destruct Hq as [x [Hx Hin]]. subst q.
  destruct (cache_sound segs x Hin) as [y [H1 [_ H3]]]. exists y. split; assumption.
Qed.
Print Assumptions split_tsql_all_cached.

(* ================================================================== *)
(** * Part 3: the statement loop through the cache *)

(** the segment actually analysed for [x]: the last one of the file with the same raw text *)
Definition canonical (segs : list seg) (x : seg) : seg :=
  match last_with_raw (raw x) segs None with Some y => y | None => x end.

Definition raw_determines (segs : list seg) : Prop :=
  forall x y, In x segs -> In y segs -> raw x = raw y -> x = y.

Lemma canonical_raw segs x : raw (canonical segs x) = raw x.
Proof.
  unfold canonical. destruct (last_with_raw (raw x) segs None) as [y|] eqn:E; [|reflexivity].
  destruct (last_with_raw_spec _ _ _ _ E) as [[_ H]|H]; [exact H|discriminate].
Qed.

Lemma canonical_id segs x : raw_determines segs -> In x segs -> canonical segs x = x.
Proof.
  intros Hrd Hx. unfold canonical. destruct (last_with_raw (raw x) segs None) as [y|] eqn:E; [|reflexivity].
  destruct (last_with_raw_spec _ _ _ _ E) as [[Hy Hr]|H]; [|discriminate].
  apply Hrd; assumption.
Qed.

Lemma map_canonical_id segs l : raw_determines segs -> incl l segs -> map (canonical segs) l = l.
Proof.
  intros Hrd. induction l as [|x r IH]; intros Hl; [reflexivity|].
  cbn [map]. rewrite (canonical_id segs x Hrd (Hl x (or_introl eq_refl))), IH; [reflexivity|].
  intros z Hz. apply Hl. right. exact Hz.
Qed.

Lemma analyze_cached_canonical e silent segs x :
  In x segs -> analyze_cached e silent (build_cache segs []) (raw x) = analyze e silent (canonical segs x).
Proof.
  intros Hx. unfold analyze_cached, canonical. rewrite cache_lookup. cbn [dict_get].
  destruct (last_with_raw_In x segs None Hx) as [y Hy]. rewrite Hy. reflexivity.
Qed.

Lemma run_raws_canonical e silent base segs l :
  incl l segs -> forall session acc,
  run_raws e silent base (build_cache segs []) (map raw l) session acc =
  run_statements e silent base (map (canonical segs) l) session acc.
Proof.
  induction l as [|x r IH]; intros Hl session acc; [reflexivity|].
  cbn [map run_raws run_statements].
  rewrite (analyze_cached_canonical _ silent segs x (Hl x (or_introl eq_refl))).
  destruct (analyze (with_cols e (view_cols session base)) silent (canonical segs x)) as [g|err]; [|reflexivity].
  apply IH. intros z Hz. apply Hl. right. exact Hz.
Qed.

(** Unconditionally: a T-SQL script run through split + cache is the ordinary statement loop on the canonical
    segments (each statement is replaced by the LAST statement of the file with the same text). *)
Theorem run_tsql_canonical : forall e silent base file,
  run_tsql e silent base file =
  (do segs <- list_statements file; run_statements e silent base (map (canonical segs) segs) [] []).
Proof.
  intros e silent base file. unfold run_tsql, split_tsql.
  destruct (list_statements file) as [segs|err]; [|reflexivity].
  cbn [fst snd]. apply run_raws_canonical. apply incl_refl.
Qed.
Print Assumptions run_tsql_canonical.

(** When raw-equal statement segments of the file are equal trees, analysing through the cache is analysing the
    segments themselves. *)
Theorem run_tsql_eq_run_statements : forall e silent base file segs,
  list_statements file = Ok segs -> raw_determines segs ->
  run_tsql e silent base file = run_statements e silent base segs [] [].
Proof.
  intros e silent base file segs Hl Hrd. rewrite run_tsql_canonical, Hl.
  rewrite (map_canonical_id segs segs Hrd (incl_refl segs)). reflexivity.
Qed.
Print Assumptions run_tsql_eq_run_statements.

(** the printed form (what the script tie compares) *)
Corollary show_tsql_script_eq : forall e silent base file segs,
  list_statements file = Ok segs -> raw_determines segs ->
  show_tsql_script e silent base file = show_script e silent base segs.
Proof.
  intros e silent base file segs Hl Hrd. unfold show_tsql_script, show_script.
  rewrite (run_tsql_eq_run_statements e silent base file segs Hl Hrd). reflexivity.
Qed.

(** sufficient: pairwise different raw texts *)
Lemma nodup_raw_determines segs : NoDup (map raw segs) -> raw_determines segs.
Proof.
  induction segs as [|s r IH]; intros Hnd x y Hx Hy Hr; [destruct Hx|].
  cbn [map] in Hnd. inversion Hnd as [|a l Hnotin Hnd' Ea]. subst a l.
  destruct Hx as [Hx|Hx]; destruct Hy as [Hy|Hy].
  - congruence.
  - subst s. exfalso. apply Hnotin. rewrite Hr. apply in_map. exact Hy.
  - subst s. exfalso. apply Hnotin. rewrite <- Hr. apply in_map. exact Hx.
  - apply (IH Hnd'); assumption.
Qed.

(** executable sufficient condition *)
Fixpoint nodupb (l : list string) : bool :=
  match l with [] => true | x :: r => negb (mem_string x r) && nodupb r end.
Lemma nodupb_NoDup l : nodupb l = true -> NoDup l.
Proof.
  induction l as [|x r IH]; intros H; [constructor|].
  cbn [nodupb] in H. apply andb_true_iff in H. destruct H as [H1 H2]. constructor; [|apply IH; exact H2].
  intros Hin. apply mem_string_In in Hin. rewrite Hin in H1. discriminate.
Qed.

Lemma raw_determines_incl l segs : raw_determines l -> incl segs l -> raw_determines segs.
Proof. intros H Hi x y Hx Hy. apply H; apply Hi; assumption. Qed.

(** repetitions of statements with pairwise different texts *)
Lemma nodupb_incl_raw_determines l segs : nodupb (map raw l) = true -> incl segs l -> raw_determines segs.
Proof. intros H. apply raw_determines_incl, nodup_raw_determines, nodupb_NoDup. exact H. Qed.

(* ================================================================== *)
(** * Part 4: the hypothesis [raw_determines] is needed, and does not come for free *)

Definition tsql_env0 : env := mk_env "tsql" "" "" {| p_truthy := false; p_cols := [] |} [].
(** select x from bfromc  /  select xfromb from c: without blanks between the tokens the raw texts coincide *)
Definition cx_q1 : stmt := SQuery (QSelect [IExpr (EColRef None "x") None] [RTable (None, "bfromc") None] false None).
Definition cx_q2 : stmt := SQuery (QSelect [IExpr (EColRef None "xfromb") None] [RTable (None, "c") None] false None).

(** REFUTED: "raw-equal rendered statements are equal trees when noise = []" - even inside the fragment [stmt_ok] *)
Theorem raw_determines_rendered_refuted :
  ~ (forall ss, forallb stmt_ok ss = true -> raw_determines (map (r_stmt []) ss)).
Proof.
  intros H. specialize (H [cx_q1; cx_q2] eq_refl).
  assert (E : r_stmt [] cx_q1 = r_stmt [] cx_q2).
  { apply H; [left; reflexivity|right; left; reflexivity|reflexivity]. }
  vm_compute in E. discriminate E.
Qed.
Print Assumptions raw_determines_rendered_refuted.

(** [run_tsql_eq_run_statements] is FALSE without [raw_determines]: both statements are analysed as the second one
    (the cache keeps one segment per text), the plain statement loop analyses each of them *)
Theorem run_tsql_needs_raw_determines :
  list_statements (r_file_tsql [] [cx_q1; cx_q2]) = Ok (map (r_stmt []) [cx_q1; cx_q2]) /\
  show_tsql_script tsql_env0 false [] (r_file_tsql [] [cx_q1; cx_q2]) <> show_script tsql_env0 false [] (map (r_stmt []) [cx_q1; cx_q2]) /\
  run_tsql tsql_env0 false [] (r_file_tsql [] [cx_q1; cx_q2]) <> run_statements tsql_env0 false [] (map (r_stmt []) [cx_q1; cx_q2]) [] [] /\
  run_tsql tsql_env0 false [] (r_file_tsql [] [cx_q1; cx_q2]) = run_statements tsql_env0 false [] (map (r_stmt []) [cx_q2; cx_q2]) [] [].
Proof.
  assert (Hshow : show_tsql_script tsql_env0 false [] (r_file_tsql [] [cx_q1; cx_q2]) <>
                  show_script tsql_env0 false [] (map (r_stmt []) [cx_q1; cx_q2])).
  { vm_compute. discriminate. }
  split; [reflexivity|]. split; [exact Hshow|]. split.
  - intros E. apply Hshow. unfold show_tsql_script, show_script. rewrite E. reflexivity.
  - vm_compute. reflexivity.
Qed.
Print Assumptions run_tsql_needs_raw_determines.

(* ================================================================== *)
(** * Part 5: the C05 clause for T-SQL scripts without semicolons *)

Lemma c05_tsql_core e silent base file segs :
  p_truthy (e_provider e) = false -> list_statements file = Ok segs -> raw_determines segs ->
  match run_tsql e silent base file, map_res (analyze e silent) segs with
  | Ok (gs, _), Ok gs' => gs = gs'
  | Err x, Err y => x = y
  | _, _ => False
  end.
Proof.
  intros Hp Hl Hrd. rewrite (run_tsql_eq_run_statements e silent base file segs Hl Hrd).
  pose proof (run_statements_falsy_provider e silent base segs [] [] Hp) as H. cbn [rev app] in H. exact H.
Qed.

(** With a falsy provider, the per-statement holders of a T-SQL script written without semicolons are the holders
    of each statement analysed on its own, in order (any trivia - blanks, newlines, comments - between and inside
    the statements). *)
Theorem c05_tsql_no_semicolon : forall noise e silent base ss,
  noise_ok noise = true -> p_truthy (e_provider e) = false -> raw_determines (map (r_stmt noise) ss) ->
  match run_tsql e silent base (r_file_tsql noise ss), map_res (analyze e silent) (map (r_stmt noise) ss) with
  | Ok (gs, _), Ok gs' => gs = gs'
  | Err x, Err y => x = y
  | _, _ => False
  end.
Proof.
  intros noise e silent base ss Hn Hp Hrd.
  exact (c05_tsql_core e silent base _ _ Hp (list_statements_tsql noise Hn ss) Hrd).
Qed.
Print Assumptions c05_tsql_no_semicolon.

(** the same with semicolons, and for several GO batches *)
Theorem c05_tsql_semi : forall noise e silent base ss,
  noise_ok noise = true -> p_truthy (e_provider e) = false -> raw_determines (map (r_stmt noise) ss) ->
  match run_tsql e silent base (r_file_tsql_semi noise ss), map_res (analyze e silent) (map (r_stmt noise) ss) with
  | Ok (gs, _), Ok gs' => gs = gs'
  | Err x, Err y => x = y
  | _, _ => False
  end.
Proof.
  intros noise e silent base ss Hn Hp Hrd.
  exact (c05_tsql_core e silent base _ _ Hp (list_statements_tsql_semi noise Hn ss) Hrd).
Qed.
Print Assumptions c05_tsql_semi.

Theorem c05_tsql_go : forall noise e silent base bs,
  noise_ok noise = true -> p_truthy (e_provider e) = false -> raw_determines (map (r_stmt noise) (List.concat bs)) ->
  match run_tsql e silent base (r_file_tsql_go noise bs), map_res (analyze e silent) (map (r_stmt noise) (List.concat bs)) with
  | Ok (gs, _), Ok gs' => gs = gs'
  | Err x, Err y => x = y
  | _, _ => False
  end.
Proof.
  intros noise e silent base bs Hn Hp Hrd.
  exact (c05_tsql_core e silent base _ _ Hp (list_statements_tsql_go noise Hn bs) Hrd).
Qed.
Print Assumptions c05_tsql_go.

(** on ANY file tree of the general layout *)
Theorem c05_tsql_layout : forall e silent base l,
  layout_ok l = true -> p_truthy (e_provider e) = false -> raw_determines (layout_stmts l) ->
  match run_tsql e silent base (r_layout l), map_res (analyze e silent) (layout_stmts l) with
  | Ok (gs, _), Ok gs' => gs = gs'
  | Err x, Err y => x = y
  | _, _ => False
  end.
Proof.
  intros e silent base l Hl Hp Hrd.
  exact (c05_tsql_core e silent base _ _ Hp (list_statements_layout l Hl) Hrd).
Qed.
Print Assumptions c05_tsql_layout.

(** whatever the provider: the script run through the splitter is the ordinary statement loop (session metadata
    included) on the rendered statements *)
Theorem run_tsql_rendered : forall noise e silent base ss,
  noise_ok noise = true -> raw_determines (map (r_stmt noise) ss) ->
  run_tsql e silent base (r_file_tsql noise ss) = run_statements e silent base (map (r_stmt noise) ss) [] [].
Proof.
  intros noise e silent base ss Hn Hrd.
  exact (run_tsql_eq_run_statements e silent base _ _ (list_statements_tsql noise Hn ss) Hrd).
Qed.
Print Assumptions run_tsql_rendered.

(* ================================================================== *)
(** * Part 6: non-vacuity *)

Definition nv_ws : seg := Seg "whitespace" "whitespace" ["raw"; "whitespace"] " " true false false [].
Definition nv_nl : seg := Seg "newline" "newline" ["newline"; "raw"] "
" true false false [].
Definition nv_cmt : seg := Seg "comment" "inline_comment" ["comment"; "inline_comment"; "raw"] "-- c" false true false [].
Definition nv_noise : list seg := [nv_ws; nv_cmt; nv_nl].
(** insert into a select x from b  /  insert into c (y) select x, * from a *)
Definition nv_i1 : stmt :=
  SInsert (None, "a") None (QSelect [IExpr (EColRef None "x") None] [RTable (None, "b") None] false None).
Definition nv_i2 : stmt :=
  SInsert (None, "c") (Some ["y"]) (QSelect [IExpr (EColRef None "x") None; IStar None] [RTable (None, "a") None] false None).

(** the hypotheses of [c05_tsql_no_semicolon] hold of a three-statement script with a REPEATED statement and
    blank + comment + newline at every gap; the statements are found, and both sides are [Ok] with two non-empty
    graphs that differ from each other *)
Example c05_tsql_nonvacuous :
  noise_ok nv_noise = true /\ p_truthy (e_provider tsql_env0) = false /\
  raw_determines (map (r_stmt nv_noise) [nv_i1; nv_i2; nv_i1]) /\
  show_list_statements (r_file_tsql nv_noise [nv_i1; nv_i2]) =
  "insert_statement:insert -- c
into -- c
a -- c
select -- c
x -- c
from -- c
b|insert_statement:insert -- c
into -- c
c -- c
( -- c
y -- c
) -- c
select -- c
x -- c
, -- c
* -- c
from -- c
a" /\
  (exists g1 g2 sess, run_tsql tsql_env0 false [] (r_file_tsql nv_noise [nv_i1; nv_i2; nv_i1]) = Ok ([g1; g2; g1], sess) /\
                      g1 <> g2 /\ g1 <> empty_graph /\ stmt_writes (Ok g2) = ["<default>.c"]).
Proof.
  split; [reflexivity|]. split; [reflexivity|]. split.
  - apply (nodupb_incl_raw_determines (map (r_stmt nv_noise) [nv_i1; nv_i2])); [vm_compute; reflexivity|].
    intros x Hx. cbn [map In] in *. tauto.
  - split; [vm_compute; reflexivity|].
    destruct (run_tsql tsql_env0 false [] (r_file_tsql nv_noise [nv_i1; nv_i2; nv_i1])) as [[gs sess]|err] eqn:E;
      vm_compute in E; [|discriminate E].
    injection E as E1 E2. subst gs.
    eexists. eexists. exists sess. split; [reflexivity|]. split; [discriminate|]. split; [discriminate|].
    vm_compute. reflexivity.
Qed.

(** layouts: semicolons, GO batches (one of them empty), ansi; the general layout with a stray top-level statement *)
Example layouts_nonvacuous :
  list_statements (r_file_tsql_semi nv_noise [nv_i1; nv_i2]) = Ok (map (r_stmt nv_noise) [nv_i1; nv_i2]) /\
  list_statements (r_file_tsql_go nv_noise [[nv_i1; nv_i2]; []; [nv_i1]]) = Ok (map (r_stmt nv_noise) [nv_i1; nv_i2; nv_i1]) /\
  list_statements (r_file_ansi nv_noise [nv_i1; nv_i2]) = Ok (map (r_stmt nv_noise) [nv_i1; nv_i2]) /\
  let l := [TOther nv_cmt; TBatch [BStmt (r_stmt [] nv_i1); BOther nv_nl; BOther go_stmt]; TOther nv_nl;
            TStmt (r_stmt [] nv_i2); TOther terminator; TOther eof] in
  layout_ok l = true /\ layout_stmts l = [r_stmt [] nv_i1; r_stmt [] nv_i2] /\
  show_list_statements (r_layout l) = "insert_statement:insertintoaselectxfromb|insert_statement:insertintoc(y)selectx,*froma".
Proof. repeat split; vm_compute; reflexivity. Qed.

(** cache: a repeated text is stored once (first position, last value) and every text is found *)
Example cache_nonvacuous :
  let segs := map (r_stmt []) [cx_q1; nv_i1; cx_q2] in
  map fst (build_cache segs []) = ["selectxfrombfromc"; "insertintoaselectxfromb"] /\
  dict_get "selectxfrombfromc" (build_cache segs []) = Some (r_stmt [] cx_q2) /\
  canonical segs (r_stmt [] cx_q1) = r_stmt [] cx_q2 /\ r_stmt [] cx_q1 <> r_stmt [] cx_q2.
Proof. cbn zeta. repeat split; try (vm_compute; reflexivity). vm_compute. discriminate. Qed.
