(** Lemma B, step 5d: WITH (one CTE) at column level.  See the summary at the end of the file. *)
From Coq Require Import Permutation Lia.
From SV Require Import Tree.Render Tree.LemmaA Tree.LemmaAProofs Tree.LemmaB Tree.LemmaBProofs Tree.LemmaB5a Tree.LemmaB5cPaths Tree.LemmaB5c
     Tree.LemmaB5dDefs Tree.LemmaB5dNav Tree.LemmaB5dReal Tree.LemmaB5dHolder Tree.LemmaB5dAlias Ident.Escape Ident.EscapeProofs Holder.PathProofs Holder.SortProofs.
Open Scope string_scope.
Open Scope list_scope.

(** the CTE's name is not read as a bare table inside its own definition *)
Definition cte_name_free (n : string) (from' : list rel) : Prop :=
  forall r, In r from' -> fst (rtref r) = None -> snd (rtref r) <> n.

(* ================================================================== *)
(** * the model side: the CTE referenced under its own name *)
Theorem model_pairs_one_cte noise e (s : stmt) t n items' from' cj' items cj :
  noise_ok noise = true -> env_ok e = true ->
  let q1 := cte_q1 items' from' cj' in
  let q := cte_q n None items' from' cj' items cj in
  (s = SInsert t None q \/ s = SCtas t q \/ s = SView t q) ->
  tref_ok t = true -> forallb item_ok items = true -> id_ok n = true -> iq_ok q1 = true -> cte_name_free n from' ->
  let d := tbl e t None in let ts' := map (tbl_of e) from' in
  let xs' := map xcol_of items' in let xs := map xcol_of items in
  let sq := cte_obj noise n None items' from' cj' items cj in
  group_ok d ts' -> ts_inj ts' -> names_nodot ts' ->
  (forall x, In x xs' -> xref_ok ts' x /\ nostar_x x) -> noqual ts' xs' ->
  (forall x, In x xs -> xref_ok [sq] x /\ nostar_x x) ->
  (forall x s0, In x xs -> In s0 (S_of [sq] x) -> exists x', In x' xs' /\ craw (xc x') = craw s0 /\ S_of ts' x' <> []) ->
  script_pairs e false [] [r_stmt noise s] =
  uniq_sorted (sort_strings (map flow_str (compose_flows (flows_of (S_of ts') (own_pairs sq xs')) (flows_of (S_of [sq]) (own_pairs d xs))))).
Proof.
  intros Hn He q1 q Hs Ht Hit Hnid Hq1 Hfree d ts' xs' xs sq Hgo Hinj Hnd Hxs' Hnq Hxs Hfed.
  set (e' := with_cols e (view_cols [] [])).
  assert (He' : env_ok e' = true) by exact He.
  pose proof Hq1 as Hq0. unfold q1, cte_q1 in Hq0. cbn [iq_ok] in Hq0. apply andb_true_iff in Hq0. destruct Hq0 as [Hq0 Hrel'].
  apply andb_true_iff in Hq0. destruct Hq0 as [Hit' Hne'].
  assert (Hne : from' <> []) by (destruct from'; [discriminate|discriminate]).
  assert (Hdo : Forall data_ok ts').
  { apply Forall_forall. intros v Hv. unfold data_ok. rewrite (go_tables _ _ Hgo v Hv).
    apply in_map_iff in Hv. destruct Hv as (r & <- & _). destruct r; reflexivity. }
  assert (Hxo' : Forall xcol_ok xs').
  { apply Forall_forall. intros x Hx. apply in_map_iff in Hx. destruct Hx as (i & <- & Hi). apply xcol_ok_of.
    rewrite forallb_forall in Hit'. apply Hit'. exact Hi. }
  assert (Hxo : Forall xcol_ok xs).
  { apply Forall_forall. intros x Hx. apply in_map_iff in Hx. destruct Hx as (i & <- & Hi). apply xcol_ok_of.
    rewrite forallb_forall in Hit. apply Hit. exact Hi. }
  assert (HdD : data_ok sq) by (unfold data_ok, sq, cte_obj, sqd, mk_subquery; cbn [dk dquery]; discriminate).
  destruct (cte_holders e' d sq ts' xs' xs He' eq_refl eq_refl eq_refl HdD Hgo Hinj Hnd Hdo Hxo' Hxo Hxs' Hxs)
    as (bsub & sh & Ebs & Esh & Hcte & HE & HN & LG & HC).
  assert (Ea : analyze e' false (r_stmt noise s) =
               Ok (compose (add_write empty_graph d) (compose (compose (add_cte (add_write empty_graph d) sq) bsub) (set_attr sh [NData sq] "write" false)))).
  { rewrite (analyze_cte noise Hn e' He' s t n None items' from' cj' items cj bsub Hs Ht Hnid I Hit' Hne Hrel' Hfree Hit Ebs Hcte).
    unfold cte_holder. change (map (tbl_of e') from') with ts'. fold xs'. change (tbl e' t None) with d. fold sq. rewrite Esh. reflexivity. }
  assert (Hxs0 : forall x, In x xs -> cparents (xc x) = []).
  { intros x Hx. exact (proj1 (proj1 (Hxs x Hx))). }
  assert (HNM : forall nm, In nm (unres_names ts' xs') -> exists x, In x xs' /\ In (Ucol ts' nm) (S_of ts' x)).
  { intros nm Hnm. unfold unres_names in Hnm.
    assert (Hns : forall (A : Type) (f : dataset -> A) (g : A), In nm (match ts' with [_] => [] | _ => [nm] end) -> match ts' with [d1] => f d1 | _ => g end = g).
    { intros A f g. destruct ts' as [|a0 [|b r]]; [reflexivity|intros []|reflexivity]. }
    assert (Hin : In nm (flat_map (fun x => match xsrc x with [(c, None)] => [c] | _ => [] end) xs') /\ In nm (match ts' with [_] => [] | _ => [nm] end)).
    { destruct ts' as [|a0 [|b r]]; [split; [exact Hnm|left; reflexivity]|destruct Hnm|split; [exact Hnm|left; reflexivity]]. }
    destruct Hin as [Hin Hsh]. apply in_flat_map in Hin. destruct Hin as (x & Hx & Hin). exists x. split; [exact Hx|].
    unfold S_of. destruct (xsrc x) as [|[c qq] rest]; [destruct Hin|]. destruct qq as [q0|]; [destruct Hin|].
    destruct rest as [|p r]; [|destruct Hin]. destruct Hin as [->|[]].
    rewrite (Hns _ _ _ Hsh). left. reflexivity. }
  assert (HNQ : forall x' s' nm v, In nm (unres_names ts' xs') -> In x' xs' -> In s' (S_of ts' x') -> cparents s' = [v] -> craw s' <> nm).
  { intros x' s' nm v Hnm Hx' Hs' Ev. unfold unres_names in Hnm.
    assert (Hm : In nm (flat_map (fun x => match xsrc x with [(c, None)] => [c] | _ => [] end) xs') /\ (forall d1, ts' <> [d1])).
    { destruct ts' as [|a0 [|b r]]; [split; [exact Hnm|discriminate]|destruct Hnm|split; [exact Hnm|discriminate]]. }
    destruct Hm as [Hin Hns]. apply in_flat_map in Hin. destruct Hin as (x & Hx & Hin).
    destruct (proj1 (Hxs' x Hx)) as (_ & c & qq & Ex & _ & Hq). rewrite Ex in Hin. destruct qq as [q0|]; [destruct Hin|]. destruct Hin as [->|[]].
    destruct Hq as [(d1 & Ed)|[Hmul _]]; [exfalso; exact (Hns d1 Ed)|].
    destruct (proj1 (Hxs' x' Hx')) as (_ & c' & qq' & Ex' & _ & Hq''). unfold S_of in Hs'. rewrite Ex' in Hs'. destruct qq' as [q0'|].
    + destruct Hq'' as (v' & Hv' & Eq' & Hu'). rewrite (find_dalias ts' q0' v' Hv' Eq' (fun w Hw E => Hu' w Hw (or_introl E))) in Hs'.
      destruct Hs' as [<-|[]]. cbn [craw]. apply (Hnq x x' nm c' q0' Hx Hx' Ex Ex' Hmul).
    + rewrite (multi_not_single ts' _ _ _ Hmul) in Hs'. destruct Hs' as [<-|[]].
      destruct (Ucol_props ts' c' Hinj) as (_ & _ & U3). destruct Hmul as (a0 & b & Ha0 & Hb & Hab).
      pose proof (two_members _ a0 b (proj2 (U3 a0) Ha0) (proj2 (U3 b) Hb) Hab) as Hl. rewrite Ev in Hl. cbn in Hl. lia. }
  destruct (realises_two_layer_abs d sq ts' xs' xs _ eq_refl eq_refl Hgo Hinj (fun x Hx => proj1 (Hxs' x Hx)) Hxs0 HNM HNQ Hfed HE HN LG HC) as (C2 & C3 & C4).
  apply (script_pairs_two_layer e (r_stmt noise s) _ _ _ Ea (proj1 (env_facts e He)) HC C2 C3 C4).
Qed.

(* ================================================================== *)
(** * the specification side (the CTE referenced under its name or under an alias [al]) *)
Definition cte_rname (n : string) (al : option string) : string := match al with Some a => a | None => n end.

Lemma spec_one_cte e (s : stmt) t n al items' from' cj' items cj :
  let q := cte_q n al items' from' cj' items cj in
  (s = SInsert t None q \/ s = SCtas t q \/ s = SView t q) ->
  forallb item_ok items' = true -> forallb rel_ok from' = true -> forallb plain_item items' = true ->
  tables_cond (e_cfg e) t from' -> items_cond from' items' ->
  outer_cond (cte_rname n al) items items' ->
  let ts' := map (tbl_of e) from' in let tstr := tref_str (e_cfg e) t in
  forall z, In z (map (fun p => (show_src (fst p) ++ ">" ++ snd p)%string) (spec_flows (e_cfg e) s)) <->
            exists i i' s', In i items /\ In i' items' /\ item_name i' = fst (item_ref i) /\ In s' (S_of ts' (xcol_of i')) /\
                            z = (src_str (NCol s') ++ ">" ++ tstr ++ "." ++ item_name i)%string.
Proof.
  intros q Hs Hit' Hrel' Hpl' Htc Hic Hout ts' tstr z.
  assert (Hrt' : forallb is_rtable from' = true).
  { rewrite forallb_forall in *. intros r Hr. apply rel_ok_table. apply Hrel'. exact Hr. }
  rewrite forallb_forall in Hit', Hpl'.
  set (ds := e_cfg e). set (scope_in := map (sbind ds) from').
  set (cols_in := flat_map (item_cols scope_in) items').
  set (CANDS := map (fun r => tref_str ds (rtref r)) from').
  assert (Hinner : forall i', In i' items' -> exists SR, item_cols scope_in i' = [(item_name i', SR)] /\
                     map show_src SR = map (fun s0 => src_str (NCol s0)) (S_of ts' (xcol_of i')) /\ forall sr, In sr SR -> src_cands CANDS sr).
  { intros i' Hi'. apply (item_corr_src e t from' i' Hrel' (Hit' i' Hi') (Hpl' i' Hi') Htc (Hic i' Hi')). }
  assert (Hcands : forall c sr, In sr (lookup_col c cols_in) -> src_cands CANDS sr).
  { intros c sr Hsr. unfold lookup_col in Hsr. apply in_flat_map in Hsr. destruct Hsr as (cs & Hcs & Hsr).
    unfold cols_in in Hcs. apply in_flat_map in Hcs. destruct Hcs as (i' & Hi' & Hcs). destruct (Hinner i' Hi') as (SR & E1 & _ & E3).
    rewrite E1 in Hcs. destruct Hcs as [<-|[]]. cbn [fst snd] in Hsr. destruct (String.eqb (item_name i') c); [|destruct Hsr]. apply E3. exact Hsr. }
  assert (Eqc : q_cols (S (q_size q)) ds [] q =
                flat_map (fun i => [(item_name i, dedup_src (lookup_col (fst (item_ref i)) cols_in) [])]) items).
  { assert (Ek : exists k0, q_size q = S k0) by (eexists; reflexivity). destruct Ek as (k0 & Ek). rewrite Ek.
    set (bnd := {| b_alias := al; b_names := match al with Some _ => [] | None => [n] end; b_rel := RelCols cols_in |}).
    assert (E1 : q_cols (S (S k0)) ds [] q = flat_map (item_cols [bnd]) items).
    { assert (W : q_cols (S (S k0)) ds [] q = q_cols (S k0) ds [(n, q_cols (S k0) ds [] (cte_q1 items' from' cj'))] (cte_q2 n al items cj)) by reflexivity.
      rewrite W. unfold cte_q1 at 1. rewrite (q_cols_select k0 ds items' from' cj' None Hrt'). fold scope_in cols_in.
      assert (W2 : forall ctes, q_cols (S k0) ds ctes (cte_q2 n al items cj) =
                   flat_map (item_cols [match assoc_s n ctes with
                                        | Some cols => {| b_alias := al; b_names := match al with Some _ => [] | None => [n] end; b_rel := RelCols cols |}
                                        | None => {| b_alias := al; b_names := match al with Some _ => [] | None => [n; tref_str ds (None, n)] end;
                                                     b_rel := RelBase (tref_str ds (None, n)) |}
                                        end]) items) by (intros ctes; reflexivity).
      rewrite W2. cbn [assoc_s]. rewrite String.eqb_refl. reflexivity. }
    rewrite E1. apply flat_map_ext_in'. intros i Hi. destruct (Hout i Hi) as (Hp & Hq & _).
    destruct i as [[qq c| | | | | |] al0|qq]; cbn [plain_item] in Hp; try discriminate. cbn [item_ref fst snd item_name] in *.
    cbn [item_cols col_refs flat_map app]. rewrite app_nil_r.
    assert (Er : resolve [bnd] (qq, c) = lookup_col c cols_in).
    { unfold resolve. cbn [fst snd]. destruct Hq as [-> | ->]; [reflexivity|]. unfold find_binding, bnd, cte_rname.
      destruct al as [a|]; cbn [filter b_alias b_names mem_string]; rewrite String.eqb_refl; reflexivity. }
    rewrite Er. destruct al0; reflexivity. }
  assert (Esf : map (fun p => (show_src (fst p) ++ ">" ++ snd p)%string) (spec_flows ds s) =
                flat_map (fun i => map (fun sr => (show_src sr ++ ">" ++ tstr ++ "." ++ item_name i)%string)
                                       (dedup_src (lookup_col (fst (item_ref i)) cols_in) [])) items).
  { assert (E : spec_flows ds s = flat_map (fun c : colspec => map (fun sr => (sr, (tstr ++ "." ++ fst c)%string)) (snd c)) (q_cols (S (q_size q)) ds [] q)).
    { destruct Hs as [->|[->| ->]]; unfold spec_flows; fold q; [apply combine_names_flows|reflexivity|reflexivity]. }
    rewrite E, Eqc, flat_map_flat_map, map_flat_map'. apply flat_map_ext. intros i. cbn [flat_map fst snd]. rewrite app_nil_r, map_map. reflexivity. }
  fold ds. rewrite Esf. split.
  - intros H. apply in_flat_map in H. destruct H as (i & Hi & H). apply in_map_iff in H. destruct H as (sr & <- & Hsr).
    assert (Hz : In (show_src sr) (map show_src (lookup_col (fst (item_ref i)) cols_in))).
    { apply (dedup_src_strs CANDS _ _ (Hcands _)). apply in_map. exact Hsr. }
    apply in_map_iff in Hz. destruct Hz as (sr0 & Esr0 & Hsr0). unfold lookup_col in Hsr0. apply in_flat_map in Hsr0.
    destruct Hsr0 as (cs & Hcs & Hsr0). unfold cols_in in Hcs. apply in_flat_map in Hcs. destruct Hcs as (i' & Hi' & Hcs).
    destruct (Hinner i' Hi') as (SR & E1 & E2 & E3). rewrite E1 in Hcs. destruct Hcs as [<-|[]]. cbn [fst snd] in Hsr0.
    destruct (String.eqb (item_name i') (fst (item_ref i))) eqn:En; [|destruct Hsr0]. apply String.eqb_eq in En.
    assert (Hz0 : In (show_src sr0) (map (fun s0 => src_str (NCol s0)) (S_of ts' (xcol_of i')))) by (rewrite <- E2; apply in_map; exact Hsr0).
    apply in_map_iff in Hz0. destruct Hz0 as (s' & Es' & Hs'). exists i, i', s'. repeat (split; [assumption|]). rewrite Es', Esr0. reflexivity.
  - intros (i & i' & s' & Hi & Hi' & En & Hs' & ->). apply in_flat_map. exists i. split; [exact Hi|].
    destruct (Hinner i' Hi') as (SR & E1 & E2 & E3).
    assert (Hz : In (src_str (NCol s')) (map show_src (lookup_col (fst (item_ref i)) cols_in))).
    { assert (Hz0 : In (src_str (NCol s')) (map show_src SR)) by (rewrite E2; apply in_map_iff; exists s'; auto).
      apply in_map_iff in Hz0. destruct Hz0 as (sr & Esr & Hsr). apply in_map_iff. exists sr. split; [exact Esr|].
      unfold lookup_col. apply in_flat_map. exists (item_name i', SR). split.
      - unfold cols_in. apply in_flat_map. exists i'. split; [exact Hi'|]. rewrite E1. left. reflexivity.
      - cbn [fst snd]. rewrite En, String.eqb_refl. exact Hsr. }
    apply (dedup_src_strs CANDS _ _ (Hcands _)) in Hz. apply in_map_iff in Hz. destruct Hz as (sr & Esr & Hsr).
    apply in_map_iff. exists sr. split; [rewrite Esr; reflexivity|exact Hsr].
Qed.

(** the composed flows of the model, as strings *)
Lemma model_strs_cte e t (sq : dataset) (So : xcol -> list column) items items' from' :
  dk sq = KSubq -> forallb item_ok items = true -> forallb item_ok items' = true ->
  (forall i, In i items -> So (xcol_of i) = [{| craw := fst (item_ref i); cparents := [sq] |}]) ->
  let d := tbl e t None in let ts' := map (tbl_of e) from' in let tstr := tref_str (e_cfg e) t in
  forall z,
    In z (map flow_str (compose_flows (flows_of (S_of ts') (own_pairs sq (map xcol_of items'))) (flows_of So (own_pairs d (map xcol_of items))))) <->
    exists i i' s', In i items /\ In i' items' /\ item_name i' = fst (item_ref i) /\ In s' (S_of ts' (xcol_of i')) /\
                    z = (src_str (NCol s') ++ ">" ++ tstr ++ "." ++ item_name i)%string.
Proof.
  intros Hks Hit Hit' HSo d ts' tstr z. rewrite forallb_forall in Hit, Hit'.
  assert (Hown : forall (dd : dataset) i0, item_ok i0 = true -> own_col dd (xcol_of i0) = {| craw := item_name i0; cparents := [dd] |}).
  { intros dd i0 Hi0. destruct (xcol_of_facts i0 Hi0) as (F1 & _). rewrite own_col_eq; rewrite F1; reflexivity. }
  assert (Hceq : forall n c, col_eqb {| craw := n; cparents := [sq] |} {| craw := c; cparents := [sq] |} = true <-> n = c).
  { intros n c. unfold col_eqb, col_str, col_parent. cbn [cparents craw opt_dataset_eqb]. rewrite Hks, dataset_eqb_refl, andb_true_r.
    rewrite String.eqb_eq. split; [intros E; apply append_cancel in E; apply append_cancel in E; exact E|intros ->; reflexivity]. }
  assert (Hmid : forall c, is_mid {| craw := c; cparents := [sq] |} = true).
  { intros c. unfold is_mid. cbn [parent_is col_parent cparents]. rewrite Hks. reflexivity. }
  split.
  - intros H. apply in_map_iff in H. destruct H as (ff & <- & H). unfold compose_flows in H. apply in_flat_map in H.
    destruct H as (fo & Hfo & H). apply flows_of_In in Hfo. destruct Hfo as (p & s0 & Hp & Hs0 & ->).
    unfold own_pairs in Hp. apply in_map_iff in Hp. destruct Hp as (x & <- & Hx). apply in_map_iff in Hx. destruct Hx as (i & <- & Hi).
    cbn [fst snd] in *. rewrite (HSo i Hi) in Hs0. destruct Hs0 as [<-|[]].
    rewrite Hmid in H. apply in_map_iff in H. destruct H as (fi & <- & H). apply filter_In in H. destruct H as [Hfi Ec].
    apply flows_of_In in Hfi. destruct Hfi as (p' & s' & Hp' & Hs' & ->). unfold own_pairs in Hp'. apply in_map_iff in Hp'.
    destruct Hp' as (x' & <- & Hx'). apply in_map_iff in Hx'. destruct Hx' as (i' & <- & Hi'). cbn [fst snd] in *.
    rewrite (Hown sq i' (Hit' i' Hi')) in Ec. apply Hceq in Ec.
    exists i, i', s'. repeat (split; [assumption|]). unfold flow_str. cbn [fst snd]. rewrite (Hown d i (Hit i Hi)). reflexivity.
  - intros (i & i' & s' & Hi & Hi' & En & Hs' & ->). apply in_map_iff. exists (s', own_col d (xcol_of i)). split.
    + unfold flow_str. cbn [fst snd]. rewrite (Hown d i (Hit i Hi)). reflexivity.
    + unfold compose_flows. apply in_flat_map. exists ({| craw := fst (item_ref i); cparents := [sq] |}, own_col d (xcol_of i)). split.
      * apply flows_of_In. exists (xcol_of i, own_col d (xcol_of i)), {| craw := fst (item_ref i); cparents := [sq] |}.
        split; [unfold own_pairs; apply in_map_iff; exists (xcol_of i); split; [reflexivity|apply in_map; exact Hi]|]. cbn [fst snd].
        rewrite (HSo i Hi). split; [left; reflexivity|reflexivity].
      * cbn [fst snd]. rewrite Hmid.
        apply in_map_iff. exists (s', own_col sq (xcol_of i')). split; [reflexivity|]. apply filter_In. split.
        -- apply flows_of_In. exists (xcol_of i', own_col sq (xcol_of i')), s'. split; [unfold own_pairs; apply in_map_iff; exists (xcol_of i'); split; [reflexivity|apply in_map; exact Hi']|]. auto.
        -- cbn [snd fst]. rewrite (Hown sq i' (Hit' i' Hi')). apply Hceq. exact En.
Qed.

(* ================================================================== *)
(** * Lemma B for one CTE referenced under its own name *)
Theorem lemma_B_one_cte_named noise e (s : stmt) t n items' from' cj' items cj :
  noise_ok noise = true -> env_ok e = true ->
  let q1 := cte_q1 items' from' cj' in
  let q := cte_q n None items' from' cj' items cj in
  (s = SInsert t None q \/ s = SCtas t q \/ s = SView t q) ->
  tref_ok t = true -> forallb item_ok items = true -> id_ok n = true -> iq_ok q1 = true -> cte_name_free n from' ->
  forallb plain_item items' = true ->
  tables_cond (e_cfg e) t from' -> items_cond from' items' -> noqual_items from' items' ->
  outer_cond n items items' ->
  script_pairs e false [] [r_stmt noise s] = spec_pairs (e_cfg e) s.
Proof.
  intros Hn He q1 q Hs Ht Hit Hnid Hq1 Hfree Hpl' Htc Hic Hnq Hout.
  pose proof Hq1 as Hq0. unfold q1, cte_q1 in Hq0. cbn [iq_ok] in Hq0. apply andb_true_iff in Hq0. destruct Hq0 as [Hq0 Hrel'].
  apply andb_true_iff in Hq0. destruct Hq0 as [Hit' Hne'].
  set (d := tbl e t None). set (ts' := map (tbl_of e) from'). set (sq := cte_obj noise n None items' from' cj' items cj).
  assert (Hal : dalias sq = n) by (unfold sq, cte_obj, sqd, mk_subquery; cbn [dalias]; apply id_ok_escape; exact Hnid).
  pose proof Hit as Hit0. pose proof Hit' as Hit0'. rewrite forallb_forall in Hit, Hit', Hpl'.
  assert (HSo : forall i, In i items -> S_of [sq] (xcol_of i) = [{| craw := fst (item_ref i); cparents := [sq] |}]).
  { intros i Hi. destruct (Hout i Hi) as (_ & Hq & _). exact (S_of_outer sq n i (Hit i Hi) Hal Hq). }
  rewrite (model_pairs_one_cte noise e s t n items' from' cj' items cj Hn He Hs Ht Hit0 Hnid Hq1 Hfree
             (group_ok_of e t from' Hrel' Htc) (ts_inj_of e t from' Hrel' Htc) (names_nodot_of e from' Hrel')).
  2:{ intros x Hx. split; [apply (xref_ok_of e t from' items' Hrel' Hit0' Htc Hic x Hx)|].
      apply in_map_iff in Hx. destruct Hx as (i & <- & Hi). apply nostar_of; auto. }
  2:{ apply noqual_of; [exact Hit0'|exact Hnq]. }
  2:{ intros x Hx. apply in_map_iff in Hx. destruct Hx as (i & <- & Hi). destruct (Hout i Hi) as (Hp & Hq & _).
      split; [|apply nostar_of; auto]. destruct (xcol_of_facts i (Hit i Hi)) as (F1 & F2 & F3 & F4).
      split; [rewrite F1; reflexivity|]. exists (fst (item_ref i)), (snd (item_ref i)). split; [rewrite F2; destruct (item_ref i); reflexivity|].
      split; [exact F3|]. fold sq. destruct Hq as [-> | ->]; [left; exists sq; reflexivity|].
      exists sq. split; [left; reflexivity|]. split; [exact Hal|]. intros w [<-|[]] _. reflexivity. }
  2:{ intros x s0 Hx Hs0. apply in_map_iff in Hx. destruct Hx as (i & <- & Hi). destruct (Hout i Hi) as (Hp & Hq & Hin).
      fold sq in Hs0. rewrite (HSo i Hi) in Hs0. destruct Hs0 as [<-|[]]. cbn [craw].
      apply in_map_iff in Hin. destruct Hin as (i' & En & Hi'). exists (xcol_of i'). split; [apply in_map; exact Hi'|].
      destruct (xcol_of_facts i' (Hit' i' Hi')) as (F1 & _). split; [rewrite F1; exact En|].
      apply xref_ok_nonempty. apply (xref_ok_of e t from' items' Hrel' Hit0' Htc Hic). apply in_map. exact Hi'. }
  fold d ts' sq. unfold spec_pairs. apply us_ext. intros z.
  etransitivity; [exact (model_strs_cte e t sq (S_of [sq]) items items' from' eq_refl Hit0 Hit0' HSo z)|].
  symmetry. exact (spec_one_cte e s t n None items' from' cj' items cj Hs Hit0' Hrel' (proj2 (forallb_forall _ _) Hpl') Htc Hic Hout z).
Qed.
Print Assumptions lemma_B_one_cte_named.

(* ================================================================== *)
(** * the CTE referenced under an alias *)
Theorem model_pairs_one_cte_alias noise e (s : stmt) t n a items' from' cj' items cj :
  noise_ok noise = true -> env_ok e = true ->
  let q1 := cte_q1 items' from' cj' in
  let q := cte_q n (Some a) items' from' cj' items cj in
  (s = SInsert t None q \/ s = SCtas t q \/ s = SView t q) ->
  tref_ok t = true -> forallb item_ok items = true -> id_ok n = true -> id_ok a = true -> iq_ok q1 = true -> cte_name_free n from' ->
  let d := tbl e t None in let ts' := map (tbl_of e) from' in
  let xs' := map xcol_of items' in let xs := map xcol_of items in
  let sq := cte_obj noise n (Some a) items' from' cj' items cj in
  group_ok d ts' -> ts_inj ts' -> names_nodot ts' ->
  (forall x, In x xs' -> xref_ok ts' x /\ nostar_x x) -> noqual ts' xs' ->
  (forall x, In x xs -> xa_ok a x) ->
  (forall x s0, In x xs -> In s0 (Sa sq x) -> exists x', In x' xs' /\ craw (xc x') = craw s0 /\ S_of ts' x' <> []) ->
  script_pairs e false [] [r_stmt noise s] =
  uniq_sorted (sort_strings (map flow_str (compose_flows (flows_of (S_of ts') (own_pairs sq xs')) (flows_of (Sa sq) (own_pairs d xs))))).
Proof.
  intros Hn He q1 q Hs Ht Hit Hnid Haid Hq1 Hfree d ts' xs' xs sq Hgo Hinj Hnd Hxs' Hnq Hxs Hfed.
  set (e' := with_cols e (view_cols [] [])).
  assert (He' : env_ok e' = true) by exact He.
  pose proof Hq1 as Hq0. unfold q1, cte_q1 in Hq0. cbn [iq_ok] in Hq0. apply andb_true_iff in Hq0. destruct Hq0 as [Hq0 Hrel'].
  apply andb_true_iff in Hq0. destruct Hq0 as [Hit' Hne'].
  assert (Hne : from' <> []) by (destruct from'; [discriminate|discriminate]).
  assert (Hdo : Forall data_ok ts').
  { apply Forall_forall. intros v Hv. unfold data_ok. rewrite (go_tables _ _ Hgo v Hv).
    apply in_map_iff in Hv. destruct Hv as (r & <- & _). destruct r; reflexivity. }
  assert (Hxo' : Forall xcol_ok xs').
  { apply Forall_forall. intros x Hx. apply in_map_iff in Hx. destruct Hx as (i & <- & Hi). apply xcol_ok_of.
    rewrite forallb_forall in Hit'. apply Hit'. exact Hi. }
  assert (Hxo : Forall xcol_ok xs).
  { apply Forall_forall. intros x Hx. apply in_map_iff in Hx. destruct Hx as (i & <- & Hi). apply xcol_ok_of.
    rewrite forallb_forall in Hit. apply Hit. exact Hi. }
  set (rd := mk_subquery (r_brq noise (q_size q) (cte_q1 items' from' cj')) (Some a)).
  assert (HdD : data_ok sq) by (unfold data_ok, sq, cte_obj, sqd, mk_subquery; cbn [dk dquery]; discriminate).
  assert (Hdr : data_ok rd) by (unfold data_ok, rd, mk_subquery; cbn [dk dquery]; discriminate).
  assert (Heq : dataset_eqb rd sq = true).
  { unfold rd, sq, cte_obj, sqd, mk_subquery, dataset_eqb. cbn [dk deq dkind_beq andb]. apply String.eqb_refl. }
  assert (Hal : dalias rd = a) by (unfold rd, mk_subquery; cbn [dalias]; apply id_ok_escape; exact Haid).
  destruct (cte_holders_alias e' d sq rd a ts' xs' xs He' eq_refl eq_refl eq_refl HdD eq_refl Hdr Heq Hal Hgo Hinj Hnd Hdo Hxo' Hxo Hxs' Hxs)
    as (bsub & sh & Ebs & Esh & Hcte & HE & HN & LG & HC).
  assert (Ea : analyze e' false (r_stmt noise s) =
               Ok (compose (add_write empty_graph d) (compose (compose (add_cte (add_write empty_graph d) sq) bsub) (set_attr sh [NData sq] "write" false)))).
  { rewrite (analyze_cte noise Hn e' He' s t n (Some a) items' from' cj' items cj bsub Hs Ht Hnid Haid Hit' Hne Hrel' Hfree Hit Ebs Hcte).
    unfold cte_holder. change (map (tbl_of e') from') with ts'. fold xs'. change (tbl e' t None) with d. fold sq. rewrite Esh. reflexivity. }
  assert (Hxs0 : forall x, In x xs -> cparents (xc x) = []) by (intros x Hx; exact (proj1 (Hxs x Hx))).
  assert (HSo : forall x s0, In x xs -> In s0 (Sa sq x) -> cparents s0 = [sq]).
  { intros x s0 _ Hs0. unfold Sa in Hs0. destruct (xsrc x) as [|[c qq] [|p r]]; [destruct Hs0| |destruct Hs0]. destruct Hs0 as [<-|[]]. reflexivity. }
  assert (HNM : forall nm, In nm (unres_names ts' xs') -> exists x, In x xs' /\ In (Ucol ts' nm) (S_of ts' x)).
  { intros nm Hnm. unfold unres_names in Hnm.
    assert (Hns : forall (A : Type) (f : dataset -> A) (g : A), In nm (match ts' with [_] => [] | _ => [nm] end) -> match ts' with [d1] => f d1 | _ => g end = g).
    { intros A f g. destruct ts' as [|a0 [|b r]]; [reflexivity|intros []|reflexivity]. }
    assert (Hin : In nm (flat_map (fun x => match xsrc x with [(c, None)] => [c] | _ => [] end) xs') /\ In nm (match ts' with [_] => [] | _ => [nm] end)).
    { destruct ts' as [|a0 [|b r]]; [split; [exact Hnm|left; reflexivity]|destruct Hnm|split; [exact Hnm|left; reflexivity]]. }
    destruct Hin as [Hin Hsh]. apply in_flat_map in Hin. destruct Hin as (x & Hx & Hin). exists x. split; [exact Hx|].
    unfold S_of. destruct (xsrc x) as [|[c qq] rest]; [destruct Hin|]. destruct qq as [q0|]; [destruct Hin|].
    destruct rest as [|p r]; [|destruct Hin]. destruct Hin as [->|[]].
    rewrite (Hns _ _ _ Hsh). left. reflexivity. }
  assert (HNQ : forall x' s' nm v, In nm (unres_names ts' xs') -> In x' xs' -> In s' (S_of ts' x') -> cparents s' = [v] -> craw s' <> nm).
  { intros x' s' nm v Hnm Hx' Hs' Ev. unfold unres_names in Hnm.
    assert (Hm : In nm (flat_map (fun x => match xsrc x with [(c, None)] => [c] | _ => [] end) xs') /\ (forall d1, ts' <> [d1])).
    { destruct ts' as [|a0 [|b r]]; [split; [exact Hnm|discriminate]|destruct Hnm|split; [exact Hnm|discriminate]]. }
    destruct Hm as [Hin Hns]. apply in_flat_map in Hin. destruct Hin as (x & Hx & Hin).
    destruct (proj1 (Hxs' x Hx)) as (_ & c & qq & Ex & _ & Hq). rewrite Ex in Hin. destruct qq as [q0|]; [destruct Hin|]. destruct Hin as [->|[]].
    destruct Hq as [(d1 & Ed)|[Hmul _]]; [exfalso; exact (Hns d1 Ed)|].
    destruct (proj1 (Hxs' x' Hx')) as (_ & c' & qq' & Ex' & _ & Hq''). unfold S_of in Hs'. rewrite Ex' in Hs'. destruct qq' as [q0'|].
    + destruct Hq'' as (v' & Hv' & Eq' & Hu'). rewrite (find_dalias ts' q0' v' Hv' Eq' (fun w Hw E => Hu' w Hw (or_introl E))) in Hs'.
      destruct Hs' as [<-|[]]. cbn [craw]. apply (Hnq x x' nm c' q0' Hx Hx' Ex Ex' Hmul).
    + rewrite (multi_not_single ts' _ _ _ Hmul) in Hs'. destruct Hs' as [<-|[]].
      destruct (Ucol_props ts' c' Hinj) as (_ & _ & U3). destruct Hmul as (a0 & b & Ha0 & Hb & Hab).
      pose proof (two_members _ a0 b (proj2 (U3 a0) Ha0) (proj2 (U3 b) Hb) Hab) as Hl. rewrite Ev in Hl. cbn in Hl. lia. }
  destruct (realises_two_layer_abs2 d sq ts' xs' xs (Sa sq) [(rd, a)] _ eq_refl eq_refl Hgo Hinj (fun x Hx => proj1 (Hxs' x Hx)) Hxs0 HSo HNM HNQ Hfed HE HN LG HC) as (C2 & C3 & C4).
  apply (script_pairs_two_layer e (r_stmt noise s) _ _ _ Ea (proj1 (env_facts e He)) HC C2 C3 C4).
Qed.

(** what the body may select under the alias [a]: columns of the CTE, by the alias or unqualified *)
Theorem lemma_B_one_cte_aliased noise e (s : stmt) t n a items' from' cj' items cj :
  noise_ok noise = true -> env_ok e = true ->
  let q1 := cte_q1 items' from' cj' in
  let q := cte_q n (Some a) items' from' cj' items cj in
  (s = SInsert t None q \/ s = SCtas t q \/ s = SView t q) ->
  tref_ok t = true -> forallb item_ok items = true -> id_ok n = true -> id_ok a = true -> iq_ok q1 = true -> cte_name_free n from' ->
  forallb plain_item items' = true ->
  tables_cond (e_cfg e) t from' -> items_cond from' items' -> noqual_items from' items' ->
  outer_cond a items items' ->
  script_pairs e false [] [r_stmt noise s] = spec_pairs (e_cfg e) s.
Proof.
  intros Hn He q1 q Hs Ht Hit Hnid Haid Hq1 Hfree Hpl' Htc Hic Hnq Hout.
  pose proof Hq1 as Hq0. unfold q1, cte_q1 in Hq0. cbn [iq_ok] in Hq0. apply andb_true_iff in Hq0. destruct Hq0 as [Hq0 Hrel'].
  apply andb_true_iff in Hq0. destruct Hq0 as [Hit' Hne'].
  set (d := tbl e t None). set (ts' := map (tbl_of e) from'). set (sq := cte_obj noise n (Some a) items' from' cj' items cj).
  pose proof Hit as Hit0. pose proof Hit' as Hit0'. rewrite forallb_forall in Hit, Hit', Hpl'.
  assert (HSo : forall i, In i items -> Sa sq (xcol_of i) = [{| craw := fst (item_ref i); cparents := [sq] |}]).
  { intros i Hi. destruct (xcol_of_facts i (Hit i Hi)) as (_ & F2 & _). unfold Sa. rewrite F2. destruct (item_ref i). reflexivity. }
  rewrite (model_pairs_one_cte_alias noise e s t n a items' from' cj' items cj Hn He Hs Ht Hit0 Hnid Haid Hq1 Hfree
             (group_ok_of e t from' Hrel' Htc) (ts_inj_of e t from' Hrel' Htc) (names_nodot_of e from' Hrel')).
  2:{ intros x Hx. split; [apply (xref_ok_of e t from' items' Hrel' Hit0' Htc Hic x Hx)|].
      apply in_map_iff in Hx. destruct Hx as (i & <- & Hi). apply nostar_of; auto. }
  2:{ apply noqual_of; [exact Hit0'|exact Hnq]. }
  2:{ intros x Hx. apply in_map_iff in Hx. destruct Hx as (i & <- & Hi). destruct (Hout i Hi) as (Hp & Hq & _).
      destruct (nostar_of i (Hit i Hi) Hp) as [N1 N2]. destruct (xcol_of_facts i (Hit i Hi)) as (F1 & F2 & F3 & F4).
      split; [rewrite F1; reflexivity|]. split; [exact N1|]. exists (fst (item_ref i)), (snd (item_ref i)).
      split; [rewrite F2; destruct (item_ref i); reflexivity|]. split; [exact F3|]. split; [|exact Hq].
      apply (N2 (fst (item_ref i)) (snd (item_ref i))). rewrite F2. destruct (item_ref i). left. reflexivity. }
  2:{ intros x s0 Hx Hs0. apply in_map_iff in Hx. destruct Hx as (i & <- & Hi). destruct (Hout i Hi) as (Hp & Hq & Hin).
      fold sq in Hs0. rewrite (HSo i Hi) in Hs0. destruct Hs0 as [<-|[]]. cbn [craw].
      apply in_map_iff in Hin. destruct Hin as (i' & En & Hi'). exists (xcol_of i'). split; [apply in_map; exact Hi'|].
      destruct (xcol_of_facts i' (Hit' i' Hi')) as (F1 & _). split; [rewrite F1; exact En|].
      apply xref_ok_nonempty. apply (xref_ok_of e t from' items' Hrel' Hit0' Htc Hic). apply in_map. exact Hi'. }
  fold d ts' sq. unfold spec_pairs. apply us_ext. intros z.
  etransitivity; [exact (model_strs_cte e t sq (Sa sq) items items' from' eq_refl Hit0 Hit0' HSo z)|].
  symmetry. exact (spec_one_cte e s t n (Some a) items' from' cj' items cj Hs Hit0' Hrel' (proj2 (forallb_forall _ _) Hpl') Htc Hic Hout z).
Qed.
Print Assumptions lemma_B_one_cte_aliased.

(* ================================================================== *)
(** * the executable guard, the theorem, instances *)
Definition cte_name_freeb (n : string) (from' : list rel) : bool :=
  forallb (fun r => match fst (rtref r) with None => negb (String.eqb (snd (rtref r)) n) | Some _ => true end) from'.

Lemma cte_name_freeb_ok n from' : cte_name_freeb n from' = true -> cte_name_free n from'.
Proof.
  intros H r Hr E K. unfold cte_name_freeb in H. rewrite forallb_forall in H. specialize (H r Hr). rewrite E, K, String.eqb_refl in H. discriminate.
Qed.

Definition cte_guard (t : tref) (n : string) (al : option string) (items' : list item) (from' : list rel) (cj' : bool) (items : list item) : bool :=
  tref_ok t && forallb item_ok items && id_ok n && match al with Some a => id_ok a | None => true end
  && iq_ok (QSelect items' from' cj' None) && cte_name_freeb n from' && forallb plain_item items'
  && tables_condb t from' && items_condb from' items' && noqual_itemsb from' items' && outer_condb (cte_rname n al) items items'.

(** INSERT (no column list) / CTAS / VIEW over WITH n AS (SELECT plain columns FROM distinct base tables)
    SELECT columns FROM n [AS a], the outer columns written n.col / a.col / col *)
Definition one_cte_shape (s : stmt) : bool :=
  match s with
  | SInsert t None (QWith n (QSelect items' from' cj' None) (QSelect items [RTable (None, m) al] _ None))
  | SCtas t (QWith n (QSelect items' from' cj' None) (QSelect items [RTable (None, m) al] _ None))
  | SView t (QWith n (QSelect items' from' cj' None) (QSelect items [RTable (None, m) al] _ None)) =>
      String.eqb m n && cte_guard t n al items' from' cj' items
  | _ => false
  end.

Theorem lemma_B_one_cte : forall noise e s,
  noise_ok noise = true -> env_ok e = true -> one_cte_shape s = true ->
  script_pairs e false [] [r_stmt noise s] = spec_pairs (e_cfg e) s.
Proof.
  intros noise e s Hn He Hsh.
  assert (K : exists t n al items' from' cj' items cj,
            (s = SInsert t None (cte_q n al items' from' cj' items cj) \/ s = SCtas t (cte_q n al items' from' cj' items cj) \/
             s = SView t (cte_q n al items' from' cj' items cj)) /\ cte_guard t n al items' from' cj' items = true).
  { destruct s as [t [cs|] q|t q|t q|q|kind]; cbn [one_cte_shape] in Hsh; try discriminate;
      destruct q as [| |n c b]; try discriminate;
      destruct c as [items' from' cj' [wh'|]| |]; try discriminate;
      destruct b as [items [|[[[sch|] m] al| |] [|]] cj [wh|]| |]; try discriminate;
      apply andb_true_iff in Hsh; destruct Hsh as [Em Hg]; apply String.eqb_eq in Em; subst m;
      exists t, n, al, items', from', cj', items, cj; (split; [auto|exact Hg]). }
  destruct K as (t & n & al & items' & from' & cj' & items & cj & Hs & H). unfold cte_guard in H.
  do 10 (apply andb_true_iff in H; let H' := fresh "G" in destruct H as [H H']).
  pose proof G5 as Hq'. cbn [iq_ok] in G5. apply andb_true_iff in G5. destruct G5 as [_ Hrel'].
  destruct al as [a|].
  - apply (lemma_B_one_cte_aliased noise e s t n a items' from' cj' items cj Hn He Hs); auto.
    + apply cte_name_freeb_ok. assumption.
    + apply tables_condb_ok; assumption.
    + apply items_condb_ok. assumption.
    + apply noqual_itemsb_ok. assumption.
    + apply outer_condb_ok. assumption.
  - apply (lemma_B_one_cte_named noise e s t n items' from' cj' items cj Hn He Hs); auto.
    + apply cte_name_freeb_ok. assumption.
    + apply tables_condb_ok; assumption.
    + apply items_condb_ok. assumption.
    + apply noqual_itemsb_ok. assumption.
    + apply outer_condb_ok. assumption.
Qed.
Print Assumptions lemma_B_one_cte.

(** SUMMARY (step 5d, WITH)
    - Tested first: [lemma_B_check] on 23 instances (LemmaB5dTests.v): no "FAILS" inside the guards.  The star over a CTE
      (K-C02-9) and a column the CTE lacks fail only outside [colshape]; two CTEs are outside [sshape]; a CTE named like
      a table read in its own definition is outside [stmt_ok].  No refutation.
    - PROVED: [lemma_B_one_cte]: INSERT without column list / CTAS / VIEW over
         WITH n AS (SELECT plain columns FROM distinct base tables) SELECT columns FROM n [AS a]
      under the executable guard [one_cte_shape] (on the syntax; the conditions of steps 1-4 for the definition, the name
      [n] not read as a bare table inside it, the outer items n.col / a.col / col naming output columns of the CTE).
      The CTE may have item aliases, joins, unresolved columns, dead-end columns, duplicate output names.
      [lemma_B_one_cte_named] / [lemma_B_one_cte_aliased] are the two cases from conditions as propositions.
    - How: the statement holder is [compose gI (compose (compose (add_cte gI D) body) (definition, write tag removed))]
      (LemmaB5dNav.v [analyze_cte]: INSERT wrapper, XCte, the body delegated BEFORE the definition is extracted);
      the definition writes to the SubQuery object [D] named after the CTE (LemmaB5c's [select_core2]); the body reads
      [D] (LemmaB5dHolder.v) or, under an alias, a second SubQuery object equal to [D] as a graph node, so [D] stays
      stored and gets the alias label (LemmaB5dAlias.v); the composed holder realises two ranked layers of flows
      (LemmaB5dReal.v [realises_two_layer_abs2], abstracting LemmaB5c's [realises_one_derived] from the way the holder
      was composed) and [script_pairs_two_layer] of LemmaB5cPaths.v gives the reported pairs; the specification side
      ([spec_one_cte]) follows LemmaB5c's [lemma_B_one_derived].
    - NOT done: the INSERT column list; the CTE joined with base tables or referenced twice in the body; stars. *)
