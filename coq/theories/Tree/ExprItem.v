(** Stage 1: what SqlFluffColumn.of reads off a rendered expression select item, exactly. *)
From Coq Require Import Lia.
From SV Require Import Tree.Render Tree.RenderExpr Tree.LemmaA Tree.LemmaAProofs Ident.Escape.
From SV Require TriviaProofs.

(** the (column, qualifier) pairs the model collects, in its order and with its duplicates:
    [ops_srcs]: from the operand sequence of an expression node; [brk_srcs]: from all bracketed segments below it
    (a function call collects from EVERY bracketed segment below it, at any depth: nested calls are read again) *)
Fixpoint ops_srcs (ex : expr) : list cq :=
  match ex with
  | EColRef q c => [(c, q)]
  | ELit => []
  | EBin a b => ops_srcs a ++ ops_srcs b
  | ECase c t f => ops_srcs c ++ ops_srcs t ++ ops_srcs f
  | EFun a b => (ops_srcs a ++ ops_srcs b) ++ brk_srcs a ++ brk_srcs b
  | ECast a => ops_srcs a ++ brk_srcs a
  | EWin a p o => ops_srcs a ++ brk_srcs a ++ (ops_srcs p ++ ops_srcs o) ++ brk_srcs p ++ brk_srcs o
  end
with brk_srcs (ex : expr) : list cq :=
  match ex with
  | EColRef _ _ | ELit => []
  | EBin a b => brk_srcs a ++ brk_srcs b
  | ECase c t f => brk_srcs c ++ brk_srcs t ++ brk_srcs f
  | EFun a b => (ops_srcs a ++ ops_srcs b) ++ brk_srcs a ++ brk_srcs b
  | ECast a => ops_srcs a ++ brk_srcs a
  | EWin a p o => ops_srcs a ++ brk_srcs a ++ (ops_srcs p ++ ops_srcs o) ++ brk_srcs p ++ brk_srcs o
  end.

(** fuel [extract_sources] needs below the select item *)
Fixpoint expr_fuel (ex : expr) : nat :=
  match ex with
  | EColRef _ _ => 1
  | ELit => 0
  | EBin a b => Nat.max (expr_fuel a) (expr_fuel b)
  | EFun a b => 2 + Nat.max (expr_fuel a) (expr_fuel b)
  | ECast a => 2 + expr_fuel a
  | ECase c t f => 3 + Nat.max (expr_fuel c) (Nat.max (expr_fuel t) (expr_fuel f))
  | EWin a p o => 3 + Nat.max (expr_fuel a) (Nat.max (expr_fuel p) (expr_fuel o))
  end.


(** * the closures of [extract_sources], named *)
Definition gsrc (k : nat) (e : env) (sub : seg) : res (list cq) :=
  if ty_in sub SOURCE_TYPES || is_wildcard sub then extract_sources k e sub else Ok [].
Definition fpar (k : nat) (e : env) (x : seg) : res (list cq) :=
  let x' := match get_child x ["window_specification"] with Some w => w | None => x end in
  do ca <- get_column_and_alias k e x' false; Ok (fst ca).
Definition nstep (k : nat) (e : env) (sub : seg) : res (list cq) :=
  if tyis sub "bracketed" then
    do sq <- is_subquery sub;
    if sq then match assoc_list (raw sub) (e_scalar e) with Some l => Ok l | None => Err "ScalarOracleMissing" end
    else fpar k e sub
  else gsrc k e sub.

Lemma extract_sources_eq k e s :
  extract_sources (S k) e s =
  if ty_in s ["identifier"; "column_reference"] || is_wildcard s then
    do q <- extract_column_qualifier s; Ok (match q with Some c => [c] | None => [] end)
  else if tyis s "function" then concat_res (map (fpar k e) (crawl ["bracketed"] true s))
  else if ty_in s NON_IDENT then concat_res (map (nstep k e) (list_child_segments s true))
  else Ok [].
Proof. reflexivity. Qed.

Lemma concat_res_app {A} (l1 l2 : list (res (list A))) :
  concat_res (l1 ++ l2) = do a <- concat_res l1; do b <- concat_res l2; Ok (a ++ b).
Proof.
  induction l1 as [|x r IH]; cbn [app concat_res].
  - destruct (concat_res l2); reflexivity.
  - destruct x as [a|m]; [|reflexivity]. rewrite IH. destruct (concat_res r) as [b|m]; [|reflexivity].
    destruct (concat_res l2) as [c|m]; [|reflexivity]. rewrite app_assoc. reflexivity.
Qed.

Lemma concat_res_app_ok {A} (l1 l2 : list (res (list A))) a b :
  concat_res l1 = Ok a -> concat_res l2 = Ok b -> concat_res (l1 ++ l2) = Ok (a ++ b).
Proof. intros H1 H2. rewrite concat_res_app, H1, H2. reflexivity. Qed.

(** [get_column_and_alias] over children none of which is an alias *)
Lemma gcaa_fold k e l : forall cols al r,
  Forall (fun x => tyis x "alias_expression" = false) l ->
  concat_res (map (gsrc k e) l) = Ok r ->
  fold_left (fun acc sub =>
               do a <- acc;
               let '(cols, alias) := a in
               if tyis sub "alias_expression" then do i <- extract_identifier sub; Ok (cols, Some i)
               else if ty_in sub SOURCE_TYPES || is_wildcard sub
                    then do r <- extract_sources k e sub; Ok (cols ++ r, alias)
                    else Ok (cols, alias)) l (Ok (cols, al)) = Ok (cols ++ r, al).
Proof.
  induction l as [|x l IH]; intros cols al r Hl Hr.
  - cbn in Hr. inversion Hr. cbn [fold_left]. rewrite app_nil_r. reflexivity.
  - inversion Hl as [|x0 l0 Hx Hl']. subst. cbn [map concat_res] in Hr. cbn [fold_left]. rewrite Hx. cbn iota.
    unfold gsrc in Hr at 1. destruct (ty_in x SOURCE_TYPES || is_wildcard x).
    + destruct (extract_sources k e x) as [rx|m]; [|discriminate]. destruct (concat_res (map (gsrc k e) l)) as [rl|m] eqn:El; [|discriminate].
      injection Hr as <-. rewrite (IH (cols ++ rx) al rl Hl' eq_refl). rewrite app_assoc. reflexivity.
    + destruct (concat_res (map (gsrc k e) l)) as [rl|m] eqn:El; [|discriminate]. injection Hr as <-. cbn [app].
      apply (IH cols al rl Hl' eq_refl).
Qed.


Section NavX.
Variable noise : list seg.
Hypothesis Hnoise : noise_ok noise = true.
Variable e : env.

Notation B := ["bracketed"].
Notation notalias := (fun x : seg => tyis x "alias_expression" = false).

Lemma lcs_false t c l : list_child_segments (node t c (sep noise l)) false = filter nn l.
Proof.
  unfold list_child_segments. rewrite andb_false_r. cbn [children node]. apply (filter_sep noise Hnoise nn). apply nn_noise.
Qed.

(** ** crawl for bracketed segments *)
Lemma crawl_xnode l : crawl B true (xnode noise l) = flat_map (crawl B true) l.
Proof. apply (crawl_node_miss noise Hnoise); reflexivity. Qed.

Lemma crawl_brk l : crawl B true (brk noise l) = brk noise l :: flat_map (crawl B true) l.
Proof.
  unfold brk at 1. rewrite (crawl_node_hit noise Hnoise) by reflexivity. fold (brk noise l). f_equal.
  cbn [flat_map]. rewrite flat_map_app. cbn [flat_map]. change (crawl B true lpar) with (@nil seg). change (crawl B true rpar) with (@nil seg).
  cbn [app]. rewrite !app_nil_r. reflexivity.
Qed.

Lemma crawl_func n inner extra :
  crawl B true (func noise n inner extra) = brk noise inner :: flat_map (crawl B true) inner ++ flat_map (crawl B true) extra.
Proof.
  unfold func. rewrite (crawl_node_miss noise Hnoise) by reflexivity. cbn [flat_map].
  change (crawl B true (fname n)) with (@nil seg). cbn [app]. unfold fcontents. rewrite crawl_node0_miss by reflexivity.
  cbn [flat_map]. rewrite crawl_brk, app_nil_r. reflexivity.
Qed.

Lemma crawl_kw w : crawl B true (kw w) = [].
Proof. reflexivity. Qed.

Lemma crawl_colref q c : crawl B true (r_colref q c) = [].
Proof. destruct q; reflexivity. Qed.

(** ** [extract_sources] on the nodes of the rendering *)
Ltac es_nonident :=
  rewrite extract_sources_eq;
  match goal with |- context [ty_in ?n ["identifier"; "column_reference"] || is_wildcard ?n] =>
    change (ty_in n ["identifier"; "column_reference"] || is_wildcard n) with false end; cbn iota;
  match goal with |- context [tyis ?n "function"] => change (tyis n "function") with false end; cbn iota;
  match goal with |- context [ty_in ?n NON_IDENT] => change (ty_in n NON_IDENT) with true end; cbn iota;
  rewrite (lcs_node noise Hnoise) by reflexivity.

Lemma es_xnode k l : extract_sources (S k) e (xnode noise l) = concat_res (map (nstep k e) (filter nn l)).
Proof. unfold xnode. es_nonident. reflexivity. Qed.

Lemma nstep_kw k w : nstep k e (kw w) = Ok [].
Proof. reflexivity. Qed.
Lemma nstep_num k r : nstep k e (num r) = Ok [].
Proof. reflexivity. Qed.
Lemma nstep_cmp k : nstep k e cmp_gt = Ok [].
Proof. reflexivity. Qed.
Lemma nstep_colref k q c : nstep (S k) e (r_colref q c) = Ok [(c, q)].
Proof.
  unfold nstep. change (tyis (r_colref q c) "bracketed") with false. cbn iota. unfold gsrc.
  change (ty_in (r_colref q c) SOURCE_TYPES) with true. cbn [orb]. rewrite extract_sources_eq.
  change (ty_in (r_colref q c) ["identifier"; "column_reference"]) with true. cbn [orb]. rewrite ecq_colref. reflexivity.
Qed.
Lemma nstep_xnode k l r :
  concat_res (map (nstep k e) (filter nn l)) = Ok r -> nstep (S k) e (xnode noise l) = Ok r.
Proof. intros H. change (nstep (S k) e (xnode noise l)) with (extract_sources (S k) e (xnode noise l)). rewrite es_xnode. exact H. Qed.
Lemma gsrc_xnode k l r :
  concat_res (map (nstep k e) (filter nn l)) = Ok r -> gsrc (S k) e (xnode noise l) = Ok r.
Proof. intros H. change (gsrc (S k) e (xnode noise l)) with (extract_sources (S k) e (xnode noise l)). rewrite es_xnode. exact H. Qed.

(** CASE *)
Lemma es_when k cops t rc rt :
  concat_res (map (nstep k e) (filter nn cops)) = Ok rc -> nstep (S k) e t = Ok rt -> nn t = true ->
  extract_sources (S (S k)) e (when_node noise cops t) = Ok (rc ++ rt).
Proof.
  intros Hc Ht Hn. unfold when_node. es_nonident. cbn [filter]. rewrite Hn.
  change (nn (kw "when")) with true. change (nn (kw "then")) with true.
  change (nn (xnode noise (cops ++ [cmp_gt; num "0"]))) with true. cbn iota. cbn [map concat_res].
  rewrite !nstep_kw, Ht.
  rewrite (nstep_xnode k (cops ++ [cmp_gt; num "0"]) rc).
  - rewrite app_nil_r. reflexivity.
  - rewrite filter_app, map_app. change (filter nn [cmp_gt; num "0"]) with [cmp_gt; num "0"].
    rewrite <- (app_nil_r rc). apply concat_res_app_ok; [exact Hc|reflexivity].
Qed.

Lemma es_else k f rf : nstep k e f = Ok rf -> nn f = true -> extract_sources (S k) e (else_node noise f) = Ok rf.
Proof.
  intros Hf Hn. unfold else_node. es_nonident. cbn [filter]. rewrite Hn. change (nn (kw "else")) with true. cbn iota.
  cbn [map concat_res]. rewrite nstep_kw, Hf. rewrite app_nil_r. reflexivity.
Qed.

Lemma es_case k w el rw rel :
  nstep k e w = Ok rw -> nstep k e el = Ok rel -> nn w = true -> nn el = true ->
  extract_sources (S k) e (case_node noise w el) = Ok (rw ++ rel).
Proof.
  intros Hw Hel Hn1 Hn2. unfold case_node. es_nonident. cbn [filter]. rewrite Hn1, Hn2.
  change (nn (kw "case")) with true. change (nn (kw "end")) with true. cbn iota. cbn [map concat_res].
  rewrite !nstep_kw, Hw, Hel. rewrite app_nil_r. reflexivity.
Qed.

(** window *)
Lemma es_part k p rp : nstep k e p = Ok rp -> nn p = true -> extract_sources (S k) e (part_node noise p) = Ok rp.
Proof.
  intros Hp Hn. unfold part_node. es_nonident. cbn [filter]. rewrite Hn. change (nn (kw "partition")) with true. change (nn (kw "by")) with true.
  cbn iota. cbn [map concat_res]. rewrite !nstep_kw, Hp. rewrite app_nil_r. reflexivity.
Qed.
Lemma es_ord k o ro : nstep k e o = Ok ro -> nn o = true -> extract_sources (S k) e (ord_node noise o) = Ok ro.
Proof.
  intros Ho Hn. unfold ord_node. es_nonident. cbn [filter]. rewrite Hn. change (nn (kw "order")) with true. change (nn (kw "by")) with true.
  cbn iota. cbn [map concat_res]. rewrite !nstep_kw, Ho. rewrite app_nil_r. reflexivity.
Qed.

(** ** [_get_column_from_parenthesis] on the bracketed segments of the rendering *)
Lemma fpar_brk k inner r :
  Forall (fun x => is_type x ["window_specification"] = false) inner ->
  Forall notalias (filter nn inner) ->
  concat_res (map (gsrc k e) (filter nn inner)) = Ok r ->
  fpar k e (brk noise inner) = Ok r.
Proof.
  intros Hw Ha Hr. unfold fpar.
  assert (E : get_child (brk noise inner) ["window_specification"] = None).
  { unfold get_child, brk. rewrite (get_children_sep noise Hnoise) by reflexivity. cbn [filter]. rewrite filter_app. cbn [filter].
    change (is_type lpar ["window_specification"]) with false. change (is_type rpar ["window_specification"]) with false. cbn iota.
    rewrite filter_none; [reflexivity|]. intros x Hx. rewrite Forall_forall in Hw. apply Hw. exact Hx. }
  rewrite E. cbv zeta. unfold get_column_and_alias, brk. rewrite lcs_false. cbn [filter]. rewrite filter_app. cbn [filter].
  change (nn lpar) with false. change (nn rpar) with false. cbn iota. rewrite app_nil_r.
  rewrite (gcaa_fold k e (filter nn inner) [] None r Ha Hr). reflexivity.
Qed.

Lemma fpar_win k p o rp ro :
  extract_sources k e (part_node noise p) = Ok rp -> extract_sources k e (ord_node noise o) = Ok ro ->
  fpar k e (brk noise [winspec noise p o]) = Ok (rp ++ ro).
Proof.
  intros Hp Ho. unfold fpar.
  assert (E : get_child (brk noise [winspec noise p o]) ["window_specification"] = Some (winspec noise p o)).
  { unfold get_child, brk. rewrite (get_children_sep noise Hnoise) by reflexivity. reflexivity. }
  rewrite E. cbv zeta. unfold get_column_and_alias. unfold winspec at 1. rewrite lcs_false.
  change (filter nn [part_node noise p; ord_node noise o]) with [part_node noise p; ord_node noise o].
  rewrite (gcaa_fold k e [part_node noise p; ord_node noise o] [] None (rp ++ ro)).
  - reflexivity.
  - repeat constructor.
  - cbn [map concat_res]. change (gsrc k e (part_node noise p)) with (extract_sources k e (part_node noise p)).
    change (gsrc k e (ord_node noise o)) with (extract_sources k e (ord_node noise o)). rewrite Hp, Ho, app_nil_r. reflexivity.
Qed.

(** a function call: every bracketed segment below it *)
Lemma es_func k n inner extra :
  extract_sources (S k) e (func noise n inner extra) = concat_res (map (fpar k e) (crawl B true (func noise n inner extra))).
Proof. reflexivity. Qed.


Lemma nn_xnode l : nn (xnode noise l) = true. Proof. reflexivity. Qed.
Lemma nn_ord o : nn (r_ord noise o) = true. Proof. destruct o; reflexivity. Qed.

Lemma nstep_ord k o :
  concat_res (map (nstep k e) (filter nn (r_ops noise o))) = Ok (ops_srcs o) ->
  nstep (S k) e (r_ord noise o) = Ok (ops_srcs o).
Proof.
  intros H. destruct o as [q c| |a b|a b|c t f|a|a p o].
  - change (r_ord noise (EColRef q c)) with (r_colref q c). apply nstep_colref.
  - reflexivity.
  - unfold r_ord. cbn [is_atom]. apply nstep_xnode. exact H.
  - unfold r_ord. cbn [is_atom]. apply nstep_xnode. exact H.
  - unfold r_ord. cbn [is_atom]. apply nstep_xnode. exact H.
  - unfold r_ord. cbn [is_atom]. apply nstep_xnode. exact H.
  - unfold r_ord. cbn [is_atom]. apply nstep_xnode. exact H.
Qed.

Lemma crawl_ord o : crawl B true (r_ord noise o) = flat_map (crawl B true) (r_ops noise o).
Proof.
  destruct o as [q c| |a b|a b|c t f|a|a p o]; try (unfold r_ord; cbn [is_atom]; apply crawl_xnode).
  - change (r_ord noise (EColRef q c)) with (r_colref q c). cbn [r_ops flat_map]. rewrite crawl_colref. reflexivity.
  - reflexivity.
Qed.

Theorem ops_main ex : forall k, expr_fuel ex <= k ->
  concat_res (map (nstep k e) (filter nn (r_ops noise ex))) = Ok (ops_srcs ex) /\
  concat_res (map (fpar k e) (flat_map (crawl B true) (r_ops noise ex))) = Ok (brk_srcs ex).
Proof.
  induction ex as [q c| |a IHa b IHb|a IHa b IHb|c IHc t IHt f IHf|a IHa|a IHa p IHp o IHo]; intros k Hk; cbn [expr_fuel] in Hk.
  - (* column reference *)
    destruct k as [|k1]; [lia|]. cbn [r_ops]. change (filter nn [r_colref q c]) with [r_colref q c]. cbn [map concat_res flat_map].
    rewrite nstep_colref, crawl_colref. split; reflexivity.
  - split; reflexivity.
  - (* coalesce(a, b) *)
    set (FN := func noise "coalesce" [xnode noise (r_ops noise a); comma; xnode noise (r_ops noise b)] []).
    assert (F : forall k', S (Nat.max (expr_fuel a) (expr_fuel b)) <= k' ->
                concat_res (map (fpar k' e) (crawl B true FN)) = Ok (ops_srcs (EFun a b))).
    { intros k' Hk'. destruct k' as [|k2]; [lia|]. unfold FN. rewrite crawl_func. cbn [flat_map]. rewrite !crawl_xnode.
      change (crawl B true comma) with (@nil seg). cbn [app]. rewrite !app_nil_r. cbn [map concat_res].
      rewrite (fpar_brk (S k2) _ (ops_srcs a ++ ops_srcs b)).
      - rewrite map_app.
        rewrite (concat_res_app_ok _ _ _ _ (proj2 (IHa (S k2) ltac:(lia))) (proj2 (IHb (S k2) ltac:(lia)))). reflexivity.
      - repeat constructor.
      - repeat constructor.
      - change (filter nn [xnode noise (r_ops noise a); comma; xnode noise (r_ops noise b)])
          with [xnode noise (r_ops noise a); xnode noise (r_ops noise b)]. cbn [map concat_res].
        rewrite (gsrc_xnode k2 _ _ (proj1 (IHa k2 ltac:(lia)))), (gsrc_xnode k2 _ _ (proj1 (IHb k2 ltac:(lia)))).
        rewrite app_nil_r. reflexivity. }
    cbn [r_ops]. fold FN. split.
    + destruct k as [|k1]; [lia|]. change (filter nn [FN]) with [FN]. cbn [map concat_res].
      change (nstep (S k1) e FN) with (extract_sources (S k1) e FN). unfold FN at 1. rewrite es_func. fold FN.
      rewrite F by lia. rewrite app_nil_r. reflexivity.
    + cbn [flat_map]. rewrite app_nil_r. rewrite F by lia. reflexivity.
  - (* a + b *)
    destruct (IHa k ltac:(lia)) as [A1 A2]. destruct (IHb k ltac:(lia)) as [B1 B2]. cbn [r_ops]. split.
    + rewrite filter_app. cbn [filter]. change (nn binop) with false. cbn iota. rewrite map_app.
      apply concat_res_app_ok; assumption.
    + rewrite flat_map_app. cbn [flat_map]. change (crawl B true binop) with (@nil seg). cbn [app]. rewrite map_app.
      apply concat_res_app_ok; assumption.
  - (* case when c > 0 then t else f end *)
    destruct k as [|k1]; [lia|]. destruct k1 as [|k2]; [lia|]. destruct k2 as [|k3]; [lia|].
    cbn [r_ops]. set (W := when_node noise (r_ops noise c) (xnode noise (r_ops noise t))).
    set (E := else_node noise (xnode noise (r_ops noise f))). split.
    + change (filter nn [case_node noise W E]) with [case_node noise W E]. cbn [map concat_res].
      change (nstep (S (S (S k3))) e (case_node noise W E)) with (extract_sources (S (S (S k3))) e (case_node noise W E)).
      rewrite (es_case (S (S k3)) W E (ops_srcs c ++ ops_srcs t) (ops_srcs f)).
      * rewrite app_nil_r, <- app_assoc. reflexivity.
      * change (nstep (S (S k3)) e W) with (extract_sources (S (S k3)) e W). unfold W. apply es_when.
        -- exact (proj1 (IHc k3 ltac:(lia))).
        -- apply nstep_xnode. exact (proj1 (IHt k3 ltac:(lia))).
        -- reflexivity.
      * change (nstep (S (S k3)) e E) with (extract_sources (S (S k3)) e E). unfold E. apply es_else; [|reflexivity].
        apply nstep_xnode. exact (proj1 (IHf k3 ltac:(lia))).
      * reflexivity.
      * reflexivity.
    + cbn [flat_map]. rewrite app_nil_r. unfold case_node. rewrite (crawl_node_miss noise Hnoise) by reflexivity.
      cbn [flat_map]. rewrite !crawl_kw. cbn [app]. rewrite app_nil_r. unfold W, E, when_node, else_node.
      rewrite !(crawl_node_miss noise Hnoise) by reflexivity. cbn [flat_map]. rewrite !crawl_kw, !crawl_xnode. cbn [app]. rewrite !app_nil_r.
      rewrite flat_map_app. cbn [flat_map]. change (crawl B true cmp_gt) with (@nil seg). change (crawl B true (num "0")) with (@nil seg).
      cbn [app]. rewrite app_nil_r. rewrite !map_app, <- app_assoc. cbn [brk_srcs].
      apply concat_res_app_ok; [exact (proj2 (IHc (S (S (S k3))) ltac:(lia)))|].
      apply concat_res_app_ok; [exact (proj2 (IHt (S (S (S k3))) ltac:(lia)))|exact (proj2 (IHf (S (S (S k3))) ltac:(lia)))].
  - (* cast(a as int) *)
    set (FN := func noise "cast" [xnode noise (r_ops noise a); kw "as"; dt_int] []).
    assert (F : forall k', S (expr_fuel a) <= k' -> concat_res (map (fpar k' e) (crawl B true FN)) = Ok (ops_srcs (ECast a))).
    { intros k' Hk'. destruct k' as [|k2]; [lia|]. unfold FN. rewrite crawl_func. cbn [flat_map]. rewrite !crawl_xnode.
      change (crawl B true dt_int) with (@nil seg). rewrite crawl_kw. cbn [app]. rewrite !app_nil_r. cbn [map concat_res].
      rewrite (fpar_brk (S k2) _ (ops_srcs a)).
      - rewrite (proj2 (IHa (S k2) ltac:(lia))). reflexivity.
      - repeat constructor.
      - repeat constructor.
      - change (filter nn [xnode noise (r_ops noise a); kw "as"; dt_int]) with [xnode noise (r_ops noise a); kw "as"; dt_int].
        cbn [map concat_res]. rewrite (gsrc_xnode k2 _ _ (proj1 (IHa k2 ltac:(lia)))).
        change (gsrc (S k2) e (kw "as")) with (@Ok (list cq) []). change (gsrc (S k2) e dt_int) with (@Ok (list cq) []).
        cbn [app]. rewrite app_nil_r. reflexivity. }
    cbn [r_ops]. fold FN. split.
    + destruct k as [|k1]; [lia|]. change (filter nn [FN]) with [FN]. cbn [map concat_res].
      change (nstep (S k1) e FN) with (extract_sources (S k1) e FN). unfold FN at 1. rewrite es_func. fold FN.
      rewrite F by lia. rewrite app_nil_r. reflexivity.
    + cbn [flat_map]. rewrite app_nil_r. rewrite F by lia. reflexivity.
  - (* sum(a) over (partition by p order by o) *)
    assert (Eo : (if is_atom o then hd1 (r_ops noise o) else xnode noise (r_ops noise o)) = r_ord noise o) by reflexivity.
    cbn [r_ops]. rewrite Eo. set (XP := xnode noise (r_ops noise p)).
    set (FN := func noise "sum" [xnode noise (r_ops noise a)] [over_node noise XP (r_ord noise o)]).
    assert (F : forall k', 2 + Nat.max (expr_fuel a) (Nat.max (expr_fuel p) (expr_fuel o)) <= k' ->
                concat_res (map (fpar k' e) (crawl B true FN)) = Ok (ops_srcs (EWin a p o))).
    { intros k' Hk'. destruct k' as [|k2]; [lia|]. destruct k2 as [|k3]; [lia|]. unfold FN. rewrite crawl_func. cbn [flat_map].
      rewrite !crawl_xnode. rewrite !app_nil_r. unfold over_node. rewrite (crawl_node_miss noise Hnoise) by reflexivity.
      cbn [flat_map]. rewrite crawl_kw, crawl_brk. cbn [app flat_map]. rewrite !app_nil_r.
      unfold winspec at 2. rewrite (crawl_node_miss noise Hnoise) by reflexivity. cbn [flat_map]. rewrite app_nil_r.
      unfold part_node, ord_node. rewrite !(crawl_node_miss noise Hnoise) by reflexivity. cbn [flat_map].
      rewrite !crawl_kw. cbn [app]. rewrite !app_nil_r. unfold XP at 2. rewrite crawl_xnode, crawl_ord.
      cbn [map concat_res]. rewrite (fpar_brk (S (S k3)) _ (ops_srcs a)).
      - rewrite map_app. cbn [map]. rewrite map_app.
        rewrite (concat_res_app_ok _ _ (brk_srcs a) ((ops_srcs p ++ ops_srcs o) ++ brk_srcs p ++ brk_srcs o)).
        + cbn [ops_srcs]. reflexivity.
        + exact (proj2 (IHa (S (S k3)) ltac:(lia))).
        + cbn [concat_res]. rewrite (fpar_win (S (S k3)) XP (r_ord noise o) (ops_srcs p) (ops_srcs o)).
          * rewrite (concat_res_app_ok _ _ _ _ (proj2 (IHp (S (S k3)) ltac:(lia))) (proj2 (IHo (S (S k3)) ltac:(lia)))). reflexivity.
          * apply es_part; [|reflexivity]. unfold XP. apply nstep_xnode. exact (proj1 (IHp k3 ltac:(lia))).
          * apply es_ord; [|apply nn_ord]. apply nstep_ord. exact (proj1 (IHo k3 ltac:(lia))).
      - repeat constructor.
      - repeat constructor.
      - change (filter nn [xnode noise (r_ops noise a)]) with [xnode noise (r_ops noise a)]. cbn [map concat_res].
        rewrite (gsrc_xnode (S k3) _ _ (proj1 (IHa (S k3) ltac:(lia)))). rewrite app_nil_r. reflexivity. }
    split.
    + destruct k as [|k1]; [lia|]. change (filter nn [FN]) with [FN]. cbn [map concat_res].
      change (nstep (S k1) e FN) with (extract_sources (S k1) e FN). unfold FN at 1. rewrite es_func. fold FN.
      rewrite F by lia. rewrite app_nil_r. reflexivity.
    + cbn [flat_map]. rewrite app_nil_r. rewrite F by lia. reflexivity.
Qed.


Lemma concat_res_single {A} (x : res (list A)) r : concat_res [x] = Ok r -> x = Ok r.
Proof. cbn [concat_res]. destruct x as [a|m]; [|discriminate]. rewrite app_nil_r. auto. Qed.

Lemma top_notalias ex : tyis (r_top noise ex) "alias_expression" = false.
Proof. destruct ex; reflexivity. Qed.
Lemma nn_top ex : nn (r_top noise ex) = true.
Proof. destruct ex; reflexivity. Qed.

(** the select item's expression, as a child of the select_clause_element *)
Lemma top_step f ex : expr_fuel ex <= f -> gsrc (S f) e (r_top noise ex) = Ok (ops_srcs ex).
Proof.
  intros Hf. pose proof (proj1 (ops_main ex (S f) ltac:(lia))) as HS. pose proof (proj1 (ops_main ex f Hf)) as H0.
  destruct ex as [q c| |a b|a b|c t g|a|a p o].
  - change (r_top noise (EColRef q c)) with (r_colref q c). change (gsrc (S f) e (r_colref q c)) with (nstep (S f) e (r_colref q c)).
    apply nstep_colref.
  - reflexivity.
  - apply concat_res_single. exact HS.
  - unfold r_top. cbn [wraps_top]. apply gsrc_xnode. exact H0.
  - unfold r_top. cbn [wraps_top]. apply gsrc_xnode. exact H0.
  - apply concat_res_single. exact HS.
  - apply concat_res_single. exact HS.
Qed.

Lemma extract_identifier_alias_x a : extract_identifier (r_alias noise a) = Ok a.
Proof. unfold extract_identifier. rewrite (lcs_alias noise Hnoise). reflexivity. Qed.

Lemma gcaa_item f ex al :
  expr_fuel ex <= f ->
  get_column_and_alias (S f) e (r_item_x noise (IExpr ex al)) true = Ok (ops_srcs ex, al).
Proof.
  intros Hf. unfold get_column_and_alias, r_item_x. rewrite (lcs_node noise Hnoise) by reflexivity. cbn [filter]. rewrite nn_top.
  assert (E : filter nn (match al with Some a => [r_alias noise a] | None => [] end) = match al with Some a => [r_alias noise a] | None => [] end)
    by (destruct al; reflexivity).
  rewrite E. change (r_top noise ex :: match al with Some a => [r_alias noise a] | None => [] end)
    with ([r_top noise ex] ++ match al with Some a => [r_alias noise a] | None => [] end).
  rewrite fold_left_app. rewrite (gcaa_fold (S f) e [r_top noise ex] [] None (ops_srcs ex)).
  - destruct al as [a|]; [|reflexivity]. cbn [fold_left app]. change (tyis (r_alias noise a) "alias_expression") with true. cbn iota.
    rewrite extract_identifier_alias_x. reflexivity.
  - constructor; [apply top_notalias|constructor].
  - cbn [map concat_res]. rewrite (top_step f ex Hf), app_nil_r. reflexivity.
Qed.

(** ** THE ITEM THEOREM (any expression, any depth, any trivia): an aliased expression item is read as the column named by
    the alias, with exactly the sources [ops_srcs ex] *)
Theorem column_of_seg_expr_exact_gen f ex a :
  expr_fuel ex <= f -> String.eqb a "" = false ->
  column_of_seg (S f) e (r_item_x noise (IExpr ex (Some a))) = Ok (mk_xcol a (ops_srcs ex) true).
Proof.
  intros Hf Ha. unfold column_of_seg.
  change (tyis (r_item_x noise (IExpr ex (Some a))) "select_clause_element") with true. cbn iota.
  rewrite (gcaa_item f ex (Some a) Hf). rewrite Ha. reflexivity.
Qed.


(** without alias: same sources; the name is the column's own name for a bare column reference, else the raw text
    of the whole item - which contains the trivia (C07 allows exactly that) *)
Lemma ops_not_cast ex : Forall (fun x => tyis x "cast_expression" = false) (r_ops noise ex).
Proof.
  induction ex as [q c| |a IHa b IHb|a IHa b IHb|c IHc t IHt f IHf|a IHa|a IHa p IHp o IHo]; cbn [r_ops]; try (repeat constructor).
  apply Forall_app. split; [exact IHa|]. constructor; [reflexivity|exact IHb].
Qed.

Definition item_name_x (ex : expr) : string :=
  match ex with EColRef _ c => c | _ => raw (r_item_x noise (IExpr ex None)) end.

Lemma name_fold ex :
  fold_left (fun acc sub =>
     do nm <- acc;
     if tyis sub "column_reference" || is_wildcard sub then
       do q <- extract_column_qualifier sub;
       Ok (match q with Some cq0 => Some (fst cq0) | None => nm end)
     else if tyis sub "expression" then
       match list_child_segments sub true with
       | [s2] =>
           if tyis s2 "cast_expression" then
             match list_child_segments s2 true with
             | [s3; _] =>
                 if tyis s3 "column_reference" then
                   do q <- extract_column_qualifier s3;
                   Ok (match q with Some cq0 => Some (fst cq0) | None => nm end)
                 else Ok nm
             | _ => Ok nm
             end
           else Ok nm
       | _ => Ok nm
       end
     else Ok nm) [r_top noise ex] (Ok None) = Ok (match ex with EColRef _ c => Some c | _ => @None string end).
Proof.
  assert (X : forall l : list seg, Forall (fun x => tyis x "cast_expression" = false) l ->
              match l with
              | [s2] => if tyis s2 "cast_expression"
                        then match list_child_segments s2 true with
                             | [s3; _] => if tyis s3 "column_reference"
                                          then do q <- extract_column_qualifier s3;
                                               Ok (match q with Some cq0 => Some (fst cq0) | None => @None string end)
                                          else Ok None
                             | _ => Ok None end
                        else Ok None
              | _ => Ok None end = @Ok (option string) None).
  { intros l Hl. destruct l as [|s2 [|s3 r]]; try reflexivity. inversion Hl as [|x0 l0 H1 H2]. rewrite H1. reflexivity. }
  assert (Hf : forall ex', Forall (fun x => tyis x "cast_expression" = false) (filter nn (r_ops noise ex'))).
  { intros ex'. pose proof (ops_not_cast ex') as H. rewrite Forall_forall in *. intros x Hx. apply filter_In in Hx. apply H. apply Hx. }
  cbn [fold_left]. destruct ex as [q c| |a b|a b|c t g|a|a p o]; try reflexivity.
  - change (r_top noise (EColRef q c)) with (r_colref q c). change (tyis (r_colref q c) "column_reference") with true. cbn [orb].
    rewrite ecq_colref. reflexivity.
  - unfold r_top. cbn [wraps_top]. change (tyis (xnode noise (r_ops noise (EBin a b))) "column_reference" || is_wildcard (xnode noise (r_ops noise (EBin a b)))) with false.
    cbn iota. change (tyis (xnode noise (r_ops noise (EBin a b))) "expression") with true. cbn iota.
    unfold xnode. rewrite (lcs_node noise Hnoise) by reflexivity. apply X. apply Hf.
Qed.

Theorem column_of_seg_expr_noalias f ex :
  S (expr_fuel ex) <= f ->
  column_of_seg (S f) e (r_item_x noise (IExpr ex None)) = Ok (mk_xcol (item_name_x ex) (ops_srcs ex) false).
Proof.
  intros Hf. unfold column_of_seg.
  change (tyis (r_item_x noise (IExpr ex None)) "select_clause_element") with true. cbn iota.
  rewrite (gcaa_item f ex None ltac:(lia)).
  assert (Hfb : (do srcs <- extract_sources (S f) e (r_item_x noise (IExpr ex None)); Ok (mk_xcol (raw (r_item_x noise (IExpr ex None))) srcs false))
                = Ok (mk_xcol (raw (r_item_x noise (IExpr ex None))) (ops_srcs ex) false)).
  { destruct f as [|f']; [lia|]. unfold r_item_x at 1. rewrite extract_sources_eq.
    match goal with |- context [ty_in ?n ["identifier"; "column_reference"] || is_wildcard ?n] =>
      change (ty_in n ["identifier"; "column_reference"] || is_wildcard n) with false end. cbn iota.
    match goal with |- context [tyis ?n "function"] => change (tyis n "function") with false end. cbn iota.
    match goal with |- context [ty_in ?n NON_IDENT] => change (ty_in n NON_IDENT) with true end. cbn iota.
    rewrite (lcs_node noise Hnoise) by reflexivity. cbn [filter]. rewrite nn_top. cbn [map concat_res].
    assert (En : nstep (S f') e (r_top noise ex) = gsrc (S f') e (r_top noise ex)).
    { unfold nstep. assert (Eb : tyis (r_top noise ex) "bracketed" = false) by (destruct ex; reflexivity). rewrite Eb. reflexivity. }
    rewrite En, (top_step f' ex ltac:(lia)), app_nil_r. reflexivity. }
  cbv zeta. destruct (ops_srcs ex) as [|s0 sr] eqn:Es.
  - rewrite Hfb. destruct ex as [q c| | | | | |]; [discriminate Es| | | | | |]; reflexivity.
  - assert (El : list_child_segments (r_item_x noise (IExpr ex None)) true = [r_top noise ex]).
    { unfold r_item_x. rewrite (lcs_node noise Hnoise) by reflexivity. cbn [filter]. rewrite nn_top. reflexivity. }
    rewrite El. rewrite (name_fold ex). destruct ex; reflexivity.
Qed.

End NavX.
Definition ws : seg := Seg "whitespace" "whitespace" ["whitespace"] " " true false false [].
Definition cmt : seg := Seg "comment" "inline_comment" ["comment"; "inline_comment"] "--x" false true false [].
Definition e0 : env := mk_env "ansi" "" "" {| p_truthy := false; p_cols := [] |} [].
Definition ex1 := EFun (EFun (EColRef None "a") (EColRef (Some "t") "b")) (EBin (EColRef None "c") ELit).
Definition ex2 := EWin (ECast (EColRef None "a")) (EBin (EColRef None "p") (EFun (EColRef None "x") ELit)) (ECase (EColRef None "o") ELit (EColRef (Some "t") "z")).
Definition ex3 := ECase (EBin ex1 ELit) ex2 (EWin ELit (EColRef None "p") (EColRef None "o")).

(* ================================================================== *)
(** * the sources as a set: exactly the column references of the expression *)
Definition swap_ref (r : option string * string) : cq := (snd r, fst r).

Lemma brk_sub_ops ex : (forall x, In x (brk_srcs ex) -> In x (ops_srcs ex)) /\
                       (forall x, In x (ops_srcs ex) <-> In x (map swap_ref (col_refs ex))).
Proof.
  induction ex as [q c| |a [IHa1 IHa2] b [IHb1 IHb2]|a [IHa1 IHa2] b [IHb1 IHb2]|c [IHc1 IHc2] t [IHt1 IHt2] f [IHf1 IHf2]
                  |a [IHa1 IHa2]|a [IHa1 IHa2] p [IHp1 IHp2] o [IHo1 IHo2]];
    cbn [ops_srcs brk_srcs col_refs map]; (split; intros x); rewrite ?map_app, ?in_app_iff;
    rewrite <- ?IHa2, <- ?IHb2, <- ?IHc2, <- ?IHt2, <- ?IHf2, <- ?IHp2, <- ?IHo2; try tauto;
    try (specialize (IHa1 x)); try (specialize (IHb1 x)); try (specialize (IHc1 x)); try (specialize (IHt1 x));
    try (specialize (IHf1 x)); try (specialize (IHp1 x)); try (specialize (IHo1 x)); try tauto.
  intros [].
Qed.

Theorem ops_srcs_set ex x : In x (ops_srcs ex) <-> In x (map swap_ref (col_refs ex)).
Proof. apply brk_sub_ops. Qed.

(** without nested calls there are no duplicates beyond those of the expression itself: for expressions whose function
    arguments contain no function call the list IS the list of references *)
Fixpoint no_call (ex : expr) : bool :=
  match ex with
  | EColRef _ _ | ELit => true
  | EBin a b => no_call a && no_call b
  | ECase c t f => no_call c && no_call t && no_call f
  | _ => false
  end.
Fixpoint flat_calls (ex : expr) : bool :=
  match ex with
  | EColRef _ _ | ELit => true
  | EBin a b => flat_calls a && flat_calls b
  | ECase c t f => flat_calls c && flat_calls t && flat_calls f
  | EFun a b => no_call a && no_call b
  | ECast a => no_call a
  | EWin a p o => no_call a && no_call p && no_call o
  end.
Lemma no_call_brk ex : no_call ex = true -> brk_srcs ex = [] /\ ops_srcs ex = map swap_ref (col_refs ex).
Proof.
  induction ex as [q c| |a IHa b IHb|a IHa b IHb|c IHc t IHt f IHf|a IHa|a IHa p IHp o IHo]; cbn [no_call]; intros H; try discriminate;
    cbn [brk_srcs ops_srcs col_refs map]; auto.
  - apply andb_true_iff in H. destruct H as [H1 H2]. destruct (IHa H1) as [-> ->]. destruct (IHb H2) as [-> ->]. rewrite map_app. auto.
  - apply andb_true_iff in H. destruct H as [H H3]. apply andb_true_iff in H. destruct H as [H1 H2].
    destruct (IHc H1) as [-> ->]. destruct (IHt H2) as [-> ->]. destruct (IHf H3) as [-> ->]. rewrite !map_app. auto.
Qed.
Theorem ops_srcs_flat ex : flat_calls ex = true -> ops_srcs ex = map swap_ref (col_refs ex).
Proof.
  induction ex as [q c| |a IHa b IHb|a IHa b IHb|c IHc t IHt f IHf|a IHa|a IHa p IHp o IHo]; cbn [flat_calls]; intros H;
    cbn [ops_srcs col_refs map]; auto.
  - apply andb_true_iff in H. destruct H as [H1 H2]. destruct (no_call_brk a H1) as [-> ->]. destruct (no_call_brk b H2) as [-> ->].
    rewrite map_app, app_nil_r. reflexivity.
  - apply andb_true_iff in H. destruct H as [H1 H2]. rewrite (IHa H1), (IHb H2), map_app. reflexivity.
  - apply andb_true_iff in H. destruct H as [H H3]. apply andb_true_iff in H. destruct H as [H1 H2].
    rewrite (IHc H1), (IHt H2), (IHf H3), !map_app. reflexivity.
  - destruct (no_call_brk a H) as [-> ->]. rewrite app_nil_r. reflexivity.
  - apply andb_true_iff in H. destruct H as [H H3]. apply andb_true_iff in H. destruct H as [H1 H2].
    destruct (no_call_brk a H1) as [-> ->]. destruct (no_call_brk p H2) as [-> ->]. destruct (no_call_brk o H3) as [-> ->].
    cbn [app]. rewrite !map_app, !app_nil_r. reflexivity.
Qed.

(* ================================================================== *)
(** * the item theorem in the form of the task *)
Definition item_fuel (i : item) : nat := match i with IExpr ex _ => expr_fuel ex | IStar _ => 0 end.

Theorem column_of_seg_expr_exact noise e f ex a :
  noise_ok noise = true -> env_ok e = true -> expr_ok ex = true -> id_ok a = true -> expr_fuel ex <= f ->
  column_of_seg (S f) e (r_item_x noise (IExpr ex (Some a))) = Ok (mk_xcol a (ops_srcs ex) true).
Proof.
  intros Hn _ _ Ha Hf. apply column_of_seg_expr_exact_gen; [exact Hn|exact Hf|apply id_ok_nonempty; exact Ha].
Qed.
Print Assumptions column_of_seg_expr_exact.
Print Assumptions column_of_seg_expr_exact_gen.
Print Assumptions column_of_seg_expr_noalias.

(** ** the side conditions are needed *)

(** fuel: [column_of_seg] runs out of fuel below the bound (here exactly one below) *)
Lemma cx_expr_fuel : expr_fuel ex3 = 10 /\ column_of_seg (S 9) e0 (r_item_x [ws] (IExpr ex3 (Some "k"))) = Err EFuel.
Proof. split; vm_compute; reflexivity. Qed.
(** an empty alias is no alias: the column is then named by the raw text *)
Lemma cx_expr_empty_alias :
  column_of_seg 20 e0 (r_item_x [ws] (IExpr (EBin (EColRef None "a") ELit) (Some ""))) = Ok (mk_xcol "a + 1 as " [("a", None)] false).
Proof. vm_compute. reflexivity. Qed.
(** nested calls are read twice: the source list is not [col_refs] *)
Lemma cx_expr_duplicates :
  ops_srcs ex1 = [("a", None); ("b", Some "t"); ("c", None); ("a", None); ("b", Some "t")] /\
  map swap_ref (col_refs ex1) = [("a", None); ("b", Some "t"); ("c", None)].
Proof. split; reflexivity. Qed.

(** ** non-vacuity *)
Example ex_item_hyps :
  noise_ok [ws; cmt] = true /\ env_ok e0 = true /\ forallb expr_ok [ex1; ex2; ex3] = true /\ id_ok "k" = true /\
  expr_fuel ex1 <= 5 /\ expr_fuel ex2 <= 7 /\ expr_fuel ex3 <= 10.
Proof. vm_compute. repeat split; repeat constructor. Qed.
Example ex_item_instance :
  column_of_seg (S 10) e0 (r_item_x [ws; cmt] (IExpr ex3 (Some "k"))) = Ok (mk_xcol "k" (ops_srcs ex3) true) /\
  List.length (ops_srcs ex3) = 14.
Proof. split; vm_compute; reflexivity. Qed.
Example ex_item_noalias :
  column_of_seg (S 8) e0 (r_item_x [ws] (IExpr ex2 None)) =
  Ok (mk_xcol "sum ( cast ( a as int ) ) over ( partition by p + coalesce ( x , 1 ) order by case when o > 0 then 1 else t.z end )"
              (ops_srcs ex2) false).
Proof. vm_compute. reflexivity. Qed.
