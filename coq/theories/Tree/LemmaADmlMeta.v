(** Lemma A (tables) for UPDATE, MERGE and SELECT ... INTO with an ARBITRARY metadata provider (property C13).
    Generated from Tree/LemmaADml.v: same proof scripts under [env_ok_md] (Tree/LemmaAMeta.v: [env_ok] without "the provider
    holds nothing"); the lemmas of LemmaAProofs.v that were proved under [env_ok] are replaced by their [_md] versions
    ([body_main_md], [table_of_seg_tref_md], [select_tail_any]) or transported through [strip e] (below). *)
From Coq Require Import Lia.
From SV Require Import Tree.RenderDml Tree.LemmaA Tree.LemmaAProofs Tree.LemmaADmlDefs Ident.Escape Ident.EscapeProofs
  Holder.PathProofs Holder.SortProofs.
From SV Require TriviaProofs.
From SV Require Import Tree.LemmaAMeta.

Definition lemma_A_dml_md_statement (guard : dml -> bool) : Prop :=
  forall noise e d,
    noise_ok noise = true -> env_ok_md e = true -> guard d = true ->
    stmt_reads (analyze e false (r_dml noise d)) = sort_strings (dml_reads (e_cfg e) d) /\
    stmt_writes (analyze e false (r_dml noise d)) = sort_strings (dml_writes (e_cfg e) d).

(** * transported through [strip e] *)
Lemma swap_partition_off_md e : env_ok_md e = true -> forall s g, handle_swap_partition e s g = Ok g.
Proof.
  intros H s g. pose proof (swap_partition_off (strip e) (strip_ok e H) s g) as K. unfold handle_swap_partition in *. cbn [strip e_vertica] in K.
  destruct (e_vertica e && tyis s "select_clause"); [|reflexivity].
  rewrite <- (mk_table_np (strip e) e (strip_np e)). exact K.
Qed.

Lemma list_tables_fc_md noise (Hnoise : noise_ok noise = true) e (Henv : env_ok_md e = true) k from cj g ctes :
  from <> [] -> Forall fee_ok (FL k from cj) -> gok g -> cte_rel g ctes ->
  exists ds, list_tables e (r_fc noise k from cj) g = Ok ds /\ Forall data_ok ds /\
             forall x, tnames ds x <-> In x (flat_map (fun p => rel_reads e ctes (snd p)) (FL k from cj)).
Proof.
  intros H1 H2 H3 H4. rewrite <- (list_tables_np (strip e) e (strip_np e)).
  exact (list_tables_fc noise Hnoise (strip e) (strip_ok e Henv) k from cj g ctes H1 H2 H3 H4).
Qed.

Lemma handle_child_sc_md noise (Hnoise : noise_ok noise = true) e (Henv : env_ok_md e = true) f st items :
  forallb item_ok items = true ->
  exists cols, handle_child (S f) e st (r_sc noise items) =
               Ok {| s_g := s_g st; s_tables := s_tables st; s_columns := s_columns st ++ cols; s_barriers := s_barriers st |}
               /\ Forall xcol_ok cols.
Proof.
  intros H. rewrite <- (handle_child_np (S f) (strip e) e (strip_np e)). exact (handle_child_sc noise Hnoise (strip e) (strip_ok e Henv) f st items H).
Qed.

Lemma handle_child_fc_md noise e (Henv : env_ok_md e = true) f st k from cj :
  handle_child f e st (r_fc noise k from cj) =
  (do ts <- list_tables e (r_fc noise k from cj) (s_g st);
   Ok {| s_g := s_g st; s_tables := s_tables st ++ ts; s_columns := s_columns st; s_barriers := s_barriers st |}).
Proof.
  rewrite <- (handle_child_np f (strip e) e (strip_np e)), <- (list_tables_np (strip e) e (strip_np e)).
  exact (handle_child_fc noise (strip e) (strip_ok e Henv) f st k from cj).
Qed.

Lemma handle_child_where_md noise e (Henv : env_ok_md e = true) f st k c sq :
  handle_child f e st (r_where noise k c sq) =
  Ok {| s_g := s_g st; s_tables := s_tables st; s_columns := s_columns st; s_barriers := s_barriers st |}.
Proof.
  rewrite <- (handle_child_np f (strip e) e (strip_np e)). exact (handle_child_where noise (strip e) (strip_ok e Henv) f st k c sq).
Qed.

Module DmlMd.
(* ================================================================== *)
(** * Part U0: the UPDATE extractor, unfolded *)
Definition upd_setcols (s : seg) : res (list xcol) :=
  concat_res (map (fun sc =>
     match get_children sc ["column_reference"] with
     | [c0; c1] =>
         do t <- extract_column_qualifier c0;
         do sr <- extract_column_qualifier c1;
         Ok (match t, sr with
             | Some tq, Some sq => [mk_xcol (fst tq) [sq] false]
             | _, _ => []
             end)
     | _ => Ok []
     end) (get_children s ["set_clause"])).

Definition upd_step (e : env) (stmt : seg) (acc : res (graph * bool * list xcol * list dataset)) (s : seg)
  : res (graph * bool * list xcol * list dataset) :=
  do a <- acc;
  let '(g, tgt_flag, cols, subs) := a in
  do g1 <- (if tyis s "from_expression" then
              do ts <- list_tables e stmt g;
              match ts with
              | [] => Ok g
              | w :: rs => Ok (fold_left add_read rs (add_write g w))
              end
            else Ok g);
  if tyis s "keyword" && String.eqb (raw_upper s) "UPDATE" then Ok (g1, true, cols, subs)
  else
    do g2 <- (if tgt_flag then do t <- find_table e s; Ok (match t with Some d => add_write g1 d | None => g1 end)
              else Ok g1);
    do cols' <- (if tyis s "set_clause_list" then do cs <- upd_setcols s; Ok (cols ++ cs) else Ok cols);
    do r3 <- (if tyis s "from_clause" then
                do sqs <- list_subquery s;
                do ts <- list_tables e s g2;
                Ok (fold_left add_read ts g2, subs ++ sqs)
              else Ok (g2, subs));
    Ok (fst r3, false, cols', snd r3).

Definition upd_collin (e : env) (cols : list xcol) (g : graph) : res graph :=
  fold_left (fun acc x =>
     do g' <- acc;
     match sq_write g' with
     | [] => Ok g'
     | w :: _ =>
         let tgt := add_parent (xc x) w in
         do srcs <- to_source_columns e x (get_alias_mapping g' (sq_read g'));
         fold_left (fun acc2 sc => do g'' <- acc2; add_column_lineage g'' sc tgt) srcs (Ok g')
     end) cols (Ok g).

Lemma extract_upd_eq f e stmt ctx :
  extract (S f) e XUpdate stmt ctx =
  (do r <- fold_left (upd_step e stmt) (list_child_segments stmt true) (Ok (init_holder ctx, false, [], []));
   let '(g, _, cols, subs) := r in
   do g1 <- upd_collin e cols g;
   ex_subquery f e subs g1).
Proof. reflexivity. Qed.

(* ================================================================== *)
(** * Part U1: navigation on the rendered UPDATE *)
Section NavU.
Variable noise : list seg.
Hypothesis Hnoise : noise_ok noise = true.
Variable e : env.
Hypothesis Henv : env_ok_md e = true.

(** the pieces shared with [r_query] are those named in Tree/LemmaAProofs.v *)
Lemma d_brq_eq k q : d_brq noise k q = r_brq noise k q.
Proof. reflexivity. Qed.
Lemma d_fc_eq k from cj : d_fc noise k from cj = r_fc noise k from cj.
Proof. reflexivity. Qed.
Lemma d_wh_eq k wh : d_wh noise k wh = r_wh noise k wh.
Proof. reflexivity. Qed.
Lemma d_sc_eq items : d_sc noise items = r_sc noise items.
Proof. reflexivity. Qed.
Lemma d_alias_eq al : d_alias noise al = al_list noise al.
Proof. reflexivity. Qed.

Lemma upd_kw stmt g cols subs :
  upd_step e stmt (Ok (g, false, cols, subs)) (kw "update") = Ok (g, true, cols, subs).
Proof. reflexivity. Qed.

Lemma upd_tref stmt g cols subs t :
  upd_step e stmt (Ok (g, true, cols, subs)) (r_tref t) =
  (do d <- table_of_seg e (r_tref t) None; Ok (add_write g d, false, cols, subs)).
Proof.
  unfold upd_step. change (tyis (r_tref t) "from_expression") with false. change (tyis (r_tref t) "keyword") with false.
  cbn [andb]. cbn iota. unfold find_table. change (ty_in (r_tref t) ["table_reference"; "object_reference"]) with true. cbn iota.
  destruct (table_of_seg e (r_tref t) None) as [d|err]; [|reflexivity].
  change (tyis (r_tref t) "set_clause_list") with false. change (tyis (r_tref t) "from_clause") with false. reflexivity.
Qed.

Lemma upd_alias stmt g cols subs a :
  upd_step e stmt (Ok (g, false, cols, subs)) (r_alias noise a) = Ok (g, false, cols, subs).
Proof. reflexivity. Qed.

Lemma upd_where stmt g cols subs l :
  upd_step e stmt (Ok (g, false, cols, subs)) (node "where_clause" ["where_clause"] l) = Ok (g, false, cols, subs).
Proof. reflexivity. Qed.

Lemma upd_scl stmt g cols subs sets :
  upd_step e stmt (Ok (g, false, cols, subs)) (r_scl noise sets) =
  (do cs <- upd_setcols (r_scl noise sets); Ok (g, false, cols ++ cs, subs)).
Proof.
  unfold upd_step. change (tyis (r_scl noise sets) "from_expression") with false. change (tyis (r_scl noise sets) "keyword") with false.
  cbn [andb]. cbn iota. change (tyis (r_scl noise sets) "set_clause_list") with true. cbn iota.
  destruct (upd_setcols (r_scl noise sets)) as [cs|err]; [|reflexivity].
  change (tyis (r_scl noise sets) "from_clause") with false. reflexivity.
Qed.

Lemma upd_fc stmt g cols subs k from cj :
  upd_step e stmt (Ok (g, false, cols, subs)) (r_fc noise k from cj) =
  (do sqs <- list_subquery (r_fc noise k from cj);
   do ts <- list_tables e (r_fc noise k from cj) g;
   Ok (fold_left add_read ts g, false, cols, subs ++ sqs)).
Proof.
  unfold upd_step. change (tyis (r_fc noise k from cj) "from_expression") with false. change (tyis (r_fc noise k from cj) "keyword") with false.
  cbn [andb]. cbn iota. change (tyis (r_fc noise k from cj) "set_clause_list") with false.
  change (tyis (r_fc noise k from cj) "from_clause") with true. cbn iota.
  destruct (list_subquery (r_fc noise k from cj)) as [sqs|err]; [|reflexivity].
  destruct (list_tables e (r_fc noise k from cj) g) as [ts|err]; reflexivity.
Qed.

(** the SET list: one extracted column per assignment *)
Definition setc_xcol (s : setc) : xcol := mk_xcol (fst (fst s)) [(snd s, snd (fst s))] false.

Lemma gc_scl sets : get_children (r_scl noise sets) ["set_clause"] = map (r_setc noise) sets.
Proof.
  unfold r_scl. rewrite (get_children_sep noise Hnoise) by reflexivity. cbn [filter].
  change (is_type (kw "set") ["set_clause"]) with false. cbn iota.
  apply filter_intersperse; [reflexivity|]. intros y Hy. apply in_map_iff in Hy. destruct Hy as (s & <- & _). reflexivity.
Qed.

Lemma upd_setcols_scl sets : upd_setcols (r_scl noise sets) = Ok (map setc_xcol sets).
Proof.
  unfold upd_setcols. rewrite gc_scl, map_map.
  induction sets as [|s r IH]; [reflexivity|]. cbn [map concat_res].
  assert (E : get_children (r_setc noise s) ["column_reference"] = [r_colref None (fst (fst s)); r_colref (snd (fst s)) (snd s)]).
  { unfold r_setc. rewrite (get_children_sep noise Hnoise) by reflexivity. reflexivity. }
  rewrite E, !ecq_colref, IH. reflexivity.
Qed.

Lemma setc_xcol_ok s : setc_ok s = true -> xcol_ok (setc_xcol s).
Proof.
  unfold setc_ok. intros H. apply andb_true_iff in H. destruct H as [H _]. apply andb_true_iff in H. destruct H as [_ H].
  apply xcol_ok_mk. destruct (snd (fst s)); [exact H|exact I].
Qed.

(** the column lineage of the SET list does not touch the tagged datasets *)
Lemma upd_collin_ok cols g :
  gok g -> Forall xcol_ok cols -> exists g', upd_collin e cols g = Ok g' /\ cstep g g'.
Proof.
  intros Hg Hc. unfold upd_collin.
  apply (fold_res_inv (fun g' => cstep g g')); [apply cstep_refl; exact Hg|].
  intros b x Hx Hb. rewrite Forall_forall in Hc. specialize (Hc x Hx).
  destruct (sq_write b) as [|w r] eqn:Ew; [exists b; auto|].
  assert (Hw : data_ok w).
  { apply (gok_data b w "write" (proj1 Hb)). unfold sq_write in Ew. rewrite Ew. left. reflexivity. }
  assert (Hr : Forall data_ok (sq_read b)).
  { apply Forall_forall. intros d Hd. apply (gok_data b d "read" (proj1 Hb) Hd). }
  destruct (to_source_columns_ok e x (get_alias_mapping b (sq_read b)) Hc (alias_mapping_ok b (sq_read b) (proj1 Hb) Hr))
    as (srcs & Es & Hsrcs). rewrite Es.
  assert (Hown : col1 (add_parent (xc x) w)).
  { destruct (add_parent_col_for (xc x) w (or_introl (proj1 Hc)) Hw) as [H1 (p & H2 & _)]. split; [exact H1|exists p; exact H2]. }
  destruct (add_column_lineage_fold b srcs _ (proj1 Hb) Hsrcs Hown) as (g3 & E3 & Hg3).
  exists g3. split; [exact E3|]. apply (cstep_trans _ _ _ Hb Hg3).
Qed.

(** depth of a rendered SELECT whose clauses all occur as children of a statement *)
Lemma fold_max_depth_bound l B : (forall x, In x l -> depth x <= B) -> fold_right Nat.max 0 (map depth l) <= B.
Proof.
  induction l as [|a r IH]; intros H; cbn [map fold_right]; [lia|].
  pose proof (H a (or_introl eq_refl)). pose proof (IH (fun x Hx => H x (or_intror Hx))). lia.
Qed.

Lemma depth_node_le t c l B : (forall x, In x l -> S (depth x) <= B) -> 1 <= B -> depth (node t c l) <= B.
Proof.
  intros H HB. cbn [depth node].
  assert (fold_right Nat.max 0 (map depth l) <= B - 1).
  { apply fold_max_depth_bound. intros x Hx. specialize (H x Hx). lia. }
  lia.
Qed.

Lemma depth_noise x : In x noise -> depth x = 1.
Proof.
  intros Hx. pose proof (proj1 (proj2 (noise_seg_facts x (noise_in noise Hnoise x Hx)))) as Hc.
  destruct x. cbn [children] in Hc. subst. reflexivity.
Qed.

Lemma depth_select_le stmt k items from cj wh :
  (forall c, In c (clauses noise items k from cj wh) -> S (depth c) <= depth stmt) -> 2 <= depth stmt ->
  depth (r_query noise (S k) (QSelect items from cj wh)) <= depth stmt.
Proof.
  intros H H2. rewrite (r_query_select noise). apply depth_node_le; [|lia].
  intros x Hx. apply (In_sep_inv noise) in Hx. destruct Hx as [Hx|Hx]; [apply H; exact Hx|]. rewrite (depth_noise x Hx). lia.
Qed.

Lemma depth_kw_child t c w l : In (kw w) l -> 2 <= depth (node t c l).
Proof. intros H. pose proof (depth_child (kw w) (node t c l) H). change (depth (kw w)) with 1 in H0. exact H0. Qed.

(** ** the holder once the target [d0] is recorded: it is the only write, no CTE, reads [R] *)
Definition UF (g : graph) (d0 : dataset) (R : list string) : Prop :=
  gok g /\ (forall d, In d (holder_nodes g "write") <-> d = d0) /\ holder_nodes g "cte" = [] /\
  (forall x, tset g "read" x <-> In x R).

Lemma UF_init d0 : data_ok d0 -> UF (add_write empty_graph d0) d0 [].
Proof.
  intros Hd. destruct (WF_init d0 Hd) as (W1 & W2 & W3 & W4). split; [exact W1|]. split; [|split; [exact W3|]].
  - intros d. rewrite W2. cbn [In]. split; [intros [H|[]]; auto|intros ->; auto].
  - intros x. unfold tset. rewrite W4. cbn [In]. split; [intros (d & [] & _)|tauto].
Qed.

Lemma UF_cstep g g' d0 R : UF g d0 R -> cstep g g' -> UF g' d0 R.
Proof.
  intros (U1 & U2 & U3 & U4) [C1 C2]. split; [exact C1|]. split; [|split].
  - intros d. rewrite C2. apply U2.
  - rewrite C2. exact U3.
  - intros x. rewrite (tset_ext g g' "read" x (C2 "read")). apply U4.
Qed.

Lemma UF_Pre g d0 R : UF g d0 R -> Pre g [].
Proof.
  intros (U1 & U2 & U3 & U4). split; [exact U1|]. split.
  - unfold cte_rel, sq_cte. rewrite U3. split; [intros c []|intros n []].
  - intros d1 d2 H1 H2. apply U2 in H1. apply U2 in H2. subst. apply dataset_eqb_refl.
Qed.

Lemma UF_ext g d0 R R' : (forall x, In x R <-> In x R') -> UF g d0 R -> UF g d0 R'.
Proof. intros H (U1 & U2 & U3 & U4). split; [exact U1|]. split; [exact U2|]. split; [exact U3|]. intros x. rewrite U4. apply H. Qed.

Lemma UF_Post g g' d0 R R' : UF g d0 R -> dk d0 = KTable -> Post g g' R' -> UF g' d0 (R ++ R').
Proof.
  intros (U1 & U2 & U3 & U4) Hk (A1 & A2 & A3 & A4 & A5). split; [exact A1|]. split; [|split].
  - intros d. split.
    + intros Hd. apply U2. apply A3. exact Hd.
    + intros ->. apply A4; [apply U2; reflexivity|rewrite Hk; discriminate].
  - fold (sq_cte g'). fold (sq_cte g) in U3. destruct (sq_cte g') as [|c r]; [reflexivity|].
    exfalso. assert (Hc : In c (sq_cte g)) by (apply A5; left; reflexivity). rewrite U3 in Hc. destruct Hc.
  - intros x. rewrite A2, U4, in_app_iff. reflexivity.
Qed.

Lemma UF_add_reads g d0 R ts R' :
  UF g d0 R -> Forall data_ok ts -> (forall x, tnames ts x <-> In x R') -> UF (fold_left add_read ts g) d0 (R ++ R').
Proof.
  intros (U1 & U2 & U3 & U4) Hts Hx. destruct (fold_add_read ts g U1 Hts) as (F1 & F2 & F3).
  split; [exact F1|]. split; [|split].
  - intros d. rewrite F2 by discriminate. apply U2.
  - rewrite F2 by discriminate. exact U3.
  - intros x. rewrite F3, U4, in_app_iff. fold (tnames ts x). rewrite Hx. reflexivity.
Qed.

Lemma UF_writes g d0 R x : UF g d0 R -> dk d0 = KTable -> (tset g "write" x <-> x = dstr d0).
Proof.
  intros (U1 & U2 & U3 & U4) Hk. unfold tset. split.
  - intros (d & Hd & _ & Hs). apply U2 in Hd. subst. reflexivity.
  - intros ->. exists d0. split; [apply U2; reflexivity|auto].
Qed.

Definition IHK_of (ctes : list string) (K : nat) :=
  fun k' q' f' ctx' (_ : k' < K) Hq' Hf' Hp' =>
    body_main_md noise Hnoise e Henv ctes k' q' f' ctx' (r_brq noise k' q') Hq' Hf' Hp' (or_intror eq_refl).

(** ** UPDATE: what the extractor computes - the WHERE clause plays no role *)
Lemma update_ok t al sets from cj wh :
  tref_ok t = true -> opt_id_ok al = true -> sets_ok sets = true ->
  (from = [] \/ body_ok (S (q_size (QSelect [] from cj wh))) (QSelect [] from cj None) = true) ->
  exists g, analyze e false (r_dml noise (DUpdate t al sets from cj wh)) = Ok g /\ gok g /\
    (forall x, tset g "read" x <-> In x (q_reads (S (q_size (QSelect [] from cj wh))) (e_cfg e) [] (QSelect [] from cj None))) /\
    (forall x, tset g "write" x <-> x = tref_str (e_cfg e) t).
Proof.
  intros Ht Hal Hsets Hfrom. set (k := q_size (QSelect [] from cj wh)) in *.
  set (fcs := match from with [] => [] | _ => [r_fc noise k from cj] end).
  set (L := [kw "update"; r_tref t] ++ al_list noise al ++ [r_scl noise sets] ++ fcs ++ r_wh noise k wh).
  set (stmt := node "update_statement" ["update_statement"] (sep noise L)).
  assert (Es : r_dml noise (DUpdate t al sets from cj wh) = stmt) by (destruct from; reflexivity).
  rewrite Es.
  assert (Ea : analyze e false stmt = extract (S (3 * depth stmt + 9)) e XUpdate stmt empty_ctx).
  { replace (S (3 * depth stmt + 9)) with (3 * depth stmt + 10) by lia. reflexivity. }
  assert (Elcs : list_child_segments stmt true = L).
  { unfold stmt. rewrite (lcs_node noise Hnoise) by reflexivity. unfold L, fcs. destruct al, from, wh as [[c sq]|]; reflexivity. }
  assert (Hin : forall x, In x L -> S (depth x) <= depth stmt).
  { intros x Hx. apply depth_child. unfold stmt. cbn [children node]. apply (In_sep noise). exact Hx. }
  assert (Hd3 : 3 <= depth stmt).
  { assert (H1 : In (r_scl noise sets) L) by (unfold L; rewrite !in_app_iff; right; right; left; left; reflexivity).
    pose proof (Hin _ H1) as H2. assert (H3 : 2 <= depth (r_scl noise sets)).
    { unfold r_scl. apply (depth_kw_child _ _ "set"). apply (In_sep noise). left. reflexivity. }
    lia. }
  assert (Hfc : from <> [] -> S (depth (r_fc noise k from cj)) <= depth stmt).
  { intros Hne. apply Hin. unfold L, fcs. rewrite !in_app_iff. right. right. right. left. destruct from; [contradiction|left; reflexivity]. }
  rewrite Ea, extract_upd_eq, Elcs. clearbody stmt. change (init_holder empty_ctx) with empty_graph.
  unfold L. cbn [app fold_left]. rewrite upd_kw, upd_tref.
  destruct (table_of_seg_tref_md e Henv t None Ht) as (d0 & Et & Hk0 & Hd0 & Hs0). rewrite Et.
  pose proof (UF_init d0 Hd0) as HU0. set (g0 := add_write empty_graph d0) in *.
  set (cols := map setc_xcol sets).
  assert (Hcols : Forall xcol_ok cols).
  { unfold cols. apply Forall_forall. intros x Hx. apply in_map_iff in Hx. destruct Hx as (s & <- & Hs).
    apply setc_xcol_ok. unfold sets_ok in Hsets. rewrite forallb_forall in Hsets. apply Hsets. exact Hs. }
  assert (E1 : fold_left (upd_step e stmt) (al_list noise al ++ r_scl noise sets :: fcs ++ r_wh noise k wh) (Ok (g0, false, [], [])) =
               fold_left (upd_step e stmt) (fcs ++ r_wh noise k wh) (Ok (g0, false, cols, []))).
  { destruct al as [a|]; cbn [al_list app fold_left]; [rewrite upd_alias|]; rewrite upd_scl, upd_setcols_scl; reflexivity. }
  rewrite E1. clear E1.
  assert (Ewh : forall g subs, fold_left (upd_step e stmt) (r_wh noise k wh) (Ok (g, false, cols, subs)) = Ok (g, false, cols, subs)).
  { intros g subs. destruct wh as [[c sq]|]; [|reflexivity]. cbn [r_wh fold_left]. apply upd_where. }
  (* the tail: collect the column lineage, then the sub-queries *)
  assert (Htail : forall g2 R (T : list sqT),
            UF g2 d0 R ->
            Forall (fun t0 : sqT => fst (fst t0) < S k /\ body_ok (fst (fst t0)) (snd (fst t0)) = true /\
                                    qd (fst (fst t0)) (snd (fst t0)) < 3 * depth stmt + 9) T ->
            exists g, (do g1 <- upd_collin e cols g2; ex_subquery (3 * depth stmt + 9) e (map (mk_sq noise) T) g1) = Ok g /\
                      UF g d0 (R ++ flat_map (fun t0 : sqT => q_reads (fst (fst t0)) (e_cfg e) [] (snd (fst t0))) T)).
  { intros g2 R T HU HT. destruct (upd_collin_ok cols g2 (proj1 HU) Hcols) as (g3 & E3 & Hc3). rewrite E3.
    pose proof (UF_cstep _ _ _ _ HU Hc3) as HU3.
    destruct (ex_subquery_ok noise Hnoise e [] (S k) (IHK_of [] (S k)) (3 * depth stmt + 9) T g3 HT (UF_Pre _ _ _ HU3)) as (g4 & E4 & HP4).
    exists g4. split; [exact E4|]. apply (UF_Post _ _ _ _ _ HU3 Hk0 HP4). }
  destruct Hfrom as [Hnil|Hq].
  - subst from. unfold fcs. cbn [app]. rewrite Ewh.
    destruct (Htail g0 [] [] HU0 (Forall_nil _)) as (g & E & HU). cbn [map] in E. rewrite E.
    exists g. split; [reflexivity|]. split; [exact (proj1 HU)|]. split.
    + intros x. rewrite (proj2 (proj2 (proj2 HU)) x). reflexivity.
    + intros x. rewrite (UF_writes _ _ _ x HU Hk0), Hs0. reflexivity.
  - destruct (body_ok_select k [] from cj None Hq) as (_ & Hne & Hrels & _).
    pose proof (FL_ok e k [] from cj None Hq) as Hfl.
    assert (Efcs : fcs = [r_fc noise k from cj]) by (unfold fcs; destruct from; [contradiction|reflexivity]).
    rewrite Efcs. cbn [app fold_left]. rewrite upd_fc, (list_subquery_fc noise Hnoise k from cj Hne Hfl).
    destruct (list_tables_fc_md noise Hnoise e Henv k from cj g0 [] Hne Hfl (proj1 HU0) (proj1 (proj2 (UF_Pre _ _ _ HU0))))
      as (ts & E2 & Hts & Hx).
    rewrite E2, Ewh. cbn [app].
    assert (Esq : flat_map (fee_sq noise) (FL k from cj) = map (mk_sq noise) (sel_T k from cj None)).
    { rewrite <- sel_sq_T. unfold sel_sq. cbn [wh_sq]. rewrite app_nil_r. reflexivity. }
    rewrite Esq.
    assert (Hqd : qd (S k) (QSelect [] from cj None) <= depth stmt).
    { pose proof (depth_qd noise (S k) (QSelect [] from cj None)) as H1.
      assert (H2 : depth (r_query noise (S k) (QSelect [] from cj None)) <= depth stmt).
      { apply depth_select_le; [|lia]. unfold clauses. cbn [r_wh app In]. intros c [<-|[<-|[]]]; [|apply Hfc; exact Hne].
        change (depth (r_sc noise [])) with 2. lia. }
      lia. }
    destruct (Htail (fold_left add_read ts g0) ([] ++ flat_map (fun p => rel_reads e [] (snd p)) (FL k from cj)) (sel_T k from cj None)) as (g & E & HU).
    { apply UF_add_reads; assumption. }
    { pose proof (sel_T_ok e [] k [] from cj None Hq) as HT. rewrite Forall_forall in *. intros t0 Ht0. destruct (HT t0 Ht0) as (T1 & T2 & T3).
      split; [exact T1|]. split; [exact T2|lia]. }
    rewrite E. exists g. split; [reflexivity|]. split; [exact (proj1 HU)|]. split.
    + intros x. rewrite (proj2 (proj2 (proj2 HU)) x). cbn [app]. rewrite in_app_iff.
      rewrite <- (sel_reads_eq e [] k [] from cj None Hq x). tauto.
    + intros x. rewrite (UF_writes _ _ _ x HU Hk0), Hs0. reflexivity.
Qed.

End NavU.

(* ================================================================== *)
(** * UPDATE: theorems *)
Lemma qfrag_body_ok k q : qfrag_ok k q = true -> body_ok k q = true.
Proof.
  unfold qfrag_ok. intros H. apply andb_true_iff in H. destruct H as [H H3]. apply andb_true_iff in H. destruct H as [H1 H2].
  apply (body_ok_of k [] q H1 H2 H3).
Qed.

Lemma dml_conclusion e r g t (l : list string) :
  r = Ok g -> gok g -> (forall x, tset g "read" x <-> In x l) -> (forall x, tset g "write" x <-> x = tref_str (e_cfg e) t) ->
  stmt_reads r = sort_strings (dedup_s l []) /\ stmt_writes r = sort_strings [tref_str (e_cfg e) t].
Proof.
  intros Er Hg Hr Hw. split.
  - apply (stmt_reads_spec r g); assumption.
  - apply (stmt_writes_spec r g); [exact Er|exact Hg|repeat constructor; intros []|].
    intros x. rewrite Hw. cbn [In]. split; [intros ->; left; reflexivity|intros [H|[]]; symmetry; exact H].
Qed.

(** what the implementation does on every UPDATE of the fragment, with or without a WHERE-IN sub-query:
    the tables read are those of the FROM list (at any depth), the WHERE clause is not looked at *)
Theorem lemma_A_update_impl : forall noise e t al sets from cj wh,
  noise_ok noise = true -> env_ok_md e = true -> dml_ok_base (DUpdate t al sets from cj wh) = true ->
  let d := DUpdate t al sets from cj wh in
  stmt_reads (analyze e false (r_dml noise d)) = sort_strings (upd_impl_reads (e_cfg e) d) /\
  stmt_writes (analyze e false (r_dml noise d)) = sort_strings (dml_writes (e_cfg e) d).
Proof.
  intros noise e t al sets from cj wh Hn He Hok d.
  unfold dml_ok_base in Hok. cbn [dml_target dml_query] in Hok.
  apply andb_true_iff in Hok. destruct Hok as [Ht Hok]. apply andb_true_iff in Hok. destruct Hok as [Hok Hfrom].
  apply andb_true_iff in Hok. destruct Hok as [Hok Hsets]. apply andb_true_iff in Hok. destruct Hok as [Hal _].
  assert (Hfrom' : from = [] \/ body_ok (S (q_size (QSelect [] from cj wh))) (QSelect [] from cj None) = true).
  { unfold from_ok in Hfrom. destruct from as [|r0 rest]; [left; reflexivity|right]. apply qfrag_body_ok. exact Hfrom. }
  destruct (update_ok noise Hn e He t al sets from cj wh Ht Hal Hsets Hfrom') as (g & E & G1 & G2 & G3).
  exact (dml_conclusion e _ g t _ E G1 G2 G3).
Qed.
Print Assumptions lemma_A_update_impl.

(** Lemma A for UPDATE, for the specification property C01 implies ([dml_reads]: FROM relations and WHERE-IN sub-query):
    it holds when there is no WHERE-IN sub-query *)
Theorem lemma_A_update : forall noise e t al sets from cj,
  noise_ok noise = true -> env_ok_md e = true -> dml_ok (DUpdate t al sets from cj None) = true ->
  let d := DUpdate t al sets from cj None in
  stmt_reads (analyze e false (r_dml noise d)) = sort_strings (dml_reads (e_cfg e) d) /\
  stmt_writes (analyze e false (r_dml noise d)) = sort_strings (dml_writes (e_cfg e) d).
Proof.
  intros noise e t al sets from cj Hn He Hok d. unfold dml_ok in Hok. apply andb_true_iff in Hok. destruct Hok as [Hok _].
  exact (lemma_A_update_impl noise e t al sets from cj None Hn He Hok).
Qed.
Print Assumptions lemma_A_update.

(** ... and is FALSE with one: the sub-query's tables are not reported
    (update t set a = b from u where c in (select c from v): the implementation reads only u) *)
Definition e_dml : env := mk_env "ansi" "" "" {| p_truthy := false; p_cols := [] |} [].
Definition sel1 (c t : string) : query := QSelect [IExpr (EColRef None c) None] [RTable (None, t) None] false None.
Definition upd_where_cx : dml :=
  DUpdate (None, "t") None [("a", None, "b")] [RTable (None, "u") None] false (Some ("c", sel1 "c" "v")).
Definition upd_where_cx2 : dml :=
  DUpdate (None, "t") None [("a", None, "b")] [] false (Some ("c", sel1 "c" "v")).

Lemma upd_where_cx_guard : forallb (fun d => noise_ok [] && env_ok_md e_dml && dml_ok_base d) [upd_where_cx; upd_where_cx2] = true.
Proof. vm_compute. reflexivity. Qed.

Lemma upd_where_cx_fails :
  map (lemma_A_dml_check dml_ok_base [] e_dml) [upd_where_cx; upd_where_cx2] = ["FAILS"; "FAILS"] /\
  stmt_reads (analyze e_dml false (r_dml [] upd_where_cx)) = ["<default>.u"] /\
  sort_strings (dml_reads "" upd_where_cx) = ["<default>.u"; "<default>.v"].
Proof. vm_compute. repeat split; reflexivity. Qed.

(** known-finding witness, self-contained: the statement
      update t set a = b from u where c in (select c from v)
    (its parser tree is [r_dml [] upd_where_cx]: first fixed case of check_render_dml.py), default schema unset.
    The extractor model reports u as the only table read; the specification of C01 has u and v. *)
Lemma update_where_in_known_finding :
  upd_where_cx = DUpdate (None, "t") None [("a", None, "b")] [RTable (None, "u") None] false
                         (Some ("c", QSelect [IExpr (EColRef None "c") None] [RTable (None, "v") None] false None)) /\
  noise_ok [] = true /\ env_ok_md e_dml = true /\ dml_ok_base upd_where_cx = true /\ e_cfg e_dml = "" /\
  stmt_reads (analyze e_dml false (r_dml [] upd_where_cx)) = ["<default>.u"] /\
  stmt_writes (analyze e_dml false (r_dml [] upd_where_cx)) = ["<default>.t"] /\
  sort_strings (dml_reads "" upd_where_cx) = ["<default>.u"; "<default>.v"] /\
  sort_strings (dml_writes "" upd_where_cx) = ["<default>.t"].
Proof. vm_compute. repeat split; reflexivity. Qed.
Print Assumptions update_where_in_known_finding.

Theorem lemma_A_dml_where_refuted : ~ lemma_A_dml_md_statement dml_ok_base.
Proof.
  intros H. destruct (H [] e_dml upd_where_cx) as [Hr _]; try (vm_compute; reflexivity).
  vm_compute in Hr. discriminate Hr.
Qed.
Print Assumptions lemma_A_dml_where_refuted.

(** non-vacuity: UPDATE instances inside the guards *)
Definition selj1 : query :=
  QSelect [IStar None] [RTable (None, "x") (Some "p"); RDerived (sel1 "c" "y") "q"; RTable (Some "s", "z") None] false (Some ("c", sel1 "c" "inner")).
Definition upd_ex1 : dml :=
  DUpdate (Some "s", "t") (Some "x") [("a", Some "u", "b"); ("c", None, "d")]
          [RTable (None, "u") None; RDerived selj1 "w"; RDerived (QUnion (sel1 "a" "ua") (sel1 "a" "ub")) "w2"] true None.
Example update_nonvacuous :
  noise_ok noise3 = true /\ env_ok_md e_dml = true /\ dml_ok upd_ex1 = true /\ dml_ok_base upd_where_cx = true /\
  sort_strings (dml_reads "" upd_ex1) = ["<default>.inner"; "<default>.u"; "<default>.ua"; "<default>.ub"; "<default>.x"; "<default>.y"; "s.z"] /\
  stmt_reads (analyze e_dml false (r_dml noise3 upd_ex1)) = sort_strings (dml_reads "" upd_ex1) /\
  stmt_writes (analyze e_dml false (r_dml noise3 upd_ex1)) = ["s.t"].
Proof. vm_compute. repeat split; reflexivity. Qed.

(* ================================================================== *)
(** * Part M0: the MERGE extractor, unfolded *)
Definition mrg_set_body (direct : option dataset) (g2 : graph) (sc : seg) : res graph :=
  match get_children sc ["column_reference"] with
  | [c0; c1] =>
      do sq <- extract_column_qualifier c1;
      do tcol <- (match st_write g2 with
                  | w :: _ =>
                      do tq <- extract_column_qualifier c0;
                      Ok (match tq with Some t => Some (plain_col (fst t) (Some w)) | None => None end)
                  | [] => Ok None
                  end);
      match sq, tcol with
      | Some sc0, Some tc => add_column_lineage g2 (plain_col (fst sc0) direct) tc
      | _, _ => Ok g2
      end
  | _ => Ok g2
  end.
Definition mrg_set (direct : option dataset) (accg2 : res graph) (sc : seg) : res graph :=
  do g2 <- accg2; mrg_set_body direct g2 sc.

Definition mrg_matched (direct : option dataset) (accg : res graph) (wm : seg) : res graph :=
  do gg <- accg;
  match get_child wm ["merge_update_clause"] with
  | Some muc =>
    match get_child muc ["set_clause_list"] with
    | Some scl => fold_left (mrg_set direct) (get_children scl ["set_clause"]) (Ok gg)
    | None => Ok gg
    end
  | None => Ok gg
  end.

Definition mrg_value_body (direct : option dataset) (ins : list column) (g3 : graph) (j : nat) (ex : seg) : res graph :=
   match get_child ex ["column_reference"] with
   | Some cro =>
       do q <- extract_column_qualifier cro;
       match q with
       | Some c =>
           match nth_error ins j with
           | Some tc => add_column_lineage g3 (plain_col (fst c) direct) tc
           | None => Ok g3
           end
       | None => Ok g3
       end
   | None => Ok g3
   end.
Definition mrg_value (direct : option dataset) (ins : list column) (acc3 : res graph * nat) (ex : seg) : res graph * nat :=
  let '(rg, j) := acc3 in (do g3 <- rg; mrg_value_body direct ins g3 j ex, S j).

Definition mrg_inscol (gg : graph) (cr : seg) : res (list column) :=
  match st_write gg with
  | w :: _ =>
      do q <- extract_column_qualifier cr;
      match q with
      | Some c => Ok [plain_col (fst c) (Some w)]
      | None => Ok []
      end
  | [] => Ok []
  end.

Definition mrg_not_matched (direct : option dataset) (accg : res graph) (wn : seg) : res graph :=
  do gg <- accg;
  match get_child wn ["merge_insert_clause"] with
  | Some mi =>
    match get_child mi ["bracketed"] with
    | Some b =>
        do ins <- concat_res (map (mrg_inscol gg) (get_children b ["column_reference"]));
        match get_child mi ["values_clause"] with
        | Some vc =>
          match get_child vc ["bracketed"] with
          | Some vb => fst (fold_left (mrg_value direct ins) (get_children vb ["literal"; "expression"]) (Ok gg, 0))
          | None => Ok gg
          end
        | None => Ok gg
        end
    | None => Ok gg
    end
  | None => Ok gg
  end.

Definition mrg_acc := (graph * bool * bool * option dataset)%type.

Definition mrg_step (fuel : nat) (e : env) (segments : list seg) (accp : res mrg_acc * nat) (s : seg) : res mrg_acc * nat :=
    let '(acc, i) := accp in
    (do a <- acc;
     let '(g, tgt_flag, src_flag, direct) := a in
     do step1 <-
       (if tyis s "merge_match" then
          do g1 <- fold_left (mrg_matched direct) (get_children s ["merge_when_matched_clause"]) (Ok g);
          do g2 <- fold_left (mrg_not_matched direct) (get_children s ["merge_when_not_matched_clause"]) (Ok g1);
          Ok (g2, tgt_flag, src_flag, direct, false)
        else if tyis s "keyword" then
          let u := raw_upper s in
          if mem_string u ["MERGE"; "INTO"] then Ok (g, true, src_flag, direct, true)
          else if String.eqb u "USING" then Ok (g, tgt_flag, true, direct, true)
          else Ok (g, tgt_flag, src_flag, direct, true)
        else Ok (g, tgt_flag, src_flag, direct, false));
     let '(g1, tf, sf, dr, continued) := step1 in
     if continued then Ok (g1, tf, sf, dr)
     else
       do g2 <- (if tf then do t <- find_table e s; Ok (match t with Some d => add_write g1 d | None => g1 end) else Ok g1);
       if sf then
         do t <- find_table e s;
         match t with
         | Some d => Ok (add_read g2 d, false, false, Some d)
         | None =>
             if tyis s "bracketed" then
               do nx <- nth_res segments (S i);
               do alias <- (if tyis nx "alias_expression" then do a <- extract_identifier nx; Ok (Some a) else Ok None);
               let q := extract_innermost_bracketed s in
               let ds := mk_subquery q alias in
               let g3 := add_read g2 ds in
               let cls := match get_child q ["with_compound_statement"] with Some _ => XCte | None => XSelect end in
               do sub <- extract fuel e cls q {| c_cte := Some (sq_cte g3); c_write := Some [ds]; c_write_columns := None |};
               Ok (compose g3 sub, false, false, Some ds)
             else Ok (g2, false, false, dr)
         end
       else Ok (g2, false, sf, dr), S i).

Lemma extract_merge_eq fuel e stmt :
  extract_merge fuel e stmt =
  (do r <- fst (fold_left (mrg_step fuel e (list_child_segments stmt true)) (list_child_segments stmt true)
                          (Ok (empty_graph, false, false, None), 0));
   Ok (fst (fst (fst r)))).
Proof. reflexivity. Qed.

(* ================================================================== *)
(** * Part M1: navigation on the rendered MERGE *)
Section NavM.
Variable noise : list seg.
Hypothesis Hnoise : noise_ok noise = true.
Variable e : env.
Hypothesis Henv : env_ok_md e = true.

(** the holder of a MERGE: [d0] is the only table written (the source sub-query may be tagged as written as well:
    StatementLineageHolder.write ignores sub-queries), the tables read are [R] *)
Definition MF (g : graph) (d0 : dataset) (R : list string) : Prop :=
  gok g /\ data_ok d0 /\ dk d0 = KTable /\ (forall d, In d (st_write g) <-> d = d0) /\ (forall x, tset g "read" x <-> In x R).

Lemma st_write_cstep g g' : cstep g g' -> st_write g' = st_write g.
Proof. intros [_ C]. unfold st_write, sq_write. rewrite C. reflexivity. Qed.

Lemma MF_cstep g g' d0 R : MF g d0 R -> cstep g g' -> MF g' d0 R.
Proof.
  intros (M1 & M2 & M3 & M4 & M5) Hc. split; [exact (proj1 Hc)|]. split; [exact M2|]. split; [exact M3|]. split.
  - intros d. rewrite (st_write_cstep g g' Hc). apply M4.
  - intros x. rewrite (tset_ext g g' "read" x (proj2 Hc "read")). apply M5.
Qed.

Lemma MF_of_UF g d0 R : UF g d0 R -> data_ok d0 -> dk d0 = KTable -> MF g d0 R.
Proof.
  intros (U1 & U2 & U3 & U4) Hd Hk. split; [exact U1|]. split; [exact Hd|]. split; [exact Hk|]. split; [|exact U4].
  intros d. unfold st_write, sq_write. rewrite filter_In, U2. split; [tauto|]. intros ->. rewrite Hk. auto.
Qed.

Lemma MF_w0 g d0 R : MF g d0 R -> nth_res (st_write g) 0 = Ok d0.
Proof.
  intros (_ & _ & _ & M4 & _). destruct (st_write g) as [|w r] eqn:E.
  - exfalso. apply (proj2 (M4 d0) eq_refl).
  - rewrite (proj1 (M4 w) (or_introl eq_refl)). reflexivity.
Qed.

Lemma MF_writes g d0 R x : MF g d0 R -> (tset g "write" x <-> x = dstr d0).
Proof.
  intros (M1 & _ & _ & M4 & _). rewrite <- (st_write_tset g x M1), in_map_iff. split.
  - intros (d & Hs & Hd). apply M4 in Hd. subst. reflexivity.
  - intros ->. exists d0. split; [reflexivity|apply M4; reflexivity].
Qed.

Definition dr_ok (dr : option dataset) : Prop := match dr with Some p => data_ok p | None => True end.

Lemma plain_src_ok name dr : dr_ok dr -> nok (NCol (plain_col name dr)).
Proof. intros H. cbn [nok plain_col cparents]. destruct dr; [constructor; [exact H|constructor]|constructor]. Qed.

Lemma plain_tgt_ok name w : data_ok w -> col1 (plain_col name (Some w)).
Proof. intros H. split; [cbn [nok plain_col cparents]; constructor; [exact H|constructor]|exists w; reflexivity]. Qed.

(** *** WHEN MATCHED THEN UPDATE SET ... *)
Lemma mrg_set_ok dr g w s :
  gok g -> nth_res (st_write g) 0 = Ok w -> data_ok w -> dr_ok dr ->
  exists g', mrg_set_body dr g (r_setc noise s) = Ok g' /\ cstep g g'.
Proof.
  intros Hg Hw Hdw Hdr. unfold mrg_set_body.
  assert (E : get_children (r_setc noise s) ["column_reference"] = [r_colref None (fst (fst s)); r_colref (snd (fst s)) (snd s)]).
  { unfold r_setc. rewrite (get_children_sep noise Hnoise) by reflexivity. reflexivity. }
  rewrite E, !ecq_colref. destruct (st_write g) as [|w' r]; [discriminate Hw|]. inversion Hw. subst w'. cbn [fst].
  apply add_column_lineage_ok; [exact Hg|apply plain_src_ok; exact Hdr|apply plain_tgt_ok; exact Hdw].
Qed.

Lemma mrg_sets_ok dr g w sets :
  gok g -> nth_res (st_write g) 0 = Ok w -> data_ok w -> dr_ok dr ->
  exists g', fold_left (mrg_set dr) (map (r_setc noise) sets) (Ok g) = Ok g' /\ cstep g g'.
Proof.
  intros Hg Hw Hdw Hdr.
  change (fold_left (mrg_set dr)) with (fold_left (fun acc x => match acc with Ok y => mrg_set_body dr y x | Err err => Err err end)).
  apply (fold_res_inv (fun g' => cstep g g') (mrg_set_body dr)); [apply cstep_refl; exact Hg|].
  intros b x Hx Hb. apply in_map_iff in Hx. destruct Hx as (s & <- & _).
  destruct (mrg_set_ok dr b w s (proj1 Hb)) as (b' & E & Hb'); [rewrite (st_write_cstep g b Hb); exact Hw|exact Hdw|exact Hdr|].
  exists b'. split; [exact E|]. apply (cstep_trans _ _ _ Hb Hb').
Qed.

Lemma gc_mm_matched upd ins :
  get_children (r_merge_match noise upd ins) ["merge_when_matched_clause"] = r_matched noise upd.
Proof.
  unfold r_merge_match. rewrite (get_children_sep noise Hnoise) by reflexivity. rewrite filter_app.
  destruct upd as [|s0 r]; destruct ins as [[cols vals]|]; reflexivity.
Qed.

Lemma gc_mm_not_matched upd ins :
  get_children (r_merge_match noise upd ins) ["merge_when_not_matched_clause"] = r_not_matched noise ins.
Proof.
  unfold r_merge_match. rewrite (get_children_sep noise Hnoise) by reflexivity. rewrite filter_app.
  destruct upd as [|s0 r]; destruct ins as [[cols vals]|]; reflexivity.
Qed.

Lemma mrg_matched_ok dr g w upd :
  gok g -> nth_res (st_write g) 0 = Ok w -> data_ok w -> dr_ok dr ->
  exists g', fold_left (mrg_matched dr) (r_matched noise upd) (Ok g) = Ok g' /\ cstep g g'.
Proof.
  intros Hg Hw Hdw Hdr. destruct upd as [|s0 r]; [exists g; split; [reflexivity|apply cstep_refl; exact Hg]|].
  cbn [r_matched fold_left]. set (upd := s0 :: r). unfold mrg_matched.
  match goal with |- context [get_child ?wm ["merge_update_clause"]] =>
    assert (E1 : get_child wm ["merge_update_clause"] =
                 Some (node "merge_update_clause" ["merge_update_clause"] (sep noise [kw "update"; r_scl noise upd])))
      by (unfold get_child; rewrite (get_children_sep noise Hnoise) by reflexivity; reflexivity) end.
  rewrite E1.
  match goal with |- context [get_child ?muc ["set_clause_list"]] =>
    assert (E2 : get_child muc ["set_clause_list"] = Some (r_scl noise upd))
      by (unfold get_child; rewrite (get_children_sep noise Hnoise) by reflexivity; reflexivity) end.
  rewrite E2, (gc_scl noise Hnoise). apply (mrg_sets_ok dr g w upd Hg Hw Hdw Hdr).
Qed.

(** *** WHEN NOT MATCHED THEN INSERT (cols) VALUES (vals) *)
Definition r_valx (v : option string * string) : seg := node "expression" ["expression"] [r_colref (fst v) (snd v)].

Lemma gc_bracket_list (l : list seg) ts :
  not_trivia ts = true -> is_type lpar ts = false -> is_type rpar ts = false -> is_type comma ts = false ->
  (forall y, In y l -> is_type y ts = true) ->
  get_children (node "bracketed" ["bracketed"] (sep noise (lpar :: intersperse comma l ++ [rpar]))) ts = l.
Proof.
  intros Hts H1 H2 H3 Hl. rewrite (get_children_sep noise Hnoise) by exact Hts. cbn [filter]. rewrite H1, filter_app.
  cbn [filter]. rewrite H2, app_nil_r. apply filter_intersperse; assumption.
Qed.

Lemma mrg_inscols g w cols :
  nth_res (st_write g) 0 = Ok w ->
  concat_res (map (mrg_inscol g) (map (r_colref None) cols)) = Ok (map (fun c => plain_col c (Some w)) cols).
Proof.
  intros Hw. induction cols as [|c r IH]; [reflexivity|]. cbn [map concat_res]. unfold mrg_inscol at 1.
  destruct (st_write g) as [|w' r'] eqn:Ew; [discriminate Hw|]. inversion Hw. subst w'.
  rewrite ecq_colref, IH. reflexivity.
Qed.

Lemma mrg_not_matched_ok dr g w ins :
  gok g -> nth_res (st_write g) 0 = Ok w -> data_ok w -> dr_ok dr ->
  exists g', fold_left (mrg_not_matched dr) (r_not_matched noise ins) (Ok g) = Ok g' /\ cstep g g'.
Proof.
  intros Hg Hw Hdw Hdr. destruct ins as [[cols vals]|]; [|exists g; split; [reflexivity|apply cstep_refl; exact Hg]].
  cbn [r_not_matched fold_left]. unfold mrg_not_matched.
  set (colsb := node "bracketed" ["bracketed"] (sep noise (lpar :: intersperse comma (map (r_colref None) cols) ++ [rpar]))).
  set (vb := node "bracketed" ["bracketed"] (sep noise (lpar :: intersperse comma (map r_valx vals) ++ [rpar]))).
  set (vc := node "values_clause" ["values_clause"] (sep noise [kw "values"; vb])).
  set (mi := node "merge_insert_clause" ["merge_insert_clause"] (sep noise [kw "insert"; colsb; vc])).
  match goal with |- context [get_child ?wn ["merge_insert_clause"]] =>
    assert (E1 : get_child wn ["merge_insert_clause"] = Some mi)
      by (unfold get_child; rewrite (get_children_sep noise Hnoise) by reflexivity; reflexivity) end.
  rewrite E1.
  assert (E2 : get_child mi ["bracketed"] = Some colsb)
    by (unfold get_child, mi; rewrite (get_children_sep noise Hnoise) by reflexivity; reflexivity).
  assert (E4 : get_child mi ["values_clause"] = Some vc)
    by (unfold get_child, mi; rewrite (get_children_sep noise Hnoise) by reflexivity; reflexivity).
  assert (E5 : get_child vc ["bracketed"] = Some vb)
    by (unfold get_child, vc; rewrite (get_children_sep noise Hnoise) by reflexivity; reflexivity).
  assert (E3 : get_children colsb ["column_reference"] = map (r_colref None) cols).
  { unfold colsb. apply gc_bracket_list; try reflexivity.
    intros y Hy. apply in_map_iff in Hy. destruct Hy as (c & <- & _). reflexivity. }
  assert (E6 : get_children vb ["literal"; "expression"] = map r_valx vals).
  { unfold vb. apply gc_bracket_list; try reflexivity.
    intros y Hy. apply in_map_iff in Hy. destruct Hy as (v & <- & _). reflexivity. }
  rewrite E2, E3, (mrg_inscols g w cols Hw), E4, E5, E6.
  set (ins := map (fun c => plain_col c (Some w)) cols).
  change (fold_left (mrg_value dr ins)) with
    (fold_left (fun (acc : res graph * nat) x => let '(rg, idx) := acc in
                  (match rg with Ok y => mrg_value_body dr ins y idx x | Err err => Err err end, S idx))).
  apply (fold_res_idx_inv (fun g' => cstep g g') (mrg_value_body dr ins)); [apply cstep_refl; exact Hg|].
  intros b j x Hx Hb. apply in_map_iff in Hx. destruct Hx as (v & <- & _).
  unfold mrg_value_body. change (get_child (r_valx v) ["column_reference"]) with (Some (r_colref (fst v) (snd v))).
  cbn iota. rewrite ecq_colref. cbn [fst].
  destruct (nth_error ins j) as [tc|] eqn:En; [|exists b; auto].
  apply nth_error_In in En. unfold ins in En. apply in_map_iff in En. destruct En as (c & <- & _).
  destruct (add_column_lineage_ok b (plain_col (snd v) dr) (plain_col c (Some w)) (proj1 Hb) (plain_src_ok _ dr Hdr) (plain_tgt_ok c w Hdw))
    as (b' & E & Hb').
  exists b'. split; [exact E|]. apply (cstep_trans _ _ _ Hb Hb').
Qed.

(** *** the steps of the MERGE extractor on the rendered children *)
Lemma mrg_kw_merge fuel segs g tf sf dr i :
  mrg_step fuel e segs (Ok (g, tf, sf, dr), i) (kw "merge") = (Ok (g, true, sf, dr), S i).
Proof. reflexivity. Qed.
Lemma mrg_kw_into fuel segs g tf sf dr i :
  mrg_step fuel e segs (Ok (g, tf, sf, dr), i) (kw "into") = (Ok (g, true, sf, dr), S i).
Proof. reflexivity. Qed.
Lemma mrg_kw_using fuel segs g tf sf dr i :
  mrg_step fuel e segs (Ok (g, tf, sf, dr), i) (kw "using") = (Ok (g, tf, true, dr), S i).
Proof. reflexivity. Qed.
Lemma mrg_alias fuel segs g dr i a :
  mrg_step fuel e segs (Ok (g, false, false, dr), i) (r_alias noise a) = (Ok (g, false, false, dr), S i).
Proof. reflexivity. Qed.
Lemma mrg_on fuel segs g dr i :
  mrg_step fuel e segs (Ok (g, false, false, dr), i) (on_clause noise) = (Ok (g, false, false, dr), S i).
Proof. reflexivity. Qed.

Lemma mrg_tref_tgt fuel segs g dr i t :
  mrg_step fuel e segs (Ok (g, true, false, dr), i) (r_tref t) =
  (do d <- table_of_seg e (r_tref t) None; Ok (add_write g d, false, false, dr), S i).
Proof.
  unfold mrg_step. change (tyis (r_tref t) "merge_match") with false. change (tyis (r_tref t) "keyword") with false. cbn iota.
  unfold find_table. change (ty_in (r_tref t) ["table_reference"; "object_reference"]) with true. cbn iota.
  destruct (table_of_seg e (r_tref t) None); reflexivity.
Qed.

Lemma mrg_tref_src fuel segs g dr i t :
  mrg_step fuel e segs (Ok (g, false, true, dr), i) (r_tref t) =
  (do d <- table_of_seg e (r_tref t) None; Ok (add_read g d, false, false, Some d), S i).
Proof.
  unfold mrg_step. change (tyis (r_tref t) "merge_match") with false. change (tyis (r_tref t) "keyword") with false. cbn iota.
  unfold find_table. change (ty_in (r_tref t) ["table_reference"; "object_reference"]) with true. cbn iota.
  destruct (table_of_seg e (r_tref t) None); reflexivity.
Qed.

Lemma mrg_brq_src fuel segs g dr i k q a :
  nth_error segs (S i) = Some (r_alias noise a) -> body_ok (S k) q = true ->
  mrg_step fuel e segs (Ok (g, false, true, dr), i) (r_brq noise (S k) q) =
  (let ds := mk_sq noise (S k, q, Some a) in
   do sub <- extract fuel e XSelect (r_brq noise (S k) q)
                     {| c_cte := Some (sq_cte (add_read g ds)); c_write := Some [ds]; c_write_columns := None |};
   Ok (compose (add_read g ds) sub, false, false, Some ds), S i).
Proof.
  intros Hnx Hq. unfold mrg_step. change (tyis (r_brq noise (S k) q) "merge_match") with false.
  change (tyis (r_brq noise (S k) q) "keyword") with false. cbn iota.
  unfold find_table. change (ty_in (r_brq noise (S k) q) ["table_reference"; "object_reference"]) with false. cbn iota.
  change (tyis (r_brq noise (S k) q) "bracketed") with true. cbn iota.
  unfold nth_res. rewrite Hnx. change (tyis (r_alias noise a) "alias_expression") with true. cbn iota.
  rewrite (extract_identifier_alias noise Hnoise a), (innermost_brq noise Hnoise k q), (gc_brq_with noise Hnoise (S k) q Hq).
  reflexivity.
Qed.

Lemma mrg_mm fuel segs g dr i upd ins :
  mrg_step fuel e segs (Ok (g, false, false, dr), i) (r_merge_match noise upd ins) =
  (do g1 <- fold_left (mrg_matched dr) (r_matched noise upd) (Ok g);
   do g2 <- fold_left (mrg_not_matched dr) (r_not_matched noise ins) (Ok g1);
   Ok (g2, false, false, dr), S i).
Proof.
  unfold mrg_step. change (tyis (r_merge_match noise upd ins) "merge_match") with true. cbn iota.
  rewrite gc_mm_matched, gc_mm_not_matched.
  destruct (fold_left (mrg_matched dr) (r_matched noise upd) (Ok g)) as [g1|err]; [|reflexivity].
  destruct (fold_left (mrg_not_matched dr) (r_not_matched noise ins) (Ok g1)) as [g2|err]; reflexivity.
Qed.

(** the source sub-query: composed into the holder without clearing its write tag *)
Lemma merge_sub f k q a g d0 R :
  UF g d0 R -> data_ok d0 -> dk d0 = KTable -> body_ok k q = true -> qd k q < f ->
  let ds := mk_sq noise (k, q, Some a) in
  exists sub, extract f e XSelect (r_brq noise k q)
                      {| c_cte := Some (sq_cte (add_read g ds)); c_write := Some [ds]; c_write_columns := None |} = Ok sub /\
              MF (compose (add_read g ds) sub) d0 (R ++ q_reads k (e_cfg e) [] q) /\ data_ok ds.
Proof.
  intros (U1 & U2 & U3 & U4) Hd0 Hk0 Hq Hf ds.
  assert (Hds : data_ok ds /\ dk ds = KSubq) by (split; [unfold data_ok; cbn; discriminate|reflexivity]).
  set (g3 := add_read g ds).
  assert (G3 : gok g3) by (apply gok_add_read; [exact U1|exact (proj1 Hds)]).
  assert (G3o : forall k', k' <> "read" -> holder_nodes g3 k' = holder_nodes g k')
    by (intros k' Hk'; apply tag_add_read_other; [exact (proj1 Hds)|exact Hk']).
  assert (G3r : forall x, tset g3 "read" x <-> In x R).
  { intros x. unfold g3. rewrite (tset_add_read g ds x U1 (proj1 Hds)), U4. split; [intros [H|[H _]]; [exact H|]|auto].
    rewrite (proj2 Hds) in H. discriminate. }
  assert (Ecte : sq_cte g3 = []) by (unfold sq_cte; rewrite G3o by discriminate; exact U3).
  rewrite Ecte. set (ctx := {| c_cte := Some []; c_write := Some [ds]; c_write_columns := None |}).
  destruct (init_sub [] ds I (Forall_nil _) (proj1 Hds) (proj2 Hds)) as (I1 & I2 & I3 & I4). fold ctx in I1, I2, I3, I4.
  assert (Hpre : Pre (init_holder ctx) []).
  { split; [exact I1|]. split; [|apply (one_write_eqb _ ds); exact I4]. unfold cte_rel. rewrite I2. split; [intros c []|intros n []]. }
  destruct (body_main_md noise Hnoise e Henv [] k q f ctx (r_brq noise k q) Hq Hf Hpre (or_intror eq_refl)) as (sub & E & (A1 & A2 & A3 & A4 & A5)).
  exists sub. split; [exact E|]. split; [|exact (proj1 Hds)].
  pose proof (gok_compose g3 sub G3 A1) as Hc.
  split; [exact Hc|]. split; [exact Hd0|]. split; [exact Hk0|]. split.
  - intros d. unfold st_write, sq_write. rewrite filter_In. split.
    + intros [Hd Hnk]. destruct (tag_compose_sound g3 sub "write" d A1 Hd) as [H|(d' & Hd' & Ed)].
      * rewrite G3o in H by discriminate. apply U2. exact H.
      * exfalso. apply A3 in Hd'. apply I4 in Hd'. pose proof (dataset_eqb_dk _ _ Hd') as E1. pose proof (dataset_eqb_dk _ _ Ed) as E2.
        rewrite (proj2 Hds) in E1. rewrite <- E2, <- E1 in Hnk. discriminate.
    + intros ->. split; [|rewrite Hk0; reflexivity].
      apply tag_compose_mono; [exact A1|right; rewrite Hk0; discriminate|]. rewrite G3o by discriminate. apply U2. reflexivity.
  - intros x. rewrite (tset_compose g3 sub "read" x G3 A1) by discriminate. rewrite G3r, A2, in_app_iff. unfold tset at 1. rewrite I3.
    split; [intros [H|[(d & [] & _)|H]]; auto|intros [H|H]; auto].
Qed.

Lemma mrg_suffix F segs g d0 R dr i upd ins :
  MF g d0 R -> dr_ok dr ->
  exists g', fst (fold_left (mrg_step F e segs) [on_clause noise; r_merge_match noise upd ins] (Ok (g, false, false, dr), i))
             = Ok (g', false, false, dr) /\ MF g' d0 R.
Proof.
  intros HM Hdr. cbn [fold_left]. rewrite mrg_on, mrg_mm.
  pose proof HM as (M1 & M2 & _).
  destruct (mrg_matched_ok dr g d0 upd M1 (MF_w0 _ _ _ HM) M2 Hdr) as (g1 & E1 & C1). rewrite E1.
  pose proof (MF_cstep _ _ _ _ HM C1) as HM1.
  destruct (mrg_not_matched_ok dr g1 d0 ins (proj1 C1) (MF_w0 _ _ _ HM1) M2 Hdr) as (g2 & E2 & C2). rewrite E2.
  exists g2. split; [reflexivity|]. apply (MF_cstep _ _ _ _ HM1 C2).
Qed.

Lemma merge_core F segs i0 g0 d0 src k upd ins :
  UF g0 d0 [] -> data_ok d0 -> dk d0 = KTable -> body_ok (S k) (QSelect [] [src] false None) = true ->
  (forall q a, src = RDerived q a -> nth_error segs (S i0) = Some (r_alias noise a) /\ qd k q < F) ->
  exists g' dr, fst (fold_left (mrg_step F e segs) (d_using noise k src ++ [on_clause noise; r_merge_match noise upd ins])
                               (Ok (g0, false, true, None), i0)) = Ok (g', false, false, dr) /\
                MF g' d0 (q_reads (S k) (e_cfg e) [] (QSelect [] [src] false None)).
Proof.
  intros HU Hd0 Hk0 Hq Hder. destruct (body_ok_select k [] [src] false None Hq) as (_ & _ & Hrels & _).
  cbn [forallb] in Hrels. rewrite andb_true_r in Hrels.
  destruct src as [u al2|q a|x y]; [| |discriminate].
  - cbn [relk_ok] in Hrels. apply andb_true_iff in Hrels. destruct Hrels as [Hu Hal2].
    cbn [d_using app fold_left]. rewrite mrg_tref_src.
    destruct (table_of_seg_tref_md e Henv u None Hu) as (d1 & Et & Hk1 & Hd1 & Hs1). rewrite Et.
    assert (HU1 : UF (fold_left add_read [d1] g0) d0 ([] ++ [tref_str (e_cfg e) u])).
    { apply UF_add_reads; [exact HU|constructor; [exact Hd1|constructor]|].
      intros x. unfold tnames. cbn [In]. split.
      - intros (v & [Hv|[]] & _ & Hx). subst v. left. congruence.
      - intros [Hx|[]]. exists d1. split; [left; reflexivity|]. split; [exact Hk1|congruence]. }
    cbn [fold_left app] in HU1.
    assert (HM1 : MF (add_read g0 d1) d0 (q_reads (S k) (e_cfg e) [] (QSelect [] [RTable u al2] false None))).
    { assert (Hrd : forall x, In x [tref_str (e_cfg e) u] <-> In x (q_reads (S k) (e_cfg e) [] (QSelect [] [RTable u al2] false None))).
      { intros x. cbn [q_reads flat_map rels_flat app fst snd mem_string]. destruct u as [[s|] n]; cbn [fst snd]; rewrite ?app_nil_r; reflexivity. }
      apply (MF_of_UF _ _ _ (UF_ext _ _ _ _ Hrd HU1) Hd0 Hk0). }
    set (suf := [on_clause noise; r_merge_match noise upd ins]).
    assert (Eal : exists i, fold_left (mrg_step F e segs) (d_alias noise al2 ++ suf) (Ok (add_read g0 d1, false, false, Some d1), S i0) =
                            fold_left (mrg_step F e segs) suf (Ok (add_read g0 d1, false, false, Some d1), i)).
    { destruct al2 as [a2|]; cbn [d_alias app fold_left]; [rewrite mrg_alias|]; eexists; reflexivity. }
    destruct Eal as (i1 & Eal). rewrite Eal. unfold suf.
    destruct (mrg_suffix F segs (add_read g0 d1) d0 _ (Some d1) i1 upd ins HM1 Hd1) as (g' & E & HM').
    exists g', (Some d1). split; [exact E|exact HM'].
  - cbn [relk_ok] in Hrels. apply andb_true_iff in Hrels. destruct Hrels as [Ha Hbq].
    destruct (body_ok_pos k q Hbq) as (k' & ->). destruct (Hder q a eq_refl) as [Hnx Hf].
    cbn [d_using app fold_left]. rewrite (d_brq_eq noise), (mrg_brq_src F segs g0 None i0 k' q a Hnx Hbq). cbv zeta.
    destruct (merge_sub F (S k') q a g0 d0 [] HU Hd0 Hk0 Hbq Hf) as (sub & E & HM & Hds). rewrite E. rewrite mrg_alias.
    assert (HM1 : MF (compose (add_read g0 (mk_sq noise (S k', q, Some a))) sub) d0
                     (q_reads (S (S k')) (e_cfg e) [] (QSelect [] [RDerived q a] false None))).
    { destruct HM as (M1 & M2 & M3 & M4 & M5). split; [exact M1|]. split; [exact M2|]. split; [exact M3|]. split; [exact M4|].
      intros x. rewrite M5. cbn [q_reads flat_map rels_flat app]. rewrite !app_nil_r. reflexivity. }
    destruct (mrg_suffix F segs _ d0 _ (Some (mk_sq noise (S k', q, Some a))) (S (S i0)) upd ins HM1 Hds) as (g' & E' & HM').
    exists g', (Some (mk_sq noise (S k', q, Some a))). split; [exact E'|exact HM'].
Qed.

(** ** MERGE: what the extractor computes *)
Lemma merge_ok t al src upd ins :
  tref_ok t = true -> opt_id_ok al = true ->
  body_ok (S (q_size (QSelect [] [src] false None))) (QSelect [] [src] false None) = true ->
  exists g, analyze e false (r_dml noise (DMerge t al src upd ins)) = Ok g /\ gok g /\
    (forall x, tset g "read" x <-> In x (q_reads (S (q_size (QSelect [] [src] false None))) (e_cfg e) [] (QSelect [] [src] false None))) /\
    (forall x, tset g "write" x <-> x = tref_str (e_cfg e) t).
Proof.
  intros Ht Hal Hq. set (k := q_size (QSelect [] [src] false None)) in *.
  set (tail := d_using noise k src ++ [on_clause noise; r_merge_match noise upd ins]).
  set (L := [kw "merge"; kw "into"; r_tref t] ++ al_list noise al ++ kw "using" :: tail).
  set (stmt := node "merge_statement" ["merge_statement"] (sep noise L)).
  assert (Es : r_dml noise (DMerge t al src upd ins) = stmt).
  { reflexivity. }
  rewrite Es.
  assert (Ea : analyze e false stmt = extract_merge (3 * depth stmt + 10) e stmt) by reflexivity.
  assert (Elcs : list_child_segments stmt true = L).
  { unfold stmt. rewrite (lcs_node noise Hnoise) by reflexivity. unfold L, tail.
    destruct al; destruct src as [u [a2|]|q a|x y]; reflexivity. }
  assert (Hin : forall x, In x L -> S (depth x) <= depth stmt).
  { intros x Hx. apply depth_child. unfold stmt. cbn [children node]. apply (In_sep noise). exact Hx. }
  set (F := 3 * depth stmt + 10) in *.
  assert (Hder : forall q a, src = RDerived q a ->
                   nth_error L (S (4 + List.length (al_list noise al))) = Some (r_alias noise a) /\ qd k q < F).
  { intros q a ->. split; [unfold L, tail; destruct al; reflexivity|].
    assert (Hb : In (r_brq noise k q) L).
    { unfold L, tail. apply in_app_iff. right. apply in_app_iff. right. right. apply in_app_iff. left. left. reflexivity. }
    pose proof (Hin _ Hb). pose proof (depth_sub _ _ (sub_rq_brq noise k q)). pose proof (depth_qd noise k q). unfold F. lia. }
  rewrite Ea, extract_merge_eq, Elcs. clearbody stmt. set (segs := L) at 1. clearbody F.
  assert (Hder' : forall q a, src = RDerived q a ->
                   nth_error segs (S (4 + List.length (al_list noise al))) = Some (r_alias noise a) /\ qd k q < F) by exact Hder.
  clearbody segs. clear Hder.
  unfold L. cbn [app fold_left]. rewrite mrg_kw_merge, mrg_kw_into, mrg_tref_tgt.
  destruct (table_of_seg_tref_md e Henv t None Ht) as (d0 & Et & Hk0 & Hd0 & Hs0). rewrite Et.
  pose proof (UF_init d0 Hd0) as HU0. set (g0 := add_write empty_graph d0) in *.
  assert (Epre : fold_left (mrg_step F e segs) (al_list noise al ++ kw "using" :: tail) (Ok (g0, false, false, None), 3) =
                 fold_left (mrg_step F e segs) tail (Ok (g0, false, true, None), 4 + List.length (al_list noise al))).
  { destruct al as [a0|]; cbn [al_list app fold_left List.length]; [rewrite mrg_alias|]; rewrite mrg_kw_using; reflexivity. }
  rewrite Epre. unfold tail.
  destruct (merge_core F segs _ g0 d0 src k upd ins HU0 Hd0 Hk0 Hq Hder') as (g' & dr & E & HM).
  rewrite E. exists g'. split; [reflexivity|]. split; [exact (proj1 HM)|]. split.
  - exact (proj2 (proj2 (proj2 (proj2 HM)))).
  - intros x. rewrite (MF_writes _ _ _ x HM), Hs0. reflexivity.
Qed.
End NavM.

(* ================================================================== *)
(** * MERGE: theorem *)
Theorem lemma_A_merge : forall noise e t al src upd ins,
  noise_ok noise = true -> env_ok_md e = true -> dml_ok (DMerge t al src upd ins) = true ->
  let d := DMerge t al src upd ins in
  stmt_reads (analyze e false (r_dml noise d)) = sort_strings (dml_reads (e_cfg e) d) /\
  stmt_writes (analyze e false (r_dml noise d)) = sort_strings (dml_writes (e_cfg e) d).
Proof.
  intros noise e t al src upd ins Hn He Hok d. unfold dml_ok in Hok. apply andb_true_iff in Hok. destruct Hok as [Hok _].
  unfold dml_ok_base in Hok. cbn [dml_target dml_query] in Hok.
  apply andb_true_iff in Hok. destruct Hok as [Ht Hok]. apply andb_true_iff in Hok. destruct Hok as [Hok Hsrc].
  apply andb_true_iff in Hok. destruct Hok as [Hok _]. apply andb_true_iff in Hok. destruct Hok as [Hok _].
  apply andb_true_iff in Hok. destruct Hok as [Hal _].
  destruct (merge_ok noise Hn e He t al src upd ins Ht Hal (qfrag_body_ok _ _ Hsrc)) as (g & E & G1 & G2 & G3).
  exact (dml_conclusion e _ g t _ E G1 G2 G3).
Qed.
Print Assumptions lemma_A_merge.

Definition mrg_ex1 : dml :=
  DMerge (None, "t") (Some "x") (RDerived selj1 "s") [("a", Some "s", "a"); ("b", None, "c")]
         (Some (["k"; "a"], [(Some "s", "k"); (Some "s", "a"); (None, "extra")])).
Definition mrg_ex2 : dml :=
  DMerge (Some "db.sch", "t") None (RTable (None, "u") (Some "y")) [] (Some (["k"], [(Some "y", "k")])).
Example merge_nonvacuous :
  noise_ok noise3 = true /\ env_ok_md e_dml = true /\ dml_ok mrg_ex1 = true /\ dml_ok mrg_ex2 = true /\
  sort_strings (dml_reads "" mrg_ex1) = ["<default>.inner"; "<default>.x"; "<default>.y"; "s.z"] /\
  stmt_reads (analyze e_dml false (r_dml noise3 mrg_ex1)) = sort_strings (dml_reads "" mrg_ex1) /\
  stmt_writes (analyze e_dml false (r_dml noise3 mrg_ex1)) = ["<default>.t"] /\
  stmt_reads (analyze e_dml false (r_dml noise3 mrg_ex2)) = ["<default>.u"] /\
  stmt_writes (analyze e_dml false (r_dml noise3 mrg_ex2)) = ["db.sch.t"].
Proof. vm_compute. repeat split; reflexivity. Qed.

(* ================================================================== *)
(** * Part S: SELECT ... INTO (postgres layout: an into_clause between the select clause and the FROM clause) *)
Section NavS.
Variable noise : list seg.
Hypothesis Hnoise : noise_ok noise = true.
Variable e : env.
Hypothesis Henv : env_ok_md e = true.

Lemma fti_noise x : noise_seg_ok x = true -> find_table_identifier x = None.
Proof.
  intros Hx. pose proof (noise_ty_in x ["table_reference"; "file_reference"; "object_reference"] Hx eq_refl) as H1.
  pose proof (proj1 (proj2 (noise_seg_facts x Hx))) as H2. destruct x. cbn [children] in H2. subst.
  cbn [find_table_identifier]. rewrite H1. reflexivity.
Qed.

Lemma fti_fold_noise l : (forall x, In x l -> noise_seg_ok x = true) ->
  fold_left (fun acc c => match acc with Some _ => acc | None => find_table_identifier c end) l None = None.
Proof.
  induction l as [|a r IH]; intros H; [reflexivity|]. cbn [fold_left]. rewrite (fti_noise a (H a (or_introl eq_refl))).
  apply IH. intros x Hx. apply H. right. exact Hx.
Qed.

Lemma fti_into t : find_table_identifier (r_into noise t) = Some (r_tref t).
Proof.
  unfold r_into. rewrite (sep_cons noise). unfold node. cbn [find_table_identifier].
  change (ty_in _ _) with false. cbn iota. cbn [fold_left]. change (find_table_identifier (kw "into")) with (@None seg).
  cbn [sep]. rewrite fold_left_app, (fti_fold_noise noise (noise_in noise Hnoise)). reflexivity.
Qed.

Lemma handle_child_into f st t :
  tref_ok t = true ->
  exists d, handle_child f e st (r_into noise t) =
            Ok {| s_g := add_write (s_g st) d; s_tables := s_tables st; s_columns := s_columns st; s_barriers := s_barriers st |} /\
            dk d = KTable /\ data_ok d /\ dstr d = tref_str (e_cfg e) t.
Proof.
  intros Ht. unfold handle_child. rewrite (swap_partition_off_md e Henv). unfold handle_select_into.
  change (ty_in (r_into noise t) ["into_table_clause"; "into_clause"]) with true. cbn iota. rewrite fti_into.
  unfold find_table. change (ty_in (r_tref t) ["table_reference"; "object_reference"]) with true. cbn iota.
  destruct (table_of_seg_tref_md e Henv t None Ht) as (d & Et & H1 & H2 & H3). rewrite Et. exists d.
  unfold list_tables. change (ty_in (r_into noise t) ["from_clause"; "join_clause"; "update_statement"]) with false. cbn iota.
  change (tyis (r_into noise t) "select_clause") with false. cbn iota. rewrite !app_nil_r. auto.
Qed.

Lemma ise_into t : is_set_expression (r_into noise t) = false.
Proof.
  unfold is_set_expression. change (tyis (r_into noise t) "set_expression") with false. cbn [orb]. unfold r_into. cbn [children node].
  rewrite (existsb_sep noise Hnoise) by (intros x Hx; apply noise_tyis; [exact Hx|reflexivity]). reflexivity.
Qed.

Lemma sel_subq1_into t : sel_subq1 (r_into noise t) = Ok [].
Proof.
  unfold sel_subq1. rewrite ise_into. unfold list_subquery.
  assert (E : get_children (r_into noise t) ["from_expression"] = []).
  { unfold r_into. rewrite (get_children_sep noise Hnoise) by reflexivity. reflexivity. }
  rewrite E. change (ty_in (r_into noise t) ["select_clause"; "from_clause"; "where_clause"]) with false. cbn iota.
  rewrite (is_subquery_other (r_into noise t)) by reflexivity. reflexivity.
Qed.

Lemma select_into_ok t items from cj wh :
  tref_ok t = true ->
  body_ok (S (q_size (QSelect items from cj wh))) (QSelect items from cj wh) = true ->
  exists g, analyze e false (r_dml noise (DSelectInto t items from cj wh)) = Ok g /\ gok g /\
    (forall x, tset g "read" x <-> In x (q_reads (S (q_size (QSelect items from cj wh))) (e_cfg e) [] (QSelect items from cj wh))) /\
    (forall x, tset g "write" x <-> x = tref_str (e_cfg e) t).
Proof.
  intros Ht Hq. set (k := q_size (QSelect items from cj wh)) in *.
  set (L := [r_sc noise items; r_into noise t; r_fc noise k from cj] ++ r_wh noise k wh).
  set (stmt := node "select_statement" ["select_statement"] (sep noise L)).
  assert (Es : r_dml noise (DSelectInto t items from cj wh) = stmt) by reflexivity. rewrite Es.
  assert (Ea : analyze e false stmt = extract (S (S (3 * depth stmt + 8))) e XSelect stmt empty_ctx).
  { replace (S (S (3 * depth stmt + 8))) with (3 * depth stmt + 10) by lia. reflexivity. }
  assert (Eseg : sel_segments stmt = L).
  { unfold sel_segments. change (tyis stmt "set_expression") with false. cbn iota. unfold stmt.
    rewrite (lcs_node noise Hnoise) by reflexivity. unfold L. destruct wh as [[c sq]|]; reflexivity. }
  assert (Hqd : qd (S k) (QSelect items from cj wh) <= depth stmt).
  { pose proof (depth_qd noise (S k) (QSelect items from cj wh)) as H1.
    assert (H2 : depth (r_query noise (S k) (QSelect items from cj wh)) <= depth stmt).
    { assert (Hin : forall x, In x L -> S (depth x) <= depth stmt).
      { intros x Hx. apply depth_child. unfold stmt. cbn [children node]. apply (In_sep noise). exact Hx. }
      apply (depth_select_le noise Hnoise).
      - intros c Hc. apply Hin. unfold clauses in Hc. unfold L. cbn [app In] in *. tauto.
      - assert (H3 : 2 <= depth (r_sc noise items)).
        { unfold r_sc. apply (depth_kw_child _ _ "select"). apply (In_sep noise). left. reflexivity. }
        pose proof (Hin (r_sc noise items) (or_introl eq_refl)). lia. }
    lia. }
  rewrite Ea, extract_select_eq, Eseg. clearbody stmt. set (f := 3 * depth stmt + 8) in *.
  destruct (body_ok_select k items from cj wh Hq) as (Hit & Hne & Hrels & Hwh).
  pose proof (FL_ok e k items from cj wh Hq) as Hfl.
  (* sub-queries *)
  assert (Esub : sel_subqueries L = Ok (sel_sq noise k from cj wh)).
  { pose proof (proj1 (clauses_subq noise Hnoise e k items from cj wh Hq)) as H. unfold clauses in H. cbn [app map concat_res] in H.
    rewrite (sel_subq1_sc noise Hnoise items Hit) in H.
    unfold sel_subqueries, L. cbn [app map concat_res]. rewrite (sel_subq1_sc noise Hnoise items Hit), sel_subq1_into.
    destruct (sel_subq1 (r_fc noise k from cj)) as [a|err]; [|discriminate H].
    destruct (concat_res (map sel_subq1 (r_wh noise k wh))) as [b|err]; [|discriminate H]. exact H. }
  rewrite Esub, sel_sq_T. change (init_holder empty_ctx) with empty_graph.
  destruct (ex_subquery_ok noise Hnoise e [] (S k) (IHK_of noise Hnoise e Henv [] (S k)) (S f) (sel_T k from cj wh) empty_graph) as (g1 & E1 & HP1).
  { pose proof (sel_T_ok e [] k items from cj wh Hq) as HT. rewrite Forall_forall in *. intros t0 Ht0. destruct (HT t0 Ht0) as (T1 & T2 & T3).
    split; [exact T1|]. split; [exact T2|unfold f; lia]. }
  { exact Pre_empty. }
  rewrite E1. pose proof (Pre_Post _ _ _ _ Pre_empty HP1) as (G1 & G2 & G3). destruct HP1 as (_ & A2 & A3 & _ & _).
  assert (Hw1 : holder_nodes g1 "write" = []).
  { destruct (holder_nodes g1 "write") as [|d r]; [reflexivity|]. destruct (A3 d (or_introl eq_refl)). }
  (* the clauses *)
  unfold sel_fold. rewrite (sel_fold_clauses e (S f)).
  2:{ intros s Hs. unfold L in Hs. cbn [app In] in Hs. destruct Hs as [<-|[<-|Hs]]; [apply (ise_sc noise Hnoise)|apply ise_into|].
      apply (clauses_not_set noise Hnoise items k from cj wh). unfold clauses. cbn [app In]. right. exact Hs. }
  unfold L. cbn [app fold_left].
  destruct (handle_child_sc_md noise Hnoise e Henv f {| s_g := g1; s_tables := []; s_columns := []; s_barriers := [] |} items Hit) as (cols & Ec & Hcols).
  rewrite Ec. cbn [s_g s_tables s_columns s_barriers app].
  destruct (handle_child_into (S f) {| s_g := g1; s_tables := []; s_columns := cols; s_barriers := [] |} t Ht) as (d & Ed & Hk & Hd & Hs).
  rewrite Ed. cbn [s_g s_tables s_columns s_barriers]. set (g2 := add_write g1 d).
  assert (G2g : gok g2) by (apply gok_add_tag; assumption).
  assert (G2o : forall k', k' <> "write" -> holder_nodes g2 k' = holder_nodes g1 k') by (intros k' Hk'; apply tag_add_other; exact Hk').
  assert (G2c : cte_rel g2 []) by (unfold cte_rel, sq_cte in *; rewrite G2o by discriminate; exact G2).
  rewrite (handle_child_fc_md noise e Henv). cbn [s_g s_tables s_columns s_barriers].
  destruct (list_tables_fc_md noise Hnoise e Henv k from cj g2 [] Hne Hfl G2g G2c) as (ts & Et & Hts & Hx). rewrite Et.
  cbn [app].
  assert (Ewh : fold_left (fun acc sg => do st4 <- acc; handle_child (S f) e st4 sg) (r_wh noise k wh)
                          (Ok {| s_g := g2; s_tables := ts; s_columns := cols; s_barriers := [] |}) =
                Ok {| s_g := g2; s_tables := ts; s_columns := cols; s_barriers := [] |}).
  { destruct wh as [[c sq]|]; [|reflexivity]. rewrite r_wh_some. cbn [fold_left]. rewrite (handle_child_where_md noise e Henv). reflexivity. }
  rewrite Ewh. cbn [s_g s_tables s_columns s_barriers].
  assert (Hlen : List.length (sq_write g2) <= 1).
  { apply one_write_length; [exact G2g|]. apply (one_write_eqb g2 d). intros d' Hd'. unfold g2, add_write in Hd'.
    apply tag_add_sound in Hd'. destruct Hd' as [H|H]; [rewrite Hw1 in H; destruct H|exact H]. }
  destruct (select_tail_any e g2 ts cols [] G2g Hts Hcols Hlen) as (g3 & E3 & Hg3 & Hk3 & Hr3).
  rewrite E3. exists g3. split; [reflexivity|]. split; [exact Hg3|]. split.
  - intros x. rewrite Hr3, Hx, (tset_ext g1 g2 "read" x (G2o "read" ltac:(discriminate))), A2, tset_empty.
    rewrite <- (sel_reads_eq e [] k items from cj wh Hq x). tauto.
  - intros x. rewrite (tset_ext g2 g3 "write" x (Hk3 "write" ltac:(discriminate))). unfold g2, add_write.
    rewrite (tset_add_tag g1 d "write" x G1 Hd). unfold tset at 1. rewrite Hw1. split.
    + intros [(d' & [] & _)|[_ H]]. congruence.
    + intros ->. right. split; [exact Hk|exact Hs].
Qed.
End NavS.

(* ================================================================== *)
(** * SELECT ... INTO: theorem *)
Theorem lemma_A_select_into : forall noise e t items from cj wh,
  noise_ok noise = true -> env_ok_md e = true -> dml_ok (DSelectInto t items from cj wh) = true ->
  let d := DSelectInto t items from cj wh in
  stmt_reads (analyze e false (r_dml noise d)) = sort_strings (dml_reads (e_cfg e) d) /\
  stmt_writes (analyze e false (r_dml noise d)) = sort_strings (dml_writes (e_cfg e) d).
Proof.
  intros noise e t items from cj wh Hn He Hok d. unfold dml_ok in Hok. apply andb_true_iff in Hok. destruct Hok as [Hok _].
  unfold dml_ok_base in Hok. cbn [dml_target dml_query] in Hok. apply andb_true_iff in Hok. destruct Hok as [Ht Hq].
  destruct (select_into_ok noise Hn e He t items from cj wh Ht (qfrag_body_ok _ _ Hq)) as (g & E & G1 & G2 & G3).
  exact (dml_conclusion e _ g t _ E G1 G2 G3).
Qed.
Print Assumptions lemma_A_select_into.

Definition into_ex1 : dml :=
  DSelectInto (Some "s", "t2") [IExpr (EColRef (Some "d") "a") (Some "z"); IStar None]
              [RDerived (QUnion (sel1 "a" "ua") (sel1 "a" "ub")) "d"; RTable (None, "t1") (Some "o")] false (Some ("c", selj1)).
Example select_into_nonvacuous :
  noise_ok noise3 = true /\ env_ok_md e_dml = true /\ dml_ok into_ex1 = true /\
  sort_strings (dml_reads "" into_ex1) =
    ["<default>.inner"; "<default>.t1"; "<default>.ua"; "<default>.ub"; "<default>.x"; "<default>.y"; "s.z"] /\
  stmt_reads (analyze e_dml false (r_dml noise3 into_ex1)) = sort_strings (dml_reads "" into_ex1) /\
  stmt_writes (analyze e_dml false (r_dml noise3 into_ex1)) = ["s.t2"].
Proof. vm_compute. repeat split; reflexivity. Qed.

(* ================================================================== *)
(** * Lemma A (tables) for UPDATE, MERGE and SELECT ... INTO

    SUMMARY
    - [lemma_A_dml]: for every trivia list, every statement size and every nesting depth of the embedded queries,
      under the executable guard [dml_ok] the reported source tables are exactly [dml_reads] and the reported target
      is exactly [dml_writes].
    - [dml_ok] = [dml_ok_base] (identifiers of the fragment, embedded queries in the WITH-free fragment of
      [lemma_A_tables_restricted]) + "an UPDATE has no WHERE-IN sub-query".  The last condition is necessary:
      [lemma_A_dml_where_refuted] (the UPDATE extractor never looks at the WHERE clause; witness [upd_where_cx]).
    - [lemma_A_update_impl] says what the implementation reports for an UPDATE with a WHERE-IN sub-query:
      the tables of the FROM list only; [lemma_A_update_where_iff] / [lemma_A_dml_weakest] (below) give the weakest repair. *)
Theorem lemma_A_dml : lemma_A_dml_md_statement dml_ok.
Proof.
  intros noise e d Hn He Hok. destruct d as [t al sets from cj wh|t al src upd ins|t items from cj wh].
  - destruct wh as [w|]; [unfold dml_ok in Hok; rewrite andb_false_r in Hok; discriminate|].
    exact (lemma_A_update noise e t al sets from cj Hn He Hok).
  - exact (lemma_A_merge noise e t al src upd ins Hn He Hok).
  - exact (lemma_A_select_into noise e t items from cj wh Hn He Hok).
Qed.
Print Assumptions lemma_A_dml.

Example lemma_A_dml_nonvacuous :
  forallb (fun d => noise_ok noise3 && env_ok_md e_dml && dml_ok d) [upd_ex1; mrg_ex1; mrg_ex2; into_ex1] = true /\
  map (lemma_A_dml_check dml_ok noise3 e_dml) [upd_ex1; mrg_ex1; mrg_ex2; into_ex1] = ["holds"; "holds"; "holds"; "holds"].
Proof. vm_compute. split; reflexivity. Qed.

(* ================================================================== *)
(** * The weakest repair for UPDATE ... WHERE c IN (sub-query)
    The implementation reports the FROM tables only; the specification adds the tables of the sub-query.  The two agree
    exactly when the sub-query reads nothing that FROM does not read: [upd_where_ok] (executable; it depends on the
    default schema because names are compared as printed). *)
Definition upd_where_ok (ds : string) (d : dml) : bool :=
  forallb (fun x => mem_string x (upd_impl_reads ds d)) (dml_reads ds d).

Lemma In_insert_sorted x y l : In x (insert_sorted y l) <-> x = y \/ In x l.
Proof.
  induction l as [|z r IH]; cbn [insert_sorted In].
  - split; intros [H|H]; auto.
  - destruct (String.leb y z); cbn [In]; [split; intros [H|H]; auto|]. rewrite IH. split; intros H; tauto.
Qed.

Lemma In_sort_strings x l : In x (sort_strings l) <-> In x l.
Proof.
  induction l as [|y r IH]; [reflexivity|]. unfold sort_strings in *. cbn [fold_right In]. rewrite In_insert_sorted, IH.
  split; intros [H|H]; auto.
Qed.

Lemma upd_impl_sub ds t al sets from cj wh x :
  In x (upd_impl_reads ds (DUpdate t al sets from cj wh)) -> In x (dml_reads ds (DUpdate t al sets from cj wh)).
Proof.
  unfold upd_impl_reads, dml_reads. cbn [dml_query]. rewrite !In_dedup_s. intros [H Hn]. split; [|exact Hn].
  cbn [q_reads] in *. rewrite app_nil_r in H. apply in_app_iff. left. exact H.
Qed.

Theorem lemma_A_update_where_iff : forall noise e t al sets from cj wh,
  noise_ok noise = true -> env_ok_md e = true -> dml_ok_base (DUpdate t al sets from cj wh) = true ->
  let d := DUpdate t al sets from cj wh in
  (stmt_reads (analyze e false (r_dml noise d)) = sort_strings (dml_reads (e_cfg e) d) <-> upd_where_ok (e_cfg e) d = true).
Proof.
  intros noise e t al sets from cj wh Hn He Hok d. subst d.
  rewrite (proj1 (lemma_A_update_impl noise e t al sets from cj wh Hn He Hok)). unfold upd_where_ok.
  rewrite forallb_forall. split.
  - intros H x Hx. apply mem_string_In. apply In_sort_strings. rewrite H. apply In_sort_strings. exact Hx.
  - intros H. apply sort_strings_set_eq.
    + unfold upd_impl_reads. apply NoDup_dedup_s.
    + unfold dml_reads. apply NoDup_dedup_s.
    + intros x. split; [apply upd_impl_sub|]. intros Hx. apply mem_string_In. apply H. exact Hx.
Qed.
Print Assumptions lemma_A_update_where_iff.

(** Lemma A for the three statement kinds under the weakest guard: [dml_ok_base] and [upd_where_ok] *)
Theorem lemma_A_dml_weakest : forall noise e d,
  noise_ok noise = true -> env_ok_md e = true -> dml_ok_base d = true -> upd_where_ok (e_cfg e) d = true ->
  stmt_reads (analyze e false (r_dml noise d)) = sort_strings (dml_reads (e_cfg e) d) /\
  stmt_writes (analyze e false (r_dml noise d)) = sort_strings (dml_writes (e_cfg e) d).
Proof.
  intros noise e d Hn He Hok Hw. destruct d as [t al sets from cj wh|t al src upd ins|t items from cj wh].
  - split.
    + apply (proj2 (lemma_A_update_where_iff noise e t al sets from cj wh Hn He Hok)). exact Hw.
    + exact (proj2 (lemma_A_update_impl noise e t al sets from cj wh Hn He Hok)).
  - apply lemma_A_merge; [exact Hn|exact He|]. unfold dml_ok. rewrite Hok. reflexivity.
  - apply lemma_A_select_into; [exact Hn|exact He|]. unfold dml_ok. rewrite Hok. reflexivity.
Qed.
Print Assumptions lemma_A_dml_weakest.

(** non-vacuity: an UPDATE whose WHERE-IN sub-query reads a table that FROM reads as well is inside the weakest guard *)
Definition upd_where_in : dml :=
  DUpdate (None, "t") None [("a", None, "b")] [RTable (None, "u") None; RTable (None, "v") (Some "p")] true (Some ("c", sel1 "c" "v")).
Example update_where_nonvacuous :
  dml_ok_base upd_where_in = true /\ dml_ok upd_where_in = false /\ upd_where_ok "" upd_where_in = true /\
  upd_where_ok "" upd_where_cx = false /\
  stmt_reads (analyze e_dml false (r_dml noise3 upd_where_in)) = ["<default>.u"; "<default>.v"] /\
  sort_strings (dml_reads "" upd_where_in) = ["<default>.u"; "<default>.v"].
Proof. vm_compute. repeat split; reflexivity. Qed.

End DmlMd.

(* ================================================================== *)
(** * C13 for UPDATE / MERGE / SELECT ... INTO: the results, under their own names *)
Theorem lemma_A_dml_any_provider : lemma_A_dml_md_statement dml_ok.
Proof. exact DmlMd.lemma_A_dml. Qed.
Print Assumptions lemma_A_dml_any_provider.

Theorem lemma_A_dml_weakest_any_provider : forall noise e d,
  noise_ok noise = true -> env_ok_md e = true -> dml_ok_base d = true -> DmlMd.upd_where_ok (e_cfg e) d = true ->
  stmt_reads (analyze e false (r_dml noise d)) = sort_strings (dml_reads (e_cfg e) d) /\
  stmt_writes (analyze e false (r_dml noise d)) = sort_strings (dml_writes (e_cfg e) d).
Proof. exact DmlMd.lemma_A_dml_weakest. Qed.
Print Assumptions lemma_A_dml_weakest_any_provider.

(** what the implementation reports for the three statement kinds, with any provider *)
Theorem dml_impl_any_provider : forall noise e d,
  noise_ok noise = true -> env_ok_md e = true -> dml_ok_base d = true ->
  stmt_reads (analyze e false (r_dml noise d)) = sort_strings (upd_impl_reads (e_cfg e) d) /\
  stmt_writes (analyze e false (r_dml noise d)) = sort_strings (dml_writes (e_cfg e) d).
Proof.
  intros noise e d Hn He Hok. destruct d as [t al sets from cj wh|t al src upd ins|t items from cj wh].
  - exact (DmlMd.lemma_A_update_impl noise e t al sets from cj wh Hn He Hok).
  - apply DmlMd.lemma_A_merge; [exact Hn|exact He|]. unfold dml_ok. rewrite Hok. reflexivity.
  - apply DmlMd.lemma_A_select_into; [exact Hn|exact He|]. unfold dml_ok. rewrite Hok. reflexivity.
Qed.

(** C13: two environments that differ only in the metadata provider report the same tables read and written - on the
    whole of [dml_ok_base], i.e. also for an UPDATE with a WHERE-IN sub-query (where the implementation disagrees with
    the specification, it does so identically with and without metadata) *)
Theorem metadata_never_changes_dml : forall noise e e' d,
  e_cfg e' = e_cfg e -> e_icfg e' = e_icfg e -> e_vertica e' = e_vertica e -> e_scalar e' = e_scalar e ->
  noise_ok noise = true -> env_ok_md e = true -> dml_ok_base d = true ->
  stmt_reads (analyze e false (r_dml noise d)) = stmt_reads (analyze e' false (r_dml noise d)) /\
  stmt_writes (analyze e false (r_dml noise d)) = stmt_writes (analyze e' false (r_dml noise d)).
Proof.
  intros noise e e' d H1 H2 H3 _ Hn He Hok.
  assert (He' : env_ok_md e' = true) by (unfold env_ok_md in *; rewrite H1, H2, H3; exact He).
  destruct (dml_impl_any_provider noise e d Hn He Hok) as [R W].
  destruct (dml_impl_any_provider noise e' d Hn He' Hok) as [R' W'].
  rewrite R, W, R', W', H1. split; reflexivity.
Qed.
Print Assumptions metadata_never_changes_dml.

Corollary metadata_never_changes_dml_with_provider : forall noise e p d,
  noise_ok noise = true -> env_ok_md e = true -> dml_ok_base d = true ->
  stmt_reads (analyze (with_provider e p) false (r_dml noise d)) = stmt_reads (analyze e false (r_dml noise d)) /\
  stmt_writes (analyze (with_provider e p) false (r_dml noise d)) = stmt_writes (analyze e false (r_dml noise d)).
Proof.
  intros noise e p d Hn He Hok.
  destruct (metadata_never_changes_dml noise e (with_provider e p) d eq_refl eq_refl eq_refl eq_refl Hn He Hok) as [R W].
  split; symmetry; assumption.
Qed.

(** non-vacuity with truthy providers: catalogs that know the target, the sources, odd column names ("*", "", duplicates) *)
Definition dml_provs : list (list (string * list string)) := [
  [("s.t", ["a"; "c"; "k"]); ("<default>.u", ["a"; "b"; "d"]); ("<default>.t", ["a"; "b"; "k"]); ("<default>.ua", ["a"]); ("<default>.ub", ["a"])];
  [("s.t", ["*"; ""; "a"; "a"]); ("<default>.t", ["*"]); ("<default>.u", []); ("s.t2", ["z"]); ("<default>.t1", ["x"; "y"])];
  [("db.sch.t", ["k"]); ("<default>.u", ["k"; "k"])]
].
Definition dml_envs : list env := map (fun pc => mk_env "ansi" "" "" {| p_truthy := true; p_cols := pc |} []) dml_provs.

Example dml_any_provider_nonvacuous :
  forallb (fun e => env_ok_md e && negb (env_ok e)) dml_envs = true /\
  forallb (fun d => noise_ok noise3 && dml_ok d) [DmlMd.upd_ex1; DmlMd.mrg_ex1; DmlMd.mrg_ex2; DmlMd.into_ex1] = true /\
  forallb (fun e => forallb (fun d =>
     list_eqb (stmt_reads (analyze e false (r_dml noise3 d))) (sort_strings (dml_reads (e_cfg e) d)) &&
     list_eqb (stmt_writes (analyze e false (r_dml noise3 d))) (sort_strings (dml_writes (e_cfg e) d)))
     [DmlMd.upd_ex1; DmlMd.mrg_ex1; DmlMd.mrg_ex2; DmlMd.into_ex1]) dml_envs = true.
Proof. repeat split; vm_compute; reflexivity. Qed.
