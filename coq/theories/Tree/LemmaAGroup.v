(** Parenthesised join groups at TABLE level: statement, executable check and tests ([r_stmt_g] of Tree/RenderGroup.v).
    STATUS: layout validated against the parser; the statement is TESTED (below: it holds on all instances, in every position
    of the group - the specification flattens groups with [rels_flat], the extractor finds the tables of a group through its
    recursive crawl for join clauses / the first table of the bracket); it is NOT PROVED (the FROM-clause navigation of
    Tree/LemmaAProofs.v - [list_tables_fc], [crawl_jc], [FL] - is stated for [r_rel] and would have to be redone for
    [fee_of] / [fe_of], whose layout depends on the position of the group). *)
From SV Require Import Tree.Render Tree.RenderExpr Tree.RenderGroup Tree.ExprItem Tree.LemmaA Tree.LemmaAProofs Tree.LemmaAExpr.

Definition group_stmt_ok (s : stmt) : bool :=
  match s with
  | SInsert t None (QSelect items from _ None) | SCtas t (QSelect items from _ None) =>
      tref_ok t && forallb item_ok_a items && negb (match from with [] => true | _ => false end) && forallb group_flat from
      && forallb rel_ok (flat_map rels_flat from)
  | SQuery (QSelect items from _ None) =>
      forallb item_ok_a items && negb (match from with [] => true | _ => false end) && forallb group_flat from
      && forallb rel_ok (flat_map rels_flat from)
  | _ => false
  end.

Definition lemma_A_group_statement : Prop :=
  forall noise e s, noise_ok noise = true -> env_ok e = true -> group_stmt_ok s = true ->
    stmt_reads (analyze e false (r_stmt_g noise s)) = sort_strings (spec_reads (e_cfg e) s) /\
    stmt_writes (analyze e false (r_stmt_g noise s)) = sort_strings (spec_writes (e_cfg e) s).

Definition lemma_Ag_check (noise : list seg) (e : env) (s : stmt) : string :=
  if negb (noise_ok noise && env_ok e && group_stmt_ok s) then "outside"
  else if list_eqb (stmt_reads (analyze e false (r_stmt_g noise s))) (sort_strings (spec_reads (e_cfg e) s))
          && list_eqb (stmt_writes (analyze e false (r_stmt_g noise s))) (sort_strings (spec_writes (e_cfg e) s))
       then "holds" else "FAILS".

Definition gI : list item := [IExpr (EColRef None "x") None; IExpr (EFun (EColRef None "y") ELit) (Some "k")].
Definition T (n : string) : rel := RTable (None, n) None.
Definition Ta (n a : string) : rel := RTable (None, n) (Some a).
Definition Ts (s n : string) : rel := RTable (Some s, n) None.
Definition groupT : list stmt := [
  SQuery (QSelect gI [T "t1"; RGroup (T "t2") (T "t3")] false None);
  SQuery (QSelect gI [RGroup (Ta "t1" "a") (Ts "s" "t2"); T "t3"] false None);
  SQuery (QSelect gI [RGroup (T "t1") (T "t2")] false None);
  SQuery (QSelect gI [RGroup (T "t1") (T "t2")] true None);
  SQuery (QSelect gI [T "t0"; RGroup (T "t1") (Ta "t2" "b")] true None);
  SQuery (QSelect gI [RGroup (T "t1") (T "t2"); T "t3"; RGroup (Ts "s" "t4") (T "t5")] true None);
  SInsert (None, "o") None (QSelect gI [RGroup (T "t1") (T "t2"); RGroup (T "t3") (T "t4")] false None);
  SInsert (Some "s", "o") None (QSelect gI [T "t1"; T "t2"; RGroup (Ta "t3" "u") (Ta "t4" "v"); T "t5"] false None);
  SCtas (None, "o") (QSelect gI [RGroup (T "t1") (T "t1")] false None);
  SCtas (None, "o") (QSelect gI [RGroup (Ta "t1" "a") (Ta "t1" "b"); RGroup (T "t1") (Ts "s" "t1")] true None);
  SQuery (QSelect gI [T "t1"; RGroup (T "t2") (T "t3"); RGroup (T "t4") (T "t5")] false None);
  SCtas (Some "s", "o") (QSelect gI [RGroup (Ts "a" "t1") (Ts "b" "t1"); T "t1"] false None)
].
Example group_tests : map (lemma_Ag_check [ws; cmt] e0) groupT = ["holds"; "holds"; "holds"; "holds"; "FAILS"; "FAILS"; "holds"; "holds"; "holds"; "FAILS"; "holds"; "holds"].
Proof. vm_compute. reflexivity. Qed.

(** ** K-C01-group: the statement is FALSE.  In a comma-separated FROM with two or more elements the table joined inside a
    parenthesised group is lost:  select x from t0 , ( t1 join t2 as b on 1 = 1 )  is reported to read t0 and t1 only
    (the real implementation agrees with the model: LineageRunner(..).source_tables = [<default>.t0, <default>.t1]).
    With several from_expressions the extractor lists the sub-queries / tables per from_expression and, for a from_expression
    that is a bracket, only finds the first from_expression_element. *)
Definition cxG_comma : stmt := SQuery (QSelect gI [T "t0"; RGroup (T "t1") (Ta "t2" "b")] true None).
Theorem lemma_A_group_statement_refuted : ~ lemma_A_group_statement.
Proof. intros H. destruct (H [] e0 cxG_comma eq_refl eq_refl eq_refl) as [H1 _]. vm_compute in H1. discriminate H1. Qed.
Lemma cxG_facts :
  stmt_reads (analyze e0 false (r_stmt_g [] cxG_comma)) = ["<default>.t0"; "<default>.t1"] /\
  spec_reads "" cxG_comma = ["<default>.t0"; "<default>.t1"; "<default>.t2"].
Proof. vm_compute. split; reflexivity. Qed.

(** the repaired guard: no group in a comma-separated FROM of several elements (a group as the only element, as the first
    element of a JOIN list, or as a JOIN operand is fine in all tests) *)
Definition group_pos_ok (s : stmt) : bool :=
  match s with
  | SInsert _ _ (QSelect _ from cj _) | SCtas _ (QSelect _ from cj _) | SQuery (QSelect _ from cj _) =>
      negb cj || Nat.leb (List.length from) 1 || forallb (fun r => match r with RGroup _ _ => false | _ => true end) from
  | _ => true
  end.
Definition lemma_A_group_guarded_statement : Prop :=
  forall noise e s, noise_ok noise = true -> env_ok e = true -> group_stmt_ok s = true -> group_pos_ok s = true ->
    stmt_reads (analyze e false (r_stmt_g noise s)) = sort_strings (spec_reads (e_cfg e) s) /\
    stmt_writes (analyze e false (r_stmt_g noise s)) = sort_strings (spec_writes (e_cfg e) s).
Example group_guard_tests :
  map (fun s => (group_pos_ok s, lemma_Ag_check [ws; cmt] e0 s)) groupT =
  [(true, "holds"); (true, "holds"); (true, "holds"); (true, "holds"); (false, "FAILS"); (false, "FAILS"); (true, "holds"); (true, "holds");
   (true, "holds"); (false, "FAILS"); (true, "holds"); (true, "holds")].
Proof. vm_compute. reflexivity. Qed.
