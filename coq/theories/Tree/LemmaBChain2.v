(** CTE chains at column level, the part of [lemma_B_chain_statement] (Tree/LemmaBChain.v) that is PROVED: chains of
    length 1.  For a statement in the one-CTE fragment of Tree/LemmaB5d.v ([one_cte_shape]: INSERT without column list /
    CTAS / VIEW over  WITH n AS (SELECT columns FROM base tables) SELECT columns FROM n [AS a]) the chain renderer [r_stmt_c]
    produces the same tree as [r_stmt] ([r_stmt_c_one_cte]), so [lemma_B_one_cte] transports: [lemma_B_chain_one].
    Longer chains: more vm_compute-checked instances ([chain_cols_tests2]: lengths 2 - 4, trivia). *)
From SV Require Import Tree.Render Tree.RenderExpr Tree.RenderChain Tree.ExprItem Tree.LemmaA Tree.LemmaAProofs Tree.LemmaB Tree.LemmaBProofs
     Tree.LemmaB5c Tree.LemmaB5dDefs Tree.LemmaB5d Tree.LemmaBExpr Tree.LemmaBChain.
Open Scope string_scope.

Section Same.
Variable noise : list seg.

Lemma r_sc_same items : forallb item_ok items = true -> r_sc_x noise items = r_sc noise items.
Proof.
  intros H. unfold r_sc_x, r_sc. f_equal. f_equal. f_equal. f_equal. apply map_ext_in. intros i Hi. rewrite forallb_forall in H. specialize (H i Hi).
  apply r_item_x_old. destruct i as [[q c| | | | | |] al|qq]; try discriminate; exact I.
Qed.

Lemma r_fc_fuel k1 k2 from cj : forallb is_rtable from = true -> r_fc noise k1 from cj = r_fc noise k2 from cj.
Proof.
  intros H. assert (Hr : forall r, In r from -> r_rel noise k1 r = r_rel noise k2 r).
  { intros r Hr. rewrite forallb_forall in H. specialize (H r Hr). destruct r; try discriminate. reflexivity. }
  unfold r_fc. f_equal. f_equal. f_equal. destruct cj.
  - f_equal. apply map_ext_in. intros r Hin. unfold r_fe1. rewrite (Hr r Hin). reflexivity.
  - destruct from as [|r0 rest]; [reflexivity|]. f_equal. unfold r_fej. f_equal. f_equal. f_equal.
    + apply Hr. left. reflexivity.
    + apply map_ext_in. intros r Hin. unfold r_join. rewrite (Hr r (or_intror Hin)). reflexivity.
Qed.

(** a single SELECT over base tables with column / star items: the two renderers agree, whatever the fuel *)
Lemma r_select_same k1 k2 items from cj :
  forallb item_ok items = true -> forallb is_rtable from = true ->
  r_query_x noise (S k1) (QSelect items from cj None) = r_query noise (S k2) (QSelect items from cj None).
Proof.
  intros Hit Hrt. rewrite (r_query_x_select noise k1 items from cj Hrt), (r_query_select noise k2 items from cj None).
  cbn [r_wh app]. rewrite (r_sc_same items Hit), (r_fc_fuel k1 k2 from cj Hrt). reflexivity.
Qed.

Lemma rel_ok_rtable from : forallb rel_ok from = true -> forallb is_rtable from = true.
Proof. apply forallb_impl. intros r _ H. destruct r; try discriminate. reflexivity. Qed.

Lemma plain_items_ok items : forallb item_ok items = true -> forallb item_ok items = true.
Proof. auto. Qed.

Theorem r_stmt_c_one_cte s : one_cte_shape s = true -> r_stmt_c noise s = r_stmt noise s.
Proof.
  intros Hsh.
  assert (K : exists t n al items' from' cj' items cj,
            (s = SInsert t None (cte_q n al items' from' cj' items cj) \/ s = SCtas t (cte_q n al items' from' cj' items cj) \/
             s = SView t (cte_q n al items' from' cj' items cj)) /\ cte_guard t n al items' from' cj' items = true).
  { destruct s as [t [cs|] q|t q|t q|q|kind]; cbn [one_cte_shape] in Hsh; try discriminate;
      destruct q as [| |n c b]; try discriminate;
      destruct c as [items' from' cj' [wh'|]| |]; try discriminate;
      destruct b as [items [|[[[sch|] m] al| |] [|]] cj [wh|]| |]; try discriminate;
      apply andb_true_iff in Hsh; destruct Hsh as [Em Hg]; apply String.eqb_eq in Em; subst m;
      exists t, n, al, items', from', cj', items, cj; (split; [auto|exact Hg]). }
  destruct K as (t & n & al & items' & from' & cj' & items & cj & Hs & H). unfold cte_guard in H.
  do 10 (apply andb_true_iff in H; let H' := fresh "G" in destruct H as [H H']).
  cbn [iq_ok] in G5. apply andb_true_iff in G5. destruct G5 as [G5 Hrel']. apply andb_true_iff in G5. destruct G5 as [Hit' _].
  pose proof G8 as Hit.
  pose proof (rel_ok_rtable from' Hrel') as Hrt'.
  set (c := cte_q1 items' from' cj'). set (b := cte_q2 n al items cj).
  assert (Etop : r_topq_c noise (QWith n c b) = r_query noise (S (q_size (QWith n c b))) (QWith n c b)).
  { unfold r_topq_c. cbn [chain_of b cte_q2]. unfold r_with_c. cbn [map intersperse app].
    assert (Ek : exists k', q_size (QWith n c b) = S k') by (eexists; reflexivity). destruct Ek as (k' & Ek). rewrite Ek.
    cbn [r_query]. unfold r_cte_c, r_brq_c, kq. cbn [fst snd].
    unfold c, cte_q1. rewrite (r_select_same (q_size (QSelect items' from' cj' None)) (pred (S k')) items' from' cj' Hit' Hrt').
    unfold b, cte_q2. rewrite (r_select_same (q_size (QSelect items [RTable (None, n) al] cj None)) (pred (S k')) items [RTable (None, n) al] cj Hit eq_refl).
    reflexivity. }
  destruct Hs as [->|[->| ->]]; unfold cte_q; fold c b; cbn [r_stmt_c r_stmt]; rewrite Etop; reflexivity.
Qed.
End Same.

(** chains of length 1 at column level *)
Theorem lemma_B_chain_one : forall noise e s,
  noise_ok noise = true -> env_ok e = true -> one_cte_shape s = true ->
  script_pairs e false [] [r_stmt_c noise s] = spec_pairs (e_cfg e) s.
Proof. intros noise e s Hn He Hs. rewrite (r_stmt_c_one_cte noise s Hs). apply lemma_B_one_cte; assumption. Qed.
Print Assumptions lemma_B_chain_one.

(** non-vacuity of [lemma_B_chain_one] *)
Definition one1 : stmt := SInsert (None, "o") None (QWith "a" (QSelect [c "x"; ca "y" "k"] [RTable (None, "t") None; RTable (Some "s", "u") (Some "w")] false None) (S1 [c "x"; ca "k" "z"] "a")).
Definition one2 : stmt := SView (Some "s", "v") (QWith "a" (S1 [c "x"; c "y"] "t") (S1a [qc "p" "y"; c "x"] "a" "p")).
Example ex_chain_one_hyps : noise_ok [ws; cmt] = true /\ env_ok e0 = true /\ one_cte_shape one1 = true /\ one_cte_shape one2 = true.
Proof. vm_compute. repeat split. Qed.
Example ex_chain_one_instance :
  script_pairs e0 false [] [r_stmt_c [ws; cmt] one1] = ["x{<default>.t,s.u}><default>.o.x"; "y{<default>.t,s.u}><default>.o.z"].
Proof. vm_compute. reflexivity. Qed.

(** ** longer chains: more instances of [lemma_B_chain_statement], checked by vm_compute with trivia [ws; cmt] *)
Definition tests2 : list stmt := [
 (* length 2, expression items in both definitions *)
 SCtas (None,"o") (QWith "a" (S1 [ex "p"; c "x"] "t") (QWith "b" (S1 [ca "p" "q"; ca "x" "y"] "a") (S1 [c "q"; c "y"] "b")));
 (* length 2, the body reads the FIRST CTE, the second is unused *)
 SInsert (None,"o") None (QWith "a" (S1 [c "x"; c "y"] "t") (QWith "b" (S1 [c "x"] "a") (S1 [ex "k"] "a")));
 (* length 3 with column list *)
 SInsert (Some "s","o") (Some ["m"; "n"]) (QWith "a" (S1 [c "x"; c "y"] "t") (QWith "b" (S1 [ca "y" "x"; ca "x" "y"] "a") (QWith "d" (S1 [c "x"; c "y"] "b") (S1 [c "x"; c "y"] "d"))));
 (* length 3, the third definition reads the first *)
 SView (None,"o") (QWith "a" (S1 [c "x"] "t") (QWith "b" (S1 [c "y"] "u") (QWith "d" (S1 [ca "x" "z"] "a") (S1 [c "z"] "d"))));
 (* length 4, a chain of renamings through expressions *)
 SCtas (None,"o") (QWith "a" (S1 [c "x"; c "y"] "t") (QWith "b" (S1 [ex "x"] "a") (QWith "d" (S1 [ca "x" "y"] "b") (QWith "f" (S1 [ca "y" "x"] "d") (S1 [c "x"] "f")))));
 (* length 4, aliased CTE references with qualified columns *)
 SInsert (None,"o") None (QWith "a" (S1 [c "x"] "t") (QWith "b" (S1a [qc "p" "x"] "a" "p") (QWith "d" (S1a [qc "q" "x"] "b" "q") (QWith "f" (S1 [c "x"] "d") (S1a [qc "r" "x"] "f" "r")))))
].
Example chain_cols_tests2 :
  forallb (fun s => list_eqb (script_pairs e0 false [] [r_stmt_c [ws; cmt] s]) (spec_pairs "" s)) tests2 = true /\
  forallb (chain_cols_ok [ws; cmt]) tests2 = true.
Proof. vm_compute. split; reflexivity. Qed.

(** ** K-chain-cols-1: [lemma_B_chain_statement] of Tree/LemmaBChain.v is FALSE as stated.  A column of a CTE that is computed
    from NO source column (a literal:  1 AS one) is reported as an end-to-end SOURCE when a later query selects it:
      insert into o with a as (select x, 1 as one from s.t) select one, x from a
    reports the pair  a.one -> <default>.o.one  (a column of the CTE itself, not of a base table); the specification has no
    pair for it.  The real implementation agrees with the model (LineageRunner(..).get_column_lineage()).  It does not depend
    on the length of the chain (one CTE suffices) and is not excluded by [chain_cols_ok] / [colshape]. *)
Definition cx_lit : stmt :=
  SInsert (None,"o") None (QWith "a" (QSelect [c "x"; IExpr ELit (Some "one")] [RTable (Some "s", "t") None] false None) (S1 [c "one"; c "x"] "a")).
Theorem lemma_B_chain_statement_refuted : ~ lemma_B_chain_statement.
Proof. intros H. specialize (H [] e0 cx_lit eq_refl eq_refl eq_refl). vm_compute in H. discriminate H. Qed.
Lemma cx_lit_facts :
  script_pairs e0 false [] [r_stmt_c [] cx_lit] = ["a.one><default>.o.one"; "s.t.x><default>.o.x"] /\
  spec_pairs "" cx_lit = ["s.t.x><default>.o.x"] /\ chain_cols_ok [] cx_lit = true.
Proof. vm_compute. repeat split. Qed.

(** the repaired guard: every item of a DEFINITION refers to at least one column (the items of the body may be literals) *)
Definition defs_have_sources (s : stmt) : bool :=
  match stmt_query s with
  | Some q => forallb (fun nc => match snd nc with
                                 | QSelect items _ _ _ => forallb (fun i => match i with IExpr ex _ => negb (match col_refs ex with [] => true | _ => false end) | IStar _ => true end) items
                                 | _ => true end) (fst (chain_of q))
  | None => true
  end.
Definition lemma_B_chain_guarded_statement : Prop :=
  forall noise e s, noise_ok noise = true -> env_ok e = true -> chain_cols_ok noise s = true -> defs_have_sources s = true ->
    script_pairs e false [] [r_stmt_c noise s] = spec_pairs (e_cfg e) s.
Example defs_have_sources_tests : forallb defs_have_sources tests2 = true /\ forallb defs_have_sources tests = true /\ defs_have_sources cx_lit = false.
Proof. vm_compute. repeat split. Qed.
