(** Column lineage chains across statements (C04 on the tree model) for scripts that also contain UPDATE and MERGE
    statements.

    - [dml_edges]: the specified flows of an UPDATE / MERGE / SELECT INTO as (source column, target column) pairs, in the
      format of [stmt_edges] (Tree/ScriptExact.v); printed, they are the resolved flows of [dml_flows]
      (Ast/SpecDmlCols.v): [dml_edges_dml_flows].
    - [dml_statement]: for an UPDATE over base tables / a MERGE with a table source inside [dml_cols_ok]
      (Tree/LemmaBDml.v) with resolved references ([dml_resolved]), rendered by [r_dml] with any trivia, the holder the
      extractor returns is plain, resolved, closed, and its column edges are exactly [dml_edges]  ([stmt_facts]).
    - [sstmt]: a script statement is a statement of Ast/Spec.v (rendered by [r_stmt_x]: expression items allowed) or a
      DML statement (rendered by [r_dml]); [script_exact_on_core_xd]: the whole pipeline reports exactly
      [spec_script_pairs_xd] on every script of such statements - any order, cycles allowed, any trivia. *)
From Coq Require Import Lia Permutation.
From SV Require Import Ast.SpecDmlCols Tree.Render Tree.RenderExpr Tree.RenderDml Tree.LemmaA Tree.LemmaAProofs Tree.LemmaADmlDefs Tree.LemmaADml
     Tree.LemmaB Tree.LemmaBProofs Tree.ExprItem Tree.LemmaBExpr Tree.LemmaBDml Ident.Escape Ident.EscapeProofs Holder.PathProofs Holder.SortProofs
     Tree.ProviderProofs Tree.ScriptExact Tree.ScriptExactExt Tree.ScriptExactExpr.
From SV Require Holder.RefineDefs Holder.RefineGraph Holder.CompDefs Holder.Composition.

(* ================================================================== *)
(** * Part 1: the specification, the fragment, the checker, tests *)

(** the dataflow of a DML statement is that of CREATE TABLE target AS <flow query> (Ast/SpecDmlCols.v) *)
Definition dml_edges (ds : string) (d : dml) : list (vtx * vtx) := stmt_edges ds (SCtas (dml_target d) (dml_flow_query d)).

(** [dml_edges] is [dml_flows] (resolved sources), printed *)
Lemma dml_edges_dml_flows ds d :
  map (fun p => (show_vtx (fst p) ++ ">" ++ show_vtx (snd p))%string) (dml_edges ds d) =
  map (fun p => (show_src (fst p) ++ ">" ++ snd p)%string) (filter (fun p => src_resolved (fst p)) (dml_flows ds d)).
Proof. exact (stmt_edges_spec_flows ds (SCtas (dml_target d) (dml_flow_query d))). Qed.

(** every right-hand side is resolved at statement level: UPDATE with one FROM table, or every right-hand side
    qualified; a MERGE reads one relation *)
Definition dml_resolved (d : dml) : bool :=
  match d with
  | DUpdate _ _ sets from _ _ =>
      match from with [_] => true | _ => forallb (fun s : setc => is_some (snd (fst s))) sets end
  | _ => true
  end.

(** a plain SELECT over base tables whose items may be expressions: it reads, nothing flows *)
Definition plain_query_x (s : Spec.stmt) : bool :=
  match s with
  | SQuery (QSelect items from _ None) => forallb item_ok_x items && negb (is_nil from) && forallb rel_ok from
  | _ => false
  end.

Inductive sstmt := SS (s : Spec.stmt) | SD (d : dml).

Definition r_sstmt (noise : list seg) (x : sstmt) : seg :=
  match x with SS s => r_stmt_x noise s | SD d => r_dml noise d end.
Definition sstmt_edges (ds : string) (x : sstmt) : list (vtx * vtx) :=
  match x with SS s => stmt_edges ds s | SD d => dml_edges ds d end.
Definition script_edges_xd (ds : string) (xs : list sstmt) : list (vtx * vtx) := flat_map (sstmt_edges ds) xs.
Definition spec_script_pairs_xd (ds : string) (xs : list sstmt) : list string :=
  uniq_sorted (sort_strings (pairs_of (script_edges_xd ds xs))).

Definition core_ok_xd (x : sstmt) : bool :=
  match x with SS s => core_ok_x2 s || plain_query_x s | SD d => dml_cols_ok d && dml_resolved d end.

Definition script_check_xd (noise : list seg) (e : env) (xs : list sstmt) : string :=
  if negb (noise_ok noise && env_ok e && forallb core_ok_xd xs) then "outside"
  else if list_eqb (script_pairs e false [] (map (r_sstmt noise) xs)) (spec_script_pairs_xd (e_cfg e) xs) then "holds" else "FAILS".

Module TestsD.
  Import Tests TestsX.
  Definition upd (t : string) (sets : list setc) (from : list rel) : sstmt := SD (DUpdate (None, t) None sets from false None).
  Definition mrg (t u : string) (sets : list setc) ins : sstmt := SD (DMerge (None, t) None (RTable (None, u) None) sets ins).
  Definition st (a : string) (q : option string) (b : string) : setc := (a, q, b).

  Definition tests_d : list (list sstmt) :=
    [ (* 1 the chain through an expression and an UPDATE: s.a -> f.d, s.b -> f.d *)
      [SS (ins "m" (sel [xa (EBin (cr_ "a") (cr_ "b")) "c"] [T "s"])); upd "f" [st "d" (Some "m") "c"] [T "m"]];
      (* 2 a MERGE feeding an INSERT *)
      [mrg "m" "s" [st "c" None "a"] (Some (["k"; "c"], [(None, "k"); (Some "s", "b")])); SS (ins "f" (sel [xa (EFun (cr_ "c") (cr_ "k")) "d"] [T "m"]))];
      (* 3 a cycle through an UPDATE, with an entry and an exit *)
      [SS (ins "a" (sel [c_ "x"] [T "r"])); upd "b" [st "x" None "x"] [T "a"]; SS (ins "a" (sel [c_ "x"] [T "b"])); SS (ins "t" (sel [c_ "x"] [T "b"]))];
      (* 4 UPDATE over two tables, qualified; the target is written by two statements *)
      [upd "f" [st "d" (Some "m") "c"; st "e" (Some "n") "c"] [T "m"; T "n"]; SS (ins "m" (sel [c_ "c"] [T "s"])); mrg "f" "u" [st "d" None "z"] None];
      (* 5 UPDATE then MERGE then a view; the UPDATE comes before its source is written *)
      [upd "g" [st "y" None "x"] [T "f"]; mrg "f" "m" [] (Some (["x"], [(None, "c")])); SS (view "v" (sel [xa (EBin (cr_ "y") ELit) "z"] [T "g"]));
       SS (ins "m" (sel [c_ "c"] [T "s"]))];
      (* 6 a cycle of an UPDATE and a MERGE only: nothing reported *)
      [upd "a" [st "x" None "x"] [T "b"]; mrg "b" "a" [st "x" None "x"] None];
      (* 7 only DML; aliases *)
      [SD (DUpdate (Some "s1", "f") (Some "ff") [st "d" (Some "p") "c"] [RTable (None, "m") (Some "p"); RTable (None, "n") None] true None);
       SD (DMerge (None, "m") (Some "mm") (RTable (Some "s2", "u") (Some "y")) [st "c" (Some "y") "b"] None)];
      (* 8 the empty script; a no-data statement between *)
      []; [SS (SNoData 0); upd "f" [st "d" None "c"] [T "m"]] ].

  Example tests_d_hold :
    map (script_check_xd [] e0) tests_d = map (fun _ => "holds") tests_d /\
    map (script_check_xd [ws; cm] e1) tests_d = map (fun _ => "holds") tests_d.
  Proof. vm_compute. split; reflexivity. Qed.

  Example tests_d_reported :
    map (spec_script_pairs_xd "") (firstn 7 tests_d) =
    [["<default>.s.a><default>.f.d"; "<default>.s.b><default>.f.d"];
     ["<default>.s.a><default>.f.d"; "<default>.s.b><default>.f.d"; "<default>.s.k><default>.f.d"];
     ["<default>.r.x><default>.t.x"];
     ["<default>.n.c><default>.f.e"; "<default>.s.c><default>.f.d"; "<default>.u.z><default>.f.d"];
     ["<default>.s.c><default>.v.z"];
     [];
     ["s2.u.b>s1.f.d"]].
  Proof. vm_compute. reflexivity. Qed.
End TestsD.

(* ================================================================== *)
(** * Part 2: a holder built in place (UPDATE / MERGE): the facts of [holder_facts] (ScriptExact.v) without the
      composition step *)
Lemma ext_holder_facts d ts xs (S : xcol -> list column) G :
  group_ok d ts -> ts_inj ts -> dk d = KTable ->
  (forall x, In x xs -> (exists nm0, snd x = {| craw := nm0; cparents := [d] |}) /\
     forall s, In s (S (fst x)) -> exists v, In v ts /\ cparents s = [v]) ->
  ext (add_write empty_graph d) G (map (fun v => (NData v, NStr (dalias v))) ts ++ sel_edges d S xs) ->
  sel_inv (PC4 ts []) d ts G ->
  core_facts G (flows_of S xs).
Proof.
  intros Hgo Hinj Hd HX X Hinv.
  destruct (holder_realises_ext d ts [] xs S (add_write empty_graph d) G Hgo Hinj Hd) as (C1 & _ & C3 & _);
    [|intros nm []|intros x' s' nm v []|reflexivity|reflexivity|exact X|exact Hinv|].
  - intros x Hx. destruct (HX x Hx) as [H1 H2]. split; [exact H1|]. intros s Hs. left. exact (H2 s Hs).
  - constructor; [exact C1|exact C3| |].
    + apply (lits_weaken (QK (d :: ts) (PC4 ts []))); [|exact (si_lits _ _ _ _ Hinv)].
      intros n Hn. destruct n as [v|c|s]; [reflexivity|exact (PC4_nil_resolved ts c Hn)|reflexivity].
    + intros x y Hxy. rewrite (ext_edges _ _ _ X) in Hxy.
      change (has_edge (add_write empty_graph d) x y) with false in Hxy. cbn [orb] in Hxy.
      unfold ematch in Hxy. apply existsb_exists in Hxy. destruct Hxy as (p & Hp & E).
      apply andb_true_iff in E. destruct E as [E1 E2]. destruct (ext_new _ _ _ X p Hp) as [N1 N2].
      rewrite (RefineGraph.has_node_cong G x (fst p) E1), (RefineGraph.has_node_cong G y (snd p) E2). auto.
Qed.

Lemma facts_of_core e sg G FL Es :
  analyze e false sg = Ok G -> core_facts G FL -> (forall f, In f FL -> tcol (fst f) /\ tcol (snd f)) ->
  (forall p, In p Es <-> In p (map phi FL)) -> stmt_facts e sg Es.
Proof.
  intros Ea CF HT HE. exists G. split; [exact Ea|]. split; [exact (core_plain G (cf_clean _ _ CF))|].
  split; [exact (core_resolved G (cf_res _ _ CF))|]. split; [exact (core_cwf G _ CF)|].
  apply (edges_match_ext G (map phi FL)); [intros p; symmetry; apply HE|]. exact (realises_match G _ (cf_real _ _ CF) HT).
Qed.

(* ================================================================== *)
(** * Part 3: UPDATE t SET a = [q.]b, ... FROM base tables *)
Theorem update_statement : forall noise e t al sets from cj wh,
  noise_ok noise = true -> env_ok e = true -> upd_cols_ok t al sets from = true ->
  match from with [_] => true | _ => forallb (fun s : setc => is_some (snd (fst s))) sets end = true ->
  stmt_facts e (r_dml noise (DUpdate t al sets from cj wh)) (dml_edges (e_cfg e) (DUpdate t al sets from cj wh)).
Proof.
  intros noise e t al sets from cj wh Hn He Hok Hres. unfold upd_cols_ok in Hok.
  apply andb_true_iff in Hok; destruct Hok as [Hok _]. apply andb_true_iff in Hok; destruct Hok as [Hok Hicb].
  apply andb_true_iff in Hok; destruct Hok as [Hok Htcb]. apply andb_true_iff in Hok; destruct Hok as [Hok Hrel].
  apply andb_true_iff in Hok; destruct Hok as [Hok Hne]. apply andb_true_iff in Hok; destruct Hok as [Hok Hsets].
  apply andb_true_iff in Hok; destruct Hok as [Hok _]. apply andb_true_iff in Hok; destruct Hok as [Ht Hal].
  assert (Hne' : from <> []) by (destruct from; [discriminate|discriminate]).
  set (items := map set_item sets).
  pose proof (set_items_ok sets Hsets) as Hit. fold items in Hit.
  pose proof (tables_condb_ok (e_cfg e) t from Ht Hrel Htcb) as Htc.
  pose proof (items_condb_ok from items Hicb) as Hic.
  pose proof (group_ok_of e t from Hrel Htc) as Hgo. pose proof (ts_inj_of e t from Hrel Htc) as Hinj.
  pose proof (names_nodot_of e from Hrel) as Hnd. pose proof (tbls_NoDup e t from Hrel Htc) as Hndup.
  assert (Hrt : forallb is_rtable from = true).
  { rewrite forallb_forall in *. intros r Hr. apply rel_ok_table. apply Hrel. exact Hr. }
  assert (Huq : match from with
                | [_] => true
                | _ => forallb (fun i => match snd (item_ref i) with Some _ => true | None => false end) items
                end = true).
  { assert (K : forallb (fun s : setc => is_some (snd (fst s))) sets = true ->
                forallb (fun i => match snd (item_ref i) with Some _ => true | None => false end) items = true).
    { intros Hf. apply forallb_forall. intros i Hi. unfold items in Hi. apply in_map_iff in Hi. destruct Hi as (s0 & <- & Hs0).
      rewrite forallb_forall in Hf. specialize (Hf s0 Hs0). destruct s0 as [[a q] b]. cbn [fst snd] in Hf.
      unfold set_item. cbn [item_ref fst snd]. destruct q; [reflexivity|discriminate Hf]. }
    destruct from as [|r [|r' l]]; [apply K; exact Hres|reflexivity|apply K; exact Hres]. }
  pose proof (unq_single_res items from Huq Hic) as Hires.
  set (d := tbl e t None) in *. set (ts := map (tbl_of e) from) in *. set (xs := map setc_xcol sets).
  assert (Hxs : forall x, In x xs -> xref_ok ts x).
  { intros x Hx. apply in_map_iff in Hx. destruct Hx as (s0 & <- & Hs0). destruct (set_xcol_same s0) as [E1 E2].
    apply (xref_ok_ext _ (xcol_of (set_item s0)) _ E1 E2). apply (xref_ok_of e t from items Hrel Hit Htc Hic).
    unfold items. rewrite map_map. apply in_map_iff. exists s0. auto. }
  assert (HA : forall x, In x xs -> cparents (xc x) = [] /\ PC4 ts [] (own_col d x) /\
                 (forall s0, In s0 (S_of ts x) -> PC4 ts [] s0 /\ forall p, In p (cparents s0) -> In p ts) /\
                 (forall s0, In s0 (S_of ts x) -> exists v, In v ts /\ cparents s0 = [v])).
  { intros x Hx. pose proof (Hxs x Hx) as Hok. apply in_map_iff in Hx. destruct Hx as (s0 & <- & Hs0).
    assert (Hin : In (set_item s0) items) by (unfold items; apply in_map; exact Hs0).
    assert (Hun : unres_names ts [setc_xcol s0] = []).
    { destruct (set_xcol_same s0) as [_ E2].
      assert (E : unres_names ts [setc_xcol s0] = unres_names ts (map xcol_of [set_item s0])).
      { unfold unres_names. cbn [map flat_map]. rewrite E2. reflexivity. }
      rewrite E. apply (unq_single_unres e [set_item s0] from (old_restrict items from _ Huq Hin)).
      cbn [forallb]. rewrite forallb_forall in Hit. rewrite (Hit _ Hin). reflexivity. }
    destruct (S_of_props d ts [setc_xcol s0] (setc_xcol s0) Hgo Hinj eq_refl (or_introl eq_refl) Hok) as (B1 & B2 & _ & B4 & B5).
    rewrite Hun in B2, B4, B5. split; [exact B1|]. split; [exact B2|]. split; [exact B4|].
    intros s1 Hs1. destruct (B5 s1 Hs1) as [K|(nm & [] & _)]. exact K. }
  assert (Hdo : Forall data_ok ts).
  { apply Forall_forall. intros v Hv. unfold data_ok. rewrite (go_tables _ _ Hgo v Hv).
    apply in_map_iff in Hv. destruct Hv as (r & <- & _). destruct r; reflexivity. }
  pose proof (analyze_update_tables noise Hn e He t al sets from cj wh Ht Hal Hne' Hrel) as Ea0.
  assert (Ea : analyze e false (r_dml noise (DUpdate t al sets from cj wh)) = upd_collin e xs (fold_left add_read ts (add_write empty_graph d))) by exact Ea0.
  clear Ea0. set (PC := PC4 ts []). set (g_b := add_write empty_graph d).
  assert (Lb : lits_in (QK (d :: ts) PC) g_b) by (split; [intros n [<-|[]]; left; reflexivity|intros e0 []]).
  assert (Eb : edges_inv ts g_b) by (intros e0 []).
  assert (Db : drop_free g_b) by (intros n a [H|[]]; inversion H; intros [K|[]]; discriminate K).
  destruct (add_reads_ok PC d ts ts g_b Hgo Hdo (fun v Hv => Hv) Lb Eb) as (A1 & A2 & A3 & A4 & A5 & A6).
  set (g0 := fold_left add_read ts g_b) in *.
  assert (Hw : sq_write g0 = [d]) by (unfold sq_write; rewrite A4 by discriminate; reflexivity).
  assert (Hr : sq_read g0 = ts).
  { unfold sq_read, g0. rewrite add_reads_exact; [reflexivity|exact (go_tables _ _ Hgo)|exact Hndup|exact (go_distinct _ _ Hgo)|].
    intros v Hv. unfold g_b, add_write. rewrite has_node_add_node. cbn [has_node empty_graph gnodes has_node_l orb node_eqb].
    apply (go_target _ _ Hgo v Hv). }
  assert (Hinv0 : sel_inv PC d ts g0).
  { constructor; [exact A1|exact A2| |exact (A6 Db)]. intros v Hv.
    assert (Hin : In (NData v, NStr (dalias v)) (map (fun v => (NData v, NStr (dalias v))) ts)) by (apply in_map_iff; exists v; auto).
    split.
    - rewrite (ext_edges _ _ _ A3). apply orb_true_iff. right. unfold ematch. apply existsb_exists. eexists. split; [exact Hin|].
      cbn [fst snd]. rewrite !node_eqb_refl. reflexivity.
    - exact (proj1 (ext_new _ _ _ A3 _ Hin)). }
  destruct (upd_collin_exact PC e d ts xs (S_of ts) Hgo eq_refl) with (l := xs) (g2 := g0) as (G & EG & XG & IG & TG).
  - intros g2 Hinv x Hx. apply (HS_of PC e d ts g2 x Hgo Hinj Hnd Hinv (Hxs x Hx)).
  - intros x Hx. destruct (HA x Hx) as (B1 & B2 & B4 & _). auto.
  - auto.
  - exact Hinv0.
  - exact Hw.
  - exact Hr.
  - fold g_b in Ea. fold g0 in Ea. rewrite EG in Ea.
    assert (Hop : forall p0, In p0 (own_pairs d xs) -> In (fst p0) xs /\ snd p0 = own_col d (fst p0)).
    { intros p0 Hp0. unfold own_pairs in Hp0. apply in_map_iff in Hp0. destruct Hp0 as (x & <- & Hx). auto. }
    apply (facts_of_core e _ G (flows_of (S_of ts) (own_pairs d xs)) _ Ea).
    + apply (ext_holder_facts d ts (own_pairs d xs) (S_of ts) G Hgo Hinj eq_refl).
      * intros p0 Hp0. destruct (Hop p0 Hp0) as [Hx Ep]. destruct (HA _ Hx) as (B1 & _ & _ & B5). split; [|exact B5].
        rewrite Ep, (own_col_eq d _ B1). eexists. reflexivity.
      * apply (ext_trans g_b g0 G); assumption.
      * exact IG.
    + intros f Hf. unfold flows_of in Hf. apply in_flat_map in Hf. destruct Hf as (p0 & Hp0 & Hf). apply in_map_iff in Hf.
      destruct Hf as (s0 & <- & Hs0). destruct (Hop p0 Hp0) as [Hx Ep]. destruct (HA _ Hx) as (B1 & _ & _ & B5). cbn [fst snd]. split.
      * destruct (B5 s0 Hs0) as (v & Hv & Ev). exists v. split; [exact Ev|]. exact (ts_tcol e from v Hrel Hv).
      * rewrite Ep, (own_col_eq d _ B1). exists d. split; [reflexivity|]. apply tbl_tcol_parent.
    + assert (E : dml_edges (e_cfg e) (DUpdate t al sets from cj wh) = map phi (flows_of (S_of ts) (own_pairs d xs))).
      { unfold dml_edges. cbn [dml_target dml_flow_query]. fold items.
        rewrite (stmt_edges_select (e_cfg e) (SCtas t (QSelect items from cj None)) t items from cj (or_intror (or_introl eq_refl)) Hrt).
        replace (flows_of (S_of ts) (own_pairs d xs)) with (flows_of (S_of ts) (own_pairs d (map xcol_of items))).
        - unfold flows_of, own_pairs. rewrite !flat_map_map', map_flat_map'. cbn [fst snd]. apply flat_map_ext_in'. intros i Hi.
          apply item_corr_v; [exact Hrel| |exact (Hires i Hi)]. rewrite forallb_forall in Hit. apply Hit. exact Hi.
        - unfold xs, items. rewrite map_map. symmetry. apply flows_xcol_ext. exact set_xcol_same. }
      intros p. rewrite E. tauto.
Qed.
Print Assumptions update_statement.

(* ================================================================== *)
(** * Part 4: MERGE INTO t USING a base table *)
Definition trip_edge (U Tt : string) (s : setc) : vtx * vtx := ((U, snd s), (Tt, fst (fst s))).

Lemma model_edges_trip d d1 T :
  sets_ok T = true ->
  map phi (flows_of (S_m d1) (own_pairs d (map setc_xcol T))) = map (trip_edge (dstr d1) (dstr d)) T.
Proof.
  intros Hok. unfold sets_ok in Hok. induction T as [|s r IH]; [reflexivity|].
  cbn [forallb] in Hok. apply andb_true_iff in Hok. destruct Hok as [Hs Hr].
  change (flows_of (S_m d1) (own_pairs d (map setc_xcol (s :: r))))
    with (map (fun s0 => (s0, own_col d (setc_xcol s))) (S_m d1 (setc_xcol s)) ++ flows_of (S_m d1) (own_pairs d (map setc_xcol r))).
  rewrite map_app. change (map (trip_edge (dstr d1) (dstr d)) (s :: r))
    with ([trip_edge (dstr d1) (dstr d) s] ++ map (trip_edge (dstr d1) (dstr d)) r). f_equal; [|exact (IH Hr)].
  unfold setc_ok in Hs. apply andb_true_iff in Hs. destruct Hs as [Hs H3]. apply andb_true_iff in Hs. destruct Hs as [H1 _].
  destruct s as [[a q] b]. cbn [fst snd] in *. unfold S_m, setc_xcol, mk_xcol, own_col, add_parent.
  cbn [xsrc xc map esc_src fst snd cparents memd existsb insert_parent craw].
  unfold phi, vk, trip_edge. cbn [fst snd cparents craw]. rewrite (id_ok_escape a H1), (id_ok_escape b H3). reflexivity.
Qed.

Lemma spec_edges_trip ds t u al2 T :
  forallb (mrg_qual_ok u al2) T = true ->
  stmt_edges ds (SCtas t (QSelect (map set_item T) [RTable u al2] false None)) = map (trip_edge (tref_str ds u) (tref_str ds t)) T.
Proof.
  intros Hq. unfold stmt_edges. cbn [q_size q_cols flat_map rels_flat app map].
  assert (Eb : match fst u, assoc_s (snd u) (@nil (string * list colspec)) with
               | None, Some cols => {| b_alias := al2; b_names := match al2 with Some _ => [] | None => [snd u] end; b_rel := RelCols cols |}
               | _, _ => {| b_alias := al2; b_names := match al2 with Some _ => [] | None => [snd u; tref_str ds u] end; b_rel := RelBase (tref_str ds u) |}
               end = {| b_alias := al2; b_names := match al2 with Some _ => [] | None => [snd u; tref_str ds u] end; b_rel := RelBase (tref_str ds u) |}).
  { destruct (fst u); reflexivity. }
  rewrite Eb. set (bnd := {| b_alias := al2; b_names := _; b_rel := _ |}).
  induction T as [|s r IH]; [reflexivity|]. cbn [forallb] in Hq. apply andb_true_iff in Hq. destruct Hq as [Hs Hr].
  cbn [map flat_map]. rewrite flat_map_app.
  change (trip_edge (tref_str ds u) (tref_str ds t) s :: map (trip_edge (tref_str ds u) (tref_str ds t)) r)
    with ([trip_edge (tref_str ds u) (tref_str ds t) s] ++ map (trip_edge (tref_str ds u) (tref_str ds t)) r).
  f_equal; [|exact (IH Hr)].
  destruct s as [[a q] b]. unfold mrg_qual_ok in Hs. cbn [fst snd] in Hs. unfold set_item, trip_edge. cbn [fst snd item_cols col_refs flat_map app].
  assert (Er : resolve [bnd] (q, b) = [SCol (tref_str ds u) b]).
  { unfold resolve. cbn [fst snd]. destruct q as [qq|]; [|reflexivity]. apply String.eqb_eq in Hs. subst qq.
    unfold find_binding, bnd. destruct al2 as [a2|]; cbn [filter b_alias b_names b_rel rel_col mem_string]; rewrite String.eqb_refl; reflexivity. }
  rewrite Er. reflexivity.
Qed.

Theorem merge_statement : forall noise e t al u al2 upd ins,
  noise_ok noise = true -> env_ok e = true -> mrg_table_cols_ok t al u al2 upd ins = true ->
  stmt_facts e (r_dml noise (DMerge t al (RTable u al2) upd ins)) (dml_edges (e_cfg e) (DMerge t al (RTable u al2) upd ins)).
Proof.
  intros noise e t al u al2 upd ins Hn He Hok. unfold mrg_table_cols_ok in Hok.
  apply andb_true_iff in Hok; destruct Hok as [Hok Hq]. apply andb_true_iff in Hok; destruct Hok as [Hok Hsets].
  apply andb_true_iff in Hok; destruct Hok as [Hok _]. apply andb_true_iff in Hok; destruct Hok as [Hok Hcl].
  apply andb_true_iff in Hok; destruct Hok as [Hok Hal2]. apply andb_true_iff in Hok; destruct Hok as [Hok Hu].
  apply andb_true_iff in Hok; destruct Hok as [Ht Hal].
  set (d := tbl e t None). set (d1 := tbl e u None).
  assert (Hrel : forallb rel_ok [RTable u None] = true) by (cbn [forallb rel_ok]; rewrite Hu; reflexivity).
  assert (Htc : tables_cond (e_cfg e) t [RTable u None]).
  { apply (tables_condb_ok (e_cfg e) t [RTable u None] Ht Hrel). unfold tables_condb. cbn [map rtref trefs_distinct forallb]. rewrite Hcl. reflexivity. }
  pose proof (group_ok_of e t [RTable u None] Hrel Htc) as Hgo. pose proof (ts_inj_of e t [RTable u None] Hrel Htc) as Hinj.
  cbn [map tbl_of] in Hgo, Hinj. fold d d1 in Hgo, Hinj.
  destruct (analyze_merge_table noise Hn e He t al u al2 upd ins Ht Hal Hu Hal2 Hgo) as (G & Ea & XG & IG).
  fold d d1 in XG, IG. set (xs := mrg_xs upd ins) in *.
  assert (HX : forall p0, In p0 (own_pairs d xs) ->
                 (exists nm0, snd p0 = {| craw := nm0; cparents := [d] |}) /\ forall s, In s (S_m d1 (fst p0)) -> cparents s = [d1]).
  { intros p0 Hp0. unfold own_pairs in Hp0. apply in_map_iff in Hp0. destruct Hp0 as (x & <- & Hx). cbn [fst snd].
    assert (Hx0 : cparents (xc x) = []).
    { unfold xs in Hx. rewrite mrg_xs_trip in Hx. apply in_map_iff in Hx. destruct Hx as (s & <- & _). reflexivity. }
    split; [rewrite (own_col_eq d x Hx0); eexists; reflexivity|].
    intros s Hs. unfold S_m in Hs. destruct (xsrc x) as [|[c qq] [|p r]]; [destruct Hs| |destruct Hs]. destruct Hs as [<-|[]]. reflexivity. }
  apply (facts_of_core e _ G (flows_of (S_m d1) (own_pairs d xs)) _ Ea).
  - apply (ext_holder_facts d [d1] (own_pairs d xs) (S_m d1) G Hgo Hinj eq_refl); [|exact XG|exact IG].
    intros p0 Hp0. destruct (HX p0 Hp0) as [H1 H2]. split; [exact H1|]. intros s Hs. exists d1. split; [left; reflexivity|exact (H2 s Hs)].
  - intros f Hf. unfold flows_of in Hf. apply in_flat_map in Hf. destruct Hf as (p0 & Hp0 & Hf). apply in_map_iff in Hf.
    destruct Hf as (s0 & <- & Hs0). destruct (HX p0 Hp0) as [(nm0 & H1) H2]. cbn [fst snd]. split.
    + exists d1. split; [exact (H2 s0 Hs0)|]. apply tbl_tcol_parent.
    + rewrite H1. exists d. split; [reflexivity|]. apply tbl_tcol_parent.
  - assert (E : dml_edges (e_cfg e) (DMerge t al (RTable u al2) upd ins) = map phi (flows_of (S_m d1) (own_pairs d xs))).
    { unfold dml_edges. cbn [dml_target dml_flow_query]. unfold xs. rewrite mrg_xs_trip, mrg_items_trip.
      rewrite (model_edges_trip d d1 (mrg_trip upd ins) Hsets), (spec_edges_trip (e_cfg e) t u al2 (mrg_trip upd ins) Hq). reflexivity. }
    intros p. rewrite E. tauto.
Qed.
Print Assumptions merge_statement.

(** ** both *)
Theorem dml_statement : forall noise e d,
  noise_ok noise = true -> env_ok e = true -> dml_cols_ok d = true -> dml_resolved d = true ->
  stmt_facts e (r_dml noise d) (dml_edges (e_cfg e) d).
Proof.
  intros noise e d Hn He Hok Hres. destruct d as [t al sets from cj wh|t al [u al2|q a|x y] upd ins|t items from cj wh]; try discriminate Hok.
  - apply update_statement; assumption.
  - apply merge_statement; assumption.
Qed.
Print Assumptions dml_statement.

(* ================================================================== *)
(** * Part 4b: a plain SELECT with expression items over base tables (rendered by [r_stmt_x]): reads, no flows *)
Lemma analyze_query_tables_x noise e items from cj :
  noise_ok noise = true -> env_ok e = true ->
  forallb item_ok_x items = true -> from <> [] -> forallb rel_ok from = true ->
  analyze e false (r_stmt_x noise (SQuery (QSelect items from cj None))) = Ok (fold_left add_read (map (tbl_of e) from) empty_graph).
Proof.
  intros Hn He Hit Hne Hrel.
  assert (Hrt : forallb is_rtable from = true).
  { rewrite forallb_forall in *. intros r Hr. apply rel_ok_table. apply Hrel. exact Hr. }
  set (q := QSelect items from cj None). set (k := q_size q). set (stmt := Qx noise k items from cj).
  assert (Hst : r_stmt_x noise (SQuery q) = stmt) by (unfold stmt, r_stmt_x, q; apply (r_query_x_select noise _ items from cj Hrt)).
  rewrite Hst.
  assert (Ea : analyze e false stmt = extract (S (S (3 * depth stmt + 8))) e XSelect stmt empty_ctx).
  { replace (S (S (3 * depth stmt + 8))) with (3 * depth stmt + 10) by lia. reflexivity. }
  assert (Hfu : forall i, In i items -> item_fuel i <= 3 * depth stmt + 8).
  { intros i Hi. pose proof (item_fuel_sc noise items i Hi) as H1.
    pose proof (depth_in_sep noise "select_statement" ["select_statement"] [r_sc_x noise items; r_fc noise k from cj] _ (or_introl eq_refl)) as H3.
    fold (Qx noise k items from cj) in H3. fold stmt in H3. lia. }
  rewrite (select_tables_extract_x noise Hn e He _ stmt items from cj k empty_ctx (sel_segments_x noise Hn items k from cj) Hit Hfu Hne Hrel eq_refl) in Ea.
  change (init_holder empty_ctx) with empty_graph in Ea. rewrite eoq_single in Ea. cbv zeta in Ea.
  set (ts := map (tbl_of e) from) in *. set (G := fold_left add_read ts empty_graph) in *.
  assert (Hk : forall v, In v ts -> dk v = KTable).
  { intros v Hv. apply in_map_iff in Hv. destruct Hv as (r & <- & Hr). rewrite forallb_forall in Hrt. specialize (Hrt r Hr). destruct r; try discriminate Hrt. reflexivity. }
  assert (Hw : sq_write G = []) by (unfold sq_write, G; rewrite add_reads_write by exact Hk; reflexivity).
  rewrite Hw in Ea. unfold expand_wildcard in Ea. unfold get_target_table in Ea. rewrite Hw in Ea. cbn [filter] in Ea.
  exact Ea.
Qed.

Theorem query_statement_x : forall noise e s,
  noise_ok noise = true -> env_ok e = true -> plain_query_x s = true ->
  stmt_facts e (r_stmt_x noise s) (stmt_edges (e_cfg e) s).
Proof.
  intros noise e s Hn He Hq.
  destruct s as [t cols q|t q|t q|q|kind]; try discriminate. destruct q as [items from cj [wh|]| |]; try discriminate.
  cbn [plain_query_x] in Hq. apply andb_true_iff in Hq. destruct Hq as [Hq Hrel]. apply andb_true_iff in Hq. destruct Hq as [Hit Hne0].
  assert (Hne : from <> []) by (destruct from; [discriminate Hne0|discriminate]).
  assert (Hrt : forallb is_rtable from = true).
  { rewrite forallb_forall in *. intros r Hr. apply rel_ok_table. apply Hrel. exact Hr. }
  set (ts := map (tbl_of e) from). set (G := fold_left add_read ts empty_graph). exists G.
  split; [exact (analyze_query_tables_x noise e items from cj Hn He Hit Hne Hrel)|].
  assert (Hk : forall v, In v ts -> dk v = KTable).
  { intros v Hv. apply in_map_iff in Hv. destruct Hv as (r & <- & Hr). rewrite forallb_forall in Hrt. specialize (Hrt r Hr). destruct r; try discriminate Hrt. reflexivity. }
  apply no_columns_holder.
  - split.
    + intros n a Hin. destruct (attr_true "drop" a) eqn:E; [|reflexivity]. exfalso. apply attr_true_In in E.
      exact (add_reads_drop ts empty_graph Hk (fun _ _ H => match H with end) n a Hin E).
    + intros e0 He0. rewrite (add_reads_etypes ts empty_graph Hk (fun _ H => match H with end) e0 He0). reflexivity.
  - apply lits_add_reads; [apply lits_in_empty|reflexivity|reflexivity].
  - pose proof (ext_add_reads ts empty_graph Hk) as X. fold G in X. intros x y Hxy. rewrite (ext_edges _ _ _ X) in Hxy.
    cbn [orb] in Hxy. change (has_edge empty_graph x y) with false in Hxy. cbn [orb] in Hxy.
    unfold ematch in Hxy. apply existsb_exists in Hxy. destruct Hxy as (p & Hp & E). apply andb_true_iff in E. destruct E as [E1 E2].
    destruct (ext_new _ _ _ X p Hp) as [N1 N2].
    rewrite (RefineGraph.has_node_cong G x (fst p) E1), (RefineGraph.has_node_cong G y (snd p) E2). auto.
Qed.
Print Assumptions query_statement_x.

(* ================================================================== *)
(** * Part 5: scripts of statements and DML statements *)
Definition core_sstmt (x : sstmt) : Prop :=
  match x with
  | SS s => core_stmt_x s \/ plain_query_x s = true
  | SD d => dml_cols_ok d = true /\ dml_resolved d = true
  end.

Lemma core_ok_xd_sstmt x : core_ok_xd x = true -> core_sstmt x.
Proof.
  destruct x as [s|d]; cbn [core_ok_xd core_sstmt]; intros H.
  - apply orb_true_iff in H. destruct H as [H|H]; [left; exact (core_ok_x2_stmt s H)|right; exact H].
  - apply andb_true_iff in H. exact H.
Qed.

Lemma sstmt_facts noise e x :
  noise_ok noise = true -> env_ok e = true -> core_sstmt x -> stmt_facts e (r_sstmt noise x) (sstmt_edges (e_cfg e) x).
Proof.
  intros Hn He H. destruct x as [s|d]; cbn [r_sstmt sstmt_edges core_sstmt] in *.
  - destruct H as [H|H]; [exact (stmt_facts_x noise e s Hn He H)|exact (query_statement_x noise e s Hn He H)].
  - exact (dml_statement noise e d Hn He (proj1 H) (proj2 H)).
Qed.

Lemma core_script_xd noise e xs :
  noise_ok noise = true -> env_ok e = true -> Forall core_sstmt xs ->
  Forall2 (stmt_facts e) (map (r_sstmt noise) xs) (map (sstmt_edges (e_cfg e)) xs).
Proof.
  intros Hn He H. induction H as [|x xs Hx _ IH]; cbn [map]; constructor; [exact (sstmt_facts noise e x Hn He Hx)|exact IH].
Qed.

(** THE SCRIPT THEOREM with expression items, UPDATE and MERGE: any number of statements, any order, cycles allowed *)
Theorem script_exact_on_core_xd : forall noise e xs,
  noise_ok noise = true -> env_ok e = true ->
  Forall (fun x => match x with
                   | SS s => ((stmt_ok_x s = true /\ colshape s = true /\ resolved_x s = true) \/ is_nodata s = true) \/ plain_query_x s = true
                   | SD d => dml_cols_ok d = true /\ dml_resolved d = true
                   end) xs ->
  script_pairs e false [] (map (r_sstmt noise) xs) = spec_script_pairs_xd (e_cfg e) xs.
Proof.
  intros noise e xs Hn He H.
  assert (H' : Forall core_sstmt xs).
  { apply Forall_forall. intros x Hx. rewrite Forall_forall in H. specialize (H x Hx). destruct x; exact H. }
  rewrite (script_exact_general e _ _ He (core_script_xd noise e xs Hn He H')).
  unfold spec_script_pairs_xd, script_edges_xd. rewrite flat_map_concat_map. reflexivity.
Qed.
Print Assumptions script_exact_on_core_xd.

Corollary script_graph_col_edges_xd noise e xs :
  noise_ok noise = true -> env_ok e = true -> Forall core_sstmt xs ->
  exists g, script_graph e false [] (map (r_sstmt noise) xs) = Ok g /\
    forall x y, CompDefs.col_edge g x y = true <->
                exists u v, In (u, v) (script_edges_xd (e_cfg e) xs) /\ node_eqb x (nu u) = true /\ node_eqb y (nu v) = true.
Proof.
  intros Hn He H. destruct (script_graph_general e _ _ He (core_script_xd noise e xs Hn He H)) as (g & Eg & Hg).
  exists g. split; [exact Eg|]. intros x y. rewrite (Hg x y). unfold script_edges_xd. rewrite flat_map_concat_map. reflexivity.
Qed.
Print Assumptions script_graph_col_edges_xd.

Corollary script_check_xd_never_fails noise e xs : script_check_xd noise e xs <> "FAILS".
Proof.
  unfold script_check_xd. destruct (noise_ok noise && env_ok e && forallb core_ok_xd xs) eqn:G; cbn [negb]; [|discriminate].
  apply andb_true_iff in G. destruct G as [G Hss]. apply andb_true_iff in G. destruct G as [Hn He].
  rewrite (script_exact_on_core_xd noise e xs Hn He), list_eqb_refl; [discriminate|].
  apply Forall_forall. intros x Hx. rewrite forallb_forall in Hss. pose proof (core_ok_xd_sstmt x (Hss x Hx)) as K. destruct x; exact K.
Qed.
Print Assumptions script_check_xd_never_fails.

Lemma core_sstmt_Forall xs : Forall core_sstmt xs ->
  Forall (fun x => match x with
                   | SS s => ((stmt_ok_x s = true /\ colshape s = true /\ resolved_x s = true) \/ is_nodata s = true) \/ plain_query_x s = true
                   | SD d => dml_cols_ok d = true /\ dml_resolved d = true
                   end) xs.
Proof. intros H. apply Forall_forall. intros x Hx. rewrite Forall_forall in H. specialize (H x Hx). destruct x; exact H. Qed.

Corollary script_pair_iff_xd noise e xs x :
  noise_ok noise = true -> env_ok e = true -> Forall core_sstmt xs ->
  let E := script_edges_xd (e_cfg e) xs in
  In x (script_pairs e false [] (map (r_sstmt noise) xs)) <->
  exists a b, ~ In a (map snd E) /\ ~ In b (map fst E) /\ tcv E a b /\ x = (show_vtx a ++ ">" ++ show_vtx b)%string.
Proof.
  intros Hn He H E. rewrite (script_exact_on_core_xd noise e xs Hn He (core_sstmt_Forall xs H)).
  unfold spec_script_pairs_xd. rewrite In_uniq_sort. apply In_pairs_of.
Qed.
Print Assumptions script_pair_iff_xd.

Corollary spec_order_irrelevant_xd ds xs xs' : Permutation xs xs' -> spec_script_pairs_xd ds xs = spec_script_pairs_xd ds xs'.
Proof.
  intros Hp. unfold spec_script_pairs_xd. apply us_ext. apply pairs_of_ext. intros p. unfold script_edges_xd. rewrite !in_flat_map.
  split; intros (s & Hs & Hin); exists s; (split; [|exact Hin]); [apply (Permutation_in s Hp Hs)|apply (Permutation_in s (Permutation_sym Hp) Hs)].
Qed.

Corollary script_order_irrelevant_xd noise e xs xs' :
  noise_ok noise = true -> env_ok e = true -> Forall core_sstmt xs -> Permutation xs xs' ->
  script_pairs e false [] (map (r_sstmt noise) xs) = script_pairs e false [] (map (r_sstmt noise) xs').
Proof.
  intros Hn He H Hp. rewrite (script_exact_on_core_xd noise e xs Hn He (core_sstmt_Forall xs H)).
  rewrite (script_exact_on_core_xd noise e xs' Hn He); [apply spec_order_irrelevant_xd; exact Hp|].
  apply core_sstmt_Forall. apply Forall_forall. intros s Hs. rewrite Forall_forall in H. apply H. apply (Permutation_in s (Permutation_sym Hp) Hs).
Qed.
Print Assumptions script_order_irrelevant_xd.

(** one DML statement: the script specification is Lemma B-dml's statement specification *)
Corollary spec_script_single_dml noise e d :
  noise_ok noise = true -> env_ok e = true -> dml_cols_ok d = true -> dml_resolved d = true ->
  spec_script_pairs_xd (e_cfg e) [SD d] = dml_pairs (e_cfg e) d.
Proof.
  intros Hn He H1 H2.
  assert (HF : Forall core_sstmt [SD d]) by (constructor; [exact (conj H1 H2)|constructor]).
  rewrite <- (script_exact_on_core_xd noise e [SD d] Hn He (core_sstmt_Forall _ HF)).
  exact (lemma_B_dml noise e d Hn He H1).
Qed.

(* ================================================================== *)
(** * Non-vacuity *)
Module ExamplesD.
  Import Tests TestsX TestsD.
  (** insert into m select a + b as c from s; update f set d = m.c from m *)
  Definition chain_upd : list sstmt :=
    [SS (ins "m" (sel [xa (EBin (cr_ "a") (cr_ "b")) "c"] [T "s"])); upd "f" [st "d" (Some "m") "c"] [T "m"]].
  Lemma chain_upd_core : Forall core_sstmt chain_upd.
  Proof. repeat (constructor; [apply core_ok_xd_sstmt; reflexivity|]). constructor. Qed.

  (** for EVERY admissible trivia: s.a -> f.d and s.b -> f.d, and nothing else *)
  Example chain_through_update noise : noise_ok noise = true ->
    script_pairs e1 false [] (map (r_sstmt noise) chain_upd) = ["main.s.a>main.f.d"; "main.s.b>main.f.d"].
  Proof.
    intros Hn. rewrite (script_exact_on_core_xd noise e1 chain_upd Hn eq_refl (core_sstmt_Forall _ chain_upd_core)). vm_compute. reflexivity.
  Qed.

  (** a MERGE (update + insert branch) feeding an INSERT with an expression (test 2), any trivia *)
  Example merge_feeds_insert noise : noise_ok noise = true ->
    script_pairs e0 false [] (map (r_sstmt noise) (nth 1 tests_d [])) =
    ["<default>.s.a><default>.f.d"; "<default>.s.b><default>.f.d"; "<default>.s.k><default>.f.d"].
  Proof.
    intros Hn. rewrite (script_exact_on_core_xd noise e0 _ Hn eq_refl); [vm_compute; reflexivity|].
    apply core_sstmt_Forall. repeat (constructor; [apply core_ok_xd_sstmt; reflexivity|]). constructor.
  Qed.

  (** a cycle through an UPDATE with an entry and an exit (test 3); a cycle of an UPDATE and a MERGE reports nothing (test 6) *)
  Example cycle_through_update noise : noise_ok noise = true ->
    script_pairs e0 false [] (map (r_sstmt noise) (nth 2 tests_d [])) = ["<default>.r.x><default>.t.x"] /\
    script_pairs e0 false [] (map (r_sstmt noise) (nth 5 tests_d [])) = [].
  Proof.
    intros Hn. split; (rewrite (script_exact_on_core_xd noise e0 _ Hn eq_refl); [vm_compute; reflexivity|]);
      apply core_sstmt_Forall; repeat (constructor; [apply core_ok_xd_sstmt; reflexivity|]); constructor.
  Qed.

  Example dml_statement_nonvacuous :
    stmt_facts e1 (r_dml [ws; cm] (DUpdate (None, "f") (Some "ff") [st "d" (Some "p") "c"; st "e" (Some "n") "c"]
                                          [RTable (None, "m") (Some "p"); RTable (None, "n") None] true None))
               [(("main.m", "c"), ("main.f", "d")); (("main.n", "c"), ("main.f", "e"))] /\
    stmt_facts e1 (r_dml [ws; cm] (DMerge (None, "m") (Some "mm") (RTable (Some "s2", "u") (Some "y")) [st "c" (Some "y") "b"] (Some (["k"], [(None, "k2")]))))
               [(("s2.u", "b"), ("main.m", "c")); (("s2.u", "k2"), ("main.m", "k"))].
  Proof. split; apply (dml_statement [ws; cm] e1); reflexivity. Qed.

  Example order_xd_nonvacuous :
    script_pairs e0 false [] (map (r_sstmt [ws]) chain_upd) = script_pairs e0 false [] (map (r_sstmt [ws]) (rev chain_upd)).
  Proof. apply (script_order_irrelevant_xd [ws] e0); [reflexivity|reflexivity|exact chain_upd_core|apply perm_swap]. Qed.

  (** a plain SELECT with expression items and a no-data statement in between change nothing; the holder of the SELECT *)
  Definition chain_q : list sstmt :=
    [SS (SQuery (sel [xa (EBin (cr_ "c") (EFun (cr_ "q") ELit)) "z"; IStar None] [T "m"]));
     SS (ins "m" (sel [xa (EBin (cr_ "a") (cr_ "b")) "c"] [T "s"])); SS (SNoData 1);
     SS (SQuery (selc [xa (ECast (qr "f" "d")) "w"] [T "f"; T "s"])); upd "f" [st "d" (Some "m") "c"] [T "m"]].
  Example script_with_queries noise : noise_ok noise = true ->
    script_pairs e1 false [] (map (r_sstmt noise) chain_q) = ["main.s.a>main.f.d"; "main.s.b>main.f.d"].
  Proof.
    intros Hn. rewrite (script_exact_on_core_xd noise e1 chain_q Hn eq_refl); [vm_compute; reflexivity|].
    apply core_sstmt_Forall. repeat (constructor; [apply core_ok_xd_sstmt; reflexivity|]). constructor.
  Qed.
  Example query_statement_x_nonvacuous :
    stmt_facts e1 (r_stmt_x [ws; cm] (SQuery (selc [xa (ECast (qr "f" "d")) "w"; xa (EBin (cr_ "u") ELit) "v"] [T "f"; T "s"]))) [].
  Proof. apply (query_statement_x [ws; cm] e1 (SQuery (selc [xa (ECast (qr "f" "d")) "w"; xa (EBin (cr_ "u") ELit) "v"] [T "f"; T "s"]))); reflexivity. Qed.

  (** [dml_resolved] is needed: an unqualified right-hand side over two FROM tables is reported as c{m,n} *)
  Definition cx_unres_d : list sstmt := [upd "f" [st "d" None "c"] [T "m"; T "n"]].
  Example dml_resolved_needed :
    forallb (fun x => match x with SD d => dml_cols_ok d | _ => false end) cx_unres_d = true /\
    forallb (fun x => match x with SD d => dml_resolved d | _ => false end) cx_unres_d = false /\
    script_pairs e0 false [] (map (r_sstmt []) cx_unres_d) = ["c{<default>.m,<default>.n}><default>.f.d"] /\
    spec_script_pairs_xd "" cx_unres_d = [].
  Proof. vm_compute. repeat split; reflexivity. Qed.
End ExamplesD.
