(** L4 + L2: a whole script.  The statement loop of LineageRunner._eval over statement
    segments: analyse each statement under the provider view of that moment (session
    metadata first, then the base metadata), register the columns of the written table,
    then assemble with Holder.Build.build. *)
From SV Require Export Tree.Extract.

(** the view of the provider: session entries shadow base entries *)
Definition view_cols (session base : list (string * list string)) : list (string * list string) := session ++ base.

Definition with_cols (e : env) (cols : list (string * list string)) : env :=
  {| e_cfg := e_cfg e; e_icfg := e_icfg e; e_vertica := e_vertica e;
     e_provider := {| p_truthy := p_truthy (e_provider e); p_cols := cols |}; e_scalar := e_scalar e |}.

(** runner: `if write := stmt_holder.write: tgt_table = next(iter(write)); if Table and columns: register` *)
Definition registration (g : graph) : option (string * list string) :=
  match st_write g with
  | t :: _ =>
      match dk t with
      | KTable => match get_table_columns g t with
                  | [] => None
                  | cols => Some (dstr t, map craw cols)
                  end
      | _ => None
      end
  | [] => None
  end.

Fixpoint run_statements (e : env) (silent : bool) (base : list (string * list string)) (stmts : list seg)
         (session : list (string * list string)) (acc : list graph) : res (list graph * list (string * list string)) :=
  match stmts with
  | [] => Ok (rev acc, session)
  | s :: r =>
      do g <- analyze (with_cols e (view_cols session base)) silent s;
      let session' := match registration g with Some kv => kv :: session | None => session end in
      run_statements e silent base r session' (g :: acc)
  end.

Definition holder_of (g : graph) : holder :=
  {| hg := g;
     h_renames := flat_map (fun ed => if String.eqb (etype (snd ed)) "rename" then [fst ed] else []) (edges_nx g) |}.

Definition show_script (e : env) (silent : bool) (base : list (string * list string)) (stmts : list seg) : string :=
  match run_statements e silent base stmts [] [] with
  | Err x => "ERR:" ++ x
  | Ok (gs, session) =>
      join "$" (map show_graph gs) ++ "%" ++
      show_all {| p_truthy := p_truthy (e_provider e); p_cols := view_cols session base |} (map holder_of gs)
  end.
