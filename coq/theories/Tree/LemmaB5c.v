(** Lemma B, step 5c: derived tables in FROM.  See the summary at the end of the file. *)
From Coq Require Import Permutation.
From SV Require Import Tree.Render Tree.LemmaA Tree.LemmaAProofs Tree.LemmaB Tree.LemmaBProofs Tree.LemmaB5cPaths
     Ident.Escape Ident.EscapeProofs Holder.PathProofs Holder.SortProofs.
From SV Require TriviaProofs.
Open Scope string_scope.
Open Scope list_scope.

(* ================================================================== *)
(** * Part A2: [end_of_query_cleanup] for a group of tables AND sub-queries, on a holder that already contains the
      holders of the sub-queries.  [DS]: all datasets of the holder; [AL]: those that have alias edges; [ts]: the group. *)
Record group2 (DS AL ts : list dataset) (d : dataset) : Prop := {
  g2_sub : forall v, In v ts -> In v AL;
  g2_al : forall v, In v AL -> In v DS;
  g2_d : In d DS;
  g2_nopath : forall v, In v ts -> data_ok v;
  g2_distinct : forall v w, In v DS -> In w DS -> dataset_eqb v w = true -> v = w;
  g2_target : forall v, In v ts -> dataset_eqb v d = false
}.

Lemma alias_edge_literal2 (PC : column -> Prop) DS AL ts d g e x a :
  group2 DS AL ts d -> lits_in (QK DS PC) g -> edges_inv AL g ->
  In e (gedges g) -> fst e = (NData x, NStr a) -> memd x ts = true -> In x ts /\ a = dalias x.
Proof.
  intros Hgo Hl Hei He Hf Hm. specialize (Hei e He). unfold edge_inv in Hei. rewrite Hf in Hei. cbn [fst snd] in Hei.
  destruct Hei as [_ (src & v & E1 & E2 & E3 & E4)]. inversion E1. subst src.
  destruct (proj2 Hl e He) as [Hq _]. rewrite Hf in Hq. cbn [fst QK] in Hq.
  assert (v = x) by (apply (g2_distinct _ _ _ _ Hgo); [apply (g2_al _ _ _ _ Hgo); exact E3|exact Hq|exact E2]). subst v.
  split; [|exact E4]. apply memd_In_eqb in Hm. destruct Hm as (w & Hw & Ew).
  rewrite (g2_distinct _ _ _ _ Hgo x w Hq (g2_al _ _ _ _ Hgo _ (g2_sub _ _ _ _ Hgo _ Hw)) Ew). exact Hw.
Qed.

Lemma In_filter_tables v (ts : list dataset) : In v (filter (fun d => match dk d with KTable => true | _ => false end) ts) -> In v ts.
Proof. intros H. apply filter_In in H. exact (proj1 H). Qed.

Lemma am_sound2 (PC : column -> Prop) DS AL ts d g q v :
  group2 DS AL ts d -> lits_in (QK DS PC) g -> edges_inv AL g ->
  assoc_list q (get_alias_mapping g ts) = Some v -> In v ts /\ (dalias v = q \/ draw v = q \/ dstr v = q).
Proof.
  intros Hgo Hl Hei H. rewrite get_alias_mapping_eq in H. cbv zeta in H.
  apply fold_tables_sound in H. destruct H as [[H1 H2]|H]; [split; [exact (In_filter_tables _ _ H1)|auto]|].
  apply fold_tables_sound in H. destruct H as [[H1 H2]|H]; [split; [exact (In_filter_tables _ _ H1)|auto]|].
  apply alias_fold_sound in H. destruct H as [(e & He & Ht & Hf & Hm)|H]; [|discriminate].
  apply edges_nx_In in He. destruct (alias_edge_literal2 PC DS AL ts d g e v q Hgo Hl Hei He Hf Hm) as [K1 K2]. auto.
Qed.

Lemma am_values2 (PC : column -> Prop) DS AL ts d g x :
  group2 DS AL ts d -> lits_in (QK DS PC) g -> edges_inv AL g ->
  In x (map snd (get_alias_mapping g ts)) -> In x ts.
Proof.
  intros Hgo Hl Hei H. rewrite get_alias_mapping_eq in H. cbv zeta in H.
  apply fold_tables_values in H. destruct H as [H|H]; [exact (In_filter_tables _ _ H)|].
  apply fold_tables_values in H. destruct H as [H|H]; [exact (In_filter_tables _ _ H)|].
  apply alias_fold_values in H. destruct H as [(e & a & He & Ht & Hf & Hm)|H]; [|destruct H].
  apply edges_nx_In in He. exact (proj1 (alias_edge_literal2 PC DS AL ts d g e x a Hgo Hl Hei He Hf Hm)).
Qed.

Lemma am_complete_alias2 AL ts g v :
  edges_inv AL g -> In v ts ->
  has_edge g (NData v) (NStr (dalias v)) = true -> has_node g (NData v) = true ->
  is_some (assoc_list (dalias v) (get_alias_mapping g ts)) = true.
Proof.
  intros Hei Hv He Hn. rewrite get_alias_mapping_eq. cbv zeta.
  apply fold_tables_mono. apply fold_tables_mono.
  apply has_edge_In in He. destruct He as (e & He & E1 & E2). apply eqb_shape_str in E2.
  pose proof (Hei e He) as Hi. unfold edge_inv in Hi. rewrite E2 in Hi. destruct Hi as [Ht (src & w & F1 & F2 & F3 & F4)].
  apply (alias_fold_complete ts (edges_nx g) [] e src (dalias v)).
  - apply edges_nx_complete; [exact He|]. unfold has_node in *. rewrite <- (has_node_l_cong _ _ _ E1). exact Hn.
  - exact Ht.
  - destruct e as [[u y] a]. cbn [fst snd] in *. subst u y. reflexivity.
  - rewrite F1 in E1. cbn [node_eqb] in E1. unfold memd. apply existsb_exists. exists v. split; [exact Hv|].
    apply dataset_eqb_true_sym. exact E1.
Qed.

Record sel_inv2 (PC : column -> Prop) (DS AL ts : list dataset) (g : graph) : Prop := {
  si2_lits : lits_in (QK DS PC) g;
  si2_edges : edges_inv AL g;
  si2_alias : forall v, In v ts -> has_edge g (NData v) (NStr (dalias v)) = true /\ has_node g (NData v) = true;
  si2_drop : drop_free g
}.

Lemma am_lookup2 (PC : column -> Prop) DS AL ts d g q v :
  group2 DS AL ts d -> sel_inv2 PC DS AL ts g -> In v ts -> dalias v = q ->
  (forall w, In w ts -> (dalias w = q \/ draw w = q \/ dstr w = q) -> w = v) ->
  assoc_list q (get_alias_mapping g ts) = Some v.
Proof.
  intros Hgo Hinv Hv Hq Hu. subst q.
  pose proof (am_complete_alias2 AL ts g v (si2_edges _ _ _ _ _ Hinv) Hv (proj1 (si2_alias _ _ _ _ _ Hinv v Hv)) (proj2 (si2_alias _ _ _ _ _ Hinv v Hv))) as Hs.
  destruct (assoc_list (dalias v) (get_alias_mapping g ts)) as [w|] eqn:E; [|discriminate].
  destruct (am_sound2 PC DS AL ts d g _ w Hgo (si2_lits _ _ _ _ _ Hinv) (si2_edges _ _ _ _ _ Hinv) E) as [Hin Hor].
  rewrite (Hu w Hin Hor). reflexivity.
Qed.

Lemma am_values_single2 (PC : column -> Prop) DS AL d d1 g :
  group2 DS AL [d1] d -> sel_inv2 PC DS AL [d1] g -> dedup_ds (map snd (get_alias_mapping g [d1])) [] = [d1].
Proof.
  intros Hgo Hinv. apply dedup_all_same.
  - pose proof (am_complete_alias2 AL [d1] g d1 (si2_edges _ _ _ _ _ Hinv) (or_introl eq_refl)
                  (proj1 (si2_alias _ _ _ _ _ Hinv d1 (or_introl eq_refl))) (proj2 (si2_alias _ _ _ _ _ Hinv d1 (or_introl eq_refl)))) as Hs.
    destruct (get_alias_mapping g [d1]); [discriminate Hs|discriminate].
  - intros x Hx. destruct (am_values2 PC DS AL [d1] d g x Hgo (si2_lits _ _ _ _ _ Hinv) (si2_edges _ _ _ _ _ Hinv) Hx) as [H|[]]. auto.
Qed.

(** one source column feeding one target column *)
Lemma acl_ok2 (PC : column -> Prop) DS AL ts d g src tgt :
  group2 DS AL ts d -> col_parent tgt = Some d -> PC tgt -> PC src -> (forall p, In p (cparents src) -> In p ts) ->
  lits_in (QK DS PC) g -> edges_inv AL g ->
  exists g', add_column_lineage g src tgt = Ok g' /\ ext g g' (acl_edges src tgt d) /\
             lits_in (QK DS PC) g' /\ edges_inv AL g' /\ (forall k, holder_nodes g' k = holder_nodes g k) /\
             List.length (out_edges g' (NData d)) <= S (List.length (out_edges g (NData d))) /\
             (drop_free g -> drop_free g').
Proof.
  intros Hgo Ht Hqt Hqs Hps Hl He. unfold add_column_lineage. rewrite Ht.
  set (g1 := add_edge g (NCol src) (NCol tgt) lineage_edge).
  set (g2 := add_edge g1 (NData d) (NCol tgt) (e_has_column None)).
  assert (Hd : In d DS) by exact (g2_d _ _ _ _ Hgo).
  assert (L1 : lits_in (QK DS PC) g1) by (apply lits_add_edge; [exact Hl|exact Hqs|exact Hqt]).
  assert (L2 : lits_in (QK DS PC) g2) by (apply lits_add_edge; [exact L1|exact Hd|exact Hqt]).
  assert (E1 : edges_inv AL g1) by (apply edges_inv_add_edge; [exact He|left; reflexivity]).
  assert (E2 : edges_inv AL g2) by (apply edges_inv_add_edge; [exact E1|right; reflexivity]).
  assert (X2 : ext g g2 ([(NCol src, NCol tgt)] ++ [(NData d, NCol tgt)])).
  { apply (ext_trans g g1 g2); apply ext_add_edge. }
  assert (O1 : out_edges g1 (NData d) = out_edges g (NData d)) by (apply out_edges_add_edge_other; reflexivity).
  assert (O2 : List.length (out_edges g2 (NData d)) <= S (List.length (out_edges g (NData d)))).
  { rewrite <- O1. apply out_edges_add_edge_len. }
  assert (T2 : forall k, holder_nodes g2 k = holder_nodes g k) by (intros k; unfold g2, g1; rewrite !tag_add_edge; reflexivity).
  unfold acl_edges. destruct (col_parent src) as [sp|] eqn:Es.
  - eexists. split; [reflexivity|]. pose proof (col_parent_some _ _ Es) as Ep.
    assert (Hsp : In sp ts) by (apply Hps; rewrite Ep; left; reflexivity).
    split; [|split; [|split; [|split; [|split]]]].
    + change ([(NCol src, NCol tgt); (NData d, NCol tgt)] ++ [(NData sp, NCol src)])
        with (([(NCol src, NCol tgt)] ++ [(NData d, NCol tgt)]) ++ [(NData sp, NCol src)]).
      apply (ext_trans g g2 _ _ _ X2). apply ext_add_edge.
    + apply lits_add_edge; [exact L2|exact (g2_al _ _ _ _ Hgo _ (g2_sub _ _ _ _ Hgo _ Hsp))|exact Hqs].
    + apply edges_inv_add_edge; [exact E2|right; reflexivity].
    + intros k. rewrite tag_add_edge. apply T2.
    + rewrite out_edges_add_edge_other; [exact O2|]. cbn [node_eqb]. rewrite dataset_eqb_sym. apply (g2_target _ _ _ _ Hgo). exact Hsp.
    + intros Hdf. repeat apply drop_free_add_edge. exact Hdf.
  - eexists. split; [reflexivity|]. rewrite app_nil_r. repeat (split; [assumption|]).
    intros Hdf. repeat apply drop_free_add_edge. exact Hdf.
Qed.

Lemma acl_fold_ok2 (PC : column -> Prop) DS AL ts d tgt srcs : forall g,
  group2 DS AL ts d -> col_parent tgt = Some d -> PC tgt ->
  (forall s, In s srcs -> PC s /\ forall p, In p (cparents s) -> In p ts) ->
  lits_in (QK DS PC) g -> edges_inv AL g ->
  exists g', fold_left (fun acc s => do g3 <- acc; add_column_lineage g3 s tgt) srcs (Ok g) = Ok g' /\
             ext g g' (flat_map (fun s => acl_edges s tgt d) srcs) /\
             lits_in (QK DS PC) g' /\ edges_inv AL g' /\ (forall k, holder_nodes g' k = holder_nodes g k) /\
             List.length (out_edges g' (NData d)) <= List.length srcs + List.length (out_edges g (NData d)) /\
             (drop_free g -> drop_free g').
Proof.
  induction srcs as [|s r IH]; intros g Hgo Ht Hqt Hs Hl He; cbn [fold_left flat_map].
  - exists g. split; [reflexivity|]. split; [apply ext_refl|]. cbn [List.length]. auto.
  - destruct (Hs s (or_introl eq_refl)) as [Hq Hp].
    destruct (acl_ok2 PC DS AL ts d g s tgt Hgo Ht Hqt Hq Hp Hl He) as (g1 & E1 & X1 & L1 & I1 & T1 & O1 & D1). rewrite E1.
    destruct (IH g1 Hgo Ht Hqt (fun s' Hs' => Hs s' (or_intror Hs')) L1 I1) as (g' & E' & X' & L' & I' & T' & O' & D').
    exists g'. split; [exact E'|]. split; [apply (ext_trans g g1 g'); assumption|]. split; [exact L'|]. split; [exact I'|].
    split; [intros k; rewrite T', T1; reflexivity|]. split; [cbn [List.length]; lia|auto].
Qed.

Lemma sel_inv2_ext (PC : column -> Prop) DS AL ts g g' el :
  sel_inv2 PC DS AL ts g -> ext g g' el -> lits_in (QK DS PC) g' -> edges_inv AL g' -> drop_free g' -> sel_inv2 PC DS AL ts g'.
Proof.
  intros [A1 A2 A3 A4] X L E D. constructor; [exact L|exact E| |exact D]. intros v Hv. destruct (A3 v Hv) as [B1 B2]. split.
  - rewrite (ext_edges _ _ _ X), B1. reflexivity.
  - apply (ext_mono _ _ _ X). exact B2.
Qed.

Lemma eoq_fold2 (PC : column -> Prop) e DS AL d ts cols (S : xcol -> list column) :
  group2 DS AL ts d ->
  (forall g2, sel_inv2 PC DS AL ts g2 -> forall x, In x cols -> to_source_columns e x (get_alias_mapping g2 ts) = Ok (S x)) ->
  (forall x, In x cols -> cparents (xc x) = [] /\ PC (own_col d x) /\ List.length (S x) <= 1 /\
                          forall s, In s (S x) -> PC s /\ forall p, In p (cparents s) -> In p ts) ->
  forall l g2 idx,
    (forall x, In x l -> In x cols) -> sel_inv2 PC DS AL ts g2 -> sq_write g2 = [d] ->
    List.length (out_edges g2 (NData d)) <= idx -> idx + List.length l = List.length cols ->
    exists g', fst (fold_left (fun acc2 x => let '(rg, idx) := acc2 in
                                  (do g2 <- rg; eoq_step e ts (List.length cols) d g2 idx x, Datatypes.S idx)) l (Ok g2, idx)) = Ok g' /\
               ext g2 g' (sel_edges d S (own_pairs d l)) /\ sel_inv2 PC DS AL ts g' /\ (forall k, holder_nodes g' k = holder_nodes g2 k).
Proof.
  intros Hgo HS HX. induction l as [|x r IH]; intros g2 idx Hl Hinv Hw Ho Hn; cbn [fold_left].
  - exists g2. split; [reflexivity|]. split; [apply ext_refl|]. split; [exact Hinv|reflexivity].
  - destruct (HX x (Hl x (or_introl eq_refl))) as (Hx1 & Hx0 & Hx2 & Hx3).
    assert (Estep : exists g3, eoq_step e ts (List.length cols) d g2 idx x = Ok g3 /\
                               ext g2 g3 (flat_map (fun s => acl_edges s (own_col d x) d) (S x)) /\
                               lits_in (QK DS PC) g3 /\ edges_inv AL g3 /\ (forall k, holder_nodes g3 k = holder_nodes g2 k) /\
                               List.length (out_edges g3 (NData d)) <= Datatypes.S idx /\ drop_free g3).
    { unfold eoq_step. rewrite (HS g2 Hinv x (Hl x (or_introl eq_refl))).
      assert (Et : (match S x with
                    | [] => add_parent (xc x) d
                    | _ :: _ => if Nat.eqb (List.length (write_columns g2)) (List.length cols)
                                then match nth_error (write_columns g2) idx with Some c => c | None => add_parent (xc x) d end
                                else add_parent (xc x) d
                    end) = own_col d x).
      { destruct (S x); [reflexivity|]. pose proof (write_columns_len g2 d Hw) as Hwl. cbn [List.length] in Hn.
        replace (Nat.eqb (List.length (write_columns g2)) (List.length cols)) with false; [reflexivity|].
        symmetry. apply Nat.eqb_neq. lia. }
      cbv zeta. rewrite Et.
      assert (Hown : col_parent (own_col d x) = Some d).
      { rewrite (own_col_eq d x Hx1). reflexivity. }
      destruct (acl_fold_ok2 PC DS AL ts d (own_col d x) (S x) g2 Hgo Hown Hx0 Hx3 (si2_lits _ _ _ _ _ Hinv) (si2_edges _ _ _ _ _ Hinv))
        as (g3 & E3 & X3 & L3 & I3 & T3 & O3 & D3).
      exists g3. split; [exact E3|]. split; [exact X3|]. split; [exact L3|]. split; [exact I3|]. split; [exact T3|].
      split; [lia|exact (D3 (si2_drop _ _ _ _ _ Hinv))]. }
    destruct Estep as (g3 & E3 & X3 & L3 & I3 & T3 & O3 & D3). rewrite E3.
    assert (Hinv3 : sel_inv2 PC DS AL ts g3) by (apply (sel_inv2_ext PC DS AL ts g2 g3 _ Hinv X3 L3 I3 D3)).
    assert (Hw3 : sq_write g3 = [d]) by (unfold sq_write; rewrite T3; exact Hw).
    cbn [List.length] in Hn.
    destruct (IH g3 (Datatypes.S idx) (fun y Hy => Hl y (or_intror Hy)) Hinv3 Hw3 O3 ltac:(lia)) as (g' & E' & X' & Hinv' & T').
    exists g'. split; [exact E'|]. split.
    + unfold sel_edges, own_pairs. cbn [map flat_map fst snd]. apply (ext_trans g2 g3 g'); assumption.
    + split; [exact Hinv'|]. intros k. rewrite T', T3. reflexivity.
Qed.

(** reading the tables and sub-queries of the FROM clause *)
Lemma add_reads_ok2 (PC : column -> Prop) DS AL d ts : forall l g,
  group2 DS AL ts d -> (forall v, In v l -> In v ts) ->
  lits_in (QK DS PC) g -> edges_inv AL g ->
  lits_in (QK DS PC) (fold_left add_read l g) /\ edges_inv AL (fold_left add_read l g) /\
  ext g (fold_left add_read l g) (map (fun v => (NData v, NStr (dalias v))) l) /\
  (forall k, k <> "read" -> holder_nodes (fold_left add_read l g) k = holder_nodes g k) /\
  out_edges (fold_left add_read l g) (NData d) = out_edges g (NData d) /\
  (drop_free g -> drop_free (fold_left add_read l g)).
Proof.
  induction l as [|v r IH]; intros g Hgo Hl Hlit Hei; cbn [fold_left map].
  - split; [exact Hlit|]. split; [exact Hei|]. split; [apply ext_refl|]. split; [reflexivity|]. split; [reflexivity|auto].
  - assert (Hv : In v ts) by (apply Hl; left; reflexivity).
    pose proof (g2_nopath _ _ _ _ Hgo v Hv) as Hdo.
    assert (HvD : In v DS) by (apply (g2_al _ _ _ _ Hgo); apply (g2_sub _ _ _ _ Hgo); exact Hv).
    assert (L1 : lits_in (QK DS PC) (add_read g v)).
    { rewrite (add_read_eq g v Hdo). apply lits_add_edge; [apply lits_add_node; [exact Hlit|exact HvD]|exact HvD|exact I]. }
    assert (E1 : edges_inv AL (add_read g v)).
    { rewrite (add_read_eq g v Hdo). apply edges_inv_add_edge; [apply edges_inv_add_node; exact Hei|].
      split; [reflexivity|]. exists v. split; [reflexivity|]. split; [apply (g2_sub _ _ _ _ Hgo); exact Hv|reflexivity]. }
    assert (X1 : ext g (add_read g v) [(NData v, NStr (dalias v))]).
    { rewrite (add_read_eq g v Hdo).
      apply (ext_trans g (add_node g (NData v) [("read", true)]) _ [] _ (ext_add_node g _ _) (ext_add_edge _ _ _ _)). }
    assert (O1 : out_edges (add_read g v) (NData d) = out_edges g (NData d)).
    { rewrite (add_read_eq g v Hdo). rewrite out_edges_add_edge_other; [reflexivity|].
      cbn [node_eqb]. rewrite dataset_eqb_sym. apply (g2_target _ _ _ _ Hgo v Hv). }
    assert (D1 : drop_free g -> drop_free (add_read g v)).
    { intros Hdf. rewrite (add_read_eq g v Hdo). apply drop_free_add_edge. apply drop_free_add_node; [exact Hdf|].
      intros [K|[]]. discriminate K. }
    destruct (IH (add_read g v) Hgo (fun w Hw => Hl w (or_intror Hw)) L1 E1) as (A1 & A2 & A3 & A4 & A5 & A6).
    split; [exact A1|]. split; [exact A2|]. split.
    + apply (ext_trans g (add_read g v) _ [(NData v, NStr (dalias v))] _ X1 A3).
    + split; [|split; [rewrite A5; exact O1|auto]]. intros k Hk'. rewrite (A4 k Hk'). apply tag_add_read_other; [exact Hdo|exact Hk'].
Qed.

(** no star among the write columns: [expand_wildcard] has nothing to do *)
Lemma expand_wildcard_nostar e g :
  (forall c, In c (write_columns g) -> String.eqb (craw c) "*" = false) -> expand_wildcard e g = Ok g.
Proof.
  intros H. unfold expand_wildcard. destruct (get_target_table g) as [tgt|]; [|reflexivity].
  apply fold_res_id. intros c Hc. rewrite (H c Hc). reflexivity.
Qed.

Lemma write_columns_lits (Q : Graph.node -> Prop) g c : lits_in Q g -> In c (write_columns g) -> Q (NCol c).
Proof.
  intros Hl Hc. unfold write_columns in Hc. destruct (get_target_table g) as [t|]; [|destruct Hc].
  apply in_map_iff in Hc. destruct Hc as ([c' i] & Ec & Hc). cbn [fst] in Ec. subst c'. apply (proj1 (In_sort_by_idx _ _)) in Hc.
  apply in_flat_map in Hc. destruct Hc as (e0 & He0 & Hc). unfold out_edges in He0. apply filter_In in He0. destruct He0 as [He0 _].
  destruct (String.eqb (etype (snd e0)) "has_column"); [|destruct Hc]. destruct (snd (fst e0)) as [|c0|] eqn:E; [destruct Hc| |destruct Hc].
  destruct Hc as [Hc|[]]. inversion Hc. subst c0. destruct (proj2 Hl e0 He0) as [_ K]. rewrite E in K. exact K.
Qed.

(** the holder of one SELECT whose sub-queries have been extracted into [gb] already *)
Lemma select_core2 (PC : column -> Prop) e DS AL d ts cols (S : xcol -> list column) gb :
  group2 DS AL ts d -> (forall c, PC c -> String.eqb (craw c) "*" = false) ->
  lits_in (QK DS PC) gb -> edges_inv AL gb -> drop_free gb -> sq_write gb = [d] -> out_edges gb (NData d) = [] ->
  (forall g2, sel_inv2 PC DS AL ts g2 -> forall x, In x cols -> to_source_columns e x (get_alias_mapping g2 ts) = Ok (S x)) ->
  (forall x, In x cols -> cparents (xc x) = [] /\ PC (own_col d x) /\ List.length (S x) <= 1 /\
                          forall s, In s (S x) -> PC s /\ forall p, In p (cparents s) -> In p ts) ->
  exists sub, (do g2 <- end_of_query_cleanup e gb ts cols []; expand_wildcard e g2) = Ok sub /\
              ext gb sub (map (fun v => (NData v, NStr (dalias v))) ts ++ sel_edges d S (own_pairs d cols)) /\
              sel_inv2 PC DS AL ts sub /\ (forall k, k <> "read" -> holder_nodes sub k = holder_nodes gb k).
Proof.
  intros Hgo HPC Lb Eb Db Hwb Hob HS HX.
  destruct (add_reads_ok2 PC DS AL d ts ts gb Hgo (fun v Hv => Hv) Lb Eb) as (A1 & A2 & A3 & A4 & A5 & A6).
  rewrite eoq_single. cbv zeta. set (g0 := fold_left add_read ts gb) in *.
  assert (Hw : sq_write g0 = [d]) by (unfold sq_write; rewrite A4 by discriminate; exact Hwb).
  rewrite Hw.
  assert (Hinv0 : sel_inv2 PC DS AL ts g0).
  { constructor; [exact A1|exact A2| |exact (A6 Db)]. intros v Hv.
    assert (Hin : In (NData v, NStr (dalias v)) (map (fun v => (NData v, NStr (dalias v))) ts)) by (apply in_map_iff; exists v; auto).
    split.
    - rewrite (ext_edges _ _ _ A3). apply orb_true_iff. right. unfold ematch. apply existsb_exists. eexists. split; [exact Hin|].
      cbn [fst snd]. rewrite !node_eqb_refl. reflexivity.
    - exact (proj1 (ext_new _ _ _ A3 _ Hin)). }
  destruct (eoq_fold2 PC e DS AL d ts cols S Hgo HS HX cols g0 0 (fun x Hx => Hx) Hinv0 Hw) as (g' & E' & X' & Hinv' & T').
  - rewrite A5, Hob. cbn. lia.
  - reflexivity.
  - rewrite E'. rewrite (expand_wildcard_nostar e g').
    + exists g'. split; [reflexivity|]. split; [apply (ext_trans gb g0 g'); assumption|]. split; [exact Hinv'|].
      intros k Hk. rewrite T'. apply A4. exact Hk.
    + intros c Hc. apply HPC. exact (write_columns_lits _ g' c (si2_lits _ _ _ _ _ Hinv') Hc).
Qed.

(* ================================================================== *)
(** * Part N5c: what the extractor reads off a rendered SELECT whose FROM has base tables and derived tables over base tables *)

(** an inner query: one SELECT without WHERE over base tables *)
Definition iq_ok (q : query) : bool :=
  match q with
  | QSelect items from _ None => forallb item_ok items && negb (match from with [] => true | _ => false end) && forallb rel_ok from
  | _ => false
  end.
Definition rel2_ok (r : rel) : bool :=
  match r with
  | RTable _ _ => rel_ok r
  | RDerived q a => id_ok a && iq_ok q
  | RGroup _ _ => false
  end.
(** the join clauses of the inner queries are not seen from the outer FROM (the recursive crawl for join clauses runs only
    when the outer FROM has a JOIN of its own) *)
Definition noleak_rel (r : rel) : bool :=
  match r with
  | RDerived (QSelect _ from' cj' _) _ => cj' || match from' with [_] => true | _ => false end
  | _ => true
  end.
Definition noleak (from : list rel) (cj : bool) : bool :=
  cj || match from with [_] => true | _ => false end || forallb noleak_rel from.

Lemma iq_ok_body k q : iq_ok q = true -> body_ok (S k) q = true.
Proof.
  destruct q as [items from cj [wh|]| |]; cbn [iq_ok]; try discriminate. intros H. apply andb_true_iff in H. destruct H as [H H3].
  apply andb_true_iff in H. destruct H as [H1 H2]. cbn [body_ok]. rewrite H1, H2. cbn [andb]. rewrite andb_true_r.
  apply forallb_forall. intros r Hr. rewrite forallb_forall in H3. specialize (H3 r Hr). destruct r; try discriminate. exact H3.
Qed.

Lemma rel2_ok_relk k r : rel2_ok r = true -> relk_ok (S k) r = true.
Proof.
  destruct r as [t al|q a|x y]; cbn [rel2_ok relk_ok]; [auto| |discriminate]. intros H. apply andb_true_iff in H. destruct H as [H1 H2].
  rewrite H1, (iq_ok_body k q H2). reflexivity.
Qed.

Lemma jr_noleak k r : rel2_ok r = true -> noleak_rel r = true -> jr (S k) r = [].
Proof.
  destruct r as [t al|q a|x y]; [reflexivity| |discriminate]. cbn [rel2_ok noleak_rel jr]. intros H. apply andb_true_iff in H. destruct H as [_ H].
  destruct q as [items from cj [wh|]| |]; cbn [iq_ok] in H; try discriminate. apply andb_true_iff in H. destruct H as [_ H3].
  intros Hn. cbn [jrels]. rewrite app_nil_r.
  assert (Ht : forall r, In r from -> match r with RDerived q' _ => jrels k q' | _ => [] end = []).
  { intros r Hr. rewrite forallb_forall in H3. specialize (H3 r Hr). destruct r; try discriminate. reflexivity. }
  destruct cj.
  - apply flat_map_none. exact Ht.
  - cbn [orb] in Hn. destruct from as [|r0 [|r1 rest]]; [reflexivity| |discriminate].
    cbn [flat_map]. rewrite (Ht r0 (or_introl eq_refl)). reflexivity.
Qed.

Lemma FL_noleak k from cj :
  forallb rel2_ok from = true -> noleak from cj = true -> FL (S k) from cj = map (fun r => (S k, r)) from.
Proof.
  intros Hok Hn. unfold FL. destruct cj; [reflexivity|]. destruct from as [|r0 rest]; [reflexivity|]. cbn [map]. f_equal.
  unfold jl. destruct rest as [|r1 rest']; [reflexivity|]. unfold noleak in Hn. cbn [orb] in Hn.
  assert (Hj : forall r, In r (r0 :: r1 :: rest') -> jr (S k) r = []).
  { intros r Hr. rewrite forallb_forall in Hok, Hn. apply jr_noleak; auto. }
  rewrite (Hj r0 (or_introl eq_refl)). cbn [app].
  assert (Hj' : forall r, In r (r1 :: rest') -> jr (S k) r = []) by (intros r Hr; apply Hj; right; exact Hr). clear Hj Hok Hn.
  induction (r1 :: rest') as [|r rs IH]; [reflexivity|]. cbn [flat_map map]. rewrite (Hj' r (or_introl eq_refl)). cbn [app]. f_equal.
  apply IH. intros r' Hr'. apply Hj'. right. exact Hr'.
Qed.

Section Nav5c.
Variable noise : list seg.
Hypothesis Hnoise : noise_ok noise = true.
Variable e : env.
Hypothesis Henv : env_ok e = true.

Definition sqd (k : nat) (q : query) (a : string) : dataset := mk_subquery (r_brq noise k q) (Some a).
Definition ds_of (k : nat) (r : rel) : dataset := match r with RDerived q a => sqd k q a | _ => tbl_of e r end.

Lemma add_dataset_exact2 k r g :
  rel2_ok r = true -> sq_cte g = [] -> add_dataset_from_fee e (r_rel noise (S k) r) g = Ok [ds_of (S k) r].
Proof.
  destruct r as [t al|q a|x y]; cbn [rel2_ok]; [| |discriminate]; intros H Hc.
  - cbn [rel_ok] in H. apply andb_true_iff in H. destruct H as [H1 H2].
    apply (add_dataset_exact noise Hnoise e Henv); auto. destruct al; cbn; auto.
  - apply andb_true_iff in H. destruct H as [_ H]. rewrite (add_dataset_derived noise Hnoise e k q a g); [reflexivity|].
    apply (body_ok_is_body (S k)). apply iq_ok_body. exact H.
Qed.

Lemma list_tables_exact2 k from cj g :
  from <> [] -> forallb rel2_ok from = true -> noleak from cj = true -> sq_cte g = [] ->
  list_tables e (r_fc noise (S k) from cj) g = Ok (map (ds_of (S k)) from).
Proof.
  intros Hne Hok Hn Hc.
  assert (Hper : forall r, In r from -> add_dataset_from_fee e (r_rel noise (S k) r) g = Ok [ds_of (S k) r]).
  { intros r Hr. rewrite forallb_forall in Hok. apply add_dataset_exact2; auto. }
  pose proof (FL_noleak k from false Hok) as HFL.
  assert (Hjoin : forall r0 rest, from = r0 :: rest -> noleak from false = true ->
                    list_tables e (r_fc noise (S k) (r0 :: rest) false) g = Ok (map (ds_of (S k)) from)).
  { intros r0 rest -> Hn'. specialize (HFL Hn'). unfold FL in HFL. inversion HFL as [Hjl].
    assert (Hr0 : relk_ok (S k) r0 = true) by (apply rel2_ok_relk; rewrite forallb_forall in Hok; apply Hok; left; reflexivity).
    rewrite (list_tables_fc_join noise Hnoise e (S k) r0 rest g _ (ljc_general noise Hnoise (S k) r0 rest Hr0)), Hjl.
    rewrite (Hper r0 (or_introl eq_refl)).
    rewrite (concat_res_singletons (fun p => add_dataset_from_fee e (jfee noise p) g) (fun p => ds_of (S k) (snd p))).
    - cbn [app map]. rewrite map_map. reflexivity.
    - intros [k' r] Hin. apply in_map_iff in Hin. destruct Hin as (r' & Heq & Hr'). inversion Heq. subst k' r'.
      unfold jfee. cbn [fst snd]. apply Hper. right. exact Hr'. }
  destruct cj.
  - destruct from as [|r1 [|r2 rest]]; [contradiction| |].
    + rewrite r_fc_single_comma. apply (Hjoin r1 []); reflexivity.
    + rewrite (list_tables_fc_comma noise Hnoise). apply concat_res_singletons. exact Hper.
  - destruct from as [|r0 rest]; [contradiction|]. apply (Hjoin r0 rest); [reflexivity|exact Hn].
Qed.

(** the sub-queries of the FROM clause, in order *)
Definition sq_list (k : nat) (from : list rel) : list dataset :=
  flat_map (fun r => match r with RDerived q a => [sqd k q a] | _ => [] end) from.

Lemma sel_sq_noleak k from cj :
  forallb rel2_ok from = true -> noleak from cj = true -> sel_sq noise (S k) from cj None = sq_list (S k) from.
Proof.
  intros Hok Hn. unfold sel_sq. rewrite (FL_noleak k from cj Hok Hn). cbn [wh_sq]. rewrite app_nil_r.
  unfold sq_list. clear. induction from as [|r rs IH]; [reflexivity|]. cbn [map flat_map]. rewrite IH. f_equal.
  destruct r; reflexivity.
Qed.

Lemma body_ok_outer k items from cj :
  forallb item_ok items = true -> from <> [] -> forallb rel2_ok from = true ->
  body_ok (S (S k)) (QSelect items from cj None) = true.
Proof.
  intros Hit Hne Hok. cbn [body_ok]. rewrite Hit. destruct from as [|r0 rest]; [contradiction|]. cbn [negb andb]. rewrite andb_true_r.
  apply forallb_forall. intros r Hr. rewrite forallb_forall in Hok. apply (rel2_ok_relk k r). apply Hok. exact Hr.
Qed.

(** the extraction of the outer SELECT: sub-queries first, then the cleanup on exactly these datasets and columns *)
Lemma select_derived_extract f stmt items from cj k ctx :
  sel_segments stmt = clauses noise items (S k) from cj None ->
  forallb item_ok items = true -> from <> [] -> forallb rel2_ok from = true -> noleak from cj = true ->
  extract (S (S f)) e XSelect stmt ctx =
  (do g1 <- ex_subquery (S f) e (sq_list (S k) from) (init_holder ctx);
   if match sq_cte g1 with [] => true | _ => false end
   then (do g2 <- end_of_query_cleanup e g1 (map (ds_of (S k)) from) (map xcol_of items) []; expand_wildcard e g2)
   else extract (S (S f)) e XSelect stmt ctx).
Proof.
  intros Hseg Hit Hne Hok Hn. 
  destruct (match ex_subquery (S f) e (sq_list (S k) from) (init_holder ctx) with Ok g1 => match sq_cte g1 with [] => true | _ => false end | Err _ => true end) eqn:Eg.
  2:{ destruct (ex_subquery (S f) e (sq_list (S k) from) (init_holder ctx)) as [g1|]; [|discriminate]. rewrite Eg. reflexivity. }
  rewrite extract_select_eq, Hseg. unfold sel_subqueries.
  rewrite (proj1 (clauses_subq noise Hnoise e (S k) items from cj None (body_ok_outer k items from cj Hit Hne Hok))).
  rewrite (sel_sq_noleak k from cj Hok Hn).
  destruct (ex_subquery (S f) e (sq_list (S k) from) (init_holder ctx)) as [g1|err]; [|reflexivity].
  destruct (sq_cte g1) eqn:Ec; [|discriminate].
  unfold sel_fold. rewrite (sel_fold_clauses e (S f) _ _ (clauses_not_set noise Hnoise items (S k) from cj None)).
  unfold clauses. cbn [r_wh app fold_left].
  rewrite (handle_child_sc_exact noise Hnoise e Henv f _ items Hit). rewrite (handle_child_fc noise e Henv).
  cbn [s_g s_tables s_columns s_barriers app].
  rewrite (list_tables_exact2 k from cj g1 Hne Hok Hn Ec). reflexivity.
Qed.

(** one sub-query: a SELECT over base tables, written to the sub-query node *)
Lemma sub_extract f k g items from cj a :
  iq_ok (QSelect items from cj None) = true -> sq_cte g = [] ->
  let sq := sqd (S k) (QSelect items from cj None) a in
  ex_subquery (S (S f)) e [sq] g =
  (do sh <- (do g2 <- end_of_query_cleanup e (add_write empty_graph sq) (map (tbl_of e) from) (map xcol_of items) []; expand_wildcard e g2);
   Ok (compose g (set_attr sh [NData sq] "write" false))).
Proof.
  intros Hq Hc sq. rewrite ex_subquery_cons. cbn [ex_subquery fold_left].
  change (dquery sq) with (Some (r_brq noise (S k) (QSelect items from cj None))). cbv iota beta.
  rewrite (gc_brq_with noise Hnoise (S k) _ (iq_ok_body k _ Hq)). cbv zeta. rewrite Hc.
  cbn [iq_ok] in Hq. apply andb_true_iff in Hq. destruct Hq as [Hq H3]. apply andb_true_iff in Hq. destruct Hq as [H1 H2].
  rewrite (select_tables_extract noise Hnoise e Henv f _ items from cj k).
  - cbn [init_holder c_cte c_write c_write_columns fold_left].
    destruct (end_of_query_cleanup e _ _ _ []) as [g2|err]; [|reflexivity]. destruct (expand_wildcard e g2); reflexivity.
  - rewrite (sel_segments_brq_select noise Hnoise). reflexivity.
  - exact H1.
  - destruct from; [discriminate|discriminate].
  - exact H3.
  - reflexivity.
Qed.
End Nav5c.

(* ================================================================== *)
(** * Part G5c: composing the holder of a sub-query into the holder of the enclosing query *)
Lemma edges_inv_mono A B g : (forall v, In v A -> In v B) -> edges_inv A g -> edges_inv B g.
Proof.
  intros H Hg e He. specialize (Hg e He). unfold edge_inv in *. destruct (snd (fst e)); try exact Hg.
  destruct Hg as [H1 (src & v & E1 & E2 & E3 & E4)]. split; [exact H1|]. exists src, v. auto.
Qed.

Lemma edge_inv_upsert AL ns l u v a :
  (forall e, In e l -> edge_inv AL e) -> edge_inv AL (u, v, a) ->
  forall e, In e (upsert_edge (canon_l u ns) (canon_l v ns) a l) -> edge_inv AL e.
Proof.
  intros Hl Hn e He. apply In_upsert_edge' in He. destruct He as [->|[He|(e0 & He0 & E0 & ->)]]; [|apply Hl; exact He|].
  - unfold edge_inv in *. cbn [fst snd] in *. destruct v as [dv|cv|s].
    + destruct (canon_data dv ns) as (src & -> & _). exact Hn.
    + destruct (canon_col cv ns) as (c' & -> & _). exact Hn.
    + rewrite canon_str. destruct Hn as [Hn (src & w & -> & Ew & Hw & ->)]. split; [exact Hn|].
      destruct (canon_data src ns) as (src' & -> & Es). exists src', w. split; [reflexivity|]. split; [|auto].
      apply (dataset_eqb_trans w src src' Ew Es).
  - specialize (Hl e0 He0). unfold edge_is in E0. apply andb_true_iff in E0. destruct E0 as [E1 E2].
    pose proof (canon_eqb v ns) as Ev. pose proof (node_eqb_trans _ _ _ Ev E2) as E3.
    unfold edge_inv in *. cbn [fst snd] in *. unfold eattr_update. cbn [etype].
    destruct v as [dv|cv|s].
    + destruct (snd (fst e0)); cbn [node_eqb] in E3; try discriminate. exact Hn.
    + destruct (snd (fst e0)); cbn [node_eqb] in E3; try discriminate. exact Hn.
    + apply eqb_shape_str in E3. rewrite E3 in *. destruct Hl as [_ Hl]. split; [exact (proj1 Hn)|exact Hl].
Qed.

Lemma edges_inv_compose AL g h : edges_inv AL g -> edges_inv AL h -> edges_inv AL (compose g h).
Proof.
  intros Hg Hh. unfold edges_inv in *. unfold compose. cbn [gedges]. set (ns := fold_left _ (gnodes h) (gnodes g)). clearbody ns.
  revert Hh. generalize (gedges g) Hg. induction (gedges h) as [|e0 r IH]; intros l Hl Hr; cbn [fold_left]; [exact Hl|].
  apply IH.
  - apply edge_inv_upsert; [exact Hl|]. specialize (Hr e0 (or_introl eq_refl)). destruct e0 as [[u v] a]. exact Hr.
  - intros e He. apply Hr. right. exact He.
Qed.

Lemma drop_free_set_attr g ns k v : drop_free g -> k <> "drop" -> drop_free (set_attr g ns k v).
Proof.
  intros Hg Hk n a Hin. unfold set_attr in Hin. cbn [gnodes] in Hin. apply in_map_iff in Hin. destruct Hin as ([m b] & Heq & Hin).
  cbn [fst snd] in Heq. destruct (existsb (node_eqb m) ns); inversion Heq; subst; [|exact (Hg _ _ Hin)].
  intros K. apply In_attr_set in K. destruct K as [K|K]; [inversion K; congruence|exact (Hg _ _ Hin K)].
Qed.

Lemma has_edge_add_write d x y : has_edge (add_write empty_graph d) x y = false.
Proof. reflexivity. Qed.

Lemma list_no_members {A} (l : list A) : (forall x, ~ In x l) -> l = [].
Proof. destruct l as [|a r]; [reflexivity|]. intros H. exfalso. apply (H a). left. reflexivity. Qed.

Lemma out_edges_none g n : (forall y, has_edge g n y = false) -> out_edges g n = [].
Proof.
  intros H. apply list_no_members. intros e He. unfold out_edges in He. apply filter_In in He. destruct He as [He E].
  assert (K : has_edge g n (snd (fst e)) = true) by (apply has_edge_In; exists e; split; [exact He|split; [exact E|apply node_eqb_refl]]).
  rewrite H in K. discriminate.
Qed.

(** the holder [g0] of the statement so far (just the target), with the holder [sh] of the sub-query [sq] composed in *)
Lemma compose_sub_tags d sq sh :
  data_ok d -> dk d = KTable -> dk sq = KSubq -> gok sh ->
  (forall k, k <> "read" -> holder_nodes sh k = holder_nodes (add_write empty_graph sq) k) ->
  let g1 := compose (add_write empty_graph d) (set_attr sh [NData sq] "write" false) in
  gok g1 /\ sq_write g1 = [d] /\ sq_cte g1 = [].
Proof.
  intros Hd Hkd Hks Hsh Ht g1. set (g0 := add_write empty_graph d). set (h := set_attr sh [NData sq] "write" false).
  assert (G0 : gok g0) by (apply gok_add_tag; [exact gok_empty|exact Hd]).
  assert (Gh : gok h) by (apply gok_set_attr_write; assumption).
  assert (G1 : gok g1) by (apply gok_compose; assumption).
  assert (Hhw : forall x, ~ In x (holder_nodes h "write")).
  { intros x Hx. apply tag_set_attr_write in Hx. destruct Hx as [Hx Hne]. rewrite (Ht "write") in Hx by discriminate.
    cbn in Hx. destruct Hx as [<-|[]]. rewrite dataset_eqb_refl in Hne. discriminate. }
  assert (Hw : forall x, In x (sq_write g1) -> x = d).
  { intros x Hx. destruct (tag_compose_sound g0 h "write" x Gh Hx) as [H|(d' & Hd' & _)]; [|exfalso; exact (Hhw d' Hd')].
    cbn in H. destruct H as [<-|[]]. reflexivity. }
  split; [exact G1|]. split.
  - assert (Hin : In d (sq_write g1)).
    { apply tag_compose_mono; [exact Gh|right; rewrite Hkd; discriminate|]. left. reflexivity. }
    assert (Hlen : List.length (sq_write g1) <= 1).
    { apply one_write_length; [exact G1|]. intros d1 d2 H1 H2. rewrite (Hw d1 H1), (Hw d2 H2). apply dataset_eqb_refl. }
    destruct (sq_write g1) as [|x [|y r]]; [destruct Hin| |cbn in Hlen; lia]. rewrite (Hw x (or_introl eq_refl)). reflexivity.
  - apply list_no_members. intros x Hx. destruct (tag_compose_sound g0 h "cte" x Gh Hx) as [H|(d' & Hd' & _)]; [destruct H|].
    unfold h in Hd'. rewrite (tag_set_attr_other sh _ "write" false "cte") in Hd' by discriminate.
    rewrite (Ht "cte") in Hd' by discriminate. destruct Hd'.
Qed.

(* ================================================================== *)
(** * Part C5c: INSERT / CREATE wrappers over an arbitrary SELECT *)
Section NavC5c.
Variable noise : list seg.
Hypothesis Hnoise : noise_ok noise = true.
Variable e : env.
Hypothesis Henv : env_ok e = true.

Lemma analyze_wrapper (s : stmt) t items from cj :
  (s = SInsert t None (QSelect items from cj None) \/ s = SCtas t (QSelect items from cj None) \/ s = SView t (QSelect items from cj None)) ->
  tref_ok t = true ->
  exists F stmt,
    analyze e false (r_stmt noise s) =
    (do r <- ci_step (S (S (S F))) e stmt (Ok (add_write empty_graph (tbl e t None), false, false))
                     (r_query noise (S (q_size (QSelect items from cj None))) (QSelect items from cj None));
     Ok (fst (fst r))).
Proof.
  intros Hs Ht. set (q := QSelect items from cj None). set (k := q_size q). set (Q := r_query noise (S k) q).
  destruct Hs as [->|Hs].
  - set (stmt := node "insert_statement" ["insert_statement"] (sep noise ([kw "insert"; kw "into"; r_tref t] ++ cols_part noise None ++ [Q]))).
    assert (Es : r_stmt noise (SInsert t None q) = stmt) by reflexivity. fold q. rewrite Es.
    assert (Ea : analyze e false stmt = extract (S (S (S (S (3 * depth stmt + 6))))) e XCreateInsert stmt empty_ctx).
    { replace (S (S (S (S (3 * depth stmt + 6))))) with (3 * depth stmt + 10) by lia. reflexivity. }
    exists (3 * depth stmt + 6), stmt. set (F := 3 * depth stmt + 6) in *.
    rewrite Ea, extract_ci_eq. unfold stmt at 2. rewrite (lcs_node noise Hnoise) by reflexivity.
    rewrite !filter_app. cbn [cols_part filter app]. change (nn (kw "insert")) with true. change (nn (kw "into")) with true.
    change (nn (r_tref t)) with true. unfold Q at 1. rewrite (nn_rq noise). cbn iota. fold Q.
    change (init_holder empty_ctx) with empty_graph. cbn [app fold_left].
    rewrite (ci_kw_target e (S (S (S F))) stmt empty_graph false false "insert" eq_refl), (ci_kw_target e (S (S (S F))) stmt empty_graph true false "into" eq_refl).
    rewrite (ci_tref e Henv), (table_of_seg_exact e Henv t None Ht I). reflexivity.
  - assert (Es' : exists view : bool, s = if view then SView t q else SCtas t q).
    { destruct Hs as [->| ->]; [exists false|exists true]; reflexivity. }
    destruct Es' as (view & ->). clear Hs.
    set (ty0 := if view then "create_view_statement" else "create_table_statement").
    set (w0 := if view then "view" else "table").
    set (stmt := node ty0 [ty0] (sep noise [kw "create"; kw w0; r_tref t; kw "as"; Q])).
    assert (Es : r_stmt noise (if view then SView t q else SCtas t q) = stmt) by (destruct view; reflexivity). rewrite Es.
    assert (Ea : analyze e false stmt = extract (S (S (S (S (3 * depth stmt + 6))))) e XCreateInsert stmt empty_ctx).
    { replace (S (S (S (S (3 * depth stmt + 6))))) with (3 * depth stmt + 10) by lia. destruct view; reflexivity. }
    exists (3 * depth stmt + 6), stmt. set (F := 3 * depth stmt + 6) in *.
    rewrite Ea, extract_ci_eq. unfold stmt at 2. rewrite (lcs_node noise Hnoise) by (destruct view; reflexivity).
    cbn [filter]. change (nn (kw "create")) with true. change (nn (kw w0)) with true. change (nn (kw "as")) with true.
    change (nn (r_tref t)) with true. unfold Q at 1. rewrite (nn_rq noise). cbn iota. fold Q.
    change (init_holder empty_ctx) with empty_graph. cbn [fold_left].
    rewrite (ci_kw_other e (S (S (S F))) stmt empty_graph false "create" eq_refl eq_refl).
    rewrite (ci_kw_target e (S (S (S F))) stmt empty_graph false false w0) by (destruct view; reflexivity).
    rewrite (ci_tref e Henv), (table_of_seg_exact e Henv t None Ht I).
    rewrite (ci_kw_other e (S (S (S F))) stmt _ false "as" eq_refl eq_refl). reflexivity.
Qed.

Lemma delegate_any F stmt d k items from cj :
  (do r <- ci_step (S (S (S F))) e stmt (Ok (add_write empty_graph d, false, false))
                   (r_query noise (S k) (QSelect items from cj None));
   Ok (fst (fst r))) =
  (do sub <- extract (S (S (S F))) e XSelect (r_query noise (S k) (QSelect items from cj None)) (dctx (add_write empty_graph d));
   Ok (compose (add_write empty_graph d) sub)).
Proof.
  rewrite ci_select. unfold ex_delegate. fold (dctx (add_write empty_graph d)).
  destruct (extract _ e XSelect _ (dctx (add_write empty_graph d))); reflexivity.
Qed.
End NavC5c.

(* ================================================================== *)
(** * Part D5c: the holder of INSERT / CREATE over a SELECT from ONE derived table over base tables *)
Lemma HS_of_single2 (PC : column -> Prop) e DS AL d v g x :
  group2 DS AL [v] d -> sel_inv2 PC DS AL [v] g -> xref_ok [v] x ->
  to_source_columns e x (get_alias_mapping g [v]) = Ok (S_of [v] x).
Proof.
  intros Hgo Hinv (_ & c & qq & Hx & Hc & Hq). unfold S_of. rewrite Hx. destruct qq as [q|].
  - destruct Hq as (w & Hw & Eq & Hu). rewrite (find_dalias [v] q w Hw Eq (fun w' Hw' E => Hu w' Hw' (or_introl E))).
    apply (tsc_qualified e x _ c q w); [exact Hx|exact Hc|]. apply (am_lookup2 PC DS AL [v] d g q w); assumption.
  - apply tsc_unq_single; [exact Hx|exact Hc|]. apply (am_values_single2 PC DS AL d v g); assumption.
Qed.

Definition PCg (ts' : list dataset) (NM : list string) (sq d : dataset) (c : column) : Prop :=
  String.eqb (craw c) "*" = false /\ (PC4 ts' NM c \/ cparents c = [sq] \/ cparents c = [d]).

(** no star, neither as a select item nor as a source *)
Definition nostar_x (x : xcol) : Prop :=
  String.eqb (craw (xc x)) "*" = false /\ forall c qq, In (c, qq) (xsrc x) -> String.eqb c "*" = false.

Lemma S_of_craw ts x s : In s (S_of ts x) -> exists c qq, xsrc x = [(c, qq)] /\ craw s = c \/ (exists c, xsrc x = [(c, None)] /\ s = Ucol ts c).
Proof.
  unfold S_of. destruct (xsrc x) as [|[c qq] [|p r]]; [intros []| |destruct qq; intros []].
  destruct qq as [q|].
  - destruct (find _ ts); [|intros []]. intros [<-|[]]. exists c, (Some q). left. auto.
  - destruct ts as [|d1 [|d2 r]].
    + intros [<-|[]]. exists c, None. right. exists c. auto.
    + intros [<-|[]]. exists c, None. left. auto.
    + intros [<-|[]]. exists c, None. right. exists c. auto.
Qed.

Lemma Ucol_craw ts c : craw (Ucol ts c) = c.
Proof.
  unfold Ucol. assert (H : forall l x, craw (fold_left add_parent l x) = craw x).
  { induction l as [|v r IH]; intros x; [reflexivity|]. cbn [fold_left]. rewrite IH. unfold add_parent. destruct (memd v (cparents x)); reflexivity. }
  rewrite H. reflexivity.
Qed.

Lemma S_of_nostar ts x s : nostar_x x -> In s (S_of ts x) -> String.eqb (craw s) "*" = false.
Proof.
  intros [_ Hn] Hs. destruct (S_of_craw ts x s Hs) as (c & qq & [[E1 E2]|(c' & E1 & E2)]).
  - rewrite E2. apply (Hn c qq). rewrite E1. left. reflexivity.
  - rewrite E2, Ucol_craw. apply (Hn c' None). rewrite E1. left. reflexivity.
Qed.

Lemma sel_inv2_sel_inv (PC : column -> Prop) d ts g : sel_inv2 PC (d :: ts) ts ts g -> sel_inv PC d ts g.
Proof. intros [A B C D]. constructor; assumption. Qed.

Definition EL_of (d : dataset) (ts : list dataset) (xs : list xcol) : list (Graph.node * Graph.node) :=
  map (fun v => (NData v, NStr (dalias v))) ts ++ sel_edges d (S_of ts) (own_pairs d xs).

Lemma holders_one_derived e d sq ts' xs' xs :
  env_ok e = true -> dk d = KTable -> data_ok d -> dk sq = KSubq -> data_ok sq ->
  group_ok d ts' -> ts_inj ts' -> names_nodot ts' -> Forall data_ok ts' -> Forall xcol_ok xs' ->
  (forall x, In x xs' -> xref_ok ts' x /\ nostar_x x) -> (forall x, In x xs -> xref_ok [sq] x /\ nostar_x x) ->
  let PC := PCg ts' (unres_names ts' xs') sq d in
  let DS := d :: sq :: ts' in
  exists sh sub,
    (do g2 <- end_of_query_cleanup e (add_write empty_graph sq) ts' xs' []; expand_wildcard e g2) = Ok sh /\
    sq_cte (compose (add_write empty_graph d) (set_attr sh [NData sq] "write" false)) = [] /\
    (do g2 <- end_of_query_cleanup e (compose (add_write empty_graph d) (set_attr sh [NData sq] "write" false)) [sq] xs [];
     expand_wildcard e g2) = Ok sub /\
    ext (add_write empty_graph sq) sh (EL_of sq ts' xs') /\
    ext (compose (add_write empty_graph d) (set_attr sh [NData sq] "write" false)) sub (EL_of d [sq] xs) /\
    lits_in (QK DS PC) sub /\ edges_inv (sq :: ts') sub /\ drop_free sub.
Proof.
  intros Henv Hkd Hdd Hks Hds Hgo Hinj Hnd Hdo Hxo Hxs' Hxs PC DS.
  set (NM := unres_names ts' xs') in *.
  assert (Hp : p_truthy (e_provider e) = false) by exact (proj1 (env_facts e Henv)).
  assert (Hsqd : forall v, In v ts' -> dataset_eqb v sq = false).
  { intros v Hv. unfold dataset_eqb. rewrite (go_tables _ _ Hgo v Hv), Hks. reflexivity. }
  assert (Hdsq : dataset_eqb d sq = false) by (unfold dataset_eqb; rewrite Hkd, Hks; reflexivity).
  (* the inner SELECT *)
  assert (Gin : group2 (sq :: ts') ts' ts' sq).
  { constructor; auto.
    - intros v Hv. right. exact Hv.
    - left. reflexivity.
    - rewrite Forall_forall in Hdo. exact Hdo.
    - intros v w [<-|Hv] [<-|Hw] E; [reflexivity| | |exact (go_distinct _ _ Hgo v w Hv Hw E)].
      + rewrite dataset_eqb_sym, (Hsqd w Hw) in E. discriminate.
      + rewrite (Hsqd v Hv) in E. discriminate. }
  assert (HPCstar : forall c, PC c -> String.eqb (craw c) "*" = false) by (intros c [H _]; exact H).
  destruct (select_core2 PC e (sq :: ts') ts' sq ts' xs' (S_of ts') (add_write empty_graph sq) Gin HPCstar) as (sh & Esh & Xsh & Ish & Tsh).
  { split; [intros n [<-|[]]; left; reflexivity|intros e0 []]. }
  { intros e0 []. }
  { intros n a0 [H|[]]. inversion H. intros [K|[]]. discriminate K. }
  { reflexivity. }
  { reflexivity. }
  { intros g2 Hinv x Hx. apply (HS_of PC e sq ts' g2 x); auto.
    - constructor; [exact (go_tables _ _ Hgo)|exact (go_distinct _ _ Hgo)|exact Hsqd].
    - apply sel_inv2_sel_inv. exact Hinv.
    - exact (proj1 (Hxs' x Hx)). }
  { intros x Hx. destruct (Hxs' x Hx) as [Hxr Hxn].
    destruct (S_of_props d ts' xs' x Hgo Hinj Hkd Hx Hxr) as (A1 & _ & A3 & A4 & _). split; [exact A1|]. split; [|split; [exact A3|]].
    - split; [rewrite (own_col_eq sq x A1); exact (proj1 Hxn)|]. right. left. rewrite (own_col_eq sq x A1). reflexivity.
    - intros s Hs. destruct (A4 s Hs) as [B1 B2]. split; [|exact B2]. split; [exact (S_of_nostar ts' x s Hxn Hs)|left; exact B1]. }
  (* its holder is well formed *)
  assert (Gsh : gok sh).
  { destruct (select_tail e Henv (add_write empty_graph sq) ts' xs' []) as (g3 & E3 & G3 & _).
    - apply gok_add_tag; [exact gok_empty|exact Hds].
    - exact Hdo.
    - exact Hxo.
    - cbn. lia.
    - rewrite Esh in E3. inversion E3. exact G3. }
  set (g0 := add_write empty_graph d). set (h := set_attr sh [NData sq] "write" false). set (g1 := compose g0 h).
  destruct (compose_sub_tags d sq sh Hdd Hkd Hks Gsh Tsh) as (G1 & W1 & C1). fold g0 h g1 in G1, W1, C1.
  assert (HDS : forall v, In v (sq :: ts') -> In v DS) by (intros v Hv; right; exact Hv).
  assert (L1 : lits_in (QK DS PC) g1).
  { apply lits_compose.
    - split; [intros n [<-|[]]; left; reflexivity|intros e0 []].
    - apply lits_set_attr. apply (lits_weaken (QK (sq :: ts') PC)); [|exact (si2_lits _ _ _ _ _ Ish)].
      intros n. destruct n; cbn [QK]; auto. }
  assert (E1 : edges_inv (sq :: ts') g1).
  { apply edges_inv_compose; [intros e0 []|]. apply (edges_inv_mono ts'); [intros v Hv; right; exact Hv|exact (si2_edges _ _ _ _ _ Ish)]. }
  assert (D1 : drop_free g1).
  { apply drop_free_compose.
    - intros n a0 [H|[]]. inversion H. intros [K|[]]. discriminate K.
    - apply drop_free_set_attr; [exact (si2_drop _ _ _ _ _ Ish)|discriminate]. }
  assert (HE1 : forall x y, has_edge g1 x y = ematch x y (EL_of sq ts' xs')).
  { intros x y. unfold g1, h. rewrite has_edge_compose, has_edge_set_attr, (ext_edges _ _ _ Xsh). reflexivity. }
  assert (O1 : out_edges g1 (NData d) = []).
  { apply out_edges_none. intros y. rewrite HE1. unfold EL_of. rewrite ematch_app. apply orb_false_iff. split.
    - unfold ematch. apply existsb_none. intros p Hp0. apply in_map_iff in Hp0. destruct Hp0 as (v & <- & Hv). cbn [fst snd node_eqb].
      rewrite dataset_eqb_sym, (go_target _ _ Hgo v Hv). reflexivity.
    - destruct (ematch (NData d) y (sel_edges sq (S_of ts') (own_pairs sq xs'))) eqn:Em; [|reflexivity]. exfalso.
      apply ematch_sel_data in Em. destruct Em as (x0 & s & Hx0 & Hs & [[K _]|(sp & Esp & K & _)]); [congruence|].
      unfold own_pairs in Hx0. apply in_map_iff in Hx0. destruct Hx0 as (x1 & <- & Hx1). cbn [fst] in Hs.
      destruct (Hxs' x1 Hx1) as [Hxr _]. destruct (S_of_props d ts' xs' x1 Hgo Hinj Hkd Hx1 Hxr) as (_ & _ & _ & A4 & _).
      destruct (A4 s Hs) as [_ B2]. assert (Hsp : In sp ts') by (apply B2; rewrite (col_parent_some _ _ Esp); left; reflexivity).
      rewrite dataset_eqb_sym, (go_target _ _ Hgo sp Hsp) in K. discriminate. }
  (* the outer SELECT *)
  assert (Gout : group2 DS (sq :: ts') [sq] d).
  { constructor.
    - intros v [<-|[]]. left. reflexivity.
    - exact HDS.
    - left. reflexivity.
    - intros v [<-|[]]. exact Hds.
    - intros v w Hv Hw E. destruct Hv as [<-|Hv], Hw as [<-|Hw]; [reflexivity| | |exact (g2_distinct _ _ _ _ Gin v w Hv Hw E)].
      + destruct Hw as [<-|Hw]; [congruence|]. rewrite dataset_eqb_sym, (go_target _ _ Hgo w Hw) in E. discriminate.
      + destruct Hv as [<-|Hv]; [rewrite dataset_eqb_sym in E; congruence|]. rewrite (go_target _ _ Hgo v Hv) in E. discriminate.
    - intros v [<-|[]]. rewrite dataset_eqb_sym. exact Hdsq. }
  destruct (select_core2 PC e DS (sq :: ts') d [sq] xs (S_of [sq]) g1 Gout HPCstar L1 E1 D1 W1 O1) as (sub & Esub & Xsub & Isub & Tsub).
  { intros g2 Hinv x Hx. apply (HS_of_single2 PC e DS (sq :: ts') d sq g2 x Gout Hinv). exact (proj1 (Hxs x Hx)). }
  { intros x Hx. destruct (Hxs x Hx) as [Hxr Hxn]. pose proof Hxr as (A1 & c & qq & Ex & Ec & Hq). split; [exact A1|]. split; [|split].
    - split; [rewrite (own_col_eq d x A1); exact (proj1 Hxn)|]. right. right. rewrite (own_col_eq d x A1). reflexivity.
    - unfold S_of. rewrite Ex. destruct qq; [destruct (find _ _)|]; cbn; lia.
    - intros s Hs. split.
      + split; [exact (S_of_nostar [sq] x s Hxn Hs)|]. right. left. unfold S_of in Hs. rewrite Ex in Hs.
        destruct qq as [q0|]; [|destruct Hs as [<-|[]]; reflexivity].
        destruct (find (fun v => String.eqb (dalias v) q0) [sq]) as [v|] eqn:Ef; [|destruct Hs]. destruct Hs as [<-|[]].
        apply find_some in Ef. destruct Ef as [[<-|[]] _]. reflexivity.
      + intros p Hpp. unfold S_of in Hs. rewrite Ex in Hs.
        destruct qq as [q0|]; [|destruct Hs as [<-|[]]; exact Hpp].
        destruct (find (fun v => String.eqb (dalias v) q0) [sq]) as [v|] eqn:Ef; [|destruct Hs]. destruct Hs as [<-|[]].
        apply find_some in Ef. destruct Ef as [Hv _]. destruct Hpp as [<-|[]]. exact Hv. }
  exists sh, sub. split; [exact Esh|]. split; [exact C1|]. split; [exact Esub|]. split; [exact Xsh|]. split; [exact Xsub|].
  split; [exact (si2_lits _ _ _ _ _ Isub)|]. split; [exact (si2_edges _ _ _ _ _ Isub)|exact (si2_drop _ _ _ _ _ Isub)].
Qed.

Lemma S_of_single_parent sq x s : In s (S_of [sq] x) -> cparents s = [sq].
Proof.
  unfold S_of. destruct (xsrc x) as [|[c qq] [|p r]]; [intros []| |destruct qq; intros []].
  destruct qq as [q0|]; [|intros [<-|[]]; reflexivity].
  destruct (find (fun v => String.eqb (dalias v) q0) [sq]) as [v|] eqn:Ef; [|intros []]. intros [<-|[]].
  apply find_some in Ef. destruct Ef as [[<-|[]] _]. reflexivity.
Qed.

Lemma flows_of_In S l f : In f (flows_of S l) <-> exists p s, In p l /\ In s (S (fst p)) /\ f = (s, snd p).
Proof.
  unfold flows_of. rewrite in_flat_map. split.
  - intros (p & Hp & Hf). apply in_map_iff in Hf. destruct Hf as (s & <- & Hs). exists p, s. auto.
  - intros (p & s & Hp & Hs & ->). exists p. split; [exact Hp|]. apply in_map_iff. exists s. auto.
Qed.

Theorem realises_one_derived d sq ts' xs' xs sh sub :
  dk d = KTable -> dk sq = KSubq -> group_ok d ts' -> ts_inj ts' ->
  (forall x, In x xs' -> xref_ok ts' x) -> (forall x, In x xs -> cparents (xc x) = []) ->
  let NM := unres_names ts' xs' in
  (forall nm, In nm NM -> exists x, In x xs' /\ In (Ucol ts' nm) (S_of ts' x)) ->
  (forall x' s' nm v, In nm NM -> In x' xs' -> In s' (S_of ts' x') -> cparents s' = [v] -> craw s' <> nm) ->
  (forall x s, In x xs -> In s (S_of [sq] x) -> exists x', In x' xs' /\ craw (xc x') = craw s /\ S_of ts' x' <> []) ->
  let g0 := add_write empty_graph d in
  let g1 := compose g0 (set_attr sh [NData sq] "write" false) in
  ext (add_write empty_graph sq) sh (EL_of sq ts' xs') -> ext g1 sub (EL_of d [sq] xs) ->
  lits_in (QK (d :: sq :: ts') (PCg ts' NM sq d)) sub -> edges_inv (sq :: ts') sub -> drop_free sub ->
  let G := compose g0 sub in
  let FI := flows_of (S_of ts') (own_pairs sq xs') in
  let FO := flows_of (S_of [sq]) (own_pairs d xs) in
  clean_holder G /\ lits_in (unres_ok G) G /\ realises G (FI ++ FO) /\ two_layer FI FO.
Proof.
  intros Hkd Hks Hgo Hinj Hxs' Hxs0 NM HNM HNQ Hfed g0 g1 Xsh Xsub Lsub Esub Dsub G FI FO.
  assert (Hsqd : forall v, In v ts' -> dataset_eqb v sq = false).
  { intros v Hv. unfold dataset_eqb. rewrite (go_tables _ _ Hgo v Hv), Hks. reflexivity. }
  assert (HE : forall x y, has_edge G x y = ematch x y (EL_of sq ts' xs') || ematch x y (EL_of d [sq] xs)).
  { intros x y. unfold G, g0. rewrite has_edge_compose, has_edge_add_write, (ext_edges _ _ _ Xsub). cbn [orb]. f_equal.
    unfold g1, g0. rewrite has_edge_compose, has_edge_add_write, has_edge_set_attr, (ext_edges _ _ _ Xsh). reflexivity. }
  assert (HEc : forall x y, is_column x = true ->
                has_edge G x y = ematch x y (map (fun f : flow => (NCol (fst f), NCol (snd f))) (FI ++ FO))).
  { intros x y Hx. rewrite HE. unfold EL_of. rewrite !ematch_app, !(ematch_alias_col x y _ Hx), !(ematch_sel_col _ _ _ x y Hx).
    rewrite map_app, ematch_app. reflexivity. }
  (* the shape of the flows *)
  assert (HFI : forall f, In f FI -> exists x s, In x xs' /\ In s (S_of ts' x) /\ f = (s, {| craw := craw (xc x); cparents := [sq] |}) /\
                  ((exists v, In v ts' /\ cparents s = [v]) \/
                   (exists nm, In nm NM /\ s = Ucol ts' nm /\ escape nm = nm /\ 2 <= List.length (cparents s)))).
  { intros f Hf. apply flows_of_In in Hf. destruct Hf as (p & s & Hp & Hs & ->). unfold own_pairs in Hp. apply in_map_iff in Hp.
    destruct Hp as (x & <- & Hx). cbn [fst snd] in *. exists x, s. split; [exact Hx|]. split; [exact Hs|].
    destruct (S_of_props d ts' xs' x Hgo Hinj Hkd Hx (Hxs' x Hx)) as (A1 & _ & _ & _ & A5). split; [|exact (A5 s Hs)].
    rewrite (own_col_eq sq x A1). reflexivity. }
  assert (HFO : forall f, In f FO -> exists x s, In x xs /\ In s (S_of [sq] x) /\ cparents s = [sq] /\
                                              f = (s, {| craw := craw (xc x); cparents := [d] |})).
  { intros f Hf. apply flows_of_In in Hf. destruct Hf as (p & s & Hp & Hs & ->). unfold own_pairs in Hp. apply in_map_iff in Hp.
    destruct Hp as (x & <- & Hx). cbn [fst snd] in *. exists x, s. split; [exact Hx|]. split; [exact Hs|]. split; [exact (S_of_single_parent sq x s Hs)|].
    rewrite (own_col_eq d x (Hxs0 x Hx)). reflexivity. }
  assert (LG : lits_in (QK (d :: sq :: ts') (PCg ts' NM sq d)) G).
  { apply lits_compose; [|exact Lsub]. split; [intros n [<-|[]]; left; reflexivity|intros e0 []]. }
  assert (Rc : forall f, In f (FI ++ FO) -> has_edge G (NCol (fst f)) (NCol (snd f)) = true).
  { intros f Hf. rewrite HEc by reflexivity. unfold ematch. apply existsb_exists. exists (NCol (fst f), NCol (snd f)).
    split; [apply in_map_iff; exists f; auto|]. cbn [fst snd]. rewrite !node_eqb_refl. reflexivity. }
  assert (Hmid : forall c, cparents c = [sq] -> is_mid c = true).
  { intros c Ec. unfold is_mid. cbn [parent_is]. unfold col_parent. rewrite Ec, Hks. reflexivity. }
  assert (Hnomid : forall s, ((exists v, In v ts' /\ cparents s = [v]) \/ 2 <= List.length (cparents s)) -> is_mid s = false).
  { intros s [(v & Hv & Ev)|Hl]; unfold is_mid; cbn [parent_is].
    - unfold col_parent. rewrite Ev, (go_tables _ _ Hgo v Hv). reflexivity.
    - rewrite (col_parent_none _ Hl). reflexivity. }
  (* a column of the target or of the sub-query is no source column of the inner SELECT *)
  assert (Hfresh : forall s c, ((exists v, In v ts' /\ cparents s = [v]) \/ 2 <= List.length (cparents s)) ->
                               (cparents c = [sq] \/ cparents c = [d]) -> col_eqb c s = false).
  { intros s c Hs Hc. unfold col_eqb. apply andb_false_iff. right.
    destruct Hs as [(v & Hv & Ev)|Hl].
    - unfold col_parent. rewrite Ev. destruct Hc as [-> | ->]; cbn [opt_dataset_eqb]; rewrite dataset_eqb_sym; [apply Hsqd|apply (go_target _ _ Hgo)]; exact Hv.
    - rewrite (col_parent_none _ Hl). unfold col_parent. destruct Hc as [-> | ->]; reflexivity. }
  split; [|split; [|split]].
  - (* clean_holder *)
    split.
    + intros n a Hin. destruct (attr_true "drop" a) eqn:E; [|reflexivity]. exfalso. apply attr_true_In in E.
      assert (D0 : drop_free g0) by (intros n0 a0 [H|[]]; inversion H; intros [K|[]]; discriminate K).
      exact (drop_free_compose g0 sub D0 Dsub n a Hin E).
    + apply (etype_compose (fun s => String.eqb s "rename" = false)); [intros e0 []|].
      intros e0 He0. pose proof (Esub e0 He0) as Hi. unfold edge_inv in Hi.
      destruct (snd (fst e0)); [destruct Hi as [-> | ->]; reflexivity|destruct Hi as [-> | ->]; reflexivity|destruct Hi as [-> _]; reflexivity].
  - (* unresolved columns *)
    apply (lits_weaken (QK (d :: sq :: ts') (PCg ts' NM sq d))); [|exact LG]. intros n Hn u Hu. destruct n as [|c|]; cbn [unresolved] in Hu; try discriminate.
    cbn [QK] in Hn. destruct Hn as [_ [[(p & Ep & _)|(nm & Hnm & -> & Enm & Hlen)]|[Ep|Ep]]]; try (rewrite Ep in Hu; cbn in Hu; discriminate).
    destruct (Nat.ltb 1 (List.length (cparents (Ucol ts' nm)))); [|discriminate]. inversion Hu. subst u. clear Hu.
    destruct (Ucol_props ts' nm Hinj) as (U1 & _ & U3). split.
    + unfold candidates_in_graph. apply flat_map_none. intros p Hp. rewrite U1.
      destruct (has_edge G (NData p) (NCol (mk_col nm p))) eqn:Ehe; [|reflexivity]. exfalso.
      apply U3 in Hp. rewrite HE in Ehe. unfold EL_of in Ehe. rewrite !ematch_app, !ematch_alias_ycol in Ehe. cbn [orb] in Ehe.
      apply orb_true_iff in Ehe. destruct Ehe as [Ehe|Ehe]; apply ematch_sel_data in Ehe;
        destruct Ehe as (x' & s' & Hx' & Hs' & [[K _]|(sp & Esp & K1 & K2)]).
      * rewrite (Hsqd p Hp) in K. discriminate.
      * unfold own_pairs in Hx'. apply in_map_iff in Hx'. destruct Hx' as (x1 & <- & Hx1). cbn [fst] in Hs'.
        destruct (S_of_props d ts' xs' x1 Hgo Hinj Hkd Hx1 (Hxs' x1 Hx1)) as (_ & _ & _ & _ & A5).
        destruct (A5 s' Hs') as [(v & Hv & Ev)|(nm' & _ & -> & _ & Hl')].
        -- unfold col_parent in Esp. rewrite Ev in Esp. inversion Esp. subst sp.
           pose proof (proj1 Hinj p v Hp Hv K1) as Epv. subst v.
           cbn [node_eqb] in K2. unfold col_eqb in K2. apply andb_true_iff in K2. destruct K2 as [K2 _]. apply String.eqb_eq in K2.
           unfold col_str, col_parent, mk_col in K2. cbn [cparents craw] in K2. rewrite Ev, (go_tables _ _ Hgo p Hp), Enm in K2.
           apply append_cancel in K2. apply append_cancel in K2. apply (HNQ x1 s' nm p Hnm Hx1 Hs' Ev). symmetry. exact K2.
        -- rewrite (col_parent_none _ Hl') in Esp. discriminate.
      * rewrite (go_target _ _ Hgo p Hp) in K. discriminate.
      * unfold own_pairs in Hx'. apply in_map_iff in Hx'. destruct Hx' as (x1 & <- & Hx1). cbn [fst] in Hs'.
        pose proof (S_of_single_parent sq x1 s' Hs') as Ep'. unfold col_parent in Esp. rewrite Ep' in Esp. inversion Esp. subst sp.
        rewrite (Hsqd p Hp) in K1. discriminate.
    + destruct (HNM nm Hnm) as (x & Hx & Hs). exists (NCol (own_col sq x)).
      apply (Rc (Ucol ts' nm, own_col sq x)). apply in_app_iff. left. apply flows_of_In. exists (x, own_col sq x), (Ucol ts' nm).
      split; [unfold own_pairs; apply in_map_iff; exists x; auto|]. auto.
  - (* realises *)
    constructor.
    + intros x y Hx Hxy. rewrite (HEc x y Hx) in Hxy. unfold ematch in Hxy. apply existsb_exists in Hxy.
      destruct Hxy as (p & Hp & E). apply in_map_iff in Hp. destruct Hp as (f & <- & Hf). cbn [fst snd] in E.
      apply andb_true_iff in E. exists f. tauto.
    + exact Rc.
    + intros f Hf. apply in_app_iff in Hf. destruct Hf as [Hf|Hf].
      * apply flows_of_In in Hf. destruct Hf as (p & s & Hp & Hs & ->). cbn [fst snd].
        assert (Hin : In (NCol s, NCol (snd p)) (EL_of sq ts' xs')).
        { unfold EL_of. apply in_app_iff. right. unfold sel_edges. apply in_flat_map. exists p. split; [exact Hp|]. apply in_flat_map. exists s.
          split; [exact Hs|]. left. reflexivity. }
        destruct (ext_new _ _ _ Xsh _ Hin) as [N1 N2]. cbn [fst snd] in *.
        assert (Hup : forall n, has_node sh n = true -> has_node G n = true).
        { intros n Hn. unfold G. rewrite has_node_compose. apply orb_true_iff. right. apply (ext_mono _ _ _ Xsub).
          unfold g1. rewrite has_node_compose, has_node_set_attr, Hn. apply orb_true_r. }
        split; apply Hup; assumption.
      * apply flows_of_In in Hf. destruct Hf as (p & s & Hp & Hs & ->). cbn [fst snd].
        assert (Hin : In (NCol s, NCol (snd p)) (EL_of d [sq] xs)).
        { unfold EL_of. apply in_app_iff. right. unfold sel_edges. apply in_flat_map. exists p. split; [exact Hp|]. apply in_flat_map. exists s.
          split; [exact Hs|]. left. reflexivity. }
        destruct (ext_new _ _ _ Xsub _ Hin) as [N1 N2]. cbn [fst snd] in *. unfold G. rewrite !has_node_compose, N1, N2, !orb_true_r. auto.
    + apply (lits_weaken (QK (d :: sq :: ts') (PCg ts' NM sq d))); [|exact LG]. intros n Hn f Hf E.
      apply in_app_iff in Hf. destruct Hf as [Hf|Hf].
      * destruct (HFI f Hf) as (x & s & _ & _ & -> & [(v & _ & Ev)|(nm & _ & -> & _ & Hl)]); cbn [fst] in *.
        -- apply (src_str_eqb_single n s v); [unfold col_parent; rewrite Ev; reflexivity|exact E].
        -- destruct n as [|c|]; cbn [node_eqb] in E; try discriminate. cbn [QK] in Hn.
           unfold col_eqb in E. apply andb_true_iff in E. destruct E as [E1 E2]. rewrite (col_parent_none _ Hl) in E2.
           destruct Hn as [_ [[(p & Ep & _)|(nm' & _ & -> & _ & Hl')]|[Ep|Ep]]]; try (unfold col_parent in E2; rewrite Ep in E2; discriminate).
           apply String.eqb_eq in E1. unfold col_str in E1. rewrite (col_parent_none _ Hl), (col_parent_none _ Hl') in E1.
           rewrite (proj1 (Ucol_props ts' nm Hinj)), (proj1 (Ucol_props ts' nm' Hinj)) in E1. subst nm'. reflexivity.
      * destruct (HFO f Hf) as (x & s & _ & _ & Ep & ->). cbn [fst] in *.
        apply (src_str_eqb_single n s sq); [unfold col_parent; rewrite Ep; reflexivity|exact E].
  - (* two layers *)
    assert (KI : forall f, In f FI -> ((exists v, In v ts' /\ cparents (fst f) = [v]) \/ 2 <= List.length (cparents (fst f))) /\ cparents (snd f) = [sq]).
    { intros f Hf. destruct (HFI f Hf) as (x & s & _ & _ & -> & [H|(nm & _ & _ & _ & Hl)]); cbn [fst snd cparents]; auto. }
    assert (KO : forall f, In f FO -> cparents (fst f) = [sq] /\ cparents (snd f) = [d]).
    { intros f Hf. destruct (HFO f Hf) as (x & s & _ & _ & Ep & ->). cbn [fst snd cparents]. auto. }
    constructor.
    + intros f Hf. apply Hnomid. exact (proj1 (KI f Hf)).
    + intros f Hf. apply Hmid. exact (proj2 (KI f Hf)).
    + intros f Hf. cbn [parent_is]. unfold col_parent. rewrite (proj2 (KO f Hf)), Hkd. reflexivity.
    + intros f f' Hf Hf'. apply in_app_iff in Hf'. destruct Hf' as [Hf'|Hf'].
      * apply Hfresh; [exact (proj1 (KI f' Hf'))|right; exact (proj2 (KO f Hf))].
      * unfold col_eqb. apply andb_false_iff. right. unfold col_parent. rewrite (proj2 (KO f Hf)), (proj1 (KO f' Hf')).
        cbn [opt_dataset_eqb]. unfold dataset_eqb. rewrite Hkd, Hks. reflexivity.
    + intros f f' Hf Hm. rewrite (Hmid _ (proj1 (KO f Hf))) in Hm. discriminate.
    + intros f f' Hf Hf'. apply Hfresh; [exact (proj1 (KI f Hf))|]. apply in_app_iff in Hf'. destruct Hf' as [Hf'|Hf'].
      * left. exact (proj2 (KI f' Hf')).
      * right. exact (proj2 (KO f' Hf')).
    + intros f Hf _. destruct (HFO f Hf) as (x & s & Hx & Hs & Ep & ->). cbn [fst].
      destruct (Hfed x s Hx Hs) as (x' & Hx' & Ec & Hne). destruct (S_of ts' x') as [|s' r] eqn:ES; [congruence|].
      exists (s', own_col sq x'). split.
      * apply flows_of_In. exists (x', own_col sq x'), s'. split; [unfold own_pairs; apply in_map_iff; exists x'; auto|].
        cbn [fst snd]. rewrite ES. split; [left; reflexivity|reflexivity].
      * cbn [snd]. destruct (Hxs' x' Hx') as (A1 & _). rewrite (own_col_eq sq x' A1), Ec.
        destruct s as [cs ps]. cbn [cparents craw] in *. subst ps. apply col_eqb_refl.
Qed.

(* ================================================================== *)
(** * Part M5c: the model side for INSERT / CTAS / VIEW over SELECT items FROM (SELECT items' FROM base tables) a *)
Lemma xcol_ok_of i : item_ok i = true -> xcol_ok (xcol_of i).
Proof.
  destruct i as [[qq c| | | | | |] al|qq]; cbn [item_ok]; try discriminate; intros H.
  - apply andb_true_iff in H. destruct H as [H Ha]. apply andb_true_iff in H. destruct H as [Hc Hq].
    destruct al; cbn [xcol_of]; apply xcol_ok_mk; destruct qq; auto.
  - cbn [xcol_of]. apply xcol_ok_mk. destruct qq; auto.
Qed.

Theorem model_pairs_one_derived noise e (s : stmt) t items a items' from' cj cj' :
  noise_ok noise = true -> env_ok e = true ->
  let q' := QSelect items' from' cj' None in
  let q := QSelect items [RDerived q' a] cj None in
  (s = SInsert t None q \/ s = SCtas t q \/ s = SView t q) ->
  tref_ok t = true -> forallb item_ok items = true -> id_ok a = true -> iq_ok q' = true ->
  let d := tbl e t None in let ts' := map (tbl_of e) from' in
  let xs' := map xcol_of items' in let xs := map xcol_of items in
  let sq := sqd noise (q_size q) q' a in
  group_ok d ts' -> ts_inj ts' -> names_nodot ts' ->
  (forall x, In x xs' -> xref_ok ts' x /\ nostar_x x) -> noqual ts' xs' ->
  (forall x, In x xs -> xref_ok [sq] x /\ nostar_x x) ->
  (forall x s0, In x xs -> In s0 (S_of [sq] x) -> exists x', In x' xs' /\ craw (xc x') = craw s0 /\ S_of ts' x' <> []) ->
  script_pairs e false [] [r_stmt noise s] =
  uniq_sorted (sort_strings (map flow_str (compose_flows (flows_of (S_of ts') (own_pairs sq xs')) (flows_of (S_of [sq]) (own_pairs d xs))))).
Proof.
  intros Hn He q' q Hs Ht Hit Ha Hq' d ts' xs' xs sq Hgo Hinj Hnd Hxs' Hnq Hxs Hfed.
  set (e' := with_cols e (view_cols [] [])).
  assert (He' : env_ok e' = true) by exact He.
  pose proof Hq' as Hq'0. unfold q' in Hq'0. cbn [iq_ok] in Hq'0. apply andb_true_iff in Hq'0. destruct Hq'0 as [Hq'0 Hrel'].
  apply andb_true_iff in Hq'0. destruct Hq'0 as [Hit' Hne'].
  assert (Hdo : Forall data_ok ts').
  { apply Forall_forall. intros v Hv. unfold data_ok. rewrite (go_tables _ _ Hgo v Hv).
    apply in_map_iff in Hv. destruct Hv as (r & <- & _). destruct r; reflexivity. }
  assert (Hxo : Forall xcol_ok xs').
  { apply Forall_forall. intros x Hx. apply in_map_iff in Hx. destruct Hx as (i & <- & Hi). apply xcol_ok_of.
    rewrite forallb_forall in Hit'. apply Hit'. exact Hi. }
  assert (Ek : exists k0, q_size q = S k0) by (eexists; reflexivity). destruct Ek as (k0 & Ek).
  assert (Hok2 : forallb rel2_ok [RDerived q' a] = true) by (cbn [forallb rel2_ok]; rewrite Ha, Hq'; reflexivity).
  destruct (holders_one_derived e' d sq ts' xs' xs He' eq_refl eq_refl eq_refl) as (sh & sub & Esh & C1 & Esub & Xsh & Xsub & Lsub & Isub & Dsub); auto.
  { unfold data_ok, sq, sqd, mk_subquery. cbn [dk dquery]. discriminate. }
  (* the analysis *)
  assert (Ea : analyze e' false (r_stmt noise s) = Ok (compose (add_write empty_graph d) sub)).
  { destruct (analyze_wrapper noise Hn e' He' s t items [RDerived q' a] cj Hs Ht) as (F & stmt & Ew). rewrite Ew.
    rewrite (delegate_any noise e' F stmt (tbl e' t None)). fold q.
    change (tbl e' t None) with d.
    rewrite (select_derived_extract noise Hn e' He' (S F) _ items [RDerived q' a] cj k0).
    - rewrite init_delegate_write. cbn [sq_list flat_map app]. rewrite <- Ek. fold sq.
      unfold q' at 1. unfold sq, q'. rewrite Ek.
      rewrite (sub_extract noise Hn e' He' F k0 (add_write empty_graph d) items' from' cj' a Hq' eq_refl).
      rewrite <- Ek. fold q' sq. change (map (tbl_of e') from') with ts'. fold xs'. rewrite Esh. cbv beta iota.
      rewrite C1. cbn [map ds_of]. fold sq. fold xs. rewrite Esub. reflexivity.
    - rewrite <- Ek. apply (sel_segments_top_select noise Hn).
    - exact Hit.
    - discriminate.
    - exact Hok2.
    - unfold noleak. rewrite orb_true_r. reflexivity. }
  destruct (realises_one_derived d sq ts' xs' xs sh sub eq_refl eq_refl Hgo Hinj (fun x Hx => proj1 (Hxs' x Hx))) as (C1' & C2 & C3 & C4); auto.
  - intros x Hx. exact (proj1 (proj1 (Hxs x Hx))).
  - intros nm Hnm. unfold unres_names in Hnm.
    assert (Hns : forall (A : Type) (f : dataset -> A) (g : A), In nm (match ts' with [_] => [] | _ => [nm] end) -> match ts' with [d1] => f d1 | _ => g end = g).
    { intros A f g. destruct ts' as [|a0 [|b r]]; [reflexivity|intros []|reflexivity]. }
    assert (Hin : In nm (flat_map (fun x => match xsrc x with [(c, None)] => [c] | _ => [] end) xs') /\ In nm (match ts' with [_] => [] | _ => [nm] end)).
    { destruct ts' as [|a0 [|b r]]; [split; [exact Hnm|left; reflexivity]|destruct Hnm|split; [exact Hnm|left; reflexivity]]. }
    destruct Hin as [Hin Hsh]. apply in_flat_map in Hin. destruct Hin as (x & Hx & Hin). exists x. split; [exact Hx|].
    unfold S_of. destruct (xsrc x) as [|[c qq] rest]; [destruct Hin|]. destruct qq as [q0|]; [destruct Hin|].
    destruct rest as [|p r]; [|destruct Hin]. destruct Hin as [->|[]].
    rewrite (Hns _ _ _ Hsh). left. reflexivity.
  - intros x' s' nm v Hnm Hx' Hs' Ev. unfold unres_names in Hnm.
    assert (Hm : In nm (flat_map (fun x => match xsrc x with [(c, None)] => [c] | _ => [] end) xs') /\ (forall d1, ts' <> [d1])).
    { destruct ts' as [|a0 [|b r]]; [split; [exact Hnm|discriminate]|destruct Hnm|split; [exact Hnm|discriminate]]. }
    destruct Hm as [Hin Hns]. apply in_flat_map in Hin. destruct Hin as (x & Hx & Hin).
    destruct (proj1 (Hxs' x Hx)) as (_ & c & qq & Ex & _ & Hq). rewrite Ex in Hin. destruct qq as [q0|]; [destruct Hin|]. destruct Hin as [->|[]].
    destruct Hq as [(d1 & Ed)|[Hmul _]]; [exfalso; exact (Hns d1 Ed)|].
    destruct (proj1 (Hxs' x' Hx')) as (_ & c' & qq' & Ex' & _ & Hq''). unfold S_of in Hs'. rewrite Ex' in Hs'. destruct qq' as [q0'|].
    + destruct Hq'' as (v' & Hv' & Eq' & Hu'). rewrite (find_dalias ts' q0' v' Hv' Eq' (fun w Hw E => Hu' w Hw (or_introl E))) in Hs'.
      destruct Hs' as [<-|[]]. cbn [craw]. apply (Hnq x x' nm c' q0' Hx Hx' Ex Ex' Hmul).
    + rewrite (multi_not_single ts' _ _ _ Hmul) in Hs'. destruct Hs' as [<-|[]].
      destruct (Ucol_props ts' c' Hinj) as (_ & _ & U3). destruct Hmul as (a0 & b & Ha0 & Hb & Hab).
      pose proof (two_members _ a0 b (proj2 (U3 a0) Ha0) (proj2 (U3 b) Hb) Hab) as Hl. rewrite Ev in Hl. cbn in Hl. lia.
  - apply (script_pairs_two_layer e (r_stmt noise s) _ _ _ Ea (proj1 (env_facts e He)) C1' C2 C3 C4).
Qed.

(* ================================================================== *)
(** * Part S5c: the specification side *)
Definition plain_item (i : item) : bool := match i with IExpr (EColRef _ _) _ => true | _ => false end.

(** all unresolved sources carry the candidates [CANDS] *)
Definition src_cands (CANDS : list string) (sr : src) : Prop := match sr with SUnres _ cands => cands = CANDS | _ => True end.

Lemma src_eqb_show CANDS a b : src_cands CANDS a -> src_cands CANDS b -> src_eqb a b = true -> show_src a = show_src b.
Proof.
  destruct a as [t c|c ca|t], b as [t' c'|c' cb|t']; cbn [src_eqb src_cands]; try discriminate; intros Ha Hb E.
  - apply andb_true_iff in E. destruct E as [E1 E2]. apply String.eqb_eq in E1, E2. subst. reflexivity.
  - apply String.eqb_eq in E. subst. reflexivity.
  - apply String.eqb_eq in E. subst. reflexivity.
Qed.

Lemma In_dedup_src x l : forall seen, In x (dedup_src l seen) -> In x l.
Proof.
  induction l as [|y r IH]; intros seen; cbn [dedup_src]; [tauto|]. destruct (existsb (src_eqb y) seen).
  - intros H. right. exact (IH _ H).
  - intros [<-|H]; [left; reflexivity|right; exact (IH _ H)].
Qed.

Lemma dedup_src_complete x l : forall seen, In x l -> existsb (src_eqb x) seen = true \/ exists y, In y (dedup_src l seen) /\ src_eqb x y = true.
Proof.
  assert (Hrefl : forall a, src_eqb a a = true) by (intros [t c|c ca|t]; cbn; rewrite ?String.eqb_refl; reflexivity).
  assert (Htr : forall a b c, src_eqb a b = true -> src_eqb b c = true -> src_eqb a c = true).
  { intros [t1 c1|c1 k1|t1] [t2 c2|c2 k2|t2] [t3 c3|c3 k3|t3]; cbn [src_eqb]; try discriminate; intros H1 H2.
    - apply andb_true_iff in H1, H2. destruct H1 as [A1 A2], H2 as [B1 B2]. apply String.eqb_eq in A1, A2, B1, B2. subst. rewrite !String.eqb_refl. reflexivity.
    - apply String.eqb_eq in H1, H2. subst. apply String.eqb_refl.
    - apply String.eqb_eq in H1, H2. subst. apply String.eqb_refl. }
  induction l as [|y r IH]; intros seen Hin; [destruct Hin|]. cbn [dedup_src]. destruct Hin as [<-|Hin].
  - destruct (existsb (src_eqb y) seen) eqn:E; [left; reflexivity|]. right. exists y. split; [left; reflexivity|apply Hrefl].
  - destruct (existsb (src_eqb y) seen) eqn:E.
    + apply IH. exact Hin.
    + destruct (IH (y :: seen) Hin) as [H|(z & Hz & Ez)].
      * cbn [existsb] in H. apply orb_true_iff in H. destruct H as [H|H]; [|left; exact H].
        right. exists y. split; [left; reflexivity|exact H].
      * right. exists z. split; [right; exact Hz|exact Ez].
Qed.

Lemma dedup_src_strs CANDS l z : (forall sr, In sr l -> src_cands CANDS sr) ->
  (In z (map show_src (dedup_src l [])) <-> In z (map show_src l)).
Proof.
  intros HP. split; intros H; apply in_map_iff in H; destruct H as (sr & <- & Hsr).
  - apply in_map_iff. exists sr. split; [reflexivity|exact (In_dedup_src _ _ _ Hsr)].
  - destruct (dedup_src_complete sr l [] Hsr) as [H|(y & Hy & Ey)]; [discriminate|].
    apply in_map_iff. exists y. split; [|exact Hy]. symmetry.
    apply (src_eqb_show CANDS); [apply HP; exact Hsr|apply HP; exact (In_dedup_src _ _ _ Hy)|exact Ey].
Qed.

(** an item of the inner SELECT: its column specification against the source columns of the model *)
Lemma item_corr_src e t from i :
  forallb rel_ok from = true -> item_ok i = true -> plain_item i = true -> tables_cond (e_cfg e) t from ->
  (match snd (item_ref i) with
   | Some q => qual1 from q
   | None => (exists r, from = [r]) \/ (2 <= List.length from /\ fst (item_ref i) <> "*")
   end) ->
  exists SR, item_cols (map (sbind (e_cfg e)) from) i = [(item_name i, SR)] /\
             map show_src SR = map (fun s => src_str (NCol s)) (S_of (map (tbl_of e) from) (xcol_of i)) /\
             forall sr, In sr SR -> src_cands (map (fun r => tref_str (e_cfg e) (rtref r)) from) sr.
Proof.
  intros Hrel Hi Hpl Htc Hc. destruct (xcol_of_facts i Hi) as (F1 & F2 & F3 & F4).
  assert (Hrt : forallb is_rtable from = true).
  { rewrite forallb_forall in *. intros r Hr. apply rel_ok_table. apply Hrel. exact Hr. }
  pose proof Hrel as Hrel0. unfold S_of. rewrite F2. rewrite forallb_forall in Hrel.
  destruct i as [[qq c| | | | | |] al|qq]; cbn [plain_item] in Hpl; try discriminate; cbn [item_ref item_name fst snd] in *.
  assert (En : forall SR : list src, item_cols (map (sbind (e_cfg e)) from) (IExpr (EColRef qq c) al) =
                          [(match al with Some a0 => a0 | None => c end, dedup_src (resolve (map (sbind (e_cfg e)) from) (qq, c)) [])]).
  { intros _. cbn [item_cols col_refs flat_map app]. rewrite app_nil_r. destruct al; reflexivity. }
  destruct qq as [q|].
  - destruct Hc as (r0 & Hr0 & Eq & Hu).
    rewrite (find_dalias (map (tbl_of e) from) q (tbl_of e r0)).
    + rewrite (tbl_of_table e r0 (rel_ok_table _ (Hrel r0 Hr0))).
      exists [SCol (tref_str (e_cfg e) (rtref r0)) c]. split; [|split; [reflexivity|intros sr [<-|[]]; exact I]].
      rewrite (En []). unfold resolve. cbn [fst snd]. rewrite (find_binding_q (e_cfg e) from q r0 Hrt F4 Hr0 Eq Hu).
      cbn [sbind b_rel rel_col dedup_src existsb]. destruct al; reflexivity.
    + apply in_map. exact Hr0.
    + rewrite (tbl_of_table e r0 (rel_ok_table _ (Hrel r0 Hr0))). exact Eq.
    + intros w Hw Ew. apply in_map_iff in Hw. destruct Hw as (r & <- & Hr).
      rewrite (Hu r Hr); [reflexivity|]. left. rewrite (tbl_of_table e r (rel_ok_table _ (Hrel r Hr))) in Ew. exact Ew.
  - destruct Hc as [(r & ->)|[Hl _]].
    + change (map (tbl_of e) [r]) with [tbl_of e r]. rewrite (tbl_of_table e r (rel_ok_table _ (Hrel r (or_introl eq_refl)))).
      exists [SCol (tref_str (e_cfg e) (rtref r)) c]. split; [|split; [reflexivity|intros sr [<-|[]]; exact I]].
      rewrite (En []). unfold resolve. cbn [fst snd map sbind b_rel rel_col dedup_src existsb]. destruct al; reflexivity.
    + rewrite (multi_not_single _ _ _ _ (multi_of e t from Hrel0 Htc Hl)).
      pose proof (ts_inj_of e t from Hrel0 Htc) as Hinj. destruct Htc as [Hnd Hnt].
      exists [SUnres c (map (fun r => tref_str (e_cfg e) (rtref r)) from)]. split; [|split; [|intros sr [<-|[]]; reflexivity]].
      * rewrite (En []), (resolve_unres (e_cfg e) from c Hl Hnd). cbn [dedup_src existsb]. destruct al; reflexivity.
      * cbn [map show_src src_str].
        assert (Hl2 : 2 <= List.length (cparents (Ucol (map (tbl_of e) from) c))).
        { destruct (Ucol_props (map (tbl_of e) from) c Hinj) as (_ & _ & U3).
          destruct from as [|r1 [|r2 rest]]; cbn [List.length] in Hl; try lia.
          apply (two_members _ (tbl_of e r1) (tbl_of e r2)); [apply U3; left; reflexivity|apply U3; right; left; reflexivity|].
          cbn [forallb] in Hrel0. apply andb_true_iff in Hrel0. destruct Hrel0 as [H1 Hrel0]. apply andb_true_iff in Hrel0. destruct Hrel0 as [H2 _].
          rewrite (tbl_of_table e r1 (rel_ok_table _ H1)), (tbl_of_table e r2 (rel_ok_table _ H2)). intros E.
          apply (f_equal dstr) in E. cbn [tbl dstr] in E. cbn [map] in Hnd. inversion Hnd. apply H3. left. symmetry. exact E. }
        rewrite (col_parent_none _ Hl2), (proj1 (Ucol_props _ c Hinj)).
        rewrite (unres_strs _ c Hinj) by (rewrite (map_dstr_tbl e from Hrel0); exact Hnd).
        rewrite (map_dstr_tbl e from Hrel0). reflexivity.
Qed.

Lemma id_ok_nostar c : id_ok c = true -> String.eqb c "*" = false.
Proof. intros H. destruct (String.eqb c "*") eqn:E; [|reflexivity]. apply String.eqb_eq in E. subst c. discriminate H. Qed.

Lemma nostar_of i : item_ok i = true -> plain_item i = true -> nostar_x (xcol_of i).
Proof.
  intros Hi Hp. destruct (xcol_of_facts i Hi) as (F1 & F2 & _ & _). unfold nostar_x. rewrite F1, F2. cbn [craw].
  destruct i as [[qq c| | | | | |] al|qq]; cbn [plain_item] in Hp; try discriminate. cbn [item_ok] in Hi.
  apply andb_true_iff in Hi. destruct Hi as [Hi Ha]. apply andb_true_iff in Hi. destruct Hi as [Hc _].
  cbn [item_name item_ref]. split.
  - destruct al as [a0|]; apply id_ok_nostar; assumption.
  - intros c0 qq0 [E|[]]. inversion E. subst. apply id_ok_nostar. exact Hc.
Qed.

Lemma xref_ok_nonempty ts x : xref_ok ts x -> S_of ts x <> [].
Proof.
  intros (_ & c & qq & Ex & _ & Hq). unfold S_of. rewrite Ex. destruct qq as [q|].
  - destruct Hq as (v & Hv & Eq & Hu). rewrite (find_dalias ts q v Hv Eq (fun w Hw E => Hu w Hw (or_introl E))). discriminate.
  - destruct ts as [|d1 [|d2 r]]; discriminate.
Qed.

(** what the outer query may select: columns of the derived table, by its alias or unqualified *)
Definition outer_cond (a : string) (items items' : list item) : Prop :=
  forall i, In i items -> plain_item i = true /\ (snd (item_ref i) = None \/ snd (item_ref i) = Some a) /\
                          In (fst (item_ref i)) (map item_name items').

Lemma S_of_outer sq a i :
  item_ok i = true -> dalias sq = a -> (snd (item_ref i) = None \/ snd (item_ref i) = Some a) ->
  S_of [sq] (xcol_of i) = [{| craw := fst (item_ref i); cparents := [sq] |}].
Proof.
  intros Hi Ha Hq. destruct (xcol_of_facts i Hi) as (_ & F2 & _ & _). unfold S_of. rewrite F2.
  destruct (item_ref i) as [c qq]. cbn [fst snd] in *. destruct Hq as [-> | ->]; [reflexivity|].
  cbn [find]. rewrite Ha, String.eqb_refl. reflexivity.
Qed.

Theorem lemma_B_one_derived noise e (s : stmt) t items a items' from' cj cj' :
  noise_ok noise = true -> env_ok e = true ->
  let q' := QSelect items' from' cj' None in
  let q := QSelect items [RDerived q' a] cj None in
  (s = SInsert t None q \/ s = SCtas t q \/ s = SView t q) ->
  tref_ok t = true -> forallb item_ok items = true -> id_ok a = true -> iq_ok q' = true ->
  forallb plain_item items' = true ->
  tables_cond (e_cfg e) t from' -> items_cond from' items' -> noqual_items from' items' ->
  outer_cond a items items' ->
  script_pairs e false [] [r_stmt noise s] = spec_pairs (e_cfg e) s.
Proof.
  intros Hn He q' q Hs Ht Hit Ha Hq' Hpl' Htc Hic Hnq Hout.
  pose proof Hq' as Hq'0. unfold q' in Hq'0. cbn [iq_ok] in Hq'0. apply andb_true_iff in Hq'0. destruct Hq'0 as [Hq'0 Hrel'].
  apply andb_true_iff in Hq'0. destruct Hq'0 as [Hit' Hne'].
  assert (Hrt' : forallb is_rtable from' = true).
  { rewrite forallb_forall in *. intros r Hr. apply rel_ok_table. apply Hrel'. exact Hr. }
  set (d := tbl e t None). set (ts' := map (tbl_of e) from'). set (sq := sqd noise (q_size q) q' a).
  assert (Hal : dalias sq = a) by (unfold sq, sqd, mk_subquery; cbn [dalias]; apply id_ok_escape; exact Ha).
  rewrite forallb_forall in Hit, Hit', Hpl'.
  rewrite (model_pairs_one_derived noise e s t items a items' from' cj cj' Hn He Hs Ht (proj2 (forallb_forall _ _) Hit) Ha Hq'
             (group_ok_of e t from' Hrel' Htc) (ts_inj_of e t from' Hrel' Htc) (names_nodot_of e from' Hrel')).
  2:{ intros x Hx. split; [apply (xref_ok_of e t from' items' Hrel' (proj2 (forallb_forall _ _) Hit') Htc Hic x Hx)|].
      apply in_map_iff in Hx. destruct Hx as (i & <- & Hi). apply nostar_of; auto. }
  2:{ apply noqual_of; [apply forallb_forall; exact Hit'|exact Hnq]. }
  2:{ intros x Hx. apply in_map_iff in Hx. destruct Hx as (i & <- & Hi). destruct (Hout i Hi) as (Hp & Hq & _).
      split; [|apply nostar_of; auto]. destruct (xcol_of_facts i (Hit i Hi)) as (F1 & F2 & F3 & F4).
      split; [rewrite F1; reflexivity|]. exists (fst (item_ref i)), (snd (item_ref i)). split; [rewrite F2; destruct (item_ref i); reflexivity|].
      split; [exact F3|]. fold q' q sq. destruct Hq as [-> | ->]; [left; exists sq; reflexivity|].
      exists sq. split; [left; reflexivity|]. split; [exact Hal|]. intros w [<-|[]] _. reflexivity. }
  2:{ intros x s0 Hx Hs0. apply in_map_iff in Hx. destruct Hx as (i & <- & Hi). destruct (Hout i Hi) as (Hp & Hq & Hin).
      fold q' q sq in Hs0. rewrite (S_of_outer sq a i (Hit i Hi) Hal Hq) in Hs0. destruct Hs0 as [<-|[]]. cbn [craw].
      apply in_map_iff in Hin. destruct Hin as (i' & En & Hi'). exists (xcol_of i'). split; [apply in_map; exact Hi'|].
      destruct (xcol_of_facts i' (Hit' i' Hi')) as (F1 & _). split; [rewrite F1; exact En|].
      apply xref_ok_nonempty. apply (xref_ok_of e t from' items' Hrel' (proj2 (forallb_forall _ _) Hit') Htc Hic). apply in_map. exact Hi'. }
  fold q' q d ts' sq.
  (* the specification *)
  set (ds := e_cfg e). set (tstr := tref_str ds t). set (scope_in := map (sbind ds) from').
  set (cols_in := flat_map (item_cols scope_in) items').
  set (CANDS := map (fun r => tref_str ds (rtref r)) from').
  assert (Hinner : forall i', In i' items' -> exists SR, item_cols scope_in i' = [(item_name i', SR)] /\
                     map show_src SR = map (fun s0 => src_str (NCol s0)) (S_of ts' (xcol_of i')) /\ forall sr, In sr SR -> src_cands CANDS sr).
  { intros i' Hi'. apply (item_corr_src e t from' i' Hrel' (Hit' i' Hi') (Hpl' i' Hi') Htc (Hic i' Hi')). }
  assert (Hcands : forall c sr, In sr (lookup_col c cols_in) -> src_cands CANDS sr).
  { intros c sr Hsr. unfold lookup_col in Hsr. apply in_flat_map in Hsr. destruct Hsr as (cs & Hcs & Hsr).
    unfold cols_in in Hcs. apply in_flat_map in Hcs. destruct Hcs as (i' & Hi' & Hcs). destruct (Hinner i' Hi') as (SR & E1 & _ & E3).
    rewrite E1 in Hcs. destruct Hcs as [<-|[]]. cbn [fst snd] in Hsr. destruct (String.eqb (item_name i') c); [|destruct Hsr]. apply E3. exact Hsr. }
  assert (Eqc : q_cols (S (q_size q)) ds [] q =
                flat_map (fun i => [(item_name i, dedup_src (lookup_col (fst (item_ref i)) cols_in) [])]) items).
  { assert (Ek : exists k0, q_size q = S k0) by (eexists; reflexivity). destruct Ek as (k0 & Ek). rewrite Ek.
    assert (E1 : q_cols (S (S k0)) ds [] q =
                 flat_map (item_cols [{| b_alias := Some a; b_names := []; b_rel := RelCols (q_cols (S k0) ds [] (QSelect items' from' cj' None)) |}]) items) by reflexivity.
    rewrite E1, (q_cols_select k0 ds items' from' cj' None Hrt').
    fold scope_in cols_in. apply flat_map_ext_in'. intros i Hi. destruct (Hout i Hi) as (Hp & Hq & _).
    destruct i as [[qq c| | | | | |] al|qq]; cbn [plain_item] in Hp; try discriminate. cbn [item_ref fst snd item_name] in *.
    cbn [item_cols col_refs flat_map app]. rewrite app_nil_r.
    assert (Er : resolve [{| b_alias := Some a; b_names := []; b_rel := RelCols cols_in |}] (qq, c) = lookup_col c cols_in).
    { unfold resolve. cbn [fst snd]. destruct Hq as [-> | ->]; [reflexivity|]. unfold find_binding. cbn [filter b_alias]. rewrite String.eqb_refl. reflexivity. }
    rewrite Er. destruct al; reflexivity. }
  assert (Esf : map (fun p => (show_src (fst p) ++ ">" ++ snd p)%string) (spec_flows ds s) =
                flat_map (fun i => map (fun sr => (show_src sr ++ ">" ++ tstr ++ "." ++ item_name i)%string)
                                       (dedup_src (lookup_col (fst (item_ref i)) cols_in) [])) items).
  { assert (E : spec_flows ds s = flat_map (fun c : colspec => map (fun sr => (sr, (tstr ++ "." ++ fst c)%string)) (snd c)) (q_cols (S (q_size q)) ds [] q)).
    { destruct Hs as [->|[->| ->]]; unfold spec_flows; fold q; [apply combine_names_flows|reflexivity|reflexivity]. }
    rewrite E, Eqc, flat_map_flat_map, map_flat_map'. apply flat_map_ext. intros i. cbn [flat_map fst snd]. rewrite app_nil_r, map_map. reflexivity. }
  unfold spec_pairs. fold ds. rewrite Esf. apply us_ext. intros z.
  (* both sides: exists i, i', s' *)
  assert (Hdstr : dstr d = tstr) by reflexivity.
  assert (Hmod : In z (map flow_str (compose_flows (flows_of (S_of ts') (own_pairs sq (map xcol_of items'))) (flows_of (S_of [sq]) (own_pairs d (map xcol_of items))))) <->
                 exists i i' s', In i items /\ In i' items' /\ item_name i' = fst (item_ref i) /\ In s' (S_of ts' (xcol_of i')) /\
                                 z = (src_str (NCol s') ++ ">" ++ tstr ++ "." ++ item_name i)%string).
  { assert (Hown : forall (dd : dataset) i0, item_ok i0 = true -> own_col dd (xcol_of i0) = {| craw := item_name i0; cparents := [dd] |}).
    { intros dd i0 Hi0. destruct (xcol_of_facts i0 Hi0) as (F1 & _). rewrite own_col_eq; rewrite F1; reflexivity. }
    assert (Hceq : forall n c, col_eqb {| craw := n; cparents := [sq] |} {| craw := c; cparents := [sq] |} = true <-> n = c).
    { intros n c. unfold col_eqb, col_str, col_parent. cbn [cparents craw dk sq sqd mk_subquery opt_dataset_eqb]. rewrite dataset_eqb_refl, andb_true_r.
      rewrite String.eqb_eq. split; [intros E; apply append_cancel in E; apply append_cancel in E; exact E|intros ->; reflexivity]. }
    split.
    - intros H. apply in_map_iff in H. destruct H as (ff & <- & H). unfold compose_flows in H. apply in_flat_map in H.
      destruct H as (fo & Hfo & H). apply flows_of_In in Hfo. destruct Hfo as (p & s0 & Hp & Hs0 & ->).
      unfold own_pairs in Hp. apply in_map_iff in Hp. destruct Hp as (x & <- & Hx). apply in_map_iff in Hx. destruct Hx as (i & <- & Hi).
      cbn [fst snd] in *. destruct (Hout i Hi) as (_ & Hq & _). rewrite (S_of_outer sq a i (Hit i Hi) Hal Hq) in Hs0. destruct Hs0 as [<-|[]].
      change (is_mid {| craw := fst (item_ref i); cparents := [sq] |}) with true in H. cbn iota in H.
      apply in_map_iff in H. destruct H as (fi & <- & H). apply filter_In in H. destruct H as [Hfi Ec].
      apply flows_of_In in Hfi. destruct Hfi as (p' & s' & Hp' & Hs' & ->). unfold own_pairs in Hp'. apply in_map_iff in Hp'.
      destruct Hp' as (x' & <- & Hx'). apply in_map_iff in Hx'. destruct Hx' as (i' & <- & Hi'). cbn [fst snd] in *.
      rewrite (Hown sq i' (Hit' i' Hi')) in Ec. apply Hceq in Ec.
      exists i, i', s'. repeat (split; [assumption|]). unfold flow_str. cbn [fst snd]. rewrite (Hown d i (Hit i Hi)). reflexivity.
    - intros (i & i' & s' & Hi & Hi' & En & Hs' & ->). apply in_map_iff. exists (s', own_col d (xcol_of i)). split.
      + unfold flow_str. cbn [fst snd]. rewrite (Hown d i (Hit i Hi)). reflexivity.
      + unfold compose_flows. apply in_flat_map. exists ({| craw := fst (item_ref i); cparents := [sq] |}, own_col d (xcol_of i)). split.
        * apply flows_of_In. exists (xcol_of i, own_col d (xcol_of i)), {| craw := fst (item_ref i); cparents := [sq] |}.
          split; [unfold own_pairs; apply in_map_iff; exists (xcol_of i); split; [reflexivity|apply in_map; exact Hi]|]. cbn [fst snd].
          destruct (Hout i Hi) as (_ & Hq & _). rewrite (S_of_outer sq a i (Hit i Hi) Hal Hq). split; [left; reflexivity|reflexivity].
        * cbn [fst snd]. change (is_mid {| craw := fst (item_ref i); cparents := [sq] |}) with true. cbn iota.
          apply in_map_iff. exists (s', own_col sq (xcol_of i')). split; [reflexivity|]. apply filter_In. split.
          -- apply flows_of_In. exists (xcol_of i', own_col sq (xcol_of i')), s'. split; [unfold own_pairs; apply in_map_iff; exists (xcol_of i'); split; [reflexivity|apply in_map; exact Hi']|]. auto.
          -- cbn [snd fst]. rewrite (Hown sq i' (Hit' i' Hi')). apply Hceq. exact En. }
  rewrite Hmod. split.
  - intros (i & i' & s' & Hi & Hi' & En & Hs' & ->). apply in_flat_map. exists i. split; [exact Hi|].
    destruct (Hinner i' Hi') as (SR & E1 & E2 & E3).
    assert (Hz : In (src_str (NCol s')) (map show_src (lookup_col (fst (item_ref i)) cols_in))).
    { assert (Hz0 : In (src_str (NCol s')) (map show_src SR)) by (rewrite E2; apply in_map_iff; exists s'; auto).
      apply in_map_iff in Hz0. destruct Hz0 as (sr & Esr & Hsr). apply in_map_iff. exists sr. split; [exact Esr|].
      unfold lookup_col. apply in_flat_map. exists (item_name i', SR). split.
      - unfold cols_in. apply in_flat_map. exists i'. split; [exact Hi'|]. rewrite E1. left. reflexivity.
      - cbn [fst snd]. rewrite En, String.eqb_refl. exact Hsr. }
    apply (dedup_src_strs CANDS _ _ (Hcands _)) in Hz. apply in_map_iff in Hz. destruct Hz as (sr & Esr & Hsr).
    apply in_map_iff. exists sr. split; [rewrite Esr; reflexivity|exact Hsr].
  - intros H. apply in_flat_map in H. destruct H as (i & Hi & H). apply in_map_iff in H. destruct H as (sr & <- & Hsr).
    assert (Hz : In (show_src sr) (map show_src (lookup_col (fst (item_ref i)) cols_in))).
    { apply (dedup_src_strs CANDS _ _ (Hcands _)). apply in_map. exact Hsr. }
    apply in_map_iff in Hz. destruct Hz as (sr0 & Esr0 & Hsr0). unfold lookup_col in Hsr0. apply in_flat_map in Hsr0.
    destruct Hsr0 as (cs & Hcs & Hsr0). unfold cols_in in Hcs. apply in_flat_map in Hcs. destruct Hcs as (i' & Hi' & Hcs).
    destruct (Hinner i' Hi') as (SR & E1 & E2 & E3). rewrite E1 in Hcs. destruct Hcs as [<-|[]]. cbn [fst snd] in Hsr0.
    destruct (String.eqb (item_name i') (fst (item_ref i))) eqn:En; [|destruct Hsr0]. apply String.eqb_eq in En.
    assert (Hz0 : In (show_src sr0) (map (fun s0 => src_str (NCol s0)) (S_of ts' (xcol_of i')))) by (rewrite <- E2; apply in_map; exact Hsr0).
    apply in_map_iff in Hz0. destruct Hz0 as (s' & Es' & Hs'). exists i, i', s'. repeat (split; [assumption|]). rewrite Es', Esr0. reflexivity.
Qed.
Print Assumptions lemma_B_one_derived.

(* ================================================================== *)
(** * Part Z5c: the executable guard, examples, and the refutation of the unrestricted statement *)
Definition opt_eqb (o : option string) (a : string) : bool := match o with None => true | Some q => String.eqb q a end.
Definition outer_condb (a : string) (items items' : list item) : bool :=
  forallb (fun i => plain_item i && opt_eqb (snd (item_ref i)) a && mem_string (fst (item_ref i)) (map item_name items')) items.

Lemma outer_condb_ok a items items' : outer_condb a items items' = true -> outer_cond a items items'.
Proof.
  intros H i Hi. unfold outer_condb in H. rewrite forallb_forall in H. specialize (H i Hi).
  apply andb_true_iff in H. destruct H as [H H3]. apply andb_true_iff in H. destruct H as [H1 H2].
  split; [exact H1|]. split; [|apply mem_string_In; exact H3].
  destruct (snd (item_ref i)) as [q0|]; [|left; reflexivity]. right. cbn [opt_eqb] in H2. apply String.eqb_eq in H2. subst. reflexivity.
Qed.

(** INSERT (no column list) / CTAS / VIEW over SELECT plain columns FROM (SELECT plain columns FROM distinct base tables) a *)
Definition one_derived_shape (s : stmt) : bool :=
  match s with
  | SInsert t None (QSelect items [RDerived (QSelect items' from' cj' None) a] _ None)
  | SCtas t (QSelect items [RDerived (QSelect items' from' cj' None) a] _ None)
  | SView t (QSelect items [RDerived (QSelect items' from' cj' None) a] _ None) =>
      tref_ok t && forallb item_ok items && id_ok a && iq_ok (QSelect items' from' cj' None) && forallb plain_item items'
      && tables_condb t from' && items_condb from' items' && noqual_itemsb from' items' && outer_condb a items items'
  | _ => false
  end.

Theorem lemma_B_one_derived_restricted : forall noise e s,
  noise_ok noise = true -> env_ok e = true -> one_derived_shape s = true ->
  script_pairs e false [] [r_stmt noise s] = spec_pairs (e_cfg e) s.
Proof.
  intros noise e s Hn He Hsh.
  assert (K : exists t items a items' from' cj cj',
            (s = SInsert t None (QSelect items [RDerived (QSelect items' from' cj' None) a] cj None) \/
             s = SCtas t (QSelect items [RDerived (QSelect items' from' cj' None) a] cj None) \/
             s = SView t (QSelect items [RDerived (QSelect items' from' cj' None) a] cj None)) /\
            tref_ok t && forallb item_ok items && id_ok a && iq_ok (QSelect items' from' cj' None) && forallb plain_item items'
            && tables_condb t from' && items_condb from' items' && noqual_itemsb from' items' && outer_condb a items items' = true).
  { destruct s as [t [cs|] q|t q|t q|q|kind]; cbn [one_derived_shape] in Hsh; try discriminate;
      destruct q as [items [|[|q' a|] [|]] cj [wh|]| |]; try discriminate;
      destruct q' as [items' from' cj' [wh'|]| |]; try discriminate;
      exists t, items, a, items', from', cj, cj'; (split; [auto|exact Hsh]). }
  destruct K as (t & items & a & items' & from' & cj & cj' & Hs & H).
  do 8 (apply andb_true_iff in H; let H' := fresh "G" in destruct H as [H H']).
  pose proof G4 as Hq'. cbn [iq_ok] in G4. apply andb_true_iff in G4. destruct G4 as [_ Hrel'].
  apply (lemma_B_one_derived noise e s t items a items' from' cj cj' Hn He Hs); auto.
  - apply tables_condb_ok; assumption.
  - apply items_condb_ok. assumption.
  - apply noqual_itemsb_ok. assumption.
  - apply outer_condb_ok. assumption.
Qed.
Print Assumptions lemma_B_one_derived_restricted.

(** ** non-vacuity: instances inside the guard (and inside [colshape]: [lemma_B_check] = "holds") *)
Definition ws5c : seg := Seg "whitespace" "whitespace" ["whitespace"; "raw"] " " true false false [].
Definition cm5c : seg := Seg "comment" "comment" ["comment"; "raw"] "/*x*/" false true false [].
Definition e5c : env := mk_env "ansi" "main" "main" {| p_truthy := false; p_cols := [] |} [].
(** insert into tgt select a, d.b as bb from (select a, t.b, c from t) as d        (the inner column c is a dead end) *)
Definition ex5c_1 : stmt :=
  SInsert (None, "tgt") None (sel1 [ci None "a"; cia (Some "d") "b" "bb"] [RDerived (sel1 [ci None "a"; ci (Some "t") "b"; ci None "c"] [tb "t"]) "d"]).
(** create view tgt as select d.x, d.y as w from (select a as x, u.k as y, a as z from s.t as p join u on ..) as d
    (the inner a is unresolved over two tables: a{main.u,s.t} > main.tgt.x) *)
Definition ex5c_2 : stmt :=
  SView (None, "tgt") (sel1 [ci (Some "d") "x"; cia (Some "d") "y" "w"]
                            [RDerived (sel1 [cia None "a" "x"; cia (Some "u") "k" "y"] [tbs "s" "t" (Some "p"); tb "u"]) "d"]).
(** create table tgt as select x, x as x2 from (select a as x, b as x from t) as d   (two inner items of the same name) *)
Definition ex5c_3 : stmt :=
  SCtas (None, "tgt") (sel1 [ci None "x"; cia None "x" "x2"] [RDerived (QSelect [cia None "a" "x"; cia None "b" "x"] [tb "t"] true None) "d"]).

Example ex5c_guard : forallb one_derived_shape [ex5c_1; ex5c_2; ex5c_3] = true.
Proof. vm_compute. reflexivity. Qed.
Example ex5c_inside_lemma_B : map (lemma_B_check [ws5c; cm5c] e5c) [ex5c_1; ex5c_2; ex5c_3] = ["holds"; "holds"; "holds"].
Proof. vm_compute. reflexivity. Qed.
Example ex5c_pairs :
  script_pairs e5c false [] [r_stmt [ws5c] ex5c_2] = ["a{main.u,s.t}>main.tgt.x"; "main.u.k>main.tgt.w"] /\
  script_pairs e5c false [] [r_stmt [] ex5c_1] = ["main.t.a>main.tgt.a"; "main.t.b>main.tgt.bb"] /\
  script_pairs e5c false [] [r_stmt [] ex5c_3] = ["main.t.a>main.tgt.x"; "main.t.a>main.tgt.x2"; "main.t.b>main.tgt.x"; "main.t.b>main.tgt.x2"].
Proof. vm_compute. repeat split. Qed.
Example ex5c_instance : script_pairs e5c false [] [r_stmt [ws5c; cm5c] ex5c_2] = spec_pairs (e_cfg e5c) ex5c_2.
Proof. apply lemma_B_one_derived_restricted; vm_compute; reflexivity. Qed.

(** ** REFUTATION of [lemma_B_statement] (Tree/LemmaB.v) with TWO derived tables: the raw texts of two DIFFERENT sub-queries
    may coincide when the trivia list is empty (the rendering has no white space then):
      insert into tgt select d.b, f.aasb from (select a as b from t) as d, (select aasb from t) as f
    both brackets have the raw text "(selectaasbfromt)".  SubQuery nodes are compared by their raw text, so the two
    sub-queries are one node of the holder: the model reports  d.aasb > tgt.aasb  (a column of the first sub-query
    that nothing feeds), the specification  t.aasb > tgt.aasb.  With one white space as trivia the statement holds.
    All guards of [lemma_B_statement], [colshape] included, hold. *)
Definition cxB5c_rawclash : stmt :=
  SInsert (None, "tgt") None
    (QSelect [ci (Some "d") "b"; ci (Some "f") "aasb"]
             [RDerived (sel1 [cia None "a" "b"] [tb "t"]) "d"; RDerived (sel1 [ci None "aasb"] [tb "t"]) "f"] true None).

Lemma cxB5c_rawclash_guards :
  noise_ok [] && env_ok e_cxB && stmt_ok cxB5c_rawclash && sshape cxB5c_rawclash && colshape cxB5c_rawclash = true.
Proof. vm_compute. reflexivity. Qed.
Lemma cxB5c_rawclash_fails :
  lemma_B_check [] e_cxB cxB5c_rawclash = "FAILS" /\
  script_pairs e_cxB false [] [r_stmt [] cxB5c_rawclash] = ["<default>.t.a><default>.tgt.b"; "d.aasb><default>.tgt.aasb"] /\
  spec_pairs (e_cfg e_cxB) cxB5c_rawclash = ["<default>.t.a><default>.tgt.b"; "<default>.t.aasb><default>.tgt.aasb"].
Proof. vm_compute. repeat split. Qed.
Lemma cxB5c_rawclash_holds_with_space : lemma_B_check [ws5c] e_cxB cxB5c_rawclash = "holds".
Proof. vm_compute. reflexivity. Qed.

Theorem lemma_B_statement_refuted_5c : ~ lemma_B_statement.
Proof.
  intros H. specialize (H [] e_cxB cxB5c_rawclash).
  assert (E : script_pairs e_cxB false [] [r_stmt [] cxB5c_rawclash] = spec_pairs (e_cfg e_cxB) cxB5c_rawclash) by (apply H; vm_compute; reflexivity).
  vm_compute in E. discriminate E.
Qed.
Print Assumptions lemma_B_statement_refuted_5c.

(** the weakest executable repair found: the raw texts of the brackets of the derived tables of one FROM clause are
    pairwise different (slightly stronger than needed: the same sub-query twice is harmless) *)
Definition from_sq_texts (noise : list seg) (k : nat) (from : list rel) : list string :=
  flat_map (fun r => match r with RDerived q' _ => [raw (r_brq noise k q')] | _ => [] end) from.
Definition sq_raw_distinct (noise : list seg) (s : stmt) : bool :=
  match stmt_query s with
  | Some (QSelect _ from _ _ as q) => nodup_s (from_sq_texts noise (q_size q) from)
  | _ => true
  end.
Lemma cxB5c_rawclash_excluded : sq_raw_distinct [] cxB5c_rawclash = false /\ sq_raw_distinct [ws5c] cxB5c_rawclash = true.
Proof. vm_compute. split; reflexivity. Qed.

(** ** the target of step 5c, as a statement (NOT proved here beyond [lemma_B_one_derived]): any number of relations in FROM,
    each a base table or a derived table over distinct base tables *)
Definition sel_derived_syntactic (s : stmt) : bool :=
  match s with
  | SInsert _ _ (QSelect _ from _ None) | SCtas _ (QSelect _ from _ None) | SView _ (QSelect _ from _ None) =>
      forallb (fun r => match r with
                        | RTable _ _ => true
                        | RDerived (QSelect _ from' _ None) _ => forallb is_rtable from'
                        | _ => false end) from
  | _ => false
  end.
Definition lemma_B_derived_statement : Prop :=
  forall noise e s,
    noise_ok noise = true -> env_ok e = true -> stmt_ok s = true -> sshape s = true -> colshape s = true ->
    sel_derived_syntactic s = true -> sq_raw_distinct noise s = true ->
    script_pairs e false [] [r_stmt noise s] = spec_pairs (e_cfg e) s.
(** without [sq_raw_distinct] it is false *)
Theorem lemma_B_derived_unrepaired_refuted :
  ~ (forall noise e s, noise_ok noise = true -> env_ok e = true -> stmt_ok s = true -> sshape s = true -> colshape s = true ->
       sel_derived_syntactic s = true -> script_pairs e false [] [r_stmt noise s] = spec_pairs (e_cfg e) s).
Proof.
  intros H. specialize (H [] e_cxB cxB5c_rawclash).
  assert (E : script_pairs e_cxB false [] [r_stmt [] cxB5c_rawclash] = spec_pairs (e_cfg e_cxB) cxB5c_rawclash) by (apply H; vm_compute; reflexivity).
  vm_compute in E. discriminate E.
Qed.

(** SUMMARY (step 5c: derived tables)
    - Tree/LemmaB5cPaths.v: Part P of LemmaBProofs.v generalised from a bipartite set of flows to ANY acyclic (ranked) set:
      [lineage_of_ranked] (reported pairs = chains of flows from a root to a table-owned leaf; dead ends in sub-query
      columns yield nothing), [script_pairs_of_ranked_holder], and the two-layer instance [compose_flows_e2e] /
      [script_pairs_two_layer] (inner flows into sub-query columns composed with outer flows, [compose_flows]).
    - This file: Part A2 ([select_core2]: the cleanup of a SELECT whose group has tables AND sub-queries, on a holder that
      already contains the sub-query holders), Part N5c (exact navigation for FROM lists with derived tables over base
      tables, any number of them, when no inner JOIN clause leaks into the outer FROM: [select_derived_extract],
      [sub_extract]), Part G5c (composition of a sub-query holder), Part D5c/M5c (ONE derived table: [holders_one_derived],
      [realises_one_derived], [model_pairs_one_derived]), Part S5c (specification side), and
        [lemma_B_one_derived] / [lemma_B_one_derived_restricted]:
          INSERT (no column list) / CTAS / VIEW  t  over  SELECT plain column items FROM (SELECT plain column items FROM
          distinct base tables, joined any way) a :  script_pairs = spec_pairs, for every trivia list.
        Inner items may be qualified / unqualified (unresolved over several tables) / aliased; outer items refer to the
        derived columns by the alias or unqualified; dead ends, duplicate inner names and duplicate references are covered.
    - REFUTED: [lemma_B_statement] ([lemma_B_statement_refuted_5c], counterexample [cxB5c_rawclash], inside [colshape]):
      with empty trivia two different sub-queries can have the same raw text and are then one node.
      Repair: [sq_raw_distinct]; the general target is stated as [lemma_B_derived_statement] (open).
    - OPEN: several relations in FROM (derived + base, two derived), INSERT column list with a derived table, nesting,
      and the derivation of the semantic conditions from [colshape] for this fragment. *)
