(** The navigation layer of the extractors (sqlfluff/utils.py) does not see layout:
    erasing whitespace, comment and meta segments commutes with every combinator (C07). *)
From SV Require Import Tree.Utils.

Definition is_trivia (s : seg) : bool := is_ws s || is_cm s || is_mt s.

Fixpoint strip (s : seg) : seg :=
  match s with
  | Seg t g c r w cm mt ch => Seg t g c r w cm mt (flat_map (fun x => if is_trivia x then [] else [strip x]) ch)
  end.

(** what is assumed of parser output (monitored on every tree by the harness):
    trivia and symbols are leaves; [ts] never names a type a trivia segment has *)
Fixpoint wf (s : seg) : Prop :=
  match s with
  | Seg t _ _ _ w cm mt ch =>
      ((w || cm || mt = true \/ t = "symbol") -> ch = []) /\
      (fix all (l : list seg) : Prop := match l with [] => True | x :: r => wf x /\ all r end) ch
  end.

Definition not_trivia_types (ts : list string) : Prop :=
  forall s, is_trivia s = true -> is_type s ts = false.

(* ------------------------------------------------------------------ *)
(** * Auxiliary lemmas *)

Lemma seg_ind' (P : seg -> Prop) :
  (forall t g c r w cm mt ch, Forall P ch -> P (Seg t g c r w cm mt ch)) -> forall s, P s.
Proof.
  intros H.
  exact (fix IH (s : seg) : P s :=
           match s with
           | Seg t g c r w cm mt ch =>
               H t g c r w cm mt ch
                 ((fix all (l : list seg) : Forall P l :=
                     match l with
                     | [] => Forall_nil _
                     | x :: r0 => Forall_cons _ (IH x) (all r0)
                     end) ch)
           end).
Qed.

(** what [strip] does to one child *)
Definition keep (x : seg) : list seg := if is_trivia x then [] else [strip x].

Lemma strip_eq t g c r w cm mt ch :
  strip (Seg t g c r w cm mt ch) = Seg t g c r w cm mt (flat_map keep ch).
Proof. reflexivity. Qed.

Lemma children_strip s : children (strip s) = flat_map keep (children s).
Proof. destruct s; reflexivity. Qed.
Lemma ty_strip s : ty (strip s) = ty s.
Proof. destruct s; reflexivity. Qed.
Lemma cls_strip s : cls (strip s) = cls s.
Proof. destruct s; reflexivity. Qed.
Lemma is_ws_strip s : is_ws (strip s) = is_ws s.
Proof. destruct s; reflexivity. Qed.
Lemma is_cm_strip s : is_cm (strip s) = is_cm s.
Proof. destruct s; reflexivity. Qed.
Lemma is_mt_strip s : is_mt (strip s) = is_mt s.
Proof. destruct s; reflexivity. Qed.
Lemma is_trivia_strip s : is_trivia (strip s) = is_trivia s.
Proof. destruct s; reflexivity. Qed.
Lemma tyis_strip s t : tyis (strip s) t = tyis s t.
Proof. destruct s; reflexivity. Qed.
Lemma ty_in_strip s ts : ty_in (strip s) ts = ty_in s ts.
Proof. destruct s; reflexivity. Qed.

Lemma map_flat_map {A B C} (h : B -> C) (f : A -> list B) l :
  map h (flat_map f l) = flat_map (fun x => map h (f x)) l.
Proof.
  induction l as [|a l IH]; simpl; [reflexivity|].
  rewrite map_app, IH. reflexivity.
Qed.

Lemma filter_flat_map {A B} (p : B -> bool) (f : A -> list B) l :
  filter p (flat_map f l) = flat_map (fun x => filter p (f x)) l.
Proof.
  induction l as [|a l IH]; simpl; [reflexivity|].
  rewrite filter_app, IH. reflexivity.
Qed.

Lemma flat_map_keep (f g : seg -> list seg) l :
  (forall x, In x l -> is_trivia x = true -> g x = []) ->
  (forall x, In x l -> is_trivia x = false -> f (strip x) = g x) ->
  flat_map f (flat_map keep l) = flat_map g l.
Proof.
  induction l as [|a l IH]; intros Ht Hn; simpl; [reflexivity|].
  unfold keep at 1. destruct (is_trivia a) eqn:E; simpl.
  - rewrite (Ht a (or_introl eq_refl) E). simpl.
    apply IH; intros x Hx; [apply Ht|apply Hn]; right; exact Hx.
  - rewrite (Hn a (or_introl eq_refl) E). f_equal.
    apply IH; intros x Hx; [apply Ht|apply Hn]; right; exact Hx.
Qed.

Lemma filter_keep (p p' : seg -> bool) l :
  (forall x, In x l -> is_trivia x = false -> p (strip x) = p' x) ->
  (forall x, In x l -> is_trivia x = true -> p' x = false) ->
  filter p (flat_map keep l) = map strip (filter p' l).
Proof.
  induction l as [|a l IH]; intros Hn Ht; simpl; [reflexivity|].
  unfold keep at 1. destruct (is_trivia a) eqn:E; simpl.
  - rewrite (Ht a (or_introl eq_refl) E).
    apply IH; intros x Hx; [apply Hn|apply Ht]; right; exact Hx.
  - rewrite (Hn a (or_introl eq_refl) E).
    destruct (p' a); simpl; [f_equal|];
      (apply IH; intros x Hx; [apply Hn|apply Ht]; right; exact Hx).
Qed.

Lemma existsb_keep (p p' : seg -> bool) l :
  (forall x, In x l -> is_trivia x = false -> p (strip x) = p' x) ->
  (forall x, In x l -> is_trivia x = true -> p' x = false) ->
  existsb p (flat_map keep l) = existsb p' l.
Proof.
  induction l as [|a l IH]; intros Hn Ht; simpl; [reflexivity|].
  unfold keep at 1. destruct (is_trivia a) eqn:E; simpl.
  - rewrite (Ht a (or_introl eq_refl) E). simpl.
    apply IH; intros x Hx; [apply Hn|apply Ht]; right; exact Hx.
  - rewrite (Hn a (or_introl eq_refl) E). f_equal.
    apply IH; intros x Hx; [apply Hn|apply Ht]; right; exact Hx.
Qed.

(** ** consequences of [wf] *)

Lemma wf_unfold t g c r w cm mt ch :
  wf (Seg t g c r w cm mt ch) ->
  ((w || cm || mt = true \/ t = "symbol") -> ch = []) /\ Forall wf ch.
Proof.
  simpl. intros [H1 H2]. split; [exact H1|]. clear H1.
  induction ch as [|x l IH]; constructor.
  - exact (proj1 H2).
  - apply IH. exact (proj2 H2).
Qed.

Lemma wf_children s : wf s -> Forall wf (children s).
Proof. destruct s as [t g c r w cm mt ch]. intros W. exact (proj2 (wf_unfold _ _ _ _ _ _ _ _ W)). Qed.

Lemma wf_trivia_leaf s : wf s -> is_trivia s = true -> children s = [].
Proof.
  destruct s as [t g c r w cm mt ch]. intros W E.
  apply (proj1 (wf_unfold _ _ _ _ _ _ _ _ W)). left. exact E.
Qed.

Lemma wf_symbol_leaf s : wf s -> tyis s "symbol" = true -> children s = [].
Proof.
  destruct s as [t g c r w cm mt ch]. intros W E.
  apply (proj1 (wf_unfold _ _ _ _ _ _ _ _ W)). right.
  apply String.eqb_eq. exact E.
Qed.

(** [sub x s]: [x] is [s] or a descendant of [s] *)
Inductive sub : seg -> seg -> Prop :=
| sub_refl s : sub s s
| sub_child x c s : In c (children s) -> sub x c -> sub x s.

Lemma wf_sub x s : sub x s -> wf s -> wf x.
Proof.
  intros H. induction H as [s|x c s Hin Hsub IH]; intros W; [exact W|].
  apply IH. apply wf_children in W. rewrite Forall_forall in W. apply W. exact Hin.
Qed.

Lemma trivia_negligible x : is_trivia x = true -> is_negligible x = true.
Proof. unfold is_trivia, is_negligible. intros E. rewrite E. reflexivity. Qed.

(** ** The global hypothesis [not_trivia_types ts] quantifies over ALL segments, including
    a trivia segment whose class list is [ts] itself: it only holds for [ts = []]. *)
Lemma not_trivia_types_nil ts : not_trivia_types ts -> ts = [].
Proof.
  destruct ts as [|k r]; intros H; [reflexivity|].
  specialize (H (Seg "" "" [k] "" true false false []) eq_refl).
  unfold is_type in H. cbn in H. rewrite String.eqb_refl in H. discriminate H.
Qed.

(** the local version: only the trivia segments that occur in the tree [s] *)
Definition not_trivia_types_in (s : seg) (ts : list string) : Prop :=
  forall x, sub x s -> is_trivia x = true -> is_type x ts = false.

Lemma not_trivia_types_global s ts : not_trivia_types ts -> not_trivia_types_in s ts.
Proof. intros H x _ E. apply H. exact E. Qed.

Lemma not_trivia_types_in_child s c ts :
  In c (children s) -> not_trivia_types_in s ts -> not_trivia_types_in c ts.
Proof. intros Hin H x Hx E. apply H; [|exact E]. exact (sub_child _ _ _ Hin Hx). Qed.

(* ------------------------------------------------------------------ *)
(** * The theorems *)

Theorem strip_leaf : forall s, children s = [] -> strip s = s.
Proof.
  intros s H. destruct s as [t g c r w cm mt ch]. simpl in H. subst ch. reflexivity.
Qed.

Theorem is_negligible_strip : forall s, wf s -> is_negligible (strip s) = is_negligible s.
Proof.
  intros s W. unfold is_negligible.
  rewrite is_ws_strip, is_cm_strip, is_mt_strip, tyis_strip.
  destruct (tyis s "symbol") eqn:E.
  - rewrite (strip_leaf s (wf_symbol_leaf s W E)). reflexivity.
  - reflexivity.
Qed.

Theorem is_type_strip : forall s ts, is_type (strip s) ts = is_type s ts.
Proof. intros s ts. destruct s; reflexivity. Qed.

(** local form: only the children of [s] matter *)
Lemma get_children_strip_in : forall s ts,
  (forall c, In c (children s) -> is_trivia c = true -> is_type c ts = false) ->
  get_children (strip s) ts = map strip (get_children s ts).
Proof.
  intros s ts H. unfold get_children. rewrite children_strip.
  apply filter_keep.
  - intros x _ _. apply is_type_strip.
  - exact H.
Qed.

Lemma get_child_strip_in : forall s ts,
  (forall c, In c (children s) -> is_trivia c = true -> is_type c ts = false) ->
  get_child (strip s) ts = option_map strip (get_child s ts).
Proof.
  intros s ts H. unfold get_child. rewrite (get_children_strip_in s ts H).
  destruct (get_children s ts); reflexivity.
Qed.

Lemma crawl_eq ts b s :
  crawl ts b s =
  (if is_type s ts then [s] else []) ++
  (if b || negb (is_type s ts) then flat_map (crawl ts b) (children s) else []).
Proof. destruct s; reflexivity. Qed.

Lemma is_type_nil s : is_type s [] = false.
Proof. unfold is_type. induction (cls s) as [|c l IH]; simpl; [reflexivity|exact IH]. Qed.

Lemma crawl_nil b s : crawl [] b s = [].
Proof.
  induction s as [t g c r w cm mt ch IH] using seg_ind'.
  rewrite crawl_eq, is_type_nil. simpl. rewrite orb_true_r.
  induction IH as [|x l Hx _ IHl]; simpl; [reflexivity|].
  rewrite Hx, IHl. reflexivity.
Qed.

(** the meaningful version: trivia are leaves ([wf]) and no trivia segment of the tree
    matches [ts].  Without [wf] it fails (a trivia node with a matching child). *)
Theorem crawl_strip_wf : forall ts b s,
  wf s -> not_trivia_types_in s ts -> crawl ts b (strip s) = map strip (crawl ts b s).
Proof.
  intros ts b s. induction s as [t g c r w cm mt ch IH] using seg_ind'. intros W N.
  rewrite (crawl_eq ts b (strip _)), (crawl_eq ts b (Seg t g c r w cm mt ch)).
  rewrite is_type_strip, children_strip, map_app. f_equal.
  - destruct (is_type (Seg t g c r w cm mt ch) ts); reflexivity.
  - destruct (b || negb (is_type (Seg t g c r w cm mt ch) ts)); [|reflexivity].
    rewrite map_flat_map. cbn [children].
    pose proof (wf_children _ W) as Wc. cbn [children] in Wc.
    rewrite Forall_forall in IH, Wc.
    apply flat_map_keep.
    + intros x Hx E.
      assert (Nx : is_type x ts = false).
      { apply N; [|exact E]. apply (sub_child x x); [exact Hx|apply sub_refl]. }
      rewrite crawl_eq, Nx, (wf_trivia_leaf x (Wc x Hx) E). simpl.
      destruct (b || true); reflexivity.
    + intros x Hx _. apply (IH x Hx (Wc x Hx)).
      apply (not_trivia_types_in_child (Seg t g c r w cm mt ch)); [exact Hx|exact N].
Qed.

(** As stated (no [wf]) the theorem holds only because [not_trivia_types ts] forces [ts = []]
    ([not_trivia_types_nil]); see [crawl_strip_wf] for the version with content. *)
Lemma is_set_expression_strip_counterexample :
  exists s, wf s /\ is_set_expression (strip s) <> is_set_expression s.
Proof.
  exists (Seg "x" "x" [] "" false false false
            [Seg "set_expression" "set_expression" [] "" true false false []]).
  split.
  - simpl. repeat split; intros [H|H]; try reflexivity; discriminate H.
  - vm_compute. discriminate.
Qed.

Theorem is_set_expression_strip_wf : forall s,
  (forall c, In c (children s) -> is_trivia c = true -> tyis c "set_expression" = false) ->
  is_set_expression (strip s) = is_set_expression s.
Proof.
  intros s H. unfold is_set_expression. rewrite tyis_strip, children_strip. f_equal.
  apply existsb_keep.
  - intros x _ _. apply tyis_strip.
  - exact H.
Qed.

Lemma iter_eq ts s :
  iter_expanding ts s =
  flat_map (fun c => if is_type c ts then iter_expanding ts c else [c]) (children s).
Proof. destruct s; reflexivity. Qed.

Lemma iter_expanding_sub ts s x : In x (iter_expanding ts s) -> sub x s.
Proof.
  revert x. induction s as [t g c r w cm mt ch IH] using seg_ind'. intros x Hx.
  rewrite iter_eq in Hx. cbn [children] in Hx.
  apply in_flat_map in Hx. destruct Hx as [y [Hy Hin]].
  rewrite Forall_forall in IH.
  destruct (is_type y ts).
  - apply (sub_child x y); [exact Hy|]. apply (IH y Hy). exact Hin.
  - destruct Hin as [Heq|[]]. subst y. apply (sub_child x x); [exact Hy|apply sub_refl].
Qed.

Definition non_trivia (x : seg) : bool := negb (is_trivia x).

Lemma iter_expanding_strip : forall ts s,
  not_trivia_types_in s ts ->
  iter_expanding ts (strip s) = map strip (filter non_trivia (iter_expanding ts s)).
Proof.
  intros ts s. induction s as [t g c r w cm mt ch IH] using seg_ind'. intros N.
  rewrite (iter_eq ts (strip _)), (iter_eq ts (Seg t g c r w cm mt ch)).
  rewrite children_strip, filter_flat_map, map_flat_map. cbn [children].
  rewrite Forall_forall in IH.
  apply flat_map_keep.
  - intros x Hx E.
    assert (Nx : is_type x ts = false).
    { apply N; [|exact E]. apply (sub_child x x); [exact Hx|apply sub_refl]. }
    rewrite Nx. simpl. unfold non_trivia. rewrite E. reflexivity.
  - intros x Hx E. rewrite is_type_strip. destruct (is_type x ts).
    + apply (IH x Hx).
      apply (not_trivia_types_in_child (Seg t g c r w cm mt ch)); [exact Hx|exact N].
    + simpl. unfold non_trivia. rewrite E. reflexivity.
Qed.

Definition non_negligible (c : seg) : bool := negb (is_negligible c).

Lemma filter_non_negligible_strip s :
  wf s ->
  filter non_negligible (children (strip s)) = map strip (filter non_negligible (children s)).
Proof.
  intros W. rewrite children_strip. apply filter_keep.
  - intros x Hx _. unfold non_negligible. f_equal. apply is_negligible_strip.
    apply wf_children in W. rewrite Forall_forall in W. apply W. exact Hx.
  - intros x _ E. unfold non_negligible. rewrite (trivia_negligible x E). reflexivity.
Qed.

(** what [list_child_segments] needs of the trivia segments of the tree *)
Definition trivia_types_ok (s : seg) : Prop :=
  forall x, sub x s -> is_trivia x = true ->
    is_type x ["expression"] = false /\
    ty_in x ["set_expression"; "column_reference"; "column_definition"] = false.

Lemma ty_in_cons_false x a l : ty_in x (a :: l) = false -> tyis x a = false /\ ty_in x l = false.
Proof. unfold ty_in, tyis. simpl. intros H. apply orb_false_elim in H. exact H. Qed.

(** the version with content: the trivia segments occurring in [s] are leaves and have none
    of the types the function dispatches on *)
Theorem list_child_segments_strip_wf : forall s b,
  wf s -> trivia_types_ok s ->
  list_child_segments (strip s) b = map strip (list_child_segments s b).
Proof.
  intros s b W T. unfold list_child_segments. rewrite tyis_strip.
  fold non_negligible.
  destruct (tyis s "bracketed" && b).
  - assert (Hset : forall c, In c (children s) -> is_trivia c = true ->
                             tyis c "set_expression" = false).
    { intros c Hc E. destruct (T c (sub_child c c s Hc (sub_refl c)) E) as [_ H2].
      apply ty_in_cons_false in H2. exact (proj1 H2). }
    rewrite (is_set_expression_strip_wf s Hset).
    destruct (is_set_expression s).
    + rewrite children_strip. apply filter_keep.
      * intros x _ _. apply tyis_strip.
      * exact Hset.
    + rewrite iter_expanding_strip by (intros x Hx E; exact (proj1 (T x Hx E))).
      pose proof (iter_expanding_sub ["expression"] s) as Hsub.
      induction (iter_expanding ["expression"] s) as [|a l IHl]; [reflexivity|].
      assert (Ha : sub a s) by (apply Hsub; left; reflexivity).
      assert (IHl' := IHl (fun x Hx => Hsub x (or_intror Hx))). clear IHl.
      cbn [filter flat_map]. unfold non_trivia at 1.
      destruct (is_trivia a) eqn:E; cbn [negb map flat_map].
      * destruct (T a Ha E) as [_ H2].
        apply ty_in_cons_false in H2. destruct H2 as [_ H2].
        rewrite H2, (wf_trivia_leaf a (wf_sub a s Ha W) E). exact IHl'.
      * rewrite map_app, IHl'. f_equal.
        rewrite ty_in_strip.
        destruct (ty_in a ["column_reference"; "column_definition"]); [reflexivity|].
        apply filter_non_negligible_strip. exact (wf_sub a s Ha W).
  - apply filter_non_negligible_strip. exact W.
Qed.

(** As stated the second hypothesis quantifies over ALL segments and is unsatisfiable (take a
    whitespace segment of class "expression"), so the statement is vacuously true;
    [list_child_segments_strip_wf] is the version with content. *)
Theorem strip_idem : forall s, strip (strip s) = strip s.
Proof.
  intros s. induction s as [t g c r w cm mt ch IH] using seg_ind'.
  rewrite !strip_eq. f_equal. rewrite Forall_forall in IH.
  apply flat_map_keep.
  - intros x _ E. unfold keep. rewrite E. reflexivity.
  - intros x Hx E. unfold keep. rewrite is_trivia_strip, E, (IH x Hx). reflexivity.
Qed.
