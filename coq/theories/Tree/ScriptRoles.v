(** C03 end to end on the tree model, at table level: the script summary roles (source / target / intermediate
    tables) follow from the per-statement reads and writes of the specification. *)
From Coq Require Import Permutation.
From SV Require Import Tree.Render Tree.LemmaA Tree.LemmaAProofs Tree.LemmaB Tree.LemmaBProofs Ident.Escape Ident.EscapeProofs
     Holder.PathProofs Holder.SortProofs Tree.ProviderProofs Tree.ScriptExact Tree.ScriptWellFormed Tree.ScriptExactExt Tree.HolderInv.
From SV Require Holder.RefineDefs Holder.RefineGraph Holder.Refinement Holder.CompDefs Holder.Composition Holder.TableLevel Holder.TableProofs.

(* ================================================================== *)
(** * Part 1: the executable specification *)
Definition script_intermediates e silent base stmts : list string :=
  match script_graph e silent base stmts with Ok g => sort_strings (map node_str (intermediate_tables g)) | Err _ => [] end.

(** per statement: the tables read, the tables written *)
Definition rw := (list string * list string)%type.
Definition stmt_rw (ds : string) (s : Spec.stmt) : rw := (spec_reads ds s, spec_writes ds s).
Definition nilb {A} (l : list A) : bool := match l with [] => true | _ => false end.
(** some statement reads [r] and writes [w] *)
Definition edgeb (rws : list rw) (r w : string) : bool := existsb (fun p : rw => mem_string r (fst p) && mem_string w (snd p)) rws.
(** some statement that writes nothing reads [t] (a plain SELECT); some statement that reads nothing writes [t] *)
Definition sob (rws : list rw) (t : string) : bool := existsb (fun p : rw => mem_string t (fst p) && nilb (snd p)) rws.
Definition tob (rws : list rw) (t : string) : bool := existsb (fun p : rw => mem_string t (snd p) && nilb (fst p)) rws.
Definition universe (rws : list rw) : list string := dedup_s (flat_map (fun p : rw => fst p ++ snd p) rws) [].
Definition src_role (rws : list rw) (t : string) : bool :=
  let U := universe rws in
  (existsb (edgeb rws t) U && negb (existsb (fun r => edgeb rws r t) U)) || edgeb rws t t || sob rws t.
Definition tgt_role (rws : list rw) (t : string) : bool :=
  let U := universe rws in
  (existsb (fun r => edgeb rws r t) U && negb (existsb (edgeb rws t) U)) || edgeb rws t t || tob rws t.
Definition mid_role (rws : list rw) (t : string) : bool :=
  let U := universe rws in
  existsb (fun r => edgeb rws r t) U && existsb (edgeb rws t) U && negb (edgeb rws t t).

Definition spec_sources (ds : string) (ss : list Spec.stmt) : list string :=
  let rws := map (stmt_rw ds) ss in sort_strings (filter (src_role rws) (universe rws)).
Definition spec_targets (ds : string) (ss : list Spec.stmt) : list string :=
  let rws := map (stmt_rw ds) ss in sort_strings (filter (tgt_role rws) (universe rws)).
Definition spec_intermediates (ds : string) (ss : list Spec.stmt) : list string :=
  let rws := map (stmt_rw ds) ss in sort_strings (filter (mid_role rws) (universe rws)).

Definition lemA_ok (s : Spec.stmt) : bool := stmt_ok s && sshape s.

Definition roles_check (noise : list seg) (e : env) (ss : list Spec.stmt) : string :=
  if negb (noise_ok noise && env_ok e && forallb lemA_ok ss) then "outside"
  else if list_eqb (script_sources e false [] (map (r_stmt noise) ss)) (spec_sources (e_cfg e) ss)
          && list_eqb (script_targets e false [] (map (r_stmt noise) ss)) (spec_targets (e_cfg e) ss)
          && list_eqb (script_intermediates e false [] (map (r_stmt noise) ss)) (spec_intermediates (e_cfg e) ss)
       then "holds" else "FAILS".

Module RTests.
  Import Tests.
  Definition q (items : list item) (from : list rel) : Spec.stmt := SQuery (sel items from).
  Definition D (qq : query) (a : string) : rel := RDerived qq a.
  Definition selw (items : list item) (from : list rel) (c : string) (sq : query) : query := QSelect items from false (Some (c, sq)).
  Definition tests : list (list Spec.stmt) :=
    [ (* 1 chain *) [ins "b" (sel [c_ "x"] [T "a"]); ins "c" (sel [c_ "x"] [T "b"])];
      (* 2 a table only read by plain SELECTs: a source (SOURCE_ONLY) *) [q [c_ "x"] [T "a"]; q [c_ "y"] [T "a"; T "b"]];
      (* 3 written, then only read by a plain SELECT: target and source *) [ins "b" (sel [c_ "x"] [T "a"]); q [c_ "x"] [T "b"]];
      (* 4 a self-reading statement *) [ins "t" (sel [IStar None] [T "t"])];
      (* 5 self-reading, and used elsewhere *) [ins "t" (sel [c_ "x"] [T "t"; T "a"]); ins "u" (sel [c_ "x"] [T "t"])];
      (* 6 a table read and written by different statements: a two-cycle *) [ins "b" (sel [c_ "x"] [T "a"]); ins "a" (sel [c_ "x"] [T "b"])];
      (* 7 derived table *) [ins "c" (sel [c_ "x"] [D (sel [c_ "x"] [T "a"]) "d"]); ins "e" (sel [c_ "x"] [T "c"; D (sel [c_ "y"] [T "b"]) "f"])];
      (* 8 union *) [ins "c" (QUnion (sel [c_ "x"] [T "a"]) (sel [c_ "x"] [T "b"])); ctas "d" (sel [c_ "x"] [T "c"])];
      (* 9 CTE *) [ins "c" (QWith "w" (sel [c_ "x"] [T "a"]) (sel [c_ "x"] [T "w"])); view "v" (QWith "w" (sel [c_ "x"] [T "c"]) (sel [c_ "x"] [T "w"; T "b"]))];
      (* 10 WHERE .. IN *) [ins "c" (selw [c_ "x"] [T "a"] "x" (sel [c_ "k"] [T "b"])); ins "d" (sel [c_ "x"] [T "c"])];
      (* 11 plain SELECT with sub-queries *) [q [c_ "x"] [D (sel [c_ "x"] [T "a"]) "d"]; SQuery (QUnion (sel [c_ "x"] [T "a"]) (sel [c_ "x"] [T "b"])); SQuery (QWith "w" (sel [c_ "x"] [T "c"]) (sel [c_ "x"] [T "w"]))];
      (* 12 SELECT-only script with no-data statements *) [SNoData 0; q [c_ "x"] [T "a"]; SNoData 1];
      (* 13 diamond *) [ins "b" (sel [c_ "x"] [T "a"]); ins "c" (sel [c_ "x"] [T "a"]); ins "d" (sel [qc "b" "x"] [T "b"; T "c"])];
      (* 14 schemas *) [inss "s1" "b" (sel [c_ "x"] [TS "s0" "a"]); inss "s2" "c" (sel [c_ "x"] [TS "s1" "b"]); ins "b" (sel [c_ "x"] [TS "s2" "c"])];
      (* 15 main.b vs b *) [inss "main" "b" (sel [c_ "x"] [T "a"]); ins "c" (sel [c_ "x"] [T "b"])];
      (* 16 the same table in a derived table and outside *) [ins "c" (sel [c_ "x"] [T "a"; D (sel [c_ "y"] [T "a"]) "d"])];
      (* 17 self-reading through a derived table *) [ins "t" (sel [c_ "x"] [D (sel [c_ "x"] [T "t"]) "d"])];
      (* 18 self-reading through WHERE IN, and a reader *) [ins "t" (selw [c_ "x"] [T "a"] "x" (sel [c_ "x"] [T "t"])); q [c_ "x"] [T "t"]];
      (* 19 empty *) [];
      (* 20 INSERT column list, unresolved columns *) [insc "c" ["p"] (selc [c_ "y"] [T "a"; T "b"]); ins "d" (sel [c_ "p"] [T "c"])];
      (* 21 nested derived tables with union inside *) [ins "z" (sel [c_ "x"] [D (sel [c_ "x"] [D (QUnion (sel [c_ "x"] [T "a"]) (sel [c_ "x"] [T "b"])) "i"]) "o"])];
      (* 22 a cycle with entry and exit, and a reader *) [ins "a" (sel [c_ "x"] [T "r"]); ins "b" (sel [c_ "x"] [T "a"]); ins "a" (sel [c_ "x"] [T "b"]); ins "t" (sel [c_ "x"] [T "b"]); q [c_ "x"] [T "t"]];
      (* 23 self join *) [ins "c" (sel [qc "p" "x"] [TA "a" "p"; TA "a" "q"])]
    ].
  Example roles_tests_hold :
    map (roles_check [] e0) tests = map (fun _ => "holds") tests /\
    map (roles_check [ws; cm] e1) tests = map (fun _ => "holds") tests.
  Proof. vm_compute. split; reflexivity. Qed.
  (** what the specification says (no default schema): tests 1 - 6 *)
  Example roles_tests_spec :
    map (fun ss => (spec_sources "" ss, spec_targets "" ss, spec_intermediates "" ss)) (firstn 6 tests) =
    [(["<default>.a"], ["<default>.c"], ["<default>.b"]);
     (["<default>.a"; "<default>.b"], [], []);
     (["<default>.a"; "<default>.b"], ["<default>.b"], []);
     (["<default>.t"], ["<default>.t"], []);
     (["<default>.a"; "<default>.t"], ["<default>.t"; "<default>.u"], []);
     ([], [], ["<default>.a"; "<default>.b"])].
  Proof. vm_compute. reflexivity. Qed.
End RTests.

(* ================================================================== *)
(** * Part 2: Lemma A at node level: the holder of a statement of the fragment, its read and written tables *)
Theorem lemA_nodes : forall noise e s,
  noise_ok noise = true -> env_ok e = true -> stmt_ok s = true -> sshape s = true ->
  exists g, analyze e false (r_stmt noise s) = Ok g /\ gok g /\
            (forall x, tset g "read" x <-> In x (spec_reads (e_cfg e) s)) /\
            (forall x, tset g "write" x <-> In x (spec_writes (e_cfg e) s)).
Proof.
  intros noise e s Hn He Hok Hs.
  assert (W1 : forall t x, x = tref_str (e_cfg e) t <-> In x [tref_str (e_cfg e) t]).
  { intros t x. cbn [In]. split; [intros ->; left; reflexivity|intros [H|[]]; symmetry; exact H]. }
  assert (R1 : forall q x, In x (q_reads (S (q_size q)) (e_cfg e) [] q) <-> In x (dedup_s (q_reads (S (q_size q)) (e_cfg e) [] q) [])).
  { intros q x. rewrite In_dedup_s. cbn [In]. tauto. }
  destruct s as [t cols q|t q|t q|q|kind].
  - cbn [stmt_ok sshape] in *. apply andb_true_iff in Hok. destruct Hok as [Hok _]. apply andb_true_iff in Hok. destruct Hok as [Hok Hnm].
    apply andb_true_iff in Hok. destruct Hok as [Ht Hf].
    destruct (insert_ok noise Hn e He t cols q Ht (src_ok_of q Hf Hnm Hs)) as (g & E & G1 & G2 & G3).
    exists g. split; [exact E|]. split; [exact G1|]. split; intros x; [rewrite G2; apply R1|rewrite G3; apply W1].
  - cbn [stmt_ok sshape] in *. apply andb_true_iff in Hok. destruct Hok as [Hok Hnm]. apply andb_true_iff in Hok. destruct Hok as [Ht Hf].
    destruct (create_ok noise Hn e He false t q Ht (src_ok_of q Hf Hnm Hs)) as (g & E & G1 & G2 & G3).
    exists g. split; [exact E|]. split; [exact G1|]. split; intros x; [rewrite G2; apply R1|rewrite G3; apply W1].
  - cbn [stmt_ok sshape] in *. apply andb_true_iff in Hok. destruct Hok as [Hok Hnm]. apply andb_true_iff in Hok. destruct Hok as [Ht Hf].
    destruct (create_ok noise Hn e He true t q Ht (src_ok_of q Hf Hnm Hs)) as (g & E & G1 & G2 & G3).
    exists g. split; [exact E|]. split; [exact G1|]. split; intros x; [rewrite G2; apply R1|rewrite G3; apply W1].
  - cbn [sshape] in Hs.
    assert (K : exists g, analyze e false (r_stmt noise (SQuery q)) = Ok g /\ gok g /\
                (forall x, tset g "read" x <-> In x (q_reads (S (q_size q)) (e_cfg e) [] q)) /\
                (forall d, In d (holder_nodes g "write") -> False)).
    { assert (Hok0 := Hok). unfold stmt_ok in Hok. apply andb_true_iff in Hok. destruct Hok as [Hf Hnm].
      assert (Hbody : qshape (S (q_size q)) q = true -> exists g, analyze e false (r_stmt noise (SQuery q)) = Ok g /\ gok g /\
                (forall x, tset g "read" x <-> In x (q_reads (S (q_size q)) (e_cfg e) [] q)) /\
                (forall d, In d (holder_nodes g "write") -> False)).
      { intros Hq. pose proof (body_ok_of _ _ _ Hf Hnm Hq) as Hb. cbn [r_stmt].
        rewrite (analyze_query noise e (q_size q) q (body_ok_is_body _ _ Hb)).
        set (stmt := r_query noise (S (q_size q)) q).
        assert (Hfuel : qd (S (q_size q)) q < 3 * depth stmt + 10).
        { pose proof (depth_qd noise (S (q_size q)) q). fold stmt in H. lia. }
        destruct (body_main noise Hn e He [] (S (q_size q)) q _ empty_ctx stmt Hb Hfuel Pre_empty (or_introl eq_refl))
          as (g & E & (G1 & G2 & G3 & _ & _)).
        exists g. change (init_holder empty_ctx) with empty_graph in *. split; [exact E|]. split; [exact G1|]. split.
        - intros x. rewrite G2, tset_empty. tauto.
        - intros d Hd. apply G3 in Hd. destruct Hd. }
      destruct q as [items from cj wh|a b|n c b]; try (apply Hbody; exact Hs).
      unfold sshape_q in Hs. apply andb_true_iff in Hs. destruct Hs as [Hsc Hsb].
      set (k := q_size (QWith n c b)) in *.
      destruct (with_facts k n c b Hf Hnm Hsc Hsb) as (Hc & Hb & Hid & Hguard).
      cbn [r_stmt]. fold k. set (stmt := r_query noise (S k) (QWith n c b)).
      assert (Ea : analyze e false stmt = extract (3 * depth stmt + 10) e XCte stmt empty_ctx) by reflexivity.
      assert (Hfuel : qd (S k) (QWith n c b) < 3 * depth stmt + 10).
      { pose proof (depth_qd noise (S k) (QWith n c b)). fold stmt in H. lia. }
      destruct (xcte_ok noise Hn e He _ empty_ctx k n c b Pre_empty no_subq_empty Hc Hb Hid Hguard Hfuel) as (g & E & G1 & G2 & G3).
      exists g. rewrite Ea. fold stmt in E. change (init_holder empty_ctx) with empty_graph in *. split; [exact E|]. split; [exact G1|]. split.
      - intros x. rewrite G2, tset_empty. tauto.
      - intros d Hd. apply G3 in Hd. destruct Hd. }
    destruct K as (g & E & G1 & G2 & G3). exists g. split; [exact E|]. split; [exact G1|]. split.
    + intros x. rewrite G2. apply R1.
    + intros x. cbn [spec_writes In]. split; [|tauto]. intros (d & Hd & _). exact (G3 d Hd).
  - exists empty_graph. split; [reflexivity|]. split; [exact gok_empty|]. split; intros x; rewrite tset_empty; cbn; tauto.
Qed.
Print Assumptions lemA_nodes.

(* ================================================================== *)
(** * Part 3: from statement holders to the table-level model *)
Module T := TableLevel.
Module TP := TableProofs.

Definition tkey (x : string) : string := "T:" ++ x.
Lemma tkey_inj x y : tkey x = tkey y -> x = y.
Proof. unfold tkey. intros H. exact (append_cancel "T:" x y H). Qed.

(** what the script level needs to know about the holder [G] of a statement reading [R] and writing [W] *)
Record stmt_facts (G : graph) (R W : list string) : Prop := {
  sf_wf : RefineDefs.wf_holder (holder_of G) = true;
  sf_plain : CompDefs.plain_holder (holder_of G) = true;
  sf_gok : gok G;
  sf_reads : forall x, tset G "read" x <-> In x R;
  sf_writes : forall x, tset G "write" x <-> In x W
}.

Lemma data_ok_table d : data_ok d -> is_dataset (NData d) = true -> dk d = KTable /\ deq d = dstr d.
Proof. unfold data_ok. cbn [is_dataset]. destruct (dk d); [auto|intros []|discriminate]. Qed.

Lemma tagged_keys G k t : gok G ->
  In t (map RefineDefs.key (tagged G k is_dataset)) <-> exists x, t = tkey x /\ tset G k x.
Proof.
  intros Hg. rewrite in_map_iff. split.
  - intros (n & <- & Hn). unfold tagged in Hn. apply in_map_iff in Hn. destruct Hn as ([m a] & <- & Hin). apply filter_In in Hin.
    destruct Hin as [Hin Hf]. cbn [fst snd] in *. apply andb_true_iff in Hf. destruct Hf as [Ha Hd].
    destruct m as [d|c|s0]; try discriminate Hd.
    assert (Hd' : In d (holder_nodes G k)) by (rewrite holder_nodes_hn; apply In_hn; exists a; auto).
    destruct (data_ok_table d (gok_data G d k Hg Hd') Hd) as [Hk Hq].
    exists (dstr d). split; [cbn [RefineDefs.key]; unfold RefineDefs.dkey, tkey; rewrite Hk, Hq; reflexivity|].
    exists d. auto.
  - intros (x & -> & (d & Hd & Hk & <-)). pose proof (gok_data G d k Hg Hd) as Hok. unfold data_ok in Hok. rewrite Hk in Hok.
    rewrite holder_nodes_hn in Hd. apply In_hn in Hd. destruct Hd as (a & Hin & Ha). exists (NData d). split.
    + cbn [RefineDefs.key]. unfold RefineDefs.dkey, tkey. rewrite Hk, Hok. reflexivity.
    + unfold tagged. apply in_map_iff. exists (NData d, a). split; [reflexivity|]. apply filter_In. split; [exact Hin|].
      cbn [fst snd is_dataset]. rewrite Ha, Hk. reflexivity.
Qed.

(** the abstraction of the holder reads / writes exactly the (keys of the) tables the statement reads / writes *)
Definition arel (ah : T.astmt) (p : rw) : Prop :=
  (forall t, In t (T.reads ah) <-> exists x, t = tkey x /\ In x (fst p)) /\
  (forall t, In t (T.writes ah) <-> exists x, t = tkey x /\ In x (snd p)).

Lemma stmt_facts_arel G R W : stmt_facts G R W -> arel (RefineDefs.abs_holder (holder_of G)) (R, W).
Proof.
  intros F. split; intros t; cbn [RefineDefs.abs_holder T.reads T.writes fst snd]; unfold h_read, h_write; cbn [hg holder_of];
    rewrite (tagged_keys G _ t (sf_gok _ _ _ F)); split; intros (x & E & H); exists x; (split; [exact E|]).
  - apply (sf_reads _ _ _ F). exact H.
  - apply (sf_reads _ _ _ F). exact H.
  - apply (sf_writes _ _ _ F). exact H.
  - apply (sf_writes _ _ _ F). exact H.
Qed.

Lemma stmt_facts_plain G R W : stmt_facts G R W -> TP.plain (RefineDefs.abs_holder (holder_of G)).
Proof.
  intros F. destruct (Composition.plain_unfold _ (sf_plain _ _ _ F)) as [Hd Hr]. unfold TP.plain.
  cbn [RefineDefs.abs_holder T.drops T.renames]. rewrite Hd, Hr. split; reflexivity.
Qed.

Lemma abs_holder_wf h : TP.wf (RefineDefs.abs_holder h).
Proof.
  assert (K : forall k t, In t (map RefineDefs.key (tagged (hg h) k is_dataset)) -> In t (RefineDefs.dkeys (hg h))).
  { intros k t Ht. apply in_map_iff in Ht. destruct Ht as (n & <- & Hn). unfold tagged in Hn. apply in_map_iff in Hn.
    destruct Hn as ([m a] & <- & Hin). apply filter_In in Hin. destruct Hin as [Hin Hf]. cbn [fst snd] in *.
    apply andb_true_iff in Hf. unfold RefineDefs.dkeys, RefineDefs.dnodes. apply in_map. apply filter_In. split; [|exact (proj2 Hf)].
    apply in_map_iff. exists (m, a). auto. }
  split; intros t Ht; cbn [RefineDefs.abs_holder T.reads T.writes T.hnodes] in *; [exact (K "read" t Ht)|exact (K "write" t Ht)].
Qed.

(** ** the roles of the table-level specification, in terms of the statements' reads and writes *)
  Lemma nil_iff {A B} (l : list A) (l' : list B) (f : B -> A) :
    (forall t, In t l <-> exists x, t = f x /\ In x l') -> (l = [] <-> l' = []).
  Proof.
    intros H. split; intros ->.
    - destruct l' as [|x r]; [reflexivity|]. exfalso. apply (proj2 (H (f x))). exists x. split; [reflexivity|left; reflexivity].
    - destruct l as [|t r]; [reflexivity|]. exfalso. destruct (proj1 (H t) (or_introl eq_refl)) as (x & _ & []).
  Qed.

  Lemma edge_iff ahs rws : Forall2 arel ahs rws -> forall t t', TP.spec_edge ahs t t' <-> exists r w, t = tkey r /\ t' = tkey w /\ edgeb rws r w = true.
  Proof.
    unfold TP.spec_edge, edgeb. induction 1 as [|ah p ahs' rws' [A1 A2] _ IH]; intros t t'.
    - split; [intros (h & [] & _)|intros (r & w & _ & _ & H); discriminate H].
    - split.
      + intros (h & [<-|Hin] & Hr & Hw).
        * apply A1 in Hr. apply A2 in Hw. destruct Hr as (r & -> & Hr). destruct Hw as (w & -> & Hw). exists r, w.
          split; [reflexivity|]. split; [reflexivity|]. cbn [existsb]. apply mem_string_In in Hr, Hw. rewrite Hr, Hw. reflexivity.
        * destruct (proj1 (IH _ _) (ex_intro _ h (conj Hin (conj Hr Hw)))) as (r & w & E1 & E2 & H). exists r, w.
          split; [exact E1|]. split; [exact E2|]. cbn [existsb]. rewrite H. apply orb_true_r.
      + intros (r & w & -> & -> & H). cbn [existsb] in H. apply orb_true_iff in H. destruct H as [H|H].
        * apply andb_true_iff in H. destruct H as [Hr Hw]. apply mem_string_In in Hr, Hw. exists ah. split; [left; reflexivity|].
          split; [apply A1; exists r; auto|apply A2; exists w; auto].
        * destruct (proj2 (IH _ _) (ex_intro _ r (ex_intro _ w (conj eq_refl (conj eq_refl H))))) as (h & Hin & K). exists h. split; [right; exact Hin|exact K].
  Qed.

  Lemma so_iff ahs rws : Forall2 arel ahs rws -> forall t, TP.spec_source_only ahs t <-> exists x, t = tkey x /\ sob rws x = true.
  Proof.
    unfold TP.spec_source_only, sob. induction 1 as [|ah p ahs' rws' [A1 A2] _ IH]; intros t.
    - split; [intros (h & [] & _)|intros (x & _ & H); discriminate H].
    - split.
      + intros (h & [<-|Hin] & Hr & Hw).
        * apply A1 in Hr. destruct Hr as (x & -> & Hr). exists x. split; [reflexivity|]. cbn [existsb].
          apply mem_string_In in Hr. rewrite Hr, (proj1 (nil_iff _ _ tkey A2) Hw). reflexivity.
        * destruct (proj1 (IH _) (ex_intro _ h (conj Hin (conj Hr Hw)))) as (x & E & H). exists x. split; [exact E|]. cbn [existsb]. rewrite H. apply orb_true_r.
      + intros (x & -> & H). cbn [existsb] in H. apply orb_true_iff in H. destruct H as [H|H].
        * apply andb_true_iff in H. destruct H as [Hr Hw]. apply mem_string_In in Hr. exists ah. split; [left; reflexivity|].
          split; [apply A1; exists x; auto|]. apply (proj2 (nil_iff _ _ tkey A2)). destruct (snd p); [reflexivity|discriminate Hw].
        * destruct (proj2 (IH _) (ex_intro _ x (conj eq_refl H))) as (h & Hin & K). exists h. split; [right; exact Hin|exact K].
  Qed.

  Lemma to_iff ahs rws : Forall2 arel ahs rws -> forall t, TP.spec_target_only ahs t <-> exists x, t = tkey x /\ tob rws x = true.
  Proof.
    unfold TP.spec_target_only, tob. induction 1 as [|ah p ahs' rws' [A1 A2] _ IH]; intros t.
    - split; [intros (h & [] & _)|intros (x & _ & H); discriminate H].
    - split.
      + intros (h & [<-|Hin] & Hw & Hr).
        * apply A2 in Hw. destruct Hw as (x & -> & Hw). exists x. split; [reflexivity|]. cbn [existsb].
          apply mem_string_In in Hw. rewrite Hw, (proj1 (nil_iff _ _ tkey A1) Hr). reflexivity.
        * destruct (proj1 (IH _) (ex_intro _ h (conj Hin (conj Hw Hr)))) as (x & E & H). exists x. split; [exact E|]. cbn [existsb]. rewrite H. apply orb_true_r.
      + intros (x & -> & H). cbn [existsb] in H. apply orb_true_iff in H. destruct H as [H|H].
        * apply andb_true_iff in H. destruct H as [Hw Hr]. apply mem_string_In in Hw. exists ah. split; [left; reflexivity|].
          split; [apply A2; exists x; auto|]. apply (proj2 (nil_iff _ _ tkey A1)). destruct (fst p); [reflexivity|discriminate Hr].
        * destruct (proj2 (IH _) (ex_intro _ x (conj eq_refl H))) as (h & Hin & K). exists h. split; [right; exact Hin|exact K].
  Qed.

(** ** the executable roles, as propositions *)
Lemma In_universe rws x : In x (universe rws) <-> exists p, In p rws /\ (In x (fst p) \/ In x (snd p)).
Proof.
  unfold universe. rewrite In_dedup_s, in_flat_map. split.
  - intros [(p & Hp & H) _]. exists p. split; [exact Hp|]. apply in_app_iff in H. exact H.
  - intros (p & Hp & H). split; [|intros []]. exists p. split; [exact Hp|]. apply in_app_iff. exact H.
Qed.

Lemma edgeb_iff rws r w : edgeb rws r w = true <-> exists p, In p rws /\ In r (fst p) /\ In w (snd p).
Proof.
  unfold edgeb. rewrite existsb_exists. split; intros (p & Hp & H); exists p; (split; [exact Hp|]).
  - apply andb_true_iff in H. destruct H as [H1 H2]. apply mem_string_In in H1, H2. auto.
  - destruct H as [H1 H2]. apply mem_string_In in H1, H2. rewrite H1, H2. reflexivity.
Qed.

Lemma edgeb_U rws r w : edgeb rws r w = true -> In r (universe rws) /\ In w (universe rws).
Proof. intros H. apply edgeb_iff in H. destruct H as (p & Hp & H1 & H2). split; apply In_universe; exists p; auto. Qed.

Lemma sob_U rws x : sob rws x = true -> In x (universe rws).
Proof.
  unfold sob. intros H. apply existsb_exists in H. destruct H as (p & Hp & H). apply andb_true_iff in H. destruct H as [H _].
  apply mem_string_In in H. apply In_universe. exists p. auto.
Qed.
Lemma tob_U rws x : tob rws x = true -> In x (universe rws).
Proof.
  unfold tob. intros H. apply existsb_exists in H. destruct H as (p & Hp & H). apply andb_true_iff in H. destruct H as [H _].
  apply mem_string_In in H. apply In_universe. exists p. auto.
Qed.

Lemma out_iff rws x : existsb (edgeb rws x) (universe rws) = true <-> exists w, edgeb rws x w = true.
Proof.
  rewrite existsb_exists. split; [intros (w & _ & H); exists w; exact H|intros (w & H); exists w; split; [exact (proj2 (edgeb_U rws x w H))|exact H]].
Qed.
Lemma in_iff rws x : existsb (fun r => edgeb rws r x) (universe rws) = true <-> exists r, edgeb rws r x = true.
Proof.
  rewrite existsb_exists. split; [intros (r & _ & H); exists r; exact H|intros (r & H); exists r; split; [exact (proj1 (edgeb_U rws r x H))|exact H]].
Qed.

Lemma negb_iff (b : bool) (P : Prop) : (b = true <-> P) -> (negb b = true <-> ~ P).
Proof.
  intros H. destruct b; cbn [negb]; split.
  - discriminate.
  - intros K. exfalso. apply K. apply H. reflexivity.
  - intros _ HP. apply H in HP. discriminate.
  - reflexivity.
Qed.

Lemma src_role_iff rws x : src_role rws x = true <->
  ((exists w, edgeb rws x w = true) /\ ~ (exists r, edgeb rws r x = true)) \/ edgeb rws x x = true \/ sob rws x = true.
Proof. unfold src_role. cbv zeta. rewrite !orb_true_iff, andb_true_iff, out_iff, (negb_iff _ _ (in_iff rws x)). tauto. Qed.
Lemma tgt_role_iff rws x : tgt_role rws x = true <->
  ((exists r, edgeb rws r x = true) /\ ~ (exists w, edgeb rws x w = true)) \/ edgeb rws x x = true \/ tob rws x = true.
Proof. unfold tgt_role. cbv zeta. rewrite !orb_true_iff, andb_true_iff, in_iff, (negb_iff _ _ (out_iff rws x)). tauto. Qed.
Lemma mid_role_iff rws x : mid_role rws x = true <->
  (exists r, edgeb rws r x = true) /\ (exists w, edgeb rws x w = true) /\ edgeb rws x x <> true.
Proof. unfold mid_role. cbv zeta. rewrite !andb_true_iff, in_iff, out_iff, negb_true_iff, not_true_iff_false. tauto. Qed.

Lemma src_role_U rws x : src_role rws x = true -> In x (universe rws).
Proof. rewrite src_role_iff. intros [[(w & H) _]|[H|H]]; [exact (proj1 (edgeb_U _ _ _ H))|exact (proj1 (edgeb_U _ _ _ H))|exact (sob_U _ _ H)]. Qed.
Lemma tgt_role_U rws x : tgt_role rws x = true -> In x (universe rws).
Proof. rewrite tgt_role_iff. intros [[(w & H) _]|[H|H]]; [exact (proj2 (edgeb_U _ _ _ H))|exact (proj1 (edgeb_U _ _ _ H))|exact (tob_U _ _ H)]. Qed.
Lemma mid_role_U rws x : mid_role rws x = true -> In x (universe rws).
Proof. rewrite mid_role_iff. intros ((r & H) & _). exact (proj2 (edgeb_U _ _ _ H)). Qed.

(** ** the table-level specification [spec_source] etc. of Holder/TableProofs.v on the abstracted holders *)
Section SpecRoles.
  Variables (ahs : list T.astmt) (rws : list rw).
  Hypothesis HR : Forall2 arel ahs rws.
  Hypothesis HW : Forall TP.wf ahs.

  Lemma edge_nodes t t' : TP.spec_edge ahs t t' -> TP.spec_node ahs t /\ TP.spec_node ahs t'.
  Proof.
    intros (h & Hin & Hr & Hw). rewrite Forall_forall in HW. destruct (HW h Hin) as [W1 W2].
    split; exists h; split; auto.
  Qed.

  Lemma E_iff r w : TP.spec_edge ahs (tkey r) (tkey w) <-> edgeb rws r w = true.
  Proof.
    rewrite (edge_iff ahs rws HR). split; [|intros H; exists r, w; auto].
    intros (r' & w' & E1 & E2 & H). apply tkey_inj in E1, E2. subst. exact H.
  Qed.
  Lemma E_out x : (exists t', TP.spec_edge ahs (tkey x) t') <-> exists w, edgeb rws x w = true.
  Proof.
    split; [intros (t' & H)|intros (w & H); exists (tkey w); apply E_iff; exact H].
    apply (edge_iff ahs rws HR) in H. destruct H as (r & w & E1 & _ & H). apply tkey_inj in E1. subst r. exists w. exact H.
  Qed.
  Lemma E_in x : (exists t', TP.spec_edge ahs t' (tkey x)) <-> exists r, edgeb rws r x = true.
  Proof.
    split; [intros (t' & H)|intros (r & H); exists (tkey r); apply E_iff; exact H].
    apply (edge_iff ahs rws HR) in H. destruct H as (r & w & _ & E2 & H). apply tkey_inj in E2. subst w. exists r. exact H.
  Qed.
  Lemma SO_iff x : TP.spec_source_only ahs (tkey x) <-> sob rws x = true.
  Proof. rewrite (so_iff ahs rws HR). split; [intros (x' & E & H); apply tkey_inj in E; subst; exact H|intros H; exists x; auto]. Qed.
  Lemma TO_iff x : TP.spec_target_only ahs (tkey x) <-> tob rws x = true.
  Proof. rewrite (to_iff ahs rws HR). split; [intros (x' & E & H); apply tkey_inj in E; subst; exact H|intros H; exists x; auto]. Qed.

  Lemma so_node t : TP.spec_source_only ahs t -> TP.spec_node ahs t.
  Proof. intros (h & Hin & Hr & _). rewrite Forall_forall in HW. exists h. split; [exact Hin|exact (proj1 (HW h Hin) t Hr)]. Qed.
  Lemma to_node t : TP.spec_target_only ahs t -> TP.spec_node ahs t.
  Proof. intros (h & Hin & Hr & _). rewrite Forall_forall in HW. exists h. split; [exact Hin|exact (proj2 (HW h Hin) t Hr)]. Qed.

  Lemma role_is_key t : (exists t', TP.spec_edge ahs t t') \/ (exists t', TP.spec_edge ahs t' t) \/ TP.spec_source_only ahs t \/ TP.spec_target_only ahs t ->
    exists x, t = tkey x.
  Proof.
    intros [(t' & H)|[(t' & H)|[H|H]]].
    - apply (edge_iff ahs rws HR) in H. destruct H as (r & w & E & _). exists r. exact E.
    - apply (edge_iff ahs rws HR) in H. destruct H as (r & w & _ & E & _). exists w. exact E.
    - apply (so_iff ahs rws HR) in H. destruct H as (x & E & _). exists x. exact E.
    - apply (to_iff ahs rws HR) in H. destruct H as (x & E & _). exists x. exact E.
  Qed.

  Lemma spec_source_iff t : TP.spec_source ahs t <-> exists x, t = tkey x /\ src_role rws x = true.
  Proof.
    unfold TP.spec_source. split.
    - intros [_ H].
      assert (K : exists x, t = tkey x).
      { apply role_is_key. destruct H as [[H _]|[H|H]]; [left; exact H|left; exists t; exact H|right; right; left; exact H]. }
      destruct K as (x & ->). exists x. split; [reflexivity|]. apply src_role_iff. rewrite <- E_out, <- E_in, <- E_iff, <- SO_iff. exact H.
    - intros (x & -> & H). apply src_role_iff in H. rewrite <- E_out, <- E_in, <- E_iff, <- SO_iff in H. split; [|exact H].
      destruct H as [[(t' & H) _]|[H|H]]; [exact (proj1 (edge_nodes _ _ H))|exact (proj1 (edge_nodes _ _ H))|exact (so_node _ H)].
  Qed.
  Lemma spec_target_iff t : TP.spec_target ahs t <-> exists x, t = tkey x /\ tgt_role rws x = true.
  Proof.
    unfold TP.spec_target. split.
    - intros [_ H].
      assert (K : exists x, t = tkey x).
      { apply role_is_key. destruct H as [[H _]|[H|H]]; [right; left; exact H|left; exists t; exact H|right; right; right; exact H]. }
      destruct K as (x & ->). exists x. split; [reflexivity|]. apply tgt_role_iff. rewrite <- E_out, <- E_in, <- E_iff, <- TO_iff. exact H.
    - intros (x & -> & H). apply tgt_role_iff in H. rewrite <- E_out, <- E_in, <- E_iff, <- TO_iff in H. split; [|exact H].
      destruct H as [[(t' & H) _]|[H|H]]; [exact (proj2 (edge_nodes _ _ H))|exact (proj1 (edge_nodes _ _ H))|exact (to_node _ H)].
  Qed.
  Lemma spec_intermediate_iff t : TP.spec_intermediate ahs t <-> exists x, t = tkey x /\ mid_role rws x = true.
  Proof.
    unfold TP.spec_intermediate. split.
    - intros (_ & H1 & H2 & H3).
      destruct (role_is_key t (or_introl H2)) as (x & ->). exists x. split; [reflexivity|]. apply mid_role_iff.
      rewrite <- E_out, <- E_in, <- E_iff. auto.
    - intros (x & -> & H). apply mid_role_iff in H. rewrite <- E_out, <- E_in, <- E_iff in H. destruct H as (H1 & H2 & H3).
      split; [|auto]. destruct H1 as (t' & H1). exact (proj2 (edge_nodes _ _ H1)).
  Qed.
End SpecRoles.

(** ** the node list of the table-level state has no duplicates *)
Lemma NoDup_snoc {A} (l : list A) x : NoDup l -> ~ In x l -> NoDup (l ++ [x]).
Proof.
  induction l as [|a r IH]; intros Hn Hx; cbn [app]; [constructor; [intros []|constructor]|].
  inversion Hn. subst. constructor.
  - intros H. apply in_app_iff in H. destruct H as [H|[H|[]]]; [contradiction|]. subst. apply Hx. left. reflexivity.
  - apply IH; [assumption|]. intros H. apply Hx. right. exact H.
Qed.
Lemma NoDup_add x l : NoDup l -> NoDup (T.add x l).
Proof.
  intros H. unfold T.add. destruct (T.mem x l) eqn:E; [exact H|]. apply NoDup_snoc; [exact H|].
  intros Hin. apply TP.mem_In in Hin. congruence.
Qed.
Lemma NoDup_add_all xs : forall l, NoDup l -> NoDup (T.add_all xs l).
Proof. induction xs as [|x r IH]; intros l H; cbn [T.add_all]; [exact H|]. apply IH. apply NoDup_add. exact H. Qed.

Lemma plain_step_tn s h s' : TP.plain h -> T.step s h = T.Ok s' -> T.tn s' = T.add_all (T.hnodes h) (T.tn s).
Proof.
  intros [Hd Hr]. unfold T.step. rewrite Hd, Hr. destruct (T.reads h), (T.writes h); intros H; inversion H; reflexivity.
Qed.
Lemma build_from_NoDup hs : Forall TP.plain hs -> forall s s', NoDup (T.tn s) -> T.build_from s hs = T.Ok s' -> NoDup (T.tn s').
Proof.
  induction 1 as [|h r Hh _ IH]; intros s s' Hn H; cbn [T.build_from] in H; [inversion H; subst; exact Hn|].
  destruct (T.step s h) as [s1|] eqn:E; [|discriminate]. apply (IH s1 s'); [|exact H].
  rewrite (plain_step_tn s h s1 Hh E). apply NoDup_add_all. exact Hn.
Qed.

(** ** the literal nodes of the script graph come from the statement holders *)
Lemma fold_lits (Q : Graph.node -> Prop) hs : Composition.all_plain hs -> Forall (fun h => lits_in Q (hg h)) hs ->
  forall g g', lits_in Q g -> fold_steps g hs = BOk g' -> lits_in Q g'.
Proof.
  induction 1 as [|h r Hh _ IH]; intros HL g g' Hg H; cbn [fold_steps] in H; [inversion H; subst; exact Hg|].
  inversion HL as [|h0 r0 L1 L2]; subst.
  destruct (Composition.plain_step g h Hh) as (g1 & E1 & S1). rewrite E1 in H. apply (IH L2 g1 g'); [|exact H].
  assert (Hc : lits_in Q (compose g (hg h))) by (apply lits_compose; assumption).
  assert (Ht : forall k n, In n (tagged (hg h) k is_dataset) -> Q n).
  { intros k n Hn. unfold tagged in Hn. apply in_map_iff in Hn. destruct Hn as ([m a] & <- & Hin). apply filter_In in Hin.
    apply (proj1 L1). apply in_map_iff. exists (m, a). split; [reflexivity|exact (proj1 Hin)]. }
  destruct S1; [apply lits_set_attr; exact Hc|apply lits_set_attr; exact Hc|].
  apply lits_add_product; [exact Hc|exact (Ht "read")|exact (Ht "write")].
Qed.

Lemma gok_lits G : gok G -> lits_in nok G.
Proof.
  intros [[_ Hn] He]. split.
  - intros n Hin. apply in_map_iff in Hin. destruct Hin as ([m a] & <- & Hin). exact (proj1 (Hn m a Hin)).
  - intros e0 He0. rewrite Forall_forall in He. destruct (He e0 He0) as (H1 & H2 & _). auto.
Qed.

(** ** the script theorem, from the per-statement facts *)
Lemma sorted_role_eq (L : list Graph.node) (ts : list string) (role : string -> bool) (U : list string) :
  (forall n, In n L -> RefineDefs.key n = tkey (node_str n)) ->
  map RefineDefs.key L = ts -> NoDup ts ->
  (forall x, In (tkey x) ts <-> role x = true) -> (forall x, role x = true -> In x U) -> NoDup U ->
  sort_strings (map node_str L) = sort_strings (filter role U).
Proof.
  intros Hk Hm Hnd Hrole HU HnU.
  assert (Em : map tkey (map node_str L) = ts) by (rewrite <- Hm, map_map; apply map_ext_in; intros n Hn; symmetry; apply Hk; exact Hn).
  apply sort_strings_set_eq.
  - rewrite <- Em in Hnd. apply (NoDup_map_inv tkey). exact Hnd.
  - apply NoDup_filter. exact HnU.
  - intros x. rewrite filter_In. split.
    + intros H. assert (K : role x = true) by (apply Hrole; rewrite <- Em; apply in_map; exact H). split; [apply HU; exact K|exact K].
    + intros [_ K]. apply Hrole in K. rewrite <- Em in K. apply in_map_iff in K. destruct K as (y & E & Hy). apply tkey_inj in E. subst y. exact Hy.
Qed.

Theorem roles_of_facts p Gs rws g :
  Forall2 (fun G (q : rw) => stmt_facts G (fst q) (snd q)) Gs rws -> build p (map holder_of Gs) = BOk g ->
  sort_strings (map node_str (source_tables g)) = sort_strings (filter (src_role rws) (universe rws)) /\
  sort_strings (map node_str (target_tables g)) = sort_strings (filter (tgt_role rws) (universe rws)) /\
  sort_strings (map node_str (intermediate_tables g)) = sort_strings (filter (mid_role rws) (universe rws)).
Proof.
  intros HF Hb. set (hs := map holder_of Gs) in *. set (ahs := map RefineDefs.abs_holder hs).
  assert (Hwf : Refinement.all_wf hs).
  { unfold hs. clear Hb. induction HF as [|G q Gs' rws' F _ IH]; cbn [map]; constructor; [exact (sf_wf _ _ _ F)|exact IH]. }
  assert (Hpl : Composition.all_plain hs).
  { unfold hs. clear Hb Hwf. induction HF as [|G q Gs' rws' F _ IH]; cbn [map]; constructor; [exact (sf_plain _ _ _ F)|exact IH]. }
  assert (Hp : Forall TP.plain ahs).
  { unfold ahs, hs. clear Hb Hwf Hpl. induction HF as [|G q Gs' rws' F _ IH]; cbn [map]; constructor; [exact (stmt_facts_plain _ _ _ F)|exact IH]. }
  assert (Hw : Forall TP.wf ahs).
  { unfold ahs. apply Forall_forall. intros ah Hah. apply in_map_iff in Hah. destruct Hah as (h & <- & _). apply abs_holder_wf. }
  assert (HR : Forall2 arel ahs rws).
  { unfold ahs, hs. clear Hb Hwf Hpl Hp Hw. induction HF as [|G q Gs' rws' F _ IH]; cbn [map]; constructor; [|exact IH].
    destruct q as [R W]. exact (stmt_facts_arel G R W F). }
  assert (HL : Forall (fun h => lits_in nok (hg h)) hs).
  { unfold hs. clear Hb Hwf Hpl Hp Hw HR. induction HF as [|G q Gs' rws' F _ IH]; cbn [map]; constructor; [exact (gok_lits G (sf_gok _ _ _ F))|exact IH]. }
  destruct (TP.build_plain_ok ahs Hp) as (s & Es).
  pose proof (Refinement.roles_refine p hs Hwf) as Hrr. rewrite Hb in Hrr. fold ahs in Hrr. rewrite Es in Hrr. destruct Hrr as (K1 & K2 & K3).
  (* the literal nodes *)
  pose proof (Refinement.fold_sim hs Hwf empty_graph T.empty_state Refinement.inv_empty (RefineAbs.st_equiv_refl T.empty_state)) as Hfs.
  unfold build in Hb. destruct (fold_steps empty_graph hs) as [g0| |] eqn:E0; try discriminate Hb.
  fold ahs in Hfs. unfold T.build in Es. rewrite Es in Hfs. destruct Hfs as [_ (I1 & I2 & I3)].
  inversion Hb as [Hg]. subst g. clear Hb. set (g2 := set_attr g0 (selfloop_nodes g0) "selfloop" true) in *.
  assert (Hc2 : RefineDefs.closed_tgt g2 = true) by (unfold g2; rewrite RefineGraph.closed_set_attr; exact I2).
  pose proof (Refinement.resolve_all_table_graph p g2 Hc2) as Htg.
  pose proof (fold_lits nok hs Hpl HL empty_graph g0 (lits_in_empty nok) E0) as L0.
  assert (Hnodes : forall n, In n (map fst (gnodes (table_graph (resolve_all p g2)))) -> RefineDefs.key n = tkey (node_str n)).
  { intros n Hin. rewrite Htg, Refinement.table_graph_form in Hin. cbn [gnodes] in Hin. rewrite Refinement.map_fst_filter_dsp in Hin.
    unfold RefineDefs.dnodes, g2 in Hin. rewrite RefineGraph.map_fst_set_attr in Hin. apply filter_In in Hin. destruct Hin as [Hin Hd].
    pose proof (proj1 L0 n Hin) as Hok. destruct n as [d|c|s0]; try discriminate Hd. cbn [nok] in Hok.
    destruct (data_ok_table d Hok Hd) as [Hk Hq]. cbn [RefineDefs.key node_str]. unfold RefineDefs.dkey, tkey. rewrite Hk, Hq. reflexivity. }
  assert (Hnd : NoDup (T.tn s)) by (apply (build_from_NoDup ahs Hp T.empty_state s); [constructor|exact Es]).
  assert (HnU : NoDup (universe rws)) by (apply NoDup_dedup_s).
  split; [|split].
  - apply (sorted_role_eq _ (T.sources s)); [|exact K1|apply NoDup_filter; exact Hnd| |apply src_role_U|exact HnU].
    + intros n Hn. apply Hnodes. unfold source_tables in Hn. cbv zeta in Hn. apply filter_In in Hn. exact (proj1 Hn).
    + intros x. unfold T.sources. rewrite filter_In, (TP.roles_source ahs s (tkey x) Hp Hw Es), (spec_source_iff ahs rws HR Hw). split.
      * intros [_ (x' & E & H)]. apply tkey_inj in E. subst x'. exact H.
      * intros H. split; [|exists x; auto]. apply TP.mem_In.
        assert (Hs : T.is_source s (tkey x) = true) by (apply (TP.roles_source ahs s (tkey x) Hp Hw Es), (spec_source_iff ahs rws HR Hw); exists x; auto).
        unfold T.is_source in Hs. apply andb_true_iff in Hs. exact (proj1 Hs).
  - apply (sorted_role_eq _ (T.targets s)); [|exact K2|apply NoDup_filter; exact Hnd| |apply tgt_role_U|exact HnU].
    + intros n Hn. apply Hnodes. unfold target_tables in Hn. cbv zeta in Hn. apply filter_In in Hn. exact (proj1 Hn).
    + intros x. unfold T.targets. rewrite filter_In, (TP.roles_target ahs s (tkey x) Hp Hw Es), (spec_target_iff ahs rws HR Hw). split.
      * intros [_ (x' & E & H)]. apply tkey_inj in E. subst x'. exact H.
      * intros H. split; [|exists x; auto]. apply TP.mem_In.
        assert (Hs : T.is_target s (tkey x) = true) by (apply (TP.roles_target ahs s (tkey x) Hp Hw Es), (spec_target_iff ahs rws HR Hw); exists x; auto).
        unfold T.is_target in Hs. apply andb_true_iff in Hs. exact (proj1 Hs).
  - apply (sorted_role_eq _ (T.intermediates s)); [|exact K3|apply NoDup_filter; exact Hnd| |apply mid_role_U|exact HnU].
    + intros n Hn. apply Hnodes. unfold intermediate_tables in Hn. cbv zeta in Hn. apply filter_In in Hn. exact (proj1 Hn).
    + intros x. unfold T.intermediates. rewrite filter_In, (TP.roles_intermediate ahs s (tkey x) Hp Hw Es), (spec_intermediate_iff ahs rws HR Hw). split.
      * intros [_ (x' & E & H)]. apply tkey_inj in E. subst x'. exact H.
      * intros H. split; [|exists x; auto]. apply TP.mem_In.
        assert (Hs : T.is_intermediate s (tkey x) = true) by (apply (TP.roles_intermediate ahs s (tkey x) Hp Hw Es), (spec_intermediate_iff ahs rws HR Hw); exists x; auto).
        unfold T.is_intermediate in Hs. repeat (apply andb_true_iff in Hs; destruct Hs as [Hs _]). exact Hs.
Qed.
Print Assumptions roles_of_facts.

Lemma facts_build_ok p Gs rws :
  Forall2 (fun G (q : rw) => stmt_facts G (fst q) (snd q)) Gs rws -> exists g, build p (map holder_of Gs) = BOk g.
Proof.
  intros HF. set (hs := map holder_of Gs).
  assert (Hwf : Refinement.all_wf hs).
  { unfold hs. induction HF as [|G q Gs' rws' F _ IH]; cbn [map]; constructor; [exact (sf_wf _ _ _ F)|exact IH]. }
  assert (Hp : Forall TP.plain (map RefineDefs.abs_holder hs)).
  { unfold hs. clear Hwf. induction HF as [|G q Gs' rws' F _ IH]; cbn [map]; constructor; [exact (stmt_facts_plain _ _ _ F)|exact IH]. }
  destruct (TP.build_plain_ok _ Hp) as (s & Es).
  pose proof (Refinement.roles_refine p hs Hwf) as Hrr. rewrite Es in Hrr.
  destruct (build p hs) as [g| |]; [exists g; reflexivity|destruct Hrr|destruct Hrr].
Qed.

(* ================================================================== *)
(** * Part 4: scripts of the Lemma A fragment *)
Definition lemA_stmt (s : Spec.stmt) : Prop := stmt_ok s = true /\ sshape s = true.

(** the roles theorem for the whole fragment of Lemma A, PARTIAL: under the extra hypothesis [Hinv] that the holder of
    every statement of the script satisfies the invariant [HI] of Tree/HolderInv.v (attributes read / write / cte
    only; has_alias / has_column / lineage edges only, none between two datasets; edge targets are nodes) *)
Theorem script_roles_exact_partial : forall noise e ss,
  noise_ok noise = true -> env_ok e = true -> Forall lemA_stmt ss ->
  (forall s G, In s ss -> analyze e false (r_stmt noise s) = Ok G -> HI G) ->
  script_sources e false [] (map (r_stmt noise) ss) = spec_sources (e_cfg e) ss /\
  script_targets e false [] (map (r_stmt noise) ss) = spec_targets (e_cfg e) ss /\
  script_intermediates e false [] (map (r_stmt noise) ss) = spec_intermediates (e_cfg e) ss.
Proof.
  intros noise e ss Hn He H Hinv.
  assert (K : exists Gs, map_res (analyze e false) (map (r_stmt noise) ss) = Ok Gs /\
              Forall2 (fun G (q : rw) => stmt_facts G (fst q) (snd q)) Gs (map (stmt_rw (e_cfg e)) ss)).
  { induction H as [|s ss [H1 H2] _ IH].
    - exists []. split; [reflexivity|constructor].
    - destruct IH as (Gs & Em & HF); [intros s' G' Hs'; apply Hinv; right; exact Hs'|].
      destruct (lemA_nodes noise e s Hn He H1 H2) as (G & Ea & G1 & G2 & G3).
      destruct (HI_holder G (Hinv s G (or_introl eq_refl) Ea)) as [W P].
      exists (G :: Gs). split; [cbn [map map_res]; rewrite Ea, Em; reflexivity|]. cbn [map]. constructor; [|exact HF].
      constructor; assumption. }
  destruct K as (Gs & Em & HF).
  destruct (run_statements_core e _ Gs (proj1 (env_facts e He)) Em) as (sess & Er).
  unfold script_sources, script_targets, script_intermediates, script_graph. rewrite Er. cbn [fst snd].
  set (p := {| p_truthy := p_truthy (e_provider e); p_cols := view_cols sess [] |}).
  destruct (facts_build_ok p Gs _ HF) as (g & Hb). rewrite Hb.
  exact (roles_of_facts p Gs _ g HF Hb).
Qed.
Print Assumptions script_roles_exact_partial.

(** ** unconditional on the fragment of ScriptExactExt.v (INSERT [cols] / CTAS / VIEW over one SELECT from distinct base
       tables, plain SELECTs over base tables, no-data statements) *)
Lemma HI_sel e gb ts xs G : HI gb ->
  (do sub <- (do g2 <- end_of_query_cleanup e gb ts xs []; expand_wildcard e g2); Ok (compose gb sub)) = Ok G -> HI G.
Proof.
  intros Hb H. destruct (end_of_query_cleanup e gb ts xs []) as [g2|err] eqn:E2; [|discriminate].
  cbn in H. destruct (expand_wildcard e g2) as [sub|err] eqn:E3; [|discriminate]. inversion H.
  apply HI_compose; [exact Hb|]. apply (hk_expand_wildcard e g2 sub E3). apply (hk_eoq e gb ts xs [] g2 E2). exact Hb.
Qed.

Theorem core_ext_HI : forall noise e s G,
  noise_ok noise = true -> env_ok e = true -> core_stmt_ext s -> analyze e false (r_stmt noise s) = Ok G -> HI G.
Proof.
  intros noise e s G Hn He Hs Ea. destruct Hs as [(Hok & _ & Hc & Hsh & Huq)|[[Hok Hq]|Hnd]].
  - assert (K : exists t items from cj,
              ((exists cols, s = SInsert t cols (QSelect items from cj None) /\ match cols with Some cs => forallb id_ok cs = true | None => True end)
               \/ s = SCtas t (QSelect items from cj None) \/ s = SView t (QSelect items from cj None)) /\
              forallb is_rtable from && trefs_distinct (map rtref from) = true /\
              tref_ok t && frag_query (S (q_size (QSelect items from cj None))) (QSelect items from cj None)
              && names_ok_q (S (q_size (QSelect items from cj None))) [] (QSelect items from cj None) = true).
    { destruct s as [t cols q|t q|t q|q|kind]; cbn [sel_tables_syntactic] in Hsh; try discriminate;
        destruct q as [items from cj [wh|]| |]; try discriminate; exists t, items, from, cj.
      - cbn [stmt_ok] in Hok. apply andb_true_iff in Hok. destruct Hok as [Hok Hcols]. split; [|split; [exact Hsh|exact Hok]].
        left. exists cols. split; [reflexivity|]. destruct cols; [exact Hcols|exact I].
      - cbn [stmt_ok] in Hok. split; [right; left; reflexivity|]. split; [exact Hsh|exact Hok].
      - cbn [stmt_ok] in Hok. split; [right; right; reflexivity|]. split; [exact Hsh|exact Hok]. }
    destruct K as (t & items & from & cj & Hs & Hsh' & Hok').
    apply andb_true_iff in Hsh'. destruct Hsh' as [Hrt Hd].
    destruct (stmt_ok_select t items from cj Hok' Hrt) as (Ht & Hit & Hne & Hrel).
    assert (Hs' : (exists cols, s = SInsert t cols (QSelect items from cj None)) \/ s = SCtas t (QSelect items from cj None) \/ s = SView t (QSelect items from cj None)).
    { destruct Hs as [(cols & E & _)|[E|E]]; [left; exists cols; exact E|right; left; exact E|right; right; exact E]. }
    destruct (colshape_tables (e_cfg e) s t items from cj Hs' Hc Ht Hne Hrel Hit Hd) as (Htc & Hic & _).
    assert (Hsel : (s = SInsert t None (QSelect items from cj None) \/ s = SCtas t (QSelect items from cj None) \/ s = SView t (QSelect items from cj None)) -> HI G).
    { intros Hs3.
      assert (Ef : analyze e false (r_stmt noise s) = sel_holder e t items from).
      { destruct Hs3 as [->|[->| ->]].
        - apply analyze_insert_select; assumption.
        - apply (analyze_create_select noise Hn e He false); assumption.
        - apply (analyze_create_select noise Hn e He true); assumption. }
      rewrite Ea in Ef. symmetry in Ef. unfold sel_holder in Ef.
      apply (HI_sel e _ _ _ G (hk_add_write empty_graph _ HI_empty) Ef). }
    destruct Hs as [(cols & E & Hcols)|Hs]; [|apply Hsel; right; exact Hs].
    destruct cols as [cs|]; [|apply Hsel; left; exact E].
    destruct (colshape_tables "" s t items from cj Hs' Hc Ht Hne Hrel Hit Hd) as (Htc0 & _ & _).
    destruct (colshape_cols s t cs items from cj E Hc Hrel Hit Htc0 Hic) as [Hndc Hlen]. subst s.
    pose proof (analyze_insert_cols noise Hn e He t cs items from cj Ht Hcols Hndc Hit Hne Hrel) as Ef.
    rewrite Ea in Ef. symmetry in Ef. unfold sel_holder_cols in Ef.
    apply (HI_sel e _ _ _ G (hk_add_write_column _ _ (hk_add_write empty_graph _ HI_empty)) Ef).
  - destruct s as [t cols q|t q|t q|q|kind]; try discriminate. destruct q as [items from cj [wh|]| |]; try discriminate.
    cbn [plain_query] in Hq. rewrite (analyze_query_tables noise e items from cj Hn He Hok Hq) in Ea. inversion Ea.
    apply (hk_fold add_read hk_add_read). exact HI_empty.
  - destruct s; try discriminate. inversion Ea. exact HI_empty.
Qed.
Print Assumptions core_ext_HI.

Theorem script_roles_exact_on_core_ext : forall noise e ss,
  noise_ok noise = true -> env_ok e = true -> Forall (fun s => core_stmt_ext s /\ stmt_ok s = true /\ sshape s = true) ss ->
  script_sources e false [] (map (r_stmt noise) ss) = spec_sources (e_cfg e) ss /\
  script_targets e false [] (map (r_stmt noise) ss) = spec_targets (e_cfg e) ss /\
  script_intermediates e false [] (map (r_stmt noise) ss) = spec_intermediates (e_cfg e) ss.
Proof.
  intros noise e ss Hn He H. apply (script_roles_exact_partial noise e ss Hn He).
  - apply Forall_forall. intros s Hs. rewrite Forall_forall in H. exact (proj2 (H s Hs)).
  - intros s G Hs Ea. rewrite Forall_forall in H. exact (core_ext_HI noise e s G Hn He (proj1 (H s Hs)) Ea).
Qed.
Print Assumptions script_roles_exact_on_core_ext.

(** ** the whole fragment of Lemma A, PARTIAL: the only hypothesis left is [extract_HI_statement] (Tree/HolderInv.v): the
       extractor keeps the holder invariant [HI]; it is a closed statement about [extract], independent of the script *)
Theorem script_roles_exact_on_core_partial : extract_HI_statement -> forall noise e ss,
  noise_ok noise = true -> env_ok e = true ->
  Forall (fun s => stmt_ok s = true /\ sshape s = true) ss ->
  script_sources e false [] (map (r_stmt noise) ss) = spec_sources (e_cfg e) ss /\
  script_targets e false [] (map (r_stmt noise) ss) = spec_targets (e_cfg e) ss /\
  script_intermediates e false [] (map (r_stmt noise) ss) = spec_intermediates (e_cfg e) ss.
Proof.
  intros HX noise e ss Hn He H. apply (script_roles_exact_partial noise e ss Hn He H).
  intros s G _ Ea. exact (analyze_HI_of_extract HX noise e s G Ea).
Qed.
Print Assumptions script_roles_exact_on_core_partial.

(** ** non-vacuity *)
Module RExamples.
  Import Tests RTests.
  (** chain with a reader: b is written, read by an INSERT and by a plain SELECT; c is written and only read by a plain SELECT *)
  Definition ssr : list Spec.stmt := [ins "b" (sel [c_ "x"] [T "a"]); q [c_ "x"] [T "b"]; ins "c" (sel [c_ "x"] [T "b"]); q [IStar None] [T "c"]; SNoData 0].
  Lemma ssr_core : Forall (fun s => core_stmt_ext s /\ stmt_ok s = true /\ sshape s = true) ssr.
  Proof. repeat (constructor; [split; [apply core_ok_ext_stmt; reflexivity|split; reflexivity]|]). constructor. Qed.
  Example script_roles_nonvacuous :
    script_sources e1 false [] (map (r_stmt [ws; cm]) ssr) = ["main.a"; "main.b"; "main.c"] /\
    script_targets e1 false [] (map (r_stmt [ws; cm]) ssr) = ["main.c"] /\
    script_intermediates e1 false [] (map (r_stmt [ws; cm]) ssr) = ["main.b"].
  Proof.
    destruct (script_roles_exact_on_core_ext [ws; cm] e1 ssr eq_refl eq_refl ssr_core) as (A & B & C).
    rewrite A, B, C. vm_compute. repeat split.
  Qed.
  (** the self-loop rule: INSERT INTO t SELECT * FROM t makes t a source and a target, not an intermediate table;
      the statement is outside [core_stmt_ext] ([colshape] excludes self-reading statements), the model agrees with the
      specification by computation (test 4) *)
  Example self_insert_roles :
    script_sources e0 false [] (map (r_stmt []) [ins "t" (sel [IStar None] [T "t"])]) = ["<default>.t"] /\
    script_targets e0 false [] (map (r_stmt []) [ins "t" (sel [IStar None] [T "t"])]) = ["<default>.t"] /\
    script_intermediates e0 false [] (map (r_stmt []) [ins "t" (sel [IStar None] [T "t"])]) = [] /\
    spec_sources "" [ins "t" (sel [IStar None] [T "t"])] = ["<default>.t"] /\
    spec_targets "" [ins "t" (sel [IStar None] [T "t"])] = ["<default>.t"] /\
    spec_intermediates "" [ins "t" (sel [IStar None] [T "t"])] = [].
  Proof. vm_compute. repeat split. Qed.
  (** the hypotheses of [script_roles_exact_partial] hold of a script outside [core_stmt_ext] (derived table, union,
      CTE, WHERE IN, self-reading): the invariant by computation *)
  Definition HIb (g : graph) : bool :=
    RefineDefs.wf_holder (holder_of g) && CompDefs.plain_holder (holder_of g).
  Example lemA_holders_wf :
    forallb (fun ss => forallb (fun s => match analyze e0 false (r_stmt [] s) with Ok g => HIb g | Err _ => false end) ss) tests = true.
  Proof. vm_compute. reflexivity. Qed.
  Example lemA_nodes_nonvacuous :
    exists g, analyze e1 false (r_stmt [ws; cm] (ins "c" (QUnion (sel [c_ "x"] [T "a"]) (sel [c_ "x"] [T "b"])))) = Ok g /\ gok g /\
              (forall x, tset g "read" x <-> In x ["main.a"; "main.b"]) /\ (forall x, tset g "write" x <-> In x ["main.c"]).
  Proof. apply (lemA_nodes [ws; cm] e1 (ins "c" (QUnion (sel [c_ "x"] [T "a"]) (sel [c_ "x"] [T "b"])))); reflexivity. Qed.
End RExamples.
