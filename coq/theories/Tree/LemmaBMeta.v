(** Lemma B (columns) WITH a metadata provider (property C13, column level).

    The provider of the tree model is [with_cols e base]: truthy, answering the catalog [base] (keys: printed table
    names).  Specification: Ast/SpecMeta.v ([spec_flows_md], [spec_pairs_md], [spec_md_nil]).

    SUMMARY
    - Guard [md_ok ds base s] (Part G; [ds] = default schema, the catalog is keyed by printed names) and the statement
      in executable form [lemma_B_md_check]; test table [lemma_B_md_tests] (32 instances x 2 trivia lists, all "holds",
      21 of them differ from the result without metadata) and sweep [lemma_B_md_sweep] (7680 instances, 4211 inside
      the guards, 0 failures).
    - Without [md_ok] the statement is false: [lemma_B_md_unguarded_refuted]; thirteen counterexample classes (Part X,
      module [CxMd]): [cxBmd_guards] / [cxBmd_fail] / [cxBmd_excluded], observed values [cxBmd_explicit_list] (K-C13-1),
      [cxBmd_star_mixed], [cxBmd_star_shared] (K-C11-1), [cxBmd_star_into_known], [cxBmd_arity], [cxBmd_unq_placeholder], [cxBmd_unq_star_guess].
    - PROVED (no axioms), for arbitrary trivia and any number of items / tables of Lemma B's fragment:
        [c13_unknown_tables_same]  clause (d): the catalog knows none of the tables of the statement => the pairs are
                                   those of the same environment without metadata; [lemma_B_md_unknown]: ... and equal
                                   [spec_pairs_md] (the full lemma restricted to [md_unknown]);
        [c13_insert_positions]     clause (c): INSERT without column list into a known target = the INSERT with the
                                   catalog's columns as explicit list (target removed from the catalog);
        [model_plain_own] / [c13_unqualified_attribution]  clause (b) at the level of flows: every unresolved source
                                   c{t1..tn} is replaced by the columns v.c of exactly the candidate tables (named
                                   schema) whose catalog entry lists c;
        [build_md]                 what [build] / [resolve_all] do on one statement holder with ANY provider;
        [model_pairs_own_md] / [model_pairs_cols_md]  the model side of Lemma B under [env_ok_md], own names / given write
                                   columns, whenever the wildcard expansion has nothing to do.
    - NOT proved: [lemma_B_md_statement] in general, [c13_star_expands_statement] (clause (a)); missing: the exact effect
      of [expand_wildcard] / [replace_wildcard] on the holder when a starred table is known (node removals), and the
      specification side of clauses (b) / (c) ([resolve_md] against [rflows]). *)
From Coq Require Import Permutation.
From SV Require Import Tree.Render Tree.LemmaA Tree.LemmaAProofs Tree.LemmaAMeta Tree.LemmaB Tree.LemmaBProofs
     Ident.Escape Ident.EscapeProofs Holder.PathProofs Holder.SortProofs Ast.SpecMeta.
From SV Require TriviaProofs.

(* ================================================================== *)
(** * Part G: the guard [md_ok], in executable form *)

(** the printed name of a FROM relation, its catalog entry *)
Definition rel_tname (ds : string) (r : rel) : string := tref_str ds (rtref r).
Definition rel_known (ds : string) (md : catalog) (r : rel) : option (list string) := known md (rel_tname ds r).
Definition rel_is_known (ds : string) (md : catalog) (r : rel) : bool := is_known md (rel_tname ds r).

(** the relations a star item ranges over (under [colshape]: exactly one) *)
Definition star_rels (from : list rel) (i : item) : list rel :=
  match i with
  | IStar None => from
  | IStar (Some q) => filter (fun r => String.eqb (rname r) q) from
  | IExpr _ _ => []
  end.
Definition all_star_rels (from : list rel) (items : list item) : list rel := flat_map (star_rels from) items.

(** the output names produced by expanded stars, and the names of the other items *)
Definition expanded_names (ds : string) (md : catalog) (from : list rel) (items : list item) : list string :=
  flat_map (fun r => match rel_known ds md r with Some cols => cols | None => [] end) (all_star_rels from items).
Definition plain_names (items : list item) : list string :=
  flat_map (fun i => match i with IExpr _ _ => [item_name i] | IStar _ => [] end) items.
Definition disjoint_s (a b : list string) : bool := forallb (fun x => negb (mem_string x b)) a.

(** (1) catalog entries of the tables read are lower-case identifiers (the implementation normalises the names it gets:
        "A" becomes a, "*" is skipped) *)
Definition md_names_ok (ds : string) (md : catalog) (from : list rel) : bool :=
  forallb (fun r => match rel_known ds md r with Some cols => forallb id_ok cols | None => true end) from.

(** (2) stars: the tables under a star are all unknown, or all known with pairwise disjoint column names (K-C11-1) that
        are not the names of other select items (an existing target column is never overwritten by an expansion) *)
Definition md_stars_ok (ds : string) (md : catalog) (from : list rel) (items : list item) : bool :=
  let srs := all_star_rels from items in
  forallb (fun r => negb (rel_is_known ds md r)) srs
  || (forallb (rel_is_known ds md) srs
      && nodup_s (expanded_names ds md from items)
      && disjoint_s (expanded_names ds md from items) (plain_names items)).

(** (3) the target of an INSERT: unknown, or: no explicit column list (K-C13-1), no star item (K-C13-4), as many
        select items as catalog columns (otherwise the property prescribes nothing), distinct identifier names;
        with an explicit column list no star is expanded *)
Definition md_target_ok (ds : string) (md : catalog) (s : stmt) : bool :=
  match s with
  | SInsert t cols (QSelect items from _ _) =>
      match known md (tref_str ds t) with
      | None => true
      | Some tc =>
          match cols with Some _ => false | None => true end
          && forallb (fun i => match i with IExpr _ _ => true | IStar _ => false end) items
          && Nat.eqb (List.length tc) (List.length items)
          && forallb id_ok tc && nodup_s tc
      end
      (* an explicit column list counts a star as ONE column: with an expanded star the arities differ *)
      && match cols with
         | Some _ => forallb (fun r => negb (rel_is_known ds md r)) (all_star_rels from items)
         | None => true
         end
  | _ => true
  end.

(** (4) an unqualified reference over several tables: the tables that list the column are in a named schema (the
        implementation consults the catalog only for tables whose schema is not the placeholder, K-C13-6), and the column
        is not produced by an expanded star (K-C02-5 through metadata) *)
Definition rel_named_schema (ds : string) (r : rel) : bool :=
  match fst (rtref r) with Some _ => true | None => negb (String.eqb ds "") end.
Definition rel_lists (ds : string) (md : catalog) (c : string) (r : rel) : bool :=
  match rel_known ds md r with Some cols => mem_string c cols | None => false end.
Definition md_unq_ok (ds : string) (md : catalog) (from : list rel) (items : list item) : bool :=
  match from with
  | [_] => true
  | _ =>
      forallb (fun i => match i with
                        | IExpr (EColRef None c) _ =>
                            forallb (fun r => negb (rel_lists ds md c r) || rel_named_schema ds r) from
                            && negb (mem_string c (expanded_names ds md from items))
                        | _ => true
                        end) items
  end.

Definition md_ok (ds : string) (md : catalog) (s : stmt) : bool :=
  match s with
  | SInsert _ _ (QSelect items from _ _) | SCtas _ (QSelect items from _ _) | SView _ (QSelect items from _ _) =>
      md_names_ok ds md from && md_stars_ok ds md from items && md_target_ok ds md s && md_unq_ok ds md from items
  | _ => true
  end.

(** no table of the statement is known to the catalog (clause (d)) *)
Definition md_unknown (ds : string) (md : catalog) (s : stmt) : bool :=
  match s with
  | SInsert t _ (QSelect _ from _ _) | SCtas t (QSelect _ from _ _) | SView t (QSelect _ from _ _) =>
      negb (is_known md (tref_str ds t)) && forallb (fun r => negb (rel_is_known ds md r)) from
  | _ => true
  end.

(* ================================================================== *)
(** * Part T: the statement in executable form, and the test table *)
Definition md_guards (noise : list seg) (e : env) (base : catalog) (s : stmt) : bool :=
  noise_ok noise && env_ok_md e && p_truthy (e_provider e) && stmt_ok s && sshape s && colshape s && sel_tables_syntactic s.

Definition lemma_B_md_check (noise : list seg) (e : env) (base : catalog) (s : stmt) : string :=
  if negb (md_guards noise e base s && md_ok (e_cfg e) base s) then "outside"
  else if list_eqb (script_pairs e false base [r_stmt noise s]) (spec_pairs_md (e_cfg e) base s) then "holds" else "FAILS".
(** without [md_ok] *)
Definition lemma_B_md_check0 (noise : list seg) (e : env) (base : catalog) (s : stmt) : string :=
  if negb (md_guards noise e base s) then "outside"
  else if list_eqb (script_pairs e false base [r_stmt noise s]) (spec_pairs_md (e_cfg e) base s) then "holds" else "FAILS".

Module MdB.
  Definition E (cfg : string) : env := mk_env "ansi" cfg cfg {| p_truthy := true; p_cols := [] |} [].
  Definition E0 (cfg : string) : env := mk_env "ansi" cfg cfg {| p_truthy := false; p_cols := [] |} [].
  Definition T (n : string) := RTable (None, n) None.
  Definition TA (n a : string) := RTable (None, n) (Some a).
  Definition ST (sch n : string) := RTable (Some sch, n) None.
  Definition col (c : string) := IExpr (EColRef None c) None.
  Definition qcol (q c : string) := IExpr (EColRef (Some q) c) None.
  Definition acol (c a : string) := IExpr (EColRef None c) (Some a).
  Definition star := IStar None.
  Definition qstar (q : string) := IStar (Some q).
  Definition sel items from := QSelect items from false None.
  Definition csel items from := QSelect items from true None.
  Definition X : tref := (None, "x").
  Definition W := Seg "whitespace" "whitespace" ["whitespace"] " " true false false [].
  Definition Cm := Seg "comment" "comment" ["comment"; "raw"] "--x" false true false [].

  Definition md_t : catalog := [("main.t", ["a"; "b"])].
  Definition md_tu : catalog := [("main.t", ["a"; "b"]); ("main.u", ["a"; "c"])].       (* share a *)
  Definition md_tu2 : catalog := [("main.t", ["a"; "b"]); ("main.u", ["c"; "d"])].      (* disjoint *)
  Definition md_x : catalog := [("main.x", ["p"; "q"])].
  Definition md_xt : catalog := [("main.x", ["p"; "q"]); ("main.t", ["a"; "b"])].
  Definition md_other : catalog := [("main.zz", ["a"]); ("other.t", ["a"]); ("main.t", [])].

  (** instances inside all guards: (catalog, default schema, statement) *)
  Definition inside : list (catalog * string * stmt) := [
    (* (a) star over a known table: INSERT / CTAS / VIEW, with alias, with schema, placeholder schema *)
    (md_t, "main", SInsert X None (sel [star] [T "t"]));
    (md_t, "main", SCtas X (sel [star] [T "t"]));
    (md_t, "main", SView X (sel [star] [TA "t" "k"]));
    (md_t, "main", SInsert X None (sel [qstar "k"] [TA "t" "k"]));
    ([("s.t", ["a"; "b"])], "", SInsert X None (sel [star] [ST "s" "t"]));
    ([("<default>.t", ["a"; "b"])], "", SInsert X None (sel [star] [T "t"]));
    (* star over an unknown table; empty entry = unknown; entry of another table *)
    (md_t, "main", SInsert X None (sel [star] [T "u"]));
    ([("main.t", [])], "main", SInsert X None (sel [star] [T "t"]));
    (md_other, "main", SInsert X None (sel [star; col "a"] [T "t"]));
    (* q.* over a join: both known (disjoint), only the starred one known, only the other known *)
    (md_tu2, "main", SInsert X None (sel [qstar "t"; qstar "u"] [T "t"; T "u"]));
    (md_t, "main", SInsert X None (sel [qstar "t"] [T "t"; T "u"]));
    (md_t, "main", SInsert X None (sel [qstar "u"] [T "t"; T "u"]));
    (md_tu2, "main", SInsert X None (sel [qstar "t"; qcol "u" "c"] [T "t"; T "u"]));
    (md_tu2, "main", SInsert X None (sel [star; acol "a" "z"] [T "t"]));
    (* a duplicate in the catalog is expanded once; explicit column list with a known source *)
    ([("main.t", ["a"; "a"])], "main", SInsert X None (sel [qcol "t" "a"] [T "t"]));
    ([("main.t", ["a"; "b"])], "main", SInsert X (Some ["k"; "l"]) (sel [col "a"; qcol "t" "b"] [T "t"]));
    (* (b) unqualified over several known tables: one lists / both list / three tables / comma join / with a star next to it *)
    (md_tu2, "main", SInsert X None (sel [col "a"] [T "t"; T "u"]));
    (md_tu, "main", SInsert X None (sel [col "a"] [T "t"; T "u"]));
    (md_tu, "main", SCtas X (csel [col "a"; col "c"; acol "b" "z"] [T "t"; T "u"]));
    ([("main.t", ["a"]); ("main.u", ["b"]); ("main.w", ["a"; "b"])], "main", SView X (sel [col "a"; col "b"] [T "t"; T "u"; T "w"]));
    ([("s.t", ["a"; "b"]); ("r.u", ["c"])], "", SInsert X None (sel [col "a"; col "c"] [ST "s" "t"; ST "r" "u"]));
    (md_tu, "main", SInsert X None (sel [qstar "t"; acol "c" "z"] [T "t"; T "u"]));
    (* unqualified over unknown tables: unresolved as without metadata; over one table: resolved whatever the catalog says *)
    (md_x, "main", SInsert (None, "y") None (sel [col "a"] [T "t"; T "u"]));
    (md_t, "main", SInsert X None (sel [col "zz"] [T "t"]));
    (md_t, "main", SInsert X None (sel [qcol "t" "zz"] [T "t"; T "u"]));
    (* (c) INSERT without column list into a known target; target and source known; CTAS / VIEW into a known name *)
    (md_x, "main", SInsert X None (sel [col "a"; col "b"] [T "t"]));
    (md_xt, "main", SInsert X None (sel [col "a"; acol "b" "z"] [T "t"]));
    (md_x, "main", SInsert X None (sel [qcol "t" "a"; qcol "u" "b"] [T "t"; T "u"]));
    ([("main.x", ["p"; "q"]); ("main.t", ["a"]); ("main.u", ["b"])], "main", SInsert X None (sel [col "a"; col "b"] [T "t"; T "u"]));
    (md_xt, "main", SCtas X (sel [star] [T "t"]));
    (md_xt, "main", SView X (sel [col "a"] [T "t"]));
    (* explicit column list, target unknown *)
    (md_t, "main", SInsert X (Some ["k"; "l"]) (sel [col "a"; col "b"] [T "t"]))
  ].

  Definition checks (noise : list seg) : list string :=
    map (fun x => lemma_B_md_check noise (E (snd (fst x))) (fst (fst x)) (snd x)) inside.

  (** the metadata is really used: the result differs from the one without metadata *)
  Definition differs : nat :=
    List.length (filter (fun x => negb (list_eqb (script_pairs (E (snd (fst x))) false (fst (fst x)) [r_stmt [] (snd x)])
                                                 (script_pairs (E0 (snd (fst x))) false [] [r_stmt [] (snd x)]))) inside).
End MdB.

Lemma lemma_B_md_tests :
  List.length MdB.inside = 32 /\
  forallb (String.eqb "holds") (MdB.checks []) = true /\
  forallb (String.eqb "holds") (MdB.checks [MdB.W; MdB.Cm; MdB.W]) = true /\
  MdB.differs = 21.
Proof. vm_compute. repeat split. Qed.

(* ================================================================== *)
(** * Part X: what [md_ok] excludes: one proved counterexample per class.
    Each instance satisfies all other guards of [lemma_B_md]; model and specification disagree; [md_ok] is false. *)
Module CxMd.
  Import MdB.
  (** K-C13-1: the target's catalog AND an explicit column list: both are registered as write columns, the counts no
      longer match, the select names win.  Defect of the implementation. *)
  Definition explicit_list := (md_x, "main", SInsert X (Some ["k"; "l"]) (sel [col "a"; col "b"] [T "t"])).
  (** K-C13-3 (new): stars over a known and an unknown table: expanding the known one removes the target wildcard and
      with it the contribution of the unknown table.  Defect of the implementation. *)
  Definition star_mixed := (md_t, "main", SInsert X None (sel [qstar "t"; qstar "u"] [T "t"; T "u"])).
  (** K-C11-1: two starred known tables share a column name: the second expansion finds the target column present and
      skips it (which table wins depends on set iteration order in Python; the model fixes one order). *)
  Definition star_shared := (md_tu, "main", SInsert X None (sel [qstar "t"; qstar "u"] [T "t"; T "u"])).
  (** the same through a named item: [t.*, u.a] with a in t: the expansion skips t.a > x.a.  Defect (same class). *)
  Definition star_vs_named := (md_tu2, "main", SInsert X None (sel [qstar "t"; acol "c" "a"] [T "t"; T "u"])).
  (** K-C13-4 (new): INSERT without column list into a known target from a star over a known source: positions are not
      applied (the star is one select item), and source columns whose names are target columns are dropped altogether. *)
  Definition star_into_known := (md_xt, "main", SInsert X None (sel [star] [T "t"])).
  Definition star_into_known_same := ([("main.x", ["a"; "b"]); ("main.t", ["a"; "b"])], "main", SInsert X None (sel [star] [T "t"])).
  (** arity: three items into a two-column target: the write columns grow while items are processed, the count matches
      midway.  The property prescribes nothing; recorded as observed. *)
  Definition arity := (md_x, "main", SInsert X None (sel [col "a"; col "b"; col "c"] [T "t"])).
  Definition target_dup := ([("main.x", ["p"; "p"])], "main", SInsert X None (sel [col "a"; col "b"] [T "t"])).
  (** NOT counterexamples (the property prescribes exactly this; they were guarded out by the first version of the
      specification): one table lists the column, another is unknown: attributed to the lister only; the known table
      lacks it / nobody lists it: unresolved with all tables of the scope as printed candidates *)
  Definition unq_unknown_dropped := (md_t, "main", SInsert X None (sel [col "a"] [T "t"; T "u"])).
  Definition unq_lacking_stays := (md_t, "main", SInsert X None (sel [col "zz"] [T "t"; T "u"])).
  Definition unq_none_lists := (md_tu, "main", SInsert X None (sel [col "zz"] [T "t"; T "u"])).
  Definition now_inside := [unq_unknown_dropped; unq_lacking_stays; unq_none_lists].
  (** K-C13-6 (new): without a default schema, tables without schema are printed "<default>.t"; star expansion finds
      their catalog entry, the resolution of unqualified columns skips them. *)
  Definition unq_placeholder := ([("<default>.t", ["a"; "b"]); ("<default>.u", ["c"])], "", SInsert X None (sel [col "a"] [T "t"; T "u"])).
  (** K-C02-5 through metadata: [t.*, a as z], both tables list a: the expansion put t.a into the graph, the guess wins *)
  Definition unq_star_guess := (md_tu, "main", SInsert X None (sel [qstar "t"; acol "a" "z"] [T "t"; T "u"])).
  (** catalog names are normalised: upper case is folded, "*" is skipped *)
  Definition upper := ([("main.t", ["A"; "b"])], "main", SInsert X None (sel [star] [T "t"])).
  Definition star_name := ([("main.t", ["*"; "b"])], "main", SInsert X None (sel [star] [T "t"])).
  (** an explicit column list counts a star as one column *)
  Definition cols_star := (md_tu, "main", SInsert X (Some ["p"; "q"]) (sel [qstar "u"; qcol "t" "b"] [T "t"; T "u"])).

  Definition all := [explicit_list; star_mixed; star_shared; star_vs_named; star_into_known; star_into_known_same; arity; target_dup;
                     unq_placeholder; unq_star_guess; upper; star_name; cols_star].
  Definition model (x : catalog * string * stmt) := script_pairs (E (snd (fst x))) false (fst (fst x)) [r_stmt [] (snd x)].
  Definition spec (x : catalog * string * stmt) := spec_pairs_md (snd (fst x)) (fst (fst x)) (snd x).
End CxMd.

Lemma cxBmd_guards : forallb (fun x => md_guards [] (MdB.E (snd (fst x))) (fst (fst x)) (snd x)) CxMd.all = true.
Proof. vm_compute. reflexivity. Qed.
Lemma cxBmd_fail : forallb (fun x => String.eqb (lemma_B_md_check0 [] (MdB.E (snd (fst x))) (fst (fst x)) (snd x)) "FAILS") CxMd.all = true.
Proof. vm_compute. reflexivity. Qed.
Lemma cxBmd_excluded : forallb (fun x => negb (md_ok (snd (fst x)) (fst (fst x)) (snd x))) CxMd.all = true.
Proof. vm_compute. reflexivity. Qed.

(** the observed values, for the record *)
Lemma cxBmd_explicit_list :
  CxMd.model CxMd.explicit_list = ["main.t.a>main.x.a"; "main.t.b>main.x.b"] /\
  CxMd.spec CxMd.explicit_list = ["main.t.a>main.x.k"; "main.t.b>main.x.l"].
Proof. split; vm_compute; reflexivity. Qed.
Lemma cxBmd_star_mixed :
  CxMd.model CxMd.star_mixed = ["main.t.a>main.x.a"; "main.t.b>main.x.b"] /\
  CxMd.spec CxMd.star_mixed = ["main.t.a>main.x.a"; "main.t.b>main.x.b"; "main.u.*>main.x.*"].
Proof. split; vm_compute; reflexivity. Qed.
Lemma cxBmd_star_shared :
  CxMd.model CxMd.star_shared = ["main.t.a>main.x.a"; "main.t.b>main.x.b"; "main.u.c>main.x.c"] /\
  CxMd.spec CxMd.star_shared = ["main.t.a>main.x.a"; "main.t.b>main.x.b"; "main.u.a>main.x.a"; "main.u.c>main.x.c"].
Proof. split; vm_compute; reflexivity. Qed.
Lemma cxBmd_star_into_known :
  CxMd.model CxMd.star_into_known = ["main.t.a>main.x.a"; "main.t.b>main.x.b"] /\
  CxMd.spec CxMd.star_into_known = ["main.t.a>main.x.p"; "main.t.b>main.x.q"] /\
  CxMd.model CxMd.star_into_known_same = [] /\
  CxMd.spec CxMd.star_into_known_same = ["main.t.a>main.x.a"; "main.t.b>main.x.b"].
Proof. repeat split; vm_compute; reflexivity. Qed.
Lemma cxBmd_arity :
  CxMd.model CxMd.arity = ["main.t.a>main.x.a"; "main.t.b>main.x.a"; "main.t.c>main.x.q"] /\
  CxMd.spec CxMd.arity = ["main.t.a>main.x.a"; "main.t.b>main.x.b"; "main.t.c>main.x.c"].
Proof. split; vm_compute; reflexivity. Qed.
Lemma md_unq_mixed_inside :
  forallb (fun x => String.eqb (lemma_B_md_check [] (MdB.E (snd (fst x))) (fst (fst x)) (snd x)) "holds") CxMd.now_inside = true /\
  CxMd.model CxMd.unq_unknown_dropped = ["main.t.a>main.x.a"] /\
  CxMd.model CxMd.unq_lacking_stays = ["zz{main.t,main.u}>main.x.zz"] /\
  CxMd.model CxMd.unq_none_lists = ["zz{main.t,main.u}>main.x.zz"].
Proof. repeat split; vm_compute; reflexivity. Qed.
Lemma cxBmd_unq_placeholder :
  CxMd.model CxMd.unq_placeholder = ["a{<default>.t,<default>.u}><default>.x.a"] /\
  CxMd.spec CxMd.unq_placeholder = ["<default>.t.a><default>.x.a"].
Proof. split; vm_compute; reflexivity. Qed.
Lemma cxBmd_unq_star_guess :
  CxMd.model CxMd.unq_star_guess = ["main.t.a>main.x.a"; "main.t.a>main.x.z"; "main.t.b>main.x.b"] /\
  CxMd.spec CxMd.unq_star_guess = ["main.t.a>main.x.a"; "main.t.a>main.x.z"; "main.t.b>main.x.b"; "main.u.a>main.x.z"].
Proof. split; vm_compute; reflexivity. Qed.

(** the statement without [md_ok] is false *)
Definition lemma_B_md_unguarded : Prop :=
  forall noise e base s, noise_ok noise = true -> env_ok_md e = true -> p_truthy (e_provider e) = true ->
    stmt_ok s = true -> sshape s = true -> colshape s = true -> sel_tables_syntactic s = true ->
    script_pairs e false base [r_stmt noise s] = spec_pairs_md (e_cfg e) base s.
Theorem lemma_B_md_unguarded_refuted : ~ lemma_B_md_unguarded.
Proof.
  intros H. specialize (H [] (MdB.E "main") MdB.md_x (snd CxMd.explicit_list)).
  assert (E : script_pairs (MdB.E "main") false MdB.md_x [r_stmt [] (snd CxMd.explicit_list)] = spec_pairs_md "main" MdB.md_x (snd CxMd.explicit_list))
    by (apply H; vm_compute; reflexivity).
  vm_compute in E. discriminate E.
Qed.

(* ================================================================== *)
(** * Part N': the navigation of LemmaBProofs.v (Parts N, C, K) for ANY provider ([env_ok_md]) *)
Section NavMd.
Variable noise : list seg.
Hypothesis Hnoise : noise_ok noise = true.
Variable e : env.
Hypothesis Henv : env_ok_md e = true.

Lemma table_of_seg_exact_md t al : tref_ok t = true -> alias_okp al -> table_of_seg e (r_tref t) al = Ok (tbl e t al).
Proof.
  intros Ht Ha. rewrite <- (table_of_seg_np (LemmaAMeta.strip e) e (strip_np e)).
  exact (table_of_seg_exact (LemmaAMeta.strip e) (strip_ok e Henv) t al Ht Ha).
Qed.

Lemma select_tables_extract_md f stmt items from cj k ctx :
  sel_segments stmt = [r_sc noise items; r_fc noise k from cj] ->
  forallb item_ok items = true -> from <> [] -> forallb rel_ok from = true ->
  sq_cte (init_holder ctx) = [] ->
  extract (S (S f)) e XSelect stmt ctx =
  (do g2 <- end_of_query_cleanup e (init_holder ctx) (map (tbl_of e) from) (map xcol_of items) []; expand_wildcard e g2).
Proof.
  intros Hseg Hit Hne Hrel Hc. rewrite extract_select_eq, Hseg.
  assert (Hrt : forallb is_rtable from = true).
  { rewrite forallb_forall in *. intros r Hr. specialize (Hrel r Hr). destruct r; try discriminate. reflexivity. }
  unfold sel_subqueries. cbn [map concat_res]. rewrite (sel_subq1_sc noise Hnoise items Hit), (sel_subq1_fc_tables noise Hnoise k from cj Hne Hrt).
  cbn [app ex_subquery fold_left]. unfold sel_fold. cbn [fold_left]. unfold sel_step.
  rewrite <- (handle_child_np (S f) (LemmaAMeta.strip e) e (strip_np e)).
  rewrite (handle_child_sc_exact noise Hnoise (LemmaAMeta.strip e) (strip_ok e Henv) f _ items Hit), (ise_sc noise Hnoise).
  rewrite (handle_child_fc noise (LemmaAMeta.strip e) (strip_ok e Henv)).
  cbn [s_g s_tables s_columns s_barriers app].
  rewrite (list_tables_exact noise Hnoise (LemmaAMeta.strip e) (strip_ok e Henv) k from cj (init_holder ctx) Hne Hrel Hc), (ise_fc noise Hnoise).
  cbn [s_g s_tables s_columns s_barriers]. reflexivity.
Qed.

Lemma delegate_select_g_md F stmt g items from cj k :
  forallb item_ok items = true -> from <> [] -> forallb rel_ok from = true ->
  init_holder (dctx g) = g -> sq_cte g = [] ->
  (do r <- ci_step (S (S (S F))) e stmt (Ok (g, false, false)) (r_query noise (S k) (QSelect items from cj None));
   Ok (fst (fst r))) =
  (do sub <- (do g2 <- end_of_query_cleanup e g (map (tbl_of e) from) (map xcol_of items) []; expand_wildcard e g2);
   Ok (compose g sub)).
Proof.
  intros Hit Hne Hrel Hi Hc. rewrite (ci_select noise e). unfold ex_delegate. fold (dctx g).
  rewrite (select_tables_extract_md (S F) _ items from cj k (dctx g)); try assumption.
  - rewrite Hi. destruct (end_of_query_cleanup e _ _ _ []) as [g2|err]; [|reflexivity]. destruct (expand_wildcard e g2); reflexivity.
  - rewrite r_query_select. apply (sel_segments_select noise Hnoise items k from cj None).
  - rewrite Hi. exact Hc.
Qed.

(** the holder of the statement: the cleanup and the wildcard expansion run on the target holder [gb] *)
Definition holder_on (gb : graph) (items : list item) (from : list rel) : res graph :=
  do sub <- (do g2 <- end_of_query_cleanup e gb (map (tbl_of e) from) (map xcol_of items) []; expand_wildcard e g2);
  Ok (compose gb sub).

(** what the provider says about the target of an INSERT, as write columns *)
Definition target_cols (t : tref) : list column := provider_columns e (tbl e t None).

Lemma analyze_insert_md t cols items from cj gb :
  tref_ok t = true -> match cols with Some cs => forallb id_ok cs = true | None => True end ->
  forallb item_ok items = true -> from <> [] -> forallb rel_ok from = true ->
  gb = (let g1 := if p_truthy (e_provider e) then add_write_column (add_write empty_graph (tbl e t None)) (target_cols t)
                  else add_write empty_graph (tbl e t None) in
        match cols with Some cs => add_write_column g1 (cl_of cs) | None => g1 end) ->
  init_holder (dctx gb) = gb -> sq_cte gb = [] ->
  analyze e false (r_stmt noise (SInsert t cols (QSelect items from cj None))) = holder_on gb items from.
Proof.
  intros Ht Hcs Hit Hne Hrel Egb Hi Hc. set (q := QSelect items from cj None). set (k := q_size q). set (Q := r_query noise (S k) q).
  set (stmt := node "insert_statement" ["insert_statement"] (sep noise ([kw "insert"; kw "into"; r_tref t] ++ cols_part noise cols ++ [Q]))).
  assert (Es : r_stmt noise (SInsert t cols q) = stmt) by (destruct cols; reflexivity). rewrite Es.
  assert (Ea : analyze e false stmt = extract (S (S (S (S (3 * depth stmt + 6))))) e XCreateInsert stmt empty_ctx).
  { replace (S (S (S (S (3 * depth stmt + 6))))) with (3 * depth stmt + 10) by lia. reflexivity. }
  set (F := 3 * depth stmt + 6) in *.
  rewrite Ea, extract_ci_eq. unfold stmt at 2. rewrite (lcs_node noise Hnoise) by reflexivity.
  rewrite !filter_app, (filter_nn_cols noise). cbn [filter app]. change (nn (kw "insert")) with true. change (nn (kw "into")) with true.
  change (nn (r_tref t)) with true. unfold Q at 1. rewrite (nn_rq noise). cbn iota. fold Q.
  change (init_holder empty_ctx) with empty_graph. cbn [app fold_left].
  rewrite (ci_kw_target e (S (S (S F))) stmt empty_graph false false "insert" eq_refl), (ci_kw_target e (S (S (S F))) stmt empty_graph true false "into" eq_refl).
  rewrite (ci_tref_md e), (table_of_seg_exact_md t None Ht I).
  change (do d0 <- Ok (tbl e t None); Ok (target_holder e stmt empty_graph d0, false, false))
    with (Ok (target_holder e stmt empty_graph (tbl e t None), false, false) : res (graph * bool * bool)).
  assert (Eth : target_holder e stmt empty_graph (tbl e t None) =
                if p_truthy (e_provider e) then add_write_column (add_write empty_graph (tbl e t None)) (target_cols t)
                else add_write empty_graph (tbl e t None)).
  { unfold target_holder. change (tyis stmt "insert_statement") with true. rewrite andb_true_r. reflexivity. }
  rewrite Eth. destruct cols as [cs|]; cbn [cols_part app fold_left].
  - rewrite (ci_cols_exact noise Hnoise e (S (S F)) stmt _ cs Hcs). cbv zeta in Egb. rewrite <- Egb.
    unfold Q, q. apply (delegate_select_g_md F stmt gb items from cj k Hit Hne Hrel Hi Hc).
  - cbv zeta in Egb. rewrite <- Egb. unfold Q, q. apply (delegate_select_g_md F stmt gb items from cj k Hit Hne Hrel Hi Hc).
Qed.

Lemma analyze_create_md (view : bool) t items from cj :
  tref_ok t = true -> forallb item_ok items = true -> from <> [] -> forallb rel_ok from = true ->
  analyze e false (r_stmt noise (if view then SView t (QSelect items from cj None) else SCtas t (QSelect items from cj None)))
  = holder_on (add_write empty_graph (tbl e t None)) items from.
Proof.
  intros Ht Hit Hne Hrel. set (q := QSelect items from cj None). set (k := q_size q). set (Q := r_query noise (S k) q).
  set (ty0 := if view then "create_view_statement" else "create_table_statement").
  set (w0 := if view then "view" else "table").
  set (stmt := node ty0 [ty0] (sep noise [kw "create"; kw w0; r_tref t; kw "as"; Q])).
  assert (Es : r_stmt noise (if view then SView t q else SCtas t q) = stmt) by (destruct view; reflexivity). rewrite Es.
  assert (Ea : analyze e false stmt = extract (S (S (S (S (3 * depth stmt + 6))))) e XCreateInsert stmt empty_ctx).
  { replace (S (S (S (S (3 * depth stmt + 6))))) with (3 * depth stmt + 10) by lia. destruct view; reflexivity. }
  set (F := 3 * depth stmt + 6) in *.
  rewrite Ea, extract_ci_eq. unfold stmt at 2. rewrite (lcs_node noise Hnoise) by (destruct view; reflexivity).
  cbn [filter]. change (nn (kw "create")) with true. change (nn (kw w0)) with true. change (nn (kw "as")) with true.
  change (nn (r_tref t)) with true. unfold Q at 1. rewrite (nn_rq noise). cbn iota. fold Q.
  change (init_holder empty_ctx) with empty_graph. cbn [fold_left].
  rewrite (ci_kw_other e (S (S (S F))) stmt empty_graph false "create" eq_refl eq_refl).
  rewrite (ci_kw_target e (S (S (S F))) stmt empty_graph false false w0) by (destruct view; reflexivity).
  rewrite (ci_tref_md e), (table_of_seg_exact_md t None Ht I).
  change (do d0 <- Ok (tbl e t None); Ok (target_holder e stmt empty_graph d0, false, false))
    with (Ok (target_holder e stmt empty_graph (tbl e t None), false, false) : res (graph * bool * bool)).
  assert (Eth : target_holder e stmt empty_graph (tbl e t None) = add_write empty_graph (tbl e t None)).
  { unfold target_holder. assert (E0 : tyis stmt "insert_statement" = false) by (destruct view; reflexivity). rewrite E0, andb_false_r. reflexivity. }
  rewrite Eth, (ci_kw_other e (S (S (S F))) stmt _ false "as" eq_refl eq_refl).
  unfold Q, q. apply (delegate_select_g_md F stmt _ items from cj k Hit Hne Hrel); reflexivity.
Qed.
End NavMd.

(* ================================================================== *)
(** * Part P': [build] on one holder with ANY provider: what [resolve_all] does *)

Lemma edge_is_cong x y a b e0 : node_eqb x a = true -> node_eqb y b = true -> edge_is x y e0 = edge_is a b e0.
Proof. intros H1 H2. unfold edge_is. rewrite (node_eqb_cong_l _ _ _ H1), (node_eqb_cong_l _ _ _ H2). reflexivity. Qed.

Lemma has_edge_cong g x y a b : node_eqb x a = true -> node_eqb y b = true -> has_edge g x y = has_edge g a b.
Proof.
  intros H1 H2. unfold has_edge. induction (gedges g) as [|e0 r IH]; [reflexivity|]. cbn [has_edge_l].
  rewrite (edge_is_cong x y a b e0 H1 H2), IH. reflexivity.
Qed.

Definition rm_edge (g : graph) (a b : Graph.node) : graph := match remove_edge g a b with Some g2 => g2 | None => g end.

Lemma has_edge_rm_edge g a b x y :
  has_edge (rm_edge g a b) x y = has_edge g x y && negb (node_eqb x a && node_eqb y b).
Proof.
  unfold rm_edge, remove_edge. destruct (has_edge g a b) eqn:Eab.
  - unfold has_edge. cbn [gedges]. induction (gedges g) as [|e0 r IH]; [reflexivity|]. cbn [filter has_edge_l].
    destruct (node_eqb x a && node_eqb y b) eqn:N.
    + apply andb_true_iff in N. destruct N as [N1 N2]. rewrite andb_false_r in *.
      destruct (edge_is a b e0) eqn:E; cbn [negb]; [exact IH|]. cbn [has_edge_l]. rewrite (edge_is_cong x y a b e0 N1 N2), E, IH. reflexivity.
    + rewrite andb_true_r in *. destruct (edge_is a b e0) eqn:E; cbn [negb].
      * rewrite IH. replace (edge_is x y e0) with false; [reflexivity|]. symmetry.
        destruct (edge_is x y e0) eqn:E2; [|reflexivity]. exfalso.
        unfold edge_is in E, E2. apply andb_true_iff in E, E2. destruct E as [A1 A2], E2 as [B1 B2].
        assert (K1 : node_eqb x a = true) by (apply (node_eqb_trans x (fst (fst e0)) a B1); apply node_eqb_true_sym; exact A1).
        assert (K2 : node_eqb y b = true) by (apply (node_eqb_trans y (snd (fst e0)) b B2); apply node_eqb_true_sym; exact A2).
        rewrite K1, K2 in N. discriminate.
      * cbn [has_edge_l]. rewrite IH. reflexivity.
  - destruct (node_eqb x a && node_eqb y b) eqn:N; [|rewrite andb_true_r; reflexivity].
    apply andb_true_iff in N. destruct N as [N1 N2]. rewrite (has_edge_cong g x y a b N1 N2), Eab. reflexivity.
Qed.

Lemma has_node_rm_edge g a b x : has_node (rm_edge g a b) x = has_node g x.
Proof. unfold rm_edge, remove_edge. destruct (has_edge g a b); reflexivity. Qed.

Lemma lits_rm_edge Q g a b : lits_in Q g -> lits_in Q (rm_edge g a b).
Proof.
  intros [H1 H2]. unfold rm_edge, remove_edge. destruct (has_edge g a b); [|split; assumption].
  split; [exact H1|]. cbn [gedges]. intros e0 He0. apply filter_In in He0. apply H2. exact (proj1 He0).
Qed.

Definition memc (x : Graph.node) (cs : list column) : bool := existsb (fun c => node_eqb x (NCol c)) cs.

Lemma has_edge_fold_srcs t a cs : forall g x y,
  has_edge (fold_left (fun g' c => add_edge g' (NCol c) t a) cs g) x y = has_edge g x y || (memc x cs && node_eqb y t).
Proof.
  induction cs as [|c r IH]; intros g x y; cbn [fold_left memc existsb]; [rewrite orb_false_r; reflexivity|].
  rewrite IH, has_edge_add_edge. unfold memc. rewrite <- orb_assoc, <- andb_orb_distrib_l. reflexivity.
Qed.

Lemma has_node_fold_srcs t a cs : forall g x,
  has_node (fold_left (fun g' c => add_edge g' (NCol c) t a) cs g) x = has_node g x || (memc x cs || (negb (is_nil cs) && node_eqb x t)).
Proof.
  induction cs as [|c r IH]; intros g x; cbn [fold_left memc existsb is_nil negb andb]; [rewrite !orb_false_r; reflexivity|].
  rewrite IH, has_node_add_edge. unfold memc. destruct (has_node g x), (node_eqb x (NCol c)), (existsb _ r), (node_eqb x t), r; reflexivity.
Qed.

Lemma lits_fold_srcs Q t a cs : forall g, lits_in Q g -> Q t -> (forall c, In c cs -> Q (NCol c)) ->
  lits_in Q (fold_left (fun g' c => add_edge g' (NCol c) t a) cs g).
Proof.
  induction cs as [|c r IH]; intros g H Ht Hc; cbn [fold_left]; [exact H|].
  apply IH; [apply lits_add_edge; [exact H|apply Hc; left; reflexivity|exact Ht]|exact Ht|intros c' Hc'; apply Hc; right; exact Hc'].
Qed.

(** the candidates the catalog offers for an unresolved column *)
Definition Rmd (p : provider) (u : column) : list column := if p_truthy p then candidates_in_metadata p u else [].

Lemma Rmd_single p u c : In c (Rmd p u) -> exists v, cparents c = [v].
Proof.
  unfold Rmd. destruct (p_truthy p); [|intros []]. unfold candidates_in_metadata. intros H. apply in_flat_map in H. destruct H as (v & _ & H).
  destruct (dk v); try destruct H.
  match type of H with In _ (if ?b then _ else _) => destruct b end; [destruct H|]. apply in_flat_map in H. destruct H as (cn & _ & H).
  match type of H with In _ (if ?b then _ else _) => destruct b end; [|destruct H]. destruct H as [<-|[]]. exists v. reflexivity.
Qed.

Lemma resolve_one_eq p g u t :
  candidates_in_graph g u = [] ->
  resolve_one p g u t = match Rmd p u with
                        | [] => g
                        | cs => rm_edge (fold_left (fun g' c => add_edge g' (NCol c) t lineage_edge) cs g) (NCol u) t
                        end.
Proof. intros H. unfold resolve_one, Rmd, rm_edge. rewrite H. destruct (if p_truthy p then candidates_in_metadata p u else []); reflexivity. Qed.

Lemma single_vs_none x c u : (exists v, cparents c = [v]) -> col_parent u = None ->
  node_eqb x (NCol c) = true -> node_eqb x (NCol u) = true -> False.
Proof.
  intros (v & Ev) Hu H1 H2. pose proof (node_eqb_trans _ _ _ (node_eqb_true_sym _ _ H1) H2) as K. cbn [node_eqb] in K.
  unfold col_eqb in K. apply andb_true_iff in K. destruct K as [_ K]. unfold col_parent at 1 in K. rewrite Ev, Hu in K. discriminate.
Qed.

Section ResolveFold.
Variable p : provider.
Definition Kill (pend : list (column * Graph.node)) (x y : Graph.node) : Prop :=
  exists ut, In ut pend /\ Rmd p (fst ut) <> [] /\ node_eqb x (NCol (fst ut)) = true /\ node_eqb y (snd ut) = true.
Definition Add (pend : list (column * Graph.node)) (x y : Graph.node) : Prop :=
  exists ut c, In ut pend /\ In c (Rmd p (fst ut)) /\ node_eqb x (NCol c) = true /\ node_eqb y (snd ut) = true.
Definition no_cand (g : graph) (u : column) : Prop :=
  forall v, In v (cparents u) -> has_edge g (NData v) (NCol (mk_col (craw u) v)) = false.

Lemma no_cand_graph g u : no_cand g u -> candidates_in_graph g u = [].
Proof. intros H. unfold candidates_in_graph. apply flat_map_none. intros v Hv. rewrite (H v Hv). reflexivity. Qed.

Lemma memc_In x cs : memc x cs = true <-> exists c, In c cs /\ node_eqb x (NCol c) = true.
Proof. unfold memc. apply existsb_exists. Qed.

Lemma resolve_fold : forall pend g,
  (forall ut, In ut pend -> col_parent (fst ut) = None /\ no_cand g (fst ut)) ->
  let g1 := fold_left (fun g' ut => resolve_one p g' (fst ut) (snd ut)) pend g in
  (forall x y, has_edge g1 x y = true <-> (has_edge g x y = true /\ ~ Kill pend x y) \/ Add pend x y) /\
  (forall x, has_node g x = true -> has_node g1 x = true) /\
  (forall ut c, In ut pend -> In c (Rmd p (fst ut)) -> has_node g1 (NCol c) = true /\ has_node g1 (snd ut) = true) /\
  (forall Q : Graph.node -> Prop, lits_in Q g -> (forall ut c, In ut pend -> In c (Rmd p (fst ut)) -> Q (NCol c) /\ Q (snd ut)) -> lits_in Q g1).
Proof.
  induction pend as [|[u t] rest IH]; intros g Hp; cbn [fold_left fst snd].
  - split; [|split; [auto|split; [intros ut c []|auto]]]. intros x y. split.
    + intros H. left. split; [exact H|]. intros (ut & [] & _).
    + intros [[H _]|(ut & c & [] & _)]. exact H.
  - destruct (Hp (u, t) (or_introl eq_refl)) as [Hu Hnc]. cbn [fst] in Hu, Hnc.
    rewrite (resolve_one_eq p g u t (no_cand_graph g u Hnc)).
    set (g2 := match Rmd p u with [] => g | c0 :: cs => rm_edge (fold_left (fun g' c => add_edge g' (NCol c) t lineage_edge) (c0 :: cs) g) (NCol u) t end).
    assert (E2 : forall x y, has_edge g2 x y =
                 match Rmd p u with [] => has_edge g x y
                 | _ :: _ => (has_edge g x y || (memc x (Rmd p u) && node_eqb y t)) && negb (node_eqb x (NCol u) && node_eqb y t) end).
    { intros x y. unfold g2. destruct (Rmd p u) as [|c0 cs] eqn:ER; [reflexivity|]. rewrite has_edge_rm_edge, has_edge_fold_srcs. reflexivity. }
    assert (N2 : forall x, has_node g x = true -> has_node g2 x = true).
    { intros x Hx. unfold g2. destruct (Rmd p u) as [|c0 cs]; [exact Hx|]. rewrite has_node_rm_edge, has_node_fold_srcs, Hx. reflexivity. }
    assert (L2 : forall Q : Graph.node -> Prop, lits_in Q g -> (forall c, In c (Rmd p u) -> Q (NCol c) /\ Q t) -> lits_in Q g2).
    { intros Q HQ Hc. unfold g2. destruct (Rmd p u) as [|c0 cs] eqn:ER; [exact HQ|]. apply lits_rm_edge.
      apply lits_fold_srcs; [exact HQ|exact (proj2 (Hc c0 (or_introl eq_refl)))|intros c Hc'; exact (proj1 (Hc c Hc'))]. }
    assert (Hp2 : forall ut, In ut rest -> col_parent (fst ut) = None /\ no_cand g2 (fst ut)).
    { intros ut Hut. destruct (Hp ut (or_intror Hut)) as [A B]. split; [exact A|]. intros v Hv. rewrite E2.
      destruct (Rmd p u); [exact (B v Hv)|]. unfold memc. rewrite (B v Hv).
      replace (existsb (fun c1 => node_eqb (NData v) (NCol c1)) (c :: l)) with false; [reflexivity|].
      symmetry. apply existsb_none. intros c1 _. reflexivity. }
    destruct (IH g2 Hp2) as (I1 & I2 & I3 & I4). cbv zeta in I1, I2, I3, I4.
    set (g1 := fold_left (fun g' ut => resolve_one p g' (fst ut) (snd ut)) rest g2) in *.
    split; [|split; [|split]].
    + intros x y. rewrite I1, E2. split.
      * intros [[H NK]|HA]; [|right; destruct HA as (ut & c & H1 & H2); exists ut, c; split; [right; exact H1|exact H2]].
        destruct (Rmd p u) as [|c0 cs] eqn:ER.
        -- left. split; [exact H|]. intros (ut & [<-|Hut] & K1 & K2); [cbn [fst] in K1; congruence|]. apply NK. exists ut. auto.
        -- apply andb_true_iff in H. destruct H as [H NK1]. apply orb_true_iff in H. destruct H as [H|H].
           ++ left. split; [exact H|]. intros (ut & [<-|Hut] & K1 & K2 & K3); [cbn [fst snd] in *; rewrite K2, K3 in NK1; discriminate|].
              apply NK. exists ut. auto.
           ++ right. apply andb_true_iff in H. destruct H as [H1 H2]. apply memc_In in H1. destruct H1 as (c & Hc & Ec).
              exists (u, t), c. cbn [fst snd]. rewrite ER. split; [left; reflexivity|auto].
      * intros [[H NK]|(ut & c & Hut & Hc & Ec & Et)].
        -- left. split.
           ++ destruct (Rmd p u) as [|c0 cs] eqn:ER; [exact H|]. rewrite H. cbn [orb andb].
              destruct (node_eqb x (NCol u) && node_eqb y t) eqn:N; [|reflexivity]. exfalso. apply andb_true_iff in N.
              apply NK. exists (u, t). cbn [fst snd]. rewrite ER. split; [left; reflexivity|]. split; [discriminate|exact N].
           ++ intros (ut & Hut & K). apply NK. exists ut. split; [right; exact Hut|exact K].
        -- destruct Hut as [<-|Hut]; [|right; exists ut, c; auto]. cbn [fst snd] in *.
           left. split.
           ++ destruct (Rmd p u) as [|c0 cs] eqn:ER; [destruct Hc|].
              assert (M : memc x (c0 :: cs) = true) by (apply memc_In; exists c; auto). rewrite M, Et, orb_true_r. cbn [andb].
              destruct (node_eqb x (NCol u)) eqn:N; [|reflexivity]. exfalso.
              apply (single_vs_none x c u); [apply (Rmd_single p u); rewrite ER; exact Hc|exact Hu|exact Ec|exact N].
           ++ intros (ut' & Hut' & _ & K2 & _). destruct (Hp ut' (or_intror Hut')) as [Hu' _].
              apply (single_vs_none x c (fst ut')); [apply (Rmd_single p u); exact Hc|exact Hu'|exact Ec|exact K2].
    + intros x Hx. apply I2. apply N2. exact Hx.
    + intros ut c [<-|Hut] Hc; [|apply (I3 ut c Hut Hc)]. cbn [fst snd] in *.
      assert (K : has_node g2 (NCol c) = true /\ has_node g2 t = true).
      { unfold g2. destruct (Rmd p u) as [|c0 cs] eqn:ER; [destruct Hc|]. rewrite !has_node_rm_edge, !has_node_fold_srcs.
        assert (M : memc (NCol c) (c0 :: cs) = true) by (apply memc_In; exists c; split; [exact Hc|apply node_eqb_refl]).
        rewrite M, node_eqb_refl. cbn [is_nil negb andb]. rewrite !orb_true_r. auto. }
      destruct K as [K1 K2]. split; apply I2; assumption.
    + intros Q HQ Hc. apply I4.
      * apply L2; [exact HQ|]. intros c Hc'. apply (Hc (u, t) c (or_introl eq_refl) Hc').
      * intros ut c Hut Hc'. apply (Hc ut c (or_intror Hut) Hc').
Qed.
End ResolveFold.

(** ** the final sweep of [resolve_all]: isolated unresolved columns are dropped *)
Lemma degree_cong' g a b : node_eqb a b = true -> degree g a = degree g b.
Proof.
  intros H. unfold degree, out_edges, in_edges.
  rewrite (filter_ext _ (fun e0 : Graph.node * Graph.node * eattrs => node_eqb b (fst (fst e0))) (fun e0 => node_eqb_cong_l _ _ _ H)).
  rewrite (filter_ext _ (fun e0 : Graph.node * Graph.node * eattrs => node_eqb b (snd (fst e0))) (fun e0 => node_eqb_cong_l _ _ _ H)).
  reflexivity.
Qed.

Lemma degree_pos_in g x n : has_edge g x n = true -> degree g n <> 0.
Proof.
  intros H. apply has_edge_In in H. destruct H as (e0 & He & _ & E2). unfold degree.
  assert (Hin : In e0 (in_edges g n)) by (unfold in_edges; apply filter_In; auto).
  destruct (in_edges g n); [destruct Hin|]. cbn [List.length]. lia.
Qed.

Lemma degree_zero_edges g n e0 : degree g n = 0 -> In e0 (gedges g) ->
  node_eqb n (fst (fst e0)) = false /\ node_eqb n (snd (fst e0)) = false.
Proof.
  intros Hd He. unfold degree in Hd. split.
  - destruct (node_eqb n (fst (fst e0))) eqn:E; [|reflexivity]. exfalso.
    assert (Hin : In e0 (out_edges g n)) by (unfold out_edges; apply filter_In; auto).
    destruct (out_edges g n); [destruct Hin|cbn [List.length] in Hd; lia].
  - destruct (node_eqb n (snd (fst e0))) eqn:E; [|reflexivity]. exfalso.
    assert (Hin : In e0 (in_edges g n)) by (unfold in_edges; apply filter_In; auto).
    destruct (in_edges g n); [destruct Hin|cbn [List.length] in Hd; lia].
Qed.

Lemma has_node_remove_node g n x : node_eqb n x = false -> has_node (remove_node g n) x = has_node g x.
Proof.
  intros H. unfold has_node, remove_node. cbn [gnodes]. induction (gnodes g) as [|[m a] r IH]; [reflexivity|].
  cbn [filter fst has_node_l]. destruct (node_eqb n m) eqn:E; cbn [negb has_node_l].
  - rewrite IH. replace (node_eqb x m) with false; [reflexivity|]. symmetry. destruct (node_eqb x m) eqn:E2; [|reflexivity].
    rewrite (node_eqb_trans n m x E (node_eqb_true_sym _ _ E2)) in H. discriminate.
  - rewrite IH. reflexivity.
Qed.

Definition sweep (g1 : graph) (g' : graph) (pn : Graph.node * nattrs) : graph :=
  match unresolved (fst pn) with
  | Some _ => if Nat.eqb (degree g1 (fst pn)) 0 then remove_node g' (fst pn) else g'
  | None => g'
  end.

Lemma sweep_fold g1 : forall L g',
  gedges g' = gedges g1 ->
  gedges (fold_left (sweep g1) L g') = gedges g1 /\
  (forall x, has_node g' x = true -> degree g1 x <> 0 -> has_node (fold_left (sweep g1) L g') x = true) /\
  (forall m, In m (map fst (gnodes (fold_left (sweep g1) L g'))) -> In m (map fst (gnodes g'))).
Proof.
  induction L as [|[n a] L IH]; intros g' He; cbn [fold_left]; [auto|].
  unfold sweep at 2 4 6. cbn [fst]. destruct (unresolved n) as [u|]; [|apply IH; exact He].
  destruct (Nat.eqb (degree g1 n) 0) eqn:Ed; [|apply IH; exact He]. apply Nat.eqb_eq in Ed.
  assert (He' : gedges (remove_node g' n) = gedges g1).
  { unfold remove_node. cbn [gedges]. rewrite He. apply filter_all. intros e0 He0.
    destruct (degree_zero_edges g1 n e0 Ed He0) as [A B]. rewrite A, B. reflexivity. }
  destruct (IH (remove_node g' n) He') as (I1 & I2 & I3). split; [exact I1|]. split.
  - intros x Hx Hdx. apply I2; [|exact Hdx]. rewrite has_node_remove_node; [exact Hx|].
    destruct (node_eqb n x) eqn:E; [|reflexivity]. exfalso. apply Hdx. rewrite <- (degree_cong' g1 n x E). exact Ed.
  - intros m Hm. specialize (I3 m Hm). unfold remove_node in I3. cbn [gnodes] in I3. apply in_map_iff in I3.
    destruct I3 as (pa & <- & Hpa). apply filter_In in Hpa. apply in_map. exact (proj1 Hpa).
Qed.

Definition pending_of (g : graph) : list (column * Graph.node) :=
  flat_map (fun e0 : Graph.node * Graph.node * eattrs =>
              match unresolved (fst (fst e0)) with Some u => [(u, snd (fst e0))] | None => [] end) (gedges g).

Lemma resolve_all_eq p g :
  resolve_all p g =
  fold_left (sweep (fold_left (fun g' ut => resolve_one p g' (fst ut) (snd ut)) (pending_of g) g))
            (gnodes (fold_left (fun g' ut => resolve_one p g' (fst ut) (snd ut)) (pending_of g) g))
            (fold_left (fun g' ut => resolve_one p g' (fst ut) (snd ut)) (pending_of g) g).
Proof. reflexivity. Qed.

(** ** everything [build] does before [resolve_all] (as in [build_one]) *)
Lemma pre_resolve G :
  clean_holder G ->
  exists gY, (forall p, build p [holder_of G] = BOk (resolve_all p gY)) /\
             (forall x y, colpair x y -> has_edge gY x y = has_edge G x y) /\
             (forall x, has_node G x = true -> has_node gY x = true) /\
             (forall Q : Graph.node -> Prop, (forall d, Q (NData d)) -> lits_in Q G -> lits_in Q gY).
Proof.
  intros [Hd Hr]. unfold build. cbn [fold_steps]. unfold step.
  assert (Ed : h_drop (holder_of G) = []).
  { unfold h_drop, tagged, holder_of. cbn [hg]. rewrite (filter_none _ (gnodes G)); [reflexivity|].
    intros [n a] Hin. cbn [fst snd]. rewrite (Hd n a Hin). reflexivity. }
  assert (Er : h_renames (holder_of G) = []).
  { unfold holder_of. cbn [h_renames]. apply flat_map_none. intros e He. apply edges_nx_In in He. rewrite (Hr e He). reflexivity. }
  rewrite Ed, Er. set (g := compose empty_graph (hg (holder_of G))).
  set (rs := h_read (holder_of G)). set (ws := h_write (holder_of G)).
  assert (Hrs : forall n, In n rs -> exists d, n = NData d) by (intros n Hn; exact (tagged_data _ _ _ Hn)).
  assert (Hws : forall n, In n ws -> exists d, n = NData d) by (intros n Hn; exact (tagged_data _ _ _ Hn)).
  assert (K : exists gX, match rs with
                         | [] => match ws with
                                 | [] => BOk (add_product [] [] g)
                                 | _ :: _ => BOk (set_attr g ws "target_only" true)
                                 end
                         | n :: l => match ws with
                                     | [] => BOk (set_attr g rs "source_only" true)
                                     | n0 :: l0 => BOk (add_product (n :: l) (n0 :: l0) g)
                                     end
                         end = BOk gX /\
                         (forall x y, colpair x y -> has_edge gX x y = has_edge G x y) /\
                         (forall x, has_node G x = true -> has_node gX x = true) /\
                         (forall Q : Graph.node -> Prop, (forall d, Q (NData d)) -> lits_in Q G -> lits_in Q gX)).
  { assert (G1 : forall x y, has_edge g x y = has_edge G x y) by (intros x y; unfold g; rewrite has_edge_compose; reflexivity).
    assert (G2 : forall x, has_node g x = has_node G x) by (intros x; unfold g; rewrite has_node_compose; reflexivity).
    assert (G3 : forall Q : Graph.node -> Prop, lits_in Q G -> lits_in Q g).
    { intros Q HQ. unfold g. apply lits_compose; [apply lits_in_empty|exact HQ]. }
    assert (KP : forall rs' ws', (forall n, In n rs' -> exists d, n = NData d) -> (forall n, In n ws' -> exists d, n = NData d) ->
                 (forall x y, colpair x y -> has_edge (add_product rs' ws' g) x y = has_edge G x y) /\
                 (forall x, has_node G x = true -> has_node (add_product rs' ws' g) x = true) /\
                 (forall Q : Graph.node -> Prop, (forall d, Q (NData d)) -> lits_in Q G -> lits_in Q (add_product rs' ws' g))).
    { intros rs' ws' Hrs' Hws'. split; [|split].
      - intros x y Hxy. rewrite has_edge_add_product, G1. destruct Hxy as [Hx|Hy].
        + rewrite (memn_data_col x rs' Hx Hrs'). rewrite orb_false_r. reflexivity.
        + rewrite (memn_data_col y ws' Hy Hws'). rewrite andb_false_r, orb_false_r. reflexivity.
      - intros x Hx. apply has_node_add_product. rewrite G2. exact Hx.
      - intros Q HQd HQ. apply lits_add_product; [apply G3; exact HQ| |].
        + intros r Hr'. destruct (Hrs' r Hr') as [d ->]. apply HQd.
        + intros w Hw'. destruct (Hws' w Hw') as [d ->]. apply HQd. }
    assert (KS : forall ns k, (forall x y, colpair x y -> has_edge (set_attr g ns k true) x y = has_edge G x y) /\
                 (forall x, has_node G x = true -> has_node (set_attr g ns k true) x = true) /\
                 (forall Q : Graph.node -> Prop, (forall d, Q (NData d)) -> lits_in Q G -> lits_in Q (set_attr g ns k true))).
    { intros ns k. split; [|split].
      - intros x y _. rewrite has_edge_set_attr. apply G1.
      - intros x Hx. rewrite has_node_set_attr, G2. exact Hx.
      - intros Q _ HQ. apply lits_set_attr. apply G3. exact HQ. }
    destruct rs as [|r0 rs'], ws as [|w0 ws']; eexists; (split; [reflexivity|]); try apply KP; try apply KS; auto. }
  destruct K as (gX & EX & X1 & X2 & X3).
  exists (set_attr gX (selfloop_nodes gX) "selfloop" true). split; [intros p; rewrite EX; reflexivity|]. split; [|split].
  - intros x y H. rewrite has_edge_set_attr. apply X1. exact H.
  - intros x H. rewrite has_node_set_attr. apply X2. exact H.
  - intros Q HQd HQ. apply lits_set_attr. apply X3; assumption.
Qed.

(** ** the flows after resolution *)
Definition rflows (p : provider) (FL : list flow) : list flow :=
  flat_map (fun f : flow => match unresolved (NCol (fst f)) with
                            | Some u => match Rmd p u with [] => [f] | c0 :: cs => map (fun c => (c, snd f)) (c0 :: cs) end
                            | None => [f]
                            end) FL.

Lemma unresolved_col n u : unresolved n = Some u -> n = NCol u /\ col_parent u = None /\ 2 <= List.length (cparents u).
Proof.
  destruct n as [|c|]; cbn [unresolved]; try discriminate. destruct (Nat.ltb 1 (List.length (cparents c))) eqn:E; [|discriminate].
  intros H. inversion H. subst u. apply Nat.ltb_lt in E. split; [reflexivity|]. split; [apply col_parent_none; lia|lia].
Qed.

Lemma unresolved_of c : col_parent c = None -> cparents c <> [] -> unresolved (NCol c) = Some c.
Proof.
  intros H1 H2. cbn [unresolved]. unfold col_parent in H1. destruct (cparents c) as [|a [|b r]]; [congruence|discriminate|reflexivity].
Qed.

Lemma In_rflows p FL f' :
  In f' (rflows p FL) <->
  exists f, In f FL /\
    ((f' = f /\ (unresolved (NCol (fst f)) = None \/ Rmd p (fst f) = [])) \/
     (unresolved (NCol (fst f)) = Some (fst f) /\ exists c, In c (Rmd p (fst f)) /\ f' = (c, snd f))).
Proof.
  unfold rflows. rewrite in_flat_map. split.
  - intros (f & Hf & H). exists f. split; [exact Hf|]. destruct (unresolved (NCol (fst f))) as [u|] eqn:Eu.
    + destruct (unresolved_col _ _ Eu) as (E1 & _). inversion E1. subst u.
      destruct (Rmd p (fst f)) as [|c0 cs] eqn:ER.
      * destruct H as [<-|[]]. left. auto.
      * right. split; [reflexivity|]. apply in_map_iff in H. destruct H as (c & <- & Hc). exists c. auto.
    + destruct H as [<-|[]]. left. auto.
  - intros (f & Hf & [[-> H]|(Eu & c & Hc & ->)]); exists f; (split; [exact Hf|]).
    + destruct (unresolved (NCol (fst f))) as [u|] eqn:Eu; [|left; reflexivity].
      destruct (unresolved_col _ _ Eu) as (E1 & _). inversion E1. subst u. destruct H as [H|H]; [discriminate|]. rewrite H. left. reflexivity.
    + rewrite Eu. destruct (Rmd p (fst f)) as [|c0 cs] eqn:ER; [destruct Hc|]. apply in_map_iff. exists c. auto.
Qed.

Lemma flat_map_nil_inv {A B} (f : A -> list B) l : flat_map f l = [] -> forall x, In x l -> f x = [].
Proof.
  induction l as [|a r IH]; intros H x Hx; [destruct Hx|]. cbn [flat_map] in H. apply app_eq_nil in H. destruct H as [H1 H2].
  destruct Hx as [<-|Hx]; [exact H1|apply IH; assumption].
Qed.

Theorem build_md p G FL :
  clean_holder G -> lits_in (unres_ok G) G -> realises G FL -> flows_ok FL ->
  lits_in (fun n => forall u f, unresolved n = Some u -> In f FL -> node_eqb n (NCol (fst f)) = true -> fst f = u) G ->
  lits_in (fun n => forall c, n = NCol c -> cparents c <> []) G ->
  (forall f f2 c, In f FL -> In f2 FL -> In c (Rmd p (fst f2)) -> col_eqb (snd f) c = false) ->
  exists gF, build p [holder_of G] = BOk gF /\ realises gF (rflows p FL) /\ flows_ok (rflows p FL).
Proof.
  intros Hc Hu R [F1 F2] H5 H7 H8.
  destruct (pre_resolve G Hc) as (gY & EY & Y1 & Y2 & Y3).
  assert (LYu : lits_in (unres_ok G) gY) by (apply Y3; [intros d u Hu'; discriminate|exact Hu]).
  assert (LY5 : lits_in (fun n => forall u f, unresolved n = Some u -> In f FL -> node_eqb n (NCol (fst f)) = true -> fst f = u) gY)
    by (apply Y3; [intros d u f Hu'; discriminate|exact H5]).
  assert (LY7 : lits_in (fun n => forall c, n = NCol c -> cparents c <> []) gY) by (apply Y3; [intros d c K; discriminate|exact H7]).
  set (pend := pending_of gY).
  set (g1 := fold_left (fun g' ut => resolve_one p g' (fst ut) (snd ut)) pend gY).
  (* pending edges *)
  assert (P1 : forall u t, In (u, t) pend <-> exists e0, In e0 (gedges gY) /\ fst (fst e0) = NCol u /\ unresolved (NCol u) = Some u /\ t = snd (fst e0)).
  { intros u t. unfold pend, pending_of. rewrite in_flat_map. split.
    - intros (e0 & He0 & H). destruct (unresolved (fst (fst e0))) as [u'|] eqn:Eu; [|destruct H]. destruct H as [H|[]]. inversion H. subst u' t.
      destruct (unresolved_col _ _ Eu) as (E1 & _). exists e0. rewrite E1 in Eu. auto.
    - intros (e0 & He0 & E1 & Eu & ->). exists e0. split; [exact He0|]. rewrite E1, Eu. left. reflexivity. }
  assert (Hpend : forall ut, In ut pend -> col_parent (fst ut) = None /\ no_cand gY (fst ut)).
  { intros [u t] Hut. apply P1 in Hut. destruct Hut as (e0 & He0 & E1 & Eu & _). cbn [fst].
    destruct (unresolved_col _ _ Eu) as (_ & Hn & _). split; [exact Hn|].
    destruct (proj2 LYu e0 He0) as [K _]. rewrite E1 in K. destruct (K u Eu) as [Kc _].
    intros v Hv. rewrite Y1 by (right; reflexivity). unfold candidates_in_graph in Kc.
    pose proof (flat_map_nil_inv _ _ Kc v Hv) as Kv. cbv beta zeta in Kv.
    destruct (has_edge G (NData v) (NCol (mk_col (craw u) v))); [discriminate|reflexivity]. }
  destruct (resolve_fold p pend gY Hpend) as (I1 & I2 & I3 & I4). cbv zeta in I1, I2, I3, I4. fold g1 in I1, I2, I3, I4.
  destruct (sweep_fold g1 (gnodes g1) g1 eq_refl) as (S1 & S2 & S3).
  set (gF := fold_left (sweep g1) (gnodes g1) g1) in *.
  assert (EF : build p [holder_of G] = BOk gF) by (rewrite EY, resolve_all_eq; reflexivity).
  assert (HEF : forall x y, has_edge gF x y = has_edge g1 x y) by (intros x y; unfold has_edge; rewrite S1; reflexivity).
  (* a literal of gY that equals an unresolved flow source is that column *)
  assert (Lit : forall n f, (In n (map fst (gnodes gY)) \/ exists e0, In e0 (gedges gY) /\ (n = fst (fst e0) \/ n = snd (fst e0))) ->
                 In f FL -> col_parent (fst f) = None -> node_eqb n (NCol (fst f)) = true -> n = NCol (fst f) /\ unresolved n = Some (fst f)).
  { intros n f Hn Hf Hpn E.
    assert (Q5 : forall u f, unresolved n = Some u -> In f FL -> node_eqb n (NCol (fst f)) = true -> fst f = u).
    { destruct Hn as [Hn|(e0 & He0 & [-> | ->])]; [exact (proj1 LY5 n Hn)|exact (proj1 (proj2 LY5 e0 He0))|exact (proj2 (proj2 LY5 e0 He0))]. }
    assert (Q7 : forall c, n = NCol c -> cparents c <> []).
    { destruct Hn as [Hn|(e0 & He0 & [-> | ->])]; [exact (proj1 LY7 n Hn)|exact (proj1 (proj2 LY7 e0 He0))|exact (proj2 (proj2 LY7 e0 He0))]. }
    destruct n as [|c|]; cbn [node_eqb] in E; try discriminate.
    assert (Hc0 : col_parent c = None).
    { unfold col_eqb in E. apply andb_true_iff in E. destruct E as [_ E]. rewrite Hpn in E. destruct (col_parent c); [discriminate|reflexivity]. }
    pose proof (unresolved_of c Hc0 (Q7 c eq_refl)) as Ec. pose proof (Q5 c f Ec Hf E) as Efc. rewrite Efc. split; [reflexivity|exact Ec]. }
  assert (TgtSingle : forall f, In f FL -> exists v, cparents (snd f) = [v]).
  { intros f Hf. specialize (F2 f Hf). cbn [parent_is] in F2. destruct (col_parent (snd f)) as [v|] eqn:E; [|discriminate].
    exists v. apply col_parent_some. exact E. }
  (* edges of the result, from columns *)
  assert (Sound : forall x y, is_column x = true -> has_edge gF x y = true ->
                  exists f', In f' (rflows p FL) /\ node_eqb x (NCol (fst f')) = true /\ node_eqb y (NCol (snd f')) = true).
  { intros x y Hx H. rewrite HEF in H. apply I1 in H. destruct H as [[H NK]|(ut & c & Hut & Hc' & Ex & Ey)].
    - rewrite Y1 in H by (left; exact Hx). destruct (r_sound _ _ R x y Hx H) as (f & Hf & E1 & E2).
      exists f. split; [|auto]. apply In_rflows. exists f. split; [exact Hf|]. left. split; [reflexivity|].
      destruct (unresolved (NCol (fst f))) as [u|] eqn:Eu; [|left; reflexivity]. right.
      destruct (unresolved_col _ _ Eu) as (E0 & Hpn & _). inversion E0. subst u.
      destruct (Rmd p (fst f)) as [|c0 cs] eqn:ER; [reflexivity|]. exfalso. apply NK.
      rewrite <- Y1 in H by (left; exact Hx). apply has_edge_In in H. destruct H as (e0 & He0 & A1 & A2).
      assert (El : node_eqb (fst (fst e0)) (NCol (fst f)) = true) by (apply (node_eqb_trans _ x _ (node_eqb_true_sym _ _ A1) E1)).
      destruct (Lit (fst (fst e0)) f (or_intror (ex_intro _ e0 (conj He0 (or_introl eq_refl)))) Hf Hpn El) as [L1 L2].
      exists (fst f, snd (fst e0)). split; [apply P1; exists e0; rewrite <- L1; auto|]. cbn [fst snd]. rewrite ER. split; [discriminate|]. split; [exact E1|exact A2].
    - destruct ut as [u t]. cbn [fst snd] in *. apply P1 in Hut. destruct Hut as (e0 & He0 & L1 & Eu & ->).
      assert (Hh : has_edge G (NCol u) (snd (fst e0)) = true).
      { rewrite <- Y1 by (left; reflexivity). apply has_edge_In. exists e0. rewrite L1. split; [exact He0|]. split; apply node_eqb_refl. }
      destruct (r_sound _ _ R (NCol u) _ eq_refl Hh) as (f & Hf & E1 & E2).
      assert (Ef : fst f = u).
      { apply (proj1 (proj2 LY5 e0 He0) u f); [rewrite L1; exact Eu|exact Hf|rewrite L1; exact E1]. }
      exists (c, snd f). split.
      + apply In_rflows. exists f. split; [exact Hf|]. right. rewrite Ef. split; [exact Eu|]. exists c. auto.
      + cbn [fst snd]. split; [exact Ex|]. apply (node_eqb_trans _ _ _ Ey E2). }
  assert (Complete : forall f', In f' (rflows p FL) -> has_edge gF (NCol (fst f')) (NCol (snd f')) = true).
  { intros f' Hf'. rewrite HEF. apply I1. apply In_rflows in Hf'. destruct Hf' as (f & Hf & [[-> Hk]|(Eu & c & Hc' & ->)]).
    - left. split; [rewrite Y1 by (left; reflexivity); exact (r_complete _ _ R f Hf)|].
      intros ([u t] & Hut & K1 & K2 & _). cbn [fst snd] in *. apply P1 in Hut. destruct Hut as (e0 & He0 & L1 & Eu & _).
      assert (Ef : fst f = u).
      { apply (proj1 (proj2 LY5 e0 He0) u f); [rewrite L1; exact Eu|exact Hf|rewrite L1; apply node_eqb_true_sym; exact K2]. }
      subst u. destruct Hk as [Hk|Hk]; congruence.
    - right. cbn [fst snd].
      pose proof (r_complete _ _ R f Hf) as Hh. rewrite <- Y1 in Hh by (left; reflexivity). apply has_edge_In in Hh. destruct Hh as (e0 & He0 & A1 & A2).
      destruct (unresolved_col _ _ Eu) as (_ & Hpn & _).
      destruct (Lit (fst (fst e0)) f (or_intror (ex_intro _ e0 (conj He0 (or_introl eq_refl)))) Hf Hpn (node_eqb_true_sym _ _ A1)) as [L1 L2].
      exists (fst f, snd (fst e0)), c. cbn [fst snd]. split; [apply P1; exists e0; auto|]. split; [exact Hc'|]. split; [apply node_eqb_refl|exact A2]. }
  exists gF. split; [exact EF|]. split.
  - constructor.
    + exact Sound.
    + exact Complete.
    + intros f' Hf'. pose proof (Complete f' Hf') as Hh. rewrite HEF in Hh.
      assert (N1 : has_node g1 (NCol (fst f')) = true /\ has_node g1 (NCol (snd f')) = true).
      { apply In_rflows in Hf'. destruct Hf' as (f & Hf & [[-> _]|(Eu & c & Hc' & ->)]).
        - destruct (r_nodes _ _ R f Hf) as [A B]. split; apply I2; apply Y2; assumption.
        - cbn [fst snd]. destruct (r_nodes _ _ R f Hf) as [_ B]. split; [|apply I2; apply Y2; exact B].
          pose proof (r_complete _ _ R f Hf) as Hh'. rewrite <- Y1 in Hh' by (left; reflexivity). apply has_edge_In in Hh'. destruct Hh' as (e0 & He0 & A1 & A2).
          destruct (unresolved_col _ _ Eu) as (_ & Hpn & _).
          destruct (Lit (fst (fst e0)) f (or_intror (ex_intro _ e0 (conj He0 (or_introl eq_refl)))) Hf Hpn (node_eqb_true_sym _ _ A1)) as [L1 L2].
          assert (Hut : In (fst f, snd (fst e0)) pend) by (apply P1; exists e0; auto).
          exact (proj1 (I3 _ c Hut Hc')). }
      destruct N1 as [N1 N2]. split; apply S2; try assumption; [apply (degree_pos g1 _ _ Hh)|apply (degree_pos_in g1 _ _ Hh)].
    + (* printed names of the stored sources *)
      set (Q := fun n : Graph.node => forall f', In f' (rflows p FL) -> node_eqb n (NCol (fst f')) = true -> src_str n = src_str (NCol (fst f'))).
      assert (Q0 : forall n, (forall f, In f FL -> node_eqb n (NCol (fst f)) = true -> src_str n = src_str (NCol (fst f))) -> Q n).
      { intros n H0 f' Hf' E. apply In_rflows in Hf'. destruct Hf' as (f & Hf & [[-> _]|(Eu & c & Hc' & ->)]); [apply H0; assumption|].
        cbn [fst] in *. destruct (Rmd_single p _ c Hc') as (v & Ev). apply (src_str_eqb_single n c v); [unfold col_parent; rewrite Ev; reflexivity|exact E]. }
      assert (LQY : lits_in Q gY).
      { apply (lits_weaken (fun n => forall f, In f FL -> node_eqb n (NCol (fst f)) = true -> src_str n = src_str (NCol (fst f)))); [exact Q0|].
        apply Y3; [intros d f _ E; discriminate E|exact (r_lits _ _ R)]. }
      assert (LQ1 : lits_in Q g1).
      { apply I4; [exact LQY|]. intros [u t] c Hut Hc'. cbn [fst snd] in *. split.
        - intros f' Hf' E. destruct (Rmd_single p u c Hc') as (v & Ev). pose proof E as E0.
          cbn [node_eqb] in E. unfold col_eqb in E. apply andb_true_iff in E. destruct E as [_ E]. unfold col_parent at 1 in E. rewrite Ev in E.
          destruct (col_parent (fst f')) as [w|] eqn:Ew; [|discriminate].
          apply (src_str_eqb_single (NCol c) (fst f') w Ew E0).
        - apply P1 in Hut. destruct Hut as (e0 & He0 & _ & _ & ->). exact (proj2 (proj2 LQY e0 He0)). }
      split.
      * intros n Hn. apply (proj1 LQ1). apply S3. exact Hn.
      * intros e0 He0. rewrite S1 in He0. exact (proj2 LQ1 e0 He0).
  - split.
    + intros f' f'' Hf' Hf''. apply In_rflows in Hf', Hf''.
      destruct Hf' as (f & Hf & Hk). assert (Es : snd f' = snd f) by (destruct Hk as [[-> _]|(_ & c & _ & ->)]; reflexivity). rewrite Es.
      destruct Hf'' as (f2 & Hf2 & [[-> _]|(Eu & c & Hc' & ->)]); [apply F1; assumption|]. cbn [fst]. apply (H8 f f2 c Hf Hf2 Hc').
    + intros f' Hf'. apply In_rflows in Hf'. destruct Hf' as (f & Hf & Hk).
      assert (Es : snd f' = snd f) by (destruct Hk as [[-> _]|(_ & c & _ & ->)]; reflexivity). rewrite Es. apply F2. exact Hf.
Qed.

(** ** from the holder of one statement to the reported pairs, with the catalog [base] *)
Definition final_provider (e : env) (base : catalog) (G : graph) : provider :=
  {| p_truthy := p_truthy (e_provider e);
     p_cols := view_cols (match registration G with Some kv => [kv] | None => [] end) base |}.

Theorem script_pairs_of_holder_md e base stmt G FL :
  analyze (with_cols e (view_cols [] base)) false stmt = Ok G ->
  clean_holder G -> lits_in (unres_ok G) G -> realises G FL -> flows_ok FL ->
  lits_in (fun n => forall u f, unresolved n = Some u -> In f FL -> node_eqb n (NCol (fst f)) = true -> fst f = u) G ->
  lits_in (fun n => forall c, n = NCol c -> cparents c <> []) G ->
  (forall f f2 c, In f FL -> In f2 FL -> In c (Rmd (final_provider e base G) (fst f2)) -> col_eqb (snd f) c = false) ->
  script_pairs e false base [stmt] = uniq_sorted (sort_strings (map flow_str (rflows (final_provider e base G) FL))).
Proof.
  intros Ea Hc Hu R F H5 H7 H8. unfold script_pairs, script_graph. cbn [run_statements]. rewrite Ea. cbn [rev app fst snd map].
  destruct (build_md (final_provider e base G) G FL Hc Hu R F H5 H7 H8) as (gF & E & RF & FF).
  unfold final_provider in E. destruct (registration G) as [kv|]; cbn [rev app fst snd map] in *; rewrite E;
    apply us_ext; apply lineage_of_realises; assumption.
Qed.

(* ================================================================== *)
(** * Part A': the wildcard expansion when it has nothing to do *)
Lemma In_insert_by_idx (x y : column * nat) l : In y (insert_by_idx x l) <-> y = x \/ In y l.
Proof.
  induction l as [|z r IH]; cbn [insert_by_idx In]; [split; intros [H|H]; auto|].
  destruct (Nat.ltb (snd x) (snd z)); cbn [In]; [split; intros [H|H]; auto|]. rewrite IH. split; intros H; tauto.
Qed.

Lemma In_sort_by_idx y l : In y (sort_by_idx l) <-> In y l.
Proof.
  unfold sort_by_idx. assert (G : forall l acc, In y (fold_left (fun acc x => insert_by_idx x acc) l acc) <-> In y acc \/ In y l).
  { clear l. induction l as [|x r IH]; intros acc; cbn [fold_left In]; [tauto|]. rewrite IH, In_insert_by_idx. split; intros H; intuition auto. }
  rewrite G. cbn [In]. tauto.
Qed.

Lemma write_columns_lit g c : In c (write_columns g) -> exists e0, In e0 (gedges g) /\ snd (fst e0) = NCol c.
Proof.
  unfold write_columns. destruct (get_target_table g) as [t|]; [|intros []]. intros H. apply in_map_iff in H.
  destruct H as ([c' i] & <- & H). apply (proj1 (In_sort_by_idx _ _)) in H. apply in_flat_map in H. destruct H as (e0 & He0 & H).
  unfold out_edges in He0. apply filter_In in He0. destruct (String.eqb _ _); [|destruct H].
  destruct (snd (fst e0)) as [d0|c0|s0] eqn:E; [destruct H| |destruct H]. destruct H as [H|[]]. inversion H. subst. exists e0. split; [exact (proj1 He0)|exact E].
Qed.

Lemma source_columns_lit g c sw : In sw (get_source_columns g c) -> exists e0, In e0 (gedges g) /\ fst (fst e0) = NCol sw.
Proof.
  unfold get_source_columns. intros H. apply in_flat_map in H. destruct H as (e0 & He0 & H). unfold in_edges in He0. apply filter_In in He0.
  destruct (String.eqb _ _); [|destruct H]. destruct (fst (fst e0)) as [d0|c0|s0] eqn:E; [destruct H| |destruct H]. destruct H as [<-|[]].
  exists e0. split; [exact (proj1 He0)|exact E].
Qed.

(** (1) no column of the holder is a star *)
Lemma expand_wildcard_nostar e g :
  lits_in (fun n => forall c, n = NCol c -> craw c <> "*") g -> expand_wildcard e g = Ok g.
Proof.
  intros Hl. unfold expand_wildcard. destruct (get_target_table g) as [tgt|]; [|reflexivity].
  apply fold_res_id. intros c Hc. destruct (write_columns_lit g c Hc) as (e0 & He0 & E).
  pose proof (proj2 (proj2 Hl e0 He0) c E) as Hn. apply String.eqb_neq in Hn. rewrite Hn. reflexivity.
Qed.

(** (2) the catalog knows none of the tables the columns of the holder belong to *)
Lemma expand_wildcard_unknown e g :
  lits_in (fun n => forall c p, n = NCol c -> In p (cparents c) -> dk p = KTable /\ provider_columns e p = []) g ->
  expand_wildcard e g = Ok g.
Proof.
  intros Hl. unfold expand_wildcard. destruct (get_target_table g) as [tgt|]; [|reflexivity].
  apply fold_res_id. intros c _. destruct (String.eqb (craw c) "*"); [|reflexivity].
  apply fold_res_id. intros sw Hsw. destruct (col_parent sw) as [st|] eqn:Est; [|reflexivity].
  destruct (source_columns_lit g c sw Hsw) as (e0 & He0 & E).
  destruct (proj1 (proj2 Hl e0 He0) sw st E) as [Hk Hp]; [rewrite (col_parent_some _ _ Est); left; reflexivity|].
  rewrite Hk, Hp. destruct (p_truthy (e_provider e)); reflexivity.
Qed.

(* ================================================================== *)
(** * Part C': the holder of one SELECT over tables when the expansion has nothing to do
    ([select_core] / [select_core_cols] of LemmaBProofs.v with the provider hypothesis replaced) *)
Lemma sel_inv_weaken (PC PC' : column -> Prop) d ts g : (forall c, PC c -> PC' c) -> sel_inv PC d ts g -> sel_inv PC' d ts g.
Proof.
  intros H [A1 A2 A3 A4]. constructor; [|exact A2|exact A3|exact A4].
  apply (lits_weaken (QK (d :: ts) PC)); [|exact A1]. intros n Hn. destruct n; cbn [QK] in *; auto.
Qed.

Lemma select_core_noexp (PC : column -> Prop) e d ts cols (S : xcol -> list column) :
  (forall g', sel_inv PC d ts g' -> expand_wildcard e g' = Ok g') ->
  group_ok d ts -> Forall data_ok ts -> dk d = KTable ->
  (forall g2, sel_inv PC d ts g2 -> forall x, In x cols -> to_source_columns e x (get_alias_mapping g2 ts) = Ok (S x)) ->
  (forall x, In x cols -> cparents (xc x) = [] /\ PC (own_col d x) /\ List.length (S x) <= 1 /\
                          forall s, In s (S x) -> PC s /\ forall p, In p (cparents s) -> In p ts) ->
  exists sub, (do g2 <- end_of_query_cleanup e (add_write empty_graph d) ts cols []; expand_wildcard e g2) = Ok sub /\
              ext (add_write empty_graph d) sub (map (fun v => (NData v, NStr (dalias v))) ts ++ sel_edges d S (own_pairs d cols)) /\
              sel_inv PC d ts sub.
Proof.
  intros HE Hgo Hdo Hd HS HX. set (g_b := add_write empty_graph d).
  assert (Lb : lits_in (QK (d :: ts) PC) g_b).
  { split; [intros n [<-|[]]; left; reflexivity|intros e0 []]. }
  assert (Eb : edges_inv ts g_b) by (intros e0 []).
  assert (Db : drop_free g_b).
  { intros n a [H|[]]. inversion H. intros [K|[]]. discriminate K. }
  destruct (add_reads_ok PC d ts ts g_b Hgo Hdo (fun v Hv => Hv) Lb Eb) as (A1 & A2 & A3 & A4 & A5 & A6).
  rewrite eoq_single. cbv zeta. set (g0 := fold_left add_read ts g_b) in *.
  assert (Hw : sq_write g0 = [d]) by (unfold sq_write; rewrite A4 by discriminate; reflexivity).
  rewrite Hw.
  assert (Hinv0 : sel_inv PC d ts g0).
  { constructor; [exact A1|exact A2| |exact (A6 Db)]. intros v Hv.
    assert (Hin : In (NData v, NStr (dalias v)) (map (fun v => (NData v, NStr (dalias v))) ts)) by (apply in_map_iff; exists v; auto).
    split.
    - rewrite (ext_edges _ _ _ A3). apply orb_true_iff. right. unfold ematch. apply existsb_exists. eexists. split; [exact Hin|].
      cbn [fst snd]. rewrite !node_eqb_refl. reflexivity.
    - exact (proj1 (ext_new _ _ _ A3 _ Hin)). }
  destruct (eoq_fold PC e d ts cols S Hgo Hd HS HX cols g0 0 (fun x Hx => Hx) Hinv0 Hw) as (g' & E' & X' & Hinv' & T').
  - rewrite A5. cbn. lia.
  - reflexivity.
  - rewrite E'. rewrite (HE g' Hinv').
    exists g'. split; [reflexivity|]. split; [apply (ext_trans g_b g0 g'); assumption|exact Hinv'].
Qed.

Lemma select_core_cols_noexp (PC : column -> Prop) e d ts cs cols (S : xcol -> list column) :
  (forall g', sel_inv PC d ts g' -> expand_wildcard e g' = Ok g') ->
  group_ok d ts -> Forall data_ok ts -> dk d = KTable -> NoDup cs ->
  List.length cols = List.length cs ->
  (forall g2, sel_inv PC d ts g2 -> forall x, In x cols -> to_source_columns e x (get_alias_mapping g2 ts) = Ok (S x)) ->
  (forall x, In x cols -> (exists s, S x = [s]) /\ forall s, In s (S x) -> PC s /\ forall p, In p (cparents s) -> In p ts) ->
  (forall c, In c cs -> PC (Wcol d c)) ->
  exists sub, (do g2 <- end_of_query_cleanup e (gb_of d cs) ts cols []; expand_wildcard e g2) = Ok sub /\
              ext (gb_of d cs) sub (map (fun v => (NData v, NStr (dalias v))) ts ++ sel_edges d S (combine cols (map (Wcol d) cs))) /\
              sel_inv PC d ts sub.
Proof.
  intros HE Hgo Hdo Hd Hnd Hlen HS HX HW. set (g_b := gb_of d cs).
  destruct (gb_facts d cs Hd Hnd) as (A & B & C & D & O). fold g_b in A, B, C, D, O.
  assert (Lb : lits_in (QK (d :: ts) PC) g_b).
  { split.
    - intros n Hn. rewrite B in Hn. destruct Hn as [<-|Hn]; [left; reflexivity|]. apply in_map_iff in Hn. destruct Hn as (c & <- & Hc). apply HW. exact Hc.
    - intros e0 He0. rewrite A in He0. destruct (OE_edge d cs e0 He0) as (j & c & Hc & ->). cbn [fst snd QK]. split; [left; reflexivity|apply HW; exact Hc]. }
  assert (Eb : edges_inv ts g_b).
  { intros e0 He0. rewrite A in He0. destruct (OE_edge d cs e0 He0) as (j & c & Hc & ->). unfold edge_inv. cbn [fst snd etype e_has_column]. right. reflexivity. }
  destruct (add_reads_ok PC d ts ts g_b Hgo Hdo (fun v Hv => Hv) Lb Eb) as (A1 & A2 & A3 & A4 & A5 & A6).
  rewrite eoq_single. cbv zeta. set (g0 := fold_left add_read ts g_b) in *.
  assert (Hw : sq_write g0 = [d]) by (unfold sq_write; rewrite A4 by discriminate; rewrite C; reflexivity).
  rewrite Hw.
  assert (Hr : memd d (sq_read g0) = false).
  { destruct (memd d (sq_read g0)) eqn:E; [|reflexivity]. exfalso. apply memd_In_eqb in E. destruct E as (v & Hv & Ev).
    unfold sq_read, g0 in Hv. apply reads_after_add_reads in Hv; [|exact (go_tables _ _ Hgo)].
    destruct Hv as [Hv|(w & Hw' & Ew)]; [rewrite C in Hv; destruct Hv|].
    assert (K : dataset_eqb w d = true) by (apply (dataset_eqb_trans w v d Ew); apply dataset_eqb_true_sym; exact Ev).
    rewrite (go_target _ _ Hgo w Hw') in K. discriminate. }
  assert (Hinv0 : sel_inv PC d ts g0).
  { constructor; [exact A1|exact A2| |exact (A6 D)]. intros v Hv.
    assert (Hin : In (NData v, NStr (dalias v)) (map (fun v => (NData v, NStr (dalias v))) ts)) by (apply in_map_iff; exists v; auto).
    split.
    - rewrite (ext_edges _ _ _ A3). apply orb_true_iff. right. unfold ematch. apply existsb_exists. eexists. split; [exact Hin|].
      cbn [fst snd]. rewrite !node_eqb_refl. reflexivity.
    - exact (proj1 (ext_new _ _ _ A3 _ Hin)). }
  destruct (eoq_fold_cols PC e d ts cs cols S Hgo Hd Hlen HS HX HW cols g0 0 (fun x Hx => Hx) Hinv0 Hw Hr) as (g' & E' & X' & Hinv' & T' & O').
  - rewrite A5. exact O.
  - reflexivity.
  - rewrite E'. rewrite (HE g' Hinv').
    exists g'. split; [reflexivity|]. split; [|exact Hinv']. cbn [skipn] in X'. apply (ext_trans g_b g0 g'); assumption.
Qed.

(* ================================================================== *)
(** * Part D': from the holder of the statement to the pairs, with resolution through the catalog *)
Definition pB (e : env) (base : catalog) : provider := {| p_truthy := p_truthy (e_provider e); p_cols := base |}.

Lemma cim_ext p p' u : (forall v, In v (cparents u) -> provider_cols p v = provider_cols p' v) ->
  candidates_in_metadata p u = candidates_in_metadata p' u.
Proof. intros H. unfold candidates_in_metadata. apply flat_map_ext_in'. intros v Hv. rewrite (H v Hv). reflexivity. Qed.

Lemma rflows_ext p p' FL : (forall f, In f FL -> Rmd p (fst f) = Rmd p' (fst f)) -> rflows p FL = rflows p' FL.
Proof.
  intros H. unfold rflows. apply flat_map_ext_in'. intros f Hf. destruct (unresolved (NCol (fst f))) as [u|] eqn:Eu; [|reflexivity].
  destruct (unresolved_col _ _ Eu) as (E1 & _). inversion E1. subst u. rewrite (H f Hf). reflexivity.
Qed.

Lemma assoc_str_skip {A} k k' (v : A) l : k <> k' -> assoc_str k ((k', v) :: l) = assoc_str k l.
Proof. intros H. cbn [assoc_str]. apply String.eqb_neq in H. rewrite H. reflexivity. Qed.

Theorem model_tail e base stmt d ts NM XS (S : xcol -> list column) gb sub :
  analyze (with_cols e (view_cols [] base)) false stmt = Ok (compose gb sub) ->
  group_ok d ts -> ts_inj ts -> dk d = KTable ->
  (forall x, In x XS -> (exists nm0, snd x = {| craw := nm0; cparents := [d] |}) /\
     forall s, In s (S (fst x)) -> (exists v, In v ts /\ cparents s = [v]) \/
                             (exists nm, In nm NM /\ s = Ucol ts nm /\ escape nm = nm /\ 2 <= List.length (cparents s))) ->
  (forall nm, In nm NM -> exists x, In x XS /\ In (Ucol ts nm) (S (fst x))) ->
  (forall x' s' nm v, In nm NM -> In x' XS -> In s' (S (fst x')) -> cparents s' = [v] -> craw s' <> nm) ->
  lits_in (QK (d :: ts) (PC4 ts NM)) gb -> drop_free gb ->
  (forall e0, In e0 (gedges gb) -> String.eqb (etype (snd e0)) "rename" = false) ->
  (forall x y, is_column x = true -> has_edge gb x y = false) ->
  (forall p c, In p ts -> has_edge gb (NData p) (NCol c) = false) ->
  ext gb sub (map (fun v => (NData v, NStr (dalias v))) ts ++ sel_edges d S XS) ->
  sel_inv (PC4 ts NM) d ts sub ->
  (forall kv, registration (compose gb sub) = Some kv -> fst kv = dstr d) ->
  (forall v, In v ts -> dstr v <> dstr d) ->
  script_pairs e false base [stmt] = uniq_sorted (sort_strings (map flow_str (rflows (pB e base) (flows_of S XS)))).
Proof.
  intros Ea Hgo Hinj Hd HX HNM HNQ Lb Db Hbe Hbc Hbd X Hinv Hreg Hdstr.
  destruct (holder_realises d ts NM XS S gb sub Hgo Hinj Hd HX HNM HNQ Lb Db Hbe Hbc Hbd X Hinv) as (C1 & C2 & C3 & C4).
  set (G := compose gb sub) in *.
  assert (LG : lits_in (QK (d :: ts) (PC4 ts NM)) G) by (apply lits_compose; [exact Lb|exact (si_lits _ _ _ _ Hinv)]).
  assert (HF : forall f, In f (flows_of S XS) ->
               ((exists v, In v ts /\ cparents (fst f) = [v]) \/
                (exists nm, fst f = Ucol ts nm /\ 2 <= List.length (cparents (fst f)))) /\
               (exists nm0, snd f = {| craw := nm0; cparents := [d] |})).
  { intros f Hf. unfold flows_of in Hf. apply in_flat_map in Hf. destruct Hf as (x & Hx & Hf). apply in_map_iff in Hf.
    destruct Hf as (s & <- & Hs). destruct (HX x Hx) as [H1 H2]. cbn [fst snd]. split; [|exact H1].
    destruct (H2 s Hs) as [K|(nm & _ & E & _ & L)]; [left; exact K|right; exists nm; auto]. }
  assert (Src : forall f v, In f (flows_of S XS) -> In v (cparents (fst f)) -> In v ts).
  { intros f v Hf Hv. destruct (proj1 (HF f Hf)) as [(w & Hw & E)|(nm & E & _)].
    - rewrite E in Hv. destruct Hv as [<-|[]]. exact Hw.
    - rewrite E in Hv. apply (proj2 (proj2 (Ucol_props ts nm Hinj))). exact Hv. }
  assert (ER : forall f, In f (flows_of S XS) -> Rmd (final_provider e base G) (fst f) = Rmd (pB e base) (fst f)).
  { intros f Hf. unfold Rmd, final_provider, pB. cbn [p_truthy]. destruct (p_truthy (e_provider e)); [|reflexivity].
    apply cim_ext. intros v Hv. unfold provider_cols. cbn [p_cols]. unfold view_cols.
    destruct (registration G) as [[k cl]|] eqn:Ereg; [|reflexivity]. cbn [app].
    rewrite assoc_str_skip; [reflexivity|]. pose proof (Hreg (k, cl) eq_refl) as Ek. cbn [fst] in Ek. rewrite Ek. apply Hdstr. apply (Src f v Hf Hv). }
  rewrite <- (rflows_ext _ _ _ ER).
  apply (script_pairs_of_holder_md e base stmt G (flows_of S XS) Ea C1 C2 C3 C4).
  - (* an unresolved literal that equals a flow source is that source *)
    apply (lits_weaken (QK (d :: ts) (PC4 ts NM))); [|exact LG]. intros n Hn u f Eu Hf E.
    destruct (unresolved_col _ _ Eu) as (-> & Hpn & Hl). cbn [QK] in Hn.
    destruct Hn as [(p0 & Ep & _)|(nm & _ & -> & _ & _)]; [rewrite Ep in Hl; cbn in Hl; lia|].
    cbn [node_eqb] in E. unfold col_eqb in E. apply andb_true_iff in E. destruct E as [E1 E2].
    destruct (proj1 (HF f Hf)) as [(w & _ & Ew)|(nm' & Enm' & Hl')].
    + rewrite Hpn in E2. unfold col_parent in E2. rewrite Ew in E2. discriminate.
    + rewrite Enm'. apply String.eqb_eq in E1. unfold col_str in E1. rewrite Hpn, (col_parent_none _ Hl') in E1.
      rewrite Enm' in E1. rewrite (proj1 (Ucol_props ts nm Hinj)), (proj1 (Ucol_props ts nm' Hinj)) in E1. subst nm'. reflexivity.
  - apply (lits_weaken (QK (d :: ts) (PC4 ts NM))); [|exact LG]. intros n Hn c -> K. cbn [QK] in Hn.
    destruct Hn as [(p0 & Ep & _)|(nm & _ & _ & _ & Hl)]; [rewrite Ep in K; discriminate|rewrite K in Hl; cbn in Hl; lia].
  - intros f f2 c Hf Hf2 Hc. destruct (proj2 (HF f Hf)) as (nm0 & ->).
    unfold Rmd in Hc. destruct (p_truthy _); [|destruct Hc]. unfold candidates_in_metadata in Hc. apply in_flat_map in Hc.
    destruct Hc as (v & Hv & Hc). pose proof (Src f2 v Hf2 Hv) as Hvt.
    assert (Ec : cparents c = [v]).
    { destruct (dk v); try destruct Hc. match type of Hc with In _ (if ?b then _ else _) => destruct b end; [destruct Hc|].
      apply in_flat_map in Hc. destruct Hc as (cn & _ & Hc). match type of Hc with In _ (if ?b then _ else _) => destruct b end; [|destruct Hc].
      destruct Hc as [<-|[]]. reflexivity. }
    unfold col_eqb. unfold col_parent. cbn [cparents]. rewrite Ec. cbn [opt_dataset_eqb].
    rewrite dataset_eqb_sym, (go_target _ _ Hgo v Hvt). apply andb_false_r.
Qed.

(* ================================================================== *)
(** * Part E': the statement-level result on the model side (no star is expanded) *)
Definition PC5 (d : dataset) (ts : list dataset) (NM : list string) (P : column -> Prop) (c : column) : Prop :=
  PC4 ts NM c /\ (forall p, In p (cparents c) -> In p (d :: ts)) /\ P c.

(** the key of the session entry the runner registers is the written table *)
Lemma registration_key noise e (s : stmt) t G :
  noise_ok noise = true -> env_ok_md e = true -> stmt_ok s = true -> sshape s = true ->
  (exists cols q, s = SInsert t cols q) \/ (exists q, s = SCtas t q) \/ (exists q, s = SView t q) ->
  analyze e false (r_stmt noise s) = Ok G ->
  forall kv, registration G = Some kv -> fst kv = tref_str (e_cfg e) t.
Proof.
  intros Hn He Hok Hs Hsh Ea kv Hreg.
  assert (K : exists g, analyze e false (r_stmt noise s) = Ok g /\ gok g /\ (forall x, tset g "write" x <-> x = tref_str (e_cfg e) t)).
  { destruct Hsh as [(cols & q & ->)|[(q & ->)|(q & ->)]].
    - cbn [stmt_ok sshape] in *. apply andb_true_iff in Hok. destruct Hok as [Hok _]. apply andb_true_iff in Hok. destruct Hok as [Hok Hnm].
      apply andb_true_iff in Hok. destruct Hok as [Ht Hf].
      destruct (insert_ok_md noise Hn e He t cols q Ht (src_ok_of q Hf Hnm Hs)) as (g & E & G1 & _ & G3). exists g. auto.
    - cbn [stmt_ok sshape] in *. apply andb_true_iff in Hok. destruct Hok as [Hok Hnm]. apply andb_true_iff in Hok. destruct Hok as [Ht Hf].
      destruct (create_ok_md noise Hn e He false t q Ht (src_ok_of q Hf Hnm Hs)) as (g & E & G1 & _ & G3). exists g. auto.
    - cbn [stmt_ok sshape] in *. apply andb_true_iff in Hok. destruct Hok as [Hok Hnm]. apply andb_true_iff in Hok. destruct Hok as [Ht Hf].
      destruct (create_ok_md noise Hn e He true t q Ht (src_ok_of q Hf Hnm Hs)) as (g & E & G1 & _ & G3). exists g. auto. }
  destruct K as (g & E & G1 & G3). rewrite Ea in E. inversion E. subst g.
  unfold registration in Hreg. destruct (st_write G) as [|w r] eqn:Ew; [discriminate|].
  destruct (dk w); try discriminate. destruct (get_table_columns G w); [discriminate|]. inversion Hreg. cbn [fst].
  apply G3. apply (st_write_tset G _ G1). rewrite Ew. left. reflexivity.
Qed.

Lemma gb_of_nil d : gb_of d [] = add_write empty_graph d.
Proof. reflexivity. Qed.

Section ModelMd.
Variable noise : list seg.
Hypothesis Hnoise : noise_ok noise = true.
Variable e : env.
Hypothesis Henv : env_ok_md e = true.
Variable base : catalog.
Let e' := with_cols e (view_cols [] base).

(** own names: CREATE TABLE AS / CREATE VIEW AS / INSERT without a column list into a table the catalog does not know *)
Theorem model_pairs_own_md (s : stmt) t items from cj (P : column -> Prop) :
  (s = SInsert t None (QSelect items from cj None) /\ (p_truthy (e_provider e) = true -> target_cols e' t = [])
   \/ s = SCtas t (QSelect items from cj None) \/ s = SView t (QSelect items from cj None)) ->
  stmt_ok s = true -> sshape s = true ->
  tref_ok t = true -> forallb item_ok items = true -> from <> [] -> forallb rel_ok from = true ->
  let d := tbl e t None in let ts := map (tbl_of e) from in let xs := map xcol_of items in
  group_ok d ts -> ts_inj ts -> names_nodot ts -> (forall x, In x xs -> xref_ok ts x) -> noqual ts xs ->
  (forall x, In x xs -> P (own_col d x) /\ forall s0, In s0 (S_of ts x) -> P s0) ->
  (forall g', lits_in (QK (d :: ts) (PC5 d ts (unres_names ts xs) P)) g' -> expand_wildcard e' g' = Ok g') ->
  script_pairs e false base [r_stmt noise s] =
  uniq_sorted (sort_strings (map flow_str (rflows (pB e base) (flows_of (S_of ts) (own_pairs d xs))))).
Proof.
  intros Hs Hok Hsh Ht Hit Hne Hrel d ts xs Hgo Hinj Hnd Hxs Hnq HP HE.
  assert (He' : env_ok_md e' = true) by exact Henv.
  assert (Hdo : Forall data_ok ts).
  { apply Forall_forall. intros v Hv. unfold data_ok. rewrite (go_tables _ _ Hgo v Hv).
    apply in_map_iff in Hv. destruct Hv as (r & <- & _). destruct r; reflexivity. }
  assert (Ea : analyze e' false (r_stmt noise s) = holder_on e' (add_write empty_graph (tbl e' t None)) items from).
  { destruct Hs as [[-> Htc]|[->| ->]].
    - apply (analyze_insert_md noise Hnoise e' He' t None items from cj); try assumption; try exact I; try reflexivity.
      cbv zeta. destruct (p_truthy (e_provider e')) eqn:Ep; [|reflexivity]. rewrite (Htc Ep). reflexivity.
    - apply (analyze_create_md noise Hnoise e' He' false); assumption.
    - apply (analyze_create_md noise Hnoise e' He' true); assumption. }
  unfold holder_on in Ea. change (tbl e' t None) with d in Ea. change (map (tbl_of e') from) with ts in Ea. fold xs in Ea.
  set (NM := unres_names ts xs) in *.
  destruct (select_core_noexp (PC5 d ts NM P) e' d ts xs (S_of ts)) as (sub & Esub & Xsub & Isub).
  - intros g' Hg'. apply HE. exact (si_lits _ _ _ _ Hg').
  - exact Hgo.
  - exact Hdo.
  - reflexivity.
  - intros g2 Hinv x Hx. apply (HS_of (PC5 d ts NM P) e' d ts g2 x Hgo Hinj Hnd Hinv (Hxs x Hx)).
  - intros x Hx. destruct (S_of_props d ts xs x Hgo Hinj eq_refl Hx (Hxs x Hx)) as (A1 & A2 & A3 & A4 & _).
    destruct (HP x Hx) as [P1 P2]. split; [exact A1|]. split.
    + split; [exact A2|]. split; [|exact P1]. rewrite (own_col_eq d x A1). intros p [<-|[]]. left. reflexivity.
    + split; [exact A3|]. intros s0 Hs0. destruct (A4 s0 Hs0) as [B1 B2]. split; [|exact B2].
      split; [exact B1|]. split; [intros p Hp; right; apply B2; exact Hp|apply P2; exact Hs0].
  - rewrite Esub in Ea.
    assert (Isub' : sel_inv (PC4 ts NM) d ts sub) by (apply (sel_inv_weaken (PC5 d ts NM P)); [intros c Hc; exact (proj1 Hc)|exact Isub]).
    assert (Hop : forall p0, In p0 (own_pairs d xs) -> In (fst p0) xs /\ snd p0 = own_col d (fst p0)).
    { intros p0 Hp0. unfold own_pairs in Hp0. apply in_map_iff in Hp0. destruct Hp0 as (x & <- & Hx). auto. }
    apply (model_tail e base (r_stmt noise s) d ts NM (own_pairs d xs) (S_of ts) (add_write empty_graph d) sub Ea Hgo Hinj eq_refl);
      [| | |split; [intros n [<-|[]]; left; reflexivity|intros e0 []]
       |intros n a [H|[]]; inversion H; intros [K|[]]; discriminate K
       |intros e0 []|reflexivity|reflexivity|exact Xsub|exact Isub'| |].
    + intros p0 Hp0. destruct (Hop p0 Hp0) as [Hx Ep].
      destruct (S_of_props d ts xs (fst p0) Hgo Hinj eq_refl Hx (Hxs _ Hx)) as (A1 & _ & _ & _ & A5). split; [|exact A5].
      rewrite Ep, (own_col_eq d _ A1). eexists. reflexivity.
    + intros nm Hnm. unfold NM, unres_names in Hnm.
      assert (Hns : forall (A : Type) (f : dataset -> A) (g : A), In nm (match ts with [_] => [] | _ => [nm] end) -> match ts with [d1] => f d1 | _ => g end = g).
      { intros A f g. destruct ts as [|a [|b r]]; [reflexivity|intros []|reflexivity]. }
      assert (Hin : In nm (flat_map (fun x => match xsrc x with [(c, None)] => [c] | _ => [] end) xs) /\ In nm (match ts with [_] => [] | _ => [nm] end)).
      { destruct ts as [|a [|b r]]; [split; [exact Hnm|left; reflexivity]|destruct Hnm|split; [exact Hnm|left; reflexivity]]. }
      destruct Hin as [Hin Hsh']. apply in_flat_map in Hin. destruct Hin as (x & Hx & Hin). exists (x, own_col d x).
      split; [unfold own_pairs; apply in_map_iff; exists x; auto|]. cbn [fst].
      unfold S_of. destruct (xsrc x) as [|[c qq] rest]; [destruct Hin|]. destruct qq as [q|]; [destruct Hin|].
      destruct rest as [|p r]; [|destruct Hin]. destruct Hin as [->|[]].
      rewrite (Hns _ _ _ Hsh'). left. reflexivity.
    + intros p' s' nm v Hnm Hp' Hs' Ev. destruct (Hop p' Hp') as [Hx' _]. set (x' := fst p') in *. unfold NM, unres_names in Hnm.
      assert (Hm : In nm (flat_map (fun x => match xsrc x with [(c, None)] => [c] | _ => [] end) xs) /\ (forall d1, ts <> [d1])).
      { destruct ts as [|a [|b r]]; [split; [exact Hnm|discriminate]|destruct Hnm|split; [exact Hnm|discriminate]]. }
      destruct Hm as [Hin Hns]. apply in_flat_map in Hin. destruct Hin as (x & Hx & Hin).
      destruct (Hxs x Hx) as (_ & c & qq & Ex & _ & Hq). rewrite Ex in Hin. destruct qq as [q|]; [destruct Hin|]. destruct Hin as [->|[]].
      destruct Hq as [(d1 & Ed)|[Hmul _]]; [exfalso; exact (Hns d1 Ed)|].
      destruct (Hxs x' Hx') as (_ & c' & qq' & Ex' & _ & Hq'). unfold S_of in Hs'. rewrite Ex' in Hs'. destruct qq' as [q'|].
      * destruct Hq' as (v' & Hv' & Eq' & Hu'). rewrite (find_dalias ts q' v' Hv' Eq' (fun w Hw E => Hu' w Hw (or_introl E))) in Hs'.
        destruct Hs' as [<-|[]]. cbn [craw]. apply (Hnq x x' nm c' q' Hx Hx' Ex Ex' Hmul).
      * rewrite (multi_not_single ts _ _ _ Hmul) in Hs'. destruct Hs' as [<-|[]].
        destruct (Ucol_props ts c' Hinj) as (_ & _ & U3). destruct Hmul as (a & b & Ha & Hb & Hab).
        pose proof (two_members _ a b (proj2 (U3 a) Ha) (proj2 (U3 b) Hb) Hab) as Hl. rewrite Ev in Hl. cbn in Hl. lia.
    + apply (registration_key noise e' s t _ Hnoise He' Hok Hsh); [|exact Ea].
      destruct Hs as [[-> _]|[->| ->]]; [left; eexists; eexists; reflexivity|right; left; eexists; reflexivity|right; right; eexists; reflexivity].
    + intros v Hv K. pose proof (go_target _ _ Hgo v Hv) as Hgt.
      apply in_map_iff in Hv. destruct Hv as (r & <- & Hr). rewrite forallb_forall in Hrel.
      rewrite (tbl_of_table e r (rel_ok_table _ (Hrel r Hr))) in *. unfold dataset_eqb in Hgt. cbn [tbl dk deq dstr dkind_beq andb] in *.
      rewrite K, String.eqb_refl in Hgt. discriminate.
Qed.
End ModelMd.

Lemma add_write_column_nil g : add_write_column g [] = g.
Proof. unfold add_write_column. destruct (sq_write g); reflexivity. Qed.

Lemma awc_Wcols d cs : add_write_column (add_write empty_graph d) (map (Wcol d) cs) = gb_of d cs.
Proof.
  unfold add_write_column. change (sq_write (add_write empty_graph d)) with [d]. cbv iota.
  change (fst (fold_left (awc_step d) (map (Wcol d) cs) (add_write empty_graph d, 0)) = gb_of d cs).
  rewrite gb_of_eq. f_equal. apply awc_fold_ext. unfold cl_of. rewrite !map_map. apply map_ext. intros c0. rewrite add_parent_Wcol. reflexivity.
Qed.

Section ModelMdCols.
Variable noise : list seg.
Hypothesis Hnoise : noise_ok noise = true.
Variable e : env.
Hypothesis Henv : env_ok_md e = true.
Variable base : catalog.
Let e' := with_cols e (view_cols [] base).

(** the write columns are given: by an explicit column list (target unknown to the catalog), or by the catalog *)
Lemma analyze_insert_gb t cols cs items from cj :
  tref_ok t = true -> forallb id_ok cs = true -> NoDup cs ->
  forallb item_ok items = true -> from <> [] -> forallb rel_ok from = true ->
  (cols = Some cs /\ (p_truthy (e_provider e) = true -> target_cols e' t = []))
  \/ (cols = None /\ p_truthy (e_provider e) = true /\ target_cols e' t = map (Wcol (tbl e t None)) cs) ->
  analyze e' false (r_stmt noise (SInsert t cols (QSelect items from cj None))) = holder_on e' (gb_of (tbl e t None) cs) items from.
Proof.
  intros Ht Hcs Hnd Hit Hne Hrel Hc. set (d := tbl e t None).
  assert (Hd : dk d = KTable) by reflexivity.
  destruct (gb_facts d cs Hd Hnd) as (_ & _ & C & _).
  apply (analyze_insert_md noise Hnoise e' Henv t cols items from cj); try assumption.
  - destruct Hc as [[-> _]|[-> _]]; [exact Hcs|exact I].
  - cbv zeta. change (tbl e' t None) with d. destruct Hc as [[-> Htc]|(-> & Hp & Htc)].
    + change (p_truthy (e_provider e')) with (p_truthy (e_provider e)). destruct (p_truthy (e_provider e)) eqn:Ep; [|reflexivity].
      rewrite (Htc eq_refl), add_write_column_nil. reflexivity.
    + change (p_truthy (e_provider e')) with (p_truthy (e_provider e)). rewrite Hp, Htc. symmetry. apply awc_Wcols.
  - apply (init_delegate_cols d cs Hd Hnd).
  - unfold sq_cte. rewrite C. reflexivity.
Qed.

Theorem model_pairs_cols_md t cols cs items from cj (P : column -> Prop) :
  stmt_ok (SInsert t cols (QSelect items from cj None)) = true -> sshape (SInsert t cols (QSelect items from cj None)) = true ->
  tref_ok t = true -> forallb id_ok cs = true -> NoDup cs -> List.length cs = List.length items ->
  forallb item_ok items = true -> from <> [] -> forallb rel_ok from = true ->
  let d := tbl e t None in let ts := map (tbl_of e) from in let xs := map xcol_of items in
  (cols = Some cs /\ (p_truthy (e_provider e) = true -> target_cols e' t = []))
  \/ (cols = None /\ p_truthy (e_provider e) = true /\ target_cols e' t = map (Wcol d) cs) ->
  group_ok d ts -> ts_inj ts -> names_nodot ts -> (forall x, In x xs -> xref_ok ts x) -> noqual ts xs ->
  (forall c, In c cs -> P (Wcol d c)) -> (forall x, In x xs -> forall s0, In s0 (S_of ts x) -> P s0) ->
  (forall g', lits_in (QK (d :: ts) (PC5 d ts (unres_names ts xs) P)) g' -> expand_wildcard e' g' = Ok g') ->
  script_pairs e false base [r_stmt noise (SInsert t cols (QSelect items from cj None))] =
  uniq_sorted (sort_strings (map flow_str (rflows (pB e base) (flows_of (S_of ts) (combine xs (map (Wcol d) cs)))))).
Proof.
  intros Hok Hsh Ht Hcs Hnd Hlen Hit Hne Hrel d ts xs Hc Hgo Hinj Hndot Hxs Hnq HPW HPS HE.
  assert (He' : env_ok_md e' = true) by exact Henv.
  assert (Hdo : Forall data_ok ts).
  { apply Forall_forall. intros v Hv. unfold data_ok. rewrite (go_tables _ _ Hgo v Hv).
    apply in_map_iff in Hv. destruct Hv as (r & <- & _). destruct r; reflexivity. }
  pose proof (analyze_insert_gb t cols cs items from cj Ht Hcs Hnd Hit Hne Hrel Hc) as Ea.
  unfold holder_on in Ea. fold d in Ea. change (map (tbl_of e') from) with ts in Ea. fold xs in Ea.
  set (NM := unres_names ts xs) in *.
  assert (Hlx : List.length xs = List.length cs) by (unfold xs; rewrite map_length; lia).
  assert (HW : forall c, In c cs -> PC5 d ts NM P (Wcol d c)).
  { intros c Hcc. split; [left; exists d; auto|]. split; [intros p [<-|[]]; left; reflexivity|apply HPW; exact Hcc]. }
  destruct (select_core_cols_noexp (PC5 d ts NM P) e' d ts cs xs (S_of ts)) as (sub & Esub & Xsub & Isub).
  - intros g' Hg'. apply HE. exact (si_lits _ _ _ _ Hg').
  - exact Hgo.
  - exact Hdo.
  - reflexivity.
  - exact Hnd.
  - exact Hlx.
  - intros g2 Hinv x Hx. apply (HS_of (PC5 d ts NM P) e' d ts g2 x Hgo Hinj Hndot Hinv (Hxs x Hx)).
  - intros x Hx. split; [exact (S_of_single ts x (Hxs x Hx))|].
    destruct (S_of_props d ts xs x Hgo Hinj eq_refl Hx (Hxs x Hx)) as (_ & _ & _ & A4 & _).
    intros s0 Hs0. destruct (A4 s0 Hs0) as [B1 B2]. split; [|exact B2].
    split; [exact B1|]. split; [intros p Hp; right; apply B2; exact Hp|apply (HPS x Hx); exact Hs0].
  - exact HW.
  - rewrite Esub in Ea.
    assert (Isub' : sel_inv (PC4 ts NM) d ts sub) by (apply (sel_inv_weaken (PC5 d ts NM P)); [intros c Hc0; exact (proj1 Hc0)|exact Isub]).
    destruct (gb_facts d cs eq_refl Hnd) as (GA & GB & GC & GD & GO).
    assert (HW4 : forall c, In c cs -> PC4 ts NM (Wcol d c)) by (intros c _; left; exists d; auto).
    assert (Hop : forall p0, In p0 (combine xs (map (Wcol d) cs)) -> In (fst p0) xs /\ exists c, In c cs /\ snd p0 = Wcol d c).
    { intros [x w] Hp0. split; [exact (in_combine_l _ _ _ _ Hp0)|]. apply in_combine_r in Hp0. apply in_map_iff in Hp0.
      destruct Hp0 as (c & <- & Hcc). exists c. auto. }
    apply (model_tail e base _ d ts NM (combine xs (map (Wcol d) cs)) (S_of ts) (gb_of d cs) sub Ea Hgo Hinj eq_refl);
      [| | | | | | | |exact Xsub|exact Isub'| |].
    + intros p0 Hp0. destruct (Hop p0 Hp0) as [Hx (c & _ & Ep)].
      destruct (S_of_props d ts xs (fst p0) Hgo Hinj eq_refl Hx (Hxs _ Hx)) as (_ & _ & _ & _ & A5). split; [|exact A5].
      rewrite Ep. eexists. reflexivity.
    + intros nm Hnm. unfold NM, unres_names in Hnm.
      assert (Hns : forall (A : Type) (f : dataset -> A) (g : A), In nm (match ts with [_] => [] | _ => [nm] end) -> match ts with [d1] => f d1 | _ => g end = g).
      { intros A f g. destruct ts as [|a [|b r]]; [reflexivity|intros []|reflexivity]. }
      assert (Hin : In nm (flat_map (fun x => match xsrc x with [(c, None)] => [c] | _ => [] end) xs) /\ In nm (match ts with [_] => [] | _ => [nm] end)).
      { destruct ts as [|a [|b r]]; [split; [exact Hnm|left; reflexivity]|destruct Hnm|split; [exact Hnm|left; reflexivity]]. }
      destruct Hin as [Hin Hsh']. apply in_flat_map in Hin. destruct Hin as (x & Hx & Hin).
      destruct (In_combine_l_ex xs (map (Wcol d) cs) x ltac:(rewrite map_length; exact Hlx) Hx) as (w & Hw). exists (x, w).
      split; [exact Hw|]. cbn [fst].
      unfold S_of. destruct (xsrc x) as [|[c qq] rest]; [destruct Hin|]. destruct qq as [q|]; [destruct Hin|].
      destruct rest as [|p r]; [|destruct Hin]. destruct Hin as [->|[]].
      rewrite (Hns _ _ _ Hsh'). left. reflexivity.
    + intros p' s' nm v Hnm Hp' Hs' Ev. destruct (Hop p' Hp') as [Hx' _]. set (x' := fst p') in *. unfold NM, unres_names in Hnm.
      assert (Hm : In nm (flat_map (fun x => match xsrc x with [(c, None)] => [c] | _ => [] end) xs) /\ (forall d1, ts <> [d1])).
      { destruct ts as [|a [|b r]]; [split; [exact Hnm|discriminate]|destruct Hnm|split; [exact Hnm|discriminate]]. }
      destruct Hm as [Hin Hns]. apply in_flat_map in Hin. destruct Hin as (x & Hx & Hin).
      destruct (Hxs x Hx) as (_ & c & qq & Ex & _ & Hq). rewrite Ex in Hin. destruct qq as [q|]; [destruct Hin|]. destruct Hin as [->|[]].
      destruct Hq as [(d1 & Ed)|[Hmul _]]; [exfalso; exact (Hns d1 Ed)|].
      destruct (Hxs x' Hx') as (_ & c' & qq' & Ex' & _ & Hq'). unfold S_of in Hs'. rewrite Ex' in Hs'. destruct qq' as [q'|].
      * destruct Hq' as (v' & Hv' & Eq' & Hu'). rewrite (find_dalias ts q' v' Hv' Eq' (fun w Hw E => Hu' w Hw (or_introl E))) in Hs'.
        destruct Hs' as [<-|[]]. cbn [craw]. apply (Hnq x x' nm c' q' Hx Hx' Ex Ex' Hmul).
      * rewrite (multi_not_single ts _ _ _ Hmul) in Hs'. destruct Hs' as [<-|[]].
        destruct (Ucol_props ts c' Hinj) as (_ & _ & U3). destruct Hmul as (a & b & Ha & Hb & Hab).
        pose proof (two_members _ a b (proj2 (U3 a) Ha) (proj2 (U3 b) Hb) Hab) as Hl. rewrite Ev in Hl. cbn in Hl. lia.
    + split.
      * intros n Hn0. rewrite GB in Hn0. destruct Hn0 as [<-|Hn0]; [left; reflexivity|]. apply in_map_iff in Hn0. destruct Hn0 as (c & <- & Hcc). apply HW4. exact Hcc.
      * intros e0 He0. rewrite GA in He0. destruct (OE_edge d cs e0 He0) as (j & c & Hcc & ->). cbn [fst snd QK]. split; [left; reflexivity|apply HW4; exact Hcc].
    + exact GD.
    + intros e0 He0. rewrite GA in He0. destruct (OE_edge d cs e0 He0) as (j & c & _ & ->). reflexivity.
    + intros x y Hx. destruct (has_edge (gb_of d cs) x y) eqn:E; [|reflexivity]. apply has_edge_In in E. destruct E as (e0 & He0 & E1 & _).
      rewrite GA in He0. destruct (OE_edge d cs e0 He0) as (j & c & _ & ->). cbn [fst] in E1. destruct x; try discriminate.
    + intros p c Hp0. destruct (has_edge (gb_of d cs) (NData p) (NCol c)) eqn:E; [|reflexivity]. apply has_edge_In in E. destruct E as (e0 & He0 & E1 & _).
      rewrite GA in He0. destruct (OE_edge d cs e0 He0) as (j & c0 & _ & ->). cbn [fst node_eqb] in E1.
      rewrite (go_target _ _ Hgo p Hp0) in E1. discriminate.
    + apply (registration_key noise e' _ t _ Hnoise He' Hok Hsh); [|exact Ea]. left. eexists. eexists. reflexivity.
    + intros v Hv K. pose proof (go_target _ _ Hgo v Hv) as Hgt.
      apply in_map_iff in Hv. destruct Hv as (r & <- & Hr). rewrite forallb_forall in Hrel.
      rewrite (tbl_of_table e r (rel_ok_table _ (Hrel r Hr))) in *. unfold dataset_eqb in Hgt. cbn [tbl dk deq dstr dkind_beq andb] in *.
      rewrite K, String.eqb_refl in Hgt. discriminate.
Qed.
End ModelMdCols.

(* ================================================================== *)
(** * Part S': the catalog as the provider sees it *)
Lemma assoc_s_str {A} k (l : list (string * A)) : assoc_s k l = assoc_str k l.
Proof. induction l as [|[k' v] r IH]; [reflexivity|]. cbn [assoc_s assoc_str]. rewrite IH. reflexivity. Qed.

Lemma provider_cols_known e base v :
  provider_cols (pB e base) v = match known base (dstr v) with Some cols => cols | None => [] end.
Proof.
  unfold provider_cols, pB, known. cbn [p_cols]. change (assoc_s (dstr v) base) with (assoc_str (dstr v) base). destruct (assoc_str (dstr v) base) as [[|c cs]|]; reflexivity.
Qed.

Lemma provider_columns_unknown e base v :
  is_known base (dstr v) = false -> provider_columns (with_cols e (view_cols [] base)) v = [].
Proof.
  intros H. unfold provider_columns. change (provider_cols (e_provider (with_cols e (view_cols [] base))) v) with (provider_cols (pB e base) v).
  rewrite provider_cols_known. unfold is_known in H. destruct (known base (dstr v)); [discriminate|reflexivity].
Qed.

Lemma Rmd_unknown e base u : (forall v, In v (cparents u) -> is_known base (dstr v) = false) -> Rmd (pB e base) u = [].
Proof.
  intros H. unfold Rmd. destruct (p_truthy (pB e base)); [|reflexivity]. unfold candidates_in_metadata. apply flat_map_none. intros v Hv.
  rewrite provider_cols_known. specialize (H v Hv). unfold is_known in H. destruct (known base (dstr v)); [discriminate|].
  destruct (dk v); try reflexivity. destruct (String.eqb _ _); reflexivity.
Qed.

Lemma rflows_id p FL : (forall f, In f FL -> Rmd p (fst f) = []) -> rflows p FL = FL.
Proof.
  intros H. unfold rflows. induction FL as [|f r IH]; [reflexivity|]. cbn [flat_map].
  rewrite IH by (intros f' Hf'; apply H; right; exact Hf').
  destruct (unresolved (NCol (fst f))) as [u|] eqn:Eu; [|reflexivity].
  destruct (unresolved_col _ _ Eu) as (E1 & _). inversion E1. subst u. rewrite (H f (or_introl eq_refl)). reflexivity.
Qed.

Lemma flows_sources_in (ts : list dataset) XS f v :
  ts_inj ts -> (forall x, In x (map fst XS) -> xref_ok ts x) ->
  In f (flows_of (S_of ts) XS) -> In v (cparents (fst f)) -> In v ts.
Proof.
  intros Hinj Hxs Hf Hv. unfold flows_of in Hf. apply in_flat_map in Hf. destruct Hf as (x & Hx & Hf). apply in_map_iff in Hf.
  destruct Hf as (s & <- & Hs). cbn [fst] in Hv.
  destruct (Hxs (fst x) (in_map fst _ _ Hx)) as (_ & c & qq & Ex & _ & Hq). unfold S_of in Hs. rewrite Ex in Hs. destruct qq as [q|].
  - destruct Hq as (w & Hw & Eq & Hu). rewrite (find_dalias ts q w Hw Eq (fun w' Hw' E => Hu w' Hw' (or_introl E))) in Hs.
    destruct Hs as [<-|[]]. destruct Hv as [<-|[]]. exact Hw.
  - destruct Hq as [(d1 & ->)|[Hm _]].
    + destruct Hs as [<-|[]]. destruct Hv as [<-|[]]. left. reflexivity.
    + rewrite (multi_not_single ts _ _ _ Hm) in Hs. destruct Hs as [<-|[]]. apply (proj2 (proj2 (Ucol_props ts c Hinj))). exact Hv.
Qed.

(* ================================================================== *)
(** * Clause (d): the catalog knows none of the tables of the statement *)
Lemma env_ok_strip e : env_ok_md e = true -> env_ok (LemmaAMeta.strip e) = true.
Proof. exact (strip_ok e). Qed.

Theorem c13_unknown_tables_same : forall noise e base s,
  noise_ok noise = true -> env_ok_md e = true -> stmt_ok s = true -> sshape s = true -> colshape s = true ->
  sel_tables_syntactic s = true -> md_unknown (e_cfg e) base s = true ->
  script_pairs e false base [r_stmt noise s] = script_pairs (LemmaAMeta.strip e) false [] [r_stmt noise s].
Proof.
  intros noise e base s Hn He Hok Hss Hc Hsh Hunk.
  assert (K : exists t items from cj,
            ((exists cols, s = SInsert t cols (QSelect items from cj None) /\ match cols with Some cs => forallb id_ok cs = true | None => True end)
             \/ s = SCtas t (QSelect items from cj None) \/ s = SView t (QSelect items from cj None)) /\
            forallb is_rtable from && trefs_distinct (map rtref from) = true /\
            tref_ok t && frag_query (S (q_size (QSelect items from cj None))) (QSelect items from cj None)
            && names_ok_q (S (q_size (QSelect items from cj None))) [] (QSelect items from cj None) = true).
  { destruct s as [t cols q|t q|t q|q|kind]; cbn [sel_tables_syntactic] in Hsh; try discriminate;
      destruct q as [items from cj [wh|]| |]; try discriminate; exists t, items, from, cj.
    - cbn [stmt_ok] in Hok. apply andb_true_iff in Hok. destruct Hok as [Hok' Hcols]. split; [|split; [exact Hsh|exact Hok']].
      left. exists cols. split; [reflexivity|]. destruct cols; [exact Hcols|exact I].
    - cbn [stmt_ok] in Hok. split; [right; left; reflexivity|]. split; [exact Hsh|exact Hok].
    - cbn [stmt_ok] in Hok. split; [right; right; reflexivity|]. split; [exact Hsh|exact Hok]. }
  destruct K as (t & items & from & cj & Hs & Hsh' & Hok').
  apply andb_true_iff in Hsh'. destruct Hsh' as [Hrt Hd].
  destruct (stmt_ok_select t items from cj Hok' Hrt) as (Ht & Hit & Hne & Hrel).
  assert (Hs' : (exists cols, s = SInsert t cols (QSelect items from cj None)) \/ s = SCtas t (QSelect items from cj None) \/ s = SView t (QSelect items from cj None)).
  { destruct Hs as [(cols & E & _)|[E|E]]; [left; exists cols; exact E|right; left; exact E|right; right; exact E]. }
  destruct (colshape_tables (e_cfg e) s t items from cj Hs' Hc Ht Hne Hrel Hit Hd) as (Htc & Hic & Hnq).
  set (e0 := LemmaAMeta.strip e). assert (He0 : env_ok e0 = true) by (apply env_ok_strip; exact He).
  set (d := tbl e t None). set (ts := map (tbl_of e) from). set (xs := map xcol_of items).
  pose proof (group_ok_of e t from Hrel Htc) as Hgo. pose proof (ts_inj_of e t from Hrel Htc) as Hinj.
  pose proof (names_nodot_of e from Hrel) as Hndot. pose proof (xref_ok_of e t from items Hrel Hit Htc Hic) as Hxs.
  pose proof (noqual_of e from items Hit Hnq) as Hnqx. fold d ts in Hgo. fold ts in Hinj, Hndot, Hxs, Hnqx. fold xs in Hxs, Hnqx.
  (* nothing is known *)
  assert (Hun : is_known base (dstr d) = false /\ forall v, In v ts -> is_known base (dstr v) = false).
  { assert (Hu0 : negb (is_known base (tref_str (e_cfg e) t)) && forallb (fun r => negb (rel_is_known (e_cfg e) base r)) from = true).
    { destruct Hs as [(cols & -> & _)|[->| ->]]; exact Hunk. }
    apply andb_true_iff in Hu0. destruct Hu0 as [U1 U2]. apply negb_true_iff in U1. split; [exact U1|].
    intros v Hv. unfold ts in Hv. apply in_map_iff in Hv. destruct Hv as (r & <- & Hr). rewrite forallb_forall in U2, Hrel.
    rewrite (tbl_of_table e r (rel_ok_table _ (Hrel r Hr))). specialize (U2 r Hr). apply negb_true_iff in U2. exact U2. }
  destruct Hun as [Ud Uts].
  assert (HE : forall NM g', lits_in (QK (d :: ts) (PC5 d ts NM (fun _ => True))) g' -> expand_wildcard (with_cols e (view_cols [] base)) g' = Ok g').
  { intros NM g' Hl. apply expand_wildcard_unknown. apply (lits_weaken (QK (d :: ts) (PC5 d ts NM (fun _ => True)))); [|exact Hl].
    intros n Hq c p -> Hp. cbn [QK] in Hq. destruct Hq as (_ & Hpar & _). specialize (Hpar p Hp). destruct Hpar as [<-|Hpt].
    - split; [reflexivity|apply provider_columns_unknown; exact Ud].
    - split; [exact (go_tables _ _ Hgo p Hpt)|apply provider_columns_unknown; apply Uts; exact Hpt]. }
  assert (Hid : forall XS, (forall x, In x (map fst XS) -> In x xs) -> rflows (pB e base) (flows_of (S_of ts) XS) = flows_of (S_of ts) XS).
  { intros XS HXS. apply rflows_id. intros f Hf. apply Rmd_unknown. intros v Hv. apply Uts.
    apply (flows_sources_in ts XS f v Hinj (fun x Hx => Hxs x (HXS x Hx)) Hf Hv). }
  assert (Htgt : target_cols (with_cols e (view_cols [] base)) t = []) by (apply provider_columns_unknown; exact Ud).
  destruct Hs as [(cols & E & Hcols)|Hs].
  - destruct cols as [cs|].
    + destruct (colshape_tables "" s t items from cj Hs' Hc Ht Hne Hrel Hit Hd) as (Htc0 & _ & _).
      destruct (colshape_cols s t cs items from cj E Hc Hrel Hit Htc0 Hic) as [Hnd Hlen]. rewrite E. rewrite E in Hok, Hss.
      rewrite (model_pairs_cols_md noise Hn e He base t (Some cs) cs items from cj (fun _ => True) Hok Hss Ht Hcols Hnd Hlen Hit Hne Hrel
                 (or_introl (conj eq_refl (fun _ => Htgt))) Hgo Hinj Hndot Hxs Hnqx (fun _ _ => I) (fun _ _ _ _ => I) (HE _)).
      rewrite Hid by (intros x Hx; apply in_map_iff in Hx; destruct Hx as ([x' w] & <- & Hx); exact (in_combine_l _ _ _ _ Hx)).
      symmetry. apply (model_pairs_insert_cols noise e0 t cs items from cj Hn He0 Ht Hcols Hnd Hlen Hit Hne Hrel Hgo Hinj Hndot Hxs Hnqx).
    + rewrite E in Hok, Hss.
      rewrite (model_pairs_own_md noise Hn e He base s t items from cj (fun _ => True) (or_introl (conj E (fun _ => Htgt)))
                 ltac:(rewrite E; exact Hok) ltac:(rewrite E; exact Hss) Ht Hit Hne Hrel Hgo Hinj Hndot Hxs Hnqx (fun _ _ => conj I (fun _ _ => I)) (HE _)).
      rewrite Hid by (intros x Hx; unfold own_pairs in Hx; rewrite map_map in Hx; cbn [fst] in Hx; rewrite map_id in Hx; exact Hx).
      symmetry. apply (model_pairs_select noise e0 s t items from cj Hn He0 (or_introl E) Ht Hit Hne Hrel Hgo Hinj Hndot Hxs Hnqx).
  - rewrite (model_pairs_own_md noise Hn e He base s t items from cj (fun _ => True) (or_intror Hs) Hok Hss Ht Hit Hne Hrel Hgo Hinj Hndot Hxs Hnqx
               (fun _ _ => conj I (fun _ _ => I)) (HE _)).
    rewrite Hid by (intros x Hx; unfold own_pairs in Hx; rewrite map_map in Hx; cbn [fst] in Hx; rewrite map_id in Hx; exact Hx).
    symmetry. apply (model_pairs_select noise e0 s t items from cj Hn He0 (or_intror Hs) Ht Hit Hne Hrel Hgo Hinj Hndot Hxs Hnqx).
Qed.
Print Assumptions c13_unknown_tables_same.

(* ================================================================== *)
(** * Clause (c): an INSERT without column list into a table the catalog knows names the target columns positionally
      from the catalog - it is analysed like the INSERT with that explicit column list (the target then unknown) *)
Definition remove_key (k : string) (md : catalog) : catalog := filter (fun kv => negb (String.eqb (fst kv) k)) md.

Lemma assoc_remove_same k md : assoc_s k (remove_key k md) = @None (list string).
Proof.
  unfold remove_key. induction md as [|[k' v] r IH]; [reflexivity|]. cbn [filter fst]. destruct (String.eqb k' k) eqn:E; cbn [negb]; [exact IH|].
  cbn [assoc_s]. rewrite String.eqb_sym, E. exact IH.
Qed.
Lemma assoc_remove_other k k' md : k' <> k -> assoc_s k' (remove_key k md) = assoc_s k' md.
Proof.
  intros H. unfold remove_key. induction md as [|[k0 v] r IH]; [reflexivity|]. cbn [filter fst]. destruct (String.eqb k0 k) eqn:E; cbn [negb assoc_s].
  - apply String.eqb_eq in E. subst k0. apply String.eqb_neq in H. rewrite H. exact IH.
  - rewrite IH. reflexivity.
Qed.

Definition items_plain_b (items : list item) : bool := forallb (fun i => match i with IExpr _ _ => true | IStar _ => false end) items.

Lemma plain_not_star i : item_ok i = true -> (match i with IExpr _ _ => true | IStar _ => false end) = true ->
  fst (item_ref i) <> "*" /\ item_name i <> "*".
Proof.
  destruct i as [[qq c| | | | | |] al|qq]; cbn [item_ok]; try discriminate. intros H _.
  apply andb_true_iff in H. destruct H as [H Ha]. apply andb_true_iff in H. destruct H as [Hc _].
  assert (Hn : forall x, id_ok x = true -> x <> "*") by (intros x Hx ->; discriminate Hx).
  cbn [item_ref item_name fst]. split; [apply Hn; exact Hc|]. destruct al as [a|]; apply Hn; assumption.
Qed.

Lemma S_of_craw ts x c qq s0 : ts_inj ts -> xsrc x = [(c, qq)] -> In s0 (S_of ts x) -> craw s0 = c.
Proof.
  intros Hinj Ex Hs. unfold S_of in Hs. rewrite Ex in Hs. destruct qq as [q|].
  - destruct (find _ ts); [|destruct Hs]. destruct Hs as [<-|[]]. reflexivity.
  - destruct ts as [|a [|b r]].
    + destruct Hs as [<-|[]]. exact (proj1 (Ucol_props [] c Hinj)).
    + destruct Hs as [<-|[]]. reflexivity.
    + destruct Hs as [<-|[]]. exact (proj1 (Ucol_props _ c Hinj)).
Qed.

(** the conditions of the cores for plain items: no column of the holder is a star *)
Definition nostar (c : column) : Prop := craw c <> "*".

Lemma HE_nostar e d ts NM g' :
  lits_in (QK (d :: ts) (PC5 d ts NM nostar)) g' -> expand_wildcard e g' = Ok g'.
Proof.
  intros Hl. apply expand_wildcard_nostar. apply (lits_weaken (QK (d :: ts) (PC5 d ts NM nostar))); [|exact Hl].
  intros n Hq c ->. cbn [QK] in Hq. exact (proj2 (proj2 Hq)).
Qed.

Lemma plain_P e t from items :
  forallb rel_ok from = true -> forallb item_ok items = true -> items_plain_b items = true ->
  tables_cond (e_cfg e) t from ->
  forall x, In x (map xcol_of items) ->
    nostar (own_col (tbl e t None) x) /\ forall s0, In s0 (S_of (map (tbl_of e) from) x) -> nostar s0.
Proof.
  intros Hrel Hit Hpl Htc x Hx. apply in_map_iff in Hx. destruct Hx as (i & <- & Hi).
  rewrite forallb_forall in Hit. unfold items_plain_b in Hpl. rewrite forallb_forall in Hpl.
  destruct (xcol_of_facts i (Hit i Hi)) as (F1 & F2 & _). destruct (plain_not_star i (Hit i Hi) (Hpl i Hi)) as [N1 N2]. split.
  - unfold nostar. rewrite own_col_eq by (rewrite F1; reflexivity). rewrite F1. exact N2.
  - intros s0 Hs0. unfold nostar. destruct (item_ref i) as [c qq] eqn:Er.
    rewrite (S_of_craw _ _ c qq s0 (ts_inj_of e t from Hrel Htc) F2 Hs0). exact N1.
Qed.

Theorem model_plain_cols noise e base t cols cs items from cj :
  noise_ok noise = true -> env_ok_md e = true ->
  stmt_ok (SInsert t cols (QSelect items from cj None)) = true -> sshape (SInsert t cols (QSelect items from cj None)) = true ->
  tref_ok t = true -> forallb id_ok cs = true -> NoDup cs -> List.length cs = List.length items ->
  forallb item_ok items = true -> from <> [] -> forallb rel_ok from = true -> items_plain_b items = true ->
  tables_cond (e_cfg e) t from -> items_cond from items -> noqual_items from items ->
  let d := tbl e t None in let ts := map (tbl_of e) from in let xs := map xcol_of items in
  (cols = Some cs /\ (p_truthy (e_provider e) = true -> target_cols (with_cols e (view_cols [] base)) t = []))
  \/ (cols = None /\ p_truthy (e_provider e) = true /\ target_cols (with_cols e (view_cols [] base)) t = map (Wcol d) cs) ->
  script_pairs e false base [r_stmt noise (SInsert t cols (QSelect items from cj None))] =
  uniq_sorted (sort_strings (map flow_str (rflows (pB e base) (flows_of (S_of ts) (combine xs (map (Wcol d) cs)))))).
Proof.
  intros Hn He Hok Hss Ht Hcs Hnd Hlen Hit Hne Hrel Hpl Htc Hic Hnq d ts xs Hmode.
  apply (model_pairs_cols_md noise Hn e He base t cols cs items from cj nostar Hok Hss Ht Hcs Hnd Hlen Hit Hne Hrel Hmode
           (group_ok_of e t from Hrel Htc) (ts_inj_of e t from Hrel Htc) (names_nodot_of e from Hrel)
           (xref_ok_of e t from items Hrel Hit Htc Hic) (noqual_of e from items Hit Hnq)).
  - intros c Hc. unfold nostar, Wcol. cbn [craw]. rewrite forallb_forall in Hcs. intros ->. discriminate (Hcs "*" Hc).
  - intros x Hx. exact (proj2 (plain_P e t from items Hrel Hit Hpl Htc x Hx)).
  - intros g' Hg'. exact (HE_nostar _ _ _ _ g' Hg').
Qed.

Theorem c13_insert_positions : forall noise e base t tc items from cj,
  let s1 := SInsert t None (QSelect items from cj None) in
  let s2 := SInsert t (Some tc) (QSelect items from cj None) in
  noise_ok noise = true -> env_ok_md e = true -> p_truthy (e_provider e) = true ->
  stmt_ok s2 = true -> sshape s2 = true -> colshape s2 = true -> sel_tables_syntactic s2 = true ->
  items_plain_b items = true ->
  known base (tref_str (e_cfg e) t) = Some tc ->
  script_pairs e false base [r_stmt noise s1] = script_pairs e false (remove_key (tref_str (e_cfg e) t) base) [r_stmt noise s2].
Proof.
  intros noise e base t tc items from cj s1 s2 Hn He Hp Hok Hss Hc Hsh Hpl Hk.
  cbn [sel_tables_syntactic] in Hsh. apply andb_true_iff in Hsh. destruct Hsh as [Hrt Hd].
  pose proof Hok as Hok2. cbn [stmt_ok] in Hok. apply andb_true_iff in Hok. destruct Hok as [Hok' Hcs].
  destruct (stmt_ok_select t items from cj Hok' Hrt) as (Ht & Hit & Hne & Hrel).
  assert (Hs' : (exists cols, s2 = SInsert t cols (QSelect items from cj None)) \/ s2 = SCtas t (QSelect items from cj None) \/ s2 = SView t (QSelect items from cj None))
    by (left; exists (Some tc); reflexivity).
  destruct (colshape_tables (e_cfg e) s2 t items from cj Hs' Hc Ht Hne Hrel Hit Hd) as (Htc & Hic & Hnq).
  destruct (colshape_tables "" s2 t items from cj Hs' Hc Ht Hne Hrel Hit Hd) as (Htc0 & _ & _).
  destruct (colshape_cols s2 t tc items from cj eq_refl Hc Hrel Hit Htc0 Hic) as [Hnd Hlen].
  assert (Hok1 : stmt_ok s1 = true) by (unfold s1; cbn [stmt_ok]; rewrite Hok'; reflexivity).
  set (d := tbl e t None). set (ts := map (tbl_of e) from).
  set (base' := remove_key (tref_str (e_cfg e) t) base).
  (* the INSERT without column list, target known *)
  assert (T1 : target_cols (with_cols e (view_cols [] base)) t = map (Wcol d) tc).
  { unfold target_cols, provider_columns. change (provider_cols _ (tbl (with_cols e (view_cols [] base)) t None)) with (provider_cols (pB e base) d).
    rewrite provider_cols_known. change (dstr d) with (tref_str (e_cfg e) t). rewrite Hk. apply map_ext_in. intros c Hc0.
    rewrite forallb_forall in Hcs. rewrite (id_ok_escape c (Hcs c Hc0)). reflexivity. }
  assert (T2 : target_cols (with_cols e (view_cols [] base')) t = []).
  { apply provider_columns_unknown. change (dstr (tbl (with_cols e (view_cols [] base')) t None)) with (tref_str (e_cfg e) t).
    unfold is_known, known, base'. rewrite assoc_remove_same. reflexivity. }
  unfold s1, s2 in *.
  rewrite (model_plain_cols noise e base t None tc items from cj Hn He Hok1 Hss Ht Hcs Hnd Hlen Hit Hne Hrel Hpl Htc Hic Hnq
             (or_intror (conj eq_refl (conj Hp T1)))).
  rewrite (model_plain_cols noise e base' t (Some tc) tc items from cj Hn He Hok2 Hss Ht Hcs Hnd Hlen Hit Hne Hrel Hpl Htc Hic Hnq
             (or_introl (conj eq_refl (fun _ => T2)))).
  f_equal. f_equal. f_equal. apply rflows_ext. intros f Hf. unfold Rmd, pB. cbn [p_truthy]. destruct (p_truthy (e_provider e)); [|reflexivity].
  apply cim_ext. intros v Hv.
  assert (Hvt : In v ts).
  { apply (flows_sources_in ts _ f v (ts_inj_of e t from Hrel Htc)) in Hf; [exact Hf| |exact Hv].
    intros x Hx. apply in_map_iff in Hx. destruct Hx as ([x' w] & <- & Hx). cbn [fst].
    apply (xref_ok_of e t from items Hrel Hit Htc Hic). exact (in_combine_l _ _ _ _ Hx). }
  change (provider_cols {| p_truthy := true; p_cols := base |} v) with (provider_cols (pB (mk_env "" "" "" {| p_truthy := true; p_cols := [] |} []) base) v).
  change (provider_cols {| p_truthy := true; p_cols := base' |} v) with (provider_cols (pB (mk_env "" "" "" {| p_truthy := true; p_cols := [] |} []) base') v).
  rewrite !provider_cols_known. unfold known, base'. rewrite assoc_remove_other; [reflexivity|].
  unfold ts in Hvt. apply in_map_iff in Hvt. destruct Hvt as (r & <- & Hr). rewrite forallb_forall in Hrel.
  rewrite (tbl_of_table e r (rel_ok_table _ (Hrel r Hr))). cbn [tbl dstr]. destruct Htc as [_ Hnt]. intros K. apply Hnt. rewrite <- K.
  apply (in_map (fun r => tref_str (e_cfg e) (rtref r))). exact Hr.
Qed.
Print Assumptions c13_insert_positions.

(* ================================================================== *)
(** * Clause (b): unqualified columns over several tables, at the level of flows.
    [model_plain_own]: for CREATE TABLE AS / CREATE VIEW AS / INSERT (target unknown to the catalog) over plain column
    references, the reported pairs are those of the flows of Lemma B after [rflows]: every unresolved source
    c{t1,..,tn} is replaced by the columns v.c of exactly those candidate tables v whose catalog entry lists c
    ([In_rflows], [Rmd_lists]); if no candidate lists it the flow stays as it is. *)
Lemma Rmd_lists e base u c' :
  p_truthy (e_provider e) = true ->
  (In c' (Rmd (pB e base) u) <->
   exists v cn, In v (cparents u) /\ dk v = KTable /\ dschema v <> Escape.placeholder /\
                (exists cols, known base (dstr v) = Some cols /\ In cn cols) /\ escape cn = craw u /\ c' = mk_col cn v).
Proof.
  intros Hp. unfold Rmd, pB at 1. cbn [p_truthy]. rewrite Hp. unfold candidates_in_metadata. rewrite in_flat_map. split.
  - intros (v & Hv & H). destruct (dk v) eqn:Ek; [|destruct H|destruct H].
    destruct (String.eqb (dschema v) Escape.placeholder) eqn:Es; [destruct H|]. apply in_flat_map in H. destruct H as (cn & Hcn & H).
    destruct (String.eqb (craw u) (craw (mk_col cn v))) eqn:Ec; [|destruct H]. destruct H as [<-|[]].
    rewrite provider_cols_known in Hcn. destruct (known base (dstr v)) as [cols|] eqn:Ekn; [|destruct Hcn].
    exists v, cn. split; [exact Hv|]. split; [exact Ek|]. split; [apply String.eqb_neq; exact Es|]. split; [exists cols; auto|].
    apply String.eqb_eq in Ec. cbn [mk_col craw] in Ec. auto.
  - intros (v & cn & Hv & Ek & Es & (cols & Ekn & Hcn) & Ee & ->). exists v. split; [exact Hv|]. rewrite Ek.
    apply String.eqb_neq in Es. rewrite Es. apply in_flat_map. exists cn. split; [rewrite provider_cols_known, Ekn; exact Hcn|].
    cbn [mk_col craw]. rewrite Ee, String.eqb_refl. left. reflexivity.
Qed.

Theorem model_plain_own noise e base (s : stmt) t items from cj :
  noise_ok noise = true -> env_ok_md e = true ->
  (s = SInsert t None (QSelect items from cj None) /\ is_known base (tref_str (e_cfg e) t) = false
   \/ s = SCtas t (QSelect items from cj None) \/ s = SView t (QSelect items from cj None)) ->
  stmt_ok s = true -> sshape s = true -> colshape s = true -> sel_tables_syntactic s = true -> items_plain_b items = true ->
  let d := tbl e t None in let ts := map (tbl_of e) from in let xs := map xcol_of items in
  script_pairs e false base [r_stmt noise s] =
  uniq_sorted (sort_strings (map flow_str (rflows (pB e base) (flows_of (S_of ts) (own_pairs d xs))))).
Proof.
  intros Hn He Hs Hok Hss Hc Hsh Hpl d ts xs.
  assert (K : forallb is_rtable from && trefs_distinct (map rtref from) = true /\
              tref_ok t && frag_query (S (q_size (QSelect items from cj None))) (QSelect items from cj None)
              && names_ok_q (S (q_size (QSelect items from cj None))) [] (QSelect items from cj None) = true).
  { destruct Hs as [[-> _]|[->| ->]]; cbn [sel_tables_syntactic stmt_ok] in *.
    - apply andb_true_iff in Hok. destruct Hok as [Hok' _]. auto.
    - auto.
    - auto. }
  destruct K as [Hsh' Hok']. apply andb_true_iff in Hsh'. destruct Hsh' as [Hrt Hd].
  destruct (stmt_ok_select t items from cj Hok' Hrt) as (Ht & Hit & Hne & Hrel).
  assert (Hs' : (exists cols, s = SInsert t cols (QSelect items from cj None)) \/ s = SCtas t (QSelect items from cj None) \/ s = SView t (QSelect items from cj None)).
  { destruct Hs as [[E _]|[E|E]]; [left; exists None; exact E|right; left; exact E|right; right; exact E]. }
  destruct (colshape_tables (e_cfg e) s t items from cj Hs' Hc Ht Hne Hrel Hit Hd) as (Htc & Hic & Hnq).
  apply (model_pairs_own_md noise Hn e He base s t items from cj nostar); try assumption.
  - destruct Hs as [[E Hu]|[E|E]]; [left; split; [exact E|]|right; left; exact E|right; right; exact E].
    intros _. apply provider_columns_unknown. exact Hu.
  - exact (group_ok_of e t from Hrel Htc).
  - exact (ts_inj_of e t from Hrel Htc).
  - exact (names_nodot_of e from Hrel).
  - exact (xref_ok_of e t from items Hrel Hit Htc Hic).
  - exact (noqual_of e from items Hit Hnq).
  - exact (plain_P e t from items Hrel Hit Hpl Htc).
  - intros g' Hg'. exact (HE_nostar _ _ _ _ g' Hg').
Qed.
Print Assumptions model_plain_own.

Lemma In_us x l : In x (uniq_sorted (sort_strings l)) <-> In x l.
Proof. rewrite (proj2 (uniq_sorted_props _ (sort_sorted l)) x). apply In_sort. Qed.

(** clause (b) in terms of the reported pairs: a pair is reported iff it is a flow of Lemma B whose source is resolved or
    has no candidate listing it, or it is v.c > target for an unresolved flow c{..} > target and a candidate table v
    (a table of the scope, in a named schema) whose catalog entry lists c *)
Corollary c13_unqualified_attribution noise e base (s : stmt) t items from cj :
  noise_ok noise = true -> env_ok_md e = true -> p_truthy (e_provider e) = true ->
  (s = SInsert t None (QSelect items from cj None) /\ is_known base (tref_str (e_cfg e) t) = false
   \/ s = SCtas t (QSelect items from cj None) \/ s = SView t (QSelect items from cj None)) ->
  stmt_ok s = true -> sshape s = true -> colshape s = true -> sel_tables_syntactic s = true -> items_plain_b items = true ->
  let d := tbl e t None in let ts := map (tbl_of e) from in let xs := map xcol_of items in
  forall x, In x (script_pairs e false base [r_stmt noise s]) <->
    exists f, In f (flows_of (S_of ts) (own_pairs d xs)) /\
      ((x = flow_str f /\ (unresolved (NCol (fst f)) = None \/ Rmd (pB e base) (fst f) = [])) \/
       (unresolved (NCol (fst f)) = Some (fst f) /\
        exists v cn, In v (cparents (fst f)) /\ dk v = KTable /\ dschema v <> Escape.placeholder /\
                     (exists cols, known base (dstr v) = Some cols /\ In cn cols) /\ escape cn = craw (fst f) /\
                     x = flow_str (mk_col cn v, snd f))).
Proof.
  intros Hn He Hp Hs Hok Hss Hc Hsh Hpl d ts xs x.
  rewrite (model_plain_own noise e base s t items from cj Hn He Hs Hok Hss Hc Hsh Hpl). fold d ts xs.
  rewrite In_us, in_map_iff. split.
  - intros (f' & <- & Hf'). apply In_rflows in Hf'. destruct Hf' as (f & Hf & [[-> Hk]|(Eu & c & Hcc & ->)]); exists f; (split; [exact Hf|]).
    + left. auto.
    + right. split; [exact Eu|]. apply (Rmd_lists e base (fst f) c Hp) in Hcc. destruct Hcc as (v & cn & A1 & A2 & A3 & A4 & A5 & ->).
      exists v, cn. repeat (split; [assumption|]). reflexivity.
  - intros (f & Hf & [[-> Hk]|(Eu & v & cn & A1 & A2 & A3 & A4 & A5 & ->)]).
    + exists f. split; [reflexivity|]. apply In_rflows. exists f. split; [exact Hf|]. left. auto.
    + exists (mk_col cn v, snd f). split; [reflexivity|]. apply In_rflows. exists f. split; [exact Hf|]. right. split; [exact Eu|].
      exists (mk_col cn v). split; [|reflexivity]. apply (Rmd_lists e base (fst f) _ Hp). exists v, cn. repeat (split; [assumption|]). reflexivity.
Qed.
Print Assumptions c13_unqualified_attribution.

(* ================================================================== *)
(** * The statements that remain open (type-checked, tested, NOT assumed) *)
(** the full lemma; [md_ok] takes the default schema as an extra argument (the catalog is keyed by printed names) *)
Definition lemma_B_md_statement : Prop :=
  forall noise e base s,
    noise_ok noise = true -> env_ok_md e = true -> p_truthy (e_provider e) = true -> stmt_ok s = true -> sshape s = true ->
    colshape s = true -> sel_tables_syntactic s = true -> md_ok (e_cfg e) base s = true ->
    script_pairs e false base [r_stmt noise s] = spec_pairs_md (e_cfg e) base s.

(** clause (a) for one known table: SELECT * contributes exactly the catalog columns *)
Definition c13_star_expands_statement : Prop :=
  forall noise e base t tr al cols (view : bool),
    noise_ok noise = true -> env_ok_md e = true -> p_truthy (e_provider e) = true ->
    let s := if view then SView t (QSelect [IStar None] [RTable tr al] false None) else SCtas t (QSelect [IStar None] [RTable tr al] false None) in
    stmt_ok s = true -> sshape s = true -> colshape s = true ->
    known base (tref_str (e_cfg e) tr) = Some cols -> forallb id_ok cols = true ->
    script_pairs e false base [r_stmt noise s] =
    uniq_sorted (sort_strings (map (fun c => (tref_str (e_cfg e) tr ++ "." ++ c ++ ">" ++ tref_str (e_cfg e) t ++ "." ++ c)%string) cols)).

(* ================================================================== *)
(** * Non-vacuity: concrete instances satisfying all hypotheses of the theorems above *)
Module NV.
  Import MdB.
  Definition e1 := E "main".
  Definition s_unknown := SInsert X (Some ["k"; "l"]) (sel [col "a"; qcol "u" "b"] [T "t"; T "u"]).
  Definition s_unknown2 := SCtas X (sel [qstar "t"; col "a"] [T "t"; T "u"]).
  Definition base_other : catalog := [("main.zz", ["a"]); ("other.t", ["a"; "b"]); ("main.t", [])].
  Definition q_pos := QSelect [col "a"; acol "b" "z"] [T "t"; T "u"] false None.
  Definition base_pos : catalog := [("main.x", ["p"; "q"]); ("main.t", ["a"]); ("main.u", ["b"])].
  Definition s_attr := SCtas X (csel [col "a"; col "c"; acol "b" "z"] [T "t"; T "u"]).
End NV.

Example c13_unknown_tables_same_nonvacuous :
  forallb (fun s => noise_ok [MdB.W] && env_ok_md NV.e1 && stmt_ok s && sshape s && colshape s && sel_tables_syntactic s
                    && md_unknown (e_cfg NV.e1) NV.base_other s) [NV.s_unknown; NV.s_unknown2] = true /\
  script_pairs NV.e1 false NV.base_other [r_stmt [MdB.W] NV.s_unknown2] = ["a{main.t,main.u}>main.x.a"; "main.t.*>main.x.*"].
Proof. split; vm_compute; reflexivity. Qed.

Example c13_insert_positions_nonvacuous :
  let s2 := SInsert MdB.X (Some ["p"; "q"]) NV.q_pos in
  noise_ok [MdB.W] && env_ok_md NV.e1 && p_truthy (e_provider NV.e1) && stmt_ok s2 && sshape s2 && colshape s2 && sel_tables_syntactic s2
  && items_plain_b [MdB.col "a"; MdB.acol "b" "z"] = true /\
  known NV.base_pos (tref_str (e_cfg NV.e1) MdB.X) = Some ["p"; "q"] /\
  script_pairs NV.e1 false NV.base_pos [r_stmt [MdB.W] (SInsert MdB.X None NV.q_pos)] = ["main.t.a>main.x.p"; "main.u.b>main.x.q"].
Proof. repeat split; vm_compute; reflexivity. Qed.

Example c13_unqualified_attribution_nonvacuous :
  noise_ok [MdB.W] && env_ok_md NV.e1 && p_truthy (e_provider NV.e1) && stmt_ok NV.s_attr && sshape NV.s_attr && colshape NV.s_attr
  && sel_tables_syntactic NV.s_attr && items_plain_b [MdB.col "a"; MdB.col "c"; MdB.acol "b" "z"] = true /\
  script_pairs NV.e1 false MdB.md_tu [r_stmt [MdB.W] NV.s_attr] =
  ["main.t.a>main.x.a"; "main.t.b>main.x.z"; "main.u.a>main.x.a"; "main.u.c>main.x.c"].
Proof. split; vm_compute; reflexivity. Qed.

(** the open statements on concrete instances *)
Example c13_star_expands_instance :
  script_pairs NV.e1 false MdB.md_t [r_stmt [MdB.W; MdB.Cm] (SView MdB.X (QSelect [IStar None] [RTable (None, "t") (Some "k")] false None))]
  = ["main.t.a>main.x.a"; "main.t.b>main.x.b"].
Proof. vm_compute. reflexivity. Qed.

(* ================================================================== *)
(** * The full lemma where the catalog knows none of the tables of the statement ([lemma_B_md_statement] restricted
      to [md_unknown], which implies [md_ok]) *)
Definition scope_unknown (md : catalog) (scope : list binding) : Prop :=
  forall b t, In b scope -> b_rel b = RelBase t -> known md t = None.

Lemma resolve_md_unknown md scope r : scope_unknown md scope -> resolve_md md scope r = resolve scope r.
Proof.
  intros Hu. unfold resolve_md, resolve. destruct (fst r) as [q|]; [reflexivity|].
  destruct scope as [|b [|b' rest]]; [reflexivity|reflexivity|].
  assert (El : flat_map (rel_lister md (snd r)) (b :: b' :: rest) = []).
  { apply flat_map_none. intros x Hx. unfold rel_lister. destruct (b_rel x) as [t|cols] eqn:Ex; [|reflexivity].
    rewrite (Hu x t Hx Ex). reflexivity. }
  rewrite El. cbn [dedup_s is_nil negb]. rewrite andb_false_r. reflexivity.
Qed.

Lemma item_cols_md_unknown md scope i : scope_unknown md scope -> item_cols_md md scope i = item_cols scope i.
Proof.
  intros Hu. destruct i as [e0 al|q]; cbn [item_cols_md item_cols].
  - f_equal. f_equal. f_equal. apply flat_map_ext. intros r. apply resolve_md_unknown. exact Hu.
  - apply flat_map_ext_in'. intros b Hb. destruct (b_rel b) as [t|cols] eqn:Eb; [|reflexivity].
    assert (Hin : In b scope).
    { destruct q as [qq|]; [|exact Hb]. unfold find_binding in Hb.
      destruct (filter _ scope) as [|b1 l1] eqn:E1.
      - destruct (filter (fun b0 => mem_string qq (b_names b0)) scope) as [|b2 l2] eqn:E2; [destruct Hb|]. destruct Hb as [<-|[]].
        assert (K : In b2 (filter (fun b0 => mem_string qq (b_names b0)) scope)) by (rewrite E2; left; reflexivity). apply filter_In in K. exact (proj1 K).
      - destruct Hb as [<-|[]].
        match type of E1 with filter ?P scope = _ => assert (K : In b1 (filter P scope)) by (rewrite E1; left; reflexivity) end.
        apply filter_In in K. exact (proj1 K). }
    rewrite (Hu b t Hin Eb). reflexivity.
Qed.

Lemma spec_md_unknown ds md (s : stmt) :
  sel_tables_syntactic s = true -> md_unknown ds md s = true -> spec_flows_md ds md s = spec_flows ds s.
Proof.
  intros Hsh Hu.
  assert (K : forall (t : tref) items from cj, forallb is_rtable from = true ->
              forallb (fun r => negb (rel_is_known ds md r)) from = true ->
              q_cols_md (S (q_size (QSelect items from cj None))) ds md [] (QSelect items from cj None) =
              q_cols (S (q_size (QSelect items from cj None))) ds [] (QSelect items from cj None)).
  { intros _ items from cj Hrt Hun. rewrite (q_cols_select _ ds items from cj None Hrt). cbn [q_cols_md].
    rewrite (rels_flat_tables from Hrt).
    match goal with |- flat_map (item_cols_md md ?S1) items = _ => assert (E : S1 = map (sbind ds) from) end.
    { apply map_ext_in. intros r Hr. rewrite forallb_forall in Hrt. specialize (Hrt r Hr). destruct r as [t al| |]; try discriminate.
      cbn [assoc_s]. destruct (fst t); reflexivity. }
    rewrite E. apply flat_map_ext. intros i. apply item_cols_md_unknown. intros b t Hb Eb. apply in_map_iff in Hb. destruct Hb as (r & <- & Hr).
    cbn [sbind b_rel] in Eb. inversion Eb. subst t. rewrite forallb_forall in Hun. specialize (Hun r Hr). apply negb_true_iff in Hun.
    unfold rel_is_known, is_known, rel_tname in Hun. destruct (known md (tref_str ds (rtref r))); [discriminate|reflexivity]. }
  destruct s as [t cols q|t q|t q|q|k]; cbn [sel_tables_syntactic] in Hsh; try discriminate;
    destruct q as [items from cj [wh|]| |]; try discriminate; apply andb_true_iff in Hsh; destruct Hsh as [Hrt _];
    cbn [md_unknown] in Hu; apply andb_true_iff in Hu; destruct Hu as [Ut Uf]; apply negb_true_iff in Ut;
    unfold spec_flows_md, spec_flows; rewrite (K t items from cj Hrt Uf); [|reflexivity|reflexivity].
  unfold is_known in Ut. destruct (known md (tref_str ds t)); [discriminate|reflexivity].
Qed.

Theorem lemma_B_md_unknown : forall noise e base s,
  noise_ok noise = true -> env_ok_md e = true -> stmt_ok s = true -> sshape s = true -> colshape s = true ->
  sel_tables_syntactic s = true -> md_unknown (e_cfg e) base s = true ->
  script_pairs e false base [r_stmt noise s] = spec_pairs_md (e_cfg e) base s.
Proof.
  intros noise e base s Hn He Hok Hss Hc Hsh Hu.
  rewrite (c13_unknown_tables_same noise e base s Hn He Hok Hss Hc Hsh Hu).
  rewrite (lemma_B_tables_colshape noise (LemmaAMeta.strip e) s Hn (env_ok_strip e He) Hok Hss Hc Hsh).
  unfold spec_pairs_md, spec_pairs. rewrite (spec_md_unknown (e_cfg e) base s Hsh Hu). reflexivity.
Qed.
Print Assumptions lemma_B_md_unknown.

Lemma md_unknown_ok_tests :
  forallb (fun s => md_unknown "main" NV.base_other s && md_ok "main" NV.base_other s) [NV.s_unknown; NV.s_unknown2] = true.
Proof. vm_compute. reflexivity. Qed.

(* ================================================================== *)
(** * A systematic sweep of [lemma_B_md_statement] in executable form: 4 statement kinds x 16 select lists x 6 FROM
      clauses x 10 catalogs x 2 default schemas = 7680 instances; 4211 satisfy all guards, none of them fails *)
Module Sweep.
  Import MdB.
  Definition itemsets : list (list item) := [
    [star]; [qstar "t"]; [qstar "u"]; [qstar "t"; qstar "u"]; [col "a"]; [col "a"; col "b"]; [col "c"]; [col "zz"];
    [qcol "t" "a"; qcol "u" "c"]; [qstar "t"; col "c"]; [qstar "t"; acol "a" "z"]; [qstar "u"; qcol "t" "b"]; [col "a"; qstar "u"];
    [acol "a" "p"; acol "c" "q"]; [qstar "k"; col "d"]; [qcol "k" "a"; col "b"] ].
  Definition froms : list (list rel) :=
    [ [T "t"]; [T "t"; T "u"]; [TA "t" "k"; T "u"]; [ST "s" "t"; T "u"]; [T "t"; T "u"; T "w"]; [ST "s" "t"; ST "s" "u"] ].
  Definition cats : list catalog := [ []; md_t; md_tu; md_tu2; md_x; md_xt;
    [("main.x", ["p"]); ("main.t", ["a"; "b"]); ("main.u", ["c"; "d"])];
    [("s.t", ["a"; "b"]); ("main.u", ["c"; "d"]); ("s.u", ["a"; "c"])];
    [("<default>.t", ["a"; "b"]); ("<default>.u", ["c"; "d"]); ("<default>.x", ["p"; "q"])];
    [("main.t", ["a"; "b"]); ("main.u", ["c"; "d"]); ("main.w", ["a"; "e"])] ].
  Definition mk (k : nat) items from :=
    match k with
    | 0 => SInsert X None (sel items from) | 1 => SCtas X (sel items from)
    | 2 => SInsert X (Some ["p"; "q"]) (sel items from) | _ => SInsert X None (csel items from)
    end.
  Definition all : list string :=
    flat_map (fun k => flat_map (fun its => flat_map (fun fr => flat_map (fun c =>
      map (fun ds => lemma_B_md_check [] (E ds) c (mk k its fr)) [""; "main"]) cats) froms) itemsets) [0; 1; 2; 3].
End Sweep.

Lemma lemma_B_md_sweep :
  List.length Sweep.all = 7680 /\
  List.length (filter (String.eqb "holds") Sweep.all) = 4211 /\
  List.length (filter (String.eqb "FAILS") Sweep.all) = 0.
Proof. vm_compute. repeat split. Qed.

Print Assumptions lemma_B_md_tests.
Print Assumptions lemma_B_md_unguarded_refuted.
Print Assumptions build_md.
Print Assumptions model_pairs_own_md.
Print Assumptions model_pairs_cols_md.
Print Assumptions lemma_B_md_sweep.
