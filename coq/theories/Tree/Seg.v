(** L4: the sqlfluff segment tree, as far as the extractors can see it.
    [ty] = segment.type, [gty] = segment.get_type(), [cls] = segment.class_types
    (what is_type / get_child / get_children / recursive_crawl match on),
    [sraw] = raw text of a leaf (inner nodes: "" - their raw is the concatenation
    of their children's), the three trivia flags, children in order. *)
From SV Require Export Base.Util.

Inductive seg :=
  Seg (ty gty : string) (cls : list string) (sraw : string) (ws cm mt : bool) (ch : list seg).

Definition ty (s : seg) : string := match s with Seg t _ _ _ _ _ _ _ => t end.
Definition gty (s : seg) : string := match s with Seg _ g _ _ _ _ _ _ => g end.
Definition cls (s : seg) : list string := match s with Seg _ _ c _ _ _ _ _ => c end.
Definition children (s : seg) : list seg := match s with Seg _ _ _ _ _ _ _ c => c end.
Definition is_ws (s : seg) : bool := match s with Seg _ _ _ _ w _ _ _ => w end.
Definition is_cm (s : seg) : bool := match s with Seg _ _ _ _ _ c _ _ => c end.
Definition is_mt (s : seg) : bool := match s with Seg _ _ _ _ _ _ m _ => m end.

Fixpoint raw (s : seg) : string :=
  match s with
  | Seg _ _ _ r _ _ _ [] => r
  | Seg _ _ _ _ _ _ _ ch => concat_str (map raw ch)
  end.
Definition raw_upper (s : seg) : string := upper (raw s).

Fixpoint depth (s : seg) : nat :=
  match s with Seg _ _ _ _ _ _ _ ch => S (fold_right Nat.max 0 (map depth ch)) end.
Fixpoint size (s : seg) : nat :=
  match s with Seg _ _ _ _ _ _ _ ch => S (fold_right Nat.add 0 (map size ch)) end.

Definition tyis (s : seg) (t : string) : bool := String.eqb (ty s) t.
Definition ty_in (s : seg) (ts : list string) : bool := mem_string (ty s) ts.

(** is_type: class types (incl. instance types) intersect *)
Definition is_type (s : seg) (ts : list string) : bool := existsb (fun c => mem_string c ts) (cls s).

Definition get_children (s : seg) (ts : list string) : list seg := filter (fun c => is_type c ts) (children s).
Definition get_child (s : seg) (ts : list string) : option seg :=
  match get_children s ts with x :: _ => Some x | [] => None end.

(** recursive_crawl with recurse_into: self first; below a match only if recurse_into *)
Fixpoint crawl (ts : list string) (recurse_into : bool) (s : seg) : list seg :=
  match s with
  | Seg _ _ _ _ _ _ _ ch =>
      let m := is_type s ts in
      (if m then [s] else []) ++
      (if recurse_into || negb m then flat_map (crawl ts recurse_into) ch else [])
  end.

(** iter_segments(expanding, pass_through=True) *)
Fixpoint iter_expanding (ts : list string) (s : seg) : list seg :=
  match s with
  | Seg _ _ _ _ _ _ _ ch =>
      flat_map (fun c => if is_type c ts then iter_expanding ts c else [c]) ch
  end.
