(** Lemma B, step 5a, continued: sub-queries with unresolved columns.

    Part 1 repeats the section [Core] of LemmaB5a.v with one more parameter [QX]: the stored column objects of the holder
    may also be unresolved columns of OTHER scopes (the proofs are the same, names carry the suffix X). *)
From Coq Require Import Permutation.
From SV Require Import Tree.Render Tree.LemmaA Tree.LemmaAProofs Tree.LemmaB Tree.LemmaBProofs Tree.LemmaB5a Tree.LemmaB5a2 Tree.LemmaB5a3 Ident.Escape Ident.EscapeProofs
     Holder.PathProofs Holder.SortProofs.

(* ================================================================== *)
(** * Part 1 *)
Section CoreX.
Variable e : env.
Hypothesis Hprov : p_truthy (e_provider e) = false.
Variable d : dataset.
Variable ts : list dataset.
Hypothesis Hgo : group_ok d ts.
Hypothesis Hinj : ts_inj ts.
Hypothesis Hnd : names_nodot ts.
Hypothesis Hdo : Forall data_ok ts.
Hypothesis Hd_ok : data_ok d.
(** [L a w]: the label [a] may hang on the storedX object of the table [w] of this scope, left there by another scope *)
Variable L : string -> dataset -> Prop.
Hypothesis HLdot : forall a w v, L a w -> In v ts -> a <> dstr v.
(** the names of the unresolved columns of this scope *)
Variable NM : list string.
(** what else may be stored in the holder: the unresolved columns of other scopes *)
Variable QX : column -> Prop.

Lemma ts_tab_okX w : In w ts -> tab_ok w.
Proof. intros Hw. split; [exact (go_tables _ _ Hgo w Hw)|]. rewrite Forall_forall in Hdo. apply Hdo. exact Hw. Qed.

(** the storedX object of an unresolved column of this scope *)
Definition UPX (c : column) : Prop :=
  2 <= List.length (cparents c) /\ (In (craw c) NM /\ escape (craw c) = craw c) /\
  (forall p, In p (cparents c) -> tab_ok p /\ exists w, In w ts /\ dataset_eqb p w = true) /\
  (forall w, In w ts -> exists p, In p (cparents c) /\ dataset_eqb p w = true) /\
  NoDup (map dstr (cparents c)).
Definition QCX (n : Graph.node) : Prop :=
  match n with NCol c => List.length (cparents c) = 1 \/ UPX c \/ QX c | _ => True end.

Record finvX (g : graph) : Prop := {
  fi_aliasX : forall e0 src a, In e0 (gedges g) -> fst e0 = (NData src, NStr a) ->
             etype (snd e0) = "has_alias" /\ forall w, In w ts -> dataset_eqb src w = true -> a = dalias w \/ L a w;
  fi_typesX : forall e0, In e0 (gedges g) -> etype (snd e0) = "lineage" \/ etype (snd e0) = "has_column" \/ etype (snd e0) = "has_alias";
  fi_srcqX : forall e0 c p, In e0 (gedges g) -> fst (fst e0) = NCol c -> cparents c = [p] -> dk p = KTable;
  fi_dropX : drop_free g
}.

Lemma finv_add_nodeX g n a : finvX g -> ~ In ("drop", true) a -> finvX (add_node g n a).
Proof. intros [A B C D] Ha. constructor; [exact A|exact B|exact C|apply drop_free_add_node; assumption]. Qed.

Lemma finv_add_edge_colX g u v a :
  finvX g -> (forall s, v <> NStr s) -> (etype a = "lineage" \/ etype a = "has_column") ->
  (forall c p, u = NCol c -> cparents c = [p] -> dk p = KTable) -> finvX (add_edge g u v a).
Proof.
  intros [A B C D] Hv Ha Hu. constructor; [| | |apply drop_free_add_edge; exact D].
  - intros e0 src a0 He Hf. unfold add_edge in He. cbn [gedges] in He. apply In_upsert_edge' in He.
    destruct He as [->|[He|(e1 & He1 & E1 & ->)]].
    + cbn [fst] in Hf. inversion Hf as [[H1 H2]]. apply canon_shape_str in H2. exfalso. exact (Hv _ H2).
    + exact (A e0 src a0 He Hf).
    + cbn [fst] in Hf. unfold edge_is in E1. apply andb_true_iff in E1. destruct E1 as [_ E1]. rewrite Hf in E1. cbn [fst snd] in E1.
      rewrite node_eqb_sym in E1. apply eqb_shape_str in E1. apply canon_shape_str in E1. exfalso. exact (Hv _ E1).
  - intros e0 He. unfold add_edge in He. cbn [gedges] in He. apply In_upsert_edge' in He.
    destruct He as [->|[He|(e1 & He1 & E1 & ->)]]; [cbn [snd]; tauto|exact (B e0 He)|cbn [snd eattr_update etype]; tauto].
  - intros e0 c p He Hf Hc. unfold add_edge in He. cbn [gedges] in He. apply In_upsert_edge' in He.
    destruct He as [->|[He|(e1 & He1 & E1 & ->)]].
    + cbn [fst] in Hf. pose proof (canon_eqb u (gnodes (add_node (add_node g u []) v []))) as E. rewrite Hf in E.
      destruct u as [|cu|]; cbn [node_eqb] in E; try discriminate. unfold col_eqb in E. apply andb_true_iff in E. destruct E as [_ E].
      unfold col_parent at 2 in E. rewrite Hc in E. destruct (col_parent cu) as [pu|] eqn:Ecu; cbn [opt_dataset_eqb] in E; [|discriminate].
      rewrite <- (dataset_eqb_dk _ _ E). apply (Hu cu pu eq_refl). apply col_parent_some. exact Ecu.
    + exact (C e0 c p He Hf Hc).
    + cbn [fst] in Hf. exact (C e1 c p He1 Hf Hc).
Qed.

Lemma finv_add_edge_aliasX g v :
  finvX g -> In v ts -> finvX (add_edge g (NData v) (NStr (dalias v)) e_has_alias).
Proof.
  intros [A B C D] Hv. constructor; [| | |apply drop_free_add_edge; exact D].
  - intros e0 src a0 He Hf. unfold add_edge in He. cbn [gedges] in He. apply In_upsert_edge' in He.
    destruct He as [->|[He|(e1 & He1 & E1 & ->)]].
    + cbn [fst snd] in *. split; [reflexivity|]. rewrite canon_str in Hf.
      destruct (canon_data v (gnodes (add_node (add_node g (NData v) []) (NStr (dalias v)) []))) as (src' & Es & Eq). rewrite Es in Hf.
      inversion Hf. subst src' a0. intros w Hw Ew. left.
      rewrite (go_distinct _ _ Hgo v w Hv Hw (dataset_eqb_trans _ _ _ Eq Ew)). reflexivity.
    + exact (A e0 src a0 He Hf).
    + cbn [fst snd] in *. split; [reflexivity|]. exact (proj2 (A e1 src a0 He1 Hf)).
  - intros e0 He. unfold add_edge in He. cbn [gedges] in He. apply In_upsert_edge' in He.
    destruct He as [->|[He|(e1 & He1 & E1 & ->)]]; [cbn [snd]; tauto|exact (B e0 He)|cbn [snd eattr_update etype]; tauto].
  - intros e0 c p He Hf Hc. unfold add_edge in He. cbn [gedges] in He. apply In_upsert_edge' in He.
    destruct He as [->|[He|(e1 & He1 & E1 & ->)]].
    + cbn [fst] in Hf. destruct (canon_data v (gnodes (add_node (add_node g (NData v) []) (NStr (dalias v)) []))) as (src' & Es & _).
      rewrite Es in Hf. discriminate.
    + exact (C e0 c p He Hf Hc).
    + cbn [fst] in Hf. exact (C e1 c p He1 Hf Hc).
Qed.

(** ** the alias mapping *)
Definition storedX (g : graph) (u : dataset) : Prop :=
  In u ts \/ exists e0 a, In e0 (gedges g) /\ fst e0 = (NData u, NStr a).

Lemma stored_okX g u : gok g -> storedX g u -> data_ok u.
Proof.
  intros Hg [Hu|(e0 & a & He & Hf)]; [rewrite Forall_forall in Hdo; apply Hdo; exact Hu|].
  destruct Hg as [_ Hg]. rewrite Forall_forall in Hg. destruct (Hg e0 He) as [H _]. rewrite Hf in H. exact H.
Qed.

Lemma am_sound_fX g q v :
  finvX g -> assoc_list q (get_alias_mapping g ts) = Some v ->
  (In v ts /\ (draw v = q \/ dstr v = q)) \/
  (exists w, In w ts /\ dataset_eqb v w = true /\ (q = dalias w \/ L q w) /\ storedX g v).
Proof.
  intros Hf H. rewrite get_alias_mapping_eq in H. cbv zeta in H. rewrite (filter_tables ts (go_tables _ _ Hgo)) in H.
  apply fold_tables_sound in H. destruct H as [[H1 H2]|H]; [left; auto|].
  apply fold_tables_sound in H. destruct H as [[H1 H2]|H]; [left; auto|].
  apply alias_fold_sound in H. destruct H as [(e0 & He & Ht & Hfst & Hm)|H]; [|discriminate].
  apply edges_nx_In in He. apply memd_In_eqb in Hm. destruct Hm as (w & Hw & E).
  right. exists w. destruct (fi_aliasX g Hf e0 v q He Hfst) as [_ Hl]. split; [exact Hw|]. split; [exact E|]. split; [exact (Hl w Hw E)|].
  right. exists e0, q. auto.
Qed.

Lemma am_values_fX g x :
  In x (map snd (get_alias_mapping g ts)) -> In x ts \/ (storedX g x /\ exists w, In w ts /\ dataset_eqb x w = true).
Proof.
  intros H. rewrite get_alias_mapping_eq in H. cbv zeta in H. rewrite (filter_tables ts (go_tables _ _ Hgo)) in H.
  apply fold_tables_values in H. destruct H as [H|H]; [left; exact H|].
  apply fold_tables_values in H. destruct H as [H|H]; [left; exact H|].
  apply alias_fold_values in H. destruct H as [(e0 & a & He & Ht & Hf & Hm)|H]; [|destruct H].
  apply edges_nx_In in He. apply memd_In_eqb in Hm. right. split; [right; exists e0, a; auto|exact Hm].
Qed.

Lemma am_complete_fX g v :
  finvX g -> In v ts -> has_edge g (NData v) (NStr (dalias v)) = true -> has_node g (NData v) = true ->
  is_some (assoc_list (dalias v) (get_alias_mapping g ts)) = true.
Proof.
  intros Hf Hv He Hn. rewrite get_alias_mapping_eq. cbv zeta. rewrite (filter_tables ts (go_tables _ _ Hgo)).
  apply fold_tables_mono. apply fold_tables_mono.
  apply has_edge_In in He. destruct He as (e0 & He & E1 & E2). apply eqb_shape_str in E2.
  destruct e0 as [[u y] a]. cbn [fst snd] in *. subst y. destruct u as [src| |]; cbn [node_eqb] in E1; try discriminate.
  destruct (fi_aliasX g Hf _ src (dalias v) He eq_refl) as [Ht _].
  apply (alias_fold_complete ts (edges_nx g) [] (NData src, NStr (dalias v), a) src (dalias v)).
  - apply edges_nx_complete; [exact He|]. cbn [fst]. unfold has_node in *. rewrite <- (has_node_l_cong (NData v) (NData src) _ E1). exact Hn.
  - exact Ht.
  - reflexivity.
  - unfold memd. apply existsb_exists. exists v. split; [exact Hv|apply dataset_eqb_true_sym; exact E1].
Qed.

Record sinvX (g : graph) : Prop := {
  sv_gokX : gok g;
  sv_finvX : finvX g;
  sv_aliasX : forall v, In v ts -> has_edge g (NData v) (NStr (dalias v)) = true /\ has_node g (NData v) = true;
  sv_litsX : lits_in QCX g
}.

Definition qual_okX (q : string) (v : dataset) : Prop :=
  In v ts /\ dalias v = q /\ forall w, In w ts -> (dalias w = q \/ draw w = q \/ dstr w = q \/ L q w) -> w = v.

Lemma am_lookup_fX g q v :
  sinvX g -> qual_okX q v ->
  exists u, assoc_list q (get_alias_mapping g ts) = Some u /\ dataset_eqb u v = true /\ storedX g u.
Proof.
  intros Hs (Hv & Eq & Hu). subst q.
  pose proof (am_complete_fX g v (sv_finvX g Hs) Hv (proj1 (sv_aliasX g Hs v Hv)) (proj2 (sv_aliasX g Hs v Hv))) as Hsome.
  destruct (assoc_list (dalias v) (get_alias_mapping g ts)) as [u|] eqn:E; [|discriminate]. exists u. split; [reflexivity|].
  destruct (am_sound_fX g _ u (sv_finvX g Hs) E) as [[Hin Hor]|(w & Hw & Ew & Hor & Hst)].
  - rewrite (Hu u Hin) by tauto. split; [apply dataset_eqb_refl|left; exact Hv].
  - assert (w = v) by (apply Hu; [exact Hw|destruct Hor as [->|K]; [left; reflexivity|right; right; right; exact K]]). subst w. auto.
Qed.

Lemma am_covers_fX g w : sinvX g -> In w ts -> In w (map snd (get_alias_mapping g ts)).
Proof.
  intros Hs Hw.
  assert (Hsome : is_some (assoc_list (dstr w) (get_alias_mapping g ts)) = true).
  { rewrite get_alias_mapping_eq. cbv zeta. rewrite (filter_tables ts (go_tables _ _ Hgo)). apply fold_tables_complete. exact Hw. }
  destruct (assoc_list (dstr w) (get_alias_mapping g ts)) as [u|] eqn:E; [|discriminate].
  pose proof (assoc_list_In _ _ _ E) as Hin.
  destruct (am_sound_fX g _ u (sv_finvX g Hs) E) as [[Hu [K|K]]|(w' & Hw' & _ & [K|K] & _)].
  - exfalso. exact (proj2 (Hnd w u Hw Hu) K).
  - rewrite <- (proj2 Hinj u w Hu Hw K). exact Hin.
  - exfalso. exact (proj1 (Hnd w w' Hw Hw') (eq_sym K)).
  - exfalso. exact (HLdot _ _ w K Hw eq_refl).
Qed.

(** ** the source columns of a select item, up to Python equality *)
Definition xref_ok_fX (x : xcol) : Prop :=
  cparents (xc x) = [] /\
  exists c qq, xsrc x = [(c, qq)] /\ escape c = c /\
               match qq with
               | Some q => exists v, qual_okX q v
               | None => (exists d1, ts = [d1]) \/ (multi ts /\ c <> "*" /\ In c NM)
               end.

Definition srcpX (s : column) : Prop :=
  (exists u, cparents s = [u] /\ tab_ok u /\ exists w, In w ts /\ dataset_eqb u w = true) \/ UPX s.

Lemma multi_len2X : multi ts -> forall P, (forall w, In w ts -> exists p, In p P /\ tab_ok p /\ dataset_eqb p w = true) -> 2 <= List.length P.
Proof.
  intros (a & b & Ha & Hb & Hab) P HP. destruct (HP a Ha) as (pa & Hpa & Ta & Ea). destruct (HP b Hb) as (pb & Hpb & Tb & Eb).
  apply (two_members P pa pb Hpa Hpb). intros ->. apply Hab. apply (go_distinct _ _ Hgo a b Ha Hb).
  apply (dataset_eqb_trans a pb b); [apply dataset_eqb_true_sym; exact Ea|exact Eb].
Qed.

Lemma Ucol_multiX c : multi ts -> 2 <= List.length (cparents (Ucol ts c)).
Proof.
  intros Hm. destruct (Ucol_props ts c Hinj) as (_ & _ & U3). apply (multi_len2X Hm). intros w Hw. exists w.
  split; [apply U3; exact Hw|]. split; [apply ts_tab_okX; exact Hw|apply dataset_eqb_refl].
Qed.

Lemma HS_fX g x :
  sinvX g -> xref_ok_fX x ->
  exists s s0, to_source_columns e x (get_alias_mapping g ts) = Ok [s] /\ S_of ts x = [s0] /\ col_eqb s s0 = true /\ srcpX s.
Proof.
  intros Hs (_ & c & qq & Hx & Hc & Hq). unfold S_of. rewrite Hx. destruct qq as [q|].
  - destruct Hq as (v & Hqv). destruct (am_lookup_fX g q v Hs Hqv) as (u & Ea & Eu & Hst). destruct Hqv as (Hv & Eq & Huq).
    rewrite (find_dalias ts q v Hv Eq (fun w Hw E => Huq w Hw (or_introl E))).
    exists {| craw := c; cparents := [u] |}, {| craw := c; cparents := [v] |}.
    split; [apply (tsc_qualified e x _ c q u); assumption|]. split; [reflexivity|].
    pose proof (tab_ok_eqb v u (ts_tab_okX v Hv) (stored_okX g u (sv_gokX g Hs) Hst) (dataset_eqb_true_sym _ _ Eu)) as Tu.
    split.
    + unfold col_eqb, col_str, col_parent. cbn [cparents craw opt_dataset_eqb]. rewrite Eu, andb_true_r.
      rewrite (proj1 Tu), (go_tables _ _ Hgo v Hv), (tab_ok_eqb_dstr u v Tu (ts_tab_okX v Hv) Eu). apply String.eqb_refl.
    + left. exists u. split; [reflexivity|]. split; [exact Tu|]. exists v. auto.
  - destruct Hq as [(d1 & Ed)|(Hm & Hstar & Hnm)].
    + assert (Hd1 : In d1 ts) by (rewrite Ed; left; reflexivity).
      assert (Hall : forall y, In y (map snd (get_alias_mapping g ts)) -> dataset_eqb y d1 = true /\ storedX g y).
      { intros y Hy. destruct (am_values_fX g y Hy) as [K|[K (w & Hw & E)]].
        - rewrite Ed in K. destruct K as [<-|[]]. split; [apply dataset_eqb_refl|left; exact Hd1].
        - rewrite Ed in Hw. destruct Hw as [<-|[]]. auto. }
      destruct (dedup_all_eqb (map snd (get_alias_mapping g ts)) d1) as (u & Hu & Eu).
      { pose proof (am_covers_fX g d1 Hs Hd1) as K. intros E0. rewrite E0 in K. destruct K. }
      { intros y Hy. exact (proj1 (Hall y Hy)). }
      destruct (Hall u Hu) as [Eq Hst]. rewrite Ed.
      exists {| craw := c; cparents := [u] |}, {| craw := c; cparents := [d1] |}.
      split; [apply tsc_unq_single; [exact Hx|exact Hc|rewrite <- Ed; exact Eu]|]. split; [reflexivity|].
      pose proof (tab_ok_eqb d1 u (ts_tab_okX d1 Hd1) (stored_okX g u (sv_gokX g Hs) Hst) (dataset_eqb_true_sym _ _ Eq)) as Tu.
      split.
      * unfold col_eqb, col_str, col_parent. cbn [cparents craw opt_dataset_eqb]. rewrite Eq, andb_true_r.
        rewrite (proj1 Tu), (go_tables _ _ Hgo d1 Hd1), (tab_ok_eqb_dstr u d1 Tu (ts_tab_okX d1 Hd1) Eq). apply String.eqb_refl.
      * left. exists u. split; [reflexivity|]. split; [exact Tu|]. exists d1. auto.
    + rewrite (multi_not_single ts _ _ _ Hm).
      set (values := dedup_ds (map snd (get_alias_mapping g ts)) []).
      set (U := fold_left add_parent values {| craw := c; cparents := [] |}).
      assert (Hval : forall y, In y values -> tab_ok y /\ exists w, In w ts /\ dataset_eqb y w = true).
      { intros y Hy. apply In_dedup_ds in Hy. destruct (am_values_fX g y Hy) as [K|[K (w & Hw & E)]].
        - split; [apply ts_tab_okX; exact K|]. exists y. split; [exact K|apply dataset_eqb_refl].
        - split; [|exists w; auto]. apply (tab_ok_eqb w y (ts_tab_okX w Hw) (stored_okX g y (sv_gokX g Hs) K)). apply dataset_eqb_true_sym. exact E. }
      destruct (pfold_f values [] (fun y Hy => proj1 (Hval y Hy)) (fun y Hy => match Hy with end) (NoDup_nil _)) as (P1 & P2 & P3).
      assert (EU : U = {| craw := c; cparents := pfold values [] |}) by (unfold U; rewrite fold_add_parent_eq; reflexivity).
      assert (Hcov : forall w, In w ts -> exists p, In p (pfold values []) /\ tab_ok p /\ dataset_eqb p w = true).
      { intros w Hw. destruct (memd_dedup w _ [] (am_covers_fX g w Hs Hw)) as [K|K]; [|discriminate K].
        apply memd_In_eqb in K. destruct K as (y & Hy & Ey). fold values in Hy.
        pose proof (P3 y (or_intror Hy)) as K2. apply memd_In_eqb in K2. destruct K2 as (p & Hp & Ep).
        exists p. destruct (P2 p Hp) as [[]|Hpv]. split; [exact Hp|]. split; [exact (proj1 (Hval p Hpv))|].
        apply dataset_eqb_true_sym. apply (dataset_eqb_trans w y p Ey Ep). }
      assert (Hlen : 2 <= List.length (pfold values [])).
      { apply (multi_len2X Hm). exact Hcov. }
      exists U, (Ucol ts c). split; [|split; [reflexivity|split]].
      * unfold to_source_columns. rewrite Hx. cbn [map concat_res]. rewrite Hc. apply String.eqb_neq in Hstar. rewrite Hstar. reflexivity.
      * unfold col_eqb, col_str. rewrite (col_parent_none U) by (rewrite EU; exact Hlen).
        rewrite (col_parent_none _ (Ucol_multiX c Hm)). rewrite EU, (proj1 (Ucol_props ts c Hinj)). cbn [craw opt_dataset_eqb].
        rewrite String.eqb_refl. reflexivity.
      * right. rewrite EU. unfold UPX. cbn [craw cparents]. split; [exact Hlen|]. split; [split; [exact Hnm|exact Hc]|]. split; [|split; [|exact P1]].
        -- intros p Hp0. destruct (P2 p Hp0) as [[]|Hpv]. exact (Hval p Hpv).
        -- intros w Hw. destruct (Hcov w Hw) as (p & Hp0 & _ & Ep). exists p. auto.
Qed.

(** ** edge lists up to Python equality *)
Definition eqblX (EL EL' : list (Graph.node * Graph.node)) : Prop :=
  Forall2 (fun p p' => node_eqb (fst p) (fst p') = true /\ node_eqb (snd p) (snd p') = true) EL EL'.

Lemma ematch_eqblX x y EL EL' : eqblX EL EL' -> ematch x y EL = ematch x y EL'.
Proof.
  induction 1 as [|p p' l l' [E1 E2] _ IH]; [reflexivity|]. rewrite !ematch_cons, IH.
  rewrite (node_eqb_cong_r _ _ x E1), (node_eqb_cong_r _ _ y E2). reflexivity.
Qed.

Lemma eqbl_InX EL EL' p' :
  eqblX EL EL' -> In p' EL' -> exists p, In p EL /\ node_eqb (fst p) (fst p') = true /\ node_eqb (snd p) (snd p') = true.
Proof.
  induction 1 as [|p q l l' [E1 E2] _ IH]; intros Hin; [destruct Hin|]. destruct Hin as [<-|Hin]; [exists p; split; [left; reflexivity|auto]|].
  destruct (IH Hin) as (p0 & H0 & H1). exists p0. split; [right; exact H0|exact H1].
Qed.

Lemma ext_eqbX g g' EL EL' : ext g g' EL -> eqblX EL EL' -> ext g g' EL'.
Proof.
  intros [A B C] H. constructor; [intros x y; rewrite A; f_equal; apply ematch_eqblX; exact H|exact B|].
  intros p' Hp'. destruct (eqbl_InX EL EL' p' H Hp') as (p & Hp0 & E1 & E2). destruct (C p Hp0) as [N1 N2]. unfold has_node in *.
  rewrite <- (has_node_l_cong _ _ _ E1), <- (has_node_l_cong _ _ _ E2). auto.
Qed.

Lemma acl_edges_eqbX s s0 tgt : col_eqb s s0 = true -> eqblX (acl_edges s tgt d) (acl_edges s0 tgt d).
Proof.
  intros E. unfold acl_edges. pose proof E as E'. unfold col_eqb in E'. apply andb_true_iff in E'. destruct E' as [_ E'].
  assert (R : forall n, node_eqb n n = true) by apply node_eqb_refl.
  constructor; [cbn [fst snd node_eqb]; rewrite E, col_eqb_refl; auto|]. constructor; [cbn [fst snd]; rewrite !R; auto|].
  destruct (col_parent s) as [u|], (col_parent s0) as [v|]; cbn [opt_dataset_eqb] in E'; try discriminate; [|constructor].
  constructor; [|constructor]. cbn [fst snd node_eqb]. auto.
Qed.

(** ** one source column feeding one target column *)
Lemma srcp_nokX s : srcpX s -> nok (NCol s).
Proof.
  intros [(u & Eu & Tu & _)|(_ & _ & HP & _ & _)]; cbn [nok].
  - rewrite Eu. constructor; [exact (proj2 Tu)|constructor].
  - apply Forall_forall. intros p0 Hp0. exact (proj2 (proj1 (HP p0 Hp0))).
Qed.

Lemma srcp_singleX s c p : srcpX s -> NCol s = NCol c -> cparents c = [p] -> dk p = KTable.
Proof.
  intros Hs E Hc. inversion E. subst c. destruct Hs as [(u & Eu & Tu & _)|(Hl & _)].
  - rewrite Eu in Hc. inversion Hc. subst. exact (proj1 Tu).
  - rewrite Hc in Hl. cbn in Hl. lia.
Qed.

Lemma srcp_parent_not_targetX s sp : srcpX s -> col_parent s = Some sp -> node_eqb (NData d) (NData sp) = false.
Proof.
  intros Hs Ep. apply col_parent_some in Ep. destruct Hs as [(u & Eu & _ & w & Hw & Ew)|(Hl & _)]; [|rewrite Ep in Hl; cbn in Hl; lia].
  rewrite Eu in Ep. inversion Ep. subst u. cbn [node_eqb]. destruct (dataset_eqb d sp) eqn:E; [|reflexivity].
  rewrite <- (go_target _ _ Hgo w Hw). symmetry. apply (dataset_eqb_trans w sp d); [apply dataset_eqb_true_sym; exact Ew|apply dataset_eqb_true_sym; exact E].
Qed.

Lemma QC_srcpX s : srcpX s -> QCX (NCol s).
Proof. intros [(u & Eu & _)|H]; [left; rewrite Eu; reflexivity|right; left; exact H]. Qed.

Lemma sinv_extX g g' el : sinvX g -> ext g g' el -> gok g' -> finvX g' -> lits_in QCX g' -> sinvX g'.
Proof.
  intros [A1 A2 A3 A4] X G F Lq. constructor; [exact G|exact F| |exact Lq]. intros v Hv. destruct (A3 v Hv) as [B1 B2]. split.
  - rewrite (ext_edges _ _ _ X), B1. reflexivity.
  - apply (ext_mono _ _ _ X). exact B2.
Qed.

Lemma acl_ok_fX g src tgt :
  sinvX g -> cparents tgt = [d] -> srcpX src ->
  exists g', add_column_lineage g src tgt = Ok g' /\ ext g g' (acl_edges src tgt d) /\ sinvX g' /\
             (forall k, holder_nodes g' k = holder_nodes g k) /\
             List.length (out_edges g' (NData d)) <= S (List.length (out_edges g (NData d))).
Proof.
  intros Hs Ht Hsrc.
  assert (Hpt : col_parent tgt = Some d) by (unfold col_parent; rewrite Ht; reflexivity).
  assert (Hc1 : col1 tgt).
  { split; [cbn [nok]; rewrite Ht; constructor; [exact Hd_ok|constructor]|exists d; exact Ht]. }
  destruct (add_column_lineage_ok g src tgt (sv_gokX g Hs) (srcp_nokX src Hsrc) Hc1) as (g' & E' & Hgok' & Htags).
  exists g'. split; [exact E'|]. unfold add_column_lineage in E'. rewrite Hpt in E'.
  set (g1 := add_edge g (NCol src) (NCol tgt) lineage_edge) in *.
  set (g2 := add_edge g1 (NData d) (NCol tgt) (e_has_column None)) in *.
  assert (Qt : QCX (NCol tgt)) by (left; rewrite Ht; reflexivity).
  assert (L1 : lits_in QCX g1) by (apply lits_add_edge; [exact (sv_litsX g Hs)|apply QC_srcpX; exact Hsrc|exact Qt]).
  assert (L2 : lits_in QCX g2) by (apply lits_add_edge; [exact L1|exact I|exact Qt]).
  assert (F1 : finvX g1).
  { apply finv_add_edge_colX; [exact (sv_finvX g Hs)|discriminate|left; reflexivity|]. intros c p0 E Hc. exact (srcp_singleX src c p0 Hsrc E Hc). }
  assert (F2 : finvX g2) by (apply finv_add_edge_colX; [exact F1|discriminate|right; reflexivity|discriminate]).
  assert (X2 : ext g g2 ([(NCol src, NCol tgt)] ++ [(NData d, NCol tgt)])) by (apply (ext_trans g g1 g2); apply ext_add_edge).
  assert (O1 : out_edges g1 (NData d) = out_edges g (NData d)) by (apply out_edges_add_edge_other; reflexivity).
  assert (O2 : List.length (out_edges g2 (NData d)) <= S (List.length (out_edges g (NData d)))) by (rewrite <- O1; apply out_edges_add_edge_len).
  unfold acl_edges. destruct (col_parent src) as [sp|] eqn:Es.
  - inversion E'. subst g'. clear E'.
    assert (X3 : ext g (add_edge g2 (NData sp) (NCol src) (e_has_column None)) ([(NCol src, NCol tgt); (NData d, NCol tgt)] ++ [(NData sp, NCol src)])).
    { change ([(NCol src, NCol tgt); (NData d, NCol tgt)] ++ [(NData sp, NCol src)])
        with (([(NCol src, NCol tgt)] ++ [(NData d, NCol tgt)]) ++ [(NData sp, NCol src)]).
      apply (ext_trans g g2 _ _ _ X2). apply ext_add_edge. }
    split; [exact X3|]. split; [|split; [exact Htags|]].
    + apply (sinv_extX g _ _ Hs X3 Hgok').
      * apply finv_add_edge_colX; [exact F2|discriminate|right; reflexivity|discriminate].
      * apply lits_add_edge; [exact L2|exact I|apply QC_srcpX; exact Hsrc].
    + rewrite out_edges_add_edge_other; [exact O2|]. exact (srcp_parent_not_targetX src sp Hsrc Es).
  - inversion E'. subst g'. clear E'. rewrite app_nil_r. split; [exact X2|]. split; [|split; [exact Htags|exact O2]].
    apply (sinv_extX g _ _ Hs X2 Hgok' F2 L2).
Qed.

(** ** [end_of_query_cleanup] for the table group of this scope *)
Lemma eoq_step_fX g2 idx ncols x :
  sinvX g2 -> sq_write g2 = [d] -> xref_ok_fX x -> List.length (out_edges g2 (NData d)) <= idx -> idx < ncols ->
  exists g3, eoq_step e ts ncols d g2 idx x = Ok g3 /\
             ext g2 g3 (flat_map (fun s => acl_edges s (own_col d x) d) (S_of ts x)) /\ sinvX g3 /\
             (forall k, holder_nodes g3 k = holder_nodes g2 k) /\ List.length (out_edges g3 (NData d)) <= S idx.
Proof.
  intros Hs Hw Hx Ho Hn. destruct (HS_fX g2 x Hs Hx) as (s & s0 & Et & ES & Ecol & Hsrc). destruct Hx as [Hx0 _].
  unfold eoq_step. rewrite Et. cbv zeta.
  assert (Etgt : (if Nat.eqb (List.length (write_columns g2)) ncols
                  then match nth_error (write_columns g2) idx with Some c => c | None => add_parent (xc x) d end
                  else add_parent (xc x) d) = own_col d x).
  { pose proof (write_columns_len g2 d Hw) as Hwl.
    replace (Nat.eqb (List.length (write_columns g2)) ncols) with false; [reflexivity|]. symmetry. apply Nat.eqb_neq. lia. }
  rewrite Etgt. cbn [fold_left].
  assert (Hown : cparents (own_col d x) = [d]) by (rewrite (own_col_eq d x Hx0); reflexivity).
  destruct (acl_ok_fX g2 s (own_col d x) Hs Hown Hsrc) as (g3 & E3 & X3 & S3 & T3 & O3). rewrite E3.
  exists g3. split; [reflexivity|]. split; [|split; [exact S3|split; [exact T3|lia]]].
  rewrite ES. cbn [flat_map]. rewrite app_nil_r. apply (ext_eqbX _ _ _ _ X3). apply acl_edges_eqbX. exact Ecol.
Qed.

Lemma eoq_fold_fX cols :
  (forall x, In x cols -> xref_ok_fX x) ->
  forall l g2 idx,
    (forall x, In x l -> In x cols) -> sinvX g2 -> sq_write g2 = [d] ->
    List.length (out_edges g2 (NData d)) <= idx -> idx + List.length l = List.length cols ->
    exists g', fst (fold_left (fun acc2 x => let '(rg, idx) := acc2 in
                                  (do g2 <- rg; eoq_step e ts (List.length cols) d g2 idx x, Datatypes.S idx)) l (Ok g2, idx)) = Ok g' /\
               ext g2 g' (sel_edges d (S_of ts) (own_pairs d l)) /\ sinvX g' /\ (forall k, holder_nodes g' k = holder_nodes g2 k).
Proof.
  intros HX. induction l as [|x r IH]; intros g2 idx Hl Hs Hw Ho Hn; cbn [fold_left].
  - exists g2. split; [reflexivity|]. split; [apply ext_refl|]. split; [exact Hs|reflexivity].
  - cbn [List.length] in Hn.
    destruct (eoq_step_fX g2 idx (List.length cols) x Hs Hw (HX x (Hl x (or_introl eq_refl))) Ho ltac:(lia)) as (g3 & E3 & X3 & S3 & T3 & O3).
    rewrite E3. assert (Hw3 : sq_write g3 = [d]) by (unfold sq_write; rewrite T3; exact Hw).
    destruct (IH g3 (Datatypes.S idx) (fun y Hy => Hl y (or_intror Hy)) S3 Hw3 O3 ltac:(lia)) as (g' & E' & X' & S' & T').
    exists g'. split; [exact E'|]. split.
    + unfold sel_edges, own_pairs. cbn [map flat_map fst snd]. apply (ext_trans g2 g3 g'); assumption.
    + split; [exact S'|]. intros k. rewrite T', T3. reflexivity.
Qed.

Lemma expand_wildcard_id_fX g : finvX g -> expand_wildcard e g = Ok g.
Proof.
  intros Hf. unfold expand_wildcard. destruct (get_target_table g) as [tgt|]; [|reflexivity].
  apply fold_res_id. intros c _. destruct (String.eqb (craw c) "*"); [|reflexivity].
  apply fold_res_id. intros sw Hsw. destruct (col_parent sw) as [st|] eqn:Est; [|reflexivity].
  assert (Hk : dk st = KTable).
  { unfold get_source_columns in Hsw. apply in_flat_map in Hsw. destruct Hsw as (e0 & He0 & Hsw).
    unfold in_edges in He0. apply filter_In in He0. destruct He0 as [He0 _].
    destruct (String.eqb (etype (snd e0)) "lineage"); [|destruct Hsw].
    destruct (fst (fst e0)) as [d0|c0|s0] eqn:Ef; [destruct Hsw| |destruct Hsw]. destruct Hsw as [->|[]].
    exact (fi_srcqX g Hf e0 sw st He0 Ef (col_parent_some _ _ Est)). }
  rewrite Hk, Hprov. reflexivity.
Qed.

(** ** reading the tables of the FROM clause *)
Lemma add_reads_fX : forall l g,
  (forall v, In v l -> In v ts) -> finvX g -> lits_in QCX g ->
  finvX (fold_left add_read l g) /\ lits_in QCX (fold_left add_read l g) /\
  ext g (fold_left add_read l g) (map (fun v => (NData v, NStr (dalias v))) l) /\
  out_edges (fold_left add_read l g) (NData d) = out_edges g (NData d).
Proof.
  induction l as [|v r IH]; intros g Hl Hf Hq; cbn [fold_left map].
  - split; [exact Hf|]. split; [exact Hq|]. split; [apply ext_refl|reflexivity].
  - assert (Hv : In v ts) by (apply Hl; left; reflexivity). pose proof (go_tables _ _ Hgo v Hv) as Hk.
    assert (F1 : finvX (add_read g v)).
    { rewrite (add_read_table g v Hk). apply finv_add_edge_aliasX; [|exact Hv]. apply finv_add_nodeX; [exact Hf|].
      intros [K|[]]. discriminate K. }
    assert (L1 : lits_in QCX (add_read g v)).
    { rewrite (add_read_table g v Hk). apply lits_add_edge; [apply lits_add_node; [exact Hq|exact I]|exact I|exact I]. }
    assert (X1 : ext g (add_read g v) [(NData v, NStr (dalias v))]).
    { rewrite (add_read_table g v Hk).
      apply (ext_trans g (add_node g (NData v) [("read", true)]) _ [] _ (ext_add_node g _ _) (ext_add_edge _ _ _ _)). }
    assert (O1 : out_edges (add_read g v) (NData d) = out_edges g (NData d)).
    { rewrite (add_read_table g v Hk). rewrite out_edges_add_edge_other; [reflexivity|].
      cbn [node_eqb]. rewrite dataset_eqb_sym. apply (go_target _ _ Hgo v Hv). }
    destruct (IH (add_read g v) (fun w Hw => Hl w (or_intror Hw)) F1 L1) as (A1 & A2 & A3 & A4).
    split; [exact A1|]. split; [exact A2|]. split; [|rewrite A4; exact O1].
    apply (ext_trans g (add_read g v) _ [(NData v, NStr (dalias v))] _ X1 A3).
Qed.

(** ** the SELECT, on a holder [g1] that contains foreign material *)
Lemma select_core_fX g1 cols :
  gok g1 -> finvX g1 -> lits_in QCX g1 -> sq_write g1 = [d] -> (forall y, has_edge g1 (NData d) y = false) ->
  (forall x, In x cols -> xref_ok_fX x) ->
  exists sub, (do g2 <- end_of_query_cleanup e g1 ts cols []; expand_wildcard e g2) = Ok sub /\
              ext g1 sub (map (fun v => (NData v, NStr (dalias v))) ts ++ sel_edges d (S_of ts) (own_pairs d cols)) /\
              sinvX sub /\ (forall k, k <> "read" -> holder_nodes sub k = holder_nodes g1 k).
Proof.
  intros Hg Hf Hq Hw Hno HX.
  destruct (add_reads_fX ts g1 (fun v Hv => Hv) Hf Hq) as (A1 & A2 & A3 & A4).
  destruct (fold_add_read ts g1 Hg Hdo) as (G1 & G2 & _).
  rewrite eoq_single. cbv zeta. set (g0 := fold_left add_read ts g1) in *.
  assert (Hw0 : sq_write g0 = [d]) by (unfold sq_write; rewrite G2 by discriminate; exact Hw).
  rewrite Hw0.
  assert (Hs0 : sinvX g0).
  { constructor; [exact G1|exact A1| |exact A2]. intros v Hv.
    assert (Hin : In (NData v, NStr (dalias v)) (map (fun v => (NData v, NStr (dalias v))) ts)) by (apply in_map_iff; exists v; auto).
    split.
    - rewrite (ext_edges _ _ _ A3). apply orb_true_iff. right. unfold ematch. apply existsb_exists. eexists. split; [exact Hin|].
      cbn [fst snd]. rewrite !node_eqb_refl. reflexivity.
    - exact (proj1 (ext_new _ _ _ A3 _ Hin)). }
  destruct (eoq_fold_fX cols HX cols g0 0 (fun x Hx => Hx) Hs0 Hw0) as (g' & E' & X' & S' & T').
  - rewrite A4, (no_succ_out_edges g1 (NData d) Hno). cbn. lia.
  - reflexivity.
  - rewrite E'. rewrite (expand_wildcard_id_fX g' (sv_finvX g' S')).
    exists g'. split; [reflexivity|]. split; [apply (ext_trans g1 g0 g'); assumption|]. split; [exact S'|].
    intros k Hk. rewrite T'. apply G2. exact Hk.
Qed.
End CoreX.

(* ================================================================== *)
(** * Part 2: the statement holder, when the frame also stores unresolved columns of the sub-query ([QX]) *)
Lemma xref_ok_f_oldX ts L NM x : xref_ok_fX ts L NM x -> xref_ok ts x.
Proof.
  intros (H0 & c & qq & Hx & Hc & Hq). split; [exact H0|]. exists c, qq. split; [exact Hx|]. split; [exact Hc|].
  destruct qq as [q|].
  - destruct Hq as (v & Hv & Eq & Hu). exists v. split; [exact Hv|]. split; [exact Eq|]. intros w Hw Hor. apply Hu; [exact Hw|tauto].
  - destruct Hq as [H|(Hm & Hs & _)]; [left; exact H|right; auto].
Qed.

Theorem holder_realises_gX d ts L (QX : column -> Prop) xs gb pairs g1 sub :
  let NM := unres_names ts xs in
  let FL := flows_of (S_of ts) pairs in
  group_ok d ts -> ts_inj ts -> Forall data_ok ts -> NoDup (map dstr ts) -> dk d = KTable ->
  (forall x, In x xs -> xref_ok_fX ts L NM x) ->
  (forall nm, In nm NM -> exists x, In x xs /\ In (Ucol ts nm) (S_of ts x)) ->
  (forall x' s' nm v, In nm NM -> In x' xs -> In s' (S_of ts x') -> cparents s' = [v] -> craw s' <> nm) ->
  (forall p, In p pairs -> In (fst p) xs /\ snd p = {| craw := craw (snd p); cparents := [d] |}) ->
  (forall x, In x xs -> exists w, In (x, w) pairs) ->
  lits_in (QCX ts NM QX) gb -> drop_free gb -> (forall e0, In e0 (gedges gb) -> String.eqb (etype (snd e0)) "rename" = false) ->
  (forall x y, has_edge gb x y = true -> has_edge g1 x y = true) ->
  ext g1 sub (map (fun v => (NData v, NStr (dalias v))) ts ++ sel_edges d (S_of ts) pairs) ->
  sinvX ts L NM QX sub ->
  (forall c, QX c -> 2 <= List.length (cparents c) /\ (forall nm, In nm NM -> craw c <> nm) /\ (exists y, has_edge g1 (NCol c) y = true) /\
     forall p, In p (cparents c) -> tab_ok p /\ dataset_eqb p d = false /\ has_edge g1 (NData p) (NCol (mk_col (craw c) p)) = false /\
       forall v x' s', In v ts -> dataset_eqb p v = true -> In x' xs -> In s' (S_of ts x') -> cparents s' = [v] -> craw s' <> escape (craw c)) ->
  (forall x y, is_column x = true -> has_edge g1 x y = true -> parent_is KSubq y = true) ->
  (forall x y, parent_is KSubq x = true -> has_edge g1 x y = false) ->
  (forall nm y, has_edge g1 (NCol {| craw := nm; cparents := [d] |}) y = false) ->
  (forall nm p w, In nm NM -> tab_ok p -> In w ts -> dataset_eqb p w = true -> has_edge g1 (NData p) (NCol (mk_col nm p)) = false) ->
  let G := compose gb sub in
  clean_holder G /\ lits_in (unres_ok G) G /\ realises_in G FL /\ flows_ok_in FL.
Proof.
  intros NM FL Hgo Hinj Hdo Hnds Hd HX HNM HNQ Hpairs Hcover Lgb Dgb Egb Hsubg X Hs HQ FR3 FR4 FR5 FR6 G.
  assert (Tok : forall w, In w ts -> tab_ok w) by (intros w Hw; apply (ts_tab_okX d ts Hgo Hdo w Hw)).
  assert (HE : forall x y, has_edge G x y = has_edge g1 x y || (ematch x y (map (fun v => (NData v, NStr (dalias v))) ts) || ematch x y (sel_edges d (S_of ts) pairs))).
  { intros x y. unfold G. rewrite has_edge_compose, (ext_edges _ _ _ X), ematch_app. destruct (has_edge gb x y) eqn:Eg; [rewrite (Hsubg x y Eg); reflexivity|reflexivity]. }
  assert (HF : forall f, In f FL ->
               exists x s, In x pairs /\ In s (S_of ts (fst x)) /\ f = (s, snd x) /\
                           ((exists v, In v ts /\ cparents s = [v]) \/
                            (exists nm, In nm NM /\ s = Ucol ts nm /\ escape nm = nm /\ 2 <= List.length (cparents s))) /\
                           snd x = {| craw := craw (snd x); cparents := [d] |}).
  { intros f Hf. unfold FL, flows_of in Hf. apply in_flat_map in Hf. destruct Hf as (p0 & Hp0 & Hf). apply in_map_iff in Hf.
    destruct Hf as (s & <- & Hs0). destruct (Hpairs p0 Hp0) as [Hx Eo].
    destruct (S_of_props d ts xs (fst p0) Hgo Hinj Hd Hx (xref_ok_f_oldX ts L NM _ (HX _ Hx))) as (A1 & _ & _ & _ & A5).
    exists p0, s. split; [exact Hp0|]. split; [exact Hs0|]. split; [reflexivity|]. split; [exact (A5 s Hs0)|exact Eo]. }
  assert (HEc : forall x y, is_column x = true ->
                has_edge G x y = has_edge g1 x y || ematch x y (map (fun f : flow => (NCol (fst f), NCol (snd f))) FL)).
  { intros x y Hx. rewrite HE, (ematch_alias_col x y ts Hx), (ematch_sel_col d (S_of ts) pairs x y Hx). reflexivity. }
  assert (Rc : forall f, In f FL -> has_edge G (NCol (fst f)) (NCol (snd f)) = true).
  { intros f Hf. rewrite HEc by reflexivity. apply orb_true_iff. right. unfold ematch. apply existsb_exists. exists (NCol (fst f), NCol (snd f)).
    split; [apply in_map_iff; exists f; auto|]. cbn [fst snd]. rewrite !node_eqb_refl. reflexivity. }
  assert (F3 : forall f, In f FL -> parent_is KSubq (NCol (fst f)) = false).
  { intros f Hf. destruct (HF f Hf) as (x & s & _ & _ & -> & [(v & Hv & Ev)|(nm & _ & -> & _ & Hl)] & _); cbn [fst parent_is].
    - unfold col_parent. rewrite Ev, (go_tables _ _ Hgo v Hv). reflexivity.
    - rewrite (col_parent_none _ Hl). reflexivity. }
  assert (LG : lits_in (QCX ts NM QX) G).
  { apply lits_compose; [exact Lgb|exact (sv_litsX _ _ _ _ _ Hs)]. }
  assert (Ueq : forall c, UPX ts NM c -> col_eqb c (Ucol ts (craw c)) = true /\
                          sort_strings (map dstr (cparents c)) = sort_strings (map dstr (cparents (Ucol ts (craw c))))).
  { intros c (Hl & Hnm & HP & Hcov & Hnd'). destruct (Ucol_props ts (craw c) Hinj) as (U1 & _ & U3).
    assert (Hl' : 2 <= List.length (cparents (Ucol ts (craw c)))).
    { destruct (cparents c) as [|p1 [|p2 r]] eqn:Ec; cbn [List.length] in Hl; try lia.
      destruct (HP p1 (or_introl eq_refl)) as [T1 (w1 & Hw1 & E1)]. destruct (HP p2 (or_intror (or_introl eq_refl))) as [T2 (w2 & Hw2 & E2)].
      apply (two_members _ w1 w2); [apply U3; exact Hw1|apply U3; exact Hw2|]. intros ->.
      cbn [map] in Hnd'. inversion Hnd'. apply H1. left.
      rewrite (tab_ok_eqb_dstr p2 w2 T2 (Tok w2 Hw2) E2), (tab_ok_eqb_dstr p1 w2 T1 (Tok w2 Hw2) E1). reflexivity. }
    split.
    - unfold col_eqb, col_str. rewrite (col_parent_none c Hl), (col_parent_none _ Hl'), U1. cbn [opt_dataset_eqb]. rewrite String.eqb_refl. reflexivity.
    - rewrite (unres_strs ts (craw c) Hinj Hnds). apply sort_strings_set_eq; [exact Hnd'|exact Hnds|].
      intros sx. rewrite !in_map_iff. split.
      + intros (p0 & <- & Hp0). destruct (HP p0 Hp0) as [T0 (w & Hw & E0)]. exists w. split; [symmetry; exact (tab_ok_eqb_dstr p0 w T0 (Tok w Hw) E0)|exact Hw].
      + intros (w & <- & Hw). destruct (Hcov w Hw) as (p0 & Hp0 & E0). exists p0. split; [exact (tab_ok_eqb_dstr p0 w (proj1 (HP p0 Hp0)) (Tok w Hw) E0)|exact Hp0]. }
  split; [|split; [|split]].
  - (* clean_holder *)
    split.
    + intros n a Hin. destruct (attr_true "drop" a) eqn:E; [|reflexivity]. exfalso. apply attr_true_In in E.
      exact (drop_free_compose gb sub Dgb (fi_dropX _ _ _ (sv_finvX _ _ _ _ _ Hs)) n a Hin E).
    + apply (etype_compose (fun s => String.eqb s "rename" = false)); [exact Egb|].
      intros e0 He0. destruct (fi_typesX _ _ _ (sv_finvX _ _ _ _ _ Hs) e0 He0) as [-> |[-> | ->]]; reflexivity.
  - (* unresolved columns *)
    apply (lits_weaken (QCX ts NM QX)); [|exact LG]. intros n Hn u Hu. destruct n as [|c|]; cbn [unresolved] in Hu; try discriminate.
    cbn [QCX] in Hn. destruct Hn as [Hn|[Hn|Hq]]; [rewrite Hn in Hu; cbn in Hu; discriminate| |].
    2:{ destruct (Nat.ltb 1 (List.length (cparents c))); [|discriminate]. inversion Hu. subst u. clear Hu.
        destruct (HQ c Hq) as (_ & _ & (y0 & Hy0) & HPq). split.
        - unfold candidates_in_graph. apply flat_map_none. intros p Hp.
          destruct (has_edge G (NData p) (NCol (mk_col (craw c) p))) eqn:Ehe; [|reflexivity]. exfalso.
          destruct (HPq p Hp) as (Tp & Epd & Eg1 & Hout).
          rewrite HE, Eg1, ematch_alias_ycol in Ehe. cbn [orb] in Ehe.
          apply ematch_sel_data in Ehe. destruct Ehe as (p' & s' & Hp' & Hs' & [[K _]|(sp & Esp & K1 & K2)]); [congruence|].
          destruct (Hpairs p' Hp') as [Hx' _]. set (x' := fst p') in *.
          destruct (S_of_props d ts xs x' Hgo Hinj Hd Hx' (xref_ok_f_oldX ts L NM x' (HX x' Hx'))) as (_ & _ & _ & _ & A5).
          destruct (A5 s' Hs') as [(v & Hv & Ev)|(nm' & _ & -> & _ & Hl')]; [|rewrite (col_parent_none _ Hl') in Esp; discriminate].
          unfold col_parent in Esp. rewrite Ev in Esp. inversion Esp. subst sp.
          cbn [node_eqb] in K2. unfold col_eqb in K2. apply andb_true_iff in K2. destruct K2 as [K2 _]. apply String.eqb_eq in K2.
          unfold col_str, col_parent, mk_col in K2. cbn [cparents craw] in K2. rewrite Ev, (proj1 Tp), (go_tables _ _ Hgo v Hv) in K2.
          rewrite (tab_ok_eqb_dstr p v Tp (Tok v Hv) K1) in K2. apply append_cancel in K2. apply append_cancel in K2.
          exact (Hout v x' s' Hv K1 Hx' Hs' Ev (eq_sym K2)).
        - exists y0. rewrite HE, Hy0. reflexivity. }
    destruct (Nat.ltb 1 (List.length (cparents c))); [|discriminate]. inversion Hu. subst u. clear Hu.
    pose proof Hn as (Hl & [Hnm Eesc] & HP & Hcov & Hnd'). split.
    + unfold candidates_in_graph. apply flat_map_none. intros p Hp.
      destruct (has_edge G (NData p) (NCol (mk_col (craw c) p))) eqn:Ehe; [|reflexivity]. exfalso.
      destruct (HP p Hp) as [Tp (w & Hw & Ew)].
      rewrite HE, (FR6 (craw c) p w Hnm Tp Hw Ew), ematch_alias_ycol in Ehe. cbn [orb] in Ehe.
      apply ematch_sel_data in Ehe. destruct Ehe as (p' & s' & Hp' & Hs' & [[K _]|(sp & Esp & K1 & K2)]).
      * assert (Kw : dataset_eqb w d = true) by (apply (dataset_eqb_trans w p d); [apply dataset_eqb_true_sym; exact Ew|exact K]).
        rewrite (go_target _ _ Hgo w Hw) in Kw. discriminate.
      * destruct (Hpairs p' Hp') as [Hx' _]. set (x' := fst p') in *.
        destruct (S_of_props d ts xs x' Hgo Hinj Hd Hx' (xref_ok_f_oldX ts L NM x' (HX x' Hx'))) as (_ & _ & _ & _ & A5).
        destruct (A5 s' Hs') as [(v & Hv & Ev)|(nm' & _ & -> & _ & Hl')]; [|rewrite (col_parent_none _ Hl') in Esp; discriminate].
        unfold col_parent in Esp. rewrite Ev in Esp. inversion Esp. subst sp.
        cbn [node_eqb] in K2. unfold col_eqb in K2. apply andb_true_iff in K2. destruct K2 as [K2 _]. apply String.eqb_eq in K2.
        unfold col_str, col_parent, mk_col in K2. cbn [cparents craw] in K2. rewrite Ev, (proj1 Tp), (go_tables _ _ Hgo v Hv) in K2.
        rewrite (tab_ok_eqb_dstr p v Tp (Tok v Hv) K1) in K2. apply append_cancel in K2. apply append_cancel in K2.
        rewrite Eesc in K2. apply (HNQ x' s' (craw c) v Hnm Hx' Hs' Ev). symmetry. exact K2.
    + destruct (HNM (craw c) Hnm) as (x & Hx & Hsx). destruct (Hcover x Hx) as (w0 & Hw0). exists (NCol w0).
      rewrite (has_edge_cong_l G (NCol c) (NCol (Ucol ts (craw c)))) by (cbn [node_eqb]; exact (proj1 (Ueq c Hn))).
      apply (Rc (Ucol ts (craw c), w0)). unfold FL, flows_of. apply in_flat_map. exists (x, w0).
      split; [exact Hw0|]. apply in_map_iff. exists (Ucol ts (craw c)). auto.
  - (* realises_in *)
    constructor.
    + intros x y Hx Hxy. rewrite (HEc x y Hx) in Hxy. apply orb_true_iff in Hxy. destruct Hxy as [Hxy|Hxy].
      * right. split; [exact (FR3 x y Hx Hxy)|]. intros f Hf. destruct (HF f Hf) as (x0 & s & _ & _ & -> & _ & Eo). cbn [snd]. rewrite Eo.
        destruct (node_eqb x _) eqn:E; [|reflexivity]. rewrite (has_edge_cong_l g1 _ _ y E), FR5 in Hxy. discriminate.
      * left. unfold ematch in Hxy. apply existsb_exists in Hxy.
        destruct Hxy as (p & Hp & E). apply in_map_iff in Hp. destruct Hp as (f & <- & Hf). cbn [fst snd] in E.
        apply andb_true_iff in E. exists f. tauto.
    + intros x y Hx. assert (Hxc : is_column x = true) by (destruct x; cbn in Hx; try discriminate; reflexivity).
      rewrite (HEc x y Hxc), (FR4 x y Hx). cbn [orb]. destruct (ematch x y _) eqn:E; [|reflexivity]. exfalso.
      unfold ematch in E. apply existsb_exists in E. destruct E as (p & Hp0 & E). apply in_map_iff in Hp0. destruct Hp0 as (f & <- & Hf).
      cbn [fst snd] in E. apply andb_true_iff in E. destruct E as [E _]. rewrite (parent_is_eqb KSubq _ _ E), (F3 f Hf) in Hx. discriminate.
    + exact Rc.
    + intros f Hf. destruct (HF f Hf) as (x & s & Hx & Hs0 & -> & _).
      assert (Hin : In (NCol s, NCol (snd x)) (map (fun v => (NData v, NStr (dalias v))) ts ++ sel_edges d (S_of ts) pairs)).
      { apply in_app_iff. right. unfold sel_edges. apply in_flat_map. exists x. split; [exact Hx|].
        apply in_flat_map. exists s. split; [exact Hs0|]. left. reflexivity. }
      destruct (ext_new _ _ _ X _ Hin) as [N1 N2]. cbn [fst snd] in *. unfold G. rewrite !has_node_compose, N1, N2, !orb_true_r. auto.
    + apply (lits_weaken (QCX ts NM QX)); [|exact LG]. intros n Hn f Hf E.
      destruct (HF f Hf) as (x & s & _ & _ & -> & [(v & _ & Ev)|(nm & Hnm' & -> & _ & Hl)] & _); cbn [fst] in *.
      * apply (src_str_eqb_single n s v); [unfold col_parent; rewrite Ev; reflexivity|exact E].
      * destruct n as [|c|]; cbn [node_eqb] in E; try discriminate. cbn [QCX] in Hn.
        unfold col_eqb in E. apply andb_true_iff in E. destruct E as [E1 E2]. rewrite (col_parent_none _ Hl) in E2.
        destruct Hn as [Hn|[Hn|Hq]].
        -- unfold col_parent in E2. destruct (cparents c) as [|p1 [|p2 r]]; cbn [List.length] in Hn; discriminate.
        -- destruct (Ueq c Hn) as [_ Estr]. pose proof Hn as (Hlc & _).
           apply String.eqb_eq in E1. unfold col_str in E1. rewrite (col_parent_none _ Hl), (col_parent_none _ Hlc) in E1.
           rewrite (proj1 (Ucol_props ts nm Hinj)) in E1. cbn [src_str]. rewrite (col_parent_none _ Hlc), (col_parent_none _ Hl), Estr, E1.
           rewrite (proj1 (Ucol_props ts nm Hinj)). reflexivity.
        -- destruct (HQ c Hq) as (Hlq & Hnq & _). exfalso. apply String.eqb_eq in E1. unfold col_str in E1.
           rewrite (col_parent_none _ Hl), (col_parent_none _ Hlq), (proj1 (Ucol_props ts nm Hinj)) in E1. exact (Hnq nm Hnm' E1).
  - (* flows_ok_in *)
    split; [split|exact F3].
    + intros f f' Hf Hf'. destruct (HF f Hf) as (x & s & _ & _ & -> & _ & Eo).
      destruct (HF f' Hf') as (x' & s' & _ & _ & -> & Hk & _). cbn [fst snd]. rewrite Eo.
      unfold col_eqb. destruct Hk as [(v' & Hv' & Ev')|(nm & _ & -> & _ & Hl)].
      * unfold col_parent. cbn [cparents]. rewrite Ev'. cbn [opt_dataset_eqb].
        rewrite dataset_eqb_sym, (go_target _ _ Hgo v' Hv'). apply andb_false_r.
      * rewrite (col_parent_none _ Hl). unfold col_parent at 1. cbn [cparents opt_dataset_eqb]. apply andb_false_r.
    + intros f Hf. destruct (HF f Hf) as (x & s & _ & _ & -> & _ & Eo). cbn [snd]. rewrite Eo.
      cbn [parent_is col_parent cparents]. rewrite Hd. reflexivity.
Qed.

(* ================================================================== *)
(** * Part 3: the sub-query holder with unresolved columns, and the frame *)
Lemma S_of_shape ts x s :
  xref_ok ts x -> In s (S_of ts x) -> (exists v, In v ts /\ cparents s = [v]) \/ (exists c, s = Ucol ts c /\ multi ts).
Proof.
  intros (_ & c & qq & Hx & _ & Hq) Hs. unfold S_of in Hs. rewrite Hx in Hs. destruct qq as [q|].
  - destruct Hq as (v & Hv & Eq & Hu). rewrite (find_dalias ts q v Hv Eq (fun w Hw E => Hu w Hw (or_introl E))) in Hs.
    destruct Hs as [<-|[]]. left. exists v. auto.
  - destruct Hq as [(d1 & ->)|(Hm & _)].
    + destruct Hs as [<-|[]]. left. exists d1. split; [left; reflexivity|reflexivity].
    + rewrite (multi_not_single ts _ _ _ Hm) in Hs. destruct Hs as [<-|[]]. right. exists c. auto.
Qed.

Definition QF : column -> Prop := fun _ => False.

Section FrameX.
Variable e : env.
Hypothesis Hprov : p_truthy (e_provider e) = false.
Variable sqd : dataset.
Hypothesis Hsqk : dk sqd = KSubq.
Hypothesis Hsqok : data_ok sqd.
Variable ts' : list dataset.
Variable xs' : list xcol.
Variable NM' : list string.
Hypothesis Hgo' : group_ok sqd ts'.
Hypothesis Hinj' : ts_inj ts'.
Hypothesis Hnd' : names_nodot ts'.
Hypothesis Hdo' : Forall data_ok ts'.
Hypothesis HX' : forall x, In x xs' -> xref_ok_fX ts' LF NM' x.
Hypothesis HNM' : forall nm, In nm NM' -> exists x, In x xs' /\ In (Ucol ts' nm) (S_of ts' x).
Hypothesis HNQ' : forall x' s' nm v, In nm NM' -> In x' xs' -> In s' (S_of ts' x') -> cparents s' = [v] -> craw s' <> nm.

Lemma inner_holderX :
  exists sh, (do g2 <- end_of_query_cleanup e (add_write empty_graph sqd) ts' xs' []; expand_wildcard e g2) = Ok sh /\
             (forall x y, has_edge sh x y = ematch x y (EL' sqd ts' xs')) /\ sinvX ts' LF NM' QF sh /\
             holder_nodes sh "write" = [sqd] /\ holder_nodes sh "cte" = [].
Proof.
  set (gbi := add_write empty_graph sqd).
  assert (G : gok gbi) by (apply gok_add_tag; [apply gok_empty|exact Hsqok]).
  assert (F : finvX ts' LF gbi).
  { constructor; [intros e0 src a []|intros e0 []|intros e0 c p []|].
    intros n a [H|[]]. inversion H. intros [K|[]]. discriminate K. }
  assert (Lq : lits_in (QCX ts' NM' QF) gbi) by (split; [intros n [<-|[]]; exact I|intros e0 []]).
  destruct (select_core_fX e Hprov sqd ts' Hgo' Hinj' Hnd' Hdo' Hsqok LF (fun a w v K _ => match K with end) NM' QF gbi xs' G F Lq eq_refl (fun y => eq_refl) HX')
    as (sh & E & X & S & T).
  exists sh. split; [exact E|]. split; [intros x y; rewrite (ext_edges _ _ _ X); reflexivity|]. split; [exact S|].
  split; [rewrite T by discriminate; reflexivity|rewrite T by discriminate; reflexivity].
Qed.

Variable d : dataset.
Variable ts : list dataset.
Variable NM : list string.
Variable xs : list xcol.
Hypothesis Hd : dk d = KTable.
Hypothesis Hd_ok : data_ok d.
Hypothesis Hgo : group_ok d ts.
Hypothesis Hdo : Forall data_ok ts.
Hypothesis Hnoself : forall v', In v' ts' -> dataset_eqb v' d = false.
Hypothesis Hcross : forall nm x' s' v, In nm NM -> In x' xs' -> In s' (S_of ts' x') -> cparents s' = [v] -> craw s' <> escape nm.
Hypothesis Hdisj : forall nm, In nm NM -> In nm NM' -> False.
Hypothesis Hcross2 : forall nm v x s, In nm NM' -> In v ts -> In x xs -> In s (S_of ts x) -> cparents s = [v] -> craw s <> nm.

Lemma frame_factsX sh :
  (forall x y, has_edge sh x y = ematch x y (EL' sqd ts' xs')) -> sinvX ts' LF NM' QF sh ->
  holder_nodes sh "write" = [sqd] -> holder_nodes sh "cte" = [] ->
  let g1 := frame_of (add_write empty_graph d) sh sqd in
  gok g1 /\ finvX ts (leak ts') g1 /\ lits_in (QCX ts NM (UPX ts' NM')) g1 /\ sq_write g1 = [d] /\ sq_cte g1 = [] /\
  (forall y, has_edge g1 (NData d) y = false) /\
  (forall x y, is_column x = true -> has_edge g1 x y = true -> parent_is KSubq y = true) /\
  (forall x y, parent_is KSubq x = true -> has_edge g1 x y = false) /\
  (forall nm y, has_edge g1 (NCol {| craw := nm; cparents := [d] |}) y = false) /\
  (forall nm p w, In nm NM -> tab_ok p -> In w ts -> dataset_eqb p w = true -> has_edge g1 (NData p) (NCol (mk_col nm p)) = false) /\
  (forall c, UPX ts' NM' c -> 2 <= List.length (cparents c) /\ (forall nm, In nm NM -> craw c <> nm) /\ (exists y, has_edge g1 (NCol c) y = true) /\
     forall p, In p (cparents c) -> tab_ok p /\ dataset_eqb p d = false /\ has_edge g1 (NData p) (NCol (mk_col (craw c) p)) = false /\
       forall v x' s', In v ts -> dataset_eqb p v = true -> In x' xs -> In s' (S_of ts x') -> cparents s' = [v] -> craw s' <> escape (craw c)).
Proof.
  intros HE Hs Tw Tc g1. set (gb := add_write empty_graph d).
  assert (Gb : gok gb) by (apply gok_add_tag; [apply gok_empty|exact Hd_ok]).
  destruct (frame_tags gb sh sqd d Gb (sv_gokX _ _ _ _ _ Hs) Hsqk Hd eq_refl eq_refl Tw Tc) as (G1 & W1 & C1).
  assert (HE1 : forall x y, has_edge g1 x y = ematch x y (EL' sqd ts' xs')) by (intros x y; unfold g1; rewrite frame_edges by reflexivity; apply HE).
  assert (Tok' : forall w, In w ts' -> tab_ok w) by (intros w Hw; apply (ts_tab_okX sqd ts' Hgo' Hdo' w Hw)).
  assert (Tok : forall w, In w ts -> tab_ok w) by (intros w Hw; apply (ts_tab_okX d ts Hgo Hdo w Hw)).
  assert (HS' : forall x' s', In x' xs' -> In s' (S_of ts' x') -> (exists v, In v ts' /\ cparents s' = [v]) \/ (exists c, s' = Ucol ts' c /\ multi ts')).
  { intros x' s' Hx' Hs'. exact (S_of_shape ts' x' s' (xref_ok_f_oldX ts' LF NM' x' (HX' x' Hx')) Hs'). }
  assert (Hown : forall x', In x' xs' -> own_col sqd x' = {| craw := craw (xc x'); cparents := [sqd] |}).
  { intros x' Hx'. apply own_col_eq. exact (proj1 (HX' x' Hx')). }
  assert (HF : forall x y, is_column x = true -> ematch x y (EL' sqd ts' xs') = true ->
               exists x' s', In x' xs' /\ In s' (S_of ts' x') /\ node_eqb x (NCol s') = true /\ node_eqb y (NCol (own_col sqd x')) = true).
  { intros x y Hx H. unfold EL' in H. rewrite ematch_app, (ematch_alias_col x y ts' Hx), (ematch_sel_col sqd (S_of ts') _ x y Hx) in H. cbn [orb] in H.
    unfold ematch in H. apply existsb_exists in H. destruct H as (p & Hp0 & E). apply in_map_iff in Hp0. destruct Hp0 as (f & <- & Hf).
    cbn [fst snd] in E. apply andb_true_iff in E. destruct E as [E1 E2].
    unfold flows_of in Hf. apply in_flat_map in Hf. destruct Hf as (p0 & Hp0 & Hf). apply in_map_iff in Hf. destruct Hf as (s & <- & Hs0).
    unfold own_pairs in Hp0. apply in_map_iff in Hp0. destruct Hp0 as (x' & <- & Hx'). cbn [fst snd] in *. exists x', s. auto. }
  assert (HD : forall p y, ematch (NData p) (NCol y) (EL' sqd ts' xs') = true ->
               dataset_eqb p sqd = true \/ exists x' s' v, In x' xs' /\ In s' (S_of ts' x') /\ In v ts' /\ cparents s' = [v] /\ dataset_eqb p v = true /\ col_eqb y s' = true).
  { intros p y H. unfold EL' in H. rewrite ematch_app, ematch_alias_ycol in H. cbn [orb] in H.
    apply ematch_sel_data in H. destruct H as (p0 & s & Hp0 & Hs0 & [[K _]|(sp & Esp & K1 & K2)]); [left; exact K|right].
    unfold own_pairs in Hp0. apply in_map_iff in Hp0. destruct Hp0 as (x' & <- & Hx'). cbn [fst] in Hs0.
    destruct (HS' x' s Hx' Hs0) as [(v & Hv & Ev)|(c0 & -> & Hm)].
    - unfold col_parent in Esp. rewrite Ev in Esp. inversion Esp. subst sp. exists x', s, v. repeat (split; [assumption|]). exact K2.
    - rewrite (col_parent_none _ (Ucol_multiX sqd ts' Hgo' Hinj' Hdo' c0 Hm)) in Esp. discriminate. }
  assert (HDmk : forall nm p, dk p = KTable -> ematch (NData p) (NCol (mk_col nm p)) (EL' sqd ts' xs') = true -> tab_ok p ->
                 exists x' s' v, In x' xs' /\ In s' (S_of ts' x') /\ In v ts' /\ cparents s' = [v] /\ dataset_eqb p v = true /\ craw s' = escape nm).
  { intros nm p Tp E Tp0. destruct (HD p _ E) as [K|(x' & s' & v & Hx' & Hs' & Hv & Ev & K1 & K2)].
    - unfold dataset_eqb in K. rewrite Tp, Hsqk in K. discriminate.
    - exists x', s', v. repeat (split; [assumption|]).
      unfold col_eqb in K2. apply andb_true_iff in K2. destruct K2 as [K2 _]. apply String.eqb_eq in K2.
      unfold col_str, col_parent, mk_col in K2. cbn [cparents craw] in K2. rewrite Ev, Tp, (proj1 (Tok' v Hv)) in K2.
      rewrite (tab_ok_eqb_dstr p v Tp0 (Tok' v Hv) K1) in K2. apply append_cancel in K2. apply append_cancel in K2. symmetry. exact K2. }
  assert (N1 : forall y, has_edge g1 (NData d) y = false).
  { intros y. rewrite HE1. destruct (ematch (NData d) y (EL' sqd ts' xs')) eqn:E; [|reflexivity]. exfalso. pose proof E as E0. unfold EL' in E. rewrite ematch_app in E.
    apply orb_true_iff in E. destruct E as [E|E].
    - apply ematch_alias_in in E. destruct E as (v' & Hv' & E1 & _). cbn [node_eqb] in E1. rewrite dataset_eqb_sym, (Hnoself v' Hv') in E1. discriminate.
    - destruct y as [|cy|ay]; [| |rewrite ematch_sel_ystr in E; discriminate].
      + unfold ematch in E. apply existsb_exists in E. destruct E as (p & Hp0 & E). unfold sel_edges in Hp0.
        apply in_flat_map in Hp0. destruct Hp0 as (x0 & _ & Hp0). apply in_flat_map in Hp0. destruct Hp0 as (s & _ & Hp0).
        unfold acl_edges in Hp0. cbn [app In] in Hp0. apply andb_true_iff in E. destruct E as [_ E].
        destruct Hp0 as [<-|[<-|Hp0]]; try (cbn [snd node_eqb] in E; discriminate).
        destruct (col_parent s); [|destruct Hp0]. destruct Hp0 as [<-|[]]. cbn [snd node_eqb] in E. discriminate.
      + destruct (HD d cy E0) as [K|(x' & s' & v & _ & _ & Hv & _ & K & _)].
        * unfold dataset_eqb in K. rewrite Hd, Hsqk in K. discriminate.
        * rewrite dataset_eqb_sym, (Hnoself v Hv) in K. discriminate. }
  split; [exact G1|]. split; [|split; [|split; [exact W1|split; [exact C1|split; [exact N1|]]]]].
  - assert (Esh : forall e0, In e0 (gedges (set_attr sh [NData sqd] "write" false)) -> In e0 (gedges sh)) by (intros e0 H; exact H).
    constructor.
    + intros e0 src a He Hf.
      refine (compose_edge_pred (fun u v at0 => forall src al, u = NData src -> v = NStr al ->
                etype at0 = "has_alias" /\ forall w, In w ts -> dataset_eqb src w = true -> al = dalias w \/ leak ts' al w)
              gb _ _ _ _ _ e0 He src a _ _).
      * intros u v at0 u' v' HP E1 E2 src' al -> ->. rewrite node_eqb_sym in E2. apply eqb_shape_str in E2. subst v.
        destruct u as [src0| |]; cbn [node_eqb] in E1; try discriminate. destruct (HP src0 al eq_refl eq_refl) as [Q1 Q2]. split; [exact Q1|].
        intros w Hw Ew. apply (Q2 w Hw). apply (dataset_eqb_trans src0 src' w E1 Ew).
      * intros u v at0 a' HP E src' al Eu Ev. rewrite E. exact (HP src' al Eu Ev).
      * intros e1 [].
      * intros e1 He1 src' al Eu Ev. apply Esh in He1. destruct e1 as [[u v] at1]. cbn [fst snd] in *. subst u v.
        split; [exact (proj1 (fi_aliasX _ _ _ (sv_finvX _ _ _ _ _ Hs) _ src' al He1 eq_refl))|].
        assert (K : has_edge sh (NData src') (NStr al) = true).
        { apply has_edge_In. eexists. split; [exact He1|]. cbn [fst snd]. rewrite !node_eqb_refl. auto. }
        rewrite HE in K. unfold EL' in K. rewrite ematch_app, ematch_sel_ystr, orb_false_r in K.
        apply ematch_alias_in in K. destruct K as (v' & Hv' & E1 & E2). inversion E2. subst al. cbn [node_eqb] in E1.
        intros w Hw Ew. right. exists v'. split; [exact Hv'|]. split; [reflexivity|].
        apply (dataset_eqb_trans v' src' w); [apply dataset_eqb_true_sym; exact E1|exact Ew].
      * rewrite Hf. reflexivity.
      * rewrite Hf. reflexivity.
    + intros e0 He.
      refine (compose_edge_pred (fun _ _ at0 => etype at0 = "lineage" \/ etype at0 = "has_column" \/ etype at0 = "has_alias") gb _ _ _ _ _ e0 He).
      * auto.
      * intros u v at0 a' HP E. rewrite E. exact HP.
      * intros e1 [].
      * intros e1 He1. exact (fi_typesX _ _ _ (sv_finvX _ _ _ _ _ Hs) e1 (Esh e1 He1)).
    + intros e0 c p He Hf Hc.
      refine (compose_edge_pred (fun u _ _ => forall c p, u = NCol c -> cparents c = [p] -> dk p = KTable) gb _ _ _ _ _ e0 He c p Hf Hc).
      * intros u v at0 u' v' HP E1 _ c' p' -> Hc'. destruct u as [|cu|]; cbn [node_eqb] in E1; try discriminate.
        unfold col_eqb in E1. apply andb_true_iff in E1. destruct E1 as [_ E1]. unfold col_parent at 2 in E1. rewrite Hc' in E1.
        destruct (col_parent cu) as [pu|] eqn:Ecu; cbn [opt_dataset_eqb] in E1; [|discriminate].
        rewrite <- (dataset_eqb_dk _ _ E1). exact (HP cu pu eq_refl (col_parent_some _ _ Ecu)).
      * intros u v at0 a' HP _. exact HP.
      * intros e1 [].
      * intros e1 He1 c' p' Eu Hc'. exact (fi_srcqX _ _ _ (sv_finvX _ _ _ _ _ Hs) e1 c' p' (Esh e1 He1) Eu Hc').
    + unfold g1, frame_of. apply drop_free_compose.
      * intros n a [H|[]]. inversion H. intros [K|[]]. discriminate K.
      * apply drop_free_set_attr_write. exact (fi_dropX _ _ _ (sv_finvX _ _ _ _ _ Hs)).
  - unfold g1, frame_of. apply lits_compose; [split; [intros n [<-|[]]; exact I|intros e0 []]|]. apply lits_set_attr.
    apply (lits_weaken (QCX ts' NM' QF)); [|exact (sv_litsX _ _ _ _ _ Hs)]. intros n Hn. destruct n as [|c|]; try exact I.
    cbn [QCX] in *. destruct Hn as [Hn|[Hn|[]]]; [left; exact Hn|right; right; exact Hn].
  - split; [|split; [|split; [|split]]].
    + intros x y Hx Hxy. rewrite HE1 in Hxy. destruct (HF x y Hx Hxy) as (x' & s' & Hx' & _ & _ & Ey).
      rewrite (parent_is_eqb KSubq _ _ Ey), (Hown x' Hx'). cbn [parent_is col_parent cparents]. rewrite Hsqk. reflexivity.
    + intros x y Hx. assert (Hxc : is_column x = true) by (destruct x; cbn in Hx; try discriminate; reflexivity).
      rewrite HE1. destruct (ematch x y (EL' sqd ts' xs')) eqn:E; [|reflexivity]. exfalso.
      destruct (HF x y Hxc E) as (x' & s' & Hx' & Hs' & Ex & _). rewrite (parent_is_eqb KSubq _ _ Ex) in Hx. cbn [parent_is] in Hx.
      destruct (HS' x' s' Hx' Hs') as [(v & Hv & Ev)|(c0 & -> & Hm)].
      * unfold col_parent in Hx. rewrite Ev, (proj1 (Tok' v Hv)) in Hx. discriminate.
      * rewrite (col_parent_none _ (Ucol_multiX sqd ts' Hgo' Hinj' Hdo' c0 Hm)) in Hx. discriminate.
    + intros nm y. rewrite HE1. destruct (ematch _ y (EL' sqd ts' xs')) eqn:E; [|reflexivity]. exfalso.
      destruct (HF (NCol {| craw := nm; cparents := [d] |}) y eq_refl E) as (x' & s' & Hx' & Hs' & Ex & _). cbn [node_eqb] in Ex.
      unfold col_eqb in Ex. apply andb_true_iff in Ex. destruct Ex as [_ Ex]. unfold col_parent at 1 in Ex. cbn [cparents] in Ex.
      destruct (HS' x' s' Hx' Hs') as [(v & Hv & Ev)|(c0 & -> & Hm)].
      * unfold col_parent in Ex. rewrite Ev in Ex. cbn [opt_dataset_eqb] in Ex. rewrite dataset_eqb_sym, (Hnoself v Hv) in Ex. discriminate.
      * rewrite (col_parent_none _ (Ucol_multiX sqd ts' Hgo' Hinj' Hdo' c0 Hm)) in Ex. discriminate.
    + intros nm p w Hnm Tp0 Hw Ew. rewrite HE1. destruct (ematch _ _ (EL' sqd ts' xs')) eqn:E; [|reflexivity]. exfalso.
      destruct (HDmk nm p (proj1 Tp0) E Tp0) as (x' & s' & v & Hx' & Hs' & Hv & Ev & _ & K).
      exact (Hcross nm x' s' v Hnm Hx' Hs' Ev K).
    + intros c (Hl & [Hnm Eesc] & HP & Hcov & Hndp).
      split; [exact Hl|]. split; [intros nm Hn0 E0; subst nm; exact (Hdisj _ Hn0 Hnm)|]. split.
      * destruct (HNM' (craw c) Hnm) as (x' & Hx' & Hsx).
        assert (Hm : 2 <= List.length (cparents (Ucol ts' (craw c)))).
        { destruct (HS' x' _ Hx' Hsx) as [(v & Hv & Ev)|(c0 & _ & Hm)]; [|apply (Ucol_multiX sqd ts' Hgo' Hinj' Hdo' _ Hm)].
          exfalso. destruct (Ucol_props ts' (craw c) Hinj') as (_ & _ & U3).
          destruct (cparents c) as [|p1 [|p2 r]] eqn:Ec; cbn [List.length] in Hl; try lia.
          destruct (HP p1 (or_introl eq_refl)) as [T1 (w1 & Hw1 & E1)]. destruct (HP p2 (or_intror (or_introl eq_refl))) as [T2 (w2 & Hw2 & E2)].
          assert (Hne : w1 <> w2).
          { intros ->. cbn [map] in Hndp. inversion Hndp. apply H1. left.
            rewrite (tab_ok_eqb_dstr p2 w2 T2 (Tok' w2 Hw2) E2), (tab_ok_eqb_dstr p1 w2 T1 (Tok' w2 Hw2) E1). reflexivity. }
          pose proof (two_members _ w1 w2 (proj2 (U3 w1) Hw1) (proj2 (U3 w2) Hw2) Hne) as K. rewrite Ev in K. cbn in K. lia. }
        exists (NCol (own_col sqd x')).
        assert (Ec : node_eqb (NCol c) (NCol (Ucol ts' (craw c))) = true).
        { cbn [node_eqb]. unfold col_eqb, col_str. rewrite (col_parent_none c Hl), (col_parent_none _ Hm), (proj1 (Ucol_props ts' (craw c) Hinj')).
          cbn [opt_dataset_eqb]. rewrite String.eqb_refl. reflexivity. }
        rewrite (has_edge_cong_l g1 _ _ _ Ec), HE1. unfold EL'. rewrite ematch_app. apply orb_true_iff. right.
        unfold ematch. apply existsb_exists. exists (NCol (Ucol ts' (craw c)), NCol (own_col sqd x')). split; [|cbn [fst snd]; rewrite !node_eqb_refl; reflexivity].
        unfold sel_edges. apply in_flat_map. exists (x', own_col sqd x'). split; [unfold own_pairs; apply in_map_iff; exists x'; auto|].
        apply in_flat_map. exists (Ucol ts' (craw c)). split; [exact Hsx|left; reflexivity].
      * intros p Hp0. destruct (HP p Hp0) as [Tp (w & Hw & Ew)]. split; [exact Tp|]. split; [|split].
        -- destruct (dataset_eqb p d) eqn:E; [|reflexivity]. rewrite <- (Hnoself w Hw). symmetry.
           apply (dataset_eqb_trans w p d); [apply dataset_eqb_true_sym; exact Ew|exact E].
        -- rewrite HE1. destruct (ematch _ _ (EL' sqd ts' xs')) eqn:E; [|reflexivity]. exfalso.
           destruct (HDmk (craw c) p (proj1 Tp) E Tp) as (x' & s' & v & Hx' & Hs' & Hv & Ev & _ & K). rewrite Eesc in K.
           exact (HNQ' x' s' (craw c) v Hnm Hx' Hs' Ev K).
        -- intros v x0 s0 Hv _ Hx0 Hs0 Ev. rewrite Eesc. exact (Hcross2 (craw c) v x0 s0 Hnm Hv Hx0 Hs0 Ev).
Qed.
End FrameX.

(* ================================================================== *)
(** * Part 4: the model side, sub-query with unresolved columns (statements without INSERT column list) *)
Lemma HNM_of ts xs nm : In nm (unres_names ts xs) -> exists x, In x xs /\ In (Ucol ts nm) (S_of ts x).
Proof.
  intros Hnm. unfold unres_names in Hnm.
  assert (Hns : forall (A : Type) (f : dataset -> A) (g : A), In nm (match ts with [_] => [] | _ => [nm] end) -> match ts with [d1] => f d1 | _ => g end = g).
  { intros A f g. destruct ts as [|a [|b r]]; [reflexivity|intros []|reflexivity]. }
  assert (Hin : In nm (flat_map (fun x => match xsrc x with [(c1, None)] => [c1] | _ => [] end) xs) /\ In nm (match ts with [_] => [] | _ => [nm] end)).
  { destruct ts as [|a [|b r]]; [split; [exact Hnm|left; reflexivity]|destruct Hnm|split; [exact Hnm|left; reflexivity]]. }
  destruct Hin as [Hin Hsh]. apply in_flat_map in Hin. destruct Hin as (x & Hx & Hin). exists x. split; [exact Hx|].
  unfold S_of. destruct (xsrc x) as [|[c1 qq] rest]; [destruct Hin|]. destruct qq as [q1|]; [destruct Hin|].
  destruct rest as [|p r]; [|destruct Hin]. destruct Hin as [->|[]].
  rewrite (Hns _ _ _ Hsh). left. reflexivity.
Qed.

Lemma HNQ_of ts xs : ts_inj ts -> (forall x, In x xs -> xref_ok ts x) -> noqual ts xs ->
  forall x' s' nm v, In nm (unres_names ts xs) -> In x' xs -> In s' (S_of ts x') -> cparents s' = [v] -> craw s' <> nm.
Proof.
  intros Hinj Hxs Hnq x' s' nm v Hnm Hx' Hs' Ev. unfold unres_names in Hnm.
  assert (Hm : In nm (flat_map (fun x => match xsrc x with [(c1, None)] => [c1] | _ => [] end) xs) /\ (forall d1, ts <> [d1])).
  { destruct ts as [|a [|b r]]; [split; [exact Hnm|discriminate]|destruct Hnm|split; [exact Hnm|discriminate]]. }
  destruct Hm as [Hin Hns]. apply in_flat_map in Hin. destruct Hin as (x & Hx & Hin).
  destruct (Hxs x Hx) as (_ & c1 & qq & Ex & _ & Hq). rewrite Ex in Hin. destruct qq as [q1|]; [destruct Hin|]. destruct Hin as [->|[]].
  destruct Hq as [(d1 & Ed)|[Hmul _]]; [exfalso; exact (Hns d1 Ed)|].
  destruct (Hxs x' Hx') as (_ & c' & qq' & Ex' & _ & Hq'). unfold S_of in Hs'. rewrite Ex' in Hs'. destruct qq' as [q'|].
  - destruct Hq' as (v' & Hv' & Eq' & Hu'). rewrite (find_dalias ts q' v' Hv' Eq' (fun w Hw E => Hu' w Hw (or_introl E))) in Hs'.
    destruct Hs' as [<-|[]]. cbn [craw]. apply (Hnq x x' nm c' q' Hx Hx' Ex Ex' Hmul).
  - rewrite (multi_not_single ts _ _ _ Hmul) in Hs'. destruct Hs' as [<-|[]].
    destruct (Ucol_props ts c' Hinj) as (_ & _ & U3). destruct Hmul as (a & b & Ha & Hb & Hab).
    pose proof (two_members _ a b (proj2 (U3 a) Ha) (proj2 (U3 b) Hb) Hab) as Hl. rewrite Ev in Hl. cbn in Hl. lia.
Qed.

Lemma unres_escape ts L NM xs nm : (forall x, In x xs -> xref_ok_fX ts L NM x) -> In nm (unres_names ts xs) -> escape nm = nm.
Proof.
  intros HX Hnm. unfold unres_names in Hnm.
  assert (Hin : In nm (flat_map (fun x => match xsrc x with [(c1, None)] => [c1] | _ => [] end) xs)) by (destruct ts as [|a [|b r]]; [exact Hnm|destruct Hnm|exact Hnm]).
  apply in_flat_map in Hin. destruct Hin as (x & Hx & Hin). destruct (HX x Hx) as (_ & c1 & qq1 & Ex & Hc1 & _). rewrite Ex in Hin.
  destruct qq1; [destruct Hin|]. destruct Hin as [<-|[]]. exact Hc1.
Qed.

Theorem model_pairs_wherein1X noise e (s : stmt) t items from cj c items' from' cj' :
  noise_ok noise = true -> env_ok e = true ->
  let q := QSelect items from cj (Some (c, QSelect items' from' cj' None)) in
  (s = SInsert t None q \/ s = SCtas t q \/ s = SView t q) ->
  tref_ok t = true -> forallb item_ok items = true -> from <> [] -> forallb rel_ok from = true ->
  forallb item_ok items' = true -> from' <> [] -> forallb rel_ok from' = true ->
  let d := tbl e t None in let ts := map (tbl_of e) from in let xs := map xcol_of items in
  let ts' := map (tbl_of e) from' in let xs' := map xcol_of items' in
  let NM := unres_names ts xs in let NM' := unres_names ts' xs' in
  group_ok d ts -> ts_inj ts -> names_nodot ts -> NoDup (map dstr ts) ->
  ts_inj ts' -> names_nodot ts' -> (forall v', In v' ts' -> dataset_eqb v' d = false) ->
  (forall x, In x xs -> xref_ok_fX ts (leak ts') NM x) -> noqual ts xs ->
  (forall x', In x' xs' -> xref_ok_fX ts' LF NM' x') -> noqual ts' xs' ->
  (forall nm x' s' v, In nm NM -> In x' xs' -> In s' (S_of ts' x') -> cparents s' = [v] -> craw s' <> nm) ->
  (forall nm, In nm NM -> In nm NM' -> False) ->
  (forall nm v x s0, In nm NM' -> In v ts -> In x xs -> In s0 (S_of ts x) -> cparents s0 = [v] -> craw s0 <> nm) ->
  script_pairs e false [] [r_stmt noise s] = uniq_sorted (sort_strings (map flow_str (flows_of (S_of ts) (own_pairs d xs)))).
Proof.
  intros Hn He q Hs Ht Hit Hne Hrel Hit' Hne' Hrel' d ts xs ts' xs' NM NM' Hgo Hinj Hnd Hnds Hinj' Hnd' Hnoself HX Hnq HX' Hnq' Hcross Hdisj Hcross2.
  set (e' := with_cols e (view_cols [] [])).
  assert (He' : env_ok e' = true) by exact He.
  assert (Hp : p_truthy (e_provider e') = false) by exact (proj1 (env_facts e' He')).
  assert (Htab : forall (fr : list rel), forallb rel_ok fr = true -> forall v, In v (map (tbl_of e') fr) -> tab_ok v).
  { intros fr Hfr v Hv. apply in_map_iff in Hv. destruct Hv as (r & <- & Hr). rewrite forallb_forall in Hfr. specialize (Hfr r Hr).
    destruct r; try discriminate. split; reflexivity. }
  assert (Hdo : Forall data_ok ts) by (apply Forall_forall; intros v Hv; exact (proj2 (Htab from Hrel v Hv))).
  assert (Hdo' : Forall data_ok ts') by (apply Forall_forall; intros v Hv; exact (proj2 (Htab from' Hrel' v Hv))).
  set (sq := QSelect items' from' cj' None) in *.
  assert (Hk : exists k, q_size q = S k) by (eexists; apply q_size_select). destruct Hk as [k Hk].
  set (sqd := mk_subquery (r_brq noise (S k) sq) None).
  assert (Hsqk : dk sqd = KSubq) by reflexivity.
  assert (Hsqok : data_ok sqd) by (unfold data_ok; cbn; discriminate).
  assert (Hgo' : group_ok sqd ts').
  { constructor; [intros v Hv; exact (proj1 (Htab from' Hrel' v Hv))|exact (proj1 Hinj')|].
    intros v Hv. unfold dataset_eqb. rewrite (proj1 (Htab from' Hrel' v Hv)), Hsqk. reflexivity. }
  set (gb := add_write empty_graph d).
  assert (Hxs : forall x, In x xs -> xref_ok ts x) by (intros x Hx; apply (xref_ok_f_oldX ts (leak ts') NM x (HX x Hx))).
  assert (Hxs' : forall x, In x xs' -> xref_ok ts' x) by (intros x Hx; apply (xref_ok_f_oldX ts' LF NM' x (HX' x Hx))).
  destruct (inner_holderX e' Hp sqd Hsqok ts' xs' NM' Hgo' Hinj' Hnd' Hdo' HX') as (sh & Esh & HEsh & Ssh & Twsh & Tcsh).
  assert (Hcross' : forall nm x' s' v, In nm NM -> In x' xs' -> In s' (S_of ts' x') -> cparents s' = [v] -> craw s' <> escape nm).
  { intros nm x' s' v Hnm. rewrite (unres_escape ts (leak ts') NM xs nm HX Hnm). exact (Hcross nm x' s' v Hnm). }
  destruct (frame_factsX sqd Hsqk ts' xs' NM' Hgo' Hinj' Hdo' HX' (HNM_of ts' xs') (HNQ_of ts' xs' Hinj' Hxs' Hnq') d ts NM xs eq_refl eq_refl Hgo Hdo Hnoself Hcross' Hdisj Hcross2 sh HEsh Ssh Twsh Tcsh)
    as (G1 & F1 & L1 & W1 & C1 & N1 & FR3 & FR4 & FR5 & FR6 & HQ).
  fold gb in G1, F1, L1, W1, C1, N1, FR3, FR4, FR5, FR6, HQ. set (g1 := frame_of gb sh sqd) in *.
  destruct (select_core_fX e' Hp d ts Hgo Hinj Hnd Hdo eq_refl (leak ts')) with (NM := NM) (QX := UPX ts' NM') (g1 := g1) (cols := xs) as (sub & Esub & Xsub & Ssub & Tsub); try assumption.
  { intros a w v (v' & Hv' & -> & _) Hv K.
    apply in_map_iff in Hv'. destruct Hv' as (r' & <- & Hr'). apply in_map_iff in Hv. destruct Hv as (r & <- & Hr).
    rewrite forallb_forall in Hrel, Hrel'. pose proof (Hrel r Hr) as Ok1. pose proof (Hrel' r' Hr') as Ok2.
    destruct r as [t1 al1| |]; try discriminate. destruct r' as [t2 al2| |]; try discriminate. cbn [tbl_of tbl dalias dstr] in K.
    cbn [rel_ok] in Ok2. apply andb_true_iff in Ok2. destruct Ok2 as [Ht2 Ha2]. unfold tref_ok in Ht2. apply andb_true_iff in Ht2.
    destruct al2 as [a2|]; [exact (id_ok_not_tref a2 _ _ Ha2 (eq_sym K))|exact (id_ok_not_tref (snd t2) _ _ (proj1 Ht2) (eq_sym K))]. }
  assert (Ea : analyze e' false (r_stmt noise s) = Ok (compose gb sub)).
  { assert (Eq : analyze e' false (r_stmt noise s) =
                 (do sub0 <- extract (S (S (S (3 * depth (r_stmt noise s) + 6)))) e' XSelect (r_query noise (S (q_size q)) q) (dctx gb); Ok (compose gb sub0))).
    { destruct Hs as [->|[->| ->]]; [apply (analyze_insert_q noise Hn e' He' t items from cj _ Ht)
                                    |apply (analyze_create_q noise Hn e' He' false t items from cj _ Ht)
                                    |apply (analyze_create_q noise Hn e' He' true t items from cj _ Ht)]. }
    rewrite Eq. set (F := 3 * depth (r_stmt noise s) + 6). rewrite Hk.
    assert (Ein : extract (S (S F)) e' XSelect (r_brq noise (S k) sq)
                    {| c_cte := Some (sq_cte (init_holder (dctx gb))); c_write := Some [sqd]; c_write_columns := None |} = Ok sh).
    { rewrite (select_tables_extract noise Hn e' He' F _ items' from' cj' k); [exact Esh| |exact Hit'|exact Hne'|exact Hrel'|reflexivity].
      unfold sq. rewrite (sel_segments_brq_select noise Hn). reflexivity. }
    rewrite (extract_select_where noise Hn e' He' (S F) _ items from cj k c sq (dctx gb) sh); [| |exact Hit|exact Hne|exact Hrel| |exact Ein|].
    - change (init_holder (dctx gb)) with gb. fold sqd. fold g1. change (map (tbl_of e') from) with ts. change (map xcol_of items) with xs. rewrite Esub. reflexivity.
    - unfold q. rewrite (sel_segments_top_select noise Hn). unfold clauses. rewrite r_wh_some. reflexivity.
    - apply body_ok_tables; assumption.
    - change (init_holder (dctx gb)) with gb. exact C1. }
  destruct (holder_realises_gX d ts (leak ts') (UPX ts' NM') xs gb (own_pairs d xs) g1 sub Hgo Hinj Hdo Hnds eq_refl HX (HNM_of ts xs) (HNQ_of ts xs Hinj Hxs Hnq)) as (K1 & K2 & K3 & K4); try assumption.
  - intros p0 Hp0. unfold own_pairs in Hp0. apply in_map_iff in Hp0. destruct Hp0 as (x & <- & Hx). cbn [fst snd]. split; [exact Hx|].
    rewrite (own_col_eq d x (proj1 (HX x Hx))). reflexivity.
  - intros x Hx. exists (own_col d x). unfold own_pairs. apply in_map_iff. exists x. auto.
  - split; [intros n [<-|[]]; exact I|intros e0 []].
  - intros n a [H|[]]. inversion H. intros [K|[]]. discriminate K.
  - intros e0 [].
  - intros x y H. discriminate H.
  - apply (script_pairs_of_holder_in e (r_stmt noise s) _ _ Ea (proj1 (env_facts e He)) K1 K2 K3 K4).
Qed.
Print Assumptions model_pairs_wherein1X.

(* ================================================================== *)
(** * Part 5: the conditions from [colshape]; Lemma B on the fragment without the restriction [resolvedb] *)
Lemma colshape_wherein1_inner_cross (s : stmt) t items from cj c items' from' cj' :
  let q := QSelect items from cj (Some (c, QSelect items' from' cj' None)) in
  ((exists cols, s = SInsert t cols q) \/ s = SCtas t q \/ s = SView t q) ->
  colshape s = true -> tref_ok t = true ->
  from <> [] -> forallb rel_ok from = true -> forallb item_ok items = true ->
  from' <> [] -> forallb rel_ok from' = true -> forallb item_ok items' = true ->
  trefs_distinct (map rtref from) = true -> trefs_distinct (map rtref from') = true ->
  crossb from' items' items = true.
Proof.
  intros q Hs Hc Ht Hne Hrel Hit Hne' Hrel' Hit' Hd Hd'.
  unfold colshape in Hc. apply andb_true_iff in Hc. destruct Hc as [Hc Hsc].
  apply andb_true_iff in Hc. destruct Hc as [Hc Hal]. apply andb_true_iff in Hc. destruct Hc as [Hns _].
  assert (Hrt : forallb is_rtable from = true) by (rewrite forallb_forall in *; intros r Hr; apply rel_ok_table; apply Hrel; exact Hr).
  assert (Hrt' : forallb is_rtable from' = true) by (rewrite forallb_forall in *; intros r Hr; apply rel_ok_table; apply Hrel'; exact Hr).
  assert (Hq : exists k, q_size q = S k) by (eexists; apply q_size_select). destruct Hq as [k Hk].
  (* the target is read nowhere *)
  assert (Hns' : forallb (fun r => negb (tref_clash t r)) (map rtref from ++ map rtref from') = true).
  { assert (E : cs_noself s = forallb (fun r => negb (tref_clash t r)) (q_trefs (S (q_size q)) q)) by (destruct Hs as [(cols & ->)|[->| ->]]; reflexivity).
    rewrite E, Hk in Hns. unfold q in Hns. rewrite (q_trefs_wherein1 k items from cj c items' from' cj' Hrt Hrt') in Hns. exact Hns. }
  rewrite forallb_app in Hns'. apply andb_true_iff in Hns'. destruct Hns' as [Hn1 Hn2].
  assert (Tc : tables_cond "" t from).
  { apply tables_condb_ok; [exact Ht|exact Hrel|]. unfold tables_condb. rewrite Hd. cbn [andb]. rewrite forallb_forall in *. intros r Hr. apply Hn1. apply in_map. exact Hr. }
  assert (Tc' : tables_cond "" t from').
  { apply tables_condb_ok; [exact Ht|exact Hrel'|]. unfold tables_condb. rewrite Hd'. cbn [andb]. rewrite forallb_forall in *. intros r Hr. apply Hn2. apply in_map. exact Hr. }
  (* the scopes *)
  assert (E : cs_scopes s = cs_q (S (q_size q)) (q_refnames (S (q_size q)) q) true [] q) by (destruct Hs as [(cols & ->)|[->| ->]]; reflexivity).
  rewrite E, Hk in Hsc. unfold q in Hsc. rewrite (q_refnames_wherein1 k items from cj c items' from' cj' Hrt Hrt') in Hsc.
  set (A := map snd (flat_map item_refs items)) in *. set (A' := map snd (flat_map item_refs items')) in *.
  cbn [cs_q] in Hsc. rewrite (scope_of_tables (S k) from Hrt), (scope_of_tables k from' Hrt'), (rels_flat_tables from Hrt), (rels_flat_tables from' Hrt') in Hsc.
  fold (unq_of (flat_map item_refs items)) in Hsc. fold (unq_of (flat_map item_refs items')) in Hsc.
  apply andb_true_iff in Hsc. destruct Hsc as [Hsc Hsc']. apply andb_true_iff in Hsc. destruct Hsc as [Hsc _].
  apply andb_true_iff in Hsc. destruct Hsc as [Hnames Hitems].
  apply andb_true_iff in Hsc'. destruct Hsc' as [Hsc' _]. apply andb_true_iff in Hsc'. destruct Hsc' as [Hsc' _].
  apply andb_true_iff in Hsc'. destruct Hsc' as [Hnames' Hitems'].
  destruct (items_of_ok_c (A ++ A') [] A' from true items Hrt Hne Hit Hnames Hd eq_refl Hitems) as (Ic & Nq & Cn).
  destruct (items_of_ok_c (A ++ A') A [] from' false items' Hrt' Hne' Hit' Hnames' Hd') as (Ic' & Nq' & Cn'); [unfold A'; rewrite app_nil_r; reflexivity|exact Hitems'|].
  unfold crossb. destruct (Nat.leb 2 (List.length from')) eqn:El; [|reflexivity]. cbn [negb orb]. apply Nat.leb_le in El.
  apply forallb_forall. intros i' Hi'. destruct (snd (item_ref i')) as [q0|] eqn:Eq0; [reflexivity|].
  apply forallb_forall. intros i Hi. apply negb_true_iff. apply String.eqb_neq. intros Ec.
  destruct (Cn' El i' (fst (item_ref i')) Hi') as (C1 & _ & C3); [destruct (item_ref i'); cbn [fst snd] in *; subst; reflexivity|].
  rewrite forallb_forall in Hit. pose proof (Hit i Hi) as Hoi.
  destruct i as [[qq n| | | | | |] al|qq]; cbn [item_ok] in Hoi; try discriminate; cbn [item_ref fst] in Ec.
  - apply (count_s_In (fst (item_ref i')) A); [|exact C1]. rewrite <- Ec. unfold A. apply in_map_iff. exists (qq, n). split; [reflexivity|].
    apply in_flat_map. exists (IExpr (EColRef qq n) al). split; [exact Hi|left; reflexivity].
  - apply C3. symmetry. exact Ec.
Qed.

Lemma S_of_craw e from i s : item_ok i = true -> In s (S_of (map (tbl_of e) from) (xcol_of i)) -> craw s = fst (item_ref i).
Proof.
  intros Hi Hs. destruct (xcol_of_facts i Hi) as (_ & F2 & _). unfold S_of in Hs. rewrite F2 in Hs. destruct (item_ref i) as [c qq]. cbn [fst].
  destruct qq as [q|].
  - destruct (find _ _); [|destruct Hs]. destruct Hs as [<-|[]]. reflexivity.
  - destruct (map (tbl_of e) from) as [|d1 [|d2 r]]; destruct Hs as [<-|[]]; try reflexivity; unfold Ucol; rewrite fold_add_parent_eq; reflexivity.
Qed.

Lemma xref_ok_fX_weaken ts (L L' : string -> dataset -> Prop) NM x :
  (forall a w, L' a w -> L a w) -> xref_ok_fX ts L NM x -> xref_ok_fX ts L' NM x.
Proof.
  intros HL (H0 & c & qq & Hx & Hc & Hq). split; [exact H0|]. exists c, qq. split; [exact Hx|]. split; [exact Hc|].
  destruct qq as [q|]; [|exact Hq]. destruct Hq as (v & Hv & Eq & Hu). exists v. split; [exact Hv|]. split; [exact Eq|].
  intros w Hw Hor. apply Hu; [exact Hw|]. destruct Hor as [H|[H|[H|H]]]; auto.
Qed.

(** the fragment: INSERT without column list / CREATE TABLE AS / CREATE VIEW AS over
    SELECT .. FROM distinct base tables WHERE c IN (SELECT .. FROM distinct base tables) - shape only *)
Definition wherein1_syntactic (s : stmt) : bool :=
  match s with
  | SInsert t None (QSelect items from _ (Some (_, QSelect items' from' _ None)))
  | SCtas t (QSelect items from _ (Some (_, QSelect items' from' _ None)))
  | SView t (QSelect items from _ (Some (_, QSelect items' from' _ None))) =>
      forallb is_rtable from && trefs_distinct (map rtref from) && forallb is_rtable from' && trefs_distinct (map rtref from')
  | _ => false
  end.

Theorem lemma_B_wherein1u_colshape : forall noise e s,
  noise_ok noise = true -> env_ok e = true -> stmt_ok s = true -> sshape s = true -> colshape s = true ->
  wherein1_syntactic s = true -> script_pairs e false [] [r_stmt noise s] = spec_pairs (e_cfg e) s.
Proof.
  intros noise e s Hn He Hok _ Hc Hsyn.
  assert (K : exists t items from cj c items' from' cj',
            let q := QSelect items from cj (Some (c, QSelect items' from' cj' None)) in
            (s = SInsert t None q \/ s = SCtas t q \/ s = SView t q) /\
            forallb is_rtable from && trefs_distinct (map rtref from) && forallb is_rtable from' && trefs_distinct (map rtref from') = true /\
            tref_ok t && frag_query (S (q_size q)) q && names_ok_q (S (q_size q)) [] q = true).
  { destruct s as [t [cs|] q|t q|t q|q|kind]; cbn [wherein1_syntactic] in Hsyn; try discriminate;
      destruct q as [items from cj [[c sq]|]| |]; try discriminate; destruct sq as [items' from' cj' [wh'|]| |]; try discriminate;
      exists t, items, from, cj, c, items', from', cj'; cbv zeta; (split; [auto|]); (split; [exact Hsyn|]);
      cbn [stmt_ok] in Hok; try exact Hok. rewrite andb_true_r in Hok. exact Hok. }
  destruct K as (t & items & from & cj & c & items' & from' & cj' & Hs & Hsh & Hok'). cbv zeta in Hs, Hok'.
  apply andb_true_iff in Hsh. destruct Hsh as [Hsh Hd']. apply andb_true_iff in Hsh. destruct Hsh as [Hsh Hrt']. apply andb_true_iff in Hsh. destruct Hsh as [Hrt Hd].
  destruct (stmt_ok_select_w t items from cj c items' from' cj' Hok' Hrt Hrt') as (Ht & Hit & Hne & Hrel & Hit' & Hne' & Hrel').
  assert (Hs' : (exists cols, s = SInsert t cols (QSelect items from cj (Some (c, QSelect items' from' cj' None)))) \/
                s = SCtas t (QSelect items from cj (Some (c, QSelect items' from' cj' None))) \/
                s = SView t (QSelect items from cj (Some (c, QSelect items' from' cj' None)))).
  { destruct Hs as [->|[->| ->]]; [left; exists None; reflexivity|right; left; reflexivity|right; right; reflexivity]. }
  destruct (colshape_wherein1 (e_cfg e) s t items from cj c items' from' cj' Hs' Hc Ht Hne Hrel Hit Hne' Hrel' Hit' Hd Hd')
    as (Ptc & Pic & Pnq & Ptc' & Pic' & Pnq' & Hlk & Hcr).
  pose proof (colshape_wherein1_inner_cross s t items from cj c items' from' cj' Hs' Hc Ht Hne Hrel Hit Hne' Hrel' Hit' Hd Hd') as Hcr'.
  (* the cross conditions, from the two booleans *)
  assert (Cross : forall fr its its' nm i', from <> [] \/ True -> forallb item_ok its = true -> fr <> [] ->
            crossb fr its its' = true -> In nm (unres_names (map (tbl_of e) fr) (map xcol_of its)) -> In i' its' -> fst (item_ref i') <> nm).
  { intros fr its its' nm i' _ Hits Hfr Hb Hnm Hi' Ec. destruct (unres_names_in e fr its nm Hfr Hits Hnm) as (Hl & i & Hi & Ei).
    unfold crossb in Hb. apply orb_true_iff in Hb. destruct Hb as [Hb|Hb]; [apply negb_true_iff in Hb; apply Nat.leb_gt in Hb; lia|].
    rewrite forallb_forall in Hb. specialize (Hb i Hi). rewrite Ei in Hb. cbn [fst snd] in Hb. rewrite forallb_forall in Hb. specialize (Hb i' Hi').
    rewrite Ec, String.eqb_refl in Hb. discriminate. }
  rewrite (model_pairs_wherein1X noise e s t items from cj c items' from' cj' Hn He Hs Ht Hit Hne Hrel Hit' Hne' Hrel'
             (group_ok_of e t from Hrel Ptc) (ts_inj_of e t from Hrel Ptc) (names_nodot_of e from Hrel)).
  - unfold spec_pairs. rewrite (spec_strs_select_w (e_cfg e) s t items from cj _ Hs Hrt).
    f_equal. f_equal. unfold flows_of, own_pairs. rewrite !flat_map_map', map_flat_map'. cbn [fst snd]. apply flat_map_ext_in'. intros i Hi.
    symmetry. apply item_corr; [exact Hrel| |exact Ptc|exact (Pic i Hi)]. rewrite forallb_forall in Hit. apply Hit. exact Hi.
  - rewrite (map_dstr_tbl e from Hrel). exact (proj1 Ptc).
  - exact (ts_inj_of e t from' Hrel' Ptc').
  - exact (names_nodot_of e from' Hrel').
  - intros v' Hv'. exact (go_target _ _ (group_ok_of e t from' Hrel' Ptc') v' Hv').
  - exact (xref_ok_f_of e t from from' items Hrel Hrel' Hit Ptc Pic Hlk).
  - exact (noqual_of e from items Hit Pnq).
  - intros x' Hx'. apply (xref_ok_fX_weaken _ (leak (map (tbl_of e) [])) LF); [intros a w []|].
    apply (xref_ok_f_of e t from' [] items' Hrel' eq_refl Hit' Ptc' Pic'); [|exact Hx'].
    unfold items_leakb. apply forallb_forall. intros i _. destruct (snd (item_ref i)); reflexivity.
  - exact (noqual_of e from' items' Hit' Pnq').
  - intros nm x' s' v Hnm Hx' Hss' _. apply in_map_iff in Hx'. destruct Hx' as (i' & <- & Hi'). pose proof Hit' as Hit1'. rewrite forallb_forall in Hit1'.
    rewrite (S_of_craw e from' i' s' (Hit1' i' Hi') Hss'). exact (Cross from items items' nm i' (or_intror I) Hit Hne Hcr Hnm Hi').
  - intros nm Hnm Hnm'. pose proof Hit' as Hit0'. destruct (unres_names_in e from' items' nm Hne' Hit0' Hnm') as (_ & i' & Hi' & Ei').
    apply (Cross from items items' nm i' (or_intror I) Hit Hne Hcr Hnm Hi'). rewrite Ei'. reflexivity.
  - intros nm v x s0 Hnm _ Hx Hs0 _. apply in_map_iff in Hx. destruct Hx as (i & <- & Hi). pose proof Hit as Hit0. rewrite forallb_forall in Hit0.
    rewrite (S_of_craw e from i s0 (Hit0 i Hi) Hs0). exact (Cross from' items' items nm i (or_intror I) Hit' Hne' Hcr' Hnm Hi).
Qed.
Print Assumptions lemma_B_wherein1u_colshape.

Example wherein1u_nonvacuous :
  let s := SInsert tx None (selw [ci None "a"; ci (Some "t") "b"] [tb "t"; tb "v"] true "a" (sel1 [ci None "c"] [tb "u"; tb "w"])) in
  noise_ok [ws5] && env_ok e_cxB && stmt_ok s && sshape s && colshape s && wherein1_syntactic s && negb (sel_wherein1_syntactic s) = true.
Proof. vm_compute. reflexivity. Qed.
