(** Lemma B, step 5d: the CTE referenced under an ALIAS ([... FROM n AS a]).  The body reads the dataset [rd] (the
    bracketed definition under the name [a]); the holder already contains the CTE object [D] (the same definition under
    the name [n]): equal as graph nodes, so [D] stays the stored object, carrying the alias label [a]; the source
    columns of the body are columns of [D]. *)
From Coq Require Import Permutation Lia.
From SV Require Import Tree.Render Tree.LemmaA Tree.LemmaAProofs Tree.LemmaB Tree.LemmaBProofs Tree.LemmaB5a Tree.LemmaB5cPaths Tree.LemmaB5c
     Tree.LemmaB5dDefs Tree.LemmaB5dHolder Ident.Escape Ident.EscapeProofs Holder.PathProofs Holder.SortProofs.

(** one lineage edge, on a holder whose literals satisfy an arbitrary [Q] *)
Lemma acl_ok_q (Q : Graph.node -> Prop) AL d g src tgt :
  col_parent tgt = Some d -> Q (NCol tgt) -> Q (NCol src) -> Q (NData d) ->
  (forall sp, col_parent src = Some sp -> Q (NData sp) /\ dataset_eqb sp d = false) ->
  lits_in Q g -> edges_inv AL g ->
  exists g', add_column_lineage g src tgt = Ok g' /\ ext g g' (acl_edges src tgt d) /\
             lits_in Q g' /\ edges_inv AL g' /\ (forall k, holder_nodes g' k = holder_nodes g k) /\
             List.length (out_edges g' (NData d)) <= S (List.length (out_edges g (NData d))) /\
             (drop_free g -> drop_free g').
Proof.
  intros Ht Hqt Hqs Hqd Hsp Hl He. unfold add_column_lineage. rewrite Ht.
  set (g1 := add_edge g (NCol src) (NCol tgt) lineage_edge).
  set (g2 := add_edge g1 (NData d) (NCol tgt) (e_has_column None)).
  assert (L1 : lits_in Q g1) by (apply lits_add_edge; [exact Hl|exact Hqs|exact Hqt]).
  assert (L2 : lits_in Q g2) by (apply lits_add_edge; [exact L1|exact Hqd|exact Hqt]).
  assert (E1 : edges_inv AL g1) by (apply edges_inv_add_edge; [exact He|left; reflexivity]).
  assert (E2 : edges_inv AL g2) by (apply edges_inv_add_edge; [exact E1|right; reflexivity]).
  assert (X2 : ext g g2 ([(NCol src, NCol tgt)] ++ [(NData d, NCol tgt)])).
  { apply (ext_trans g g1 g2); apply ext_add_edge. }
  assert (O1 : out_edges g1 (NData d) = out_edges g (NData d)) by (apply out_edges_add_edge_other; reflexivity).
  assert (O2 : List.length (out_edges g2 (NData d)) <= S (List.length (out_edges g (NData d)))).
  { rewrite <- O1. apply out_edges_add_edge_len. }
  assert (T2 : forall k, holder_nodes g2 k = holder_nodes g k) by (intros k; unfold g2, g1; rewrite !tag_add_edge; reflexivity).
  unfold acl_edges. destruct (col_parent src) as [sp|] eqn:Es.
  - eexists. split; [reflexivity|]. destruct (Hsp sp eq_refl) as [Hqsp Hnd].
    split; [|split; [|split; [|split; [|split]]]].
    + change ([(NCol src, NCol tgt); (NData d, NCol tgt)] ++ [(NData sp, NCol src)])
        with (([(NCol src, NCol tgt)] ++ [(NData d, NCol tgt)]) ++ [(NData sp, NCol src)]).
      apply (ext_trans g g2 _ _ _ X2). apply ext_add_edge.
    + apply lits_add_edge; [exact L2|exact Hqsp|exact Hqs].
    + apply edges_inv_add_edge; [exact E2|right; reflexivity].
    + intros k. rewrite tag_add_edge. apply T2.
    + rewrite out_edges_add_edge_other; [exact O2|]. cbn [node_eqb]. rewrite dataset_eqb_sym. exact Hnd.
    + intros Hdf. repeat apply drop_free_add_edge. exact Hdf.
  - eexists. split; [reflexivity|]. rewrite app_nil_r. repeat (split; [assumption|]).
    intros Hdf. repeat apply drop_free_add_edge. exact Hdf.
Qed.

Section BodyAlias.
Variable e : env.
Variables (d D rd : dataset) (a : string) (ts' : list dataset) (PC : column -> Prop).
Hypothesis Hkd : dk d = KTable.
Hypothesis Hks : dk D = KSubq.
Hypothesis Hkr : dk rd = KSubq.
Hypothesis Hdr : data_ok rd.
Hypothesis Heq : dataset_eqb rd D = true.
Hypothesis Hal : dalias rd = a.
Hypothesis Hts : forall v, In v ts' -> dk v = KTable.
Let DS := d :: D :: ts'.
Hypothesis HPCd : forall nm, String.eqb nm "*" = false -> PC {| craw := nm; cparents := [d] |}.
Hypothesis HPCD : forall nm, String.eqb nm "*" = false -> PC {| craw := nm; cparents := [D] |}.
Hypothesis HPCstar : forall c, PC c -> String.eqb (craw c) "*" = false.

Definition Sa (x : xcol) : list column := match xsrc x with [(c, _)] => [{| craw := c; cparents := [D] |}] | _ => [] end.
Definition xa_ok (x : xcol) : Prop :=
  cparents (xc x) = [] /\ String.eqb (craw (xc x)) "*" = false /\
  exists c qq, xsrc x = [(c, qq)] /\ escape c = c /\ String.eqb c "*" = false /\ (qq = None \/ qq = Some a).

Lemma DS_eqb_rd v : In v DS -> dataset_eqb v rd = true -> v = D.
Proof.
  intros [<-|[<-|Hv]] E; [|reflexivity|]; exfalso; unfold dataset_eqb in E.
  - rewrite Hkd, Hkr in E. discriminate.
  - rewrite (Hts v Hv), Hkr in E. discriminate.
Qed.

Lemma gam_rd g : get_alias_mapping g [rd] = fold_left (alias_step [rd]) (edges_nx g) [].
Proof. rewrite get_alias_mapping_eq. cbv zeta. cbn [filter]. rewrite Hkr. reflexivity. Qed.

Lemma HS_cte g x :
  sel_inv2 PC DS [rd] [rd] g -> xa_ok x -> to_source_columns e x (get_alias_mapping g [rd]) = Ok (Sa x).
Proof.
  intros Hinv (_ & _ & c & qq & Hx & Hc & Hstar & Hq). unfold Sa. rewrite Hx.
  pose proof (am_complete_alias2 [rd] [rd] g rd (si2_edges _ _ _ _ _ Hinv) (or_introl eq_refl)
                (proj1 (si2_alias _ _ _ _ _ Hinv rd (or_introl eq_refl))) (proj2 (si2_alias _ _ _ _ _ Hinv rd (or_introl eq_refl)))) as Hsome.
  rewrite Hal in Hsome.
  assert (Hval : forall y, In y (map snd (get_alias_mapping g [rd])) -> y = D).
  { intros y Hy. rewrite gam_rd in Hy. apply alias_fold_values in Hy. destruct Hy as [(e0 & a0 & He0 & _ & Hf & Hm)|[]].
    apply edges_nx_In in He0. destruct (proj2 (si2_lits _ _ _ _ _ Hinv) e0 He0) as [Hq0 _]. rewrite Hf in Hq0. cbn [fst QK] in Hq0.
    apply memd_In_eqb in Hm. destruct Hm as (w & [<-|[]] & Ew). exact (DS_eqb_rd y Hq0 Ew). }
  destruct (assoc_list a (get_alias_mapping g [rd])) as [v|] eqn:Ea; [|discriminate].
  assert (Ev : v = D) by (apply Hval; exact (assoc_list_In _ _ _ Ea)). subst v.
  destruct Hq as [-> | ->].
  - apply tsc_unq_single; [exact Hx|exact Hc|]. apply dedup_all_same.
    + intros E0. apply map_eq_nil in E0. rewrite E0 in Ea. discriminate.
    + exact Hval.
  - apply (tsc_qualified e x _ c a D); assumption.
Qed.

Lemma eoq_fold_cte cols :
  (forall x, In x cols -> xa_ok x) ->
  forall l g2 idx,
    (forall x, In x l -> In x cols) -> sel_inv2 PC DS [rd] [rd] g2 -> sq_write g2 = [d] ->
    List.length (out_edges g2 (NData d)) <= idx -> idx + List.length l = List.length cols ->
    exists g', fst (fold_left (fun acc2 x => let '(rg, idx) := acc2 in
                                  (do g2 <- rg; eoq_step e [rd] (List.length cols) d g2 idx x, Datatypes.S idx)) l (Ok g2, idx)) = Ok g' /\
               ext g2 g' (sel_edges d Sa (own_pairs d l)) /\ sel_inv2 PC DS [rd] [rd] g' /\ (forall k, holder_nodes g' k = holder_nodes g2 k).
Proof.
  intros HX. induction l as [|x r IH]; intros g2 idx Hl Hinv Hw Ho Hn; cbn [fold_left].
  - exists g2. split; [reflexivity|]. split; [apply ext_refl|]. split; [exact Hinv|reflexivity].
  - pose proof (HX x (Hl x (or_introl eq_refl))) as Hxa. pose proof Hxa as (Hx1 & Hx2 & c & qq & Ex & Ec & Hstar & Hq).
    assert (ESa : Sa x = [{| craw := c; cparents := [D] |}]) by (unfold Sa; rewrite Ex; reflexivity).
    assert (Estep : exists g3, eoq_step e [rd] (List.length cols) d g2 idx x = Ok g3 /\
                               ext g2 g3 (flat_map (fun s => acl_edges s (own_col d x) d) (Sa x)) /\
                               lits_in (QK DS PC) g3 /\ edges_inv [rd] g3 /\ (forall k, holder_nodes g3 k = holder_nodes g2 k) /\
                               List.length (out_edges g3 (NData d)) <= Datatypes.S idx /\ drop_free g3).
    { unfold eoq_step. rewrite (HS_cte g2 x Hinv Hxa), ESa.
      pose proof (write_columns_len g2 d Hw) as Hwl. cbn [List.length] in Hn.
      replace (Nat.eqb (List.length (write_columns g2)) (List.length cols)) with false by (symmetry; apply Nat.eqb_neq; lia).
      cbv zeta. cbn [fold_left]. fold (own_col d x). rewrite (own_col_eq d x Hx1).
      destruct (acl_ok_q (QK DS PC) [rd] d g2 {| craw := c; cparents := [D] |} {| craw := craw (xc x); cparents := [d] |} eq_refl)
        as (g3 & E3 & X3 & L3 & I3 & T3 & O3 & D3).
      - cbn [QK]. apply HPCd. exact Hx2.
      - cbn [QK]. apply HPCD. exact Hstar.
      - left. reflexivity.
      - intros sp Esp. cbn [col_parent cparents] in Esp. inversion Esp. subst sp. split; [right; left; reflexivity|].
        unfold dataset_eqb. rewrite Hkd, Hks. reflexivity.
      - exact (si2_lits _ _ _ _ _ Hinv).
      - exact (si2_edges _ _ _ _ _ Hinv).
      - rewrite E3. exists g3. split; [reflexivity|]. cbn [flat_map]. rewrite app_nil_r.
        split; [exact X3|]. split; [exact L3|]. split; [exact I3|]. split; [exact T3|]. split; [lia|exact (D3 (si2_drop _ _ _ _ _ Hinv))]. }
    destruct Estep as (g3 & E3 & X3 & L3 & I3 & T3 & O3 & D3). rewrite E3.
    assert (Hinv3 : sel_inv2 PC DS [rd] [rd] g3) by (apply (sel_inv2_ext PC DS [rd] [rd] g2 g3 _ Hinv X3 L3 I3 D3)).
    assert (Hw3 : sq_write g3 = [d]) by (unfold sq_write; rewrite T3; exact Hw).
    cbn [List.length] in Hn.
    destruct (IH g3 (Datatypes.S idx) (fun y Hy => Hl y (or_intror Hy)) Hinv3 Hw3 O3 ltac:(lia)) as (g' & E' & X' & Hinv' & T').
    exists g'. split; [exact E'|]. split.
    + unfold sel_edges, own_pairs. cbn [map flat_map fst snd]. apply (ext_trans g2 g3 g'); assumption.
    + split; [exact Hinv'|]. intros k. rewrite T', T3. reflexivity.
Qed.
End BodyAlias.

(* ================================================================== *)
(** * adding a node / an edge whose source node is already stored under another (equal) object *)
Lemma canon_stored n l : has_node_l n l = true -> In (canon_l n l) (map fst l).
Proof.
  induction l as [|[m b] r IH]; cbn [has_node_l canon_l map fst In]; [discriminate|].
  destruct (node_eqb n m); [intros _; left; reflexivity|]. cbn [orb]. intros H. right. exact (IH H).
Qed.

Lemma lits_add_node_present (Q : Graph.node -> Prop) g n a : lits_in Q g -> has_node g n = true -> lits_in Q (add_node g n a).
Proof.
  intros [H1 H2] Hn. split; [|exact H2]. intros m Hm. cbn [add_node gnodes] in Hm. rewrite keys_upsert in Hm.
  unfold has_node in Hn. rewrite Hn in Hm. exact (H1 m Hm).
Qed.

Lemma lits_add_edge_present (Q : Graph.node -> Prop) g u v a : lits_in Q g -> has_node g u = true -> Q v -> lits_in Q (add_edge g u v a).
Proof.
  intros Hg Hu Hv. pose proof (lits_add_node Q _ v [] (lits_add_node_present Q g u [] Hg Hu) Hv) as [K1 K2].
  split; [exact K1|]. intros e He. unfold add_edge in He. cbn [gedges] in He.
  apply In_upsert_edge in He. destruct He as [E|(e' & He' & E)].
  - rewrite E. cbn [fst snd]. set (ns := gnodes (add_node (add_node g u []) v [])). split.
    + apply K1. apply canon_stored. change (has_node (add_node (add_node g u []) v []) u = true).
      rewrite !has_node_add_node, node_eqb_refl. rewrite orb_true_r. reflexivity.
    + destruct (canon_cases v ns) as [-> | H]; [exact Hv|apply K1; exact H].
  - rewrite <- E. apply K2. exact He'.
Qed.

Section BodyAlias2.
Variable e : env.
Hypothesis Hp : p_truthy (e_provider e) = false.
Variables (d D rd : dataset) (a : string) (ts' : list dataset) (PC : column -> Prop).
Hypothesis Hkd : dk d = KTable.
Hypothesis Hks : dk D = KSubq.
Hypothesis Hkr : dk rd = KSubq.
Hypothesis Hdr : data_ok rd.
Hypothesis Heq : dataset_eqb rd D = true.
Hypothesis Hal : dalias rd = a.
Hypothesis Hts : forall v, In v ts' -> dk v = KTable.
Let DS := d :: D :: ts'.
Hypothesis HPCd : forall nm, String.eqb nm "*" = false -> PC {| craw := nm; cparents := [d] |}.
Hypothesis HPCD : forall nm, String.eqb nm "*" = false -> PC {| craw := nm; cparents := [D] |}.
Hypothesis HPCstar : forall c, PC c -> String.eqb (craw c) "*" = false.

Lemma select_core_cte xs :
  (forall x, In x xs -> xa_ok a x) ->
  exists bsub, cte_body_holder e d D rd xs = Ok bsub /\
               ext (gbB d D) bsub ([(NData rd, NStr a)] ++ sel_edges d (Sa D) (own_pairs d xs)) /\
               sel_inv2 PC DS [rd] [rd] bsub /\ (forall k, k <> "read" -> holder_nodes bsub k = holder_nodes (gbB d D) k).
Proof.
  intros HX. unfold cte_body_holder. fold (gbB d D). set (gb := gbB d D).
  assert (Lb : lits_in (QK DS PC) gb).
  { split; [intros n Hn; unfold gb in Hn; rewrite (gbB_nodes d D Hkd Hks) in Hn; destruct Hn as [<-|[<-|[]]]; [right; left; reflexivity|left; reflexivity]|intros e0 []]. }
  destruct (gbB_tags d D Hkd Hks) as (WB & CB & RB). fold gb in WB, CB, RB.
  rewrite eoq_single. cbv zeta. cbn [fold_left].
  assert (Er : add_read gb rd = add_edge (add_node gb (NData rd) [("read", true)]) (NData rd) (NStr a) e_has_alias).
  { unfold add_read, has_alias_attr. rewrite Hkr, Hal. reflexivity. }
  set (g0 := add_read gb rd) in *.
  assert (HnD : has_node gb (NData rd) = true).
  { apply has_node_In. exists (NData D). split; [unfold gb; rewrite (gbB_nodes d D Hkd Hks); left; reflexivity|exact Heq]. }
  assert (L0 : lits_in (QK DS PC) g0).
  { rewrite Er. apply lits_add_edge_present; [apply lits_add_node_present; [exact Lb|exact HnD]| |exact I].
    rewrite has_node_add_node, HnD. reflexivity. }
  assert (E0 : edges_inv [rd] g0).
  { rewrite Er. apply edges_inv_add_edge; [apply edges_inv_add_node; intros e0 []|]. split; [reflexivity|]. exists rd. split; [reflexivity|]. split; [left; reflexivity|symmetry; exact Hal]. }
  assert (X0 : ext gb g0 [(NData rd, NStr a)]).
  { rewrite Er. apply (ext_trans gb (add_node gb (NData rd) [("read", true)]) _ [] _ (ext_add_node gb _ _) (ext_add_edge _ _ _ _)). }
  assert (T0 : forall k, k <> "read" -> holder_nodes g0 k = holder_nodes gb k).
  { intros k Hk. apply tag_add_read_other; [exact Hdr|exact Hk]. }
  assert (O0 : out_edges g0 (NData d) = []).
  { rewrite Er, out_edges_add_edge_other; [reflexivity|]. cbn [node_eqb]. unfold dataset_eqb. rewrite Hkd, Hkr. reflexivity. }
  assert (D0 : drop_free g0).
  { rewrite Er. apply drop_free_add_edge. apply drop_free_add_node; [apply drop_B; assumption|]. intros [K|[]]. discriminate K. }
  assert (Hw0 : sq_write g0 = [d]) by (unfold sq_write; rewrite T0 by discriminate; exact WB).
  rewrite Hw0.
  assert (Hinv0 : sel_inv2 PC DS [rd] [rd] g0).
  { constructor; [exact L0|exact E0| |exact D0]. intros v [<-|[]]. rewrite Hal. split.
    - rewrite (ext_edges _ _ _ X0). cbn [ematch existsb fst snd]. rewrite !node_eqb_refl. apply orb_true_r.
    - exact (proj1 (ext_new _ _ _ X0 _ (or_introl eq_refl))). }
  destruct (eoq_fold_cte e d D rd a ts' PC Hkd Hks Hkr Hal Hts HPCd HPCD xs HX xs g0 0 (fun x Hx => Hx) Hinv0 Hw0) as (g' & E' & X' & Hinv' & T').
  - rewrite O0. cbn. lia.
  - reflexivity.
  - rewrite E'. rewrite (expand_wildcard_nostar e g').
    + exists g'. split; [reflexivity|]. split; [apply (ext_trans gb g0 g'); assumption|]. split; [exact Hinv'|].
      intros k Hk. rewrite T'. apply T0. exact Hk.
    + intros c Hc. apply HPCstar. exact (write_columns_lits _ g' c (si2_lits _ _ _ _ _ Hinv') Hc).
Qed.
End BodyAlias2.

(* ================================================================== *)
(** * the two cleanups and the composed statement holder, the body reading [rd] *)
Lemma cte_holders_alias e d D rd a ts' xs' xs :
  env_ok e = true -> dk d = KTable -> data_ok d -> dk D = KSubq -> data_ok D ->
  dk rd = KSubq -> data_ok rd -> dataset_eqb rd D = true -> dalias rd = a ->
  group_ok d ts' -> ts_inj ts' -> names_nodot ts' -> Forall data_ok ts' -> Forall xcol_ok xs' -> Forall xcol_ok xs ->
  (forall x, In x xs' -> xref_ok ts' x /\ nostar_x x) -> (forall x, In x xs -> xa_ok a x) ->
  let PC := PCg ts' (unres_names ts' xs') D d in
  let DS := d :: D :: ts' in
  exists bsub sh,
    cte_body_holder e d D rd xs = Ok bsub /\ cte_def_holder e D ts' xs' = Ok sh /\
    sq_cte (compose (add_cte (add_write empty_graph d) D) bsub) = [D] /\
    let G := compose (add_write empty_graph d) (compose (compose (add_cte (add_write empty_graph d) D) bsub) (set_attr sh [NData D] "write" false)) in
    let ELO := map (fun p : dataset * string => (NData (fst p), NStr (snd p))) [(rd, a)] ++ sel_edges d (Sa D) (own_pairs d xs) in
    (forall x y, has_edge G x y = ematch x y (EL_of D ts' xs') || ematch x y ELO) /\
    (forall p, In p (EL_of D ts' xs' ++ ELO) -> has_node G (fst p) = true /\ has_node G (snd p) = true) /\
    lits_in (QK DS PC) G /\ clean_holder G.
Proof.
  intros Henv Hkd Hdd Hks HdD Hkr Hdr Heq Hal Hgo Hinj Hnd Hdo Hxo' Hxo Hxs' Hxs PC DS.
  set (NM := unres_names ts' xs') in *.
  assert (Hsqd : forall v, In v ts' -> dataset_eqb v D = false).
  { intros v Hv. unfold dataset_eqb. rewrite (go_tables _ _ Hgo v Hv), Hks. reflexivity. }
  destruct (gok_bases d D Hdd HdD) as (GB & GD & G1 & GI).
  destruct (gbB_tags d D Hkd Hks) as (WB & CB & RB). destruct (gbD_tags D) as (WD & CD & RD). destruct (g1c_tags d D Hkd Hks) as (W1 & C1).
  assert (HPCstar : forall c, PC c -> String.eqb (craw c) "*" = false) by (intros c [H _]; exact H).
  assert (Gin : group2 (D :: ts') ts' ts' D).
  { constructor; auto.
    - intros v Hv. right. exact Hv.
    - left. reflexivity.
    - rewrite Forall_forall in Hdo. exact Hdo.
    - intros v w [<-|Hv] [<-|Hw] E; [reflexivity| | |exact (go_distinct _ _ Hgo v w Hv Hw E)].
      + rewrite dataset_eqb_sym, (Hsqd w Hw) in E. discriminate.
      + rewrite (Hsqd v Hv) in E. discriminate. }
  destruct (select_core2 PC e (D :: ts') ts' D ts' xs' (S_of ts') (gbD D) Gin HPCstar) as (sh & Esh & Xsh & Ish & Tsh).
  { split; [intros n Hn; rewrite (gbD_nodes D) in Hn; destruct Hn as [<-|[]]; left; reflexivity|intros e0 []]. }
  { intros e0 []. }
  { apply drop_D. }
  { exact WD. }
  { reflexivity. }
  { intros g2 Hinv x Hx. apply (HS_of PC e D ts' g2 x); auto.
    - constructor; [exact (go_tables _ _ Hgo)|exact (go_distinct _ _ Hgo)|exact Hsqd].
    - apply sel_inv2_sel_inv. exact Hinv.
    - exact (proj1 (Hxs' x Hx)). }
  { intros x Hx. destruct (Hxs' x Hx) as [Hxr Hxn].
    destruct (S_of_props d ts' xs' x Hgo Hinj Hkd Hx Hxr) as (A1 & _ & A3 & A4 & _). split; [exact A1|]. split; [|split; [exact A3|]].
    - split; [rewrite (own_col_eq D x A1); exact (proj1 Hxn)|]. right. left. rewrite (own_col_eq D x A1). reflexivity.
    - intros s Hs. destruct (A4 s Hs) as [B1 B2]. split; [|exact B2]. split; [exact (S_of_nostar ts' x s Hxn Hs)|left; exact B1]. }
  assert (Gsh : gok sh).
  { destruct (select_tail e Henv (gbD D) ts' xs' []) as (g3 & E3 & G3 & _); [exact GD|exact Hdo|exact Hxo'|rewrite WD; cbn; lia|].
    rewrite Esh in E3. inversion E3. exact G3. }
  destruct (select_core_cte e d D rd a ts' PC Hkd Hks Hkr Hdr Heq Hal (go_tables _ _ Hgo)) with (xs := xs) as (bsub & Ebs & Xbs & Ibs & Tbs).
  { intros nm Hs. split; [exact Hs|]. right. right. reflexivity. }
  { intros nm Hs. split; [exact Hs|]. right. left. reflexivity. }
  { exact HPCstar. }
  { exact Hxs. }
  assert (Gbs : gok bsub).
  { destruct (select_tail e Henv (gbB d D) [rd] xs []) as (g3 & E3 & G3 & _); [exact GB|constructor; [exact Hdr|constructor]|exact Hxo|rewrite WB; cbn; lia|].
    unfold cte_body_holder in Ebs. fold (gbB d D) in Ebs. rewrite Ebs in E3. inversion E3. exact G3. }
  exists bsub, sh. split; [exact Ebs|]. split; [exact Esh|].
  set (g1 := add_cte (add_write empty_graph d) D). set (g2 := compose g1 bsub). set (sh' := set_attr sh [NData D] "write" false).
  assert (Hcte2 : sq_cte g2 = [D]).
  { assert (HinD : In D (sq_cte g2)).
    { unfold sq_cte, g2. apply tag_compose_mono; [exact Gbs|left; discriminate|]. fold (sq_cte g1). change g1 with (g1c d D). rewrite C1. left. reflexivity. }
    assert (Gg2 : gok g2) by (apply gok_compose; [exact G1|exact Gbs]).
    apply noeqb_single; [unfold sq_cte; rewrite holder_nodes_hn; apply hn_noeqb; exact (proj1 (proj1 Gg2))| |exact HinD].
    intros x Hx. unfold sq_cte, g2 in Hx. destruct (tag_compose_sound g1 bsub "cte" x Gbs Hx) as [H|(d' & Hd' & Ed)].
    - fold (sq_cte g1) in H. change g1 with (g1c d D) in H. rewrite C1 in H. destruct H as [<-|[]]. reflexivity.
    - rewrite (Tbs "cte") in Hd' by discriminate. fold (sq_cte (gbB d D)) in Hd'. rewrite CB in Hd'. destruct Hd' as [<-|[]].
      symmetry. apply (tagged_eqb_eq g2 "cte" "cte" D x Gg2 HinD Hx Ed). }
  split; [exact Hcte2|]. cbv zeta. fold g1 g2 sh'. set (G := compose (add_write empty_graph d) (compose g2 sh')).
  set (ELO := map (fun p : dataset * string => (NData (fst p), NStr (snd p))) [(rd, a)] ++ sel_edges d (Sa D) (own_pairs d xs)).
  assert (HE : forall x y, has_edge G x y = ematch x y (EL_of D ts' xs') || ematch x y ELO).
  { intros x y. unfold G, g2, sh'. rewrite !has_edge_compose, has_edge_set_attr, (ext_edges _ _ _ Xbs), (ext_edges _ _ _ Xsh).
    change (has_edge (add_write empty_graph d) x y) with false. change (has_edge g1 x y) with false.
    change (has_edge (gbB d D) x y) with false. change (has_edge (gbD D) x y) with false. cbn [orb]. apply orb_comm. }
  split; [exact HE|]. split; [|split].
  - intros p Hp0. apply in_app_iff in Hp0.
    assert (Hup2 : forall n, has_node bsub n = true -> has_node G n = true).
    { intros n Hn0. unfold G, g2. rewrite !has_node_compose, Hn0, !orb_true_r. reflexivity. }
    assert (Hups : forall n, has_node sh n = true -> has_node G n = true).
    { intros n Hn0. unfold G, sh'. rewrite !has_node_compose, has_node_set_attr, Hn0, !orb_true_r. reflexivity. }
    destruct Hp0 as [Hp0|Hp0].
    + destruct (ext_new _ _ _ Xsh p Hp0) as [N1 N2]. split; apply Hups; assumption.
    + destruct (ext_new _ _ _ Xbs p Hp0) as [N1 N2]. split; apply Hup2; assumption.
  - unfold G, g2, sh'. apply lits_compose; [split; [intros n [<-|[]]; left; reflexivity|intros e0 []]|].
    apply lits_compose; [apply lits_compose|].
    + split; [intros n Hn0; change g1 with (g1c d D) in Hn0; rewrite (g1c_nodes d D Hkd Hks) in Hn0; destruct Hn0 as [<-|[<-|[]]]; [left; reflexivity|right; left; reflexivity]|intros e0 []].
    + exact (si2_lits _ _ _ _ _ Ibs).
    + apply lits_set_attr. apply (lits_weaken (QK (D :: ts') PC)); [|exact (si2_lits _ _ _ _ _ Ish)].
      intros n. destruct n; cbn [QK]; auto. intros H. right. exact H.
  - apply (clean_of G (rd :: D :: ts')).
    + unfold G, g2, sh'. apply drop_free_compose; [apply drop_I|]. apply drop_free_compose; [apply drop_free_compose; [apply drop_1; assumption|exact (si2_drop _ _ _ _ _ Ibs)]|].
      apply drop_free_set_attr; [exact (si2_drop _ _ _ _ _ Ish)|discriminate].
    + assert (EI : edges_inv (rd :: D :: ts') G); [|exact EI].
      unfold G, g2, sh'. apply edges_inv_compose; [intros e0 []|]. apply edges_inv_compose; [apply edges_inv_compose; [intros e0 []|]|].
      * apply (edges_inv_mono [rd]); [intros v [<-|[]]; left; reflexivity|exact (si2_edges _ _ _ _ _ Ibs)].
      * apply (edges_inv_mono ts'); [intros v Hv; right; right; exact Hv|]. exact (si2_edges _ _ _ _ _ Ish).
Qed.
Print Assumptions cte_holders_alias.
