(** An invariant of every statement holder the extractor [extract] builds, whatever the statement: the node
    attributes are read / write / cte tags only, the edges are has_alias / has_column / lineage edges, none of them
    joins two datasets, and every edge target is a node.  Hence (Holder/RefineDefs.v) the holder is well-formed
    ([wf_holder]) and free of DROP / RENAME ([plain_holder]). *)
From SV Require Import Tree.Render Tree.LemmaA Tree.LemmaAProofs Tree.LemmaB Tree.LemmaBProofs
     Holder.PathProofs Tree.ScriptExact Tree.ScriptWellFormed.
From SV Require Holder.RefineDefs Holder.RefineGraph Holder.CompDefs Holder.Composition.

Definition okeys : list string := ["read"; "write"; "cte"].
Definition otypes : list string := ["has_alias"; "has_column"; "lineage"].
Definition kattrs (a : nattrs) : Prop := forall kv, In kv a -> In (fst kv) okeys.
Definition Kinv (g : graph) : Prop := forall n a, In (n, a) (gnodes g) -> kattrs a.
Definition Tinv (g : graph) : Prop := forall e, In e (gedges g) -> In (etype (snd e)) otypes.
Definition Dinv (g : graph) : Prop := existsb RefineDefs.dd (gedges g) = false.
Definition HI (g : graph) : Prop := Kinv g /\ Tinv g /\ Dinv g /\ RefineDefs.closed_tgt g = true.

Lemma eresp_dd : RefineGraph.eresp RefineDefs.dd.
Proof.
  intros u v a u' v' a' Hu Hv. unfold RefineDefs.dd, RefineDefs.esrc, RefineDefs.etgt. cbn [fst snd].
  rewrite (RefineGraph.is_dataset_eqb _ _ Hu), (RefineGraph.is_dataset_eqb _ _ Hv). reflexivity.
Qed.

Lemma HI_empty : HI empty_graph.
Proof. split; [intros n a []|]. split; [intros e []|]. split; reflexivity. Qed.

Lemma kattrs_update a : forall b, kattrs b -> kattrs a -> kattrs (attr_update b a).
Proof.
  induction a as [|[k v] r IH]; intros b Hb Ha; cbn [attr_update]; [exact Hb|]. apply IH.
  - intros kv H. apply In_attr_set_rw in H. destruct H as [->|H]; [apply (Ha (k, v)); left; reflexivity|apply Hb; exact H].
  - intros kv H. apply Ha. right. exact H.
Qed.

Lemma Kinv_add_node g n a : Kinv g -> kattrs a -> Kinv (add_node g n a).
Proof.
  intros Hg Ha m b Hin. cbn [add_node gnodes] in Hin. apply In_upsert_node in Hin.
  destruct Hin as [H|[H|(b0 & H1 & _ & H3)]]; [exact (Hg m b H)|inversion H; subst; exact Ha|].
  cbn [fst snd] in *. subst b. apply kattrs_update; [exact (Hg m b0 H1)|exact Ha].
Qed.

Lemma closed_add_node g n a : RefineDefs.closed_tgt g = true -> RefineDefs.closed_tgt (add_node g n a) = true.
Proof.
  intros H. apply RefineGraph.closed_In. intros e He. cbn [add_node gedges] in He. rewrite has_node_add_node.
  rewrite (proj1 (RefineGraph.closed_In g) H e He). reflexivity.
Qed.

Lemma HI_add_node g n a : HI g -> kattrs a -> HI (add_node g n a).
Proof.
  intros (K & T & D & C) Ha. split; [apply Kinv_add_node; assumption|]. split; [exact T|]. split; [exact D|apply closed_add_node; exact C].
Qed.

Lemma kattrs_nil : kattrs [].
Proof. intros kv []. Qed.

Lemma HI_add_edge g u v a : HI g -> In (etype a) otypes -> is_dataset u && is_dataset v = false -> HI (add_edge g u v a).
Proof.
  intros (K & T & D & C) Ha Hd. split; [|split; [|split]].
  - intros m b Hin. unfold add_edge in Hin. cbn [gnodes] in Hin.
    exact (Kinv_add_node (add_node g u []) v [] (Kinv_add_node g u [] K kattrs_nil) kattrs_nil m b Hin).
  - intros e He. unfold add_edge in He. cbn [gedges add_node] in He. apply In_upsert_edge' in He.
    destruct He as [->|[He|(e1 & He1 & _ & ->)]]; [exact Ha|exact (T e He)|exact Ha].
  - unfold Dinv. rewrite (RefineGraph.existsb_add_edge _ g u v a eresp_dd), D, orb_false_r. exact Hd.
  - apply RefineGraph.closed_In. intros e He. rewrite has_node_add_edge. unfold add_edge in He. cbn [gedges add_node] in He.
    apply In_upsert_edge' in He. destruct He as [->|[He|(e1 & He1 & _ & ->)]].
    + unfold RefineDefs.etgt. cbn [fst snd]. rewrite (RefineGraph.canon_eqb v _). apply orb_true_r.
    + rewrite (proj1 (RefineGraph.closed_In g) C e He). reflexivity.
    + unfold RefineDefs.etgt. cbn [fst snd]. pose proof (proj1 (RefineGraph.closed_In g) C e1 He1) as H. unfold RefineDefs.etgt in H. rewrite H. reflexivity.
Qed.

Lemma HI_remove_node g n : HI g -> HI (remove_node g n).
Proof.
  intros (K & T & D & C). split; [|split; [|split]].
  - intros m b Hin. cbn [remove_node gnodes] in Hin. apply filter_In in Hin. exact (K m b (proj1 Hin)).
  - intros e He. cbn [remove_node gedges] in He. apply filter_In in He. exact (T e (proj1 He)).
  - unfold Dinv in *. apply RefineGraph.existsb_all_false. intros e He. cbn [remove_node gedges] in He. apply filter_In in He.
    destruct (RefineDefs.dd e) eqn:E; [|reflexivity]. exfalso.
    assert (X : existsb RefineDefs.dd (gedges g) = true) by (apply existsb_exists; exists e; split; [exact (proj1 He)|exact E]). congruence.
  - apply RefineGraph.closed_remove_node. exact C.
Qed.

Lemma HI_set_attr g ns k v : HI g -> In k okeys -> HI (set_attr g ns k v).
Proof.
  intros (K & T & D & C) Hk. split; [|split; [exact T|split; [exact D|rewrite RefineGraph.closed_set_attr; exact C]]].
  intros m b Hin. cbn [set_attr gnodes] in Hin. apply in_map_iff in Hin. destruct Hin as ([m0 b0] & E & Hin). cbn [fst snd] in E.
  destruct (existsb (node_eqb m0) ns); inversion E; subst; [|exact (K m b Hin)].
  intros kv Hkv. apply In_attr_set_rw in Hkv. destruct Hkv as [->|Hkv]; [exact Hk|exact (K m b0 Hin kv Hkv)].
Qed.

Lemma Kinv_fold_nodes hl : (forall n a, In (n, a) hl -> kattrs a) -> forall g, Kinv g ->
  Kinv (fold_left (fun g' p => add_node g' (fst p) (snd p)) hl g).
Proof.
  induction hl as [|[n0 a0] r IH]; intros Hh g Hg; cbn [fold_left]; [exact Hg|]. apply IH.
  - intros n a H. apply (Hh n a). right. exact H.
  - apply Kinv_add_node; [exact Hg|apply (Hh n0 a0); left; reflexivity].
Qed.

Lemma HI_compose g h : HI g -> HI h -> HI (compose g h).
Proof.
  intros (K & T & D & C) (K' & T' & D' & C'). split; [|split; [|split]].
  - intros n a Hin. rewrite gnodes_compose_fold in Hin. exact (Kinv_fold_nodes (gnodes h) K' g K n a Hin).
  - exact (etype_compose (fun s => In s otypes) g h T T').
  - unfold Dinv in *. rewrite (RefineGraph.existsb_compose _ g h eresp_dd), D, D'. reflexivity.
  - apply RefineGraph.closed_compose; assumption.
Qed.

(** ** what the invariant gives *)
Lemma kattrs_get a k : kattrs a -> ~ In k okeys -> attr_get k a = None.
Proof.
  intros Ha Hk. induction a as [|[k' v] r IH]; [reflexivity|]. cbn [attr_get]. destruct (String.eqb k k') eqn:E.
  - apply String.eqb_eq in E. subst k'. exfalso. apply Hk. apply (Ha (k, v)). left. reflexivity.
  - apply IH. intros kv H. apply Ha. right. exact H.
Qed.
Lemma kattrs_no_true a k : kattrs a -> ~ In k okeys -> RefineDefs.no_true k a = true.
Proof.
  intros Ha Hk. unfold RefineDefs.no_true. apply forallb_forall. intros [k' v] Hin. cbn [fst snd].
  destruct (String.eqb k' k) eqn:E; [|reflexivity]. apply String.eqb_eq in E. subst k'. exfalso. apply Hk. apply (Ha (k, v) Hin).
Qed.

Lemma not_okey k : mem_string k okeys = false -> ~ In k okeys.
Proof. intros H Hin. apply mem_string_In in Hin. congruence. Qed.

Theorem HI_holder g : HI g ->
  RefineDefs.wf_holder (holder_of g) = true /\ CompDefs.plain_holder (holder_of g) = true.
Proof.
  intros (K & T & D & C).
  assert (Er : h_renames (holder_of g) = []).
  { unfold holder_of. cbn [h_renames]. apply flat_map_none. intros e He. apply edges_nx_In in He.
    destruct (String.eqb (etype (snd e)) "rename") eqn:E; [|reflexivity]. apply String.eqb_eq in E. pose proof (T e He) as H. rewrite E in H.
    cbn in H. destruct H as [H|[H|[H|[]]]]; discriminate H. }
  assert (Ed : h_drop (holder_of g) = []).
  { unfold h_drop, tagged, holder_of. cbn [hg]. rewrite (filter_none _ (gnodes g)); [reflexivity|].
    intros [n a] Hin. cbn [fst snd]. unfold attr_true. rewrite (kattrs_get a "drop" (K n a Hin) (not_okey "drop" eq_refl)). reflexivity. }
  assert (Edd : RefineDefs.dd_keys g = []).
  { unfold RefineDefs.dd_keys. rewrite (filter_none _ (gedges g)); [reflexivity|]. intros e He.
    destruct (RefineDefs.dd e) eqn:E; [|reflexivity]. exfalso. unfold Dinv in D.
    assert (X : existsb RefineDefs.dd (gedges g) = true) by (apply existsb_exists; exists e; auto). congruence. }
  split.
  - unfold RefineDefs.wf_holder. rewrite Er. change (hg (holder_of g)) with g. rewrite Edd. cbn [map RefineDefs.subset_pairs forallb andb].
    rewrite C, andb_true_r.
    unfold RefineDefs.tag_free. apply forallb_forall. intros [n a] Hin. cbn [fst snd].
    destruct (is_dataset n); [|reflexivity]. cbn [negb orb]. pose proof (K n a Hin) as Ha.
    rewrite (kattrs_get a "source_only" Ha (not_okey "source_only" eq_refl)), (kattrs_get a "target_only" Ha (not_okey "target_only" eq_refl)),
      (kattrs_no_true a "selfloop" Ha (not_okey "selfloop" eq_refl)). reflexivity.
  - unfold CompDefs.plain_holder. rewrite Ed, Er. reflexivity.
Qed.

(* ================================================================== *)
(** * the holder operations and the extractor keep the invariant *)
Definition hk (g g' : graph) : Prop := HI g -> HI g'.
Lemma hk_refl g : hk g g. Proof. intros H; exact H. Qed.
Lemma hk_trans g1 g2 g3 : hk g1 g2 -> hk g2 g3 -> hk g1 g3. Proof. unfold hk. auto. Qed.

Lemma fold_err {A S} (F : S -> A -> res S) l err : fold_left (fun acc x => do st0 <- acc; F st0 x) l (Err err) = Err err.
Proof. induction l as [|x r IH]; [reflexivity|exact IH]. Qed.

Lemma fold_res_hk {A S} (pi : S -> graph) (F : S -> A -> res S) :
  (forall st x st', F st x = Ok st' -> hk (pi st) (pi st')) ->
  forall l st st2, fold_left (fun acc x => do st0 <- acc; F st0 x) l (Ok st) = Ok st2 -> hk (pi st) (pi st2).
Proof.
  intros HF. induction l as [|x r IH]; intros st st2 H; cbn [fold_left] in H; [inversion H; apply hk_refl|].
  change (do st0 <- Ok st; F st0 x) with (F st x) in H. destruct (F st x) as [s1|err] eqn:E.
  - apply (hk_trans _ (pi s1)); [exact (HF st x s1 E)|exact (IH s1 st2 H)].
  - rewrite fold_err in H. discriminate.
Qed.

Lemma fold_idx_hk {A S} (pi : S -> graph) (F : S -> nat -> A -> res S) :
  (forall st i x st', F st i x = Ok st' -> hk (pi st) (pi st')) ->
  forall l rs idx st2,
    fst (fold_left (fun acc2 x => let '(rs, idx) := acc2 in (do st <- rs; F st idx x, Datatypes.S idx)) l (rs, idx)) = Ok st2 ->
    exists st, rs = Ok st /\ hk (pi st) (pi st2).
Proof.
  intros HF. induction l as [|x r IH]; intros rs idx st2 H; cbn [fold_left fst] in H.
  - exists st2. split; [exact H|apply hk_refl].
  - destruct (IH _ _ _ H) as (s1 & E1 & K1). destruct rs as [st|err]; [|discriminate E1]. exists st. split; [reflexivity|].
    apply (hk_trans _ (pi s1)); [exact (HF st idx x s1 E1)|exact K1].
Qed.

Lemma okey_read : kattrs [("read", true)]. Proof. intros kv [<-|[]]. left. reflexivity. Qed.
Lemma okey_write : kattrs [("write", true)]. Proof. intros kv [<-|[]]. right. left. reflexivity. Qed.
Lemma okey_cte : kattrs [("cte", true)]. Proof. intros kv [<-|[]]. right. right. left. reflexivity. Qed.

Lemma otype_alias : In (etype e_has_alias) otypes. Proof. left. reflexivity. Qed.
Lemma otype_col i : In (etype (e_has_column i)) otypes. Proof. right. left. reflexivity. Qed.
Lemma otype_lin : In (etype lineage_edge) otypes. Proof. right. right. left. reflexivity. Qed.

Lemma hk_add_read g v : hk g (add_read g v).
Proof.
  intros H. unfold add_read. destruct (has_alias_attr v); [|apply HI_add_node; [exact H|exact okey_read]].
  apply HI_add_edge; [apply HI_add_node; [exact H|exact okey_read]|exact otype_alias|apply andb_false_r].
Qed.
Lemma hk_add_write g v : hk g (add_write g v).
Proof. intros H. apply HI_add_node; [exact H|exact okey_write]. Qed.
Lemma hk_add_cte g v : hk g (add_cte g v).
Proof. intros H. apply HI_add_node; [exact H|exact okey_cte]. Qed.
Lemma hk_fold (f : graph -> dataset -> graph) : (forall g v, hk g (f g v)) -> forall l g, hk g (fold_left f l g).
Proof. intros Hf. induction l as [|v r IH]; intros g; cbn [fold_left]; [apply hk_refl|]. apply (hk_trans _ (f g v)); [apply Hf|apply IH]. Qed.

Lemma hk_add_write_column g cols : hk g (add_write_column g cols).
Proof.
  unfold add_write_column. destruct (sq_write g) as [|tgt r]; [apply hk_refl|].
  generalize 0 as i. revert g. induction cols as [|c cs IH]; intros g i; cbn [fold_left fst]; [apply hk_refl|].
  eapply hk_trans; [|apply IH]. intros H. apply HI_add_edge; [exact H|apply otype_col|apply andb_false_r].
Qed.

Lemma hk_add_column_lineage g s t g' : add_column_lineage g s t = Ok g' -> hk g g'.
Proof.
  unfold add_column_lineage. destruct (col_parent t) as [tp|]; [|discriminate]. intros H. inversion H as [Hg']. clear H Hg'. intros HI0.
  assert (H1 : HI (add_edge g (NCol s) (NCol t) lineage_edge)) by (apply HI_add_edge; [exact HI0|exact otype_lin|reflexivity]).
  assert (H2 : HI (add_edge (add_edge g (NCol s) (NCol t) lineage_edge) (NData tp) (NCol t) (e_has_column None)))
    by (apply HI_add_edge; [exact H1|apply otype_col|apply andb_false_r]).
  destruct (col_parent s); [apply HI_add_edge; [exact H2|apply otype_col|apply andb_false_r]|exact H2].
Qed.

Lemma HI_init_holder ctx : HI (init_holder ctx).
Proof.
  unfold init_holder.
  assert (H1 : HI (match c_cte ctx with Some l => fold_left add_cte l empty_graph | None => empty_graph end)).
  { destruct (c_cte ctx); [apply (hk_fold add_cte hk_add_cte); exact HI_empty|exact HI_empty]. }
  set (g1 := match c_cte ctx with Some l => fold_left add_cte l empty_graph | None => empty_graph end) in *.
  assert (H2 : HI (match c_write ctx with Some l => fold_left add_write l g1 | None => g1 end)).
  { destruct (c_write ctx); [apply (hk_fold add_write hk_add_write); exact H1|exact H1]. }
  destruct (c_write_columns ctx) as [[|x r]|]; [exact H2|apply hk_add_write_column; exact H2|exact H2].
Qed.

Lemma hk_eoq_step e tg n d g idx x g' : eoq_step e tg n d g idx x = Ok g' -> hk g g'.
Proof.
  unfold eoq_step. destruct (to_source_columns e x (get_alias_mapping g tg)) as [srcs|err]; [|discriminate]. cbv zeta.
  apply (fold_res_hk (fun g => g) (fun g3 s => add_column_lineage g3 s _)). intros g0 s g1. apply hk_add_column_lineage.
Qed.

Lemma hk_eoq e g ts cols bs g2 : end_of_query_cleanup e g ts cols bs = Ok g2 -> hk g g2.
Proof.
  unfold end_of_query_cleanup. cbv zeta. intros H.
  apply (hk_trans _ (fold_left add_read ts g)); [apply (hk_fold add_read hk_add_read)|].
  revert H. apply (fold_res_hk (fun g => g) (fun g1 (grp : list xcol * list dataset) =>
      let '(col_grp, tbl_grp) := grp in
      match sq_write g1 with
      | [] => Ok g1
      | [tgt_tbl] => fst (fold_left (fun acc2 x => let '(rg, idx) := acc2 in
                            (do g2 <- rg; eoq_step e tbl_grp (List.length col_grp) tgt_tbl g2 idx x, S idx)) col_grp (Ok g1, 0))
      | _ :: _ :: _ => Err ELineage
      end)).
  intros g1 [cg tg] g1' H. destruct (sq_write g1) as [|d [|d' l]]; [inversion H; apply hk_refl| |discriminate].
  destruct (fold_idx_hk (fun g => g) (fun g2 idx x => eoq_step e tg (List.length cg) d g2 idx x)
              (fun st i x st' E => hk_eoq_step e tg _ d st i x st' E) cg (Ok g1) 0 g1' H) as (g' & E & K).
  inversion E. subst g'. exact K.
Qed.

Lemma hk_replace_wildcard g tgt cols c sw g' : replace_wildcard g tgt cols c sw = Ok g' -> hk g g'.
Proof.
  unfold replace_wildcard.
  match goal with |- (do g1 <- ?FOLD; _) = _ -> _ => destruct FOLD as [g1|err] eqn:E1 end; [|discriminate].
  cbv zeta. intros H. inversion H. clear H.
  assert (K1 : hk g g1).
  { revert E1. apply (fold_res_hk (fun g => g) (fun g' sc => if existsb (col_eqb {| craw := escape (craw sc); cparents := [tgt] |}) (get_table_columns g tgt) || String.eqb (craw sc) "*" then Ok g'
                                                   else match col_parent sc with
                                                        | None => Err EValue
                                                        | Some sp => Ok (add_edge (add_edge (add_edge g' (NData tgt) (NCol {| craw := escape (craw sc); cparents := [tgt] |}) (e_has_column None))
                                                                                  (NData sp) (NCol sc) (e_has_column None))
                                                                                  (NCol sc) (NCol {| craw := escape (craw sc); cparents := [tgt] |}) lineage_edge)
                                                        end)).
    intros g0 sc g0' H0. destruct (_ || _); [inversion H0; apply hk_refl|].
    destruct (col_parent sc); [|discriminate]. inversion H0. intros HI0.
    apply HI_add_edge; [|exact otype_lin|reflexivity]. apply HI_add_edge; [|apply otype_col|apply andb_false_r].
    apply HI_add_edge; [exact HI0|apply otype_col|apply andb_false_r]. }
  intros HI0. apply K1 in HI0.
  assert (H2 : HI (if has_node g1 (NCol c) then remove_node g1 (NCol c) else g1)) by (destruct (has_node g1 (NCol c)); [apply HI_remove_node|]; exact HI0).
  destruct (has_node _ (NCol sw)); [apply HI_remove_node|]; exact H2.
Qed.

Lemma hk_expand_wildcard e g g' : expand_wildcard e g = Ok g' -> hk g g'.
Proof.
  unfold expand_wildcard. destruct (get_target_table g) as [tgt|]; [|intros H; inversion H; apply hk_refl].
  apply (fold_res_hk (fun g => g) (fun g' c => if String.eqb (craw c) "*"
                                     then fold_left (fun acc2 sw => do g'' <- acc2;
                                            match col_parent sw with
                                            | None => Ok g''
                                            | Some st =>
                                                match (match dk st with
                                                       | KSubq => get_table_columns g'' st
                                                       | KTable => if p_truthy (e_provider e) then provider_columns e st else []
                                                       | KPath => []
                                                       end) with [] => Ok g'' | _ => replace_wildcard g'' tgt _ c sw end
                                            end) (get_source_columns g' c) (Ok g')
                                     else Ok g')).
  intros g0 c g1. destruct (String.eqb (craw c) "*"); [|intros H; inversion H; apply hk_refl].
  apply (fold_res_hk (fun g => g) (fun g'' sw => match col_parent sw with
                                       | None => Ok g''
                                       | Some st =>
                                           match (match dk st with
                                                  | KSubq => get_table_columns g'' st
                                                  | KTable => if p_truthy (e_provider e) then provider_columns e st else []
                                                  | KPath => []
                                                  end) with [] => Ok g'' | _ => replace_wildcard g'' tgt _ c sw end
                                       end)).
  intros g2 sw g3. destruct (col_parent sw) as [st|]; [|intros H; inversion H; apply hk_refl].
  destruct (match dk st with KSubq => _ | KTable => _ | KPath => _ end) eqn:Ec; [intros H; inversion H; apply hk_refl|].
  apply hk_replace_wildcard.
Qed.

(** ** towards the extractor *)
Ltac crunch H :=
  repeat match type of H with
         | (if ?x then _ else _) = _ => destruct x
         | (match ?x with _ => _ end) = _ => destruct x eqn:?; try discriminate H
         end.

Lemma hk_hsp e s g g' : handle_swap_partition e s g = Ok g' -> hk g g'.
Proof.
  unfold handle_swap_partition. intros H. crunch H; inversion H; try apply hk_refl.
  eapply hk_trans; [apply hk_add_read|apply hk_add_write].
Qed.

Lemma hk_hsi e s g g' : handle_select_into e s g = Ok g' -> hk g g'.
Proof.
  unfold handle_select_into. intros H. crunch H; inversion H; try apply hk_refl. destruct a; [apply hk_add_write|apply hk_refl].
Qed.

Lemma hk_handle_child f e st s st' : handle_child f e st s = Ok st' -> hk (s_g st) (s_g st').
Proof.
  unfold handle_child. intros H.
  destruct (handle_swap_partition e s (s_g st)) as [g1|] eqn:E1; [|discriminate]. cbn in H.
  destruct (handle_select_into e s g1) as [g2|] eqn:E2; [|discriminate]. cbn in H.
  destruct (list_tables e s g2); [|discriminate]. cbn in H.
  destruct (if tyis s "select_clause" then _ else _); [|discriminate]. cbn in H. inversion H. cbn [s_g].
  exact (hk_trans _ _ _ (hk_hsp e s _ g1 E1) (hk_hsi e s g1 g2 E2)).
Qed.

(** NOT PROVED here: the extractor keeps the invariant (all four extractor kinds, by induction on the fuel; the
    operations it is built from are covered above: [HI_init_holder], [hk_handle_child], [hk_eoq],
    [hk_expand_wildcard], [hk_add_column_lineage], [HI_compose], [HI_set_attr]) *)
Definition extract_HI_statement : Prop :=
  forall fuel e k stmt ctx g, extract fuel e k stmt ctx = Ok g -> HI g.

(** under that statement, the holder of every rendered statement satisfies the invariant *)
Lemma analyze_HI_of_extract : extract_HI_statement ->
  forall noise e (s : Spec.stmt) G, analyze e false (r_stmt noise s) = Ok G -> HI G.
Proof.
  intros HX noise e s G H. destruct s as [t cols q|t q|t q|q|k].
  - assert (Ea : analyze e false (r_stmt noise (SInsert t cols q)) =
                 extract (3 * depth (r_stmt noise (SInsert t cols q)) + 10) e XCreateInsert (r_stmt noise (SInsert t cols q)) empty_ctx)
      by (destruct cols; reflexivity).
    rewrite Ea in H. exact (HX _ _ _ _ _ _ H).
  - assert (Ea : analyze e false (r_stmt noise (SCtas t q)) =
                 extract (3 * depth (r_stmt noise (SCtas t q)) + 10) e XCreateInsert (r_stmt noise (SCtas t q)) empty_ctx) by reflexivity.
    rewrite Ea in H. exact (HX _ _ _ _ _ _ H).
  - assert (Ea : analyze e false (r_stmt noise (SView t q)) =
                 extract (3 * depth (r_stmt noise (SView t q)) + 10) e XCreateInsert (r_stmt noise (SView t q)) empty_ctx) by reflexivity.
    rewrite Ea in H. exact (HX _ _ _ _ _ _ H).
  - assert (Ea : exists k, analyze e false (r_stmt noise (SQuery q)) =
                 extract (3 * depth (r_stmt noise (SQuery q)) + 10) e k (r_stmt noise (SQuery q)) empty_ctx).
    { destruct q; [exists XSelect|exists XSelect|exists XCte]; reflexivity. }
    destruct Ea as (k & Ea). rewrite Ea in H. exact (HX _ _ _ _ _ _ H).
  - inversion H. exact HI_empty.
Qed.
Print Assumptions analyze_HI_of_extract.
Print Assumptions HI_holder.
