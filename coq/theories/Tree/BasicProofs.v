(** Small facts about the tree model that follow by computation or case analysis. *)
From SV Require Import Tree.Observe.

(** statements that move no data report nothing *)
Theorem analyze_noop e silent t g c r w cm mt ch :
  In t NOOP_TYPES -> analyze e silent (Seg t g c r w cm mt ch) = Ok empty_graph.
Proof.
  intro H. unfold NOOP_TYPES in H. cbn [In] in H.
  repeat (destruct H as [H|H]; [subst t; reflexivity|]). contradiction.
Qed.

Definition SUPPORTED_TYPES : list string :=
  ["select_statement"; "set_expression"; "bracketed";
   "create_table_statement"; "create_table_as_statement"; "create_view_statement";
   "insert_statement"; "insert_overwrite_directory_hive_fmt_statement";
   "with_compound_statement"; "update_statement"; "merge_statement";
   "copy_statement"; "copy_into_table_statement"; "drop_table_statement"; "drop_view_statement";
   "alter_table_statement"; "rename_statement"; "rename_table_statement"] ++ NOOP_TYPES.

(** a statement of an unsupported type: skipped (empty holder) in silent mode, the library's
    own exception otherwise *)
Theorem analyze_unsupported e silent s :
  mem_string (ty s) SUPPORTED_TYPES = false ->
  analyze e silent s = if silent then Ok empty_graph else Err EUnsupported.
Proof.
  intro H. unfold analyze.
  unfold SUPPORTED_TYPES, NOOP_TYPES in H. cbn [app mem_string] in H.
  repeat (apply Bool.orb_false_iff in H; destruct H as [?E H]).
  cbn [mem_string]. rewrite ?E, ?E0, ?E1, ?E2, ?E3, ?E4, ?E5, ?E6, ?E7, ?E8, ?E9, ?E10, ?E11, ?E12, ?E13, ?E14,
    ?E15, ?E16, ?E17, ?E18, ?E19, ?E20, ?E21, ?E22, ?E23, ?E24, ?E25, ?E26, ?E27, ?E28, ?E29, ?E30, ?E31.
  cbn [orb]. unfold NOOP_TYPES. cbn [mem_string].
  rewrite ?E, ?E0, ?E1, ?E2, ?E3, ?E4, ?E5, ?E6, ?E7, ?E8, ?E9, ?E10, ?E11, ?E12, ?E13, ?E14,
    ?E15, ?E16, ?E17, ?E18, ?E19, ?E20, ?E21, ?E22, ?E23, ?E24, ?E25, ?E26, ?E27, ?E28, ?E29, ?E30, ?E31.
  cbn [orb]. reflexivity.
Qed.

(** the dialect name reaches the extractors only through the test dialect == "vertica" *)
Theorem env_dialect_parametric d d' cfg icfg p sc :
  String.eqb d "vertica" = String.eqb d' "vertica" -> mk_env d cfg icfg p sc = mk_env d' cfg icfg p sc.
Proof. intro H. unfold mk_env. rewrite H. reflexivity. Qed.

(** an empty statement holder (what silent mode substitutes for an unsupported statement) does not
    change the assembled graph *)
Definition empty_holder : holder := {| hg := empty_graph; h_renames := [] |}.

Lemma step_empty_holder g : step g empty_holder = BOk g.
Proof. destruct g as [ns es]. reflexivity. Qed.

Theorem fold_steps_skip_empty hs : forall g hs',
  fold_steps g (hs ++ empty_holder :: hs') = fold_steps g (hs ++ hs').
Proof.
  induction hs as [|h hs IH]; intros g hs'; cbn [app fold_steps].
  - rewrite step_empty_holder. reflexivity.
  - destruct (step g h) as [g1| |]; [apply IH|reflexivity|reflexivity].
Qed.

Theorem build_skip_empty p hs hs' : build p (hs ++ empty_holder :: hs') = build p (hs ++ hs').
Proof. unfold build. rewrite fold_steps_skip_empty. reflexivity. Qed.
