(** L3 -> L4 for PARENTHESISED JOIN GROUPS  ( a JOIN b ON 1 = 1 )  whose members are base tables, in a single-level SELECT
    (layout read off the ANSI parser; validated by /tmp/pf_expr/check_render_chain.py groups).  The parser's layout depends on
    the position of the group:
      - as a join operand, or as the first element of a FROM that continues with JOINs:
          from_expression_element > bracketed > ( , table_expression [alias] of a , join_clause of b , )
        (the first member is NOT wrapped in a from_expression_element);
      - as the only element of FROM, or as an element of a comma-separated FROM:
          from_expression > bracketed > ( , from_expression_element of a , join_clause of b , )
        (no from_expression_element around the group).
    Groups nested in groups or holding derived tables have yet other layouts (from_expression inside the bracket) and are
    not rendered here ([group_flat]). *)
From SV Require Export Tree.Render Tree.RenderExpr.
From SV Require Import Tree.LemmaA.

Section RenderG.
  Variable noise : list seg.

  Definition r_tbl (t : tref) (al : option string) : list seg :=
    node "table_expression" ["table_expression"] [r_tref t] :: match al with Some a => [r_alias noise a] | None => [] end.
  Definition fee_tbl (t : tref) (al : option string) : seg :=
    node "from_expression_element" ["from_expression_element"] (sep noise (r_tbl t al)).
  Definition joinc (x : seg) : seg := node "join_clause" ["join_clause"] (sep noise [kw "join"; x; on_clause noise]).

  (** a relation as from_expression_element *)
  Definition fee_of (r : rel) : seg :=
    match r with
    | RTable t al => fee_tbl t al
    | RGroup (RTable ta aa) (RTable tb ab) =>
        node "from_expression_element" ["from_expression_element"]
             [node "bracketed" ["bracketed"] (sep noise (lpar :: r_tbl ta aa ++ [joinc (fee_tbl tb ab); rpar]))]
    | _ => node "from_expression_element" ["from_expression_element"] []
    end.
  (** a relation as a whole from_expression (comma element / only element) *)
  Definition fe_of (r : rel) : seg :=
    match r with
    | RGroup (RTable ta aa) (RTable tb ab) =>
        node "from_expression" ["from_expression"]
             [node "bracketed" ["bracketed"] (sep noise [lpar; fee_tbl ta aa; joinc (fee_tbl tb ab); rpar])]
    | _ => node "from_expression" ["from_expression"] [fee_of r]
    end.

  Definition r_fc_g (from : list rel) (cj : bool) : seg :=
    node "from_clause" ["from_clause"]
         (sep noise (kw "from" ::
                     match from with
                     | r0 :: r1 :: rest =>
                         if cj then intersperse comma (map fe_of from)
                         else [node "from_expression" ["from_expression"] (sep noise (fee_of r0 :: map (fun r => joinc (fee_of r)) (r1 :: rest)))]
                     | _ => map fe_of from
                     end)).

  Definition r_select_g (items : list item) (from : list rel) (cj : bool) : seg :=
    node "select_statement" ["select_statement"]
         (sep noise [node "select_clause" ["select_clause"] (sep noise (kw "select" :: intersperse comma (map (r_item_x noise) items)));
                     r_fc_g from cj]).

  Definition r_stmt_g (s : stmt) : seg :=
    match s with
    | SInsert t None (QSelect items from cj None) =>
        node "insert_statement" ["insert_statement"] (sep noise [kw "insert"; kw "into"; r_tref t; r_select_g items from cj])
    | SCtas t (QSelect items from cj None) =>
        node "create_table_statement" ["create_table_statement"] (sep noise [kw "create"; kw "table"; r_tref t; kw "as"; r_select_g items from cj])
    | SQuery (QSelect items from cj None) => r_select_g items from cj
    | _ => r_stmt_x noise s
    end.
End RenderG.

Definition group_flat (r : rel) : bool :=
  match r with RTable _ _ => true | RGroup (RTable _ _) (RTable _ _) => true | _ => false end.
Definition show_render_g (s : stmt) : string := show_seg 400 (r_stmt_g [] s).
