(** L3 -> L4 for expression select items: how the ANSI parser lays out
      q.c | 1 | coalesce(a, b) | a + b | case when c > 0 then t else e end | cast(a as int) |
      sum(a) over (partition by p order by o)
    (nested arbitrarily, printed without parentheses), with arbitrary trivia [noise] at every gap.
    Validated against the real parser by /tmp/pf_expr/check_render_expr.py (trivia-free comparison of
    [show_render_item] with the parser's select_clause_element).

    Layout facts (read off the parser):
    - inside an [expression] node the operands of [+] are flattened: a + b + c is ONE expression node with the
      children a, +, b, +, c - whatever the association of the abstract syntax ([r_ops]);
    - a column reference, a literal and a function call (coalesce / cast / sum .. over) stand bare as a select item;
      an arithmetic or CASE expression is wrapped in an [expression] node ([r_top]);
    - function arguments, WHEN / THEN / ELSE operands, PARTITION BY operands are always wrapped in [expression];
      an ORDER BY operand is bare when it is a column reference or a literal, else wrapped ([r_ord]);
    - cast(a as int) is a [function] (name cast), not a cast_expression (that is the a::int spelling). *)
From SV Require Export Tree.Render.
From SV Require Import Tree.LemmaA.

Section RenderX.
  Variable noise : list seg.

  Definition wordleaf (n : string) : seg := leaf "word" "function_name_identifier" ["function_name_identifier"; "raw"; "word"] n.
  Definition fname (n : string) : seg := node "function_name" ["function_name"] [wordleaf n].
  Definition binop : seg := sym "binary_operator" "+".
  Definition cmp_gt : seg := node "comparison_operator" ["comparison_operator"] [sym "raw_comparison_operator" ">"].
  Definition dt_int : seg :=
    node "data_type" ["data_type"] [leaf "raw" "data_type_identifier" ["data_type_identifier"; "raw"] "int"].

  (** an [expression] node over the operand list [l] *)
  Definition xnode (l : list seg) : seg := node "expression" ["expression"] (sep noise l).
  Definition brk (l : list seg) : seg := node "bracketed" ["bracketed"] (sep noise (lpar :: l ++ [rpar])).
  Definition fcontents (inner : list seg) : seg := node "function_contents" ["function_contents"] [brk inner].
  Definition func (n : string) (inner extra : list seg) : seg :=
    node "function" ["function"] (sep noise (fname n :: fcontents inner :: extra)).
  Definition when_node (cops : list seg) (t : seg) : seg :=
    node "when_clause" ["when_clause"] (sep noise [kw "when"; xnode (cops ++ [cmp_gt; num "0"]); kw "then"; t]).
  Definition else_node (f : seg) : seg := node "else_clause" ["else_clause"] (sep noise [kw "else"; f]).
  Definition case_node (w el : seg) : seg :=
    node "case_expression" ["case_expression"] (sep noise [kw "case"; w; el; kw "end"]).
  Definition part_node (p : seg) : seg :=
    node "partitionby_clause" ["partitionby_clause"] (sep noise [kw "partition"; kw "by"; p]).
  Definition ord_node (o : seg) : seg :=
    node "orderby_clause" ["orderby_clause"] (sep noise [kw "order"; kw "by"; o]).
  Definition winspec (p o : seg) : seg :=
    node "window_specification" ["window_specification"] (sep noise [part_node p; ord_node o]).
  Definition over_node (p o : seg) : seg :=
    node "over_clause" ["over_clause"] (sep noise [kw "over"; brk [winspec p o]]).

  Definition is_atom (ex : expr) : bool := match ex with EColRef _ _ | ELit => true | _ => false end.
  Definition wraps_top (ex : expr) : bool := match ex with EBin _ _ | ECase _ _ _ => true | _ => false end.
  Definition hd1 (l : list seg) : seg := hd (num "1") l.

  (** the operand sequence of [ex] inside an [expression] node (not yet separated by noise) *)
  Fixpoint r_ops (ex : expr) : list seg :=
    match ex with
    | EColRef q c => [r_colref q c]
    | ELit => [num "1"]
    | EFun a b => [func "coalesce" [xnode (r_ops a); comma; xnode (r_ops b)] []]
    | EBin a b => r_ops a ++ binop :: r_ops b
    | ECase c t f => [case_node (when_node (r_ops c) (xnode (r_ops t))) (else_node (xnode (r_ops f)))]
    | ECast a => [func "cast" [xnode (r_ops a); kw "as"; dt_int] []]
    | EWin a p o =>
        [func "sum" [xnode (r_ops a)]
              [over_node (xnode (r_ops p)) (if is_atom o then hd1 (r_ops o) else xnode (r_ops o))]]
    end.

  Definition r_wrapped (ex : expr) : seg := xnode (r_ops ex).
  Definition r_ord (ex : expr) : seg := if is_atom ex then hd1 (r_ops ex) else xnode (r_ops ex).
  (** as a select item *)
  Definition r_top (ex : expr) : seg := if wraps_top ex then xnode (r_ops ex) else hd1 (r_ops ex).

  Definition r_item_x (i : item) : seg :=
    match i with
    | IExpr ex al =>
        node "select_clause_element" ["select_clause_element"]
             (sep noise (r_top ex :: match al with Some a => [r_alias noise a] | None => [] end))
    | IStar q => r_item noise (IStar q)
    end.

  (** on the items of the old fragment the two renderers coincide *)
  Lemma r_item_x_old i :
    match i with IExpr (EColRef _ _) _ | IStar _ => True | _ => False end -> r_item_x i = r_item noise i.
  Proof. destruct i as [[q c| | | | | |] [a|]|q]; intros H; try contradiction; reflexivity. Qed.

  (** statements: Render.v's layout with [r_item_x] for the select items *)
  Fixpoint r_query_x (fuel : nat) (q : query) : seg :=
    match fuel with
    | O => node "select_statement" ["select_statement"] []
    | S k =>
        let r_rel (r : rel) : seg :=
          node "from_expression_element" ["from_expression_element"]
               (match r with
                | RTable t al =>
                    sep noise (node "table_expression" ["table_expression"] [r_tref t]
                               :: match al with Some a => [r_alias noise a] | None => [] end)
                | RDerived q' a =>
                    sep noise [node "table_expression" ["table_expression"]
                                    [node "bracketed" ["bracketed"] (sep noise [lpar; r_query_x k q'; rpar])];
                               r_alias noise a]
                | RGroup _ _ => []
                end) in
        match q with
        | QSelect items from comma_join wh =>
            node "select_statement" ["select_statement"]
              (sep noise
                 ([node "select_clause" ["select_clause"] (sep noise (kw "select" :: intersperse comma (map r_item_x items)));
                   node "from_clause" ["from_clause"]
                        (sep noise (kw "from" ::
                              (if comma_join
                               then intersperse comma (map (fun r => node "from_expression" ["from_expression"] [r_rel r]) from)
                               else match from with
                                    | [] => []
                                    | r0 :: rest =>
                                        [node "from_expression" ["from_expression"]
                                              (sep noise (r_rel r0 :: map (fun r => node "join_clause" ["join_clause"]
                                                                                   (sep noise [kw "join"; r_rel r; on_clause noise])) rest))]
                                    end)))]
                  ++ match wh with
                     | Some (c, sq) =>
                         [node "where_clause" ["where_clause"]
                               (sep noise [kw "where";
                                     node "expression" ["expression"]
                                          (sep noise [r_colref None c; kw "in";
                                                node "bracketed" ["bracketed"] (sep noise [lpar; r_query_x k sq; rpar])])])]
                     | None => []
                     end))
        | QUnion a b =>
            node "set_expression" ["set_expression"]
                 (sep noise [r_query_x k a; node "set_operator" ["set_operator"] (sep noise [kw "union"; kw "all"]); r_query_x k b])
        | QWith n c b =>
            node "with_compound_statement" ["with_compound_statement"]
                 (sep noise [kw "with";
                       node "common_table_expression" ["common_table_expression"]
                            (sep noise [ident n; kw "as"; node "bracketed" ["bracketed"] (sep noise [lpar; r_query_x k c; rpar])]);
                       r_query_x k b])
        end
    end.

  Definition r_stmt_x (s : stmt) : seg :=
    match s with
    | SInsert t cols q =>
        node "insert_statement" ["insert_statement"]
             (sep noise ([kw "insert"; kw "into"; r_tref t]
                   ++ match cols with
                      | Some cs => [node "bracketed" ["bracketed"] (sep noise (lpar :: intersperse comma (map (r_colref None) cs) ++ [rpar]))]
                      | None => []
                      end
                   ++ [r_query_x (S (q_size q)) q]))
    | SCtas t q =>
        node "create_table_statement" ["create_table_statement"]
             (sep noise [kw "create"; kw "table"; r_tref t; kw "as"; r_query_x (S (q_size q)) q])
    | SView t q =>
        node "create_view_statement" ["create_view_statement"]
             (sep noise [kw "create"; kw "view"; r_tref t; kw "as"; r_query_x (S (q_size q)) q])
    | SQuery q => r_query_x (S (q_size q)) q
    | SNoData _ => r_stmt noise s
    end.
End RenderX.

(** printing (same format as [show_render] in Render.v) *)
Fixpoint show_seg (fuel : nat) (x : seg) : string :=
  match fuel with
  | O => ""
  | S k => (ty x ++ "/" ++ gty x ++ "/" ++ join "," (sort_strings (cls x)) ++
            (match children x with [] => "=" ++ raw x | ch => "(" ++ join " " (map (show_seg k) ch) ++ ")" end))%string
  end.
Definition show_render_item (i : item) : string := show_seg 200 (r_item_x [] i).
Definition show_render_x (s : stmt) : string := show_seg 200 (r_stmt_x [] s).

(** identifiers of an expression are plain *)
Fixpoint expr_ok (ex : expr) : bool :=
  match ex with
  | EColRef q c => id_ok c && match q with Some x => id_ok x | None => true end
  | ELit => true
  | EFun a b | EBin a b => expr_ok a && expr_ok b
  | ECase c t f => expr_ok c && expr_ok t && expr_ok f
  | ECast a => expr_ok a
  | EWin a p o => expr_ok a && expr_ok p && expr_ok o
  end.
