(** Lemma B, step 5b: INSERT (with or without column list) / CREATE TABLE AS / CREATE VIEW AS over a UNION of two plain
    SELECTs (no WHERE) over base tables.

    RESULTS
    - [lemma_B_check] on 26 varied union statements inside and outside [colshape] (two / three branches, the same table in
      both branches, aliases reused across branches, unresolved columns, stars, INSERT column list, item aliases, noise):
      no "FAILS" inside the guards ([b5b_checks]); the statement of Lemma B is not refuted on this fragment.
    - PROVED ([lemma_B_union_partial]): [lemma_B_statement] for every statement of the fragment [sel_union_syntactic]
      (as far as [sshape] allows a set operation: exactly two plain SELECTs) under ONE extra executable hypothesis
      [union_alias_coherent]: a table read in both branches carries the same alias (or none) in both.  The hypothesis is
      an artefact of the proof technique (node objects of the holder are tracked literally; with two aliases the same
      table is two different objects that are equal as graph nodes), not of the statement: [b5b_outside_partial] is an
      instance outside it on which the statement holds.
    - [lemma_B_union_statement] (the full step 5b) is stated, type-checked, NOT proved.  What is missing is exactly the case
      excluded by [union_alias_coherent]; LemmaB5bEnum.v enumerates 52 400 union statements: 6 562 inside the guards, none
      fails, 4 206 are inside the proved fragment, the other 2 356 all violate [union_alias_coherent] only.
    Files: LemmaB5bDefs (definitions), LemmaB5bCore (holder: alias mapping of a group, cleanup with a barrier, realises),
    LemmaB5bNav (navigation on the rendered set_expression), LemmaB5bSpec (specification side), LemmaB5bShape ([colshape]),
    LemmaB5bEnum (exhaustive tests). *)
From Coq Require Import Permutation Lia.
From SV Require Import Tree.Render Tree.LemmaA Tree.LemmaAProofs Tree.LemmaB Tree.LemmaBProofs Tree.LemmaB5bDefs
     Tree.LemmaB5bCore Tree.LemmaB5bNav Tree.LemmaB5bSpec Tree.LemmaB5bShape Ident.Escape Ident.EscapeProofs.

(* ================================================================== *)
(** * helpers *)
Lemma group_ok_sub d ts grp : group_ok d ts -> sub_grp grp ts -> group_ok d grp.
Proof.
  intros [A B C] Hs. constructor.
  - intros v Hv. apply A. apply Hs. exact Hv.
  - intros v w Hv Hw. apply B; apply Hs; assumption.
  - intros v Hv. apply C. apply Hs. exact Hv.
Qed.

Lemma unres_names_inv ts xs nm :
  In nm (unres_names ts xs) -> (forall d1, ts <> [d1]) /\ exists x, In x xs /\ xsrc x = [(nm, None)].
Proof.
  unfold unres_names. intros H.
  assert (K : (forall d1, ts <> [d1]) /\ In nm (flat_map (fun x => match xsrc x with [(c, None)] => [c] | _ => [] end) xs)).
  { destruct ts as [|a [|b r]]; [split; [discriminate|exact H]|destruct H|split; [discriminate|exact H]]. }
  destruct K as [K1 K2]. split; [exact K1|]. apply in_flat_map in K2. destruct K2 as (x & Hx & Hin). exists x. split; [exact Hx|].
  destruct (xsrc x) as [|[c qq] rest]; [destruct Hin|]. destruct qq as [q|]; [destruct Hin|]. destruct rest as [|p r]; [|destruct Hin].
  destruct Hin as [->|[]]. reflexivity.
Qed.

Lemma unres_names_intro ts xs x nm :
  (forall d1, ts <> [d1]) -> In x xs -> xsrc x = [(nm, None)] -> In nm (unres_names ts xs).
Proof.
  intros Hn Hx Ex. unfold unres_names.
  assert (K : In nm (flat_map (fun x => match xsrc x with [(c, None)] => [c] | _ => [] end) xs)).
  { apply in_flat_map. exists x. split; [exact Hx|]. rewrite Ex. left. reflexivity. }
  destruct ts as [|a [|b r]]; [exact K|exfalso; exact (Hn a eq_refl)|exact K].
Qed.

Lemma S_of_unres ts x nm : (forall d1, ts <> [d1]) -> xsrc x = [(nm, None)] -> S_of ts x = [Ucol ts nm].
Proof. intros Hn Ex. unfold S_of. rewrite Ex. destruct ts as [|a [|b r]]; [reflexivity|exfalso; exact (Hn a eq_refl)|reflexivity]. Qed.

Lemma multi_not_one ts : multi ts -> forall d1, ts <> [d1].
Proof. intros (a & b & Ha & Hb & Hab) d1 ->. destruct Ha as [<-|[]], Hb as [<-|[]]. congruence. Qed.

(** a source column with one parent carries the name of the reference; an unqualified one only over a single table *)
Lemma S_of_one_parent ts x s v :
  ts_inj ts -> xref_ok ts x -> In s (S_of ts x) -> cparents s = [v] ->
  exists c qq, xsrc x = [(c, qq)] /\ craw s = c /\ (qq = None -> exists d1, ts = [d1]).
Proof.
  intros Hinj (_ & c & qq & Hx & _ & Hq) Hs Ev. exists c, qq. split; [exact Hx|]. unfold S_of in Hs. rewrite Hx in Hs. destruct qq as [q|].
  - destruct Hq as (v' & Hv' & Eq' & Hu'). rewrite (find_dalias ts q v' Hv' Eq' (fun w Hw E => Hu' w Hw (or_introl E))) in Hs.
    destruct Hs as [<-|[]]. split; [reflexivity|discriminate].
  - destruct Hq as [(d1 & ->)|[Hm _]].
    + destruct Hs as [<-|[]]. split; [reflexivity|]. intros _. exists d1. reflexivity.
    + exfalso. rewrite (multi_not_single ts _ _ _ Hm) in Hs. destruct Hs as [<-|[]].
      destruct (Ucol_props ts c Hinj) as (_ & _ & U3). destruct Hm as (a & b & Ha & Hb & Hab).
      pose proof (two_members _ a b (proj2 (U3 a) Ha) (proj2 (U3 b) Hb) Hab) as Hl. rewrite Ev in Hl. cbn in Hl. lia.
Qed.

(** the name of an unresolved column of one branch is the name of no reference of the other *)
Definition cross (ts : list dataset) (xs xs' : list xcol) : Prop :=
  multi ts -> forall x x' c c' qq, In x xs -> In x' xs' -> xsrc x = [(c, None)] -> xsrc x' = [(c', qq)] -> c' <> c.

Definition UN_of (ts1 ts2 : list dataset) (xs1 xs2 : list xcol) : list (list dataset * string) :=
  map (fun nm => (ts1, nm)) (unres_names ts1 xs1) ++ map (fun nm => (ts2, nm)) (unres_names ts2 xs2).

Lemma UN_of_cases ts1 ts2 xs1 xs2 grp nm :
  In (grp, nm) (UN_of ts1 ts2 xs1 xs2) -> (grp = ts1 /\ In nm (unres_names ts1 xs1)) \/ (grp = ts2 /\ In nm (unres_names ts2 xs2)).
Proof.
  unfold UN_of. intros H. apply in_app_iff in H. destruct H as [H|H]; apply in_map_iff in H; destruct H as (n & E & Hn); inversion E; subst; auto.
Qed.

Lemma xref_multi ts x c : xref_ok ts x -> xsrc x = [(c, None)] -> (forall d1, ts <> [d1]) -> multi ts.
Proof.
  intros (_ & c' & qq & Hx & _ & Hq) Ex Hn. rewrite Ex in Hx. inversion Hx. subst c' qq.
  destruct Hq as [(d1 & E)|[Hm _]]; [exfalso; exact (Hn d1 E)|exact Hm].
Qed.

Lemma UN_of_ok ts1 ts2 xs1 xs2 :
  ts_inj ts1 -> ts_inj ts2 -> (forall x, In x xs1 -> xref_ok ts1 x) -> (forall x, In x xs2 -> xref_ok ts2 x) ->
  cross ts1 xs1 xs2 -> UN_ok (ts1 ++ ts2) (UN_of ts1 ts2 xs1 xs2).
Proof.
  intros Hi1 Hi2 Hx1 Hx2 Hc. split.
  - intros grp nm H. destruct (UN_of_cases _ _ _ _ _ _ H) as [[-> _]|[-> _]].
    + split; [exact Hi1|intros v Hv; apply in_app_iff; left; exact Hv].
    + split; [exact Hi2|intros v Hv; apply in_app_iff; right; exact Hv].
  - intros g1 g2 nm H1 H2.
    destruct (UN_of_cases _ _ _ _ _ _ H1) as [[-> N1]|[-> N1]], (UN_of_cases _ _ _ _ _ _ H2) as [[-> N2]|[-> N2]]; try reflexivity; exfalso.
    + destruct (unres_names_inv _ _ _ N1) as (M1 & x & Hx & Ex). destruct (unres_names_inv _ _ _ N2) as (_ & x' & Hx' & Ex').
      exact (Hc (xref_multi ts1 x nm (Hx1 x Hx) Ex M1) x x' nm nm None Hx Hx' Ex Ex' eq_refl).
    + destruct (unres_names_inv _ _ _ N2) as (M1 & x & Hx & Ex). destruct (unres_names_inv _ _ _ N1) as (_ & x' & Hx' & Ex').
      exact (Hc (xref_multi ts1 x nm (Hx1 x Hx) Ex M1) x x' nm nm None Hx Hx' Ex Ex' eq_refl).
Qed.

(* ================================================================== *)
(** * the model side *)
Lemma grp_src_facts d ts grp xs UN x :
  group_ok d ts -> sub_grp grp ts -> ts_inj grp -> dk d = KTable -> In x xs -> xref_ok grp x ->
  (forall nm, In nm (unres_names grp xs) -> In (grp, nm) UN) ->
  forall s, In s (S_of grp x) ->
    PCu d ts UN s /\ (forall p, In p (cparents s) -> In p ts) /\
    ((exists v, In v ts /\ cparents s = [v]) \/
     (exists g nm, In (g, nm) UN /\ s = Ucol g nm /\ escape nm = nm /\ 2 <= List.length (cparents s))).
Proof.
  intros Hgo Hsub Hinj Hd Hx Hxr HUN s Hs.
  destruct (S_of_props d grp xs x (group_ok_sub d ts grp Hgo Hsub) Hinj Hd Hx Hxr) as (_ & _ & _ & A4 & A5).
  destruct (A4 s Hs) as [_ Hp]. destruct (A5 s Hs) as [(v & Hv & Ev)|(nm & Hnm & E & Enm & Hl)].
  - split; [left; exists v; split; [exact Ev|right; apply Hsub; exact Hv]|].
    split; [intros p Hp'; apply Hsub; apply Hp; exact Hp'|left; exists v; split; [apply Hsub; exact Hv|exact Ev]].
  - split; [right; exists grp, nm; split; [apply HUN; exact Hnm|auto]|].
    split; [intros p Hp'; apply Hsub; apply Hp; exact Hp'|right; exists grp, nm; split; [apply HUN; exact Hnm|auto]].
Qed.

Lemma grp_srcs_ok_of e d ts grp xs UN :
  group_ok d ts -> sub_grp grp ts -> ts_inj grp -> names_nodot grp -> dk d = KTable ->
  (forall x, In x xs -> xref_ok grp x) -> (forall nm, In nm (unres_names grp xs) -> In (grp, nm) UN) ->
  grp_srcs_ok (PCu d ts UN) e d ts grp xs (S_of grp).
Proof.
  intros Hgo Hsub Hinj Hnd Hd Hxr HUN. split.
  - intros g2 Hinv x Hx. apply (HS_of_g (PCu d ts UN) e d ts grp g2 x); auto.
  - intros x Hx. split; [exact (S_of_single grp x (Hxr x Hx))|]. intros s Hs.
    destruct (grp_src_facts d ts grp xs UN x Hgo Hsub Hinj Hd Hx (Hxr x Hx) HUN s Hs) as (A & B & _). auto.
Qed.

Lemma In_spairs_wpairs S d xs names p :
  In p (spairs S (wpairs d xs names)) -> exists x c, In x xs /\ In c names /\ p = (S x, Wcol d c).
Proof.
  unfold spairs, wpairs. intros H. apply in_map_iff in H. destruct H as ([x w] & <- & H).
  pose proof (in_combine_l _ _ _ _ H) as Hx. apply in_combine_r in H. apply in_map_iff in H. destruct H as (c & <- & Hc).
  exists x, c. auto.
Qed.

Section Model.
Variables (d : dataset) (ts1 ts2 : list dataset) (xs1 xs2 : list xcol) (names : list string).
Hypothesis Hgo : group_ok d (ts1 ++ ts2).
Hypothesis Hd : dk d = KTable.
Hypothesis Hi1 : ts_inj ts1.
Hypothesis Hi2 : ts_inj ts2.
Hypothesis Hx1 : forall x, In x xs1 -> xref_ok ts1 x.
Hypothesis Hx2 : forall x, In x xs2 -> xref_ok ts2 x.
Hypothesis Hnq1 : noqual ts1 xs1.
Hypothesis Hnq2 : noqual ts2 xs2.
Hypothesis Hc12 : cross ts1 xs1 xs2.
Hypothesis Hc21 : cross ts2 xs2 xs1.
Hypothesis Hl1 : List.length xs1 = List.length names.
Hypothesis Hl2 : List.length xs2 = List.length names.

Let ts := ts1 ++ ts2.
Let UN := UN_of ts1 ts2 xs1 xs2.
Let L := spairs (S_of ts1) (wpairs d xs1 names) ++ spairs (S_of ts2) (wpairs d xs2 names).

Lemma sub1 : sub_grp ts1 ts. Proof. intros v Hv. apply in_app_iff. left. exact Hv. Qed.
Lemma sub2 : sub_grp ts2 ts. Proof. intros v Hv. apply in_app_iff. right. exact Hv. Qed.
Lemma UN1 nm : In nm (unres_names ts1 xs1) -> In (ts1, nm) UN.
Proof. intros H. apply in_app_iff. left. apply in_map_iff. exists nm. auto. Qed.
Lemma UN2 nm : In nm (unres_names ts2 xs2) -> In (ts2, nm) UN.
Proof. intros H. apply in_app_iff. right. apply in_map_iff. exists nm. auto. Qed.

Lemma L_cases p : In p L ->
  exists grp xs x c, ((grp = ts1 /\ xs = xs1) \/ (grp = ts2 /\ xs = xs2)) /\ In x xs /\ In c names /\ p = (S_of grp x, Wcol d c).
Proof.
  intros H. apply in_app_iff in H. destruct H as [H|H]; apply In_spairs_wpairs in H; destruct H as (x & c & Hx & Hc & ->).
  - exists ts1, xs1, x, c. auto.
  - exists ts2, xs2, x, c. auto.
Qed.

Lemma unres_clash grp xs grp' xs' x x' nm c' qq :
  ((grp = ts1 /\ xs = xs1) \/ (grp = ts2 /\ xs = xs2)) -> ((grp' = ts1 /\ xs' = xs1) \/ (grp' = ts2 /\ xs' = xs2)) ->
  In x xs -> xsrc x = [(nm, None)] -> (forall d1, grp <> [d1]) ->
  In x' xs' -> xsrc x' = [(c', qq)] -> (qq = None -> exists d1, grp' = [d1]) -> c' <> nm.
Proof.
  intros Hg Hg' Hx Ex Hm Hx' Ex' Hq.
  assert (Hmul : multi grp) by (destruct Hg as [[-> ->]|[-> ->]]; [exact (xref_multi _ x nm (Hx1 x Hx) Ex Hm)|exact (xref_multi _ x nm (Hx2 x Hx) Ex Hm)]).
  destruct Hg as [[-> ->]|[-> ->]], Hg' as [[-> ->]|[-> ->]].
  - destruct qq as [q|]; [exact (Hnq1 x x' nm c' q Hx Hx' Ex Ex' Hmul)|]. destruct (Hq eq_refl) as (d1 & E). exfalso. exact (Hm d1 E).
  - exact (Hc12 Hmul x x' nm c' qq Hx Hx' Ex Ex').
  - exact (Hc21 Hmul x x' nm c' qq Hx Hx' Ex Ex').
  - destruct qq as [q|]; [exact (Hnq2 x x' nm c' q Hx Hx' Ex Ex' Hmul)|]. destruct (Hq eq_refl) as (d1 & E). exfalso. exact (Hm d1 E).
Qed.

Theorem union_realises gb sub :
  lits_in (QK (d :: ts) (PCu d ts UN)) gb -> drop_free gb ->
  (forall e0, In e0 (gedges gb) -> String.eqb (etype (snd e0)) "rename" = false) ->
  (forall x y, is_column x = true -> has_edge gb x y = false) ->
  (forall p c, In p ts -> has_edge gb (NData p) (NCol c) = false) ->
  ext gb sub (map (fun v => (NData v, NStr (dalias v))) ts ++
              sel_edges d (S_of ts1) (wpairs d xs1 names) ++ sel_edges d (S_of ts2) (wpairs d xs2 names)) ->
  sel_inv (PCu d ts UN) d ts sub ->
  let G := compose gb sub in
  let FL := flows_of (S_of ts1) (wpairs d xs1 names) ++ flows_of (S_of ts2) (wpairs d xs2 names) in
  clean_holder G /\ lits_in (unres_ok G) G /\ realises G FL /\ flows_ok FL.
Proof.
  intros Lb Db Hbe Hbc Hbd X Hinv G FL.
  assert (EFL : FL = FLW L) by (unfold FL, L; rewrite FLW_app, !flows_of_FLW; reflexivity).
  rewrite EFL. rewrite !sel_edges_SE, <- SE_app in X. fold L in X.
  assert (Hsh : forall grp xs x, ((grp = ts1 /\ xs = xs1) \/ (grp = ts2 /\ xs = xs2)) -> In x xs ->
                 ts_inj grp /\ xref_ok grp x /\
                 forall s, In s (S_of grp x) ->
                   PCu d ts UN s /\ (forall p, In p (cparents s) -> In p ts) /\
                   ((exists v, In v ts /\ cparents s = [v]) \/
                    (exists g nm, In (g, nm) UN /\ s = Ucol g nm /\ escape nm = nm /\ 2 <= List.length (cparents s)))).
  { intros grp xs x [[-> ->]|[-> ->]] Hx.
    - split; [exact Hi1|]. split; [exact (Hx1 x Hx)|]. exact (grp_src_facts d ts ts1 xs1 UN x Hgo sub1 Hi1 Hd Hx (Hx1 x Hx) UN1).
    - split; [exact Hi2|]. split; [exact (Hx2 x Hx)|]. exact (grp_src_facts d ts ts2 xs2 UN x Hgo sub2 Hi2 Hd Hx (Hx2 x Hx) UN2). }
  apply (holder_realises_u d ts UN L gb sub Hgo Hd (UN_of_ok ts1 ts2 xs1 xs2 Hi1 Hi2 Hx1 Hx2 Hc12)); try assumption.
  - intros p Hp. destruct (L_cases p Hp) as (grp & xs & x & c & Hg & Hx & Hc & ->). cbn [fst snd]. split; [exists c; reflexivity|].
    intros s Hs. exact (proj2 (proj2 (proj2 (proj2 (Hsh grp xs x Hg Hx)) s Hs))).
  - intros grp nm H. destruct (UN_of_cases _ _ _ _ _ _ H) as [[-> N]|[-> N]]; destruct (unres_names_inv _ _ _ N) as (M & x & Hx & Ex).
    + destruct (In_combine_l_ex xs1 (map (Wcol d) names) x ltac:(rewrite map_length; exact Hl1) Hx) as (w & Hw).
      exists (S_of ts1 x, w). split.
      * apply in_app_iff. left. unfold spairs. apply in_map_iff. exists (x, w). split; [reflexivity|exact Hw].
      * cbn [fst]. rewrite (S_of_unres ts1 x nm M Ex). left. reflexivity.
    + destruct (In_combine_l_ex xs2 (map (Wcol d) names) x ltac:(rewrite map_length; exact Hl2) Hx) as (w & Hw).
      exists (S_of ts2 x, w). split.
      * apply in_app_iff. right. unfold spairs. apply in_map_iff. exists (x, w). split; [reflexivity|exact Hw].
      * cbn [fst]. rewrite (S_of_unres ts2 x nm M Ex). left. reflexivity.
  - intros p' s' grp nm v H Hp' Hs' Ev.
    destruct (L_cases p' Hp') as (grp' & xs' & x' & c & Hg' & Hx' & _ & ->). cbn [fst] in Hs'.
    destruct (Hsh grp' xs' x' Hg' Hx') as (Hinj' & Hxr' & _).
    destruct (S_of_one_parent grp' x' s' v Hinj' Hxr' Hs' Ev) as (c' & qq & Ex' & Ec & Hq). rewrite Ec.
    destruct (UN_of_cases _ _ _ _ _ _ H) as [[-> N]|[-> N]]; destruct (unres_names_inv _ _ _ N) as (M & x & Hx & Ex).
    + exact (unres_clash ts1 xs1 grp' xs' x x' nm c' qq (or_introl (conj eq_refl eq_refl)) Hg' Hx Ex M Hx' Ex' Hq).
    + exact (unres_clash ts2 xs2 grp' xs' x x' nm c' qq (or_intror (conj eq_refl eq_refl)) Hg' Hx Ex M Hx' Ex' Hq).
Qed.
End Model.

Theorem model_pairs_union noise e (s : stmt) t (cols : option (list string)) i1 f1 c1 i2 f2 c2 :
  noise_ok noise = true -> env_ok e = true ->
  (s = SInsert t cols (uq i1 f1 c1 i2 f2 c2) \/
   (cols = None /\ (s = SCtas t (uq i1 f1 c1 i2 f2 c2) \/ s = SView t (uq i1 f1 c1 i2 f2 c2)))) ->
  tref_ok t = true ->
  match cols with Some cs => forallb id_ok cs = true /\ NoDup cs /\ List.length cs = List.length i1 | None => True end ->
  forallb item_ok i1 = true -> f1 <> [] -> forallb rel_ok f1 = true ->
  forallb item_ok i2 = true -> f2 <> [] -> forallb rel_ok f2 = true ->
  let d := tbl e t None in
  let ts1 := map (tbl_of e) f1 in let ts2 := map (tbl_of e) f2 in
  let xs1 := map xcol_of i1 in let xs2 := map xcol_of i2 in
  let names := match cols with Some cs => cs | None => map xname xs1 end in
  group_ok d (ts1 ++ ts2) -> ts_inj ts1 -> ts_inj ts2 -> names_nodot ts1 -> names_nodot ts2 ->
  (forall x, In x xs1 -> xref_ok ts1 x) -> (forall x, In x xs2 -> xref_ok ts2 x) ->
  noqual ts1 xs1 -> noqual ts2 xs2 -> cross ts1 xs1 xs2 -> cross ts2 xs2 xs1 ->
  List.length xs1 = List.length xs2 -> NoDup (map xname xs1) ->
  script_pairs e false [] [r_stmt noise s] =
  uniq_sorted (sort_strings (map flow_str (flows_of (S_of ts1) (wpairs d xs1 names) ++ flows_of (S_of ts2) (wpairs d xs2 names)))).
Proof.
  intros Hn He Hs Ht Hcols Hit1 Hne1 Hrel1 Hit2 Hne2 Hrel2 d ts1 ts2 xs1 xs2 names Hgo Hi1 Hi2 Hnd1 Hnd2 Hx1 Hx2 Hnq1 Hnq2 Hc12 Hc21 Hlen Hnames.
  set (e' := with_cols e (view_cols [] [])).
  assert (He' : env_ok e' = true) by exact He.
  assert (Hp : p_truthy (e_provider e') = false) by exact (proj1 (env_facts e' He')).
  set (ts := ts1 ++ ts2) in *. set (UN := UN_of ts1 ts2 xs1 xs2). set (PC := PCu d ts UN).
  assert (Hdo : Forall data_ok ts).
  { apply Forall_forall. intros v Hv. unfold data_ok. rewrite (go_tables _ _ Hgo v Hv).
    apply in_app_iff in Hv. destruct Hv as [Hv|Hv]; apply in_map_iff in Hv; destruct Hv as (r & <- & _); destruct r; reflexivity. }
  pose proof (UN_of_ok ts1 ts2 xs1 xs2 Hi1 Hi2 Hx1 Hx2 Hc12) as HUN. fold ts UN in HUN.
  assert (HPC : forall c, PC c -> col_qk c) by (intros c Hc; exact (PCu_qk d ts UN c Hgo eq_refl HUN Hc)).
  pose proof (grp_srcs_ok_of e' d ts ts1 xs1 UN Hgo (sub1 ts1 ts2) Hi1 Hnd1 eq_refl Hx1 (UN1 ts1 ts2 xs1 xs2)) as G1.
  pose proof (grp_srcs_ok_of e' d ts ts2 xs2 UN Hgo (sub2 ts1 ts2) Hi2 Hnd2 eq_refl Hx2 (UN2 ts1 ts2 xs1 xs2)) as G2.
  assert (HWc : forall c, PC (Wcol d c)) by (intros c; left; exists d; split; [reflexivity|left; reflexivity]).
  destruct cols as [cs|].
  - (* INSERT with a column list *)
    destruct Hcols as (Hcs & Hndc & Hlc). destruct Hs as [->|[Hs _]]; [|discriminate Hs].
    pose proof (analyze_insert_cols_union noise Hn e' He' t cs i1 f1 c1 i2 f2 c2 Ht Hcs Hndc Hit1 Hne1 Hrel1 Hit2 Hne2 Hrel2) as Ea.
    unfold union_holder in Ea. change (tbl e' t None) with d in Ea. change (map (tbl_of e') f1) with ts1 in Ea.
    change (map (tbl_of e') f2) with ts2 in Ea. fold xs1 xs2 in Ea.
    assert (Hl1 : List.length xs1 = List.length cs) by (unfold xs1; rewrite map_length; lia).
    assert (Hl2 : List.length xs2 = List.length cs) by lia.
    destruct (union_core_cols PC e' d ts1 ts2 cs xs1 xs2 (S_of ts1) (S_of ts2) Hp Hgo Hdo eq_refl HPC Hndc G1 G2 (fun c _ => HWc c) Hl1 Hl2)
      as (sub & Esub & Xsub & Isub).
    rewrite Esub in Ea.
    destruct (gb_facts d cs eq_refl Hndc) as (GA & GB & GC & GD & GO).
    destruct (union_realises d ts1 ts2 xs1 xs2 cs Hgo eq_refl Hi1 Hi2 Hx1 Hx2 Hnq1 Hnq2 Hc12 Hc21 Hl1 Hl2 (gb_of d cs) sub) as (C1 & C2 & C3 & C4);
      [| | | | |exact Xsub|exact Isub|].
    + split.
      * intros n Hn0. rewrite GB in Hn0. destruct Hn0 as [<-|Hn0]; [left; reflexivity|]. apply in_map_iff in Hn0. destruct Hn0 as (c & <- & Hc). apply HWc.
      * intros e0 He0. rewrite GA in He0. destruct (OE_edge d cs e0 He0) as (j & c & Hc & ->). cbn [fst snd QK]. split; [left; reflexivity|apply HWc].
    + exact GD.
    + intros e0 He0. rewrite GA in He0. destruct (OE_edge d cs e0 He0) as (j & c & _ & ->). reflexivity.
    + intros x y Hx. destruct (has_edge (gb_of d cs) x y) eqn:E; [|reflexivity]. apply has_edge_In in E. destruct E as (e0 & He0 & E1 & _).
      rewrite GA in He0. destruct (OE_edge d cs e0 He0) as (j & c & _ & ->). cbn [fst] in E1. destruct x; try discriminate.
    + intros p c Hp0. destruct (has_edge (gb_of d cs) (NData p) (NCol c)) eqn:E; [|reflexivity]. apply has_edge_In in E. destruct E as (e0 & He0 & E1 & _).
      rewrite GA in He0. destruct (OE_edge d cs e0 He0) as (j & c0 & _ & ->). cbn [fst node_eqb] in E1.
      rewrite (go_target _ _ Hgo p Hp0) in E1. discriminate.
    + apply (script_pairs_of_holder e _ _ _ Ea (proj1 (env_facts e He)) C1 C2 C3 C4).
  - (* no column list *)
    assert (Ea : analyze e' false (r_stmt noise s) = union_holder e' (add_write empty_graph (tbl e' t None)) i1 f1 i2 f2).
    { destruct Hs as [->|[_ [->| ->]]].
      - apply analyze_insert_union; assumption.
      - apply (analyze_create_union noise Hn e' He' false); assumption.
      - apply (analyze_create_union noise Hn e' He' true); assumption. }
    unfold union_holder in Ea. change (tbl e' t None) with d in Ea. change (map (tbl_of e') f1) with ts1 in Ea.
    change (map (tbl_of e') f2) with ts2 in Ea. fold xs1 xs2 in Ea.
    destruct (union_core_own PC e' d ts1 ts2 xs1 xs2 (S_of ts1) (S_of ts2) Hp Hgo Hdo eq_refl HPC (PCu_wcol d ts UN Hgo eq_refl) G1 G2)
      as (sub & Esub & Xsub & Isub).
    + intros x Hx. split; [exact (proj1 (Hx1 x Hx))|apply HWc].
    + exact Hnames.
    + symmetry. exact Hlen.
    + rewrite Esub in Ea.
      assert (Hl1 : List.length xs1 = List.length (map xname xs1)) by (rewrite map_length; reflexivity).
      assert (Hl2 : List.length xs2 = List.length (map xname xs1)) by (rewrite map_length; symmetry; exact Hlen).
      destruct (union_realises d ts1 ts2 xs1 xs2 (map xname xs1) Hgo eq_refl Hi1 Hi2 Hx1 Hx2 Hnq1 Hnq2 Hc12 Hc21 Hl1 Hl2 (add_write empty_graph d) sub) as (C1 & C2 & C3 & C4);
        [split; [intros n [<-|[]]; left; reflexivity|intros e0 []]
        |intros n a [H|[]]; inversion H; intros [K|[]]; discriminate K
        |intros e0 []|reflexivity|reflexivity|exact Xsub|exact Isub|].
      apply (script_pairs_of_holder e _ _ _ Ea (proj1 (env_facts e He)) C1 C2 C3 C4).
Qed.

(* ================================================================== *)
(** * the specification side, branch by branch *)
Lemma xname_xcol_of i : item_ok i = true -> xname (xcol_of i) = item_name i.
Proof. intros H. unfold xname. rewrite (proj1 (xcol_of_facts i H)). reflexivity. Qed.

Lemma map_xname_items items : forallb item_ok items = true -> map xname (map xcol_of items) = map item_name items.
Proof. intros H. rewrite map_map. apply map_ext_in. intros i Hi. apply xname_xcol_of. rewrite forallb_forall in H. apply H. exact Hi. Qed.

Lemma branch_flow_strs e t from items names :
  forallb rel_ok from = true -> forallb item_ok items = true -> tables_cond (e_cfg e) t from -> items_cond from items ->
  map flow_str (flows_of (S_of (map (tbl_of e) from)) (wpairs (tbl e t None) (map xcol_of items) names)) =
  spec_branch_strs (e_cfg e) t from (combine items names).
Proof.
  intros Hrel Hit Htc Hic. unfold flows_of, wpairs, spec_branch_strs. rewrite combine_map, flat_map_map', map_flat_map'. cbn [fst snd].
  apply flat_map_ext_in'. intros [i c] Hic'. cbn [fst snd]. pose proof (in_combine_l _ _ _ _ Hic') as Hi.
  rewrite forallb_forall in Hit.
  destruct (item_corr_n e t from i c Hrel (Hit i Hi) Htc (Hic i Hi)) as (srcs & E1 & E2).
  rewrite E1. cbn [flat_map snd app]. rewrite app_nil_r. symmetry. exact E2.
Qed.

(** an unresolved source names its candidates: the tables of its own FROM clause *)
Lemma item_srcs_shape e t from i a :
  forallb rel_ok from = true -> item_ok i = true -> tables_cond (e_cfg e) t from ->
  (match snd (item_ref i) with
   | Some q => qual1 from q
   | None => (exists r, from = [r]) \/ (2 <= List.length from /\ fst (item_ref i) <> "*")
   end) ->
  In a (flat_map snd (item_cols (map (sbind (e_cfg e)) from) i)) ->
  match a with
  | SUnres c k => k = map (fun r => tref_str (e_cfg e) (rtref r)) from /\ item_ref i = (c, None) /\ 2 <= List.length from
  | _ => True
  end.
Proof.
  intros Hrel Hi Htc Hc. destruct (xcol_of_facts i Hi) as (F1 & F2 & F3 & F4).
  assert (Hrt : forallb is_rtable from = true).
  { rewrite forallb_forall in *. intros r Hr. apply rel_ok_table. apply Hrel. exact Hr. }
  destruct i as [[qq c| | | | | |] al|qq]; cbn [item_ok] in Hi; try discriminate; cbn [item_ref item_name fst snd] in *.
  - destruct qq as [q|].
    + destruct Hc as (r0 & Hr0 & En & Hu). cbn [item_cols col_refs flat_map app resolve fst snd].
      rewrite (find_binding_q (e_cfg e) from q r0 Hrt F4 Hr0 En Hu).
      cbn [sbind b_rel rel_col dedup_src existsb app flat_map snd In]. intros [<-|[]]. exact I.
    + destruct Hc as [(r & ->)|[Hl _]].
      * cbn [map item_cols col_refs flat_map app resolve fst snd sbind b_rel rel_col dedup_src existsb In]. intros [<-|[]]. exact I.
      * destruct Htc as [Hnd _]. cbn [item_cols col_refs flat_map app]. rewrite (resolve_unres (e_cfg e) from c Hl Hnd).
        cbn [dedup_src existsb app flat_map snd In]. intros [<-|[]]. auto.
  - destruct qq as [q|].
    + destruct Hc as (r0 & Hr0 & En & Hu). cbn [item_cols]. rewrite (find_binding_q (e_cfg e) from q r0 Hrt F4 Hr0 En Hu).
      cbn [sbind b_rel flat_map app snd In]. intros [<-|[]]. exact I.
    + destruct Hc as [(r & ->)|[_ Hs]]; [|exfalso; apply Hs; reflexivity].
      cbn [map item_cols flat_map sbind b_rel app snd In]. intros [<-|[]]. exact I.
Qed.

Definition crossI (f : list rel) (i1 i2 : list item) : Prop :=
  2 <= List.length f -> forall i i' c, In i i1 -> In i' i2 -> item_ref i = (c, None) -> fst (item_ref i') <> c.

Lemma srcs_compat e t f1 i1 f2 i2 :
  forallb rel_ok f1 = true -> forallb item_ok i1 = true -> tables_cond (e_cfg e) t f1 -> items_cond f1 i1 ->
  forallb rel_ok f2 = true -> forallb item_ok i2 = true -> tables_cond (e_cfg e) t f2 -> items_cond f2 i2 ->
  crossI f1 i1 i2 -> crossI f2 i2 i1 ->
  forall a b, In a (branch_srcs (e_cfg e) f1 i1 ++ branch_srcs (e_cfg e) f2 i2) ->
              In b (branch_srcs (e_cfg e) f1 i1 ++ branch_srcs (e_cfg e) f2 i2) ->
              src_eqb a b = true -> show_src a = show_src b.
Proof.
  intros Hr1 Ht1 Tc1 Ic1 Hr2 Ht2 Tc2 Ic2 X12 X21 a b Ha Hb E.
  assert (Sh : forall x, In x (branch_srcs (e_cfg e) f1 i1 ++ branch_srcs (e_cfg e) f2 i2) ->
               match x with
               | SUnres c k => exists f ia ib i, ((f = f1 /\ ia = i1 /\ ib = i2) \/ (f = f2 /\ ia = i2 /\ ib = i1)) /\ In i ia /\
                                 k = map (fun r => tref_str (e_cfg e) (rtref r)) f /\ item_ref i = (c, None) /\ 2 <= List.length f
               | _ => True
               end).
  { intros x Hx. apply in_app_iff in Hx. destruct Hx as [Hx|Hx]; unfold branch_srcs in Hx; apply in_flat_map in Hx; destruct Hx as (i & Hi & Hx).
    - rewrite forallb_forall in Ht1. pose proof (item_srcs_shape e t f1 i x Hr1 (Ht1 i Hi) Tc1 (Ic1 i Hi) Hx) as K.
      destruct x as [| c k |]; [exact I| |exact I]. exists f1, i1, i2, i. split; [left; auto|]. split; [exact Hi|exact K].
    - rewrite forallb_forall in Ht2. pose proof (item_srcs_shape e t f2 i x Hr2 (Ht2 i Hi) Tc2 (Ic2 i Hi) Hx) as K.
      destruct x as [| c k |]; [exact I| |exact I]. exists f2, i2, i1, i. split; [right; auto|]. split; [exact Hi|exact K]. }
  pose proof (Sh a Ha) as Sa. pose proof (Sh b Hb) as Sb.
  destruct a as [ta ca|ca ka|ta], b as [tb0 cb|cb kb|tb0]; cbn [src_eqb] in E; try discriminate.
  - apply andb_true_iff in E. destruct E as [E1 E2]. apply String.eqb_eq in E1, E2. subst. reflexivity.
  - apply String.eqb_eq in E. subst cb.
    destruct Sa as (fa & ia & ia' & i & Ga & Hi & -> & Ra & La). destruct Sb as (fb & ib & ib' & i' & Gb & Hi' & -> & Rb & Lb).
    destruct Ga as [(-> & -> & ->)|(-> & -> & ->)], Gb as [(-> & -> & ->)|(-> & -> & ->)]; try reflexivity; exfalso.
    + apply (X12 La i i' ca Hi Hi' Ra). rewrite Rb. reflexivity.
    + apply (X21 La i i' ca Hi Hi' Ra). rewrite Rb. reflexivity.
  - apply String.eqb_eq in E. subst. reflexivity.
Qed.

(* ================================================================== *)
(** * Lemma B for a UNION of two SELECTs over base tables, from conditions on the syntax *)
Lemma cross_of e f i1 i2 :
  forallb item_ok i1 = true -> forallb item_ok i2 = true -> crossI f i1 i2 ->
  cross (map (tbl_of e) f) (map xcol_of i1) (map xcol_of i2).
Proof.
  intros Hit1 Hit2 HX Hm x x' c c' qq Hx Hx' Ex Ex'.
  assert (Hl : 2 <= List.length f).
  { destruct Hm as (a & b & Ha & Hb & Hab). rewrite <- (map_length (tbl_of e)). apply (two_members _ a b Ha Hb Hab). }
  apply in_map_iff in Hx, Hx'. destruct Hx as (i & <- & Hi). destruct Hx' as (i' & <- & Hi').
  rewrite forallb_forall in Hit1, Hit2.
  destruct (xcol_of_facts i (Hit1 i Hi)) as (_ & F2 & _). destruct (xcol_of_facts i' (Hit2 i' Hi')) as (_ & F2' & _).
  rewrite F2 in Ex. rewrite F2' in Ex'. inversion Ex as [Ei]. inversion Ex' as [Ei'].
  pose proof (HX Hl i i' c Hi Hi' Ei) as K. rewrite Ei' in K. exact K.
Qed.

Theorem lemma_B_union_tables noise e (s : stmt) t (cols : option (list string)) i1 f1 c1 i2 f2 c2 :
  noise_ok noise = true -> env_ok e = true ->
  (s = SInsert t cols (uq i1 f1 c1 i2 f2 c2) \/
   (cols = None /\ (s = SCtas t (uq i1 f1 c1 i2 f2 c2) \/ s = SView t (uq i1 f1 c1 i2 f2 c2)))) ->
  tref_ok t = true ->
  match cols with Some cs => forallb id_ok cs = true /\ NoDup cs /\ List.length cs = List.length i1 | None => True end ->
  forallb item_ok i1 = true -> f1 <> [] -> forallb rel_ok f1 = true ->
  forallb item_ok i2 = true -> f2 <> [] -> forallb rel_ok f2 = true ->
  tables_cond (e_cfg e) t f1 -> items_cond f1 i1 -> noqual_items f1 i1 ->
  tables_cond (e_cfg e) t f2 -> items_cond f2 i2 -> noqual_items f2 i2 ->
  List.length i1 = List.length i2 -> NoDup (map item_name i1) -> crossI f1 i1 i2 -> crossI f2 i2 i1 ->
  group_ok (tbl e t None) (map (tbl_of e) f1 ++ map (tbl_of e) f2) ->
  script_pairs e false [] [r_stmt noise s] = spec_pairs (e_cfg e) s.
Proof.
  intros Hn He Hs Ht Hcols Hit1 Hne1 Hrel1 Hit2 Hne2 Hrel2 Tc1 Ic1 Nq1 Tc2 Ic2 Nq2 Hlen Hnd X12 X21 Hgo.
  rewrite (model_pairs_union noise e s t cols i1 f1 c1 i2 f2 c2 Hn He Hs Ht Hcols Hit1 Hne1 Hrel1 Hit2 Hne2 Hrel2 Hgo
             (ts_inj_of e t f1 Hrel1 Tc1) (ts_inj_of e t f2 Hrel2 Tc2) (names_nodot_of e f1 Hrel1) (names_nodot_of e f2 Hrel2)
             (xref_ok_of e t f1 i1 Hrel1 Hit1 Tc1 Ic1) (xref_ok_of e t f2 i2 Hrel2 Hit2 Tc2 Ic2)
             (noqual_of e f1 i1 Hit1 Nq1) (noqual_of e f2 i2 Hit2 Nq2)
             (cross_of e f1 i1 i2 Hit1 Hit2 X12) (cross_of e f2 i2 i1 Hit2 Hit1 X21)
             ltac:(rewrite !map_length; exact Hlen) ltac:(rewrite (map_xname_items i1 Hit1); exact Hnd)).
  unfold spec_pairs. apply us_ext. intros x.
  rewrite map_app, in_app_iff, (branch_flow_strs e t f1 i1 _ Hrel1 Hit1 Tc1 Ic1), (branch_flow_strs e t f2 i2 _ Hrel2 Hit2 Tc2 Ic2).
  rewrite (map_xname_items i1 Hit1).
  set (names := match cols with Some cs => cs | None => map item_name i1 end).
  symmetry. apply (spec_union_members (e_cfg e) s t names i1 f1 c1 i2 f2 c2).
  - destruct cols as [cs|].
    + right. destruct Hs as [->|[Hs _]]; [reflexivity|discriminate Hs].
    + left. split; [reflexivity|]. destruct Hs as [->|[_ [->| ->]]]; auto.
  - apply rel_ok_rtable. exact Hrel1.
  - apply rel_ok_rtable. exact Hrel2.
  - exact Hlen.
  - unfold names. destruct cols as [cs|]; [exact (proj2 (proj2 Hcols))|apply map_length].
  - exact (item_cols_single e t f1 i1 Hrel1 Hit1 Tc1 Ic1).
  - exact (item_cols_single e t f2 i2 Hrel2 Hit2 Tc2 Ic2).
  - exact (srcs_compat e t f1 i1 f2 i2 Hrel1 Hit1 Tc1 Ic1 Hrel2 Hit2 Tc2 Ic2 X12 X21).
Qed.

(* ================================================================== *)
(** * the fragment and the extra hypothesis, executable *)
Fixpoint union_tree_ok (q : query) : bool :=
  match q with
  | QSelect _ from _ None => forallb is_rtable from && trefs_distinct (map rtref from)
  | QUnion a b => union_tree_ok a && union_tree_ok b
  | _ => false
  end.

(** INSERT (with or without column list) / CREATE TABLE AS / CREATE VIEW AS over a set operation whose operands are
    (set operations of) SELECTs without WHERE, each from base tables, no table twice in one FROM.
    ([sshape] allows exactly two plain SELECTs as operands.) *)
Definition sel_union_syntactic (s : stmt) : bool :=
  match s with
  | SInsert _ _ (QUnion a b) | SCtas _ (QUnion a b) | SView _ (QUnion a b) => union_tree_ok a && union_tree_ok b
  | _ => false
  end.

(** two table references of the two branches that may denote the same table are the same reference under the same alias *)
Definition alias_coherent (f1 f2 : list rel) : bool :=
  forallb (fun r => forallb (fun r' => negb (tref_clash (rtref r) (rtref r'))
                                       || (tref_eqb (rtref r) (rtref r') && ostr_eqb (ralias r) (ralias r'))) f2) f1.
Definition union_alias_coherent (s : stmt) : bool :=
  match stmt_query s with
  | Some (QUnion (QSelect _ f1 _ _) (QSelect _ f2 _ _)) => alias_coherent f1 f2
  | _ => true
  end.

Lemma ostr_eqb_eq a b : ostr_eqb a b = true -> a = b.
Proof. destruct a, b; cbn [ostr_eqb]; try discriminate; [intros H; apply String.eqb_eq in H; subst; reflexivity|reflexivity]. Qed.
Lemma tref_eqb_eq a b : tref_eqb a b = true -> a = b.
Proof.
  destruct a as [sa na], b as [sb nb]. unfold tref_eqb. cbn [fst snd]. intros H. apply andb_true_iff in H. destruct H as [H1 H2].
  apply ostr_eqb_eq in H1. apply String.eqb_eq in H2. subst. reflexivity.
Qed.

Lemma group_ok_union e t f1 f2 :
  forallb rel_ok f1 = true -> forallb rel_ok f2 = true ->
  tables_cond (e_cfg e) t f1 -> tables_cond (e_cfg e) t f2 -> alias_coherent f1 f2 = true ->
  group_ok (tbl e t None) (map (tbl_of e) f1 ++ map (tbl_of e) f2).
Proof.
  intros Hr1 Hr2 Tc1 Tc2 Hco.
  pose proof (group_ok_of e t f1 Hr1 Tc1) as [A1 B1 C1]. pose proof (group_ok_of e t f2 Hr2 Tc2) as [A2 B2 C2].
  assert (Hx : forall v w, In v (map (tbl_of e) f1) -> In w (map (tbl_of e) f2) -> dataset_eqb v w = true -> v = w).
  { intros v w Hv Hw E. apply in_map_iff in Hv, Hw. destruct Hv as (r & <- & Hr). destruct Hw as (r' & <- & Hr').
    rewrite forallb_forall in Hr1, Hr2. pose proof (Hr1 r Hr) as Ok1. pose proof (Hr2 r' Hr') as Ok2.
    rewrite (tbl_of_table e r (rel_ok_table r Ok1)), (tbl_of_table e r' (rel_ok_table r' Ok2)) in *.
    apply tbl_eqb_str in E. apply (tref_str_eq_clash _ _ _ (rel_ok_id r Ok1) (rel_ok_id r' Ok2)) in E.
    unfold alias_coherent in Hco. rewrite forallb_forall in Hco. specialize (Hco r Hr). rewrite forallb_forall in Hco. specialize (Hco r' Hr').
    rewrite E in Hco. cbn [negb orb] in Hco. apply andb_true_iff in Hco. destruct Hco as [K1 K2].
    rewrite (tref_eqb_eq _ _ K1), (ostr_eqb_eq _ _ K2). reflexivity. }
  constructor.
  - intros v Hv. apply in_app_iff in Hv. destruct Hv; auto.
  - intros v w Hv Hw E. apply in_app_iff in Hv, Hw. destruct Hv as [Hv|Hv], Hw as [Hw|Hw]; auto.
    symmetry. apply Hx; [exact Hw|exact Hv|apply dataset_eqb_true_sym; exact E].
  - intros v Hv. apply in_app_iff in Hv. destruct Hv; auto.
Qed.

Lemma stmt_ok_union t i1 f1 c1 i2 f2 c2 :
  tref_ok t && frag_query (S (q_size (uq i1 f1 c1 i2 f2 c2))) (uq i1 f1 c1 i2 f2 c2)
  && names_ok_q (S (q_size (uq i1 f1 c1 i2 f2 c2))) [] (uq i1 f1 c1 i2 f2 c2) = true ->
  forallb is_rtable f1 = true -> forallb is_rtable f2 = true ->
  tref_ok t = true /\ (forallb item_ok i1 = true /\ f1 <> [] /\ forallb rel_ok f1 = true) /\
  (forallb item_ok i2 = true /\ f2 <> [] /\ forallb rel_ok f2 = true).
Proof.
  intros Hok Hrt1 Hrt2. apply andb_true_iff in Hok. destruct Hok as [Hok Hnames]. apply andb_true_iff in Hok. destruct Hok as [Ht Hfrag].
  assert (Hsz : exists k, q_size (uq i1 f1 c1 i2 f2 c2) = S (S k)) by (eexists; reflexivity). destruct Hsz as [k Hk].
  rewrite Hk in Hfrag, Hnames. cbn [frag_query names_ok_q uq] in Hfrag, Hnames. rewrite !andb_true_r in Hfrag, Hnames.
  apply andb_true_iff in Hfrag. destruct Hfrag as [Fa Fb]. apply andb_true_iff in Hnames. destruct Hnames as [Na Nb].
  split; [exact Ht|]. split.
  - apply andb_true_iff in Fa. destruct Fa as [Fa _]. apply andb_true_iff in Fa. destruct Fa as [_ Hne].
    apply andb_true_iff in Na. destruct Na as [Hitems Hrels].
    split; [exact Hitems|]. split; [destruct f1; [discriminate|discriminate]|].
    revert Hrels. apply forallb_impl. intros r Hr. rewrite forallb_forall in Hrt1. specialize (Hrt1 r Hr). destruct r; try discriminate. auto.
  - apply andb_true_iff in Fb. destruct Fb as [Fb _]. apply andb_true_iff in Fb. destruct Fb as [_ Hne].
    apply andb_true_iff in Nb. destruct Nb as [Hitems Hrels].
    split; [exact Hitems|]. split; [destruct f2; [discriminate|discriminate]|].
    revert Hrels. apply forallb_impl. intros r Hr. rewrite forallb_forall in Hrt2. specialize (Hrt2 r Hr). destruct r; try discriminate. auto.
Qed.

(* ================================================================== *)
(** * step 5b *)

(** the full statement of step 5b (type-checked; proved below under one more hypothesis) *)
Definition lemma_B_union_statement : Prop :=
  forall noise e s,
    noise_ok noise = true -> env_ok e = true -> stmt_ok s = true -> sshape s = true -> colshape s = true ->
    sel_union_syntactic s = true ->
    script_pairs e false [] [r_stmt noise s] = spec_pairs (e_cfg e) s.

Print Assumptions model_pairs_union.
Print Assumptions lemma_B_union_tables.

(** the shape of a statement of the fragment *)
Lemma union_fragment_shape s :
  sshape s = true -> sel_union_syntactic s = true ->
  exists t cols i1 f1 c1 i2 f2 c2,
    (s = SInsert t cols (uq i1 f1 c1 i2 f2 c2) \/ (cols = None /\ (s = SCtas t (uq i1 f1 c1 i2 f2 c2) \/ s = SView t (uq i1 f1 c1 i2 f2 c2)))) /\
    (forallb is_rtable f1 = true /\ trefs_distinct (map rtref f1) = true) /\
    (forallb is_rtable f2 = true /\ trefs_distinct (map rtref f2) = true).
Proof.
  intros Hss Hsy.
  assert (K : forall a b, sshape_q (QUnion a b) = true -> union_tree_ok a && union_tree_ok b = true ->
              exists i1 f1 c1 i2 f2 c2, QUnion a b = uq i1 f1 c1 i2 f2 c2 /\
                (forallb is_rtable f1 = true /\ trefs_distinct (map rtref f1) = true) /\
                (forallb is_rtable f2 = true /\ trefs_distinct (map rtref f2) = true)).
  { intros a b Hq Hu. unfold sshape_q in Hq. cbn [qshape] in Hq.
    apply andb_true_iff in Hq. destruct Hq as [Hq _]. apply andb_true_iff in Hq. destruct Hq as [Hq _]. apply andb_true_iff in Hq. destruct Hq as [Sa Sb].
    destruct a as [i1 f1 c1 w1| |]; try discriminate. destruct b as [i2 f2 c2 w2| |]; try discriminate.
    apply andb_true_iff in Hu. destruct Hu as [U1 U2]. cbn [union_tree_ok] in U1, U2.
    destruct w1 as [w1|]; [discriminate|]. destruct w2 as [w2|]; [discriminate|].
    apply andb_true_iff in U1, U2. exists i1, f1, c1, i2, f2, c2. split; [reflexivity|]. split; assumption. }
  destruct s as [t cols q|t q|t q|q|kind]; cbn [sel_union_syntactic] in Hsy; try discriminate;
    destruct q as [| a b |]; try discriminate; cbn [sshape] in Hss;
    destruct (K a b Hss Hsy) as (i1 & f1 & c1 & i2 & f2 & c2 & E & H1 & H2); rewrite E.
  - exists t, cols, i1, f1, c1, i2, f2, c2. split; [left; reflexivity|]. split; assumption.
  - exists t, None, i1, f1, c1, i2, f2, c2. split; [right; split; [reflexivity|left; reflexivity]|]. split; assumption.
  - exists t, None, i1, f1, c1, i2, f2, c2. split; [right; split; [reflexivity|right; reflexivity]|]. split; assumption.
Qed.

(** STEP 5b, partial: the statement of Lemma B on INSERT / CTAS / VIEW over a UNION of two SELECTs from distinct base
    tables, provided a table read by both branches carries the same alias in both ([union_alias_coherent]) *)
Theorem lemma_B_union_partial : forall noise e s,
  noise_ok noise = true -> env_ok e = true -> stmt_ok s = true -> sshape s = true -> colshape s = true ->
  sel_union_syntactic s = true -> union_alias_coherent s = true ->
  script_pairs e false [] [r_stmt noise s] = spec_pairs (e_cfg e) s.
Proof.
  intros noise e s Hn He Hok Hss Hc Hsy Hco.
  destruct (union_fragment_shape s Hss Hsy) as (t & cols & i1 & f1 & c1 & i2 & f2 & c2 & Hs & [Hrt1 Hd1] & [Hrt2 Hd2]).
  set (q := uq i1 f1 c1 i2 f2 c2) in *.
  assert (Hok' : tref_ok t && frag_query (S (q_size q)) q && names_ok_q (S (q_size q)) [] q = true /\
                 match cols with Some cs => forallb id_ok cs = true | None => True end).
  { destruct Hs as [->|[-> [->| ->]]]; cbn [stmt_ok] in Hok.
    - apply andb_true_iff in Hok. destruct Hok as [Hok Hcs]. split; [exact Hok|]. destruct cols; [exact Hcs|exact I].
    - split; [exact Hok|exact I].
    - split; [exact Hok|exact I]. }
  destruct Hok' as [Hok' Hcs].
  destruct (stmt_ok_union t i1 f1 c1 i2 f2 c2 Hok' Hrt1 Hrt2) as (Ht & (Hit1 & Hne1 & Hrel1) & (Hit2 & Hne2 & Hrel2)).
  assert (Hu : union_stmt_of s t q).
  { destruct Hs as [->|[_ [->| ->]]]; [left; eexists; reflexivity|right; left; reflexivity|right; right; reflexivity]. }
  destruct (colshape_union (e_cfg e) s t i1 f1 c1 i2 f2 c2 Hu Hc Ht Hne1 Hrel1 Hit1 Hd1 Hne2 Hrel2 Hit2 Hd2)
    as ((Tc1 & Ic1 & Nq1) & (Tc2 & Ic2 & Nq2) & Hlen & Hnd & X12 & X21).
  assert (Hcols : match cols with Some cs => forallb id_ok cs = true /\ NoDup cs /\ List.length cs = List.length i1 | None => True end).
  { destruct cols as [cs|]; [|exact I]. destruct Hs as [E|[E _]]; [|discriminate E].
    destruct (colshape_union_cols' s t cs i1 f1 c1 i2 f2 c2 E Hc Ht Hne1 Hrel1 Hit1 Hd1 Hne2 Hrel2 Hit2 Hd2) as (A & B & _). auto. }
  assert (Hal : alias_coherent f1 f2 = true).
  { destruct Hs as [->|[_ [->| ->]]]; exact Hco. }
  apply (lemma_B_union_tables noise e s t cols i1 f1 c1 i2 f2 c2 Hn He Hs Ht Hcols Hit1 Hne1 Hrel1 Hit2 Hne2 Hrel2
           Tc1 Ic1 Nq1 Tc2 Ic2 Nq2 Hlen Hnd X12 X21 (group_ok_union e t f1 f2 Hrel1 Hrel2 Tc1 Tc2 Hal)).
Qed.
Print Assumptions lemma_B_union_partial.

(** when no table is read by both branches the extra hypothesis holds by itself *)
Definition union_tables_disjoint (s : stmt) : bool :=
  match stmt_query s with
  | Some (QUnion (QSelect _ f1 _ _) (QSelect _ f2 _ _)) =>
      forallb (fun r => forallb (fun r' => negb (tref_clash (rtref r) (rtref r'))) f2) f1
  | _ => true
  end.

Lemma disjoint_coherent s : union_tables_disjoint s = true -> union_alias_coherent s = true.
Proof.
  unfold union_tables_disjoint, union_alias_coherent. destruct (stmt_query s) as [q|]; [|reflexivity].
  destruct q as [| a b |]; try reflexivity. destruct a as [i1 f1 c1 w1| |]; try reflexivity. destruct b as [i2 f2 c2 w2| |]; try reflexivity.
  unfold alias_coherent. apply forallb_impl. intros r _. apply forallb_impl. intros r' _ H. rewrite H. reflexivity.
Qed.

Corollary lemma_B_union_disjoint : forall noise e s,
  noise_ok noise = true -> env_ok e = true -> stmt_ok s = true -> sshape s = true -> colshape s = true ->
  sel_union_syntactic s = true -> union_tables_disjoint s = true ->
  script_pairs e false [] [r_stmt noise s] = spec_pairs (e_cfg e) s.
Proof. intros noise e s Hn He Hok Hss Hc Hsy Hdj. apply lemma_B_union_partial; try assumption. apply disjoint_coherent. exact Hdj. Qed.
Print Assumptions lemma_B_union_disjoint.

(* ================================================================== *)
(** * instances: the statement tested before proving, non-vacuity, what the extra hypothesis excludes *)
Definition b5_ws : seg := Seg "whitespace" "whitespace" ["whitespace"; "raw"] " " true false false [].
Definition b5_cm : seg := Seg "comment" "inline_comment" ["comment"; "inline_comment"; "raw"] "-- x" false true false [].
Definition b5_e1 : env := mk_env "ansi" "" "" {| p_truthy := false; p_cols := [] |} [].
Definition b5_e2 : env := mk_env "ansi" "dflt" "dflt" {| p_truthy := false; p_cols := [] |} [].

Definition b5_tests : list (list seg * env * stmt) := [
 (* 1 two branches, different tables *)
 ([], b5_e1, SInsert tx None (QUnion (sel1 [ci None "a"; ci None "b"] [tb "t"]) (sel1 [ci None "c"; ci None "d"] [tb "u"])));
 (* 2 the same table in both branches *)
 ([b5_ws], b5_e1, SInsert tx None (QUnion (sel1 [ci None "a"; ci None "b"] [tb "t"]) (sel1 [ci None "c"; ci None "a"] [tb "t"])));
 (* 3, 4 three branches, both nestings: outside [sshape] *)
 ([], b5_e1, SInsert tx None (QUnion (QUnion (sel1 [ci None "a"] [tb "t"]) (sel1 [ci None "c"] [tb "u"])) (sel1 [ci None "d"] [tb "v"])));
 ([], b5_e1, SInsert tx None (QUnion (sel1 [ci None "a"] [tb "t"]) (QUnion (sel1 [ci None "c"] [tb "u"]) (sel1 [ci None "d"] [tb "v"]))));
 (* 5 one alias for the same table in both branches *)
 ([b5_ws; b5_cm], b5_e2, SCtas tx (QUnion (sel1 [ci (Some "r") "a"] [tba "t" "r"]) (sel1 [ci (Some "r") "b"] [tba "t" "r"])));
 (* 6 one alias for different tables *)
 ([], b5_e1, SCtas tx (QUnion (sel1 [ci (Some "r") "a"] [tba "t" "r"]) (sel1 [ci (Some "r") "b"] [tba "u" "r"])));
 (* 7 K-C02-4: outside [colshape] *)
 ([], b5_e1, cxB_alias_reuse);
 (* 8, 9 an unqualified column over two tables (unresolved) in the first / second branch *)
 ([b5_ws], b5_e1, SView tx (QUnion (QSelect [ci None "a"; ci (Some "t") "b"] [tb "t"; tb "u"] true None) (sel1 [ci None "c"; ci None "d"] [tb "v"])));
 ([b5_ws], b5_e2, SView tx (QUnion (sel1 [ci None "c"; ci None "d"] [tb "v"]) (QSelect [ci None "a"; ci (Some "t") "b"] [tb "t"; tb "u"] false None)));
 (* 10 - 13 stars *)
 ([], b5_e1, SInsert tx None (QUnion (sel1 [IStar None] [tb "t"]) (sel1 [IStar None] [tb "u"])));
 ([], b5_e1, SInsert tx None (QUnion (sel1 [IStar None] [tb "t"]) (sel1 [ci None "a"] [tb "u"])));
 ([], b5_e1, SInsert tx None (QUnion (sel1 [ci None "a"] [tb "t"]) (sel1 [IStar None] [tb "u"])));
 ([], b5_e1, SInsert tx None (QUnion (sel1 [IStar (Some "t"); ci (Some "u") "a"] [tb "t"; tb "u"]) (sel1 [ci None "a"; ci None "b"] [tb "v"])));
 (* 14, 15 INSERT column list *)
 ([b5_ws], b5_e1, SInsert tx (Some ["p"; "q"]) (QUnion (sel1 [ci None "a"; ci None "b"] [tb "t"]) (sel1 [ci None "c"; ci None "d"] [tb "u"])));
 ([b5_ws], b5_e1, SInsert tx (Some ["b"; "a"]) (QUnion (sel1 [ci None "a"; ci None "b"] [tb "t"]) (sel1 [ci None "c"; ci None "d"] [tb "u"])));
 (* 16, 17 item aliases / names of the second branch differing from (permuting) those of the first *)
 ([], b5_e2, SInsert tx None (QUnion (sel1 [cia None "a" "x1"; cia None "b" "x2"] [tb "t"]) (sel1 [cia None "c" "x2"; cia None "d" "x1"] [tb "u"])));
 ([], b5_e1, SInsert tx None (QUnion (sel1 [ci None "a"; ci None "b"] [tb "t"]) (sel1 [ci None "b"; ci None "a"] [tb "u"])));
 (* 18 one column twice in the second branch *)
 ([], b5_e1, SInsert tx None (QUnion (sel1 [ci None "a"; ci None "b"] [tb "t"]) (sel1 [ci None "a"; ci None "a"] [tb "t"])));
 (* 19 schema-qualified tables *)
 ([b5_cm], b5_e2, SCtas (Some "s", "x") (QUnion (sel1 [ci (Some "t") "a"] [tbs "s1" "t" None]) (sel1 [ci (Some "u") "b"] [tbs "s2" "u" None])));
 (* 20 the same table under two aliases *)
 ([], b5_e1, SInsert tx None (QUnion (sel1 [ci (Some "p") "a"] [tba "t" "p"]) (sel1 [ci (Some "q") "b"] [tba "t" "q"])));
 (* 21 an alias of the first branch is a table name of the second: outside [colshape] *)
 ([], b5_e1, SInsert tx None (QUnion (sel1 [ci (Some "u") "a"] [tba "t" "u"]) (sel1 [ci (Some "u") "b"] [tb "u"])));
 (* 22 joins in both branches, one table shared *)
 ([b5_ws], b5_e1, SInsert tx None (QUnion (sel1 [ci (Some "t") "a"; ci None "z"] [tb "t"; tb "u"]) (sel1 [ci (Some "u") "b"; ci (Some "w") "c"] [tb "u"; tb "w"])));
 (* 23 one unresolved name in both branches: outside [colshape] *)
 ([b5_ws], b5_e1, SInsert tx None (QUnion (sel1 [ci None "z"] [tb "t"; tb "u"]) (sel1 [ci None "z"] [tb "u"; tb "w"])));
 (* 24 stars under a column list *)
 ([b5_ws], b5_e1, SInsert tx (Some ["p"]) (QUnion (sel1 [IStar None] [tb "t"]) (sel1 [IStar None] [tb "u"])));
 ([b5_ws], b5_e1, SView tx (QUnion (sel1 [ci None "a"] [tb "t"]) (sel1 [ci None "b"] [tb "u"])));
 (* 26 K-C02-4 again: outside [colshape] *)
 ([], b5_e1, SInsert tx None (QUnion (sel1 [ci (Some "r") "a"] [tba "t" "r"]) (sel1 [ci (Some "r") "b"; ci (Some "t") "c"] [tba "u" "r"; tb "t"])))
].

(** [lemma_B_check] (all guards of [lemma_B_statement]) on these: no "FAILS" *)
Lemma b5b_checks :
  map (fun p => lemma_B_check (fst (fst p)) (snd (fst p)) (snd p)) b5_tests =
  ["holds"; "holds"; "outside"; "outside"; "holds"; "holds"; "outside"; "holds"; "holds"; "holds"; "holds"; "holds"; "holds"; "holds";
   "holds"; "holds"; "holds"; "holds"; "holds"; "holds"; "outside"; "holds"; "outside"; "holds"; "holds"; "outside"].
Proof. vm_compute. reflexivity. Qed.

(** without [colshape] two of them fail (K-C02-4) *)
Lemma b5b_checks0 :
  map (fun p => lemma_B_check0 (fst (fst p)) (snd (fst p)) (snd p)) b5_tests =
  ["holds"; "holds"; "outside"; "outside"; "holds"; "holds"; "FAILS"; "holds"; "holds"; "holds"; "holds"; "holds"; "holds"; "holds";
   "holds"; "holds"; "holds"; "holds"; "holds"; "holds"; "holds"; "holds"; "holds"; "holds"; "holds"; "FAILS"].
Proof. vm_compute. reflexivity. Qed.

(** all hypotheses of [lemma_B_union_partial] *)
Definition b5_hyps (p : list seg * env * stmt) : bool :=
  noise_ok (fst (fst p)) && env_ok (snd (fst p)) && stmt_ok (snd p) && sshape (snd p) && colshape (snd p)
  && sel_union_syntactic (snd p) && union_alias_coherent (snd p).

(** non-vacuity: which of the instances satisfy them (19 of the 26; the others are outside [sshape] / [colshape], or the
    twentieth, see below) *)
Example b5b_nonvacuous :
  map b5_hyps b5_tests =
  [true; true; false; false; true; true; false; true; true; true; true; true; true; true;
   true; true; true; true; true; false; false; true; false; true; true; false].
Proof. vm_compute. reflexivity. Qed.

(** the theorem on one of them: unresolved column, shared table, joins, noise *)
Example b5b_instance :
  script_pairs b5_e1 false [] [r_stmt [b5_ws]
     (SInsert tx None (QUnion (sel1 [ci (Some "t") "a"; ci None "z"] [tb "t"; tb "u"]) (sel1 [ci (Some "u") "b"; ci (Some "w") "c"] [tb "u"; tb "w"])))] =
  ["<default>.t.a><default>.x.a"; "<default>.u.b><default>.x.a"; "<default>.w.c><default>.x.z"; "z{<default>.t,<default>.u}><default>.x.z"].
Proof. rewrite lemma_B_union_partial by (vm_compute; reflexivity). vm_compute. reflexivity. Qed.

(** what [union_alias_coherent] excludes: the same table under two aliases (instance 20).  The statement of Lemma B
    holds on it; it is outside the proved fragment only *)
Definition b5_two_aliases : stmt :=
  SInsert tx None (QUnion (sel1 [ci (Some "p") "a"] [tba "t" "p"]) (sel1 [ci (Some "q") "b"] [tba "t" "q"])).
Lemma b5b_outside_partial :
  noise_ok [] && env_ok b5_e1 && stmt_ok b5_two_aliases && sshape b5_two_aliases && colshape b5_two_aliases
  && sel_union_syntactic b5_two_aliases = true /\
  union_alias_coherent b5_two_aliases = false /\
  lemma_B_check [] b5_e1 b5_two_aliases = "holds".
Proof. vm_compute. auto. Qed.
