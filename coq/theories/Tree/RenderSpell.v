(** Spelling-parameterised rendering (properties C07 / C16).  Definitions only; proofs in Tree/LemmaASpell.v.

    [r_stmt_spr sp kwf noise s] is [Render.r_stmt noise s] except that every identifier leaf whose raw text is [x]
    in [r_stmt] is written [sp r x], where [r] is the syntactic ROLE of the leaf ([R_TABLE] .. [R_SCHEMA]), and every
    keyword leaf whose raw text is [k] is written [kwf k].  Nothing else changes: same shapes, types, class types,
    flags, symbols, literals, trivia.  [r_stmt_sp sp kwf noise s] is the instance "the same spelling [sp] for all roles".
    [Render.v] is not touched; [r_stmt_spr_id] / [r_stmt_sp_id]: the identity spellings give back [r_stmt].

    [sp_ok] (one spelling) / [spr_ok] (a family) / [kw_ok] are the admissible spellings; the concrete spellings
    [upper], [sp_cap], [sp_alt], [sp_dq] ("x"), [sp_bt] (`x`), [sp_br] ([x]) are proved admissible in LemmaASpell.v. *)
From SV Require Export Tree.Render Tree.LemmaA Ident.Escape.
From SV Require Import Ident.EscapeProofs.

Definition kw_sp (kwf : string -> string) (w : string) : seg := kw (kwf w).
Definition ident_sp (sp : string -> string) (n : string) : seg := ident (sp n).

(** the syntactic roles an identifier leaf can have in the fragment: each role may be spelled in its own way *)
Definition R_TABLE := 0.    (* the name of a table reference (INSERT / CREATE target, FROM, JOIN; a CTE used as a table) *)
Definition R_ALIAS := 1.    (* the name an alias expression introduces (table alias, derived-table alias, item alias) *)
Definition R_COL := 2.      (* the column name of a column reference (select item, WHERE column, INSERT column list) *)
Definition R_QUAL := 3.     (* the qualifier of a column reference *)
Definition R_STARQ := 4.    (* the qualifier of a star *)
Definition R_CTE := 5.      (* the name a WITH clause defines *)
Definition R_SCHEMA := 6.   (* a schema / database part of a table reference *)

Section RenderSp.
  Variable sp : nat -> string -> string.
  Variable kwf : string -> string.
  Variable noise : list seg.

  Definition r_tref_spr (t : tref) : seg :=
    node "table_reference" ["object_reference"; "table_reference"]
         (match fst t with
          | Some s => intersperse dot (map (ident_sp (sp R_SCHEMA)) (split_dot_aux s)) ++ [dot; ident_sp (sp R_TABLE) (snd t)]
          | None => [ident_sp (sp R_TABLE) (snd t)]
          end).

  Definition r_colref_spr (q : option string) (c : string) : seg :=
    node "column_reference" ["column_reference"; "object_reference"]
         (match q with Some x => [ident_sp (sp R_QUAL) x; dot; ident_sp (sp R_COL) c] | None => [ident_sp (sp R_COL) c] end).

  Definition r_alias_spr (a : string) : seg :=
    node "alias_expression" ["alias_expression"]
         (sep noise [node "alias_operator" ["alias_operator"] [kw_sp kwf "as"]; ident_sp (sp R_ALIAS) a]).

  Definition r_item_spr (i : item) : seg :=
    node "select_clause_element" ["select_clause_element"]
         (match i with
          | IExpr (EColRef q c) al =>
              sep noise (r_colref_spr q c :: match al with Some a => [r_alias_spr a] | None => [] end)
          | IExpr _ al => sep noise (num "1" :: match al with Some a => [r_alias_spr a] | None => [] end)
          | IStar q =>
              [node "wildcard_expression" ["wildcard_expression"]
                    [node "wildcard_identifier" ["wildcard_identifier"; "object_reference"]
                          (match q with Some x => [ident_sp (sp R_STARQ) x; dot; star_seg] | None => [star_seg] end)]]
          end).

  Definition on_clause_sp : seg :=
    node "join_on_condition" ["join_on_condition"]
         (sep noise [kw_sp kwf "on"; node "expression" ["expression"]
                             (sep noise [num "1"; node "comparison_operator" ["comparison_operator"] [sym "raw_comparison_operator" "="]; num "1"])]).

  Fixpoint r_query_spr (fuel : nat) (q : query) : seg :=
    match fuel with
    | O => node "select_statement" ["select_statement"] []
    | S k =>
        let r_rel (r : rel) : seg :=
          node "from_expression_element" ["from_expression_element"]
               (match r with
                | RTable t al =>
                    sep noise (node "table_expression" ["table_expression"] [r_tref_spr t]
                         :: match al with Some a => [r_alias_spr a] | None => [] end)
                | RDerived q' a =>
                    sep noise [node "table_expression" ["table_expression"]
                              [node "bracketed" ["bracketed"] (sep noise [lpar; r_query_spr k q'; rpar])];
                         r_alias_spr a]
                | RGroup _ _ => []
                end) in
        match q with
        | QSelect items from comma_join wh =>
            node "select_statement" ["select_statement"]
              (sep noise ([node "select_clause" ["select_clause"] (sep noise (kw_sp kwf "select" :: intersperse comma (map r_item_spr items)));
                     node "from_clause" ["from_clause"]
                          (sep noise (kw_sp kwf "from" ::
                                (if comma_join
                                 then intersperse comma (map (fun r => node "from_expression" ["from_expression"] [r_rel r]) from)
                                 else match from with
                                      | [] => []
                                      | r0 :: rest =>
                                          [node "from_expression" ["from_expression"]
                                                (sep noise (r_rel r0 :: map (fun r => node "join_clause" ["join_clause"]
                                                                                     (sep noise [kw_sp kwf "join"; r_rel r; on_clause_sp])) rest))]
                                      end)))]
                    ++ match wh with
                       | Some (c, sq) =>
                           [node "where_clause" ["where_clause"]
                                 (sep noise [kw_sp kwf "where";
                                       node "expression" ["expression"]
                                            (sep noise [r_colref_spr None c; kw_sp kwf "in";
                                                  node "bracketed" ["bracketed"] (sep noise [lpar; r_query_spr k sq; rpar])])])]
                       | None => []
                       end))
        | QUnion a b =>
            node "set_expression" ["set_expression"]
                 (sep noise [r_query_spr k a; node "set_operator" ["set_operator"] (sep noise [kw_sp kwf "union"; kw_sp kwf "all"]); r_query_spr k b])
        | QWith n c b =>
            node "with_compound_statement" ["with_compound_statement"]
                 (sep noise [kw_sp kwf "with";
                       node "common_table_expression" ["common_table_expression"]
                            (sep noise [ident_sp (sp R_CTE) n; kw_sp kwf "as"; node "bracketed" ["bracketed"] (sep noise [lpar; r_query_spr k c; rpar])]);
                       r_query_spr k b])
        end
    end.

  Definition r_stmt_spr (s : stmt) : seg :=
    match s with
    | SInsert t cols q =>
        node "insert_statement" ["insert_statement"]
             (sep noise ([kw_sp kwf "insert"; kw_sp kwf "into"; r_tref_spr t]
                   ++ match cols with
                      | Some cs => [node "bracketed" ["bracketed"] (sep noise (lpar :: intersperse comma (map (r_colref_spr None) cs) ++ [rpar]))]
                      | None => []
                      end
                   ++ [r_query_spr (S (q_size q)) q]))
    | SCtas t q =>
        node "create_table_statement" ["create_table_statement"]
             (sep noise [kw_sp kwf "create"; kw_sp kwf "table"; r_tref_spr t; kw_sp kwf "as"; r_query_spr (S (q_size q)) q])
    | SView t q =>
        node "create_view_statement" ["create_view_statement"]
             (sep noise [kw_sp kwf "create"; kw_sp kwf "view"; r_tref_spr t; kw_sp kwf "as"; r_query_spr (S (q_size q)) q])
    | SQuery q => r_query_spr (S (q_size q)) q
    | SNoData _ => node "delete_statement" ["delete_statement"] (sep noise [kw_sp kwf "delete"; kw_sp kwf "from"; r_tref_spr (None, "t")])
    end.
End RenderSp.

(** sanity: the identity spellings give the renderer of Tree/Render.v *)
Lemma r_query_spr_id noise : forall k q, r_query_spr (fun _ x => x) (fun w => w) noise k q = r_query noise k q.
Proof.
  induction k as [|k IH]; intros q; [reflexivity|].
  assert (Hrel : forall r : rel,
    node "from_expression_element" ["from_expression_element"]
      (match r with
       | RTable t al => sep noise (node "table_expression" ["table_expression"] [r_tref_spr (fun _ x => x) t]
                                   :: match al with Some a => [r_alias_spr (fun _ x => x) (fun w => w) noise a] | None => [] end)
       | RDerived q' a => sep noise [node "table_expression" ["table_expression"]
                                       [node "bracketed" ["bracketed"] (sep noise [lpar; r_query_spr (fun _ x => x) (fun w => w) noise k q'; rpar])];
                                     r_alias_spr (fun _ x => x) (fun w => w) noise a]
       | RGroup _ _ => []
       end) =
    node "from_expression_element" ["from_expression_element"]
      (match r with
       | RTable t al => sep noise (node "table_expression" ["table_expression"] [r_tref t]
                                   :: match al with Some a => [r_alias noise a] | None => [] end)
       | RDerived q' a => sep noise [node "table_expression" ["table_expression"]
                                       [node "bracketed" ["bracketed"] (sep noise [lpar; r_query noise k q'; rpar])];
                                     r_alias noise a]
       | RGroup _ _ => []
       end)).
  { intros r. destruct r as [t al|q' a|x y]; [reflexivity| |reflexivity]. rewrite IH. reflexivity. }
  destruct q as [items from cj wh|a b|n c b].
  - cbn [r_query_spr r_query]. unfold node. f_equal.
  - cbn [r_query_spr r_query]. rewrite !IH. reflexivity.
  - cbn [r_query_spr r_query]. rewrite !IH. reflexivity.
Qed.

Lemma r_stmt_spr_id noise s : r_stmt_spr (fun _ x => x) (fun w => w) noise s = r_stmt noise s.
Proof. destruct s as [t cols q|t q|t q|q|x]; cbn [r_stmt_spr r_stmt]; rewrite ?r_query_spr_id; reflexivity. Qed.

(** one spelling for all roles: the renderer asked for by properties C07 / C16 *)
Definition r_query_sp (sp kwf : string -> string) (noise : list seg) (k : nat) (q : query) : seg := r_query_spr (fun _ => sp) kwf noise k q.
Definition r_stmt_sp (sp kwf : string -> string) (noise : list seg) (s : stmt) : seg := r_stmt_spr (fun _ => sp) kwf noise s.

Lemma r_stmt_sp_id noise s : r_stmt_sp (fun x => x) (fun w => w) noise s = r_stmt noise s.
Proof. apply r_stmt_spr_id. Qed.

(* ================================================================== *)
(** * Admissible spellings *)

(** an identifier spelling is admissible when the normalisation [escape] (escape_identifier_name) gives back the
    plain lower-case name, and the written text contains no dot (the extractors split raw texts at dots:
    [table_of] / [rsplit_dot], the CTE lookup of [add_dataset_from_fee], [extract_column_qualifier] on wildcards) *)
Definition sp_ok (sp : string -> string) : Prop :=
  forall x, id_ok x = true -> escape (sp x) = x /\ sexists is_dot (sp x) = false.

(** a family of spellings, one per role *)
Definition spr_ok (sp : nat -> string -> string) : Prop := forall r, sp_ok (sp r).

(** a keyword spelling is admissible when it only changes letter case (the model reads keyword raws through
    [raw_upper] only) *)
Definition kw_ok (kwf : string -> string) : Prop := forall k, upper (kwf k) = upper k.

(** ** the spellings of properties C07 / C16 *)
(** any function that changes only the letter case (upper-casing, capitalising, aLtErNaTiNg ...) *)
Definition case_only (f : string -> string) : Prop := forall x, lower (f x) = lower x.
(** quoting *)
Definition sp_dq (x : string) : string := String """"%char (x ++ """").
Definition sp_bt (x : string) : string := String "`"%char (x ++ "`").
Definition sp_br (x : string) : string := String "["%char (x ++ "]").
(** two concrete mixed casings, for the tests *)
Definition sp_cap (x : string) : string := match x with String c r => String (to_upper c) r | EmptyString => EmptyString end.
Fixpoint sp_alt (b : bool) (x : string) : string :=
  match x with String c r => String (if b then to_upper c else c) (sp_alt (negb b) r) | EmptyString => EmptyString end.

(** executable form of the spelling statements, for testing before proving *)
Definition lemma_A_spr_check (sp : nat -> string -> string) (kwf : string -> string) (noise : list seg) (e : env) (s : stmt) : string :=
  if list_eqb (stmt_reads (analyze e false (r_stmt_spr sp kwf noise s))) (sort_strings (spec_reads (e_cfg e) s))
     && list_eqb (stmt_writes (analyze e false (r_stmt_spr sp kwf noise s))) (sort_strings (spec_writes (e_cfg e) s))
  then "holds" else "FAILS".
Definition lemma_A_sp_check (sp kwf : string -> string) (noise : list seg) (e : env) (s : stmt) : string :=
  lemma_A_spr_check (fun _ => sp) kwf noise e s.
(** a different spelling per role, for the tests: the role number picks the spelling *)
Definition sp_by_role (l : list (string -> string)) (r : nat) : string -> string := nth r l (fun x => x).

